(* Proofs about the INTEGER content reader and writer (C07, integer half). *)
From Coq Require Import ZArith NArith List Bool Lia ZifyBool.
From Coq.Strings Require Import Byte.
From SV Require Import Base.Bytes Base.Py Gen.Generated Asn1.Model Asn1.Spec.
Import ListNotations.
Local Open Scope Z_scope.
#[local] Arguments Z.sub : simpl never.
#[local] Arguments Z.add : simpl never.
#[local] Arguments Z.mul : simpl never.
#[local] Arguments Z.opp : simpl never.
#[local] Arguments Z.div : simpl never.
#[local] Arguments Z.modulo : simpl never.
#[local] Arguments Z.pow : simpl never.
#[local] Arguments Z.ltb : simpl never.
#[local] Arguments Z.leb : simpl never.
#[local] Arguments Z.eqb : simpl never.

Lemma pow256_pos n : 0 < 256 ^ Z.of_nat n.
Proof. apply Z.pow_pos_nonneg; lia. Qed.

Lemma pow256_0 : 256 ^ Z.of_nat 0 = 1.
Proof. reflexivity. Qed.

Lemma pow256_S n : 256 ^ Z.of_nat (S n) = 256 * 256 ^ Z.of_nat n.
Proof. rewrite Nat2Z.inj_succ, Z.pow_succ_r by lia. reflexivity. Qed.

(* ---- unsigned values *)

Lemma ube_range bs : 0 <= ube bs < 256 ^ Z.of_nat (length bs).
Proof.
  induction bs as [|b bs IH]; cbn [ube length].
  - rewrite ?pow256_0. lia.
  - rewrite pow256_S. pose proof (b2z_range b). pose proof (pow256_pos (length bs)). nia.
Qed.

Lemma ube_app a b : ube (a ++ b) = ube a * 256 ^ Z.of_nat (length b) + ube b.
Proof.
  induction a as [|x a IH]; cbn [ube app length].
  - lia.
  - rewrite IH, app_length, Nat2Z.inj_add, Z.pow_add_r by lia. ring.
Qed.

Lemma ube_snoc a x : ube (a ++ [x]) = ube a * 256 + b2z x.
Proof. rewrite ube_app. cbn [ube length]. rewrite pow256_S, pow256_0. lia. Qed.

Lemma be_valz_fold bs acc :
  fold_left (fun a b => a * 256 + b2z b) bs acc = acc * 256 ^ Z.of_nat (length bs) + ube bs.
Proof.
  revert acc; induction bs as [|b bs IH]; intros acc; cbn [fold_left ube length].
  - rewrite ?pow256_0. lia.
  - rewrite IH, pow256_S. ring.
Qed.

Lemma be_valz_ube bs : be_valz bs = ube bs.
Proof. unfold be_valz. rewrite be_valz_fold. lia. Qed.

(* little-endian value *)
Fixpoint ule (bs : list byte) : Z :=
  match bs with [] => 0 | b :: rest => b2z b + 256 * ule rest end.

Lemma ule_rev bs : ule (rev bs) = ube bs.
Proof.
  induction bs as [|b bs IH]; cbn [rev ube]; [reflexivity|].
  assert (H : forall l x, ule (l ++ [x]) = ule l + 256 ^ Z.of_nat (length l) * b2z x).
  { induction l as [|y l IHl]; intros x; cbn [ule app length].
    - rewrite ?pow256_0. lia.
    - rewrite IHl, pow256_S. ring. }
  rewrite H, IH, rev_length. ring.
Qed.

Lemma ube_rev bs : ube (rev bs) = ule bs.
Proof. rewrite <- (rev_involutive bs) at 2. now rewrite ule_rev. Qed.

Lemma ule_range bs : 0 <= ule bs < 256 ^ Z.of_nat (length bs).
Proof. rewrite <- ube_rev, <- (rev_length bs). apply ube_range. Qed.

Lemma ule_app a b : ule (a ++ b) = ule a + 256 ^ Z.of_nat (length a) * ule b.
Proof.
  induction a as [|x a IH]; cbn [ule app length].
  - rewrite ?pow256_0. lia.
  - rewrite IH, pow256_S. ring.
Qed.

(* ---- two's complement *)

Lemma twos_cons b bs :
  twos (b :: bs) = if 128 <=? b2z b then ube (b :: bs) - 256 ^ Z.of_nat (S (length bs)) else ube (b :: bs).
Proof. reflexivity. Qed.

Lemma twos_fits bs : bs <> [] -> fits (twos bs) (length bs).
Proof.
  destruct bs as [|b bs]; [congruence|intros _].
  unfold fits. rewrite twos_cons. cbn [ube length].
  replace (Z.of_nat (S (length bs)) - 1) with (Z.of_nat (length bs)) by lia.
  rewrite pow256_S.
  pose proof (ube_range bs). pose proof (b2z_range b). pose proof (pow256_pos (length bs)).
  destruct (128 <=? b2z b) eqn:E; nia.
Qed.

Lemma twos_mod bs : bs <> [] -> twos bs mod 256 ^ Z.of_nat (length bs) = ube bs.
Proof.
  destruct bs as [|b bs]; [congruence|intros _].
  rewrite twos_cons. pose proof (ube_range (b :: bs)) as R.
  set (M := 256 ^ Z.of_nat (length (b :: bs))) in *.
  change (256 ^ Z.of_nat (S (length bs))) with M.
  destruct (128 <=? b2z b); symmetry.
  - apply (Z.mod_unique _ _ (-1)); lia.
  - apply (Z.mod_unique _ _ 0); lia.
Qed.

(* the value denoted is the unique number in range congruent to the unsigned value *)
Lemma twos_unique bs z :
  bs <> [] -> fits z (length bs) -> z mod 256 ^ Z.of_nat (length bs) = ube bs -> twos bs = z.
Proof.
  intros Hne Hf Hm.
  pose proof (twos_fits bs Hne) as Hf'. pose proof (twos_mod bs Hne) as Hm'.
  unfold fits in *. destruct bs as [|b bs]; [congruence|]. cbn [length] in *.
  replace (Z.of_nat (S (length bs)) - 1) with (Z.of_nat (length bs)) in * by lia.
  rewrite pow256_S in *.
  set (P := 256 ^ Z.of_nat (length bs)) in *. assert (0 < P) by apply pow256_pos.
  rewrite <- Hm in Hm'.
  assert (E : (twos (b :: bs) - z) mod (256 * P) = 0).
  { rewrite Zminus_mod, Hm', Z.sub_diag. apply Z.mod_0_l. lia. }
  apply Z.mod_divide in E; [|lia]. destruct E as [k Hk].
  assert (k = 0) by nia. subst k. lia.
Qed.

Lemma fits_mono z n m : (1 <= n <= m)%nat -> fits z n -> fits z m.
Proof.
  unfold fits. intros [H1 H2] Hf.
  assert (256 ^ (Z.of_nat n - 1) <= 256 ^ (Z.of_nat m - 1)) by (apply Z.pow_le_mono_r; lia).
  lia.
Qed.

(* ---- reader: complement-and-carry computes the two's complement value *)

Lemma ube_map_compl bs :
  ube (map (fun b => z2b (255 - b2z b)) bs) = 256 ^ Z.of_nat (length bs) - 1 - ube bs.
Proof.
  induction bs as [|b bs IH]; cbn [map ube length].
  - rewrite ?pow256_0. lia.
  - rewrite IH, map_length, pow256_S. pose proof (b2z_range b).
    rewrite b2z_z2b_small by lia. ring.
Qed.

Lemma carry_le_length l : length (carry_le l) = length l.
Proof. induction l as [|b l IH]; cbn [carry_le]; [reflexivity|]. destruct (b2z b =? 255); cbn [length]; lia. Qed.

Lemma carry_le_val l : ule l + 1 < 256 ^ Z.of_nat (length l) -> ule (carry_le l) = ule l + 1.
Proof.
  induction l as [|b l IH]; cbn [carry_le ule length].
  - rewrite ?pow256_0. lia.
  - rewrite pow256_S. intros H. pose proof (b2z_range b). pose proof (ule_range l).
    destruct (b2z b =? 255) eqn:E.
    + cbn [ule]. rewrite IH by lia. change (b2z x00) with 0. lia.
    + cbn [ule]. rewrite b2z_z2b_small by lia. lia.
Qed.

Theorem int_of_content_spec bs : bs <> [] -> int_of_content bs = Ok (twos bs).
Proof.
  destruct bs as [|b0 bs]; [congruence|intros _].
  unfold int_of_content. rewrite twos_cons.
  destruct (128 <=? b2z b0) eqn:E.
  - f_equal. rewrite be_valz_ube, ube_rev.
    set (raw := b0 :: bs).
    set (comp := map (fun b => z2b (255 - b2z b)) raw).
    assert (Hc : ube comp = 256 ^ Z.of_nat (length raw) - 1 - ube raw) by apply ube_map_compl.
    assert (Hl : length (rev comp) = length raw) by (unfold comp; now rewrite rev_length, map_length).
    assert (Hr : 128 * 256 ^ Z.of_nat (length bs) <= ube raw).
    { unfold raw. cbn [ube]. pose proof (ube_range bs). pose proof (pow256_pos (length bs)). nia. }
    rewrite carry_le_val.
    + rewrite ule_rev, Hc. unfold raw. cbn [length]. lia.
    + rewrite ule_rev, Hl, Hc. pose proof (pow256_pos (length bs)). lia.
  - now rewrite be_valz_ube.
Qed.

(* ---- writer *)

Lemma int_loop_spec fuel neg limit value lo fin :
  0 <= value -> 0 <= limit ->
  int_loop fuel neg limit value = (lo, fin) ->
  exists low,
    0 <= low < 256 ^ Z.of_nat (length lo) /\
    value = low + 256 ^ Z.of_nat (length lo) * fin /\
    0 <= fin /\
    ule lo = (if neg then 256 ^ Z.of_nat (length lo) - 1 - low else low) /\
    (value < 256 ^ Z.of_nat fuel -> fin <= limit) /\
    (lo <> [] -> (limit + 1) * 256 ^ (Z.of_nat (length lo) - 1) <= value).
Proof.
  revert value lo fin. induction fuel as [|f IH]; intros value lo fin Hv Hl H; cbn [int_loop] in H; cbv zeta in H.
  - injection H as <- <-. exists 0. cbn [length ule]. rewrite pow256_0.
    split; [lia|]. split; [lia|]. split; [lia|]. split; [destruct neg; lia|].
    split; [intros; lia|congruence].
  - destruct (limit <? value) eqn:E.
    + destruct (int_loop f neg limit (value / 256)) as [rest fin'] eqn:R.
      injection H as <- <-.
      assert (Hq : 0 <= value / 256) by (apply Z.div_pos; lia).
      destruct (IH _ _ _ Hq Hl R) as (low' & Hlow & Hval & Hfin & Hule & Hfuel & Hexit).
      pose proof (Z.div_mod value 256 ltac:(lia)) as DM.
      pose proof (Z.mod_pos_bound value 256 ltac:(lia)) as MB.
      set (m := value mod 256) in *. set (q := value / 256) in *.
      exists (m + 256 * low'). cbn [length ule]. rewrite pow256_S.
      pose proof (pow256_pos (length rest)) as PP.
      set (P := 256 ^ Z.of_nat (length rest)) in *.
      assert (Hd : b2z (z2b (if neg then 255 - m else m)) = (if neg then 255 - m else m)).
      { apply b2z_z2b_small. destruct neg; lia. }
      rewrite Hd, Hule.
      split; [nia|]. split; [nia|]. split; [lia|]. split; [destruct neg; nia|]. split.
      * intros Hlt. apply Hfuel. rewrite pow256_S in Hlt. nia.
      * intros _. destruct rest as [|r rest'].
        -- cbn [length]. replace (Z.of_nat 1 - 1) with 0 by lia. rewrite Z.pow_0_r. lia.
        -- assert (Hne : r :: rest' <> []) by congruence. specialize (Hexit Hne).
           cbn [length] in *.
           replace (Z.of_nat (S (S (length rest'))) - 1) with (Z.of_nat (S (length rest'))) by lia.
           replace (Z.of_nat (S (length rest')) - 1) with (Z.of_nat (length rest')) in Hexit by lia.
           rewrite pow256_S. nia.
    + injection H as <- <-. exists 0. cbn [length ule]. rewrite pow256_0.
      split; [lia|]. split; [lia|]. split; [lia|]. split; [destruct neg; lia|].
      split; [intros; lia|congruence].
Qed.

Lemma inc_le_length l : length (inc_le l) = length l.
Proof. induction l as [|b l IH]; cbn [inc_le]; [reflexivity|]. destruct (b2z b <? 255); cbn [length]; lia. Qed.

Lemma inc_le_val l : ule l + 1 < 256 ^ Z.of_nat (length l) -> ule (inc_le l) = ule l + 1.
Proof.
  induction l as [|b l IH]; cbn [inc_le ule length].
  - rewrite pow256_0. lia.
  - rewrite pow256_S. intros H. pose proof (b2z_range b). pose proof (ule_range l).
    destruct (b2z b <? 255) eqn:E.
    + cbn [ule]. rewrite b2z_z2b_small by lia. lia.
    + cbn [ule]. rewrite IH by lia. change (b2z x00) with 0. lia.
Qed.

Lemma last_ule l : l <> [] -> b2z (last l x00) = ule l / 256 ^ (Z.of_nat (length l) - 1).
Proof.
  induction l as [|b l IH]; [congruence|intros _].
  destruct l as [|c l'].
  - cbn [last ule length]. replace (Z.of_nat 1 - 1) with 0 by lia. rewrite Z.pow_0_r, Z.div_1_r. lia.
  - change (last (b :: c :: l') x00) with (last (c :: l') x00).
    rewrite IH by congruence. cbn [length ule].
    replace (Z.of_nat (S (S (length l'))) - 1) with (Z.of_nat (S (length l'))) by lia.
    replace (Z.of_nat (S (length l')) - 1) with (Z.of_nat (length l')) by lia.
    rewrite pow256_S. pose proof (pow256_pos (length l')). pose proof (b2z_range b).
    rewrite <- Z.div_div by lia. f_equal.
    apply (Z.div_unique _ _ _ (b2z b)); lia.
Qed.

Lemma log2_fuel v : 0 <= v -> v < 256 ^ Z.of_nat (S (Z.to_nat (Z.log2 v))).
Proof.
  intros Hv. destruct (Z.eq_dec v 0) as [->|Hnz].
  - reflexivity.
  - pose proof (Z.log2_spec v ltac:(lia)) as [_ H]. pose proof (Z.log2_nonneg v).
    eapply Z.lt_le_trans; [exact H|].
    rewrite Nat2Z.inj_succ, Z2Nat.id by lia.
    change 256 with (2 ^ 8). rewrite <- Z.pow_mul_r by lia.
    apply Z.pow_le_mono_r; lia.
Qed.

(* the four facts from which minimality follows *)
Definition enc_facts (z : Z) (bs : list byte) : Prop :=
  bs <> [] /\ fits z (length bs) /\ z mod 256 ^ Z.of_nat (length bs) = ube bs /\
  ((2 <= length bs)%nat -> ~ fits z (length bs - 1)).

Lemma enc_facts_minimal z bs : enc_facts z bs -> minimal_enc z bs.
Proof.
  intros (Hne & Hf & Hm & Hnf). split; [exact Hne|]. split.
  - now apply twos_unique.
  - intros bs' Hne' Ht. destruct (le_lt_dec (length bs) (length bs')) as [|Hlt]; [assumption|exfalso].
    assert (Hl' : (1 <= length bs')%nat) by (destruct bs'; [congruence|cbn; lia]).
    apply Hnf; [lia|]. apply (fits_mono z (length bs')); [lia|].
    rewrite <- Ht. now apply twos_fits.
Qed.

Lemma rev_ne {A} (l : list A) : l <> [] -> rev l <> [].
Proof. destruct l; [congruence|]. cbn [rev]. intros _ H. apply app_eq_nil in H as [_ H]. discriminate. Qed.

Lemma int_content_nonneg z : 0 <= z -> enc_facts z (int_content z).
Proof.
  intros Hz. unfold int_content.
  assert (Hs : (z <? 0) = false) by lia. rewrite Hs. cbn [andb].
  destruct (int_loop (S (Z.to_nat (Z.log2 z))) false 127 z) as [lo fin] eqn:L.
  destruct (int_loop_spec _ false 127 z lo fin Hz ltac:(lia) L) as (low & Hlow & Hval & Hfin & Hule & Hfuel & Hexit).
  specialize (Hfuel (log2_fuel z Hz)).
  rewrite Z.mod_small by lia.
  set (k := length lo) in *. pose proof (pow256_pos k) as PP.
  assert (Hlen : length (rev (lo ++ [z2b fin])) = S k) by (rewrite rev_length, app_length; cbn; fold k; lia).
  assert (Hube : ube (rev (lo ++ [z2b fin])) = z).
  { rewrite ube_rev, ule_app. cbn [ule]. rewrite b2z_z2b_small by lia. fold k. lia. }
  unfold enc_facts. rewrite Hlen, Hube.
  split; [apply rev_ne; destruct lo; discriminate|].
  unfold fits. replace (Z.of_nat (S k) - 1) with (Z.of_nat k) by lia. rewrite pow256_S.
  split; [nia|]. split; [apply Z.mod_small; nia|].
  intros Hk. assert (Hlo : lo <> []) by (destruct lo; [cbn in k; lia|congruence]).
  specialize (Hexit Hlo). replace (S k - 1)%nat with k by lia. lia.
Qed.

Lemma int_content_neg z : z < 0 -> enc_facts z (int_content z).
Proof.
  intros Hz. unfold int_content.
  assert (Hs : (z <? 0) = true) by lia. rewrite Hs. cbn [andb].
  set (v := - z). assert (Hv : 0 < v) by lia.
  destruct (int_loop (S (Z.to_nat (Z.log2 v))) true 128 v) as [lo fin] eqn:L.
  destruct (int_loop_spec _ true 128 v lo fin ltac:(lia) ltac:(lia) L) as (low & Hlow & Hval & Hfin & Hule & Hfuel & Hexit).
  specialize (Hfuel (log2_fuel v ltac:(lia))).
  rewrite (Z.mod_small (255 - fin)) by lia.
  set (k := length lo) in *. pose proof (pow256_pos k) as PP.
  set (P := 256 ^ Z.of_nat k) in *.
  remember (lo ++ [z2b (255 - fin)]) as le0 eqn:Ele0.
  assert (Hl0 : length le0 = S k) by (rewrite Ele0, app_length; cbn; fold k; lia).
  assert (Hu0 : ule le0 = 256 * P - 1 - v).
  { rewrite Ele0, ule_app. cbn [ule]. rewrite b2z_z2b_small by lia. fold k. fold P. lia. }
  remember (inc_le le0) as le1 eqn:Ele1.
  assert (Hl1 : length le1 = S k) by (rewrite Ele1; now rewrite inc_le_length).
  assert (Hu1 : ule le1 = 256 * P - v).
  { rewrite Ele1, inc_le_val; [lia|]. rewrite Hl0, pow256_S. fold P. lia. }
  assert (Hne1 : le1 <> []) by (destruct le1; [discriminate|congruence]).
  assert (Htop : b2z (last le1 x00) = (256 * P - v) / P).
  { rewrite last_ule by exact Hne1. rewrite Hl1, Hu1. replace (Z.of_nat (S k) - 1) with (Z.of_nat k) by lia. reflexivity. }
  pose proof (Z.div_mod (256 * P - v) P ltac:(lia)) as DM.
  pose proof (Z.mod_pos_bound (256 * P - v) P ltac:(lia)) as MB.
  set (t := (256 * P - v) / P) in *. set (r := (256 * P - v) mod P) in *.
  rewrite Htop.
  destruct (t =? 127) eqn:E.
  - (* corner case: a 0xFF octet is appended *)
    assert (Hlen : length (rev (le1 ++ [xff])) = S (S k)) by (rewrite rev_length, app_length, Hl1; cbn; lia).
    assert (Hube : ube (rev (le1 ++ [xff])) = 256 * (256 * P) - v).
    { rewrite ube_rev, ule_app, Hl1, Hu1, pow256_S. fold P. cbn [ule]. change (b2z xff) with 255. lia. }
    unfold enc_facts. rewrite Hlen, Hube.
    split; [apply rev_ne; destruct le1; discriminate|].
    unfold fits. replace (Z.of_nat (S (S k)) - 1) with (Z.of_nat (S k)) by lia.
    rewrite !pow256_S. fold P.
    split; [nia|]. split.
    + symmetry. apply (Z.mod_unique _ _ (-1)); nia.
    + intros _. replace (S (S k) - 1)%nat with (S k) by lia.
      replace (Z.of_nat (S k) - 1) with (Z.of_nat k) by lia. fold P. nia.
  - assert (Hlen : length (rev le1) = S k) by now rewrite rev_length.
    assert (Hube : ube (rev le1) = 256 * P - v) by now rewrite ube_rev.
    unfold enc_facts. rewrite Hlen, Hube.
    split; [now apply rev_ne|].
    unfold fits. replace (Z.of_nat (S k) - 1) with (Z.of_nat k) by lia.
    rewrite pow256_S. fold P.
    split; [nia|]. split.
    + symmetry. apply (Z.mod_unique _ _ (-1)); nia.
    + intros Hk. assert (Hlo : lo <> []) by (destruct lo; [cbn in k; lia|congruence]).
      specialize (Hexit Hlo). replace (S k - 1)%nat with k by lia. nia.
Qed.

Theorem int_content_minimal z : minimal_enc z (int_content z).
Proof.
  apply enc_facts_minimal. destruct (Z_lt_le_dec z 0); [now apply int_content_neg|now apply int_content_nonneg].
Qed.

Corollary int_content_roundtrip z : int_of_content (int_content z) = Ok z.
Proof.
  destruct (int_content_minimal z) as (Hne & Ht & _).
  rewrite int_of_content_spec by exact Hne. now rewrite Ht.
Qed.
