(* C04, TLV layer: the header reader accepts every definite length form X.690 allows (short form, or
   long form with any number 1..126 of length octets, leading zeros included), not only the minimal
   one the writer produces. *)
From Coq Require Import ZArith NArith List Bool Lia ZifyBool ZifyN.
From Coq.Strings Require Import Byte.
From SV Require Import Base.Bytes Base.Py Gen.Generated Asn1.Model Asn1.TlvProofs.
Import ListNotations.
Local Open Scope N_scope.
Ltac Zify.zify_post_hook ::= Z.to_euclidean_division_equations.
#[local] Arguments N.mul : simpl never.
#[local] Arguments N.add : simpl never.
#[local] Arguments N.div : simpl never.
#[local] Arguments N.modulo : simpl never.

(* [lo] is a valid X.690 8.1.3 encoding of the definite length [n] *)
Definition valid_len (lo : list byte) (n : N) : Prop :=
  (lo = [n2b n] /\ n < 128) \/
  (exists ds, lo = n2b (128 + nlen ds) :: ds /\ 1 <= nlen ds <= 126 /\ be_val ds = n).

Lemma read_len_octets_be ds : forall rest acc,
  read_len_octets (length ds) (ds ++ rest) acc = Ok (fold_left (fun a b => a * 256 + b2n b) ds acc).
Proof.
  induction ds as [|b ds IH]; intros rest acc; cbn [length app read_len_octets fold_left]; [reflexivity|apply IH].
Qed.

Lemma length_part_any lo len rest tag_octets t :
  valid_len lo len ->
  match lo ++ rest with
  | [] => Raise NeedMore
  | l0 :: after_l0 =>
      let l := b2n l0 in
      if l =? 128 then Raise ValueErr
      else if 128 <? l then
        let k := l - 128 in
        len' <- read_len_octets (N.to_nat k) after_l0 0 ;;
        Ok (mkHdr t (tag_octets + 1 + k) len')
      else Ok (mkHdr t (tag_octets + 1) l)
  end = Ok (mkHdr t (tag_octets + nlen lo) len).
Proof.
  intros [[-> Hn]|(ds & -> & Hk & Hv)].
  - cbn [app]. cbv zeta. rewrite b2n_n2b_small by lia.
    assert (E1 : (len =? 128) = false) by lia. assert (E2 : (128 <? len) = false) by lia.
    rewrite E1, E2. reflexivity.
  - cbn [app]. cbv zeta. rewrite b2n_n2b_small by lia.
    assert (E1 : (128 + nlen ds =? 128) = false) by lia. assert (E2 : (128 <? 128 + nlen ds) = true) by lia.
    rewrite E1, E2. replace (128 + nlen ds - 128) with (nlen ds) by lia.
    unfold nlen at 1. rewrite Nat2N.id. rewrite read_len_octets_be. cbn [bind].
    unfold be_val in Hv. rewrite Hv. f_equal. f_equal. unfold nlen. cbn [length]. lia.
Qed.

Theorem header_any_length t lo len rest :
  wf_tag t -> valid_len lo len ->
  read_header (pack_identifier (t_cls t) (t_cons t) (t_num t) ++ lo ++ rest)
  = Ok (mkHdr t (ident_octets t + nlen lo) len).
Proof.
  destruct t as [cls num cons]. unfold wf_tag, ident_octets. cbn [t_cls t_num t_cons].
  intros [Hcls Huni] Hlen.
  set (c := if cons then 32 else 0).
  assert (Hc : c = 0 \/ c = 32) by (unfold c; destruct cons; lia).
  assert (Hcons : forall n5, n5 < 32 -> ((cls * 64 + c + n5) / 32) mod 2 =? 1 = cons).
  { intros n5 Hn5. unfold c. destruct cons; lia. }
  assert (Htbl : (cls =? cls_universal) && negb (in_table num type_tag_numbers) = false).
  { destruct (cls =? cls_universal) eqn:E; [|reflexivity].
    rewrite Huni by lia. reflexivity. }
  unfold pack_identifier. destruct (num <? 31) eqn:E31.
  - cbn [app]. unfold read_header. fold c.
    rewrite b2n_n2b_small by lia.
    replace ((cls * 64 + c + num) mod 32) with num by lia.
    assert (E : (num =? 31) = false) by lia. rewrite E. cbn [bind].
    replace ((cls * 64 + c + num) / 64) with cls by lia.
    rewrite Htbl, Hcons by lia.
    replace (drop 1 (n2b (cls * 64 + c + num) :: lo ++ rest)) with (lo ++ rest)
      by (symmetry; apply (drop_app_len [n2b (cls * 64 + c + num)]); reflexivity).
    rewrite (length_part_any lo len) by exact Hlen. unfold nlen. cbn [length]. reflexivity.
  - cbn [app]. unfold read_header. fold c.
    rewrite b2n_n2b_small by lia.
    replace ((cls * 64 + c + 31) mod 32) with 31 by lia.
    change (31 =? 31) with true. cbv iota.
    rewrite octet_number_roundtrip by lia. cbn [bind].
    replace ((cls * 64 + c + 31) / 64) with cls by lia.
    rewrite Htbl, Hcons by lia.
    set (pon := pack_octet_number num).
    assert (Hd : drop (1 + nlen pon) (n2b (cls * 64 + c + 31) :: pon ++ lo ++ rest) = lo ++ rest).
    { change (n2b (cls * 64 + c + 31) :: pon ++ lo ++ rest) with ((n2b (cls * 64 + c + 31) :: pon) ++ lo ++ rest).
      apply drop_app_len. unfold nlen. cbn [length]. lia. }
    rewrite Hd, (length_part_any lo len) by exact Hlen.
    unfold nlen. cbn [length]. f_equal. f_equal. lia.
Qed.

(* a TLV written with any valid length octets *)
Definition tlv_with (lo : list byte) (t : tag) (d : list byte) : list byte :=
  pack_identifier (t_cls t) (t_cons t) (t_num t) ++ lo ++ d.

Theorem tlv_any_length t lo data rest :
  wf_tag t -> valid_len lo (nlen data) ->
  validate_tag (tlv_with lo t data ++ rest) t None = Ok (data, nlen (tlv_with lo t data)).
Proof.
  intros Hwf Hlen. unfold validate_tag, tlv_with. rewrite <- !app_assoc.
  rewrite (header_any_length t lo (nlen data)) by assumption. cbn [bind]. simpl h_tag. simpl h_hlen. simpl h_len.
  rewrite tag_eqb_refl. cbn [negb].
  rewrite !app_assoc, <- (app_assoc _ data rest).
  rewrite drop_app_len by (unfold ident_octets; now rewrite nlen_app).
  rewrite nlen_app. assert (E2 : (nlen data + nlen rest <? nlen data) = false) by lia. rewrite E2.
  rewrite take_app_exact. f_equal. f_equal.
  unfold ident_octets. rewrite !nlen_app. lia.
Qed.

(* the canonical length octets are one valid choice *)
Lemma be_val_app a b : be_val (a ++ b) = be_val a * 256 ^ nlen b + be_val b.
Proof.
  unfold be_val. rewrite fold_left_app.
  generalize (fold_left (fun acc b0 => acc * 256 + b2n b0) a 0). induction b as [|x b IH]; intros v.
  - cbn. unfold nlen. cbn. lia.
  - cbn [fold_left]. rewrite IH. unfold nlen. cbn [length]. rewrite Nat2N.inj_succ, N.pow_succ_r'.
    change (fold_left (fun acc b0 => acc * 256 + b2n b0) b (0 * 256 + b2n x)) with
      (fold_left (fun acc b0 => acc * 256 + b2n b0) b (b2n x)).
    assert (G : forall w, fold_left (fun acc b0 => acc * 256 + b2n b0) b w = w * 256 ^ N.of_nat (length b) + fold_left (fun acc b0 => acc * 256 + b2n b0) b 0).
    { clear. induction b as [|y b IHb]; intros w; cbn [fold_left length].
      - cbn. lia.
      - rewrite IHb. rewrite (IHb (0 * 256 + b2n y)). rewrite Nat2N.inj_succ, N.pow_succ_r'. lia. }
    rewrite (G (b2n x)). lia.
Qed.

(* examples of the freedom: the 4-octet lengths Active Directory writes, for any content below 2^32 *)
Lemma four_octet_length n :
  n < 2 ^ 32 ->
  valid_len [x84; n2b (n / 16777216); n2b ((n / 65536) mod 256); n2b ((n / 256) mod 256); n2b (n mod 256)] n.
Proof.
  intros H. right. exists [n2b (n / 16777216); n2b ((n / 65536) mod 256); n2b ((n / 256) mod 256); n2b (n mod 256)].
  split; [reflexivity|]. split; [unfold nlen; cbn; lia|].
  unfold be_val. cbn [fold_left]. rewrite !b2n_n2b.
  assert (n / 16777216 < 256) by (apply N.div_lt_upper_bound; [lia|]; change (16777216 * 256) with (2 ^ 32); exact H).
  lia.
Qed.

(* the writer's own (minimal) length octets are one valid choice *)
Lemma be_val_snoc a x : be_val (a ++ [x]) = be_val a * 256 + b2n x.
Proof. unfold be_val. rewrite fold_left_app. reflexivity. Qed.

Lemma be_val_len_loop fuel n : n < 256 ^ N.of_nat fuel -> be_val (rev (len_loop fuel n)) = n.
Proof.
  revert n. induction fuel as [|f IH]; intros n Hn.
  - change (N.of_nat 0) with 0 in Hn. rewrite N.pow_0_r in Hn. cbn. lia.
  - cbn [len_loop]. destruct (n =? 0) eqn:E; [cbn; lia|].
    rewrite pow_S in Hn. cbn [rev]. rewrite be_val_snoc, IH by (apply N.div_lt_upper_bound; lia).
    rewrite b2n_n2b, N.mod_mod by lia. lia.
Qed.

Lemma canonical_length_valid n : n < max_len -> valid_len (pack_length n) n.
Proof.
  intros Hn. unfold pack_length. destruct (n <? 128) eqn:E; [left; split; [reflexivity|lia]|].
  right. set (fuel := S (N.to_nat (N.log2 n))).
  assert (Hf : n < 256 ^ N.of_nat fuel) by (apply (log2_fuel_gen 256 8); [reflexivity|lia]).
  exists (rev (len_loop fuel n)).
  assert (Hl : (length (len_loop fuel n) <= 125)%nat) by (apply len_loop_bound; exact Hn).
  assert (Hl1 : (1 <= length (len_loop fuel n))%nat).
  { subst fuel. cbn [len_loop]. destruct (n =? 0) eqn:E0; [lia|cbn [length]; lia]. }
  split; [|split].
  - f_equal. f_equal. lia.
  - unfold nlen. rewrite rev_length. lia.
  - now apply be_val_len_loop.
Qed.

(* the fixed four-octet lengths of Active Directory (minimal lengths beyond 2^32 octets) *)
Definition lf_four (d : list byte) : list byte :=
  let n := nlen d in
  if n <? 2 ^ 32 then [x84; n2b (n / 16777216); n2b ((n / 65536) mod 256); n2b ((n / 256) mod 256); n2b (n mod 256)]
  else pack_length n.

Lemma lf_four_valid d : nlen d < max_len -> valid_len (lf_four d) (nlen d).
Proof.
  intros H. unfold lf_four. destruct (nlen d <? 2 ^ 32) eqn:E.
  - apply four_octet_length. lia.
  - now apply canonical_length_valid.
Qed.
