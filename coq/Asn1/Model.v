(* Executable model of src/sansldap/asn1.py -- function by function, same loops, same order of
   checks, same exception at the same point.  No proofs here. *)
From Coq Require Import ZArith NArith List Bool Lia.
From Coq.Strings Require Import Byte.
From SV Require Import Base.Bytes Base.Py Gen.Generated.
Import ListNotations.
Local Open Scope N_scope.

(* ASN1Tag: tag_class (0..3), tag_number, is_constructed *)
Record tag := mkTag { t_cls : N; t_num : N; t_cons : bool }.

Definition tag_eqb (a b : tag) : bool :=
  (t_cls a =? t_cls b) && (t_num a =? t_num b) && Bool.eqb (t_cons a) (t_cons b).

(* ASN1Header: tag, tag_length (identifier + length octets), length (content) *)
Record header := mkHdr { h_tag : tag; h_hlen : N; h_len : N }.

Definition universal (num : N) (cons : bool) : tag := mkTag cls_universal num cons.

(* ---------------------------------------------------------------- writer *)

(* _pack_asn1_octet_number: base-128, continuation bit on all but the last octet.
   [pon_loop] is the while-loop, producing the octets in the order they are appended. *)
Fixpoint pon_loop (fuel : nat) (num : N) (first : bool) : list byte :=
  match fuel with
  | O => []
  | S f =>
      if num =? 0 then []
      else
        let o := num mod 128 in
        let o' := if first then o else o + 128 in
        n2b o' :: pon_loop f (num / 128) false
  end.

Definition pack_octet_number (num : N) : list byte :=
  rev (pon_loop (S (N.to_nat (N.log2 num))) num true).

(* the "while length: append(length & 0xFF); length >>= 8" loop *)
Fixpoint len_loop (fuel : nat) (len : N) : list byte :=
  match fuel with
  | O => []
  | S f => if len =? 0 then [] else n2b (len mod 256) :: len_loop f (len / 256)
  end.

Definition pack_length (len : N) : list byte :=
  if len <? 128 then [n2b len]
  else
    let octs := rev (len_loop (S (N.to_nat (N.log2 len))) len) in
    (* bytearray.append raises ValueError above 255; 128 + count of octets cannot get there
       for any length that fits in memory, the model keeps the low 8 bits *)
    n2b (nlen octs + 128) :: octs.

Definition pack_identifier (cls : N) (cons : bool) (num : N) : list byte :=
  let first := cls * 64 + (if cons then 32 else 0) in
  if num <? 31 then [n2b (first + num)]
  else n2b (first + 31) :: pack_octet_number num.

(* _pack_asn1: ValueError when the class is outside 0..3 *)
Definition pack_asn1 (cls : N) (cons : bool) (num : N) (data : list byte) : res (list byte) :=
  if 3 <? cls then Raise ValueErr
  else Ok (pack_identifier cls cons num ++ pack_length (nlen data) ++ data).

Definition pack_tlv (t : tag) (data : list byte) : res (list byte) :=
  pack_asn1 (t_cls t) (t_cons t) (t_num t) data.

Definition pack_boolean (t : option tag) (v : bool) : res (list byte) :=
  let t := match t with Some t => t | None => universal tn_boolean false end in
  pack_tlv t [if v then xff else x00].

Definition pack_octet_string (t : option tag) (v : list byte) : res (list byte) :=
  let t := match t with Some t => t | None => universal tn_octet_string false end in
  pack_tlv t v.

(* _pack_asn1_integer, content octets only.  Little-endian accumulation as in the code. *)
Local Open Scope Z_scope.

Fixpoint int_loop (fuel : nat) (neg : bool) (limit value : Z) : list byte * Z :=
  match fuel with
  | O => ([], value)
  | S f =>
      if limit <? value then
        let v := value mod 256 in
        let v := if neg then 255 - v else v in
        let '(rest, fin) := int_loop f neg limit (value / 256) in
        (z2b v :: rest, fin)
      else ([], value)
  end.

(* "for idx, val in enumerate(b_int): if val < 0xFF: b_int[idx] += 1; break; b_int[idx] = 0" *)
Fixpoint inc_le (bs : list byte) : list byte :=
  match bs with
  | [] => []
  | b :: rest => if b2z b <? 255 then z2b (b2z b + 1) :: rest else x00 :: inc_le rest
  end.

Definition int_content (value : Z) : list byte :=
  let neg := value <? 0 in
  let v := if neg then - value else value in
  let limit := if neg then 128 else 127 in
  let '(lo, fin) := int_loop (S (Z.to_nat (Z.log2 v))) neg limit v in
  let top := (if neg then 255 - fin else fin) mod 256 in
  let le := lo ++ [z2b top] in
  let le := if neg then inc_le le else le in
  let le := if neg && (b2z (List.last le x00) =? 127) then le ++ [xff] else le in
  rev le.

Definition pack_integer (t : option tag) (v : Z) : res (list byte) :=
  let t := match t with Some t => t | None => universal tn_integer false end in
  pack_tlv t (int_content v).

Definition pack_enumerated (t : option tag) (v : Z) : res (list byte) :=
  let t := match t with Some t => t | None => universal tn_enumerated false end in
  pack_tlv t (int_content v).

Local Open Scope N_scope.

(* ---------------------------------------------------------------- reader *)

(* _unpack_asn1_octet_number *)
Fixpoint unpack_octet_number (data : list byte) (i idx : N) : res (N * N) :=
  match data with
  | [] => Raise NeedMore
  | e :: rest =>
      let i' := i * 128 + (b2n e mod 128) in
      if b2n e <? 128 then Ok (i', idx + 1) else unpack_octet_number rest i' (idx + 1)
  end.

(* the "for idx in range(1, length_octets)" loop: k octets, big-endian *)
Fixpoint read_len_octets (k : nat) (view : list byte) (acc : N) : res N :=
  match k with
  | O => Ok acc
  | S k' =>
      match view with
      | [] => Raise NeedMore
      | b :: rest => read_len_octets k' rest (acc * 256 + b2n b)
      end
  end.

Definition in_table (x : N) (tbl : list N) : bool := existsb (N.eqb x) tbl.

(* _read_asn1_header *)
Definition read_header (data : list byte) : res header :=
  match data with
  | [] => Raise NeedMore
  | o1 :: after1 =>
      let cls := b2n o1 / 64 in
      let cons := (b2n o1 / 32) mod 2 =? 1 in
      let num5 := b2n o1 mod 32 in
      '(num, tag_octets) <-
         (if num5 =? 31 then
            '(n, c) <- unpack_octet_number after1 0 0 ;; Ok (n, 1 + c)
          else Ok (num5, 1)) ;;
      (* TypeTagNumber(tag_number) for the UNIVERSAL class *)
      if (cls =? cls_universal) && negb (in_table num type_tag_numbers) then Raise ValueErr
      else
        let view := drop tag_octets data in
        match view with
        | [] => Raise NeedMore
        | l0 :: after_l0 =>
            let l := b2n l0 in
            if l =? 128 then Raise ValueErr
            else if 128 <? l then
              let k := l - 128 in
              len <- read_len_octets (N.to_nat k) after_l0 0 ;;
              Ok (mkHdr (mkTag cls num cons) (tag_octets + 1 + k) len)
            else Ok (mkHdr (mkTag cls num cons) (tag_octets + 1) l)
        end
  end.

(* _validate_tag: returns (content, consumed).  [hdr] is the optional pre-read header. *)
Definition validate_tag (data : list byte) (expected : tag) (hdr : option header)
  : res (list byte * N) :=
  h <- (match hdr with Some h => Ok h | None => read_header data end) ;;
  if negb (tag_eqb (h_tag h) expected) then Raise ValueErr
  else
    let view := drop (h_hlen h) data in
    if nlen view <? h_len h then Raise NeedMore
    else Ok (take (h_len h) view, h_hlen h + h_len h).

(* the "if not tag: tag = header.tag if header else <default>" idiom *)
Definition pick_tag (t : option tag) (hdr : option header) (dflt : tag) : tag :=
  match t with
  | Some t => t
  | None => match hdr with Some h => h_tag h | None => dflt end
  end.

Definition read_boolean_raw (data : list byte) (t : option tag) (hdr : option header)
  : res (bool * N) :=
  '(raw, consumed) <- validate_tag data (pick_tag t hdr (universal tn_boolean false)) hdr ;;
  Ok (negb (bytes_eqb raw [x00]), consumed).

Definition read_octet_string_raw (data : list byte) (t : option tag) (hdr : option header)
  : res (list byte * N) :=
  validate_tag data (pick_tag t hdr (universal tn_octet_string false)) hdr.

Definition read_sequence_raw (data : list byte) (t : option tag) (hdr : option header)
  : res (list byte * N) :=
  validate_tag data (pick_tag t hdr (universal tn_sequence true)) hdr.

Definition read_set_raw (data : list byte) (t : option tag) (hdr : option header)
  : res (list byte * N) :=
  validate_tag data (pick_tag t hdr (universal tn_set true)) hdr.

(* _read_asn1_integer, content part: complement every octet, add one with carry from the
   least significant end, big-endian value, negate. *)
Local Open Scope Z_scope.

(* the carry loop, on the reversed (least significant first) list *)
Fixpoint carry_le (bs : list byte) : list byte :=
  match bs with
  | [] => []
  | b :: rest => if b2z b =? 255 then x00 :: carry_le rest else z2b (b2z b + 1) :: rest
  end.

Definition be_valz (bs : list byte) : Z := fold_left (fun acc b => acc * 256 + b2z b) bs 0.

Definition int_of_content (raw : list byte) : res Z :=
  match raw with
  | [] => Raise ValueErr            (* "if not b_int: raise ValueError" *)
  | b0 :: _ =>
      if 128 <=? b2z b0 then
        let comp := map (fun b => z2b (255 - b2z b)) raw in
        let inc := rev (carry_le (rev comp)) in
        Ok (- be_valz inc)
      else Ok (be_valz raw)
  end.

Local Open Scope N_scope.

Definition read_integer_raw (data : list byte) (t : option tag) (hdr : option header)
  : res (Z * N) :=
  '(raw, consumed) <- validate_tag data (pick_tag t hdr (universal tn_integer false)) hdr ;;
  v <- int_of_content raw ;;
  Ok (v, consumed).

Definition read_enumerated_raw (data : list byte) (t : option tag) (hdr : option header)
  : res (Z * N) :=
  '(raw, consumed) <- validate_tag data (pick_tag t hdr (universal tn_enumerated false)) hdr ;;
  v <- int_of_content raw ;;
  Ok (v, consumed).

(* ---------------------------------------------------------------- ASN1Reader object
   A reader is its remaining view; every read returns the value and the new view
   ("self._view = self._view[consumed:]"). *)
Definition reader := list byte.

Definition rd {A} (f : list byte -> option tag -> option header -> res (A * N))
  (r : reader) (t : option tag) (hdr : option header) : res (A * reader) :=
  '(v, consumed) <- f r t hdr ;; Ok (v, drop consumed r).

Definition read_boolean := rd read_boolean_raw.
Definition read_integer := rd read_integer_raw.
Definition read_enumerated := rd read_enumerated_raw.
Definition read_octet_string := rd read_octet_string_raw.
Definition read_sequence := rd read_sequence_raw.
Definition read_set := rd read_set_raw.

Definition peek_header (r : reader) : res header := read_header r.
Definition skip_value (r : reader) (h : header) : reader := drop (h_hlen h + h_len h) r.
