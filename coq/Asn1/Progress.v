(* Consumption facts about the reader primitives: every successful read of a non-empty reader
   returns a strictly shorter reader; headers are at least two octets and lie inside the data. *)
From Coq Require Import ZArith NArith List Bool Lia.
From Coq.Strings Require Import Byte.
From SV Require Import Base.Bytes Base.Py Gen.Generated Asn1.Model.
Import ListNotations.
Local Open Scope N_scope.
Ltac nfd := first [discriminate | (let c := fresh in let HC := fresh in intros c HC; discriminate HC) | (let c := fresh in let HC := fresh in intros c HC; inversion HC; reflexivity)].
#[local] Arguments N.add : simpl never.
#[local] Arguments N.sub : simpl never.
#[local] Arguments N.mul : simpl never.
#[local] Arguments N.leb : simpl never.
#[local] Arguments N.ltb : simpl never.
#[local] Arguments N.eqb : simpl never.

Lemma unpack_octet_number_count data : forall i idx n c,
  unpack_octet_number data i idx = Ok (n, c) -> idx < c /\ c - idx <= nlen data.
Proof.
  induction data as [|e rest IH]; intros i idx n c; cbn [unpack_octet_number]; [nfd|].
  destruct (b2n e <? 128).
  - intros H; inversion H; subst. unfold nlen; cbn [length]. lia.
  - intros H. apply IH in H. unfold nlen in *; cbn [length]. lia.
Qed.

Lemma read_len_octets_count k : forall view acc v, read_len_octets k view acc = Ok v -> (k <= length view)%nat.
Proof.
  induction k as [|k IH]; intros view acc v; cbn [read_len_octets]; [lia|].
  destruct view as [|b rest]; [nfd|]. intros H. apply IH in H. cbn [length]. lia.
Qed.

(* a header that was read lies inside the data and has at least two octets *)
Lemma read_header_bounds data h : read_header data = Ok h -> 2 <= h_hlen h /\ h_hlen h <= nlen data.
Proof.
  unfold read_header. destruct data as [|o1 after1]; [nfd|].
  destruct (b2n o1 mod 32 =? 31) eqn:E31.
  - destruct (unpack_octet_number after1 0 0) as [[n c]|e] eqn:U; [|nfd]. cbn [bind].
    apply unpack_octet_number_count in U. destruct U as [U1 U2].
    destruct (_ && _); [nfd|].
    assert (Hl : nlen (o1 :: after1) = 1 + nlen after1) by (unfold nlen; cbn [length]; lia).
    destruct (drop (1 + c) (o1 :: after1)) as [|l0 after_l0] eqn:D; [nfd|].
    assert (Hd : nlen (drop (1 + c) (o1 :: after1)) = nlen (o1 :: after1) - (1 + c)) by apply nlen_drop.
    rewrite D in Hd. unfold nlen at 1 in Hd. cbn [length] in Hd.
    destruct (b2n l0 =? 128); [nfd|].
    destruct (128 <? b2n l0) eqn:EL.
    + destruct (read_len_octets _ after_l0 0) as [len|e] eqn:R; [|nfd]. cbn [bind].
      apply read_len_octets_count in R. intros H; injection H as <-; cbn [h_hlen].
      unfold nlen in *. cbn [length] in *. lia.
    + intros H; injection H as <-; cbn [h_hlen]. unfold nlen in *. cbn [length] in *. lia.
  - cbn [bind]. destruct (_ && _); [nfd|].
    destruct (drop 1 (o1 :: after1)) as [|l0 after_l0] eqn:D; [nfd|].
    assert (Hd : nlen (drop 1 (o1 :: after1)) = nlen (o1 :: after1) - 1) by apply nlen_drop.
    rewrite D in Hd. unfold nlen in Hd. cbn [length] in Hd.
    destruct (b2n l0 =? 128); [nfd|].
    destruct (128 <? b2n l0) eqn:EL.
    + destruct (read_len_octets _ after_l0 0) as [len|e] eqn:R; [|nfd]. cbn [bind].
      apply read_len_octets_count in R. intros H; injection H as <-; cbn [h_hlen].
      unfold nlen in *. cbn [length] in *. lia.
    + intros H; injection H as <-; cbn [h_hlen]. unfold nlen in *. cbn [length] in *. lia.
Qed.

Definition hdr_ok (data : list byte) (hdr : option header) : Prop :=
  match hdr with Some h => 2 <= h_hlen h | None => True end.

Lemma validate_tag_consumed data t hdr content consumed :
  hdr_ok data hdr -> validate_tag data t hdr = Ok (content, consumed) -> 2 <= consumed.
Proof.
  unfold validate_tag, hdr_ok. intros Hh.
  destruct hdr as [h|].
  - cbn [bind]. destruct (negb _); [nfd|]. destruct (_ <? _); [nfd|].
    intros H; inversion H; subst. lia.
  - destruct (read_header data) as [h|e] eqn:R; [|nfd]. cbn [bind].
    apply read_header_bounds in R. destruct (negb _); [nfd|]. destruct (_ <? _); [nfd|].
    intros H; inversion H; subst. lia.
Qed.

Lemma drop_shorter {A} n (r : list A) : r <> [] -> 1 <= n -> (length (drop n r) < length r)%nat.
Proof.
  intros Hne Hn. rewrite drop_skipn, skipn_length.
  destruct r; [congruence|]. cbn [length]. lia.
Qed.

(* every typed read makes progress *)
Lemma rd_progress {A} (f : list byte -> option tag -> option header -> res (A * N)) r t hdr v r' :
  (forall c, f r t hdr = Ok c -> 2 <= snd c) ->
  rd f r t hdr = Ok (v, r') -> r <> [] -> (length r' < length r)%nat.
Proof.
  unfold rd. intros Hc. destruct (f r t hdr) as [[x consumed]|e] eqn:F; [|nfd]. cbn [bind].
  intros H Hne; inversion H; subst. apply drop_shorter; [assumption|]. specialize (Hc _ eq_refl). cbn in Hc. lia.
Qed.

Ltac raw_consumed :=
  intros [x c] H; cbn [snd];
  match type of H with
  | context [validate_tag ?d ?t ?h] =>
      destruct (validate_tag d t h) as [[raw cons]|e] eqn:V; [|nfd];
      cbn [bind] in H; apply validate_tag_consumed in V; [|assumption]
  end.

Lemma read_octet_string_progress r t hdr v r' :
  hdr_ok r hdr -> read_octet_string r t hdr = Ok (v, r') -> r <> [] -> (length r' < length r)%nat.
Proof.
  intros Hh. apply rd_progress. intros [x c] H. cbn [snd]. unfold read_octet_string_raw in H.
  eapply validate_tag_consumed; eauto.
Qed.

Lemma read_sequence_progress r t hdr v r' :
  hdr_ok r hdr -> read_sequence r t hdr = Ok (v, r') -> r <> [] -> (length r' < length r)%nat.
Proof.
  intros Hh. apply rd_progress. intros [x c] H. cbn [snd]. unfold read_sequence_raw in H.
  eapply validate_tag_consumed; eauto.
Qed.

Lemma read_set_progress r t hdr v r' :
  hdr_ok r hdr -> read_set r t hdr = Ok (v, r') -> r <> [] -> (length r' < length r)%nat.
Proof.
  intros Hh. apply rd_progress. intros [x c] H. cbn [snd]. unfold read_set_raw in H.
  eapply validate_tag_consumed; eauto.
Qed.

Lemma read_boolean_progress r t hdr v r' :
  hdr_ok r hdr -> read_boolean r t hdr = Ok (v, r') -> r <> [] -> (length r' < length r)%nat.
Proof.
  intros Hh. apply rd_progress. intros [x c] H. cbn [snd]. unfold read_boolean_raw in H.
  destruct (validate_tag r _ hdr) as [[raw cons]|e] eqn:V; [|nfd]. cbn [bind] in H.
  inversion H; subst. eapply validate_tag_consumed; eauto.
Qed.

Lemma read_integer_progress r t hdr v r' :
  hdr_ok r hdr -> read_integer r t hdr = Ok (v, r') -> r <> [] -> (length r' < length r)%nat.
Proof.
  intros Hh. apply rd_progress. intros [x c] H. cbn [snd]. unfold read_integer_raw in H.
  destruct (validate_tag r _ hdr) as [[raw cons]|e] eqn:V; [|nfd]. cbn [bind] in H.
  destruct (int_of_content raw); [|nfd]. cbn [bind] in H.
  inversion H; subst. eapply validate_tag_consumed; eauto.
Qed.

Lemma read_enumerated_progress r t hdr v r' :
  hdr_ok r hdr -> read_enumerated r t hdr = Ok (v, r') -> r <> [] -> (length r' < length r)%nat.
Proof.
  intros Hh. apply rd_progress. intros [x c] H. cbn [snd]. unfold read_enumerated_raw in H.
  destruct (validate_tag r _ hdr) as [[raw cons]|e] eqn:V; [|nfd]. cbn [bind] in H.
  destruct (int_of_content raw); [|nfd]. cbn [bind] in H.
  inversion H; subst. eapply validate_tag_consumed; eauto.
Qed.

Lemma skip_value_progress r h : r <> [] -> 2 <= h_hlen h -> (length (skip_value r h) < length r)%nat.
Proof. intros Hne Hh. unfold skip_value. apply drop_shorter; [assumption|lia]. Qed.

Lemma peek_header_ok r h : peek_header r = Ok h -> 2 <= h_hlen h.
Proof. intros H. apply read_header_bounds in H. tauto. Qed.

(* none of the primitives runs on fuel *)
(* "no crash other than the interpreter's recursion limit": in particular loop fuel never runs out *)
Definition nofuel {A} (r : res A) : Prop := forall k, r = Raise (Crash k) -> k = RecursionErr.

Lemma nofuel_ok {A} (a : A) : nofuel (Ok a).
Proof. nfd. Qed.

Lemma nofuel_bind {A B} (m : res A) (k : A -> res B) :
  nofuel m -> (forall a, m = Ok a -> nofuel (k a)) -> nofuel (bind m k).
Proof.
  unfold nofuel. destruct m as [a|e]; cbn [bind]; intros Hm Hk; [now apply Hk|].
  intros c H; inversion H; subst. now apply (Hm c).
Qed.

Lemma unpack_octet_number_nofuel data : forall i idx, nofuel (unpack_octet_number data i idx).
Proof. induction data as [|e r IH]; intros; cbn; [nfd|]. destruct (_ <? _); [nfd|apply IH]. Qed.

Lemma read_len_octets_nofuel k : forall v acc, nofuel (read_len_octets k v acc).
Proof. induction k as [|k IH]; intros v acc; cbn; [nfd|]. destruct v; [nfd|apply IH]. Qed.

Lemma read_header_nofuel data : nofuel (read_header data).
Proof.
  unfold read_header. destruct data as [|o1 a1]; [nfd|].
  apply nofuel_bind.
  - destruct (_ =? 31); [|nfd]. apply nofuel_bind; [apply unpack_octet_number_nofuel|intros [? ?] _; nfd].
  - intros [num to] _. destruct (_ && _); [nfd|]. destruct (drop _ _); [nfd|].
    destruct (_ =? 128); [nfd|]. destruct (128 <? _); [|nfd].
    apply nofuel_bind; [apply read_len_octets_nofuel|intros; nfd].
Qed.

Lemma validate_tag_nofuel data t hdr : nofuel (validate_tag data t hdr).
Proof.
  unfold validate_tag. apply nofuel_bind.
  - destruct hdr; [nfd|apply read_header_nofuel].
  - intros h _. destruct (negb _); [nfd|]. destruct (_ <? _); nfd.
Qed.

Lemma int_of_content_nofuel raw : nofuel (int_of_content raw).
Proof. unfold int_of_content. destruct raw; [nfd|]. destruct (_ <=? _)%Z; nfd. Qed.

Lemma rd_nofuel {A} (f : list byte -> option tag -> option header -> res (A * N)) r t hdr :
  nofuel (f r t hdr) -> nofuel (rd f r t hdr).
Proof. intros H. unfold rd. apply nofuel_bind; [exact H|intros [? ?] _; nfd]. Qed.

Lemma read_octet_string_nofuel r t h : nofuel (read_octet_string r t h).
Proof. apply rd_nofuel. apply validate_tag_nofuel. Qed.
Lemma read_sequence_nofuel r t h : nofuel (read_sequence r t h).
Proof. apply rd_nofuel. apply validate_tag_nofuel. Qed.
Lemma read_set_nofuel r t h : nofuel (read_set r t h).
Proof. apply rd_nofuel. apply validate_tag_nofuel. Qed.
Lemma read_boolean_nofuel r t h : nofuel (read_boolean r t h).
Proof. apply rd_nofuel. unfold read_boolean_raw. apply nofuel_bind; [apply validate_tag_nofuel|intros [? ?] _; nfd]. Qed.
Lemma read_integer_nofuel r t h : nofuel (read_integer r t h).
Proof.
  apply rd_nofuel. unfold read_integer_raw. apply nofuel_bind; [apply validate_tag_nofuel|intros [? ?] _].
  apply nofuel_bind; [apply int_of_content_nofuel|intros; nfd].
Qed.
Lemma read_enumerated_nofuel r t h : nofuel (read_enumerated r t h).
Proof.
  apply rd_nofuel. unfold read_enumerated_raw. apply nofuel_bind; [apply validate_tag_nofuel|intros [? ?] _].
  apply nofuel_bind; [apply int_of_content_nofuel|intros; nfd].
Qed.
Lemma peek_header_nofuel r : nofuel (peek_header r).
Proof. apply read_header_nofuel. Qed.
