(* Arithmetic oracle for BER primitives (X.690 8.3 two's complement, 8.1.2.4 high tag numbers,
   8.1.3 lengths).  Written from the standard, not from the code. *)
From Coq Require Import ZArith NArith List Bool Lia.
From Coq.Strings Require Import Byte.
From SV Require Import Base.Bytes.
Import ListNotations.
Local Open Scope Z_scope.

(* unsigned big-endian value, base 256 *)
Fixpoint ube (bs : list byte) : Z :=
  match bs with
  | [] => 0
  | b :: rest => b2z b * 256 ^ Z.of_nat (length rest) + ube rest
  end.

(* two's-complement value denoted by a non-empty octet string *)
Definition twos (bs : list byte) : Z :=
  match bs with
  | [] => 0
  | b0 :: _ => if 128 <=? b2z b0 then ube bs - 256 ^ Z.of_nat (length bs) else ube bs
  end.

(* z is representable in n octets of two's complement *)
Definition fits (z : Z) (n : nat) : Prop :=
  - (128 * 256 ^ (Z.of_nat n - 1)) <= z < 128 * 256 ^ (Z.of_nat n - 1).

(* bs is THE minimal two's-complement encoding of z *)
Definition minimal_enc (z : Z) (bs : list byte) : Prop :=
  bs <> [] /\ twos bs = z /\
  forall bs', bs' <> [] -> twos bs' = z -> (length bs <= length bs')%nat.

(* X.690 8.3.2 formulation: the first nine bits are neither all ones nor all zeros *)
Definition nine_bit_rule (bs : list byte) : Prop :=
  match bs with
  | [] => False
  | [_] => True
  | a :: b :: _ => ~ (b2z a = 0 /\ b2z b < 128) /\ ~ (b2z a = 255 /\ 128 <= b2z b)
  end.

(* base-128 big-endian numeral with continuation bits (high tag numbers) *)
Fixpoint b128 (bs : list byte) (acc : Z) : Z :=
  match bs with
  | [] => acc
  | b :: rest => b128 rest (acc * 128 + b2z b mod 128)
  end.
