(* Identifier / length / TLV round trips (C07, structural half). *)
From Coq Require Import ZArith NArith List Bool Lia ZifyBool.
From Coq.Strings Require Import Byte.
From SV Require Import Base.Bytes Base.Py Gen.Generated Asn1.Model Asn1.Spec.
Import ListNotations.
Local Open Scope N_scope.
#[local] Arguments N.add : simpl never.
#[local] Arguments N.mul : simpl never.
#[local] Arguments N.div : simpl never.
#[local] Arguments N.modulo : simpl never.
#[local] Arguments N.pow : simpl never.
#[local] Arguments N.ltb : simpl never.
#[local] Arguments N.eqb : simpl never.
#[local] Arguments N.sub : simpl never.
Ltac Zify.zify_post_hook ::= Z.to_euclidean_division_equations.

Lemma pow_S b n : b ^ N.of_nat (S n) = b * b ^ N.of_nat n.
Proof. rewrite Nat2N.inj_succ, N.pow_succ_r'. reflexivity. Qed.

Lemma log2_fuel_gen b k num : b = 2 ^ k -> 0 < k -> num < b ^ N.of_nat (S (N.to_nat (N.log2 num))).
Proof.
  intros -> Hk. destruct (N.eq_dec num 0) as [->|Hnz].
  - apply N.neq_0_lt_0. apply N.pow_nonzero. apply N.pow_nonzero. lia.
  - pose proof (N.log2_spec num ltac:(lia)) as [_ H].
    eapply N.lt_le_trans; [exact H|].
    rewrite Nat2N.inj_succ, N2Nat.id, <- N.pow_mul_r.
    apply N.pow_le_mono_r; [lia|]. nia.
Qed.

(* ---- high tag numbers *)

Lemma pon_loop_cont fuel n tail i idx :
  n < 128 ^ N.of_nat fuel ->
  unpack_octet_number (rev (pon_loop fuel n false) ++ tail) i idx =
  unpack_octet_number tail (i * 128 ^ nlen (pon_loop fuel n false) + n) (idx + nlen (pon_loop fuel n false)).
Proof.
  revert n tail i idx. induction fuel as [|f IH]; intros n tail i idx Hn.
  - cbn [pon_loop rev app]. unfold nlen. cbn [length]. change (N.of_nat 0) with 0 in *.
    rewrite N.pow_0_r in *. f_equal; lia.
  - cbn [pon_loop]. destruct (n =? 0) eqn:E.
    + cbn [rev app]. unfold nlen. cbn [length]. change (N.of_nat 0) with 0. rewrite N.pow_0_r. f_equal; lia.
    + cbn [rev]. rewrite <- app_assoc. cbn [app].
      rewrite pow_S in Hn.
      rewrite IH by (apply N.div_lt_upper_bound; lia).
      set (l := pon_loop f (n / 128) false).
      cbn [unpack_octet_number].
      rewrite b2n_n2b. pose proof (N.mod_lt n 128 ltac:(lia)).
      rewrite (N.mod_small (n mod 128 + 128) 256) by lia.
      assert (Hge : (n mod 128 + 128 <? 128) = false) by lia. rewrite Hge.
      unfold nlen. cbn [length]. fold (nlen l).
      replace (N.of_nat (S (length l))) with (N.succ (nlen l)) by (unfold nlen; lia).
      rewrite N.pow_succ_r'.
      f_equal; [|unfold nlen; lia].
      replace ((n mod 128 + 128) mod 128) with (n mod 128) by lia.
      pose proof (N.div_mod n 128 ltac:(lia)). nia.
Qed.

Lemma octet_number_roundtrip num rest :
  num <> 0 ->
  unpack_octet_number (pack_octet_number num ++ rest) 0 0 = Ok (num, nlen (pack_octet_number num)).
Proof.
  intros Hnz. unfold pack_octet_number.
  set (f := N.to_nat (N.log2 num)).
  cbn [pon_loop]. assert (E : (num =? 0) = false) by lia. rewrite E.
  cbn [rev]. rewrite <- app_assoc. cbn [app].
  assert (Hlt : num < 128 ^ N.of_nat (S f)) by (apply (log2_fuel_gen 128 7); [reflexivity|lia]).
  rewrite pow_S in Hlt.
  rewrite pon_loop_cont by (apply N.div_lt_upper_bound; lia).
  set (l := pon_loop f (num / 128) false).
  cbn [unpack_octet_number]. rewrite b2n_n2b. pose proof (N.mod_lt num 128 ltac:(lia)).
  rewrite (N.mod_small (num mod 128) 256) by lia.
  assert (Hs : (num mod 128 <? 128) = true) by lia. rewrite Hs.
  f_equal. f_equal.
  - rewrite N.mul_0_l, N.add_0_l. rewrite N.mod_mod by lia.
    pose proof (N.div_mod num 128 ltac:(lia)). lia.
  - unfold nlen. rewrite app_length, rev_length. cbn [length]. fold l. lia.
Qed.

(* ---- lengths *)

Lemma len_loop_read fuel n tail acc :
  n < 256 ^ N.of_nat fuel ->
  read_len_octets (length (len_loop fuel n)) (rev (len_loop fuel n) ++ tail) acc =
  Ok (acc * 256 ^ nlen (len_loop fuel n) + n).
Proof.
  revert n tail acc. induction fuel as [|f IH]; intros n tail acc Hn.
  - cbn [len_loop length rev app read_len_octets]. unfold nlen. cbn [length].
    change (N.of_nat 0) with 0 in *. rewrite N.pow_0_r in *. f_equal. lia.
  - cbn [len_loop]. destruct (n =? 0) eqn:E.
    + cbn [length rev app read_len_octets]. unfold nlen. cbn [length]. change (N.of_nat 0) with 0.
      rewrite N.pow_0_r. f_equal. lia.
    + rewrite pow_S in Hn.
      assert (Hq : n / 256 < 256 ^ N.of_nat f) by (apply N.div_lt_upper_bound; lia).
      set (l := len_loop f (n / 256)) in *.
      (* reading k+1 octets = reading the k high ones then the last *)
      assert (G : forall k view x t a, length view = k ->
                  read_len_octets (S k) (view ++ x :: t) a =
                  match read_len_octets k (view ++ x :: t) a with
                  | Ok v => Ok (v * 256 + b2n x) | Raise e => Raise e end).
      { clear. induction k as [|k IHk]; intros view x t a Hl.
        - destruct view; [|discriminate]. reflexivity.
        - destruct view as [|y view]; [discriminate|]. injection Hl as Hl.
          cbn [app]. change (read_len_octets (S (S k)) (y :: view ++ x :: t) a)
            with (read_len_octets (S k) (view ++ x :: t) (a * 256 + b2n y)).
          rewrite IHk by exact Hl. reflexivity. }
      cbn [length rev]. rewrite <- app_assoc. cbn [app].
      rewrite G by now rewrite rev_length.
      specialize (IH (n / 256) (n2b (n mod 256) :: tail) acc Hq). fold l in IH. rewrite IH.
      f_equal. rewrite b2n_n2b, N.mod_mod by lia.
      unfold nlen. cbn [length]. fold (nlen l).
      replace (N.of_nat (S (length l))) with (N.succ (nlen l)) by (unfold nlen; lia).
      rewrite N.pow_succ_r'. pose proof (N.div_mod n 256 ltac:(lia)). nia.
Qed.

Lemma len_loop_length fuel n : (length (len_loop fuel n) <= fuel)%nat.
Proof.
  revert n; induction fuel as [|f IH]; intros n; cbn [len_loop]; [cbn; lia|].
  destruct (n =? 0); cbn [length]; [lia|]. specialize (IH (n / 256)). lia.
Qed.

(* the largest content length considered: fewer than 126 length octets are then needed, so the
   count octet 0x80+k stays below 0xFF (CPython could not hold more than 2^63 octets anyway) *)
Definition max_len : N := 256 ^ 125.

Lemma len_loop_bound fuel n k : n < 256 ^ N.of_nat k -> (length (len_loop fuel n) <= k)%nat.
Proof.
  revert n k. induction fuel as [|f IH]; intros n k Hn; cbn [len_loop]; [cbn; lia|].
  destruct (n =? 0) eqn:E; [cbn; lia|]. cbn [length].
  destruct k as [|k].
  - change (N.of_nat 0) with 0 in Hn. rewrite N.pow_0_r in Hn. lia.
  - rewrite pow_S in Hn. specialize (IH (n / 256) k ltac:(apply N.div_lt_upper_bound; lia)). lia.
Qed.

Definition len_octets (len : N) : N := nlen (pack_length len).

Lemma read_length_part len rest tag_octets t :
  len < max_len ->
  match pack_length len ++ rest with
  | [] => Raise NeedMore
  | l0 :: after_l0 =>
      let l := b2n l0 in
      if l =? 128 then Raise ValueErr
      else if 128 <? l then
        let k := l - 128 in
        len' <- read_len_octets (N.to_nat k) after_l0 0 ;;
        Ok (mkHdr t (tag_octets + 1 + k) len')
      else Ok (mkHdr t (tag_octets + 1) l)
  end = Ok (mkHdr t (tag_octets + len_octets len) len).
Proof.
  intros Hlen. unfold len_octets, pack_length.
  destruct (len <? 128) eqn:E.
  - cbn [app]. cbv zeta. rewrite b2n_n2b_small by lia.
    assert (E1 : (len =? 128) = false) by lia. assert (E2 : (128 <? len) = false) by lia.
    rewrite E1, E2. unfold nlen. cbn [length]. reflexivity.
  - set (f := S (N.to_nat (N.log2 len))).
    set (l := len_loop f len).
    assert (Hf : len < 256 ^ N.of_nat f) by (apply (log2_fuel_gen 256 8); [reflexivity|lia]).
    assert (Hk : (length l <= 125)%nat) by (apply len_loop_bound; exact Hlen).
    assert (Hpos : (0 < length l)%nat).
    { unfold l, f. cbn [len_loop]. assert (E0 : (len =? 0) = false) by lia. rewrite E0. cbn [length]. lia. }
    cbn [app]. cbv zeta.
    assert (Hn : nlen (rev l) = N.of_nat (length l)) by (unfold nlen; now rewrite rev_length).
    rewrite Hn. rewrite b2n_n2b_small by lia.
    assert (E1 : (N.of_nat (length l) + 128 =? 128) = false) by lia.
    assert (E2 : (128 <? N.of_nat (length l) + 128) = true) by lia.
    rewrite E1, E2.
    replace (N.of_nat (length l) + 128 - 128) with (N.of_nat (length l)) by lia.
    rewrite Nat2N.id.
    unfold l. rewrite len_loop_read by exact Hf. cbn [bind]. fold l.
    unfold nlen. cbn [length]. rewrite rev_length.
    f_equal. f_equal; lia.
Qed.

(* ---- identifier + length = header *)

Lemma drop_app_len {A} (a b : list A) n : n = nlen a -> drop n (a ++ b) = b.
Proof. intros ->. apply drop_app_exact. Qed.

Definition wf_tag (t : tag) : Prop :=
  t_cls t <= 3 /\ (t_cls t = cls_universal -> in_table (t_num t) type_tag_numbers = true).

Definition ident_octets (t : tag) : N := nlen (pack_identifier (t_cls t) (t_cons t) (t_num t)).

Theorem header_roundtrip t len rest :
  wf_tag t -> len < max_len ->
  read_header (pack_identifier (t_cls t) (t_cons t) (t_num t) ++ pack_length len ++ rest)
  = Ok (mkHdr t (ident_octets t + len_octets len) len).
Proof.
  destruct t as [cls num cons]. unfold wf_tag, ident_octets. cbn [t_cls t_num t_cons].
  intros [Hcls Huni] Hlen.
  set (c := if cons then 32 else 0).
  assert (Hc : c = 0 \/ c = 32) by (unfold c; destruct cons; lia).
  assert (Hcons : forall n5, n5 < 32 -> ((cls * 64 + c + n5) / 32) mod 2 =? 1 = cons).
  { intros n5 Hn5. unfold c. destruct cons; lia. }
  assert (Htbl : (cls =? cls_universal) && negb (in_table num type_tag_numbers) = false).
  { destruct (cls =? cls_universal) eqn:E; [|reflexivity].
    rewrite Huni by lia. reflexivity. }
  unfold pack_identifier. destruct (num <? 31) eqn:E31.
  - cbn [app]. unfold read_header. fold c.
    rewrite b2n_n2b_small by lia.
    replace ((cls * 64 + c + num) mod 32) with num by lia.
    assert (E : (num =? 31) = false) by lia. rewrite E. cbn [bind].
    replace ((cls * 64 + c + num) / 64) with cls by lia.
    rewrite Htbl, Hcons by lia.
    replace (drop 1 (n2b (cls * 64 + c + num) :: pack_length len ++ rest)) with (pack_length len ++ rest)
      by (symmetry; apply (drop_app_len [n2b (cls * 64 + c + num)]); reflexivity).
    rewrite read_length_part by exact Hlen. unfold nlen. cbn [length]. reflexivity.
  - cbn [app]. unfold read_header. fold c.
    rewrite b2n_n2b_small by lia.
    replace ((cls * 64 + c + 31) mod 32) with 31 by lia.
    change (31 =? 31) with true. cbv iota.
    rewrite octet_number_roundtrip by lia. cbn [bind].
    replace ((cls * 64 + c + 31) / 64) with cls by lia.
    rewrite Htbl, Hcons by lia.
    set (pon := pack_octet_number num).
    assert (Hd : drop (1 + nlen pon) (n2b (cls * 64 + c + 31) :: pon ++ pack_length len ++ rest)
                 = pack_length len ++ rest).
    { change (n2b (cls * 64 + c + 31) :: pon ++ pack_length len ++ rest)
        with ((n2b (cls * 64 + c + 31) :: pon) ++ pack_length len ++ rest).
      apply drop_app_len. unfold nlen. cbn [length]. lia. }
    rewrite Hd, read_length_part by exact Hlen.
    unfold nlen. cbn [length]. f_equal. f_equal. lia.
Qed.

Lemma tag_eqb_refl t : tag_eqb t t = true.
Proof. unfold tag_eqb. rewrite !N.eqb_refl, Bool.eqb_reflx. reflexivity. Qed.

Lemma tag_eqb_eq a b : tag_eqb a b = true <-> a = b.
Proof.
  split; [|intros ->; apply tag_eqb_refl].
  destruct a, b. unfold tag_eqb. simpl. intros H.
  apply andb_true_iff in H as [H H3]. apply andb_true_iff in H as [H1 H2].
  apply N.eqb_eq in H1, H2. apply Bool.eqb_prop in H3. congruence.
Qed.

(* ---- whole TLV: what was written is read back, and nothing beyond it is consumed *)

Theorem tlv_roundtrip t data rest tlv :
  wf_tag t -> nlen data < max_len -> pack_tlv t data = Ok tlv ->
  validate_tag (tlv ++ rest) t None = Ok (data, nlen tlv).
Proof.
  intros Hwf Hlen Hp. unfold pack_tlv, pack_asn1 in Hp.
  destruct Hwf as [Hcls Huni]. assert (E : (3 <? t_cls t) = false) by lia. rewrite E in Hp.
  injection Hp as <-.
  unfold validate_tag. rewrite <- !app_assoc.
  rewrite header_roundtrip; [|split; assumption|exact Hlen]. cbn [bind]. simpl h_tag. simpl h_hlen. simpl h_len.
  rewrite tag_eqb_refl. cbn [negb].
  rewrite !app_assoc, <- (app_assoc _ data rest).
  rewrite drop_app_len by (unfold ident_octets, len_octets; now rewrite nlen_app).
  rewrite nlen_app. assert (E2 : (nlen data + nlen rest <? nlen data) = false) by lia. rewrite E2.
  rewrite take_app_exact. f_equal. f_equal.
  unfold ident_octets, len_octets. rewrite !nlen_app. lia.
Qed.

Corollary reader_tlv_roundtrip t data rest tlv :
  wf_tag t -> nlen data < max_len -> pack_tlv t data = Ok tlv ->
  read_octet_string (tlv ++ rest) (Some t) None = Ok (data, rest).
Proof.
  intros Hwf Hlen Hp. unfold read_octet_string, rd, read_octet_string_raw, pick_tag.
  rewrite (tlv_roundtrip t data rest tlv Hwf Hlen Hp). cbn [bind].
  now rewrite drop_app_exact.
Qed.

Lemma pack_tlv_ok t data : t_cls t <= 3 -> exists tlv, pack_tlv t data = Ok tlv.
Proof.
  intros H. unfold pack_tlv, pack_asn1. assert (E : (3 <? t_cls t) = false) by lia. rewrite E. eauto.
Qed.

Lemma wf_universal num cons : in_table num type_tag_numbers = true -> wf_tag (universal num cons).
Proof. intros H. split; cbn; [vm_compute; discriminate|intros _; exact H]. Qed.

(* ---- typed values at the reader level *)
From SV Require Import Asn1.IntProofs.

Theorem reader_integer_roundtrip t z rest tlv :
  wf_tag t -> nlen (int_content z) < max_len -> pack_integer (Some t) z = Ok tlv ->
  read_integer (tlv ++ rest) (Some t) None = Ok (z, rest).
Proof.
  intros Hwf Hlen Hp. unfold pack_integer in Hp.
  unfold read_integer, rd, read_integer_raw, pick_tag.
  rewrite (tlv_roundtrip t _ rest tlv Hwf Hlen Hp). cbn [bind].
  rewrite int_content_roundtrip. cbn [bind]. now rewrite drop_app_exact.
Qed.

Theorem reader_enumerated_roundtrip t z rest tlv :
  wf_tag t -> nlen (int_content z) < max_len -> pack_enumerated (Some t) z = Ok tlv ->
  read_enumerated (tlv ++ rest) (Some t) None = Ok (z, rest).
Proof.
  intros Hwf Hlen Hp. unfold pack_enumerated in Hp.
  unfold read_enumerated, rd, read_enumerated_raw, pick_tag.
  rewrite (tlv_roundtrip t _ rest tlv Hwf Hlen Hp). cbn [bind].
  rewrite int_content_roundtrip. cbn [bind]. now rewrite drop_app_exact.
Qed.

Theorem reader_boolean_roundtrip t v rest tlv :
  wf_tag t -> pack_boolean (Some t) v = Ok tlv ->
  read_boolean (tlv ++ rest) (Some t) None = Ok (v, rest).
Proof.
  intros Hwf Hp. unfold pack_boolean in Hp.
  unfold read_boolean, rd, read_boolean_raw, pick_tag.
  assert (Hlen : nlen [if v then xff else x00] < max_len) by (unfold nlen; cbn [length]; reflexivity).
  rewrite (tlv_roundtrip t _ rest tlv Hwf Hlen Hp). cbn [bind].
  rewrite drop_app_exact. destruct v; reflexivity.
Qed.

(* a padded TRUE (any non-zero single octet, or any other content) reads as True *)
Lemma boolean_nonzero_true raw : raw <> [x00] -> negb (bytes_eqb raw [x00]) = true.
Proof.
  intros H. destruct (bytes_eqb raw [x00]) eqn:E; [|reflexivity].
  apply bytes_eqb_eq in E. contradiction.
Qed.

Theorem reader_sequence_roundtrip t inner rest tlv :
  wf_tag t -> nlen inner < max_len -> pack_tlv t inner = Ok tlv ->
  read_sequence (tlv ++ rest) (Some t) None = Ok (inner, rest).
Proof.
  intros Hwf Hlen Hp. unfold read_sequence, rd, read_sequence_raw, pick_tag.
  rewrite (tlv_roundtrip t inner rest tlv Hwf Hlen Hp). cbn [bind]. now rewrite drop_app_exact.
Qed.
