(* Nested values written through ASN1Writer (push_sequence, push_set, write_xxx) and read back
   through ASN1Reader with the same shape.  Model only. *)
From Coq Require Import ZArith NArith List Bool.
From Coq.Strings Require Import Byte.
From SV Require Import Base.Bytes Base.Py Gen.Generated Asn1.Model.
Import ListNotations.

Inductive tree :=
| TInt (t : option tag) (z : Z)
| TEnum (t : option tag) (z : Z)
| TBool (t : option tag) (b : bool)
| TOct (t : option tag) (bs : list byte)
| TSeq (t : option tag) (kids : list tree)
| TSet (t : option tag) (kids : list tree).

Definition seq_tag (t : option tag) := match t with Some t => t | None => universal tn_sequence true end.
Definition set_tag (t : option tag) := match t with Some t => t | None => universal tn_set true end.

Fixpoint write_tree (x : tree) : res (list byte) :=
  match x with
  | TInt t z => pack_integer t z
  | TEnum t z => pack_enumerated t z
  | TBool t b => pack_boolean t b
  | TOct t bs => pack_octet_string t bs
  | TSeq t kids =>
      inner <- (fix go (l : list tree) : res (list byte) :=
                  match l with
                  | [] => Ok []
                  | k :: r => a <- write_tree k ;; b <- go r ;; Ok (a ++ b)
                  end) kids ;;
      pack_tlv (seq_tag t) inner
  | TSet t kids =>
      inner <- (fix go (l : list tree) : res (list byte) :=
                  match l with
                  | [] => Ok []
                  | k :: r => a <- write_tree k ;; b <- go r ;; Ok (a ++ b)
                  end) kids ;;
      pack_tlv (set_tag t) inner
  end.

(* read with the shape (tags and kinds) of [x]; values of [x] are ignored.  A constructed value
   whose content is not exhausted by its children is reported as ValueErr by the harness. *)
Fixpoint read_tree (x : tree) (r : reader) : res (tree * reader) :=
  match x with
  | TInt t _ => '(z, r') <- read_integer r t None ;; Ok (TInt t z, r')
  | TEnum t _ => '(z, r') <- read_enumerated r t None ;; Ok (TEnum t z, r')
  | TBool t _ => '(b, r') <- read_boolean r t None ;; Ok (TBool t b, r')
  | TOct t _ => '(bs, r') <- read_octet_string r t None ;; Ok (TOct t bs, r')
  | TSeq t kids =>
      '(inner, r') <- read_sequence r t None ;;
      '(ks, lft) <- (fix go (l : list tree) (ir : reader) : res (list tree * reader) :=
                        match l with
                        | [] => Ok ([], ir)
                        | k :: rest =>
                            '(k', ir') <- read_tree k ir ;;
                            '(ks, ir'') <- go rest ir' ;; Ok (k' :: ks, ir'')
                        end) kids inner ;;
      match lft with [] => Ok (TSeq t ks, r') | _ => Raise ValueErr end
  | TSet t kids =>
      '(inner, r') <- read_set r t None ;;
      '(ks, lft) <- (fix go (l : list tree) (ir : reader) : res (list tree * reader) :=
                        match l with
                        | [] => Ok ([], ir)
                        | k :: rest =>
                            '(k', ir') <- read_tree k ir ;;
                            '(ks, ir'') <- go rest ir' ;; Ok (k' :: ks, ir'')
                        end) kids inner ;;
      match lft with [] => Ok (TSet t ks, r') | _ => Raise ValueErr end
  end.
