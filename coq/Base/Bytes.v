(* Octets and elementary Python-like list operations.  Model side only: no proofs of
   properties live here, just the vocabulary and its characterising lemmas. *)
From Coq Require Import ZArith NArith List Bool Lia.
From Coq.Strings Require Import Byte.
Import ListNotations.
Local Open Scope N_scope.

Notation byte := Byte.byte (only parsing).

Definition b2n (b : byte) : N := Byte.to_N b.
Definition b2z (b : byte) : Z := Z.of_N (b2n b).

(* total conversion: the value modulo 256 (Python's [x & 0xFF] followed by bytearray.append) *)
Definition n2b (n : N) : byte :=
  match Byte.of_N (n mod 256) with Some b => b | None => Byte.x00 end.
Definition z2b (z : Z) : byte := n2b (Z.to_N (z mod 256)).

Lemma b2n_lt b : b2n b < 256.
Proof. unfold b2n. pose proof (Byte.to_N_bounded b). lia. Qed.

Lemma b2z_range b : (0 <= b2z b < 256)%Z.
Proof. unfold b2z. pose proof (b2n_lt b). lia. Qed.

Lemma b2n_n2b n : b2n (n2b n) = n mod 256.
Proof.
  unfold n2b, b2n.
  destruct (Byte.of_N (n mod 256)) eqn:E.
  - now apply Byte.to_of_N.
  - apply Byte.of_N_None_iff in E. pose proof (N.mod_lt n 256). lia.
Qed.

Lemma n2b_b2n b : n2b (b2n b) = b.
Proof.
  unfold n2b, b2n. rewrite N.mod_small by (pose proof (Byte.to_N_bounded b); lia).
  now rewrite Byte.of_to_N.
Qed.

Lemma b2n_n2b_small n : n < 256 -> b2n (n2b n) = n.
Proof. intros. rewrite b2n_n2b. now apply N.mod_small. Qed.

Lemma b2z_z2b z : b2z (z2b z) = (z mod 256)%Z.
Proof.
  unfold b2z, z2b. rewrite b2n_n2b.
  pose proof (Z.mod_pos_bound z 256 ltac:(lia)).
  rewrite N.mod_small by lia. lia.
Qed.

Lemma b2z_z2b_small z : (0 <= z < 256)%Z -> b2z (z2b z) = z.
Proof. intros. rewrite b2z_z2b. now apply Z.mod_small. Qed.

Lemma z2b_b2z b : z2b (b2z b) = b.
Proof.
  unfold z2b, b2z. pose proof (b2n_lt b).
  rewrite Z.mod_small by lia. rewrite N2Z.id. apply n2b_b2n.
Qed.

Lemma b2n_inj a b : b2n a = b2n b -> a = b.
Proof. intros H. rewrite <- (n2b_b2n a), <- (n2b_b2n b). now rewrite H. Qed.

Definition byte_eqb (a b : byte) : bool := Byte.eqb a b.
Lemma byte_eqb_eq a b : byte_eqb a b = true <-> a = b.
Proof. unfold byte_eqb. apply Byte.byte_dec_bl || (split; [apply Byte.byte_dec_bl | apply Byte.byte_dec_lb]). Qed.

Fixpoint bytes_eqb (a b : list byte) : bool :=
  match a, b with
  | [], [] => true
  | x :: a', y :: b' => byte_eqb x y && bytes_eqb a' b'
  | _, _ => false
  end.

Lemma bytes_eqb_eq a b : bytes_eqb a b = true <-> a = b.
Proof.
  revert b; induction a as [|x a IH]; intros [|y b]; simpl; split; intros H; try congruence; auto.
  - apply andb_true_iff in H as [H1 H2]. apply byte_eqb_eq in H1. apply IH in H2. congruence.
  - injection H as -> ->. apply andb_true_iff; split; [now apply byte_eqb_eq | now apply IH].
Qed.

(* length as N *)
Definition nlen {A} (l : list A) : N := N.of_nat (length l).

(* Python slicing l[:n] / l[n:] for n >= 0.  The bound is compared as a binary number first so
   that absurd lengths claimed by a header never get converted to unary. *)
Definition take {A} (n : N) (l : list A) : list A :=
  if nlen l <=? n then l else firstn (N.to_nat n) l.
Definition drop {A} (n : N) (l : list A) : list A :=
  if nlen l <=? n then [] else skipn (N.to_nat n) l.

Lemma take_firstn {A} n (l : list A) : take n l = firstn (N.to_nat n) l.
Proof.
  unfold take, nlen. destruct (N.leb_spec (N.of_nat (length l)) n); [|reflexivity].
  symmetry. apply firstn_all2. lia.
Qed.

Lemma drop_skipn {A} n (l : list A) : drop n l = skipn (N.to_nat n) l.
Proof.
  unfold drop, nlen. destruct (N.leb_spec (N.of_nat (length l)) n); [|reflexivity].
  symmetry. apply skipn_all2. lia.
Qed.

Lemma take_drop {A} n (l : list A) : take n l ++ drop n l = l.
Proof. rewrite take_firstn, drop_skipn. apply firstn_skipn. Qed.

Lemma nlen_app {A} (a b : list A) : nlen (a ++ b) = nlen a + nlen b.
Proof. unfold nlen. rewrite app_length. lia. Qed.

Lemma take_app_exact {A} (a b : list A) : take (nlen a) (a ++ b) = a.
Proof.
  rewrite take_firstn. unfold nlen. rewrite Nat2N.id.
  rewrite firstn_app, Nat.sub_diag, firstn_all. simpl. apply app_nil_r.
Qed.

Lemma drop_app_exact {A} (a b : list A) : drop (nlen a) (a ++ b) = b.
Proof.
  rewrite drop_skipn. unfold nlen. rewrite Nat2N.id.
  rewrite skipn_app, Nat.sub_diag, skipn_all. reflexivity.
Qed.

Lemma drop_0 {A} (l : list A) : drop 0 l = l.
Proof. rewrite drop_skipn. reflexivity. Qed.

Lemma nlen_drop {A} n (l : list A) : nlen (drop n l) = nlen l - n.
Proof. rewrite drop_skipn. unfold nlen. rewrite skipn_length. lia. Qed.

(* big-endian value of an octet string, base 256 *)
Definition be_val (bs : list byte) : N := fold_left (fun acc b => acc * 256 + b2n b) bs 0.
