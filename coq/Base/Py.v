(* Outcome type shared by all model functions: how a Python call can end. *)
From Coq Require Import List.
Import ListNotations.

(* exceptions the library never intends to leak *)
Inductive crash := IndexErr | KeyErr | TypeErr | RecursionErr | UnicodeErr | OutOfFuel.

Inductive err :=
| ValueErr            (* ValueError (incl. UnicodeDecodeError, FilterSyntaxError unless stated) *)
| NotImpl             (* NotImplementedError *)
| NeedMore            (* asn1.NotEnougData *)
| Crash (k : crash).

Inductive res (A : Type) :=
| Ok (a : A)
| Raise (e : err).
Arguments Ok {A} a.
Arguments Raise {A} e.

Definition bind {A B} (m : res A) (f : A -> res B) : res B :=
  match m with Ok a => f a | Raise e => Raise e end.

Declare Scope res_scope.
Notation "x <- m ;; k" := (bind m (fun x => k)) (at level 61, m at next level, right associativity) : res_scope.
Notation "' p <- m ;; k" := (bind m (fun p => k)) (at level 61, p pattern, m at next level, right associativity) : res_scope.
Open Scope res_scope.

Definition is_ok {A} (r : res A) : bool := match r with Ok _ => true | _ => false end.
Definition is_crash {A} (r : res A) : bool := match r with Raise (Crash _) => true | _ => false end.
