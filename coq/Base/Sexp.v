(* Neutral exchange format between the model (extracted to OCaml) and the Python harness.
   Text form:  i<sign><hex>   integer      e.g. i+1f  i-100  i+0
               x<hex>         octet string e.g. x3002  x
               ( ... )        list *)
From Coq Require Import ZArith NArith List Bool.
From Coq.Strings Require Import Byte.
From SV Require Import Base.Bytes Base.Py.
Import ListNotations.

Inductive sexp :=
| SInt (z : Z)
| SBytes (bs : list byte)
| SList (l : list sexp).

Definition s_n (n : N) : sexp := SInt (Z.of_N n).
Definition s_bool (b : bool) : sexp := SInt (if b then 1 else 0)%Z.
Definition s_opt {A} (f : A -> sexp) (o : option A) : sexp :=
  match o with None => SList [] | Some a => SList [f a] end.
Definition s_list {A} (f : A -> sexp) (l : list A) : sexp := SList (map f l).
Definition s_pair {A B} (f : A -> sexp) (g : B -> sexp) (p : A * B) : sexp :=
  SList [f (fst p); g (snd p)].

Definition crash_code (k : crash) : Z :=
  match k with
  | IndexErr => 10 | KeyErr => 11 | TypeErr => 12 | RecursionErr => 13 | UnicodeErr => 14 | OutOfFuel => 15
  end%Z.

Definition err_code (e : err) : Z :=
  match e with
  | ValueErr => 1 | NotImpl => 2 | NeedMore => 3 | Crash k => crash_code k
  end%Z.

(* (0 v) = returned v ; (1 code) = raised *)
Definition s_res {A} (f : A -> sexp) (r : res A) : sexp :=
  match r with
  | Ok a => SList [SInt 0; f a]
  | Raise e => SList [SInt 1; SInt (err_code e)]
  end.

(* decoding of arguments; malformed requests give None (the driver prints "bad-request") *)
Definition g_z (s : sexp) : option Z := match s with SInt z => Some z | _ => None end.
Definition g_n (s : sexp) : option N :=
  match s with SInt z => if (z <? 0)%Z then None else Some (Z.to_N z) | _ => None end.
Definition g_bool (s : sexp) : option bool :=
  match s with SInt 0%Z => Some false | SInt 1%Z => Some true | _ => None end.
Definition g_bytes (s : sexp) : option (list byte) := match s with SBytes b => Some b | _ => None end.
Definition g_opt {A} (f : sexp -> option A) (s : sexp) : option (option A) :=
  match s with
  | SList [] => Some None
  | SList [x] => match f x with Some a => Some (Some a) | None => None end
  | _ => None
  end.
Fixpoint g_all {A} (f : sexp -> option A) (l : list sexp) : option (list A) :=
  match l with
  | [] => Some []
  | x :: r => match f x, g_all f r with Some a, Some rs => Some (a :: rs) | _, _ => None end
  end.
Definition g_list {A} (f : sexp -> option A) (s : sexp) : option (list A) :=
  match s with SList l => g_all f l | _ => None end.

Definition obind {A B} (o : option A) (f : A -> option B) : option B :=
  match o with Some a => f a | None => None end.
Notation "x <-? m ;; k" := (obind m (fun x => k)) (at level 61, m at next level, right associativity).
