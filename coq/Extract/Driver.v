(* Request dispatcher run by ocaml/driver.ml: sexp in, sexp out.  One numeric command per model
   entry point; tools/lib/cmds.py holds the same numbering. *)
From Coq Require Import ZArith NArith List Bool.
From Coq.Strings Require Import Byte.
From SV Require Import Base.Bytes Base.Py Base.Sexp Gen.Generated Asn1.Model Asn1.Tree Extract.DriverMsg.
Import ListNotations.
Local Open Scope Z_scope.

(* ---- ASN.1 values *)
Definition g_tag (s : sexp) : option tag :=
  match s with
  | SList [c; n; k] => c <-? g_n c ;; n <-? g_n n ;; k <-? g_bool k ;; Some (mkTag c n k)
  | _ => None
  end.
Definition s_tag (t : tag) : sexp := SList [s_n (t_cls t); s_n (t_num t); s_bool (t_cons t)].
Definition s_hdr (h : header) : sexp := SList [s_tag (h_tag h); s_n (h_hlen h); s_n (h_len h)].

Fixpoint g_tree (fuel : nat) (s : sexp) : option tree :=
  match fuel with
  | O => None
  | S f =>
      match s with
      | SList [SInt 1; t; v] => t <-? g_opt g_tag t ;; v <-? g_z v ;; Some (TInt t v)
      | SList [SInt 2; t; v] => t <-? g_opt g_tag t ;; v <-? g_z v ;; Some (TEnum t v)
      | SList [SInt 3; t; v] => t <-? g_opt g_tag t ;; v <-? g_bool v ;; Some (TBool t v)
      | SList [SInt 4; t; v] => t <-? g_opt g_tag t ;; v <-? g_bytes v ;; Some (TOct t v)
      | SList [SInt 5; t; SList ks] => t <-? g_opt g_tag t ;; ks <-? g_all (g_tree f) ks ;; Some (TSeq t ks)
      | SList [SInt 6; t; SList ks] => t <-? g_opt g_tag t ;; ks <-? g_all (g_tree f) ks ;; Some (TSet t ks)
      | _ => None
      end
  end.

Fixpoint s_tree (x : tree) : sexp :=
  match x with
  | TInt t v => SList [SInt 1; s_opt s_tag t; SInt v]
  | TEnum t v => SList [SInt 2; s_opt s_tag t; SInt v]
  | TBool t v => SList [SInt 3; s_opt s_tag t; s_bool v]
  | TOct t v => SList [SInt 4; s_opt s_tag t; SBytes v]
  | TSeq t ks => SList [SInt 5; s_opt s_tag t; SList (map s_tree ks)]
  | TSet t ks => SList [SInt 6; s_opt s_tag t; SList (map s_tree ks)]
  end.

Definition bad : sexp := SList [SInt 2].
Definition or_bad (o : option sexp) : sexp := match o with Some s => s | None => bad end.

Definition run_asn1 (cmd : Z) (args : list sexp) : option sexp :=
  match cmd, args with
  | 1, [t; z] => t <-? g_opt g_tag t ;; z <-? g_z z ;; Some (s_res SBytes (pack_integer t z))
  | 2, [t; z] => t <-? g_opt g_tag t ;; z <-? g_z z ;; Some (s_res SBytes (pack_enumerated t z))
  | 3, [t; b] => t <-? g_opt g_tag t ;; b <-? g_bool b ;; Some (s_res SBytes (pack_boolean t b))
  | 4, [t; b] => t <-? g_opt g_tag t ;; b <-? g_bytes b ;; Some (s_res SBytes (pack_octet_string t b))
  | 5, [x] => x <-? g_tree 64 x ;; Some (s_res SBytes (write_tree x))
  | 10, [d] => d <-? g_bytes d ;; Some (s_res s_hdr (peek_header d))
  | 11, [t; d] => t <-? g_opt g_tag t ;; d <-? g_bytes d ;; Some (s_res (s_pair SInt SBytes) (read_integer d t None))
  | 12, [t; d] => t <-? g_opt g_tag t ;; d <-? g_bytes d ;; Some (s_res (s_pair SInt SBytes) (read_enumerated d t None))
  | 13, [t; d] => t <-? g_opt g_tag t ;; d <-? g_bytes d ;; Some (s_res (s_pair s_bool SBytes) (read_boolean d t None))
  | 14, [t; d] => t <-? g_opt g_tag t ;; d <-? g_bytes d ;; Some (s_res (s_pair SBytes SBytes) (read_octet_string d t None))
  | 15, [t; d] => t <-? g_opt g_tag t ;; d <-? g_bytes d ;; Some (s_res (s_pair SBytes SBytes) (read_sequence d t None))
  | 16, [t; d] => t <-? g_opt g_tag t ;; d <-? g_bytes d ;; Some (s_res (s_pair SBytes SBytes) (read_set d t None))
  | 17, [d] => d <-? g_bytes d ;;
               Some (s_res SBytes (h <- peek_header d ;; Ok (skip_value d h)))
  | 18, [x; d] => x <-? g_tree 64 x ;; d <-? g_bytes d ;; Some (s_res (s_pair s_tree SBytes) (read_tree x d))
  (* the header-assisted variants: peek, then read with header= *)
  | 19, [d] => d <-? g_bytes d ;;
               Some (s_res (s_pair SInt SBytes) (h <- peek_header d ;; read_integer d None (Some h)))
  | 20, [d] => d <-? g_bytes d ;;
               Some (s_res (s_pair SBytes SBytes) (h <- peek_header d ;; read_octet_string d None (Some h)))
  | 21, [d] => d <-? g_bytes d ;;
               Some (s_res (s_pair s_bool SBytes) (h <- peek_header d ;; read_boolean d None (Some h)))
  (* write-then-read chains: (written, read back from written ++ rest) *)
  | 30, [t; z; rest] =>
      t <-? g_opt g_tag t ;; z <-? g_z z ;; rest <-? g_bytes rest ;;
      let w := pack_integer t z in
      Some (SList [s_res SBytes w;
                   match w with
                   | Ok bs => s_res (s_pair SInt SBytes) (read_integer (bs ++ rest) t None)
                   | Raise _ => SList [] end])
  | 31, [t; d; rest] =>
      t <-? g_opt g_tag t ;; d <-? g_bytes d ;; rest <-? g_bytes rest ;;
      let w := pack_octet_string t d in
      Some (SList [s_res SBytes w;
                   match w with
                   | Ok bs => s_res (s_pair SBytes SBytes) (read_octet_string (bs ++ rest) t None)
                   | Raise _ => SList [] end])
  | 32, [x; rest] =>
      x <-? g_tree 64 x ;; rest <-? g_bytes rest ;;
      let w := write_tree x in
      Some (SList [s_res SBytes w;
                   match w with
                   | Ok bs => s_res (s_pair s_tree SBytes) (read_tree x (bs ++ rest))
                   | Raise _ => SList [] end])
  | 33, [t; b; rest] =>
      t <-? g_opt g_tag t ;; b <-? g_bool b ;; rest <-? g_bytes rest ;;
      let w := pack_boolean t b in
      Some (SList [s_res SBytes w;
                   match w with
                   | Ok bs => s_res (s_pair s_bool SBytes) (read_boolean (bs ++ rest) t None)
                   | Raise _ => SList [] end])
  | 34, [t; z; rest] =>
      t <-? g_opt g_tag t ;; z <-? g_z z ;; rest <-? g_bytes rest ;;
      let w := pack_enumerated t z in
      Some (SList [s_res SBytes w;
                   match w with
                   | Ok bs => s_res (s_pair SInt SBytes) (read_enumerated (bs ++ rest) t None)
                   | Raise _ => SList [] end])
  | _, _ => None
  end.

Definition run (req : sexp) : sexp :=
  match req with
  | SList (SInt cmd :: args) =>
      if cmd <? 100 then or_bad (run_asn1 cmd args)
      else if cmd <? 200 then or_bad (run_msg cmd args)
      else if cmd <? 300 then or_bad (run_text cmd args)
      else if cmd <? 400 then or_bad (run_schema cmd args)
      else bad
  | _ => bad
  end.
