(* sexp <-> message / session values for the driver. *)
From Coq Require Import ZArith NArith List Bool.
From Coq.Strings Require Import Byte.
From SV Require Import Base.Bytes Base.Py Base.Sexp Gen.Generated Asn1.Model Msg.Types Msg.Encode Msg.Decode Msg.Rfc Msg.RfcDecode Sess.Model Sess.Registry Filt.Text.
Import ListNotations.
Local Open Scope Z_scope.

Definition s_obytes := s_opt SBytes.
Definition g_obytes := g_opt g_bytes.

(* ---- controls *)
Definition s_control (c : control) : sexp :=
  match c with
  | CGeneric oid crit v => SList [SInt 0; SBytes oid; s_bool crit; s_obytes v]
  | CPaged crit size cookie raw => SList [SInt 1; s_bool crit; SInt size; SBytes cookie; s_obytes raw]
  | CShowDeleted crit raw => SList [SInt 2; s_bool crit; s_obytes raw]
  | CShowDeactivated crit raw => SList [SInt 3; s_bool crit; s_obytes raw]
  end.
Definition g_control (s : sexp) : option control :=
  match s with
  | SList [SInt 0; oid; crit; v] => oid <-? g_bytes oid ;; crit <-? g_bool crit ;; v <-? g_obytes v ;; Some (CGeneric oid crit v)
  | SList [SInt 1; crit; size; cookie; raw] =>
      crit <-? g_bool crit ;; size <-? g_z size ;; cookie <-? g_bytes cookie ;; raw <-? g_obytes raw ;;
      Some (CPaged crit size cookie raw)
  | SList [SInt 2; crit; raw] => crit <-? g_bool crit ;; raw <-? g_obytes raw ;; Some (CShowDeleted crit raw)
  | SList [SInt 3; crit; raw] => crit <-? g_bool crit ;; raw <-? g_obytes raw ;; Some (CShowDeactivated crit raw)
  | _ => None
  end.
Definition s_controls := s_list s_control.
Definition g_controls := g_list g_control.

(* ---- credentials *)
Definition s_cred (c : cred) : sexp :=
  match c with
  | CrSimple pw => SList [SInt 0; SBytes pw]
  | CrSasl mech creds => SList [SInt 1; SBytes mech; s_obytes creds]
  end.
Definition g_cred (s : sexp) : option cred :=
  match s with
  | SList [SInt 0; pw] => pw <-? g_bytes pw ;; Some (CrSimple pw)
  | SList [SInt 1; mech; creds] => mech <-? g_bytes mech ;; creds <-? g_obytes creds ;; Some (CrSasl mech creds)
  | _ => None
  end.

(* ---- filters *)
Fixpoint s_filter (f : filter) : sexp :=
  match f with
  | FAnd fs => SList [SInt 0; SList (map s_filter fs)]
  | FOr fs => SList [SInt 1; SList (map s_filter fs)]
  | FNot g => SList [SInt 2; s_filter g]
  | FEq a v => SList [SInt 3; SBytes a; SBytes v]
  | FSub a i any fin => SList [SInt 4; SBytes a; s_obytes i; s_list SBytes any; s_obytes fin]
  | FGe a v => SList [SInt 5; SBytes a; SBytes v]
  | FLe a v => SList [SInt 6; SBytes a; SBytes v]
  | FPresent a => SList [SInt 7; SBytes a]
  | FApprox a v => SList [SInt 8; SBytes a; SBytes v]
  | FExt rule attr v dn => SList [SInt 9; s_obytes rule; s_obytes attr; SBytes v; s_bool dn]
  end.
Fixpoint g_filter (fuel : nat) (s : sexp) : option filter :=
  match fuel with
  | O => None
  | S fu =>
      match s with
      | SList [SInt 0; SList fs] => fs <-? g_all (g_filter fu) fs ;; Some (FAnd fs)
      | SList [SInt 1; SList fs] => fs <-? g_all (g_filter fu) fs ;; Some (FOr fs)
      | SList [SInt 2; g] => g <-? g_filter fu g ;; Some (FNot g)
      | SList [SInt 3; a; v] => a <-? g_bytes a ;; v <-? g_bytes v ;; Some (FEq a v)
      | SList [SInt 4; a; i; any; fin] =>
          a <-? g_bytes a ;; i <-? g_obytes i ;; any <-? g_list g_bytes any ;; fin <-? g_obytes fin ;;
          Some (FSub a i any fin)
      | SList [SInt 5; a; v] => a <-? g_bytes a ;; v <-? g_bytes v ;; Some (FGe a v)
      | SList [SInt 6; a; v] => a <-? g_bytes a ;; v <-? g_bytes v ;; Some (FLe a v)
      | SList [SInt 7; a] => a <-? g_bytes a ;; Some (FPresent a)
      | SList [SInt 8; a; v] => a <-? g_bytes a ;; v <-? g_bytes v ;; Some (FApprox a v)
      | SList [SInt 9; rule; attr; v; dn] =>
          rule <-? g_obytes rule ;; attr <-? g_obytes attr ;; v <-? g_bytes v ;; dn <-? g_bool dn ;;
          Some (FExt rule attr v dn)
      | _ => None
      end
  end.
Definition filter_fuel : nat := (50 * 100)%nat.

(* ---- results, attributes *)
Definition s_result (r : ldap_result) : sexp :=
  SList [SInt (r_code r); SBytes (r_matched r); SBytes (r_diag r); s_opt (s_list SBytes) (r_referrals r)].
Definition g_result (s : sexp) : option ldap_result :=
  match s with
  | SList [c; m; d; refs] =>
      c <-? g_z c ;; m <-? g_bytes m ;; d <-? g_bytes d ;; refs <-? g_opt (g_list g_bytes) refs ;;
      Some (mkResult c m d refs)
  | _ => None
  end.
Definition s_pa (a : partial_attr) : sexp := SList [SBytes (pa_name a); s_list SBytes (pa_vals a)].
Definition g_pa (s : sexp) : option partial_attr :=
  match s with
  | SList [n; vs] => n <-? g_bytes n ;; vs <-? g_list g_bytes vs ;; Some (mkPA n vs)
  | _ => None
  end.

(* ---- operations, messages *)
Definition s_op (o : op) : sexp :=
  match o with
  | BindRequest v n a => SList [SInt 0; SInt v; SBytes n; s_cred a]
  | BindResponse r s => SList [SInt 1; s_result r; s_obytes s]
  | UnbindRequest => SList [SInt 2]
  | SearchRequest b sc de sl tl ty f at_ =>
      SList [SInt 3; SBytes b; SInt sc; SInt de; SInt sl; SInt tl; s_bool ty; s_filter f; s_list SBytes at_]
  | SearchResultEntry n at_ => SList [SInt 4; SBytes n; s_list s_pa at_]
  | SearchResultDone r => SList [SInt 5; s_result r]
  | SearchResultReference us => SList [SInt 6; s_list SBytes us]
  | ExtendedRequest n v => SList [SInt 7; SBytes n; s_obytes v]
  | ExtendedResponse r n v => SList [SInt 8; s_result r; s_obytes n; s_obytes v]
  end.
Definition g_op (s : sexp) : option op :=
  match s with
  | SList [SInt 0; v; n; a] => v <-? g_z v ;; n <-? g_bytes n ;; a <-? g_cred a ;; Some (BindRequest v n a)
  | SList [SInt 1; r; sa] => r <-? g_result r ;; sa <-? g_obytes sa ;; Some (BindResponse r sa)
  | SList [SInt 2] => Some UnbindRequest
  | SList [SInt 3; b; sc; de; sl; tl; ty; f; at_] =>
      b <-? g_bytes b ;; sc <-? g_z sc ;; de <-? g_z de ;; sl <-? g_z sl ;; tl <-? g_z tl ;; ty <-? g_bool ty ;;
      f <-? g_filter filter_fuel f ;; at_ <-? g_list g_bytes at_ ;;
      Some (SearchRequest b sc de sl tl ty f at_)
  | SList [SInt 4; n; at_] => n <-? g_bytes n ;; at_ <-? g_list g_pa at_ ;; Some (SearchResultEntry n at_)
  | SList [SInt 5; r] => r <-? g_result r ;; Some (SearchResultDone r)
  | SList [SInt 6; us] => us <-? g_list g_bytes us ;; Some (SearchResultReference us)
  | SList [SInt 7; n; v] => n <-? g_bytes n ;; v <-? g_obytes v ;; Some (ExtendedRequest n v)
  | SList [SInt 8; r; n; v] => r <-? g_result r ;; n <-? g_obytes n ;; v <-? g_obytes v ;; Some (ExtendedResponse r n v)
  | _ => None
  end.
Definition s_msg (m : msg) : sexp := SList [SInt (m_id m); s_op (m_op m); s_controls (m_controls m)].
Definition g_msg (s : sexp) : option msg :=
  match s with
  | SList [i; o; cs] => i <-? g_z i ;; o <-? g_op o ;; cs <-? g_controls cs ;; Some (mkMsg i o cs)
  | _ => None
  end.

(* ---- session *)
Definition g_call (s : sexp) : option call :=
  match s with
  | SList [SInt 0; n; a; cs] => n <-? g_bytes n ;; a <-? g_cred a ;; cs <-? g_controls cs ;; Some (CBind n a cs)
  | SList [SInt 1; n; v; cs] => n <-? g_bytes n ;; v <-? g_obytes v ;; cs <-? g_controls cs ;; Some (CExtended n v cs)
  | SList [SInt 2; b; sc; de; sl; tl; ty; f; at_; cs] =>
      b <-? g_bytes b ;; sc <-? g_z sc ;; de <-? g_z de ;; sl <-? g_z sl ;; tl <-? g_z tl ;; ty <-? g_bool ty ;;
      f <-? g_filter filter_fuel f ;; at_ <-? g_list g_bytes at_ ;; cs <-? g_controls cs ;;
      Some (CSearch b sc de sl tl ty f at_ cs)
  | SList [SInt 3; i; sa; c; m; d; cs] =>
      i <-? g_z i ;; sa <-? g_obytes sa ;; c <-? g_z c ;; m <-? g_bytes m ;; d <-? g_bytes d ;; cs <-? g_controls cs ;;
      Some (SBindResponse i sa c m d cs)
  | SList [SInt 4; i; n; v; c; m; d; cs] =>
      i <-? g_z i ;; n <-? g_obytes n ;; v <-? g_obytes v ;; c <-? g_z c ;; m <-? g_bytes m ;; d <-? g_bytes d ;;
      cs <-? g_controls cs ;; Some (SExtendedResponse i n v c m d cs)
  | SList [SInt 5; i; n; at_; cs] =>
      i <-? g_z i ;; n <-? g_bytes n ;; at_ <-? g_list g_pa at_ ;; cs <-? g_controls cs ;; Some (SEntry i n at_ cs)
  | SList [SInt 6; i; us; cs] => i <-? g_z i ;; us <-? g_list g_bytes us ;; cs <-? g_controls cs ;; Some (SReference i us cs)
  | SList [SInt 7; i; c; m; d; cs] =>
      i <-? g_z i ;; c <-? g_z c ;; m <-? g_bytes m ;; d <-? g_bytes d ;; cs <-? g_controls cs ;; Some (SDone i c m d cs)
  | SList [SInt 8] => Some Unbind
  | SList [SInt 9; d] => d <-? g_bytes d ;; Some (Receive d)
  | SList [SInt 10; a] => a <-? g_opt g_z a ;; Some (Drain a)
  | _ => None
  end.

Definition s_outcome (o : outcome) : sexp :=
  match o with
  | ORetId i => SList [SInt 0; SInt i]
  | ORetNone => SList [SInt 1]
  | ORetBytes b => SList [SInt 2; SBytes b]
  | ORetMsgs ms => SList [SInt 3; s_list s_msg ms]
  | OLdapErr => SList [SInt 4]
  | OProtoErr p => SList [SInt 5; SInt (match p with PNone => 0 | PUnbind => 1 | PNotice => 2 end)]
  | OOther e => SList [SInt 6; SInt (err_code e)]
  end.

(* insertion sort, for rendering sets *)
Fixpoint zinsert (x : Z) (l : list Z) : list Z :=
  match l with [] => [x] | y :: r => if x <=? y then x :: l else y :: zinsert x r end.
Definition zsort (l : list Z) : list Z := fold_right zinsert [] l.

Definition s_state_code (st : state) : Z :=
  match st with BEFORE_OPEN => 0 | BINDING => 1 | OPENED => 2 | CLOSED => 3 end.

(* observable snapshot after a call: state, outgoing buffer; plus the private bookkeeping the
   harness reads for a tighter tie (outstanding ids, search ids, counter, incoming residue) *)
Definition s_snapshot (s : sess) : sexp :=
  SList [SInt (s_state_code (s_state s)); SBytes (s_out s);
         s_list SInt (zsort (s_outstanding s)); s_list SInt (zsort (s_searches s));
         SInt (match s_role s with Client => s_counter s | Server => 0 end); SBytes (s_in s)].

Definition budget : nat := 200.

Fixpoint run_trace (s : sess) (cs : list call) : list sexp :=
  match cs with
  | [] => []
  | c :: rest => let '(s', o) := step budget s c in SList [s_outcome o; s_snapshot s'] :: run_trace s' rest
  end.

(* ---- the per-session registries of custom types (C19) *)
Definition g_rkind (s : sexp) : option rkind :=
  match s with SInt 0 => Some RControl | SInt 1 => Some RFilter | SInt 2 => Some RAuth | _ => None end.
Definition g_rid (s : sexp) : option rid := g_list g_n s.
Definition g_regop (s : sexp) : option (rkind * rid * list N) :=
  match s with SList [k; i; c] => k <-? g_rkind k ;; i <-? g_rid i ;; c <-? g_list g_n c ;; Some (k, i, c) | _ => None end.
Definition g_regq (s : sexp) : option (rkind * rid) :=
  match s with SList [k; i] => k <-? g_rkind k ;; i <-? g_rid i ;; Some (k, i) | _ => None end.

Definition run_msg (cmd : Z) (args : list sexp) : option sexp :=
  match cmd, args with
  | 100, [m] => m <-? g_msg m ;; Some (SBytes (enc_msg m))
  | 101, [d] => d <-? g_bytes d ;; Some (s_res (s_pair s_msg SBytes) (unpack_message budget d))
  | 102, [m; rest] =>
      m <-? g_msg m ;; rest <-? g_bytes rest ;;
      let b := enc_msg m in
      Some (SList [SBytes b; s_res (s_pair s_msg SBytes) (unpack_message budget (b ++ rest))])
  | 103, [d] => d <-? g_bytes d ;; Some (s_opt s_msg (strict_decode d))
  | 150, [ops; qs] =>
      ops <-? g_list g_regop ops ;; qs <-? g_list g_regq qs ;;
      let '(os, r) := reg_run ops reg_init in
      Some (SList [SList (map s_bool os);
                   SList (map (fun q => s_opt (fun c => SList (map s_n c)) (reg_decodes (fst q) (snd q) r)) qs)])
  | 110, [SInt r; cs] =>
      cs <-? g_list g_call cs ;;
      Some (SList (run_trace (init (if r =? 0 then Client else Server)) cs))
  | _, _ => None
  end.

(* ---- filter text *)
Definition s_fres {A} (f : A -> sexp) (r : fres A) : sexp :=
  match r with
  | FOk a => SList [SInt 0; f a]
  | FErr (FSyn o l) => SList [SInt 1; SInt o; SInt l]
  | FErr (FCrash k) => SList [SInt 2; SInt (crash_code k)]
  end.

Definition text_budget : nat := 600.

Definition run_text (cmd : Z) (args : list sexp) : option sexp :=
  match cmd, args with
  | 200, [f] => f <-? g_filter filter_fuel f ;; Some (SBytes (print_filter f))
  | 201, [s] => s <-? g_list g_n s ;; Some (s_fres s_filter (from_string text_budget s))
  | 202, [f] => f <-? g_filter filter_fuel f ;;
                let t := print_filter f in
                Some (SList [SBytes t; s_fres s_filter (from_bytes text_budget t)])
  | 203, [b] => b <-? g_bytes b ;; Some (s_fres s_filter (from_bytes text_budget b))
  | _, _ => None
  end.

(* ---- schema descriptions: strings are lists of code points *)
From SV Require Import Schema.Model.
Definition s_ustr (s : ustr) : sexp := SList (map s_n s).
Definition g_ustr (s : sexp) : option ustr := g_list g_n s.
Definition s_ulist := s_list s_ustr.
Definition g_ulist := g_list g_ustr.
Definition s_ext (e : list (ustr * list ustr)) : sexp := s_list (s_pair s_ustr s_ulist) e.
Definition g_ext (s : sexp) : option (list (ustr * list ustr)) :=
  g_list (fun p => match p with SList [k; v] => k <-? g_ustr k ;; v <-? g_ulist v ;; Some (k, v) | _ => None end) s.

Definition s_oc (o : objclass) : sexp :=
  SList [s_ustr (oc_oid o); s_ulist (oc_names o); s_opt s_ustr (oc_desc o); s_bool (oc_obsolete o);
         s_ulist (oc_sup o); s_n (oc_kind o); s_ulist (oc_must o); s_ulist (oc_may o); s_ext (oc_ext o)].
Definition g_oc (s : sexp) : option objclass :=
  match s with
  | SList [a; b; c; d; e; f; g; h; i] =>
      a <-? g_ustr a ;; b <-? g_ulist b ;; c <-? g_opt g_ustr c ;; d <-? g_bool d ;; e <-? g_ulist e ;;
      f <-? g_n f ;; g <-? g_ulist g ;; h <-? g_ulist h ;; i <-? g_ext i ;; Some (mkOC a b c d e f g h i)
  | _ => None
  end.
Definition s_at (o : attrtype) : sexp :=
  SList [s_ustr (at_oid o); s_ulist (at_names o); s_opt s_ustr (at_desc o); s_bool (at_obsolete o);
         s_opt s_ustr (at_sup o); s_opt s_ustr (at_equality o); s_opt s_ustr (at_ordering o); s_opt s_ustr (at_substr o);
         s_opt s_ustr (at_syntax o); s_opt SInt (at_syntax_len o); s_bool (at_single o); s_bool (at_collective o);
         s_bool (at_no_user_mod o); s_n (at_usage o); s_ext (at_ext o)].
Definition g_at (s : sexp) : option attrtype :=
  match s with
  | SList [a; b; c; d; e; f; g; h; i; j; k; l; m; n; o] =>
      a <-? g_ustr a ;; b <-? g_ulist b ;; c <-? g_opt g_ustr c ;; d <-? g_bool d ;;
      e <-? g_opt g_ustr e ;; f <-? g_opt g_ustr f ;; g <-? g_opt g_ustr g ;; h <-? g_opt g_ustr h ;;
      i <-? g_opt g_ustr i ;; j <-? g_opt g_z j ;; k <-? g_bool k ;; l <-? g_bool l ;; m <-? g_bool m ;;
      n <-? g_n n ;; o <-? g_ext o ;; Some (mkAT a b c d e f g h i j k l m n o)
  | _ => None
  end.
Definition s_dcr (o : ditrule) : sexp :=
  SList [s_ustr (dc_oid o); s_ulist (dc_names o); s_opt s_ustr (dc_desc o); s_bool (dc_obsolete o);
         s_ulist (dc_aux o); s_ulist (dc_must o); s_ulist (dc_may o); s_ulist (dc_not o); s_ext (dc_ext o)].
Definition g_dcr (s : sexp) : option ditrule :=
  match s with
  | SList [a; b; c; d; e; f; g; h; i] =>
      a <-? g_ustr a ;; b <-? g_ulist b ;; c <-? g_opt g_ustr c ;; d <-? g_bool d ;; e <-? g_ulist e ;;
      f <-? g_ulist f ;; g <-? g_ulist g ;; h <-? g_ulist h ;; i <-? g_ext i ;; Some (mkDCR a b c d e f g h i)
  | _ => None
  end.

Definition chain {A} (sa : A -> sexp) (p : res ustr) (parse : ustr -> res A) : sexp :=
  SList [s_res s_ustr p; match p with Ok t => s_res sa (parse t) | Raise _ => SList [] end].

Definition run_schema (cmd : Z) (args : list sexp) : option sexp :=
  match cmd, args with
  | 300, [t] => t <-? g_ustr t ;; Some (s_res s_oc (oc_from_string t))
  | 301, [t] => t <-? g_ustr t ;; Some (s_res s_at (at_from_string t))
  | 302, [t] => t <-? g_ustr t ;; Some (s_res s_dcr (dcr_from_string t))
  | 310, [o] => o <-? g_oc o ;; Some (chain s_oc (oc_print o) oc_from_string)
  | 311, [o] => o <-? g_at o ;; Some (chain s_at (at_print o) at_from_string)
  | 312, [o] => o <-? g_dcr o ;; Some (chain s_dcr (dcr_print o) dcr_from_string)
  | _, _ => None
  end.
