(* The extended driver used by the schema properties only (C16, C17): executable well-formedness conditions,
   concrete syntax trees, the regular-expression engine on its own.  It depends on files that contain proofs
   about the generated patterns, so it is built separately: a change of the schema code that breaks those
   proofs must not take the model of the other properties down with it. *)
From Coq Require Import ZArith NArith List Bool.
From SV Require Import Base.Bytes Base.Py Base.Sexp Rx.Syntax Gen.Generated Schema.Model Extract.DriverMsg Extract.Driver.
From SV Require Import Schema.WfDec Schema.GMatch Schema.GRead Schema.GChain Schema.GObjectClass Schema.GDitContentRule Schema.GAttributeType Schema.GWfDec.
Import ListNotations.
Local Open Scope Z_scope.

(* ---- concrete syntax trees of RFC 4512 sentences (C17) *)
Definition g_nat (s : sexp) : option nat := n <-? g_n s ;; Some (N.to_nat n).
Definition g_part {A} (f : sexp -> option A) (s : sexp) : option (part A) :=
  match s with
  | SList [] => Some None
  | SList [a; b; x] => a <-? g_nat a ;; b <-? g_nat b ;; x <-? f x ;; Some (Some (a, b, x))
  | _ => None
  end.
Definition g_dch (s : sexp) : option dch :=
  match s with
  | SInt z => if (z =? -1)%Z then Some DQuote else if (z =? -2)%Z then Some DBslLower else if (z =? -3)%Z then Some DBslUpper
              else if (z <? 0)%Z then None else Some (DPlain (Z.to_N z))
  | _ => None
  end.
Definition g_ds := g_list g_dch.
Definition g_qdescrs (s : sexp) : option qdescrs_cst :=
  match s with
  | SList [SInt 0%Z; n] => n <-? g_ustr n ;; Some (QBare n)
  | SList [SInt 1%Z; w] => w <-? g_nat w ;; Some (QEmpty w)
  | SList [SInt 2%Z; w0; n; items; w1] =>
      w0 <-? g_nat w0 ;; n <-? g_ustr n ;;
      items <-? g_list (fun p => match p with SList [a; m] => a <-? g_nat a ;; m <-? g_ustr m ;; Some (a, m) | _ => None end) items ;;
      w1 <-? g_nat w1 ;; Some (QParen w0 n items w1)
  | _ => None
  end.
Definition g_oidsc (s : sexp) : option oids_cst :=
  match s with
  | SList [SInt 0%Z; o] => o <-? g_ustr o ;; Some (OBare o)
  | SList [SInt 1%Z; w0; x; items; w1] =>
      w0 <-? g_nat w0 ;; x <-? g_ustr x ;;
      items <-? g_list (fun p => match p with SList [a; b; o] => a <-? g_nat a ;; b <-? g_nat b ;; o <-? g_ustr o ;; Some (a, b, o) | _ => None end) items ;;
      w1 <-? g_nat w1 ;; Some (OParen w0 x items w1)
  | _ => None
  end.
Definition g_qdstrings (s : sexp) : option qdstrings_cst :=
  match s with
  | SList [SInt 0%Z; ds] => ds <-? g_ds ds ;; Some (SBare ds)
  | SList [SInt 1%Z; w] => w <-? g_nat w ;; Some (SEmpty w)
  | SList [SInt 2%Z; w0; ds; items; w1] =>
      w0 <-? g_nat w0 ;; ds <-? g_ds ds ;;
      items <-? g_list (fun p => match p with SList [a; d] => a <-? g_nat a ;; d <-? g_ds d ;; Some (a, d) | _ => None end) items ;;
      w1 <-? g_nat w1 ;; Some (SParen w0 ds items w1)
  | _ => None
  end.
Definition g_extc (s : sexp) : option ext_cst :=
  match s with
  | SList [a; k; b; v] => a <-? g_nat a ;; k <-? g_ustr k ;; b <-? g_nat b ;; v <-? g_qdstrings v ;; Some (mkExt a k b v)
  | _ => None
  end.
Definition g_head (s : sexp) : option head_cst :=
  match s with
  | SList [w0; oid; name; desc; obs] =>
      w0 <-? g_nat w0 ;; oid <-? g_ustr oid ;; name <-? g_part g_qdescrs name ;; desc <-? g_part g_ds desc ;; obs <-? g_opt g_nat obs ;;
      Some (mkHead w0 oid name desc obs)
  | _ => None
  end.
Definition g_occ (s : sexp) : option oc_cst :=
  match s with
  | SList [h; sup; kind; must; may; exts; w1] =>
      h <-? g_head h ;; sup <-? g_part g_oidsc sup ;;
      kind <-? g_opt (fun p => match p with SList [a; k] => a <-? g_nat a ;; k <-? g_n k ;; Some (a, k) | _ => None end) kind ;;
      must <-? g_part g_oidsc must ;; may <-? g_part g_oidsc may ;; exts <-? g_list g_extc exts ;; w1 <-? g_nat w1 ;;
      Some (mkOCc h sup kind must may exts w1)
  | _ => None
  end.
Definition g_dcrc (s : sexp) : option dcr_cst :=
  match s with
  | SList [h; aux; must; may; nt; exts; w1] =>
      h <-? g_head h ;; aux <-? g_part g_oidsc aux ;; must <-? g_part g_oidsc must ;; may <-? g_part g_oidsc may ;; nt <-? g_part g_oidsc nt ;;
      exts <-? g_list g_extc exts ;; w1 <-? g_nat w1 ;; Some (mkDCRc h aux must may nt exts w1)
  | _ => None
  end.
Definition g_syn (s : sexp) : option syn_cst :=
  match s with
  | SList [SInt 0%Z; o; l] => o <-? g_ustr o ;; l <-? g_opt g_z l ;; Some (SynPlain o l)
  | SList [SInt 1%Z; o; l] => o <-? g_ustr o ;; l <-? g_opt g_z l ;; Some (SynQuoted o l)
  | _ => None
  end.
Definition g_atc (s : sexp) : option at_cst :=
  match s with
  | SList [h; sup; eq; ord; sub; syn; single; col; num; usage; exts; w1] =>
      h <-? g_head h ;; sup <-? g_part g_ustr sup ;; eq <-? g_part g_ustr eq ;; ord <-? g_part g_ustr ord ;; sub <-? g_part g_ustr sub ;;
      syn <-? g_part g_syn syn ;; single <-? g_opt g_nat single ;; col <-? g_opt g_nat col ;; num <-? g_opt g_nat num ;;
      usage <-? g_part g_n usage ;; exts <-? g_list g_extc exts ;; w1 <-? g_nat w1 ;;
      Some (mkATc h sup eq ord sub syn single col num usage exts w1)
  | _ => None
  end.

(* the regular-expression engine on its own: <pattern>.match(text) -> end position and the span of every group *)
Definition rx_by_id (i : Z) : option (rx * end_anchor * nat) :=
  match i with
  | 0%Z => Some (rx_object_class, rx_object_class_end, rx_object_class_ngroups)
  | 1%Z => Some (rx_attribute_type, rx_attribute_type_end, rx_attribute_type_ngroups)
  | 2%Z => Some (rx_dit_content_rule, rx_dit_content_rule_end, rx_dit_content_rule_ngroups)
  | 3%Z => Some (rx_noidlen, rx_noidlen_end, rx_noidlen_ngroups)
  | 4%Z => Some (rx_attribute, rx_attribute_end, rx_attribute_ngroups)
  | _ => None
  end.
Definition s_match (r : rx) (e : end_anchor) (n : nat) (t : ustr) : sexp :=
  match re_match r e t with
  | BYes p cs =>
      SList [SInt 0; SInt (Z.of_nat p);
             SList (map (fun g => match cap_lookup g cs with
                                  | Some (a, b) => SList [SInt (Z.of_nat a); SInt (Z.of_nat b)]
                                  | None => SList [] end) (seq 1 n))]
  | BNo => SList [SInt 1]
  | BFuel => SList [SInt 2]
  end.

(* sentence text, executable well-formedness, denotation, and what the model's parser makes of the text *)
Definition cst_answer {A} (sa : A -> sexp) (text : ustr) (wf : bool) (d : A) (parse : ustr -> res A) : sexp :=
  SList [s_ustr text; s_bool wf; sa d; s_res sa (parse text)].

Definition run_schema_ext (cmd : Z) (args : list sexp) : option sexp :=
  match cmd, args with
  | 320, [o] => o <-? g_oc o ;; Some (s_bool (wf_oc_b o))
  | 321, [o] => o <-? g_at o ;; Some (s_bool (wf_at_b o))
  | 322, [o] => o <-? g_dcr o ;; Some (s_bool (wf_dcr_b o))
  | 340, [SInt i; t] => t <-? g_ustr t ;; match rx_by_id i with Some (r, e, n) => Some (s_match r e n t) | None => None end
  | 330, [c] => c <-? g_occ c ;; Some (cst_answer s_oc (oc_sentence c) (oc_cst_b c) (oc_denote c) oc_from_string)
  | 331, [c] => c <-? g_atc c ;; Some (cst_answer s_at (at_sentence c) (at_cst_b c) (at_denote c) at_from_string)
  | 332, [c] => c <-? g_dcrc c ;; Some (cst_answer s_dcr (dcr_sentence c) (dcr_cst_b c) (dcr_denote c) dcr_from_string)
  | _, _ => None
  end.

Definition runx (req : sexp) : sexp :=
  match req with
  | SList (SInt cmd :: args) => if 320 <=? cmd then or_bad (run_schema_ext cmd args) else run req
  | _ => bad
  end.
