From Coq Require Extraction.
From Coq Require Import ExtrOcamlBasic.
From SV Require Import Base.Sexp Extract.Driver Base.Bytes.
Extraction Language OCaml.
Set Extraction Optimize.
Extraction "model.ml" run n2b b2n.
