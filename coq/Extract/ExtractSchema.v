From Coq Require Extraction.
From Coq Require Import ExtrOcamlBasic.
From SV Require Import Base.Sexp Extract.Driver Extract.DriverSchema Base.Bytes.
Extraction Language OCaml.
Set Extraction Optimize.
Extraction "modelx.ml" runx n2b b2n.
