(* C14: every sentence of the RFC 4515 filter grammar -- escapes in either hex case, raw octets,
   empty values, options, OIDs, and the spaces the library tolerates -- is parsed to the tree it
   denotes.  The development generalises Filt/Simple.v and Filt/RoundTrip.v from the one text
   __str__ produces to every text of the grammar. *)
From Coq Require Import ZArith NArith List Bool Lia ZifyBool.
From Coq.Strings Require Import Byte.
From SV Require Import Base.Bytes Base.Py Rx.Syntax Rx.Lemmas Gen.Generated Msg.Types Filt.Text Filt.Value Filt.Simple Filt.RoundTrip.
Import ListNotations.
Local Open Scope Z_scope.

(* ---- RFC 4515 assertion values:  value = *( normal / escaped ),  escaped = "\" hex hex,
   normal = any octet except NUL ( ) * \  *)
Definition normal (b : byte) : bool :=
  negb (is_b b x00 || is_b b c_lp || is_b b c_rp || is_b b c_star || is_b b c_bs).
Definition hexchar (h : byte) (a : N) : Prop := is_hex (b2n h) = true /\ hexval (b2n h) = Some a.

Inductive vtext : list byte -> list byte -> Prop :=
| vt_nil : vtext [] []
| vt_raw b v t : normal b = true -> vtext v t -> vtext (b :: v) (b :: t)
| vt_esc h l a c v t : hexchar h a -> hexchar l c -> vtext v t -> vtext (n2b (a * 16 + c) :: v) (c_bs :: h :: l :: t).

Lemma hexval_lt x a : hexval x = Some a -> (a < 16)%N.
Proof.
  unfold hexval. destruct ((48 <=? x) && (x <=? 57))%N eqn:E1; [intros H; injection H as <-; lia|].
  destruct ((97 <=? x) && (x <=? 102))%N eqn:E2; [intros H; injection H as <-; lia|].
  destruct ((65 <=? x) && (x <=? 70))%N eqn:E3; [intros H; injection H as <-; lia|discriminate].
Qed.

Lemma is_hex_facts x : is_hex x = true -> x <> 10%N /\ x <> 40%N /\ x <> 41%N /\ x <> 42%N /\ x <> 92%N.
Proof.
  intros H. repeat split; intros ->; vm_compute in H; discriminate.
Qed.

Lemma normal_facts b : normal b = true -> b <> x00 /\ b <> c_lp /\ b <> c_rp /\ b <> c_star /\ b <> c_bs.
Proof.
  unfold normal. intros H. repeat split; intros ->; vm_compute in H; discriminate.
Qed.

Lemma b2n_inj' a b : b2n a = b2n b -> a = b.
Proof. apply b2n_inj. Qed.

Lemma unescape_vtext v t :
  vtext v t -> forall f, (length t < f)%nat -> re_sub_loop f rx_ldap_escape unescape_repl (bn t) = Some (Some (bn v)).
Proof.
  induction 1 as [|b v t Nb _ IH|h l a c v t [Hh1 Hh2] [Hl1 Hl2] _ IH]; intros f Hf.
  - destruct f; [cbn in Hf; lia|]. reflexivity.
  - destruct f as [|f]; [cbn in Hf; lia|]. unfold bn. cbn [map]. fold (bn t). fold (bn v).
    rewrite re_sub_loop_cons. cbv zeta.
    assert (N92 : b2n b <> 92%N).
    { destruct (normal_facts b Nb) as (_ & _ & _ & _ & N). intros E. apply N. apply b2n_inj. exact E. }
    rewrite bt_escape_no by (try assumption; apply fuel_ok; discriminate).
    rewrite IH by (clear - Hf; cbn [length] in Hf; lia). reflexivity.
  - destruct f as [|f]; [cbn in Hf; lia|]. unfold bn. cbn [map]. fold (bn t). fold (bn v).
    rewrite re_sub_loop_cons. cbv zeta.
    destruct (is_hex_facts _ Hh1) as (Nh & _). destruct (is_hex_facts _ Hl1) as (Nl & _).
    change (b2n c_bs) with 92%N.
    rewrite bt_escape_3 by (try assumption; apply fuel_ok; discriminate).
    cbn [firstn skipn].
    assert (Er : unescape_repl [92%N; b2n h; b2n l] = Some [(a * 16 + c)%N]).
    { unfold unescape_repl. rewrite matches_hex by assumption. now rewrite Hh2, Hl2. }
    rewrite Er. rewrite IH by (clear - Hf; cbn [length] in Hf; lia).
    pose proof (hexval_lt _ _ Hh2). pose proof (hexval_lt _ _ Hl2).
    rewrite b2n_n2b_small by lia. reflexivity.
Qed.

Theorem unpack_value_vtext v t off len : vtext v t -> unpack_value t off len = FOk v.
Proof.
  intros H. unfold unpack_value, re_sub. rewrite (unescape_vtext v t H) by (unfold bn; rewrite map_length; lia). now rewrite map_n2b_bn.
Qed.

Lemma vtext_plain v t : vtext v t -> ~ In c_rp t /\ ~ In c_star t /\ ~ In c_lp t.
Proof.
  induction 1 as [|b v t Nb _ (I1 & I2 & I3)|h l a c v t [Hh1 _] [Hl1 _] _ (I1 & I2 & I3)].
  - repeat split; intros [].
  - destruct (normal_facts b Nb) as (_ & N1 & N2 & N3 & _). repeat split; intros [E|E]; try tauto; congruence.
  - destruct (is_hex_facts _ Hh1) as (_ & A1 & A2 & A3 & _). destruct (is_hex_facts _ Hl1) as (_ & B1 & B2 & B3 & _).
    repeat split; intros [E|[E|[E|E]]]; try tauto; try discriminate E;
      try (subst h; first [now apply A1|now apply A2|now apply A3]); try (subst l; first [now apply B1|now apply B2|now apply B3]).
Qed.

Lemma vtext_nil v t : vtext v t -> (t = [] <-> v = []).
Proof. destruct 1; split; intros; (reflexivity || discriminate). Qed.

(* what __str__ writes is one such text *)
Lemma hexdigit_char n : (n < 16)%N -> hexchar (n2b (hexdigit n)) n.
Proof.
  intros H. destruct (hexdigit_facts n H) as (A & B & _ & L & _). unfold hexchar. rewrite b2n_n2b_small by lia. now split.
Qed.

Lemma special_normal b : special (b2n b) = false -> normal b = true.
Proof.
  intros S. unfold normal. apply negb_true_iff.
  destruct (is_b b x00) eqn:E0; [apply byte_eqb_eq in E0; subst; vm_compute in S; discriminate|].
  destruct (is_b b c_lp) eqn:E1; [apply byte_eqb_eq in E1; subst; vm_compute in S; discriminate|].
  destruct (is_b b c_rp) eqn:E2; [apply byte_eqb_eq in E2; subst; vm_compute in S; discriminate|].
  destruct (is_b b c_star) eqn:E3; [apply byte_eqb_eq in E3; subst; vm_compute in S; discriminate|].
  destruct (is_b b c_bs) eqn:E4; [apply byte_eqb_eq in E4; subst; vm_compute in S; discriminate|].
  reflexivity.
Qed.

Lemma vtext_ser v : vtext v (ser_value v).
Proof.
  rewrite ser_value_spec. induction v as [|b v IH]; [constructor|].
  unfold bn. cbn [map flat_map]. fold (bn v). rewrite map_app. unfold esc at 1.
  destruct (special (b2n b)) eqn:S.
  - cbn [map app].
    pose proof (b2n_lt b) as L.
    assert (H1 : (b2n b / 16 < 16)%N) by (apply N.div_lt_upper_bound; lia).
    assert (H2 : (b2n b mod 16 < 16)%N) by (apply N.mod_lt; lia).
    replace b with (n2b (b2n b / 16 * 16 + b2n b mod 16)) at 1
      by (rewrite <- (n2b_b2n b) at 3; f_equal; pose proof (N.div_mod (b2n b) 16 ltac:(lia)); lia).
    change (n2b 92) with c_bs. apply vt_esc; [now apply hexdigit_char|now apply hexdigit_char|exact IH].
  - cbn [map app]. rewrite n2b_b2n. apply vt_raw; [now apply special_normal|exact IH].
Qed.

(* ---- simple items with any value text *)
Definition opt_vtext (o : option octets) (t : list byte) : Prop :=
  match o with Some v => vtext v t | None => t = [] end.

Inductive vform : filter -> list byte -> Prop :=
| vf_eq a v t : vtext v t -> vform (FEq a v) t
| vf_ge a v t : vtext v t -> vform (FGe a v) t
| vf_le a v t : vtext v t -> vform (FLe a v) t
| vf_approx a v t : vtext v t -> vform (FApprox a v) t
| vf_ext rule attr v dn t : vtext v t -> vform (FExt rule attr v dn) t
| vf_present a : vform (FPresent a) [c_star]
| vf_sub a ini any fin ti tany tf :
    opt_vtext ini ti -> Forall2 vtext any tany -> opt_vtext fin tf ->
    vform (FSub a ini any fin) (join_b [c_star] ([ti] ++ tany ++ [tf])).

Lemma star_not_in_vtext v t : vtext v t -> ~ In c_star t.
Proof. intros H. now destruct (vtext_plain v t H) as (_ & S & _). Qed.
Lemma rp_not_in_vtext v t : vtext v t -> ~ In c_rp t.
Proof. intros H. now destruct (vtext_plain v t H). Qed.

Lemma tail_eq_g off a v t :
  attr_ok a = true -> vtext v t -> simple_tail off a t = FOk (FEq a v, zlen a + 1 + zlen t).
Proof.
  intros A V. destruct (attr_last_plain a A) as (T1 & T2 & T3 & T4). cbv zeta in *.
  unfold simple_tail. cbv zeta. rewrite T1, T2, T3, T4. cbn [orb andb negb].
  rewrite firstn_zlen, A. cbn [negb andb].
  rewrite (mem_b_false c_star) by now apply (star_not_in_vtext v).
  cbn [negb]. rewrite (unpack_value_vtext v t) by assumption. cbn [fbind].
  assert (E : bytes_eqb t [c_star] = false).
  { destruct (bytes_eqb t [c_star]) eqn:E; [|reflexivity]. apply bytes_eqb_eq in E.
    exfalso. apply (star_not_in_vtext v t V). rewrite E. now left. }
  rewrite E. reflexivity.
Qed.

Lemma tail_typed_g off a op v t (mk : str -> octets -> filter) :
  attr_ok a = true -> vtext v t ->
  (op = c_gt /\ mk = FGe) \/ (op = c_lt /\ mk = FLe) \/ (op = c_tilde /\ mk = FApprox) ->
  simple_tail off (a ++ [op]) t = FOk (mk a v, zlen (a ++ [op]) + 1 + zlen t).
Proof.
  intros A V Hop. unfold simple_tail. cbv zeta. rewrite last_last.
  assert (Et : is_b op c_colon || is_b op c_gt || is_b op c_lt || is_b op c_tilde = true)
    by (destruct Hop as [[-> _]|[[-> _]|[-> _]]]; reflexivity).
  assert (Ec : is_b op c_colon = false) by (destruct Hop as [[-> _]|[[-> _]|[-> _]]]; reflexivity).
  rewrite Et, Ec. cbn [andb negb orb].
  replace (Z.to_nat (zlen (a ++ [op]) - 1)) with (length a) by (rewrite zlen_app; unfold zlen; cbn [length]; lia).
  rewrite firstn_app_exact, A. cbn [negb andb].
  rewrite (unpack_value_vtext v t) by assumption. cbn [fbind].
  destruct Hop as [[-> ->]|[[-> ->]|[-> ->]]]; reflexivity.
Qed.

Lemma tail_ext_g off rule attr dn v t :
  wf_ext rule attr dn -> vtext v t ->
  let hdr := join_b [c_colon] (ext_headers rule attr dn) ++ [c_colon] in
  simple_tail off hdr t = FOk (FExt rule attr v dn, zlen hdr + 1 + zlen t).
Proof.
  intros W V hdr. unfold simple_tail. cbv zeta. unfold hdr. rewrite last_last.
  change (is_b c_colon c_colon) with true. cbn [orb andb negb].
  replace (Z.to_nat (zlen (join_b [c_colon] (ext_headers rule attr dn) ++ [c_colon]) - 1))
    with (length (join_b [c_colon] (ext_headers rule attr dn))) by (rewrite zlen_app; unfold zlen; cbn [length]; lia).
  rewrite firstn_app_exact. rewrite (unpack_value_vtext v t) by assumption. cbn [fbind].
  rewrite ext_header_rt by assumption. reflexivity.
Qed.

(* substrings with arbitrary texts for the components *)
Lemma sub_go_middle_g n off len : forall any tany idx first vals tail,
  Forall2 vtext any tany -> Forall (fun a => a <> []) any -> (0 < idx)%nat -> (idx + length any < n)%nat ->
  sub_go n off len idx (tany ++ tail) first vals None =
  sub_go n off len (idx + length any) tail first (vals ++ any) None.
Proof.
  unfold octets. induction any as [|a any IH]; intros tany idx first vals tail F2 Hne Hi Hn.
  - inversion F2; subst. cbn [app length]. now rewrite Nat.add_0_r, app_nil_r.
  - inversion F2 as [|? ta ? tany' Va F2']; subst. inversion Hne as [|? ? Ha Hrest]; subst. cbn [app sub_go length].
    destruct (Nat.eqb_spec idx 0); [lia|]. cbn [length] in Hn. destruct (Nat.eqb_spec idx (n - 1)); [lia|].
    destruct ta as [|b0 ta'] eqn:E; [apply (vtext_nil a []) in Va; exfalso; apply Ha; now apply Va|]. rewrite <- E in *.
    rewrite (unpack_value_vtext a ta) by assumption. cbn [fbind]. rewrite (IH tany') by (try assumption; lia).
    rewrite <- app_assoc. cbn [app]. f_equal. lia.
Qed.

Lemma opt_vtext_first n off len ini ti rest vals fin :
  ini <> Some [] -> opt_vtext ini ti ->
  sub_go n off len 0 (ti :: rest) None vals fin = sub_go n off len 1 rest ini vals fin.
Proof.
  intros Hi V. cbn [sub_go Nat.eqb]. destruct ini as [i|]; cbn [opt_vtext] in V.
  - destruct ti as [|b0 t'] eqn:E; [apply (vtext_nil i []) in V; exfalso; apply Hi; f_equal; now apply V|]. rewrite <- E in *.
    now rewrite (unpack_value_vtext i ti) by assumption.
  - subst ti. reflexivity.
Qed.

Lemma pieces_plain c ti tany tf ini any fin :
  opt_vtext ini ti -> Forall2 vtext any tany -> opt_vtext fin tf ->
  c = c_star \/ c = c_rp -> forall p, In p ([ti] ++ tany ++ [tf]) -> ~ In c p.
Proof.
  intros Vi Va Vf Hc.
  assert (P : forall v t, vtext v t -> ~ In c t).
  { intros v t V. destruct (vtext_plain v t V) as (A & B & _). destruct Hc as [-> | ->]; assumption. }
  assert (Po : forall o t, opt_vtext o t -> ~ In c t).
  { intros o t V. destruct o; cbn in V; [now apply (P o)|subst; intros []]. }
  intros p Hp. cbn [app] in Hp. destruct Hp as [<-|Hp]; [now apply (Po ini)|].
  apply in_app_or in Hp. destruct Hp as [Hp|[<-|[]]]; [|now apply (Po fin)].
  clear - Va Hp P. induction Va as [|a t any tany V _ IH]; [destruct Hp|]. destruct Hp as [<-|Hp]; [now apply (P a)|now apply IH].
Qed.

Lemma unpack_substrings_g ini any fin ti tany tf off len :
  wf_sub ini any fin -> opt_vtext ini ti -> Forall2 vtext any tany -> opt_vtext fin tf ->
  unpack_substrings (join_b [c_star] ([ti] ++ tany ++ [tf])) off len = FOk (ini, any, fin).
Proof.
  intros (Hi & Hf & Ha & _) Vi Va Vf. unfold octets in *. unfold unpack_substrings.
  rewrite bsplit_join; [|discriminate|apply (pieces_plain c_star ti tany tf ini any fin); auto].
  cbn [app].
  set (n := length (ti :: tany ++ [tf])).
  assert (Hl : length tany = length any) by (clear - Va; induction Va; cbn [length]; congruence).
  assert (Hn : n = (length any + 2)%nat) by (unfold n; cbn [length]; rewrite app_length; cbn [length]; lia).
  rewrite (opt_vtext_first n off len ini ti) by assumption.
  rewrite (sub_go_middle_g n off len any tany) by (try assumption; lia). cbn [app].
  cbn [sub_go]. destruct (Nat.eqb_spec (1 + length any) 0); [lia|].
  destruct (Nat.eqb_spec (1 + length any) (n - 1)); [|lia].
  destruct fin as [f|]; cbn [opt_vtext] in Vf.
  - destruct tf as [|b0 t'] eqn:E; [apply (vtext_nil f []) in Vf; exfalso; apply Hf; f_equal; now apply Vf|]. rewrite <- E in *.
    now rewrite (unpack_value_vtext f tf) by assumption.
  - subst tf. reflexivity.
Qed.

Lemma sub_text_not_star_g ini any fin ti tany tf :
  wf_sub ini any fin -> opt_vtext ini ti -> Forall2 vtext any tany -> opt_vtext fin tf ->
  join_b [c_star] ([ti] ++ tany ++ [tf]) <> [c_star].
Proof.
  intros (Hi & Hf & Ha & Hn) Vi Va Vf E. cbn [app] in E.
  rewrite join_cons in E by apply snoc_nonempty.
  destruct ti as [|b0 l0] eqn:E1.
  - cbn [app] in E. injection E as E.
    assert (Ini : ini = None).
    { destruct ini as [i|]; [|reflexivity]. cbn in Vi. apply (vtext_nil i []) in Vi. exfalso. apply Hi. f_equal. now apply Vi. }
    destruct Va as [|a ta any tany V Va'].
    + cbn [app join_b] in E. subst tf.
      assert (Fin : fin = None).
      { destruct fin as [f|]; [|reflexivity]. cbn in Vf. apply (vtext_nil f []) in Vf. exfalso. apply Hf. f_equal. now apply Vf. }
      apply Hn. repeat split; assumption.
    + cbn [app] in E. rewrite join_cons in E by apply snoc_nonempty. destruct ta; discriminate.
  - cbn [app] in E. injection E as _ E. destruct l0; discriminate.
Qed.

Lemma tail_sub_g off a ini any fin ti tany tf :
  attr_ok a = true -> wf_sub ini any fin -> opt_vtext ini ti -> Forall2 vtext any tany -> opt_vtext fin tf ->
  let val := join_b [c_star] ([ti] ++ tany ++ [tf]) in
  simple_tail off a val = FOk (FSub a ini any fin, zlen a + 1 + zlen val).
Proof.
  intros A W Vi Va Vf val. destruct (attr_last_plain a A) as (T1 & T2 & T3 & T4). cbv zeta in *.
  unfold simple_tail. cbv zeta. rewrite T1, T2, T3, T4. cbn [orb andb negb].
  rewrite firstn_zlen, A. cbn [negb andb].
  assert (Hs : mem_b c_star val = true).
  { apply mem_b_in. unfold val. cbn [app]. apply join_has_sep'. apply snoc_nonempty. }
  rewrite Hs. cbn [negb fbind].
  assert (E : bytes_eqb val [c_star] = false).
  { destruct (bytes_eqb val [c_star]) eqn:E; [|reflexivity]. apply bytes_eqb_eq in E. exfalso.
    exact (sub_text_not_star_g ini any fin ti tany tf W Vi Va Vf E). }
  rewrite E. unfold val. rewrite (unpack_substrings_g ini any fin ti tany tf) by assumption. reflexivity.
Qed.

Lemma tail_g off f vt :
  is_simple f = true -> wf_tfilter f -> vform f vt ->
  simple_tail off (hdr_of f) vt = FOk (f, zlen (hdr_of f) + 1 + zlen vt).
Proof.
  intros S W V. destruct V; inversion W; subst; cbn [hdr_of].
  - now apply tail_eq_g.
  - apply (tail_typed_g off a c_gt v t FGe); auto.
  - apply (tail_typed_g off a c_lt v t FLe); auto.
  - apply (tail_typed_g off a c_tilde v t FApprox); auto 6.
  - now apply tail_ext_g.
  - replace (zlen a + 1 + zlen [c_star]) with (zlen a + 1 + 1) by reflexivity. now apply tail_present.
  - now apply tail_sub_g.
Qed.

Lemma vform_no_rp f vt : vform f vt -> ~ In c_rp vt.
Proof.
  destruct 1; try (now apply (rp_not_in_vtext v)).
  - intros [E|[]]. discriminate.
  - apply join_no; [discriminate|]. apply (pieces_plain c_rp ti tany tf ini any fin); auto.
Qed.

(* ---- sentences: the grammar of RFC 4515 section 3 with the tolerated spaces *)
Definition spaces (s : list byte) : Prop := Forall (fun b => b = c_sp) s.

Definition tr_kid (x : filter * list byte * list byte) : filter := fst (fst x).
Definition tr_text (x : filter * list byte * list byte) : list byte := snd (fst x) ++ snd x.

Inductive sent : filter -> list byte -> Prop :=
| s_simple f s1 vt :
    is_simple f = true -> wf_tfilter f -> vform f vt -> spaces s1 ->
    sent f ([c_lp] ++ s1 ++ (hdr_of f ++ [c_eq] ++ vt) ++ [c_rp])
| s_complex f s1 s2 (tr : list (filter * list byte * list byte)) :
    is_simple f = false -> map tr_kid tr = kids_of f -> tr <> [] ->
    spaces s1 -> spaces s2 ->
    Forall (fun x => sent (fst (fst x)) (snd (fst x)) /\ spaces (snd x)) tr ->
    sent f ([c_lp] ++ s1 ++ ([ctype_of f] ++ s2 ++ flat_map tr_text tr) ++ [c_rp]).

Lemma sent_starts f t : sent f t -> exists tl, t = c_lp :: tl.
Proof. destruct 1; cbn [app]; eauto. Qed.

Lemma filter_loop_S cplx view off len cur n fu read parens parsed :
  filter_loop cplx view off len cur n (S fu) read parens parsed =
  if n <=? read then finish_filter off len read parens parsed
  else
    let ch := at_ cur read in
    if is_b ch c_sp then filter_loop cplx view off len cur n fu (read + 1) parens parsed
    else if is_b ch c_rp then
      match parens with
      | None => FErr (FSyn (off + read) 1)
      | Some _ => finish_filter off len (read + 1) None parsed
      end
    else
      match parens with
      | Some _ =>
          if is_b ch c_lp then FErr (FSyn (off + read) 1)
          else
            '(f, sub_read) <-f
               (if is_b ch c_bang || is_b ch c_amp || is_b ch c_bar
                then cplx (off + read) (len - read)
                else unpack_simple view (off + read) (len - read)) ;;
            filter_loop cplx view off len cur n fu (read + sub_read) parens (Some f)
      | None =>
          if is_b ch c_lp then filter_loop cplx view off len cur n fu (read + 1) (Some read) parsed
          else
            '(f, r) <-f unpack_simple view (off + read) (len - read) ;;
            finish_filter off len (read + r) parens (Some f)
      end.
Proof. reflexivity. Qed.

Lemma complex_loop_S uf off len cur n ctype fu read fs :
  complex_loop uf off len cur n ctype (S fu) read fs =
  if n <=? read then finish_complex off len ctype read fs
  else
    let ch := at_ cur read in
    if is_b ch c_sp then complex_loop uf off len cur n ctype fu (read + 1) fs
    else if is_b ch c_lp then
      match fs with
      | _ :: _ => if is_b ctype c_bang then FErr (FSyn off len) else
          '(f, r) <-f uf (off + read) (len - read - 1) ;;
          complex_loop uf off len cur n ctype fu (read + r) (fs ++ [f])
      | [] =>
          '(f, r) <-f uf (off + read) (len - read - 1) ;;
          complex_loop uf off len cur n ctype fu (read + r) (fs ++ [f])
      end
    else if is_b ch c_rp then finish_complex off len ctype read fs
    else FErr (FSyn (off + read) 1).
Proof. reflexivity. Qed.

(* skipping a run of spaces *)
Lemma filter_skip cplx view off len cur n : forall s a b fuel parens parsed,
  spaces s -> cur = a ++ s ++ b -> n = zlen cur -> b <> [] ->
  filter_loop cplx view off len cur n (length s + fuel) (zlen a) parens parsed
  = filter_loop cplx view off len cur n fuel (zlen a + zlen s) parens parsed.
Proof.
  induction s as [|x s IH]; intros a b fuel parens parsed Hs Ec En Hb.
  - cbn [length Nat.add]. now rewrite zlen_nil, Z.add_0_r.
  - inversion Hs as [|? ? Hx Hs']; subst x. cbn [length Nat.add]. rewrite filter_loop_S. cbv zeta.
    assert (Hlt : (zlen cur <=? zlen a) = false).
    { rewrite Ec. zl. pose proof (zlen_nonneg s). pose proof (zlen_nonneg b).
      destruct b as [|bb bt]; [congruence|]. rewrite zlen_cons. pose proof (zlen_nonneg bt). lia. }
    rewrite En, Hlt.
    assert (A : at_ cur (zlen a) = c_sp) by (rewrite Ec; cbn [app]; apply at_mid).
    rewrite A. change (is_b c_sp c_sp) with true. cbv iota.
    rewrite <- En. replace (zlen a + 1) with (zlen (a ++ [c_sp])) by (zl; ring).
    rewrite (IH (a ++ [c_sp]) b fuel parens parsed Hs'); [|rewrite Ec, <- app_assoc; reflexivity|assumption|assumption].
    f_equal. zl. ring.
Qed.

Lemma complex_skip uf off len cur n ct : forall s a b fuel fs,
  spaces s -> cur = a ++ s ++ b -> n = zlen cur -> b <> [] ->
  complex_loop uf off len cur n ct (length s + fuel) (zlen a) fs
  = complex_loop uf off len cur n ct fuel (zlen a + zlen s) fs.
Proof.
  induction s as [|x s IH]; intros a b fuel fs Hs Ec En Hb.
  - cbn [length Nat.add]. now rewrite zlen_nil, Z.add_0_r.
  - inversion Hs as [|? ? Hx Hs']; subst x. cbn [length Nat.add]. rewrite complex_loop_S. cbv zeta.
    assert (Hlt : (zlen cur <=? zlen a) = false).
    { rewrite Ec. zl. pose proof (zlen_nonneg s). pose proof (zlen_nonneg b).
      destruct b as [|bb bt]; [congruence|]. rewrite zlen_cons. pose proof (zlen_nonneg bt). lia. }
    rewrite En, Hlt.
    assert (A : at_ cur (zlen a) = c_sp) by (rewrite Ec; cbn [app]; apply at_mid).
    rewrite A. change (is_b c_sp c_sp) with true. cbv iota.
    rewrite <- En. replace (zlen a + 1) with (zlen (a ++ [c_sp])) by (zl; ring).
    rewrite (IH (a ++ [c_sp]) b fuel fs Hs'); [|rewrite Ec, <- app_assoc; reflexivity|assumption|assumption].
    f_equal. zl. ring.
Qed.

(* one parenthesised item, with spaces after the opening parenthesis *)
Lemma filter_shell_g cplx view pre s1 body post junk f b0 tl :
  view = pre ++ ([c_lp] ++ s1 ++ body ++ [c_rp] ++ post) ++ junk ->
  spaces s1 ->
  body = b0 :: tl -> b0 <> c_sp -> b0 <> c_rp -> b0 <> c_lp ->
  (if is_b b0 c_bang || is_b b0 c_amp || is_b b0 c_bar
   then cplx (zlen pre + (1 + zlen s1)) (zlen ([c_lp] ++ s1 ++ body ++ [c_rp] ++ post) - (1 + zlen s1))
   else unpack_simple view (zlen pre + (1 + zlen s1)) (zlen ([c_lp] ++ s1 ++ body ++ [c_rp] ++ post) - (1 + zlen s1)))
  = FOk (f, zlen body) ->
  let w := [c_lp] ++ s1 ++ body ++ [c_rp] ++ post in
  filter_loop cplx view (zlen pre) (zlen w) w (zlen w) (S (length w)) 0 None None = FOk (f, 1 + zlen s1 + zlen body + 1).
Proof.
  intros Ev Hs Eb N1 N2 N3 Hsub w.
  assert (Hw : zlen w = 1 + zlen s1 + zlen body + 1 + zlen post) by (unfold w; zl; ring).
  pose proof (zlen_nonneg body) as Hb0. pose proof (zlen_nonneg post) as Hp. pose proof (zlen_nonneg s1) as Hs1.
  assert (Hb : 1 <= zlen body) by (rewrite Eb, zlen_cons; pose proof (zlen_nonneg tl); lia).
  assert (Hlen : length w = (3 + length s1 + (length w - 3 - length s1))%nat).
  { unfold zlen in *. clear - Hw Hb Hp Hs1. lia. }
  set (k := (length w - 3 - length s1)%nat) in *.
  (* iteration 1: '(' *)
  rewrite Hlen. change (S (3 + length s1 + k)) with (S (S (S (S (length s1 + k))))).
  rewrite filter_loop_S. cbv zeta. destruct (zlen w <=? 0) eqn:E0; [clear - E0 Hw Hb Hp Hs1 Hb0; lia|].
  assert (A0 : at_ w 0 = c_lp) by reflexivity. rewrite A0.
  change (is_b c_lp c_sp) with false. change (is_b c_lp c_rp) with false. change (is_b c_lp c_lp) with true. cbv iota.
  (* the spaces *)
  change (0 + 1) with (zlen [c_lp]).
  replace (S (S (S (length s1 + k)))) with (length s1 + S (S (S k)))%nat by lia.
  rewrite (filter_skip cplx view (zlen pre) (zlen w) w (zlen w) s1 [c_lp] (body ++ [c_rp] ++ post)); auto;
    [|rewrite Eb; discriminate].
  (* the item *)
  rewrite filter_loop_S. cbv zeta. destruct (zlen w <=? zlen [c_lp] + zlen s1) eqn:E1; [rewrite zlen_cons, zlen_nil in E1; clear - E1 Hw Hb Hp Hs1 Hb0; lia|].
  assert (A1 : at_ w (zlen [c_lp] + zlen s1) = b0).
  { unfold w. rewrite Eb. change ([c_lp] ++ s1 ++ (b0 :: tl) ++ [c_rp] ++ post) with ([c_lp] ++ s1 ++ b0 :: tl ++ [c_rp] ++ post).
    rewrite app_assoc. replace (zlen [c_lp] + zlen s1) with (zlen ([c_lp] ++ s1)) by (zl; ring). apply at_mid. }
  rewrite A1. rewrite (is_b_neq b0 c_sp N1), (is_b_neq b0 c_rp N2), (is_b_neq b0 c_lp N3).
  change (zlen [c_lp]) with 1. fold w in Hsub. rewrite Hsub. cbn [fbind].
  (* ')' *)
  rewrite filter_loop_S. cbv zeta. destruct (zlen w <=? 1 + zlen s1 + zlen body) eqn:E2; [clear - E2 Hw Hb Hp Hs1 Hb0; lia|].
  assert (A2 : at_ w (1 + zlen s1 + zlen body) = c_rp).
  { unfold w. replace ([c_lp] ++ s1 ++ body ++ [c_rp] ++ post) with (([c_lp] ++ s1 ++ body) ++ c_rp :: post) by (rewrite <- !app_assoc; reflexivity).
    replace (1 + zlen s1 + zlen body) with (zlen ([c_lp] ++ s1 ++ body)) by (zl; ring). apply at_mid. }
  rewrite A2. change (is_b c_rp c_sp) with false. change (is_b c_rp c_rp) with true. cbv iota.
  unfold finish_filter. reflexivity.
Qed.

(* the children of and / or / not, each followed by optional spaces *)
Definition tr_cost (tr : list (filter * list byte * list byte)) : nat :=
  fold_right (fun x a => (1 + length (snd x) + a)%nat) 0%nat tr.

Lemma complex_children_g uf ct pre junk post view :
  forall tr done fs fuel,
  let cur := [ct] ++ done ++ flat_map tr_text tr ++ [c_rp] ++ post in
  view = pre ++ cur ++ junk ->
  (is_b ct c_bang = true -> (length fs + length tr <= 1)%nat) ->
  (forall x, In x tr -> spaces (snd x) /\ (exists tl, snd (fst x) = c_lp :: tl) /\
             forall pre' post' junk', view = pre' ++ (snd (fst x) ++ post') ++ junk' ->
             uf (zlen pre') (zlen (snd (fst x) ++ post')) = FOk (fst (fst x), zlen (snd (fst x)))) ->
  (tr_cost tr < fuel)%nat ->
  complex_loop uf (zlen pre) (zlen cur) cur (zlen cur) ct fuel (1 + zlen done) fs
  = finish_complex (zlen pre) (zlen cur) ct (1 + zlen done + zlen (flat_map tr_text tr)) (fs ++ map tr_kid tr).
Proof.
  induction tr as [|x tr IH]; intros done fs fuel cur Ev Hbang Huf Hfuel.
  - destruct fuel as [|fu]; [cbn in Hfuel; lia|]. rewrite complex_loop_S. cbv zeta. cbn [flat_map map].
    assert (Hc : zlen cur = 1 + zlen done + 1 + zlen post) by (unfold cur; cbn [flat_map app]; zl; ring).
    pose proof (zlen_nonneg done) as Hd. pose proof (zlen_nonneg post) as Hp.
    destruct (zlen cur <=? 1 + zlen done) eqn:E; [clear - E Hc Hd Hp; lia|].
    assert (A : at_ cur (1 + zlen done) = c_rp).
    { unfold cur. cbn [flat_map app]. change (ct :: done ++ c_rp :: post) with (([ct] ++ done) ++ c_rp :: post).
      replace (1 + zlen done) with (zlen ([ct] ++ done)) by (zl; ring). apply at_mid. }
    rewrite A. change (is_b c_rp c_sp) with false. change (is_b c_rp c_lp) with false. change (is_b c_rp c_rp) with true.
    cbv iota. rewrite app_nil_r, zlen_nil, Z.add_0_r. reflexivity.
  - destruct x as [[k t] s]. destruct (Huf _ (or_introl eq_refl)) as (Hs & (ktl & Ek) & Hcall0). cbn [fst snd] in *.
    destruct fuel as [|fu]; [cbn in Hfuel; lia|]. rewrite complex_loop_S. cbv zeta.
    set (R := s ++ flat_map tr_text tr ++ [c_rp] ++ post).
    assert (Ecur : cur = ([ct] ++ done) ++ t ++ R).
    { unfold cur, R. cbn [flat_map]. unfold tr_text at 1. cbn [fst snd]. rewrite <- !app_assoc. reflexivity. }
    assert (RN : R <> []) by (unfold R; destruct s; [destruct (flat_map tr_text tr)|]; discriminate).
    destruct (exists_last RN) as (R' & z & ER).
    assert (Hc : zlen cur = 1 + zlen done + zlen t + zlen R' + 1) by (rewrite Ecur, ER; zl; ring).
    pose proof (zlen_nonneg done) as Hd. pose proof (zlen_nonneg R') as Hr. pose proof (zlen_nonneg ktl) as Hk.
    assert (Hkl : zlen t = 1 + zlen ktl) by (rewrite Ek; apply zlen_cons).
    destruct (zlen cur <=? 1 + zlen done) eqn:E; [clear - E Hc Hd Hr Hk Hkl; lia|].
    assert (A : at_ cur (1 + zlen done) = c_lp).
    { rewrite Ecur, Ek. cbn [app]. change (ct :: done ++ c_lp :: ktl ++ R) with (([ct] ++ done) ++ c_lp :: ktl ++ R).
      replace (1 + zlen done) with (zlen ([ct] ++ done)) by (zl; ring). apply at_mid. }
    rewrite A. change (is_b c_lp c_sp) with false. change (is_b c_lp c_lp) with true. cbv iota.
    assert (Hcall : uf (zlen pre + (1 + zlen done)) (zlen cur - (1 + zlen done) - 1) = FOk (k, zlen t)).
    { replace (zlen pre + (1 + zlen done)) with (zlen (pre ++ [ct] ++ done)) by (zl; ring).
      replace (zlen cur - (1 + zlen done) - 1) with (zlen (t ++ R')) by (rewrite zlen_app; clear - Hc; lia).
      apply (Hcall0 (pre ++ [ct] ++ done) R' ([z] ++ junk)).
      rewrite Ev, Ecur, ER. rewrite <- !app_assoc. reflexivity. }
    assert (Step : complex_loop uf (zlen pre) (zlen cur) cur (zlen cur) ct fu (1 + zlen done + zlen t) (fs ++ [k])
                   = finish_complex (zlen pre) (zlen cur) ct (1 + zlen done + zlen (flat_map tr_text ((k, t, s) :: tr)))
                       (fs ++ map tr_kid ((k, t, s) :: tr))).
    { (* skip the spaces after the child, then the rest *)
      cbn [tr_cost fold_right snd] in Hfuel.
      replace fu with (length s + (fu - length s))%nat by (clear - Hfuel; lia).
      replace (1 + zlen done + zlen t) with (zlen ([ct] ++ done ++ t)) by (zl; ring).
      rewrite (complex_skip uf (zlen pre) (zlen cur) cur (zlen cur) ct s ([ct] ++ done ++ t) (flat_map tr_text tr ++ [c_rp] ++ post)); auto.
      2: { unfold cur. cbn [flat_map]. unfold tr_text at 1. cbn [fst snd]. rewrite <- !app_assoc. reflexivity. }
      2: { destruct (flat_map tr_text tr); discriminate. }
      pose proof (IH (done ++ t ++ s) (fs ++ [k]) (fu - length s)%nat) as IH'. cbv zeta in IH'.
      assert (Ecur2 : [ct] ++ (done ++ t ++ s) ++ flat_map tr_text tr ++ [c_rp] ++ post = cur).
      { unfold cur. cbn [flat_map]. unfold tr_text at 2. cbn [fst snd]. rewrite <- !app_assoc. reflexivity. }
      rewrite Ecur2 in IH'.
      replace (zlen ([ct] ++ done ++ t) + zlen s) with (1 + zlen (done ++ t ++ s)) by (zl; ring).
      rewrite IH'.
      - cbn [flat_map map]. unfold tr_text at 2, tr_kid at 2. cbn [fst snd]. rewrite <- app_assoc. cbn [app]. f_equal. zl. ring.
      - exact Ev.
      - intros B. specialize (Hbang B). rewrite app_length. cbn [length] in *. lia.
      - intros y Hy. apply Huf. now right.
      - unfold tr_cost. clear - Hfuel. lia. }
    destruct fs as [|f0 fs'].
    + rewrite Hcall. cbn [fbind]. exact Step.
    + destruct (is_b ct c_bang) eqn:B; [specialize (Hbang eq_refl); cbn [length] in Hbang; lia|].
      rewrite Hcall. cbn [fbind]. exact Step.
Qed.

(* ---- every sentence parses to the tree it denotes *)
Lemma tr_cost_bound tr :
  Forall (fun x => exists tl, snd (fst x) = c_lp :: tl) tr -> (tr_cost tr <= length (flat_map tr_text tr))%nat.
Proof.
  induction 1 as [|x tr (tl & E) _ IH]; [cbn; lia|].
  cbn [tr_cost fold_right flat_map]. fold (tr_cost tr). rewrite app_length. unfold tr_text at 1. rewrite app_length, E. cbn [length]. lia.
Qed.

Theorem sentence_parse : forall d f t,
  sent f t -> (tdepth f <= d)%nat ->
  forall pre post junk,
  unpack_filter d (pre ++ (t ++ post) ++ junk) (zlen pre) (zlen (t ++ post)) = FOk (f, zlen t).
Proof.
  induction d as [d IH] using lt_wf_ind. intros f t St Hd pre post junk.
  destruct d as [|d']; [destruct f; cbn [tdepth] in Hd; lia|].
  cbn [unpack_filter]. rewrite sl_mid.
  inversion St as [f0 s1 vt Hs W V Sp1|f0 s1 s2 tr Hs Ek Hne Sp1 Sp2 Ftr]; subst.
  - (* a simple item *)
    destruct (simple_side f Hs W) as (Hhne & Heq & _ & Hty & (b0 & tl & Eh & N1 & N2 & N3 & N4 & N5 & N6)).
    set (body := hdr_of f ++ [c_eq] ++ vt).
    replace (([c_lp] ++ s1 ++ body ++ [c_rp]) ++ post) with ([c_lp] ++ s1 ++ body ++ [c_rp] ++ post) by (rewrite <- !app_assoc; reflexivity).
    replace (zlen ([c_lp] ++ s1 ++ body ++ [c_rp])) with (1 + zlen s1 + zlen body + 1) by (zl; ring).
    apply (filter_shell_g _ _ pre s1 body post junk f b0 (tl ++ [c_eq] ++ vt)); auto.
    + unfold body. rewrite Eh. reflexivity.
    + rewrite (is_b_neq b0 c_bang N4), (is_b_neq b0 c_amp N5), (is_b_neq b0 c_bar N6). cbn [orb].
      rewrite (unpack_simple_frame _ _ _ (pre ++ [c_lp] ++ s1) (hdr_of f) vt post junk); auto.
      * rewrite (tail_g _ f vt Hs W V). f_equal. f_equal. unfold body. zl. ring.
      * unfold body. rewrite <- !app_assoc. reflexivity.
      * zl. ring.
      * unfold body. zl. ring.
      * now apply (vform_no_rp f).
  - (* and / or / not *)
    set (ct := ctype_of f). set (body := [ct] ++ s2 ++ flat_map tr_text tr).
    replace (([c_lp] ++ s1 ++ body ++ [c_rp]) ++ post) with ([c_lp] ++ s1 ++ body ++ [c_rp] ++ post) by (rewrite <- !app_assoc; reflexivity).
    replace (zlen ([c_lp] ++ s1 ++ body ++ [c_rp])) with (1 + zlen s1 + zlen body + 1) by (zl; ring).
    assert (Hct : ct = c_bang \/ ct = c_amp \/ ct = c_bar) by (unfold ct; destruct f; try discriminate; cbn; auto).
    apply (filter_shell_g _ _ pre s1 body post junk f ct (s2 ++ flat_map tr_text tr)); auto.
    + destruct Hct as [->|[->| ->]]; discriminate.
    + destruct Hct as [->|[->| ->]]; discriminate.
    + destruct Hct as [->|[->| ->]]; discriminate.
    + assert (Eb : is_b ct c_bang || is_b ct c_amp || is_b ct c_bar = true) by (destruct Hct as [->|[->| ->]]; reflexivity).
      rewrite Eb.
      assert (Hd2 : exists d'', d' = S d'' /\ forall k, In k (kids_of f) -> (tdepth k <= d'')%nat).
      { destruct f; try discriminate; cbn [tdepth kids_of] in *.
        - destruct d' as [|d'']; [lia|]. exists d''. split; [reflexivity|]. intros k Hk. pose proof (tdepth_in k fs Hk). lia.
        - destruct d' as [|d'']; [lia|]. exists d''. split; [reflexivity|]. intros k Hk. pose proof (tdepth_in k fs Hk). lia.
        - destruct d' as [|d'']; [lia|]. exists d''. split; [reflexivity|]. intros k [<-|[]]. lia. }
      destruct Hd2 as (d'' & -> & Hkd).
      cbn [unpack_complex].
      set (view := pre ++ ([c_lp] ++ s1 ++ body ++ [c_rp] ++ post) ++ junk).
      set (w' := body ++ [c_rp] ++ post).
      assert (Ev : view = (pre ++ [c_lp] ++ s1) ++ w' ++ junk) by (unfold view, w'; rewrite <- !app_assoc; reflexivity).
      assert (El : zlen ([c_lp] ++ s1 ++ w') - (1 + zlen s1) = zlen w') by (zl; ring).
      rewrite El. replace (zlen pre + (1 + zlen s1)) with (zlen (pre ++ [c_lp] ++ s1)) by (zl; ring).
      assert (Esl : sl view (zlen (pre ++ [c_lp] ++ s1)) (zlen w') = w') by (rewrite Ev; apply sl_mid).
      rewrite Esl.
      assert (A0 : at_ w' 0 = ct) by reflexivity. rewrite A0.
      (* the spaces after the operator *)
      assert (Starts : Forall (fun x => exists tl, snd (fst x) = c_lp :: tl) tr).
      { rewrite Forall_forall in *. intros x Hx. destruct (Ftr x Hx) as (Sx & _). exact (sent_starts _ _ Sx). }
      pose proof (tr_cost_bound tr Starts) as Hcost.
      assert (Hlw : length w' = (1 + length s2 + length (flat_map tr_text tr) + 1 + length post)%nat).
      { unfold w', body. rewrite !app_length. cbn [length]. lia. }
      replace (S (length w')) with (length s2 + (S (length w') - length s2))%nat by lia.
      change 1 with (zlen [ct]).
      rewrite (complex_skip _ _ _ w' (zlen w') ct s2 [ct] (flat_map tr_text tr ++ [c_rp] ++ post)); auto.
      2: { unfold w', body. rewrite <- !app_assoc. reflexivity. }
      2: { destruct (flat_map tr_text tr); discriminate. }
      pose proof (complex_children_g (unpack_filter d'' view) ct (pre ++ [c_lp] ++ s1) junk post view tr s2 []
                    (S (length w') - length s2)%nat) as CC.
      cbv zeta in CC.
      assert (Ew : [ct] ++ s2 ++ flat_map tr_text tr ++ [c_rp] ++ post = w') by (unfold w', body; rewrite <- !app_assoc; reflexivity).
      rewrite Ew in CC. replace (zlen [ct] + zlen s2) with (1 + zlen s2) by (zl; ring).
      rewrite CC; clear CC.
      * cbn [app]. rewrite Ek. unfold finish_complex.
        destruct (kids_of f) as [|k0 krest] eqn:EK; [destruct tr; [congruence|discriminate]|].
        replace (1 + zlen s2 + zlen (flat_map tr_text tr)) with (zlen body) by (unfold body; zl; ring).
        destruct f; try discriminate; cbn [kids_of ctype_of] in *; subst ct.
        -- change (is_b c_amp c_bang) with false. change (is_b c_amp c_amp) with true. cbv iota. now rewrite EK.
        -- change (is_b c_bar c_bang) with false. change (is_b c_bar c_amp) with false. cbv iota. now rewrite EK.
        -- change (is_b c_bang c_bang) with true. cbv iota. injection EK as <- <-. reflexivity.
      * exact Ev.
      * intros B. assert (Hl : length tr = length (kids_of f)) by (rewrite <- Ek; now rewrite map_length).
        destruct f; try discriminate; cbn [kids_of ctype_of] in *; subst ct; try discriminate B. cbn [length] in *. lia.
      * intros x Hx. rewrite Forall_forall in Ftr, Starts. destruct (Ftr x Hx) as (Sx & Spx).
        split; [exact Spx|]. split; [now apply Starts|].
        intros pre' post' junk' Ev'. rewrite Ev'. apply IH; [lia|exact Sx|].
        apply Hkd. rewrite <- Ek. apply in_map_iff. exists x. split; [reflexivity|exact Hx].
      * lia.
Qed.

Theorem from_bytes_sentence d f t : sent f t -> (tdepth f <= d)%nat -> from_bytes d t = FOk f.
Proof.
  intros S Hd. unfold from_bytes.
  pose proof (sentence_parse d f t S Hd [] [] []) as H. cbn [app] in H. rewrite !app_nil_r in H.
  change (zlen []) with 0 in H. rewrite H. rewrite Z.ltb_irrefl. reflexivity.
Qed.

(* the text __str__ writes is a sentence: C13 is an instance *)
Lemma print_is_sentence : forall f, wf_tfilter f -> sent f (print_filter f).
Proof.
  apply (filter_ind' (fun f => wf_tfilter f -> sent f (print_filter f))).
  - intros fs IHf W. inversion W as [? Hne Wf| | | | | | | | |]; subst.
    pose (tr := map (fun g => (g, print_filter g, @nil byte)) fs).
    assert (E : print_filter (FAnd fs) = [c_lp] ++ [] ++ ([ctype_of (FAnd fs)] ++ [] ++ flat_map tr_text tr) ++ [c_rp]).
    { cbn [print_filter ctype_of app]. f_equal. f_equal. f_equal. unfold tr. clear.
      induction fs as [|g gs IHg]; cbn [map flat_map]; [reflexivity|]. unfold tr_text at 1. cbn [fst snd]. now rewrite app_nil_r, IHg. }
    rewrite E. apply s_complex; try reflexivity; try constructor.
    + unfold tr. rewrite map_map. cbn [tr_kid fst]. apply map_id.
    + unfold tr. destruct fs; [congruence|discriminate].
    + unfold tr. rewrite Forall_forall in *. intros x Hx. apply in_map_iff in Hx. destruct Hx as (g & <- & Hg).
      cbn [fst snd]. split; [apply IHf; [assumption|now apply Wf]|constructor].
  - intros fs IHf W. inversion W as [|? Hne Wf| | | | | | | |]; subst.
    pose (tr := map (fun g => (g, print_filter g, @nil byte)) fs).
    assert (E : print_filter (FOr fs) = [c_lp] ++ [] ++ ([ctype_of (FOr fs)] ++ [] ++ flat_map tr_text tr) ++ [c_rp]).
    { cbn [print_filter ctype_of app]. f_equal. f_equal. f_equal. unfold tr. clear.
      induction fs as [|g gs IHg]; cbn [map flat_map]; [reflexivity|]. unfold tr_text at 1. cbn [fst snd]. now rewrite app_nil_r, IHg. }
    rewrite E. apply s_complex; try reflexivity; try constructor.
    + unfold tr. rewrite map_map. cbn [tr_kid fst]. apply map_id.
    + unfold tr. destruct fs; [congruence|discriminate].
    + unfold tr. rewrite Forall_forall in *. intros x Hx. apply in_map_iff in Hx. destruct Hx as (g & <- & Hg).
      cbn [fst snd]. split; [apply IHf; [assumption|now apply Wf]|constructor].
  - intros g IHg W. inversion W; subst.
    assert (E : print_filter (FNot g) = [c_lp] ++ [] ++ ([ctype_of (FNot g)] ++ [] ++ flat_map tr_text [(g, print_filter g, [])]) ++ [c_rp]).
    { cbn [print_filter ctype_of app flat_map]. unfold tr_text. cbn [fst snd]. now rewrite !app_nil_r. }
    rewrite E. apply s_complex; try reflexivity; try constructor; try discriminate.
    + cbn [fst snd]. split; [now apply IHg|constructor].
    + constructor.
  - intros f S W. rewrite (print_simple f S).
    change ([c_lp] ++ hdr_of f ++ [c_eq] ++ val_of f ++ [c_rp]) with ([c_lp] ++ [] ++ hdr_of f ++ [c_eq] ++ val_of f ++ [c_rp]).
    replace (hdr_of f ++ [c_eq] ++ val_of f ++ [c_rp]) with ((hdr_of f ++ [c_eq] ++ val_of f) ++ [c_rp]) by (rewrite <- !app_assoc; reflexivity).
    apply s_simple; auto; [|constructor].
    destruct f; try discriminate; cbn [val_of]; try (constructor; apply vtext_ser).
    unfold sub_pieces. apply vf_sub.
    + destruct initial; cbn; [apply vtext_ser|reflexivity].
    + clear. induction any; cbn [map]; constructor; [apply vtext_ser|assumption].
    + destruct final; cbn; [apply vtext_ser|reflexivity].
Qed.
