(* C15, error positions: the offset and length carried by a FilterSyntaxError lie inside the input. *)
From Coq Require Import ZArith NArith List Bool Lia ZifyBool.
From Coq.Strings Require Import Byte.
From SV Require Import Base.Bytes Base.Py Rx.Syntax Gen.Generated Msg.Types Filt.Text Filt.Simple Filt.Total Filt.Sound.
Import ListNotations.
Local Open Scope Z_scope.
#[local] Arguments Z.add : simpl never.
#[local] Arguments Z.sub : simpl never.

(* every syntax error reported lies inside the window [off, off + len] *)
Definition inwin {A} (off len : Z) (r : fres A) : Prop :=
  forall o l, r = FErr (FSyn o l) -> off <= o /\ 0 <= l /\ o + l <= off + len.

Lemma inwin_ok {A} off len (a : A) : inwin off len (FOk a).
Proof. intros o l H. discriminate. Qed.
Lemma inwin_crash {A} off len k : inwin off len (@FErr A (FCrash k)).
Proof. intros o l H. discriminate. Qed.
Lemma inwin_err {A} off len o l : off <= o -> 0 <= l -> o + l <= off + len -> inwin off len (@FErr A (FSyn o l)).
Proof. intros H1 H2 H3 o' l' H. injection H as <- <-. auto. Qed.

Lemma inwin_sub {A} off len off' len' (r : fres A) :
  off <= off' -> off' + len' <= off + len -> inwin off' len' r -> inwin off len r.
Proof. intros H1 H2 H o l E. destruct (H o l E) as (A1 & A2 & A3). lia. Qed.

Lemma inwin_bind {A B} off len (m : fres A) (k : A -> fres B) :
  inwin off len m -> (forall a, m = FOk a -> inwin off len (k a)) -> inwin off len (fbind m k).
Proof.
  intros Hm Hk. destruct m as [a|e]; cbn [fbind]; [now apply Hk|].
  intros o l E. injection E as ->. now apply Hm.
Qed.

Lemma sl_len view off len : 0 <= len -> zlen (sl view off len) <= len.
Proof. intros H. unfold sl, zlen. rewrite firstn_length. lia. Qed.

(* values, substrings, extensible header: errors are the (offset, length) they are given *)
Lemma unpack_value_inwin raw off len o l : 0 <= l -> off <= o -> o + l <= off + len -> inwin off len (unpack_value raw o l).
Proof.
  intros H1 H2 H3. unfold unpack_value. destruct (re_sub _ _ _) as [[x|]|]; [apply inwin_ok|now apply inwin_err|apply inwin_crash].
Qed.

Lemma sub_go_inwin n off len o l : 0 <= l -> off <= o -> o + l <= off + len ->
  forall ps idx first vals fin, inwin off len (sub_go n o l idx ps first vals fin).
Proof.
  intros H1 H2 H3. induction ps as [|v ps IH]; intros idx first vals fin; cbn [sub_go]; [apply inwin_ok|].
  destruct (Nat.eqb idx 0); [|destruct (Nat.eqb idx (n - 1))];
    (destruct v; [first [apply IH|now apply inwin_err]|apply inwin_bind; [now apply unpack_value_inwin|intros; apply IH]]).
Qed.

Lemma ext_header_inwin header off len o l : 0 <= l -> off <= o -> o + l <= off + len ->
  inwin off len (unpack_ext_header header o l).
Proof.
  intros H1 H2 H3. unfold unpack_ext_header. destruct (bsplit c_colon header) as [|h0 rest]; [apply inwin_crash|].
  apply inwin_bind.
  - destruct h0; [apply inwin_ok|]. destruct (attr_ok _); [apply inwin_ok|now apply inwin_err].
  - intros attr _.
    destruct (match rest with x :: r => if bytes_eqb x dn_lit then (true, r) else (false, rest) | [] => (false, rest) end) as [for_dn rest'].
    apply inwin_bind.
    + destruct rest' as [|x r]; [apply inwin_ok|]. destruct (attr_ok x); [apply inwin_ok|now apply inwin_err].
    + intros [rule rest''] _. destruct rest''; [apply inwin_ok|now apply inwin_err].
Qed.

Lemma skipn_zlen {A} (l : list A) k : 0 <= k <= zlen l -> zlen (skipn (Z.to_nat k) l) = zlen l - k.
Proof. intros H. unfold zlen in *. rewrite skipn_length. lia. Qed.

Lemma unpack_simple_inwin view off len : 0 <= len -> inwin off len (unpack_simple view off len).
Proof.
  intros Hl. unfold unpack_simple. cbv zeta.
  set (cur := sl view off len). pose proof (sl_len view off len Hl) as Hn. fold cur in Hn. pose proof (zlen_nonneg cur) as Hn0.
  set (eq := find_b c_eq cur 0).
  destruct (find_b_range c_eq cur 0) as [E|E]; fold eq in E.
  { rewrite E. cbn. apply inwin_err; lia. }
  destruct (find_b_upper c_eq cur 0) as [U|U]; fold eq in U.
  { rewrite U. cbn. apply inwin_err; lia. }
  destruct (eq =? 0) eqn:E0; [apply inwin_err; lia|]. destruct (eq =? -1) eqn:E1; [apply inwin_err; lia|].
  destruct (eq =? len - 1); [apply inwin_err; lia|].
  set (ft := at_ cur (eq - 1)).
  set (typed := is_b ft c_colon || is_b ft c_gt || is_b ft c_lt || is_b ft c_tilde).
  destruct (typed && (eq =? 1)) eqn:T1; [apply inwin_err; lia|].
  set (attribute_end := if typed then eq - 1 else eq).
  assert (Hae : 0 <= attribute_end <= eq) by (unfold attribute_end; destruct typed; lia).
  destruct (negb (typed && is_b ft c_colon) && negb (attr_ok (sl cur 0 attribute_end))); [apply inwin_err; lia|].
  set (tail := skipn (Z.to_nat (eq + 1)) cur). set (rp := find_b c_rp tail 0).
  set (vl := if rp =? -1 then zlen tail else rp).
  assert (Htl : zlen tail = zlen cur - (eq + 1)) by (unfold tail; apply skipn_zlen; lia).
  assert (Hvl : 0 <= vl <= zlen cur - (eq + 1)).
  { unfold vl. destruct (rp =? -1) eqn:R; [pose proof (zlen_nonneg tail); lia|].
    destruct (find_b_range c_rp tail 0) as [H|H]; fold rp in H; [lia|].
    destruct (find_b_upper c_rp tail 0) as [H'|H']; fold rp in H'; lia. }
  assert (Val : forall raw, inwin off len (unpack_value raw (off + (eq + 1)) vl)) by (intros raw; apply unpack_value_inwin; lia).
  apply inwin_bind.
  - destruct (typed || negb (mem_b c_star _)); [apply Val|apply inwin_ok].
  - intros bv _.
    destruct typed.
    + destruct (is_b ft c_colon).
      * apply inwin_bind; [apply ext_header_inwin; lia|]. intros [[a dn] rule] _. apply inwin_ok.
      * destruct (is_b ft c_gt); [apply inwin_ok|]. destruct (is_b ft c_lt); apply inwin_ok.
    + destruct (bytes_eqb _ [c_star]); [apply inwin_ok|]. destruct (mem_b c_star _); [|apply inwin_ok].
      apply inwin_bind; [unfold unpack_substrings; apply sub_go_inwin; lia|]. intros [[x y] z] _. apply inwin_ok.
Qed.

(* the loops: every error is raised at a position that was just read *)
Lemma filter_loop_inwin cplx view off len cur n :
  0 <= len -> n <= len ->
  (forall o l, 0 <= l -> inwin o l (cplx o l)) -> (forall o l f k, cplx o l = FOk (f, k) -> 1 <= k) ->
  forall fuel read parens parsed, 0 <= read ->
  (forall p, parens = Some p -> 0 <= p <= len) ->
  inwin off len (filter_loop cplx view off len cur n fuel read parens parsed).
Proof.
  intros Hl Hn Hc Hc2.
  assert (Fin : forall read parens parsed, (forall p, parens = Some p -> 0 <= p <= len) ->
            inwin off len (finish_filter off len read parens parsed)).
  { intros read parens parsed Hp. unfold finish_filter. destruct parens as [p|].
    - specialize (Hp p eq_refl). apply inwin_err; lia.
    - destruct parsed; [apply inwin_ok|apply inwin_err; lia]. }
  induction fuel as [|fu IH]; intros read parens parsed Hr Hp; cbn [filter_loop]; [apply inwin_crash|].
  destruct (n <=? read) eqn:E; [now apply Fin|].
  destruct (is_b (at_ cur read) c_sp); [apply IH; [lia|assumption]|].
  destruct (is_b (at_ cur read) c_rp).
  { destruct parens; [apply Fin; intros p0 H0; discriminate|apply inwin_err; lia]. }
  destruct parens as [p|].
  - destruct (is_b (at_ cur read) c_lp); [apply inwin_err; lia|].
    apply inwin_bind.
    + destruct (is_b (at_ cur read) c_bang || is_b (at_ cur read) c_amp || is_b (at_ cur read) c_bar);
        (eapply inwin_sub; [| |first [apply Hc|apply unpack_simple_inwin]]; lia).
    + intros [f sr] Es. apply IH; [|assumption].
      assert (1 <= sr).
      { destruct (is_b (at_ cur read) c_bang || is_b (at_ cur read) c_amp || is_b (at_ cur read) c_bar).
        - exact (Hc2 _ _ _ _ Es).
        - exact (unpack_simple_progress _ _ _ _ _ Es). }
      lia.
  - destruct (is_b (at_ cur read) c_lp); [apply IH; [lia|intros p0 H0; injection H0 as <-; lia]|].
    apply inwin_bind; [eapply inwin_sub; [| |apply unpack_simple_inwin]; lia|].
    intros [f r] _. apply Fin. intros p0 H0. discriminate.
Qed.

Lemma complex_loop_inwin uf off len cur n ct :
  0 <= len -> n <= len ->
  (forall o l, 0 <= l -> inwin o l (uf o l)) -> (forall o l f k, uf o l = FOk (f, k) -> 1 <= k) ->
  forall fuel read fs, 0 <= read -> inwin off len (complex_loop uf off len cur n ct fuel read fs).
Proof.
  intros Hl Hn Hu Hu2.
  assert (Fin : forall read fs, inwin off len (finish_complex off len ct read fs)).
  { intros read fs. unfold finish_complex. destruct fs; [apply inwin_err; lia|].
    destruct (is_b ct c_bang); [apply inwin_ok|]. destruct (is_b ct c_amp); apply inwin_ok. }
  induction fuel as [|fu IH]; intros read fs Hr; cbn [complex_loop]; [apply inwin_crash|].
  destruct (n <=? read) eqn:E; [apply Fin|].
  destruct (is_b (at_ cur read) c_sp); [apply IH; lia|].
  destruct (is_b (at_ cur read) c_lp).
  - assert (Step : inwin off len ('(f, r) <-f uf (off + read) (len - read - 1) ;; complex_loop uf off len cur n ct fu (read + r) (fs ++ [f]))).
    { apply inwin_bind; [eapply inwin_sub; [| |apply Hu]; lia|]. intros [f r] Ef. apply IH. pose proof (Hu2 _ _ _ _ Ef). lia. }
    destruct fs; [exact Step|]. destruct (is_b ct c_bang); [apply inwin_err; lia|exact Step].
  - destruct (is_b (at_ cur read) c_rp); [apply Fin|apply inwin_err; lia].
Qed.

Theorem unpack_inwin : forall d view off len, 0 <= len ->
  inwin off len (unpack_filter d view off len) /\ inwin off len (unpack_complex d view off len).
Proof.
  induction d as [|d' IH]; intros view off len Hl.
  - split; apply inwin_crash.
  - split; cbn [unpack_filter unpack_complex].
    + apply filter_loop_inwin; try lia.
      * now apply sl_len.
      * intros o l H. now apply IH.
      * intros o l f k. apply (proj2 (proj2 (unpack_total d' view o l))).
      * intros p H. discriminate.
    + apply complex_loop_inwin; try lia.
      * now apply sl_len.
      * intros o l H. now apply IH.
      * intros o l f k. apply (proj2 (proj1 (unpack_total d' view o l))).
Qed.

(* encode errors are positions in the (stripped) string, parse errors positions in its octets *)
Lemma surrogate_run_le s : 0 <= surrogate_run s <= zlen s.
Proof.
  induction s as [|c r IH]; cbn [surrogate_run]; [unfold zlen; cbn; lia|].
  rewrite zlen_cons. destruct (is_surrogate c); lia.
Qed.

Lemma encode_error_range : forall s i st ln, encode_se s i = inr (st, ln) -> i <= st /\ 1 <= ln /\ st + ln <= i + zlen s.
Proof.
  induction s as [|c r IH]; intros i st ln; cbn [encode_se]; [discriminate|].
  destruct (is_surrogate c && negb (is_escapable c)) eqn:E.
  - intros H. injection H as <- <-. apply andb_true_iff in E as [E _].
    cbn [surrogate_run]. rewrite E. pose proof (surrogate_run_le r) as Rr. rewrite zlen_cons. clear - Rr. lia.
  - destruct (encode_se r (i + 1)) as [bs|[st' ln']] eqn:R; [discriminate|]. intros H. injection H as <- <-.
    destruct (IH _ _ _ R) as (A & B & C). rewrite zlen_cons. lia.
Qed.

Theorem from_bytes_error_in_range d b o l : from_bytes d b = FErr (FSyn o l) -> 0 <= o /\ 0 <= l /\ o + l <= zlen b.
Proof.
  unfold from_bytes. pose proof (zlen_nonneg b) as Hb.
  destruct (unpack_filter d b 0 (zlen b)) as [[f c]|[o' l'|k]] eqn:E.
  - destruct (c <? zlen b) eqn:C; [|discriminate]. intros H. injection H as <- <-.
    pose proof (proj2 (proj1 (unpack_total d b 0 (zlen b))) f c E). lia.
  - intros H. injection H as <- <-. destruct (proj1 (unpack_inwin d b 0 (zlen b) Hb) o' l' E) as (A & B & C). lia.
  - destruct k; try discriminate. intros H. injection H as <- <-. lia.
Qed.

Theorem from_string_error_in_range d s o l :
  from_string d s = FErr (FSyn o l) ->
  0 <= o /\ 0 <= l /\
  (match encode_se (strip s) 0 return Prop with
   | inl b => o + l <= zlen b
   | inr _ => o + l <= zlen (strip s)
   end).
Proof.
  unfold from_string. destruct (encode_se (strip s) 0) as [b|[st ln]] eqn:E.
  - apply from_bytes_error_in_range.
  - intros H. injection H as <- <-. destruct (encode_error_range _ _ _ _ E) as (A & B & C). lia.
Qed.
