(* C13: LDAPFilter.from_string (str f) = f. *)
From Coq Require Import ZArith NArith List Bool Lia ZifyBool.
From Coq.Strings Require Import Byte.
From SV Require Import Base.Bytes Base.Py Rx.Syntax Rx.Lemmas Gen.Generated Msg.Types Filt.Text Filt.Value Filt.Simple.
Import ListNotations.
Local Open Scope Z_scope.

(* filters whose text RFC 4515 can express: valid attribute descriptions, non-empty and / or,
   substrings and extensible match as in Filt/Simple.v; values are arbitrary octets *)
Inductive wf_tfilter : filter -> Prop :=
| wt_and fs : fs <> [] -> Forall wf_tfilter fs -> wf_tfilter (FAnd fs)
| wt_or fs : fs <> [] -> Forall wf_tfilter fs -> wf_tfilter (FOr fs)
| wt_not g : wf_tfilter g -> wf_tfilter (FNot g)
| wt_eq a v : attr_ok a = true -> wf_tfilter (FEq a v)
| wt_ge a v : attr_ok a = true -> wf_tfilter (FGe a v)
| wt_le a v : attr_ok a = true -> wf_tfilter (FLe a v)
| wt_approx a v : attr_ok a = true -> wf_tfilter (FApprox a v)
| wt_present a : attr_ok a = true -> wf_tfilter (FPresent a)
| wt_sub a i any f : attr_ok a = true -> wf_sub i any f -> wf_tfilter (FSub a i any f)
| wt_ext rule attr v dn : wf_ext rule attr dn -> wf_tfilter (FExt rule attr v dn).

(* Python frames needed: two per nesting level *)
Fixpoint tdepth (f : filter) : nat :=
  match f with
  | FAnd fs | FOr fs => S (S (fold_right (fun g m => Nat.max (tdepth g) m) 0%nat fs))
  | FNot g => S (S (tdepth g))
  | _ => 1%nat
  end.

Lemma tdepth_in g fs : In g fs -> (tdepth g <= fold_right (fun g m => Nat.max (tdepth g) m) 0%nat fs)%nat.
Proof.
  induction fs as [|x fs IH]; cbn [In fold_right]; [tauto|]. intros [->|H]; [lia|]. specialize (IH H). lia.
Qed.

(* ---- the text of a simple item is  ( hdr = val )  *)
Definition is_simple (f : filter) : bool := match f with FAnd _ | FOr _ | FNot _ => false | _ => true end.

Definition hdr_of (f : filter) : list byte :=
  match f with
  | FEq a _ | FPresent a | FSub a _ _ _ => a
  | FGe a _ => a ++ [c_gt]
  | FLe a _ => a ++ [c_lt]
  | FApprox a _ => a ++ [c_tilde]
  | FExt rule attr _ dn => join_b [c_colon] (ext_headers rule attr dn) ++ [c_colon]
  | _ => []
  end.
Definition val_of (f : filter) : list byte :=
  match f with
  | FEq _ v | FGe _ v | FLe _ v | FApprox _ v | FExt _ _ v _ => ser_value v
  | FPresent _ => [c_star]
  | FSub _ i any fin => join_b [c_star] (sub_pieces i any fin)
  | _ => []
  end.

Lemma print_simple f : is_simple f = true -> print_filter f = [c_lp] ++ hdr_of f ++ [c_eq] ++ val_of f ++ [c_rp].
Proof.
  destruct f; try discriminate; intros _; cbn [print_filter hdr_of val_of]; rewrite <- ?app_assoc; try reflexivity.
Qed.

Lemma not_in_snoc {A} (c : A) l x : ~ In c l -> c <> x -> ~ In c (l ++ [x]).
Proof. intros H N I. apply in_app_or in I. destruct I as [I|[I|[]]]; [tauto|congruence]. Qed.

Lemma simple_tail_ok off f :
  is_simple f = true -> wf_tfilter f ->
  simple_tail off (hdr_of f) (val_of f) = FOk (f, zlen (hdr_of f) + 1 + zlen (val_of f)).
Proof.
  intros S W. destruct f; try discriminate; inversion W; subst; cbn [hdr_of val_of].
  - now apply tail_eq.
  - now apply tail_sub.
  - apply (tail_typed off attr c_gt v FGe); auto.
  - apply (tail_typed off attr c_lt v FLe); auto.
  - replace (zlen attr + 1 + zlen [c_star]) with (zlen attr + 1 + 1) by reflexivity. now apply tail_present.
  - apply (tail_typed off attr c_tilde v FApprox); auto 6.
  - now apply tail_ext.
Qed.

Lemma simple_side f :
  is_simple f = true -> wf_tfilter f ->
  hdr_of f <> [] /\ ~ In c_eq (hdr_of f) /\ ~ In c_rp (val_of f) /\
  (let ft := last (hdr_of f) x00 in
   (is_b ft c_colon || is_b ft c_gt || is_b ft c_lt || is_b ft c_tilde) && (zlen (hdr_of f) =? 1) = false) /\
  (exists b0 tl, hdr_of f = b0 :: tl /\ b0 <> c_sp /\ b0 <> c_rp /\ b0 <> c_lp /\ b0 <> c_bang /\ b0 <> c_amp /\ b0 <> c_bar).
Proof.
  intros S W.
  destruct structural_not_attr as (Ceq & Clp & Crp & Cstar & Ccolon & Cgt & Clt & Ctilde & Csp & Cbang & Camp & Cbar & Cbs).
  assert (Plain : forall a, attr_ok a = true ->
            a <> [] /\ ~ In c_eq a /\
            (let ft := last a x00 in (is_b ft c_colon || is_b ft c_gt || is_b ft c_lt || is_b ft c_tilde) && (zlen a =? 1) = false) /\
            (exists b0 tl, a = b0 :: tl /\ b0 <> c_sp /\ b0 <> c_rp /\ b0 <> c_lp /\ b0 <> c_bang /\ b0 <> c_amp /\ b0 <> c_bar)).
  { intros a A. pose proof (attr_ok_nonempty a A) as Ne. split; [assumption|]. split; [now apply attr_no|]. split.
    - destruct (attr_last_plain a A) as (T1 & T2 & T3 & T4). cbv zeta in *. now rewrite T1, T2, T3, T4.
    - destruct a as [|b0 tl]; [congruence|]. exists b0, tl. split; [reflexivity|].
      pose proof (attr_ok_chars _ A b0 (or_introl eq_refl)) as Hc.
      repeat split; intros ->; congruence. }
  assert (Typed : forall a op, attr_ok a = true -> op <> c_eq ->
            a ++ [op] <> [] /\ ~ In c_eq (a ++ [op]) /\
            (let ft := last (a ++ [op]) x00 in (is_b ft c_colon || is_b ft c_gt || is_b ft c_lt || is_b ft c_tilde) && (zlen (a ++ [op]) =? 1) = false) /\
            (exists b0 tl, a ++ [op] = b0 :: tl /\ b0 <> c_sp /\ b0 <> c_rp /\ b0 <> c_lp /\ b0 <> c_bang /\ b0 <> c_amp /\ b0 <> c_bar)).
  { intros a op A Nop. destruct (Plain a A) as (Ne & Neq & _ & (b0 & tl & -> & Hb)).
    split; [apply snoc_nonempty|]. split; [apply not_in_snoc; [assumption|intros E0; apply Nop; now symmetry]|]. split.
    - cbv zeta. rewrite zlen_app, zlen_cons. unfold zlen at 2. cbn [length].
      pose proof (zlen_nonneg tl) as Hnn. destruct (1 + zlen tl + Z.of_nat 1 =? 1) eqn:E; [clear - E Hnn; lia|]. apply andb_false_r.
    - exists b0, (tl ++ [op]). split; [reflexivity|exact Hb]. }
  destruct f; try discriminate; inversion W; subst; cbn [hdr_of val_of];
    try match goal with H : attr_ok _ = true |- _ => rename H into HA end.
  - destruct (Plain attr HA) as (P1 & P2 & P3 & P4). repeat split; auto. apply rp_not_in_ser.
  - destruct (Plain attr HA) as (P1 & P2 & P3 & P4). repeat split; auto.
    apply join_no; [discriminate|]. apply sub_pieces_plain; [reflexivity|discriminate].
  - destruct (Typed attr c_gt HA ltac:(discriminate)) as (P1 & P2 & P3 & P4). repeat split; auto. apply rp_not_in_ser.
  - destruct (Typed attr c_lt HA ltac:(discriminate)) as (P1 & P2 & P3 & P4). repeat split; auto. apply rp_not_in_ser.
  - destruct (Plain attr HA) as (P1 & P2 & P3 & P4). repeat split; auto. intros [E|[]]. discriminate.
  - destruct (Typed attr c_tilde HA ltac:(discriminate)) as (P1 & P2 & P3 & P4). repeat split; auto. apply rp_not_in_ser.
  - (* extensible *)
    match goal with H : wf_ext _ _ _ |- _ => rename H into HE end.
    pose proof HE as (Wa & Wr & Wd & Wn).
    set (J := join_b [c_colon] (ext_headers rule attr dn)).
    assert (JN : J <> []) by now apply ext_join_nonempty.
    assert (Jplain : forall c, attr_char c = false -> ~ In c dn_lit -> c <> c_colon -> ~ In c J).
    { intros c C D Nc. apply join_no; [assumption|]. now apply ext_headers_plain. }
    split; [apply snoc_nonempty|]. split.
    { apply not_in_snoc; [|discriminate]. apply Jplain; [assumption|apply dn_lit_plain|discriminate]. }
    split; [apply rp_not_in_ser|]. split.
    { cbv zeta. rewrite zlen_app. unfold zlen at 2. cbn [length].
      assert (HJ : 0 < zlen J) by (destruct J as [|j0 J0]; [congruence|rewrite zlen_cons; pose proof (zlen_nonneg J0) as Hnn; clear - Hnn; lia]).
      destruct (zlen J + Z.of_nat 1 =? 1) eqn:E; [clear - E HJ; lia|]. apply andb_false_r. }
    destruct J as [|b0 tl] eqn:EJ; [congruence|]. exists b0, (tl ++ [c_colon]). split; [reflexivity|].
    assert (Hin : forall c, attr_char c = false -> ~ In c dn_lit -> c <> c_colon -> b0 <> c).
    { intros c C D Nc ->. apply (Jplain c C D Nc). now left. }
    assert (Dn : forall c, c <> x64 -> c <> x6e -> ~ In c dn_lit) by (intros c N1 N2 [E|[E|[]]]; congruence).
    repeat split; apply Hin; try assumption; try (apply Dn; discriminate); discriminate.
Qed.

(* ---- one parenthesised item: the three iterations of the loop in _unpack_filter *)
Lemma filter_shell cplx view pre body post junk f b0 tl :
  view = pre ++ ([c_lp] ++ body ++ [c_rp] ++ post) ++ junk ->
  body = b0 :: tl -> b0 <> c_sp -> b0 <> c_rp -> b0 <> c_lp ->
  (if is_b b0 c_bang || is_b b0 c_amp || is_b b0 c_bar
   then cplx (zlen pre + 1) (zlen ([c_lp] ++ body ++ [c_rp] ++ post) - 1)
   else unpack_simple view (zlen pre + 1) (zlen ([c_lp] ++ body ++ [c_rp] ++ post) - 1)) = FOk (f, zlen body) ->
  let w := [c_lp] ++ body ++ [c_rp] ++ post in
  filter_loop cplx view (zlen pre) (zlen w) w (zlen w) (S (length w)) 0 None None = FOk (f, zlen body + 2).
Proof.
  intros Ev Eb N1 N2 N3 Hsub w.
  assert (Hw : zlen w = 1 + zlen body + 1 + zlen post).
  { unfold w. rewrite !zlen_app. unfold zlen at 1 3. cbn [length]. lia. }
  pose proof (zlen_nonneg body). pose proof (zlen_nonneg post).
  assert (Hb : 1 <= zlen body) by (rewrite Eb, zlen_cons; pose proof (zlen_nonneg tl); lia).
  assert (Hlen : (3 <= length w)%nat) by (unfold zlen in *; lia).
  destruct (length w) as [|[|[|k]]] eqn:El; try lia.
  (* iteration 1: '(' *)
  cbn [filter_loop]. destruct (zlen w <=? 0) eqn:E0; [lia|].
  assert (A0 : at_ w 0 = c_lp) by reflexivity. rewrite A0.
  change (is_b c_lp c_sp) with false. change (is_b c_lp c_rp) with false. change (is_b c_lp c_lp) with true. cbv iota.
  (* iteration 2: the item *)
  cbn [filter_loop]. change (0 + 1) with 1. destruct (zlen w <=? 1) eqn:E1; [lia|].
  assert (A1 : at_ w 1 = b0) by (unfold w; rewrite Eb; reflexivity). rewrite A1.
  rewrite (is_b_neq b0 c_sp N1), (is_b_neq b0 c_rp N2), (is_b_neq b0 c_lp N3).
  replace (zlen pre + 1) with (zlen pre + 1) in Hsub by reflexivity. fold w in Hsub. rewrite Hsub. cbn [fbind].
  (* iteration 3: ')' *)
  cbn [filter_loop]. destruct (zlen w <=? 1 + zlen body) eqn:E2; [lia|].
  assert (A2 : at_ w (1 + zlen body) = c_rp).
  { unfold w. change ([c_lp] ++ body ++ [c_rp] ++ post) with (([c_lp] ++ body) ++ c_rp :: post).
    replace (1 + zlen body) with (zlen ([c_lp] ++ body)) by (rewrite zlen_app; reflexivity). apply at_mid. }
  rewrite A2. change (is_b c_rp c_sp) with false. change (is_b c_rp c_rp) with true. cbv iota.
  unfold finish_filter. f_equal. f_equal. lia.
Qed.

Ltac zl := repeat first [rewrite zlen_app | rewrite zlen_cons | rewrite zlen_nil].

(* ---- a simple item *)
Lemma simple_item cplx f pre post junk :
  is_simple f = true -> wf_tfilter f ->
  let w := print_filter f ++ post in
  filter_loop cplx (pre ++ w ++ junk) (zlen pre) (zlen w) w (zlen w) (S (length w)) 0 None None
  = FOk (f, zlen (print_filter f)).
Proof.
  intros S W w. unfold w. rewrite (print_simple f S).
  destruct (simple_side f S W) as (Hne & Heq & Hrp & Hty & (b0 & tl & Eh & N1 & N2 & N3 & N4 & N5 & N6)).
  set (body := hdr_of f ++ [c_eq] ++ val_of f).
  replace (([c_lp] ++ hdr_of f ++ [c_eq] ++ val_of f ++ [c_rp]) ++ post) with ([c_lp] ++ body ++ [c_rp] ++ post)
    by (unfold body; rewrite <- !app_assoc; reflexivity).
  replace (zlen ([c_lp] ++ hdr_of f ++ [c_eq] ++ val_of f ++ [c_rp])) with (zlen body + 2)
    by (unfold body; zl; lia).
  apply (filter_shell cplx _ pre body post junk f b0 (tl ++ [c_eq] ++ val_of f)); auto.
  - unfold body. rewrite Eh. reflexivity.
  - rewrite (is_b_neq b0 c_bang N4), (is_b_neq b0 c_amp N5), (is_b_neq b0 c_bar N6). cbn [orb].
    rewrite (unpack_simple_frame _ _ _ (pre ++ [c_lp]) (hdr_of f) (val_of f) post junk); auto.
    + rewrite simple_tail_ok by assumption. f_equal. f_equal. unfold body. zl. lia.
    + unfold body. rewrite <- !app_assoc. reflexivity.
    + zl. lia.
    + unfold body. zl. lia.
Qed.

(* ---- and / or / not: the loop over the children *)
Lemma print_starts f : exists tl, print_filter f = c_lp :: tl.
Proof. destruct f; cbn [print_filter app]; eauto. Qed.

Lemma complex_children uf ct pre junk post view :
  forall kids done fs fuel,
  let cur := [ct] ++ done ++ flat_map print_filter kids ++ [c_rp] ++ post in
  view = pre ++ cur ++ junk ->
  (is_b ct c_bang = true -> (length fs + length kids <= 1)%nat) ->
  (forall k, In k kids -> forall pre' post' junk', view = pre' ++ (print_filter k ++ post') ++ junk' ->
             uf (zlen pre') (zlen (print_filter k ++ post')) = FOk (k, zlen (print_filter k))) ->
  (length kids < fuel)%nat ->
  complex_loop uf (zlen pre) (zlen cur) cur (zlen cur) ct fuel (1 + zlen done) fs
  = finish_complex (zlen pre) (zlen cur) ct (1 + zlen done + zlen (flat_map print_filter kids)) (fs ++ kids).
Proof.
  induction kids as [|k kids IH]; intros done fs fuel cur Ev Hbang Huf Hfuel.
  - destruct fuel as [|fu]; [cbn in Hfuel; lia|]. cbn [complex_loop flat_map].
    assert (Hc : zlen cur = 1 + zlen done + 1 + zlen post).
    { unfold cur. cbn [flat_map app]. zl. ring. }
    pose proof (zlen_nonneg done) as Hd. pose proof (zlen_nonneg post) as Hp.
    destruct (zlen cur <=? 1 + zlen done) eqn:E; [clear - E Hc Hd Hp; lia|].
    assert (A : at_ cur (1 + zlen done) = c_rp).
    { unfold cur. cbn [flat_map app]. change (ct :: done ++ c_rp :: post) with (([ct] ++ done) ++ c_rp :: post).
      replace (1 + zlen done) with (zlen ([ct] ++ done)) by (rewrite zlen_app; reflexivity). apply at_mid. }
    rewrite A. change (is_b c_rp c_sp) with false. change (is_b c_rp c_lp) with false. change (is_b c_rp c_rp) with true.
    cbv iota. cbn [flat_map]. rewrite app_nil_r, zlen_nil, Z.add_0_r. reflexivity.
  - destruct fuel as [|fu]; [cbn in Hfuel; lia|]. cbn [complex_loop].
    destruct (print_starts k) as (ktl & Ek).
    set (R := flat_map print_filter kids ++ [c_rp] ++ post).
    assert (Ecur : cur = ([ct] ++ done) ++ print_filter k ++ R).
    { unfold cur, R. cbn [flat_map]. rewrite <- !app_assoc. reflexivity. }
    assert (RN : R <> []) by (unfold R; destruct (flat_map print_filter kids); discriminate).
    destruct (exists_last RN) as (R' & z & ER).
    assert (Hc : zlen cur = 1 + zlen done + zlen (print_filter k) + zlen R' + 1).
    { rewrite Ecur, ER. zl. ring. }
    pose proof (zlen_nonneg done) as Hd. pose proof (zlen_nonneg R') as Hr. pose proof (zlen_nonneg ktl) as Hk.
    assert (Hkl : zlen (print_filter k) = 1 + zlen ktl) by (rewrite Ek; apply zlen_cons).
    destruct (zlen cur <=? 1 + zlen done) eqn:E; [clear - E Hc Hd Hr Hk Hkl; lia|].
    assert (A : at_ cur (1 + zlen done) = c_lp).
    { rewrite Ecur, Ek. cbn [app]. change (ct :: done ++ c_lp :: ktl ++ R) with (([ct] ++ done) ++ c_lp :: ktl ++ R).
      replace (1 + zlen done) with (zlen ([ct] ++ done)) by (rewrite zlen_app; reflexivity). apply at_mid. }
    rewrite A. change (is_b c_lp c_sp) with false. change (is_b c_lp c_lp) with true. cbv iota.
    assert (Hcall : uf (zlen pre + (1 + zlen done)) (zlen cur - (1 + zlen done) - 1) = FOk (k, zlen (print_filter k))).
    { replace (zlen pre + (1 + zlen done)) with (zlen (pre ++ [ct] ++ done)) by (rewrite !zlen_app; reflexivity).
      replace (zlen cur - (1 + zlen done) - 1) with (zlen (print_filter k ++ R')) by (rewrite zlen_app; clear - Hc; lia).
      apply (Huf k (or_introl eq_refl) (pre ++ [ct] ++ done) R' ([z] ++ junk)).
      rewrite Ev, Ecur, ER. rewrite <- !app_assoc. reflexivity. }
    assert (Step : complex_loop uf (zlen pre) (zlen cur) cur (zlen cur) ct fu (1 + zlen done + zlen (print_filter k)) (fs ++ [k])
                   = finish_complex (zlen pre) (zlen cur) ct (1 + zlen done + zlen (flat_map print_filter (k :: kids))) (fs ++ k :: kids)).
    { pose proof (IH (done ++ print_filter k) (fs ++ [k]) fu) as IH'. cbv zeta in IH'.
      assert (Ecur2 : [ct] ++ (done ++ print_filter k) ++ flat_map print_filter kids ++ [c_rp] ++ post = cur).
      { unfold cur. cbn [flat_map]. rewrite <- !app_assoc. reflexivity. }
      rewrite Ecur2 in IH'. rewrite zlen_app in IH'.
      replace (1 + (zlen done + zlen (print_filter k))) with (1 + zlen done + zlen (print_filter k)) in IH' by lia.
      rewrite IH'.
      - cbn [flat_map]. rewrite zlen_app, <- app_assoc. cbn [app]. f_equal. lia.
      - exact Ev.
      - intros B. specialize (Hbang B). rewrite app_length. cbn [length] in *. lia.
      - intros k' Hk'. apply Huf. now right.
      - cbn [length] in Hfuel. lia. }
    destruct fs as [|f0 fs'].
    + rewrite Hcall. cbn [fbind]. exact Step.
    + destruct (is_b ct c_bang) eqn:B; [specialize (Hbang eq_refl); cbn [length] in Hbang; lia|].
      rewrite Hcall. cbn [fbind]. exact Step.
Qed.

(* ---- the whole filter *)
Definition kids_of (f : filter) : list filter := match f with FAnd fs | FOr fs => fs | FNot g => [g] | _ => [] end.
Definition ctype_of (f : filter) : byte := match f with FAnd _ => c_amp | FOr _ => c_bar | _ => c_bang end.

Lemma print_complex f : is_simple f = false ->
  print_filter f = [c_lp] ++ ([ctype_of f] ++ flat_map print_filter (kids_of f)) ++ [c_rp].
Proof.
  destruct f; try discriminate; intros _; cbn [print_filter kids_of ctype_of flat_map app]; rewrite ?app_nil_r; reflexivity.
Qed.

Theorem text_round_trip : forall d f,
  (tdepth f <= d)%nat -> wf_tfilter f ->
  forall pre post junk,
  unpack_filter d (pre ++ (print_filter f ++ post) ++ junk) (zlen pre) (zlen (print_filter f ++ post))
  = FOk (f, zlen (print_filter f)).
Proof.
  induction d as [d IH] using lt_wf_ind. intros f Hd W pre post junk.
  destruct d as [|d']; [destruct f; cbn [tdepth] in Hd; lia|].
  cbn [unpack_filter]. rewrite sl_mid.
  destruct (is_simple f) eqn:Hs; [now apply simple_item|].
  (* and / or / not *)
  rewrite (print_complex f Hs).
  set (kids := kids_of f). set (ct := ctype_of f).
  set (body := [ct] ++ flat_map print_filter kids).
  replace (([c_lp] ++ body ++ [c_rp]) ++ post) with ([c_lp] ++ body ++ [c_rp] ++ post) by (rewrite <- !app_assoc; reflexivity).
  replace (zlen ([c_lp] ++ body ++ [c_rp])) with (zlen body + 2) by (zl; ring).
  assert (Hct : ct = c_bang \/ ct = c_amp \/ ct = c_bar) by (unfold ct; destruct f; try discriminate; cbn; auto).
  apply (filter_shell _ _ pre body post junk f ct (flat_map print_filter kids)); auto.
  - destruct Hct as [->|[->| ->]]; discriminate.
  - destruct Hct as [->|[->| ->]]; discriminate.
  - destruct Hct as [->|[->| ->]]; discriminate.
  - assert (Eb : is_b ct c_bang || is_b ct c_amp || is_b ct c_bar = true) by (destruct Hct as [->|[->| ->]]; reflexivity).
    rewrite Eb.
    (* the recursive call needs two frames *)
    assert (Hd2 : exists d'', d' = S d'' /\ forall k, In k kids -> (tdepth k <= d'')%nat).
    { destruct f; try discriminate; cbn [tdepth kids_of] in *; subst kids.
      - destruct d' as [|d'']; [lia|]. exists d''. split; [reflexivity|]. intros k Hk. pose proof (tdepth_in k fs Hk). lia.
      - destruct d' as [|d'']; [lia|]. exists d''. split; [reflexivity|]. intros k Hk. pose proof (tdepth_in k fs Hk). lia.
      - destruct d' as [|d'']; [lia|]. exists d''. split; [reflexivity|]. intros k [<-|[]]. lia. }
    destruct Hd2 as (d'' & -> & Hkd).
    assert (Wk : forall k, In k kids -> wf_tfilter k).
    { destruct f; try discriminate; inversion W; subst; cbn [kids_of] in *; subst kids.
      - intros k Hk. match goal with H : Forall wf_tfilter _ |- _ => rewrite Forall_forall in H; now apply H end.
      - intros k Hk. match goal with H : Forall wf_tfilter _ |- _ => rewrite Forall_forall in H; now apply H end.
      - intros k [<-|[]]. assumption. }
    assert (Kne : kids <> []).
    { destruct f; try discriminate; inversion W; subst; cbn [kids_of] in *; subst kids; try assumption; try discriminate. }
    cbn [unpack_complex].
    set (view := pre ++ ([c_lp] ++ body ++ [c_rp] ++ post) ++ junk).
    set (w' := body ++ [c_rp] ++ post).
    assert (Ev : view = (pre ++ [c_lp]) ++ w' ++ junk) by (unfold view, w'; rewrite <- !app_assoc; reflexivity).
    assert (El : zlen ([c_lp] ++ w') - 1 = zlen w') by (zl; ring).
    rewrite El. replace (zlen pre + 1) with (zlen (pre ++ [c_lp])) by (zl; ring).
    assert (Esl : sl view (zlen (pre ++ [c_lp])) (zlen w') = w') by (rewrite Ev; apply sl_mid).
    rewrite Esl.
    assert (A0 : at_ w' 0 = ct) by reflexivity. rewrite A0.
    pose proof (complex_children (unpack_filter d'' view) ct (pre ++ [c_lp]) junk post view kids [] [] (S (length w'))) as CC.
    cbv zeta in CC. cbn [app] in CC. fold body in CC. change (ct :: flat_map print_filter kids ++ c_rp :: post) with w' in CC.
    rewrite zlen_nil, Z.add_0_r in CC. rewrite CC; clear CC.
    + cbn [app]. unfold finish_complex. destruct kids as [|k0 krest] eqn:EK; [congruence|].
      unfold body. zl. replace (1 + zlen (flat_map print_filter (k0 :: krest))) with (1 + zlen (flat_map print_filter (k0 :: krest))) by reflexivity.
      destruct f; try discriminate; cbn [kids_of ctype_of] in *; subst ct.
      * change (is_b c_amp c_bang) with false. change (is_b c_amp c_amp) with true. cbv iota. unfold kids in EK. now rewrite EK.
      * change (is_b c_bar c_bang) with false. change (is_b c_bar c_amp) with false. cbv iota. unfold kids in EK. now rewrite EK.
      * change (is_b c_bang c_bang) with true. cbv iota. unfold kids in EK. injection EK as <- <-. reflexivity.
    + exact Ev.
    + intros B. destruct f; try discriminate; cbn [kids_of ctype_of] in *; subst ct kids; try discriminate B. cbn. lia.
    + intros k Hk pre' post' junk' Ev'. rewrite Ev'. apply IH; [lia|now apply Hkd|now apply Wk].
    + unfold w', body. rewrite !app_length. cbn [length].
      assert (G : (length kids <= length (flat_map print_filter kids))%nat).
      { clear. induction kids as [|k ks IHk]; cbn [flat_map length]; [lia|]. rewrite app_length.
        destruct (print_starts k) as (tl & ->). cbn [length]. lia. }
      lia.
Qed.

(* from_bytes / from_string on the text of a filter *)
Theorem from_bytes_print d f : (tdepth f <= d)%nat -> wf_tfilter f -> from_bytes d (print_filter f) = FOk f.
Proof.
  intros Hd W. unfold from_bytes.
  pose proof (text_round_trip d f Hd W [] [] []) as H. cbn [app] in H. rewrite !app_nil_r in H.
  change (zlen []) with 0 in H. rewrite H. rewrite Z.ltb_irrefl. reflexivity.
Qed.

(* ---- the text is plain ASCII, so str(f) and its UTF-8 octets are the same sequence *)
Local Open Scope N_scope.

Lemma attr_char_ascii b : attr_char b = true -> b2n b < 128.
Proof.
  unfold attr_char, in_leaves. set (c := b2n b). unfold rx_attribute. cbn [leaves app existsb fst snd].
  unfold chr_ok, in_ranges. cbn [existsb fst snd]. rewrite !xorb_false_l. intros H. lia.
Qed.

Lemma special_false_ascii x : x < 256 -> special x = false -> x < 127.
Proof.
  unfold special, rx_string_escape, chr_ok, in_ranges. cbn [existsb fst snd]. rewrite !xorb_false_l. intros L H. lia.
Qed.

Definition ascii (l : list byte) : Prop := Forall (fun b => b2n b < 128) l.

Lemma ascii_app a b : ascii a -> ascii b -> ascii (a ++ b).
Proof. intros. apply Forall_app. now split. Qed.

Lemma ascii_ser v : ascii (ser_value v).
Proof.
  apply Forall_forall. intros b Hb. destruct (ser_value_chars v b Hb) as [S| ->]; [|vm_compute; reflexivity].
  pose proof (special_false_ascii (b2n b) (b2n_lt b) S). lia.
Qed.

Lemma ascii_attr a : attr_ok a = true -> ascii a.
Proof. intros A. apply Forall_forall. intros b Hb. apply attr_char_ascii. now apply (attr_ok_chars a A). Qed.

Lemma ascii_join sep ps : ascii sep -> (forall p, In p ps -> ascii p) -> ascii (join_b sep ps).
Proof.
  intros Hs. induction ps as [|x ps IH]; intros Hp; [constructor|].
  destruct ps as [|y ps'].
  - cbn [join_b]. apply Hp. now left.
  - change (join_b sep (x :: y :: ps')) with (x ++ sep ++ join_b sep (y :: ps')).
    apply ascii_app; [apply Hp; now left|]. apply ascii_app; [assumption|]. apply IH. intros p H. apply Hp. now right.
Qed.

Lemma ascii_const l : forallb (fun b => b2n b <? 128) l = true -> ascii l.
Proof. intros H. apply Forall_forall. intros b Hb. rewrite forallb_forall in H. specialize (H b Hb). lia. Qed.

(* induction over filters with the nested lists *)
Lemma filter_ind' (P : filter -> Prop) :
  (forall fs, Forall P fs -> P (FAnd fs)) -> (forall fs, Forall P fs -> P (FOr fs)) -> (forall g, P g -> P (FNot g)) ->
  (forall f, is_simple f = true -> P f) -> forall f, P f.
Proof.
  intros HA HO HN HS. fix IH 1. intros f. destruct f.
  - apply HA. induction fs as [|g gs IHg]; constructor; [apply IH|exact IHg].
  - apply HO. induction fs as [|g gs IHg]; constructor; [apply IH|exact IHg].
  - apply HN. apply IH.
  - now apply HS.
  - now apply HS.
  - now apply HS.
  - now apply HS.
  - now apply HS.
  - now apply HS.
  - now apply HS.
Qed.

Lemma ascii_flat (fs : list filter) :
  Forall (fun g => wf_tfilter g -> ascii (print_filter g)) fs -> Forall wf_tfilter fs -> ascii (flat_map print_filter fs).
Proof.
  induction 1 as [|g gs Hg _ IHg]; intros W; cbn [flat_map]; [constructor|]. inversion W; subst.
  apply ascii_app; [now apply Hg|now apply IHg].
Qed.

Lemma print_ascii : forall f, wf_tfilter f -> ascii (print_filter f).
Proof.
  apply (filter_ind' (fun f => wf_tfilter f -> ascii (print_filter f))).
  - intros fs IH W. inversion W; subst. cbn [print_filter].
    apply ascii_app; [now apply ascii_const|]. apply ascii_app; [now apply ascii_flat|now apply ascii_const].
  - intros fs IH W. inversion W; subst. cbn [print_filter].
    apply ascii_app; [now apply ascii_const|]. apply ascii_app; [now apply ascii_flat|now apply ascii_const].
  - intros g IH W. inversion W; subst. cbn [print_filter].
    apply ascii_app; [now apply ascii_const|]. apply ascii_app; [now apply IH|now apply ascii_const].
  - intros f S W. destruct f; try discriminate; inversion W; subst; cbn [print_filter].
    + repeat apply ascii_app; try (now apply ascii_const); try (now apply ascii_attr); apply ascii_ser.
    + repeat apply ascii_app; try (now apply ascii_const); try (now apply ascii_attr).
      apply ascii_join; [now apply ascii_const|]. intros p Hp. change ([ser_value (opt_or_empty initial)] ++ map ser_value any ++ [ser_value (opt_or_empty final)]) with (sub_pieces initial any final) in Hp.
      unfold sub_pieces in Hp. cbn [app] in Hp.
      destruct Hp as [<-|Hp]; [apply ascii_ser|]. apply in_app_or in Hp. destruct Hp as [Hp|[<-|[]]]; [|apply ascii_ser].
      apply in_map_iff in Hp. destruct Hp as (x & <- & _). apply ascii_ser.
    + repeat apply ascii_app; try (now apply ascii_const); try (now apply ascii_attr); apply ascii_ser.
    + repeat apply ascii_app; try (now apply ascii_const); try (now apply ascii_attr); apply ascii_ser.
    + repeat apply ascii_app; try (now apply ascii_const); try (now apply ascii_attr).
    + repeat apply ascii_app; try (now apply ascii_const); try (now apply ascii_attr); apply ascii_ser.
    + match goal with H : wf_ext _ _ _ |- _ => destruct H as (Wa & Wr & _) end.
      repeat apply ascii_app; try (now apply ascii_const); try apply ascii_ser.
      apply ascii_join; [now apply ascii_const|]. intros p Hp.
      change ([opt_or_empty attr] ++ (if dn then [dn_lit] else []) ++ match rule with Some r => [r] | None => [] end) with (ext_headers rule attr dn) in Hp.
      unfold ext_headers in Hp. cbn [app] in Hp.
      destruct Hp as [<-|Hp].
      * destruct attr; cbn [opt_or_empty]; [now apply ascii_attr|constructor].
      * apply in_app_or in Hp. destruct Hp as [Hp|Hp].
        -- destruct dn; [|destruct Hp]. destruct Hp as [<-|[]]. now apply ascii_const.
        -- destruct rule; [|destruct Hp]. destruct Hp as [<-|[]]. now apply ascii_attr.
Qed.

(* encode("utf-8", "surrogateescape") of ASCII code points *)
Lemma encode_ascii l : forall i, ascii l -> encode_se (bn l) i = inl l.
Proof.
  induction l as [|b l IH]; intros i H; [reflexivity|]. inversion H as [|? ? Hb Hl]; subst.
  unfold bn. cbn [map encode_se]. fold (bn l).
  assert (E1 : is_surrogate (b2n b) = false) by (unfold is_surrogate; lia).
  assert (E2 : is_escapable (b2n b) = false) by (unfold is_escapable; lia).
  rewrite E1, E2. cbn [andb negb]. rewrite IH by assumption.
  unfold utf8_of_cp. assert (E3 : (b2n b <? 128) = true) by lia. rewrite E3. cbn [app]. now rewrite n2b_b2n.
Qed.

Lemma strip_parens (l : list N) tl a : l = 40 :: tl -> l = a ++ [41] -> strip l = l.
Proof.
  intros E1 E2. unfold strip.
  assert (L1 : lstrip l = l) by (rewrite E1; reflexivity).
  rewrite L1.
  assert (L2 : rev l = 41 :: rev a) by (rewrite E2, rev_app_distr; reflexivity).
  rewrite L2.
  assert (L3 : lstrip (41 :: rev a) = 41 :: rev a) by reflexivity.
  rewrite L3. cbn [rev]. rewrite rev_involutive. now symmetry.
Qed.

Lemma print_ends f : exists a, print_filter f = a ++ [c_rp].
Proof.
  destruct f; cbn [print_filter].
  all: repeat match goal with |- context [?x ++ ?y ++ ?z] => rewrite (app_assoc x y z) end.
  all: try (eexists; reflexivity).
  all: eexists; change [c_eq; c_star; c_rp] with ([c_eq; c_star] ++ [c_rp]); rewrite !app_assoc; reflexivity.
Qed.

(* LDAPFilter.from_string(str(f)) == f *)
Theorem from_string_str d f :
  (tdepth f <= d)%nat -> wf_tfilter f -> from_string d (bn (print_filter f)) = FOk f.
Proof.
  intros Hd W. unfold from_string.
  destruct (print_starts f) as (tl & E1). destruct (print_ends f) as (a & E2).
  rewrite (strip_parens (bn (print_filter f)) (bn tl) (bn a)).
  - rewrite encode_ascii by now apply print_ascii. now apply from_bytes_print.
  - rewrite E1. reflexivity.
  - rewrite E2. unfold bn. rewrite map_app. reflexivity.
Qed.
