(* C13: from_string on the text of one simple filter item (everything but and / or / not). *)
From Coq Require Import ZArith NArith List Bool Lia ZifyBool.
From Coq.Strings Require Import Byte.
From SV Require Import Base.Bytes Base.Py Rx.Syntax Rx.Lemmas Gen.Generated Msg.Types Filt.Text Filt.Value.
Import ListNotations.
Local Open Scope Z_scope.

(* ---- lists with Z offsets *)
Lemma zlen_app {A} (a b : list A) : zlen (a ++ b) = zlen a + zlen b.
Proof. unfold zlen. rewrite app_length. lia. Qed.
Lemma zlen_nonneg {A} (a : list A) : 0 <= zlen a.
Proof. unfold zlen. lia. Qed.
Lemma zlen_cons {A} (x : A) a : zlen (x :: a) = 1 + zlen a.
Proof. unfold zlen. cbn [length]. lia. Qed.
Lemma zlen_nil {A} : zlen (@nil A) = 0.
Proof. reflexivity. Qed.
Lemma to_nat_zlen {A} (a : list A) : Z.to_nat (zlen a) = length a.
Proof. unfold zlen. lia. Qed.

Lemma sl_mid (a b c : list byte) : sl (a ++ b ++ c) (zlen a) (zlen b) = b.
Proof.
  unfold sl. rewrite !to_nat_zlen. rewrite skipn_app, skipn_all, Nat.sub_diag. cbn [skipn app].
  rewrite firstn_app, firstn_all, Nat.sub_diag. cbn [firstn]. apply app_nil_r.
Qed.

Lemma sl_prefix (b c : list byte) n : 0 <= n <= zlen b -> sl (b ++ c) 0 n = firstn (Z.to_nat n) b.
Proof.
  intros H. unfold sl. cbn [Z.to_nat skipn]. rewrite firstn_app.
  replace (Z.to_nat n - length b)%nat with 0%nat by (unfold zlen in H; lia). cbn [firstn]. apply app_nil_r.
Qed.

Lemma sl_from (a b c : list byte) : sl (a ++ b ++ c) (zlen a) (zlen b) = b.
Proof. apply sl_mid. Qed.

Lemma at_mid (a : list byte) x b : at_ (a ++ x :: b) (zlen a) = x.
Proof. unfold at_. rewrite to_nat_zlen. rewrite app_nth2 by lia. now rewrite Nat.sub_diag. Qed.

Lemma at_last (a : list byte) x b : at_ ((a ++ [x]) ++ b) (zlen (a ++ [x]) - 1) = x.
Proof.
  rewrite <- app_assoc. cbn [app]. rewrite zlen_app. unfold zlen at 2. cbn [length].
  replace (zlen a + Z.of_nat 1 - 1) with (zlen a) by lia. apply at_mid.
Qed.

Lemma find_b_skip c (a : list byte) b i : ~ In c a -> find_b c (a ++ c :: b) i = i + zlen a.
Proof.
  revert i. induction a as [|x a IH]; intros i H; cbn [app find_b].
  - unfold is_b. assert (E : byte_eqb c c = true) by now apply byte_eqb_eq. rewrite E. unfold zlen. cbn. lia.
  - unfold is_b. destruct (byte_eqb x c) eqn:E.
    + apply byte_eqb_eq in E. subst. exfalso. apply H. now left.
    + rewrite IH by (intros H1; apply H; now right). rewrite zlen_cons. lia.
Qed.

Lemma find_b_none c (a : list byte) i : ~ In c a -> find_b c a i = -1.
Proof.
  revert i. induction a as [|x a IH]; intros i H; cbn [find_b]; [reflexivity|].
  unfold is_b. destruct (byte_eqb x c) eqn:E.
  - apply byte_eqb_eq in E. subst. exfalso. apply H. now left.
  - apply IH. intros H1. apply H. now right.
Qed.

Lemma mem_b_in c l : mem_b c l = true <-> In c l.
Proof.
  unfold mem_b, is_b. rewrite existsb_exists. split.
  - intros (x & Hx & E). apply byte_eqb_eq in E. now subst.
  - intros H. exists c. split; [assumption|now apply byte_eqb_eq].
Qed.
Lemma mem_b_false c l : ~ In c l -> mem_b c l = false.
Proof. intros H. destruct (mem_b c l) eqn:E; [apply mem_b_in in E; contradiction|reflexivity]. Qed.

Lemma is_b_refl c : is_b c c = true.
Proof. now apply byte_eqb_eq. Qed.
Lemma is_b_neq a b : a <> b -> is_b a b = false.
Proof. intros H. unfold is_b. destruct (byte_eqb a b) eqn:E; [apply byte_eqb_eq in E; contradiction|reflexivity]. Qed.

(* ---- attribute descriptions: what the generated _ATTRIBUTE_PATTERN lets through *)
Definition attr_char (b : byte) : bool := in_leaves (b2n b) rx_attribute.

Lemma attr_ok_chars a : attr_ok a = true -> forall b, In b a -> attr_char b = true.
Proof.
  unfold attr_ok, rx_attribute_end, anchored_match. intros M b Hb.
  apply (matches_chars rx_attribute (bn a) M). unfold bn. now apply in_map.
Qed.

Lemma attr_ok_nonempty a : attr_ok a = true -> a <> [].
Proof. intros H ->. vm_compute in H. discriminate. Qed.

(* none of the structural characters is an attribute character *)
Lemma structural_not_attr :
  attr_char c_eq = false /\ attr_char c_lp = false /\ attr_char c_rp = false /\ attr_char c_star = false /\
  attr_char c_colon = false /\ attr_char c_gt = false /\ attr_char c_lt = false /\ attr_char c_tilde = false /\
  attr_char c_sp = false /\ attr_char c_bang = false /\ attr_char c_amp = false /\ attr_char c_bar = false /\
  attr_char c_bs = false.
Proof. repeat split; vm_compute; reflexivity. Qed.

Lemma attr_no a c : attr_ok a = true -> attr_char c = false -> ~ In c a.
Proof. intros A C H. rewrite (attr_ok_chars a A c H) in C. discriminate. Qed.

(* ---- the frame of _unpack_simple_filter on  hdr '=' val ')' post *)
Definition simple_tail (off : Z) (hdr val : list byte) : fres (filter * Z) :=
  let ft := last hdr x00 in
  let typed := is_b ft c_colon || is_b ft c_gt || is_b ft c_lt || is_b ft c_tilde in
  let len_hdr := zlen hdr in
  let attribute_end := if typed then len_hdr - 1 else len_hdr in
  let attribute := firstn (Z.to_nat attribute_end) hdr in
  if negb (typed && is_b ft c_colon) && negb (attr_ok attribute) then FErr (FSyn off attribute_end)
  else
    let value_offset := off + (len_hdr + 1) in
    let value_length := zlen val in
    let read := len_hdr + 1 + value_length in
    b_value <-f (if typed || negb (mem_b c_star val) then unpack_value val value_offset value_length
                 else FOk val) ;;
    if typed then
      if is_b ft c_colon then
        '(a, dn, rule) <-f unpack_ext_header attribute off attribute_end ;;
        FOk (FExt rule a b_value dn, read)
      else if is_b ft c_gt then FOk (FGe attribute b_value, read)
      else if is_b ft c_lt then FOk (FLe attribute b_value, read)
      else FOk (FApprox attribute b_value, read)
    else if bytes_eqb val [c_star] then FOk (FPresent attribute, read)
    else if mem_b c_star val then
      '(first, vals, fin) <-f unpack_substrings b_value value_offset value_length ;;
      FOk (FSub attribute first vals fin, read)
    else FOk (FEq attribute b_value, read).

Lemma last_app_single {A} (a : list A) x d : last (a ++ [x]) d = x.
Proof. apply last_last. Qed.

Lemma at_is_last (hdr : list byte) rest : hdr <> [] -> at_ (hdr ++ rest) (zlen hdr - 1) = last hdr x00.
Proof.
  intros H. destruct (exists_last H) as (a & x & ->). rewrite last_app_single. apply at_last.
Qed.

Lemma unpack_simple_frame view off len pre hdr val post junk :
  view = pre ++ (hdr ++ [c_eq] ++ val ++ [c_rp] ++ post) ++ junk ->
  off = zlen pre -> len = zlen (hdr ++ [c_eq] ++ val ++ [c_rp] ++ post) ->
  hdr <> [] -> ~ In c_eq hdr -> ~ In c_rp val ->
  (let ft := last hdr x00 in
   (is_b ft c_colon || is_b ft c_gt || is_b ft c_lt || is_b ft c_tilde) && (zlen hdr =? 1) = false) ->
  unpack_simple view off len = simple_tail off hdr val.
Proof.
  intros -> -> -> Hne Heq Hrp Hty. cbv zeta in Hty. unfold unpack_simple.
  set (w := hdr ++ [c_eq] ++ val ++ [c_rp] ++ post).
  rewrite sl_mid. fold w.
  assert (Ef : find_b c_eq w 0 = zlen hdr) by (unfold w; cbn [app]; rewrite find_b_skip by assumption; lia).
  rewrite Ef.
  assert (Hl : 0 < zlen hdr) by (destruct hdr; [congruence|rewrite zlen_cons; pose proof (zlen_nonneg hdr); lia]).
  assert (Hw : zlen w = zlen hdr + 1 + zlen val + 1 + zlen post).
  { unfold w. rewrite !zlen_app. unfold zlen at 2 4. cbn [length]. lia. }
  pose proof (zlen_nonneg val). pose proof (zlen_nonneg post).
  destruct (zlen hdr =? 0) eqn:E0; [lia|]. destruct (zlen hdr =? -1) eqn:E1; [lia|].
  destruct (zlen hdr =? zlen w - 1) eqn:E2; [lia|].
  assert (Eat : at_ w (zlen hdr - 1) = last hdr x00) by (unfold w; now apply at_is_last).
  rewrite Eat. unfold simple_tail. cbv zeta.
  set (ft := last hdr x00) in *.
  set (typed := is_b ft c_colon || is_b ft c_gt || is_b ft c_lt || is_b ft c_tilde) in *.
  rewrite Hty.
  set (attribute_end := if typed then zlen hdr - 1 else zlen hdr).
  assert (Hae : 0 <= attribute_end <= zlen hdr) by (unfold attribute_end; destruct typed; lia).
  assert (Eattr : sl w 0 attribute_end = firstn (Z.to_nat attribute_end) hdr) by (unfold w; now apply sl_prefix).
  rewrite Eattr.
  destruct (negb (typed && is_b ft c_colon) && negb (attr_ok (firstn (Z.to_nat attribute_end) hdr))); [reflexivity|].
  (* the value: everything up to the first ')' *)
  assert (Etail : skipn (Z.to_nat (zlen hdr + 1)) w = val ++ [c_rp] ++ post).
  { unfold w. replace (Z.to_nat (zlen hdr + 1)) with (length (hdr ++ [c_eq])) by (rewrite app_length; unfold zlen; cbn [length]; lia).
    rewrite (app_assoc hdr [c_eq]). rewrite skipn_app, skipn_all, Nat.sub_diag. reflexivity. }
  rewrite Etail.
  assert (Erp : find_b c_rp (val ++ [c_rp] ++ post) 0 = zlen val) by (cbn [app]; rewrite find_b_skip by assumption; lia).
  rewrite Erp. destruct (zlen val =? -1) eqn:E3; [lia|].
  assert (Eraw : sl w (zlen hdr + 1) (zlen val) = val).
  { unfold w. replace (zlen hdr + 1) with (zlen (hdr ++ [c_eq])) by (rewrite zlen_app; reflexivity).
    rewrite (app_assoc hdr [c_eq]). apply sl_mid. }
  rewrite Eraw. reflexivity.
Qed.

(* ---- equality, presence, >=, <=, ~= *)
Lemma last_in {A} (a : list A) d : a <> [] -> In (last a d) a.
Proof. intros H. destruct (exists_last H) as (b & x & ->). rewrite last_last. apply in_or_app. right. now left. Qed.

Lemma attr_last_plain a :
  attr_ok a = true ->
  let ft := last a x00 in
  is_b ft c_colon = false /\ is_b ft c_gt = false /\ is_b ft c_lt = false /\ is_b ft c_tilde = false.
Proof.
  intros A. cbv zeta. pose proof (last_in a x00 (attr_ok_nonempty a A)) as Hl.
  pose proof (attr_ok_chars a A _ Hl) as Hc.
  destruct structural_not_attr as (_ & _ & _ & _ & C1 & C2 & C3 & C4 & _).
  repeat split; apply is_b_neq; intros E; rewrite E in Hc; congruence.
Qed.

Lemma firstn_zlen {A} (a : list A) : firstn (Z.to_nat (zlen a)) a = a.
Proof. rewrite to_nat_zlen. apply firstn_all. Qed.

Lemma star_not_in_ser v : ~ In c_star (ser_value v).
Proof. apply ser_value_no; [reflexivity|discriminate]. Qed.
Lemma rp_not_in_ser v : ~ In c_rp (ser_value v).
Proof. apply ser_value_no; [reflexivity|discriminate]. Qed.
Lemma lp_not_in_ser v : ~ In c_lp (ser_value v).
Proof. apply ser_value_no; [reflexivity|discriminate]. Qed.

Lemma tail_eq off a v :
  attr_ok a = true -> simple_tail off a (ser_value v) = FOk (FEq a v, zlen a + 1 + zlen (ser_value v)).
Proof.
  intros A. destruct (attr_last_plain a A) as (T1 & T2 & T3 & T4). cbv zeta in *.
  unfold simple_tail. cbv zeta. rewrite T1, T2, T3, T4. cbn [orb andb negb].
  rewrite firstn_zlen, A. cbn [negb andb].
  rewrite (mem_b_false c_star) by apply star_not_in_ser. cbn [negb].
  rewrite unpack_value_ser. cbn [fbind].
  assert (E : bytes_eqb (ser_value v) [c_star] = false).
  { destruct (bytes_eqb (ser_value v) [c_star]) eqn:E; [|reflexivity]. apply bytes_eqb_eq in E.
    exfalso. apply (star_not_in_ser v). rewrite E. now left. }
  rewrite E. reflexivity.
Qed.

Lemma tail_present off a :
  attr_ok a = true -> simple_tail off a [c_star] = FOk (FPresent a, zlen a + 1 + 1).
Proof.
  intros A. destruct (attr_last_plain a A) as (T1 & T2 & T3 & T4). cbv zeta in *.
  unfold simple_tail. cbv zeta. rewrite T1, T2, T3, T4. cbn [orb andb negb].
  rewrite firstn_zlen, A. cbn [negb andb]. reflexivity.
Qed.

Lemma firstn_app_exact {A} (a b : list A) : firstn (length a) (a ++ b) = a.
Proof. rewrite firstn_app, firstn_all, Nat.sub_diag. cbn. apply app_nil_r. Qed.

Lemma tail_typed off a op v (mk : str -> octets -> filter) :
  attr_ok a = true ->
  (op = c_gt /\ mk = FGe) \/ (op = c_lt /\ mk = FLe) \/ (op = c_tilde /\ mk = FApprox) ->
  simple_tail off (a ++ [op]) (ser_value v) = FOk (mk a v, zlen (a ++ [op]) + 1 + zlen (ser_value v)).
Proof.
  intros A Hop. unfold simple_tail. cbv zeta. rewrite last_last.
  assert (Et : is_b op c_colon || is_b op c_gt || is_b op c_lt || is_b op c_tilde = true)
    by (destruct Hop as [[-> _]|[[-> _]|[-> _]]]; reflexivity).
  assert (Ec : is_b op c_colon = false) by (destruct Hop as [[-> _]|[[-> _]|[-> _]]]; reflexivity).
  rewrite Et, Ec. cbn [andb negb orb].
  replace (Z.to_nat (zlen (a ++ [op]) - 1)) with (length a) by (rewrite zlen_app; unfold zlen; cbn [length]; lia).
  rewrite firstn_app_exact, A. cbn [negb andb].
  rewrite unpack_value_ser. cbn [fbind].
  destruct Hop as [[-> ->]|[[-> ->]|[-> ->]]]; reflexivity.
Qed.

(* ---- substrings *)
Lemma split_on_plain sep (p l cur : list byte) :
  ~ In sep p -> split_on sep (p ++ l) cur = split_on sep l (rev p ++ cur).
Proof.
  revert cur. induction p as [|x p IH]; intros cur H; [reflexivity|].
  cbn [app split_on]. rewrite is_b_neq by (intros ->; apply H; now left).
  rewrite IH by (intros H1; apply H; now right). cbn [rev]. now rewrite <- app_assoc.
Qed.

Lemma bsplit_join sep ps :
  ps <> [] -> (forall p, In p ps -> ~ In sep p) -> bsplit sep (join_b [sep] ps) = ps.
Proof.
  unfold bsplit. induction ps as [|x ps IH]; intros Hne Hp; [congruence|].
  destruct ps as [|y ps'].
  - cbn [join_b]. rewrite (app_nil_end x) at 1. rewrite split_on_plain by (apply Hp; now left).
    cbn [split_on]. now rewrite app_nil_r, rev_involutive.
  - change (join_b [sep] (x :: y :: ps')) with (x ++ [sep] ++ join_b [sep] (y :: ps')).
    rewrite split_on_plain by (apply Hp; now left). cbn [app split_on]. rewrite is_b_refl.
    rewrite app_nil_r, rev_involutive. f_equal. apply IH; [discriminate|]. intros p H. apply Hp. now right.
Qed.

Lemma esc_nonempty c : esc c <> [].
Proof. unfold esc. destruct (special c); discriminate. Qed.

Lemma ser_value_nil v : ser_value v = [] -> v = [].
Proof.
  rewrite ser_value_spec. destruct v as [|b v]; [reflexivity|]. unfold bn. cbn [map flat_map].
  pose proof (esc_nonempty (b2n b)). destruct (esc (b2n b)); [congruence|discriminate].
Qed.

Definition sub_pieces (ini : option octets) (any : list octets) (fin : option octets) : list (list byte) :=
  [ser_value (opt_or_empty ini)] ++ map ser_value any ++ [ser_value (opt_or_empty fin)].

(* what a well-formed substrings assertion is: something is asserted, nothing asserted is empty *)
Definition wf_sub (ini : option octets) (any : list octets) (fin : option octets) : Prop :=
  ini <> Some [] /\ fin <> Some [] /\ Forall (fun a => a <> []) any /\ ~ (ini = None /\ any = [] /\ fin = None).

Lemma sub_go_middle n off len : forall any idx first vals tail,
  Forall (fun a => a <> []) any -> (0 < idx)%nat -> (idx + length any < n)%nat ->
  sub_go n off len idx (map ser_value any ++ tail) first vals None =
  sub_go n off len (idx + length any) tail first (vals ++ any) None.
Proof.
  unfold octets. induction any as [|a any IH]; intros idx first vals tail Hne Hi Hn.
  - cbn [map app length]. now rewrite Nat.add_0_r, app_nil_r.
  - inversion Hne as [|? ? Ha Hrest]; subst. cbn [map app sub_go length].
    destruct (Nat.eqb_spec idx 0); [lia|]. cbn [length] in Hn. destruct (Nat.eqb_spec idx (n - 1)); [lia|].
    destruct (ser_value a) eqn:E; [apply ser_value_nil in E; congruence|]. rewrite <- E.
    rewrite unpack_value_ser. cbn [fbind]. rewrite IH by (try assumption; lia).
    rewrite <- app_assoc. cbn [app]. f_equal. lia.
Qed.

Lemma unpack_substrings_pieces ini any fin off len :
  wf_sub ini any fin ->
  unpack_substrings (join_b [c_star] (sub_pieces ini any fin)) off len = FOk (ini, any, fin).
Proof.
  intros (Hi & Hf & Ha & _). unfold octets in *. unfold unpack_substrings.
  rewrite bsplit_join.
  2: { unfold sub_pieces. discriminate. }
  2: { intros p Hp. unfold sub_pieces in Hp. cbn [app] in Hp. destruct Hp as [<-|Hp]; [apply star_not_in_ser|].
       apply in_app_or in Hp. destruct Hp as [Hp|[<-|[]]]; [|apply star_not_in_ser].
       apply in_map_iff in Hp. destruct Hp as (x & <- & _). apply star_not_in_ser. }
  unfold sub_pieces. cbn [app].
  set (n := length (ser_value (opt_or_empty ini) :: map ser_value any ++ [ser_value (opt_or_empty fin)])).
  assert (Hn : n = (length any + 2)%nat).
  { unfold n. cbn [length]. rewrite app_length, map_length. cbn [length]. unfold octets. lia. }
  (* first part *)
  assert (First : sub_go n off len 0 (ser_value (opt_or_empty ini) :: map ser_value any ++ [ser_value (opt_or_empty fin)]) None [] None
                  = sub_go n off len 1 (map ser_value any ++ [ser_value (opt_or_empty fin)]) ini [] None).
  { cbn [sub_go Nat.eqb]. destruct ini as [i|]; cbn [opt_or_empty].
    - destruct (ser_value i) eqn:E; [apply ser_value_nil in E; subst i; exfalso; apply Hi; reflexivity|]. rewrite <- E.
      rewrite unpack_value_ser. reflexivity.
    - reflexivity. }
  rewrite First. rewrite sub_go_middle by (try assumption; lia). cbn [app].
  cbn [sub_go]. destruct (Nat.eqb_spec (1 + length any) 0); [lia|].
  destruct (Nat.eqb_spec (1 + length any) (n - 1)); [|lia].
  destruct fin as [f|]; cbn [opt_or_empty].
  - destruct (ser_value f) eqn:E; [apply ser_value_nil in E; subst f; exfalso; apply Hf; reflexivity|]. rewrite <- E.
    rewrite unpack_value_ser. reflexivity.
  - reflexivity.
Qed.

Lemma join_no sep c ps : c <> sep -> (forall p, In p ps -> ~ In c p) -> ~ In c (join_b [sep] ps).
Proof.
  intros Hc. induction ps as [|x ps IH]; intros Hp; [intros []|].
  destruct ps as [|y ps'].
  - cbn [join_b]. apply Hp. now left.
  - change (join_b [sep] (x :: y :: ps')) with (x ++ [sep] ++ join_b [sep] (y :: ps')).
    intros H. apply in_app_or in H. destruct H as [H|H]; [exact (Hp x (or_introl eq_refl) H)|].
    cbn [app] in H. destruct H as [H|H]; [congruence|]. apply IH; [|assumption]. intros p Hq. apply Hp. now right.
Qed.

Lemma sub_pieces_plain c ini any fin :
  special (b2n c) = true -> c <> c_bs -> forall p, In p (sub_pieces ini any fin) -> ~ In c p.
Proof.
  intros S N p Hp. unfold sub_pieces in Hp. cbn [app] in Hp. destruct Hp as [<-|Hp]; [now apply ser_value_no|].
  apply in_app_or in Hp. destruct Hp as [Hp|[<-|[]]]; [|now apply ser_value_no].
  apply in_map_iff in Hp. destruct Hp as (x & <- & _). now apply ser_value_no.
Qed.

Lemma join_has_sep sep x y ps : In sep (join_b [sep] (x :: y :: ps)).
Proof.
  change (join_b [sep] (x :: y :: ps)) with (x ++ [sep] ++ join_b [sep] (y :: ps)).
  apply in_or_app. right. now left.
Qed.

Lemma join_has_sep' sep x (l : list (list byte)) : l <> [] -> In sep (join_b [sep] (x :: l)).
Proof. destruct l as [|y r]; [congruence|]. intros _. apply join_has_sep. Qed.

Lemma snoc_nonempty {A} (l : list A) x : l ++ [x] <> [].
Proof. destruct l; discriminate. Qed.

Lemma join_cons sep x (l : list (list byte)) : l <> [] -> join_b [sep] (x :: l) = x ++ sep :: join_b [sep] l.
Proof. destruct l as [|y r]; [congruence|reflexivity]. Qed.

Lemma sub_text_not_star ini any fin :
  wf_sub ini any fin -> join_b [c_star] (sub_pieces ini any fin) <> [c_star].
Proof.
  intros (Hi & Hf & Ha & Hn) E. unfold sub_pieces in E. cbn [app] in E.
  rewrite join_cons in E by apply snoc_nonempty.
  destruct (ser_value (opt_or_empty ini)) as [|b0 l0] eqn:E1.
  - cbn [app] in E. injection E as E. apply ser_value_nil in E1.
    destruct any as [|a any].
    + cbn [map app join_b] in E. apply ser_value_nil in E. apply Hn. repeat split.
      * destruct ini as [i|]; [|reflexivity]. cbn in E1. subst i. exfalso. apply Hi. reflexivity.
      * destruct fin as [f|]; [|reflexivity]. cbn in E. subst f. exfalso. apply Hf. reflexivity.
    + cbn [map app] in E. rewrite join_cons in E by apply snoc_nonempty.
      destruct (ser_value a); discriminate.
  - cbn [app] in E. injection E as _ E. destruct l0; discriminate.
Qed.

Lemma tail_sub off a ini any fin :
  attr_ok a = true -> wf_sub ini any fin ->
  let val := join_b [c_star] (sub_pieces ini any fin) in
  simple_tail off a val = FOk (FSub a ini any fin, zlen a + 1 + zlen val).
Proof.
  intros A W val. destruct (attr_last_plain a A) as (T1 & T2 & T3 & T4). cbv zeta in *.
  unfold simple_tail. cbv zeta. rewrite T1, T2, T3, T4. cbn [orb andb negb].
  rewrite firstn_zlen, A. cbn [negb andb].
  assert (Hs : mem_b c_star val = true).
  { apply mem_b_in. unfold val, sub_pieces. cbn [app].
    apply join_has_sep'. apply snoc_nonempty. }
  rewrite Hs. cbn [negb fbind].
  assert (E : bytes_eqb val [c_star] = false).
  { destruct (bytes_eqb val [c_star]) eqn:E; [|reflexivity]. apply bytes_eqb_eq in E. exfalso. exact (sub_text_not_star ini any fin W E). }
  rewrite E. unfold val. rewrite unpack_substrings_pieces by assumption. reflexivity.
Qed.

(* ---- extensible match *)
Definition ext_headers (rule attr : option str) (dn : bool) : list (list byte) :=
  [opt_or_empty attr] ++ (if dn then [dn_lit] else []) ++ (match rule with Some r => [r] | None => [] end).

Definition opt_attr_ok (o : option str) : Prop := match o with Some a => attr_ok a = true | None => True end.

(* the RFC 4515 side conditions: something to match against, and a rule named "dn" only after :dn *)
Definition wf_ext (rule attr : option str) (dn : bool) : Prop :=
  opt_attr_ok attr /\ opt_attr_ok rule /\ (dn = false -> rule <> Some dn_lit) /\
  ~ (attr = None /\ rule = None /\ dn = false).

Lemma ext_headers_plain c rule attr dn :
  wf_ext rule attr dn -> attr_char c = false -> ~ In c dn_lit -> forall p, In p (ext_headers rule attr dn) -> ~ In c p.
Proof.
  intros (Wa & Wr & _) C D p Hp. unfold ext_headers in Hp. cbn [app] in Hp. destruct Hp as [<-|Hp].
  - destruct attr as [a|]; cbn [opt_or_empty]; [now apply attr_no|intros []].
  - apply in_app_or in Hp. destruct Hp as [Hp|Hp].
    + destruct dn; [|destruct Hp]. destruct Hp as [<-|[]]. exact D.
    + destruct rule as [r|]; [|destruct Hp]. destruct Hp as [<-|[]]. now apply attr_no.
Qed.

Lemma dn_lit_plain : ~ In c_colon dn_lit /\ ~ In c_eq dn_lit.
Proof. split; intros [H|[H|[]]]; discriminate. Qed.

Lemma dn_lit_ok : attr_ok dn_lit = true.
Proof. vm_compute. reflexivity. Qed.

Lemma ext_header_rt rule attr dn off len :
  wf_ext rule attr dn ->
  unpack_ext_header (join_b [c_colon] (ext_headers rule attr dn)) off len = FOk (attr, dn, rule).
Proof.
  intros W. pose proof W as (Wa & Wr & Wd & _). unfold unpack_ext_header.
  destruct structural_not_attr as (_ & _ & _ & _ & Cc & _).
  rewrite bsplit_join.
  2: { unfold ext_headers. discriminate. }
  2: { apply (ext_headers_plain c_colon rule attr dn W Cc). apply dn_lit_plain. }
  unfold ext_headers. cbn [app].
  assert (H0 : (match opt_or_empty attr with
                | [] => FOk None
                | _ => if attr_ok (opt_or_empty attr) then FOk (Some (opt_or_empty attr)) else FErr (FSyn off len)
                end) = FOk attr).
  { destruct attr as [a|]; cbn [opt_or_empty]; [|reflexivity]. unfold opt_attr_ok in Wa. rewrite Wa.
    pose proof (attr_ok_nonempty a Wa). destruct a; [congruence|reflexivity]. }
  rewrite H0. cbn [fbind].
  destruct dn.
  - cbn [app]. assert (E : bytes_eqb dn_lit dn_lit = true) by now apply bytes_eqb_eq. rewrite E.
    destruct rule as [r|]; cbn [app fbind]; [unfold opt_attr_ok in Wr; rewrite Wr|]; reflexivity.
  - cbn [app]. destruct rule as [r|]; cbn [app fbind].
    + assert (E : bytes_eqb r dn_lit = false).
      { destruct (bytes_eqb r dn_lit) eqn:E; [|reflexivity]. apply bytes_eqb_eq in E. subst r. exfalso. now apply Wd. }
      rewrite E. unfold opt_attr_ok in Wr. rewrite Wr. reflexivity.
    + reflexivity.
Qed.

Lemma ext_join_nonempty rule attr dn : wf_ext rule attr dn -> join_b [c_colon] (ext_headers rule attr dn) <> [].
Proof.
  intros (Wa & Wr & _ & Wn) E. unfold ext_headers in E. cbn [app] in E.
  destruct dn.
  - cbn [app] in E. rewrite join_cons in E by discriminate. destruct (opt_or_empty attr); discriminate.
  - cbn [app] in E. destruct rule as [r|].
    + rewrite join_cons in E by discriminate. destruct (opt_or_empty attr); discriminate.
    + cbn [join_b] in E. destruct attr as [a|]; [|apply Wn; repeat split; reflexivity].
      cbn in E. unfold opt_attr_ok in Wa. apply (attr_ok_nonempty a Wa E).
Qed.

Lemma tail_ext off rule attr dn v :
  wf_ext rule attr dn ->
  let hdr := join_b [c_colon] (ext_headers rule attr dn) ++ [c_colon] in
  simple_tail off hdr (ser_value v) = FOk (FExt rule attr v dn, zlen hdr + 1 + zlen (ser_value v)).
Proof.
  intros W hdr. unfold simple_tail. cbv zeta. unfold hdr. rewrite last_last.
  change (is_b c_colon c_colon) with true. cbn [orb andb negb].
  replace (Z.to_nat (zlen (join_b [c_colon] (ext_headers rule attr dn) ++ [c_colon]) - 1))
    with (length (join_b [c_colon] (ext_headers rule attr dn))) by (rewrite zlen_app; unfold zlen; cbn [length]; lia).
  rewrite firstn_app_exact. rewrite unpack_value_ser. cbn [fbind].
  rewrite ext_header_rt by assumption. reflexivity.
Qed.
