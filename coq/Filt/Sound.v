(* C15, soundness: whatever LDAPFilter.from_string accepts is a filter that its own text form
   represents faithfully -- valid attribute descriptions, and str() of the result parses back to it. *)
From Coq Require Import ZArith NArith List Bool Lia ZifyBool.
From Coq.Strings Require Import Byte.
From SV Require Import Base.Bytes Base.Py Rx.Syntax Rx.Lemmas Gen.Generated Msg.Types Filt.Text Filt.Value Filt.Simple
  Filt.RoundTrip Filt.Total.
Import ListNotations.
Local Open Scope Z_scope.

Lemma fbind_inv {A B} (m : fres A) (k : A -> fres B) b :
  fbind m k = FOk b -> exists a, m = FOk a /\ k a = FOk b.
Proof. destruct m as [a|e]; cbn [fbind]; [eauto|discriminate]. Qed.

(* ---- unescaping never produces an empty value from a non-empty text *)
Lemma unescape_repl_single m out : unescape_repl m = Some out -> exists x, out = [x].
Proof.
  unfold unescape_repl. destruct m as [|c rest]; [discriminate|].
  destruct (anchored_match rx_hex rx_hex_end rest); [|discriminate].
  destruct rest as [|h [|l [|? ?]]]; try discriminate.
  destruct (hexval h); [|discriminate]. destruct (hexval l); [|discriminate]. intros H. injection H as <-. eauto.
Qed.

Lemma re_sub_nonempty : forall f c s out,
  re_sub_loop f rx_ldap_escape unescape_repl (c :: s) = Some (Some out) -> out <> [].
Proof.
  intros f c s out. destruct f as [|f]; [discriminate|]. rewrite re_sub_loop_cons. cbv zeta.
  destruct (bt _ rx_ldap_escape (c :: s) 0 [] _) as [| |[|e] cs]; [discriminate| | |].
  - destruct (re_sub_loop f _ _ s) as [[r|]|]; intros H; inversion H; discriminate.
  - destruct (re_sub_loop f _ _ s) as [[r|]|]; intros H; inversion H; discriminate.
  - destruct (unescape_repl _) as [o|] eqn:E; [|discriminate].
    destruct (unescape_repl_single _ _ E) as (x & ->).
    destruct (re_sub_loop f _ _ _) as [[r|]|]; intros H; inversion H; discriminate.
Qed.

Lemma unpack_value_nonempty raw off len u : unpack_value raw off len = FOk u -> raw <> [] -> u <> [].
Proof.
  unfold unpack_value, re_sub. intros H Hne. destruct raw as [|b raw]; [congruence|].
  unfold bn in H. cbn [map] in H.
  destruct (re_sub_loop _ _ _ _) as [[out|]|] eqn:E; try discriminate. injection H as <-.
  apply re_sub_nonempty in E. destruct out; [congruence|discriminate].
Qed.

(* ---- split / join *)
Lemma join_split_on sep : forall l cur, join_b [sep] (split_on sep l cur) = rev cur ++ l.
Proof.
  induction l as [|c r IH]; intros cur; cbn [split_on].
  - cbn [join_b]. now rewrite app_nil_r.
  - destruct (is_b c sep) eqn:E.
    + apply byte_eqb_eq in E. subst c.
      rewrite join_cons by apply split_on_nonempty. rewrite IH. reflexivity.
    + rewrite IH. cbn [rev]. rewrite <- app_assoc. reflexivity.
Qed.

Lemma join_bsplit sep l : join_b [sep] (bsplit sep l) = l.
Proof. unfold bsplit. now rewrite join_split_on. Qed.

Lemma split_on_length sep : forall l cur, In sep l -> (2 <= length (split_on sep l cur))%nat.
Proof.
  induction l as [|c r IH]; intros cur H; [destruct H|]. cbn [split_on]. destruct (is_b c sep) eqn:E.
  - cbn [length]. pose proof (split_on_nonempty sep r []). destruct (split_on sep r []); [congruence|cbn [length]; lia].
  - destruct H as [->|H]; [rewrite is_b_refl in E; discriminate|]. now apply IH.
Qed.

Lemma list_ends {A} (l : list A) : (2 <= length l)%nat -> exists a mid z, l = a :: mid ++ [z].
Proof.
  intros H. destruct l as [|a l]; [cbn in H; lia|]. destruct l as [|b l] using rev_ind; [cbn in H; lia|].
  exists a, l, b. reflexivity.
Qed.

(* ---- the substrings loop on  p0 * m1 * ... * mk * pl *)
Definition nonempty_all (l : list octets) : Prop := Forall (fun a => a <> []) l.

Lemma sub_go_mids n off len : forall mids idx first vals tail i a f,
  (0 < idx)%nat -> (idx + length mids < n - 1)%nat \/ (idx + length mids = n - 1)%nat ->
  sub_go n off len idx (mids ++ tail) first vals None = FOk (i, a, f) ->
  exists us, length us = length mids /\ nonempty_all us /\
             sub_go n off len (idx + length mids) tail first (vals ++ us) None = FOk (i, a, f).
Proof.
  induction mids as [|m mids IH]; intros idx first vals tail i a f Hi Hn H.
  - exists []. cbn [length app] in *. rewrite Nat.add_0_r, app_nil_r. repeat split; [constructor|exact H].
  - cbn [app sub_go length] in *. destruct (Nat.eqb_spec idx 0); [lia|]. destruct (Nat.eqb_spec idx (n - 1)); [lia|].
    destruct m as [|b m']; [discriminate|].
    apply fbind_inv in H. destruct H as (u & Eu & H).
    apply unpack_value_nonempty in Eu; [|discriminate].
    apply IH in H; [|lia|lia]. destruct H as (us & Hl & Hne & H).
    exists (u :: us). cbn [length]. split; [lia|]. split; [constructor; assumption|].
    rewrite <- app_assoc in H. cbn [app] in H. replace (idx + S (length mids))%nat with (S idx + length mids)%nat by lia. exact H.
Qed.

Lemma sub_go_shape off len p0 mids pl i a f :
  sub_go (length mids + 2) off len 0 (p0 :: mids ++ [pl]) None [] None = FOk (i, a, f) ->
  (i <> Some []) /\ (f <> Some []) /\ nonempty_all a /\ length a = length mids /\
  (p0 <> [] -> i <> None) /\ (pl <> [] -> f <> None).
Proof.
  set (n := (length mids + 2)%nat). cbn [sub_go Nat.eqb].
  assert (Mid : forall first, (first <> Some []) ->
            sub_go n off len 1 (mids ++ [pl]) first [] None = FOk (i, a, f) ->
            i = first /\ (f <> Some []) /\ nonempty_all a /\ length a = length mids /\ (pl <> [] -> f <> None)).
  { intros first Hf H. apply sub_go_mids in H; [|lia|right; unfold n; lia].
    destruct H as (us & Hl & Hne & H). cbn [app sub_go] in H.
    destruct (Nat.eqb_spec (1 + length mids) 0); [lia|]. destruct (Nat.eqb_spec (1 + length mids) (n - 1)); [|unfold n in *; lia].
    destruct pl as [|b pl'].
    - cbn [sub_go] in H. injection H as <- <- <-. repeat split; auto; congruence.
    - apply fbind_inv in H. destruct H as (u & Eu & H). cbn [sub_go] in H. injection H as <- <- <-.
      apply unpack_value_nonempty in Eu; [|discriminate]. repeat split; auto; congruence. }
  destruct p0 as [|b p0'].
  - intros H. apply Mid in H; [|discriminate]. destruct H as (-> & H2 & H3 & H4 & H5). repeat split; auto; congruence.
  - intros H. apply fbind_inv in H. destruct H as (u & Eu & H).
    apply unpack_value_nonempty in Eu; [|discriminate].
    apply Mid in H; [|congruence]. destruct H as (-> & H2 & H3 & H4 & H5). repeat split; auto; congruence.
Qed.

Lemma unpack_substrings_sound value off len i a f :
  In c_star value -> value <> [c_star] ->
  unpack_substrings value off len = FOk (i, a, f) -> wf_sub i a f.
Proof.
  intros Hs Hne H. unfold unpack_substrings in H.
  pose proof (split_on_length c_star value [] Hs) as Hl. fold (bsplit c_star value) in Hl.
  destruct (list_ends _ Hl) as (p0 & mids & pl & E). rewrite E in H.
  replace (length (p0 :: mids ++ [pl])) with (length mids + 2)%nat in H by (cbn [length]; rewrite app_length; cbn [length]; lia).
  apply sub_go_shape in H. destruct H as (H1 & H2 & H3 & H4 & H5 & H6).
  split; [assumption|]. split; [assumption|]. split; [assumption|].
  intros (-> & -> & ->). cbn [length] in H4. destruct mids; [|discriminate].
  apply Hne. rewrite <- (join_bsplit c_star value), E. cbn [app].
  destruct p0; [|exfalso; apply H5; [discriminate|reflexivity]].
  destruct pl; [|exfalso; apply H6; [discriminate|reflexivity]]. reflexivity.
Qed.

(* ---- the extensible-match header *)
Lemma ext_header_sound header off len a dn rule :
  header <> [] -> unpack_ext_header header off len = FOk (a, dn, rule) -> wf_ext rule a dn.
Proof.
  intros Hne. unfold unpack_ext_header.
  pose proof (join_bsplit c_colon header) as J.
  destruct (bsplit c_colon header) as [|h0 rest] eqn:E; [discriminate|].
  intros H. apply fbind_inv in H. destruct H as (attr & Ea & H).
  assert (Wa : opt_attr_ok attr /\ (attr = None -> h0 = [])).
  { destruct h0 as [|b h0']; [injection Ea as <-; split; [exact I|reflexivity]|].
    destruct (attr_ok (b :: h0')) eqn:A; [|discriminate]. injection Ea as <-. split; [exact A|discriminate]. }
  destruct Wa as [Wa Wa0].
  destruct rest as [|x r].
  - cbn [fbind] in H. injection H as <- <- <-. repeat split; auto; try discriminate.
    intros (Ha & _ & _). rewrite (Wa0 Ha) in J. cbn in J. congruence.
  - destruct (bytes_eqb x dn_lit) eqn:Ex.
    + destruct r as [|y r']; cbn [fbind] in H.
      * injection H as <- <- <-. repeat split; auto; try discriminate. intros (_ & _ & D). discriminate.
      * destruct (attr_ok y) eqn:Ay; [|discriminate]. cbn [fbind] in H. destruct r'; [|discriminate].
        injection H as <- <- <-. repeat split; auto; try discriminate. intros (_ & D & _). discriminate.
    + destruct (attr_ok x) eqn:Ax; [|discriminate]. cbn [fbind] in H. destruct r; [|discriminate].
      injection H as <- <- <-. repeat split; auto.
      * intros _ D. injection D as D. subst x. assert (T : bytes_eqb dn_lit dn_lit = true) by now apply bytes_eqb_eq. congruence.
      * intros (_ & D & _). discriminate.
Qed.

(* ---- one simple item *)
Lemma find_b_upper c : forall l i, find_b c l i = -1 \/ find_b c l i < i + zlen l.
Proof.
  induction l as [|x l IHl]; intros j; cbn [find_b]; [now left|].
  destruct (is_b x c); [right; rewrite zlen_cons; pose proof (zlen_nonneg l); lia|].
  destruct (IHl (j + 1)) as [G|G]; [now left|right; rewrite zlen_cons; lia].
Qed.

Lemma firstn_nonempty {A} (l : list A) n : (0 < n)%nat -> l <> [] -> firstn n l <> [].
Proof. destruct n; [lia|]. destruct l; [congruence|discriminate]. Qed.

Lemma unpack_simple_sound view off len f n :
  unpack_simple view off len = FOk (f, n) -> wf_tfilter f /\ is_simple f = true.
Proof.
  unfold unpack_simple. cbv zeta.
  set (cur := sl view off len). set (eq := find_b c_eq cur 0).
  destruct (find_b_range c_eq cur 0) as [E|E]; fold eq in E; [rewrite E; cbn; discriminate|].
  destruct (eq =? 0) eqn:E0; [discriminate|]. destruct (eq =? -1) eqn:E1; [discriminate|].
  destruct (eq =? len - 1); [discriminate|].
  set (ft := at_ cur (eq - 1)).
  set (typed := is_b ft c_colon || is_b ft c_gt || is_b ft c_lt || is_b ft c_tilde).
  destruct (typed && (eq =? 1)) eqn:T1; [discriminate|].
  set (attribute_end := if typed then eq - 1 else eq).
  set (attribute := sl cur 0 attribute_end).
  destruct (negb (typed && is_b ft c_colon) && negb (attr_ok attribute)) eqn:Chk; [discriminate|].
  set (tail := skipn (Z.to_nat (eq + 1)) cur). set (rp := find_b c_rp tail 0).
  set (vl := if rp =? -1 then zlen tail else rp).
  set (raw := sl cur (eq + 1) vl).
  intros H. apply fbind_inv in H. destruct H as (bv & Ebv & H).
  destruct typed eqn:Ty.
  - destruct (is_b ft c_colon) eqn:Col.
    + apply fbind_inv in H. destruct H as ([[a dn] rule] & Eh & H). injection H as <- _.
      split; [|reflexivity]. constructor. apply (ext_header_sound attribute off attribute_end); [|exact Eh].
      (* the header is not empty: the '=' is not at position 1 *)
      unfold attribute, attribute_end. intros En.
      assert (Hl : 1 <= eq - 1) by (cbn [andb] in T1; lia).
      unfold sl in En. cbn [Z.to_nat skipn] in En.
      assert (Hc : (Z.to_nat eq <= length cur)%nat).
      { destruct (find_b_upper c_eq cur 0) as [G|G]; fold eq in G; [clear - G E1; lia|]. unfold zlen in G. clear - G E. lia. }
      assert (Hf : length (firstn (Z.to_nat (eq - 1)) cur) = Z.to_nat (eq - 1)) by (apply firstn_length_le; clear - Hc Hl; lia).
      rewrite En in Hf. cbn [length] in Hf. clear - Hf Hl. lia.
    + cbn [andb negb] in Chk. apply negb_false_iff in Chk.
      destruct (is_b ft c_gt); [injection H as <- _; split; [now constructor|reflexivity]|].
      destruct (is_b ft c_lt); [injection H as <- _; split; [now constructor|reflexivity]|].
      injection H as <- _; split; [now constructor|reflexivity].
  - cbn [andb negb] in Chk. apply negb_false_iff in Chk. cbn [orb] in Ebv.
    destruct (bytes_eqb raw [c_star]) eqn:Es; [injection H as <- _; split; [now constructor|reflexivity]|].
    destruct (mem_b c_star raw) eqn:Ms.
    + cbn [negb] in Ebv. injection Ebv as <-.
      apply fbind_inv in H. destruct H as ([[i a] fi] & Eh & H). injection H as <- _.
      split; [|reflexivity]. constructor; [exact Chk|].
      apply (unpack_substrings_sound raw (off + (eq + 1)) vl); [now apply mem_b_in| |exact Eh].
      intros En. rewrite En in Es. cbn in Es. discriminate.
    + injection H as <- _. split; [now constructor|reflexivity].
Qed.

(* ---- the loops *)
Definition good (D : nat) (r : fres (filter * Z)) : Prop :=
  forall f n, r = FOk (f, n) -> wf_tfilter f /\ (tdepth f <= D)%nat.

Lemma filter_loop_sound cplx view off len cur n D :
  (1 <= D)%nat -> (forall o l, good D (cplx o l)) ->
  forall fuel read parens parsed,
  (forall g, parsed = Some g -> wf_tfilter g /\ (tdepth g <= D)%nat) ->
  good D (filter_loop cplx view off len cur n fuel read parens parsed).
Proof.
  intros HD Hc.
  assert (Fin : forall read parens parsed, (forall g, parsed = Some g -> wf_tfilter g /\ (tdepth g <= D)%nat) ->
            good D (finish_filter off len read parens parsed)).
  { intros read parens parsed Hp f r. unfold finish_filter. destruct parens; [discriminate|].
    destruct parsed as [g|]; [|discriminate]. intros H. injection H as <- _. now apply Hp. }
  assert (Simple : forall o l, good D (unpack_simple view o l)).
  { intros o l f r H. destruct (unpack_simple_sound _ _ _ _ _ H) as [W S]. split; [assumption|].
    destruct f; try discriminate; cbn [tdepth]; lia. }
  induction fuel as [|fu IH]; intros read parens parsed Hp; cbn [filter_loop]; [intros f r; discriminate|].
  destruct (n <=? read); [now apply Fin|].
  destruct (is_b (at_ cur read) c_sp); [now apply IH|].
  destruct (is_b (at_ cur read) c_rp).
  { destruct parens; [now apply Fin|intros f r; discriminate]. }
  destruct parens as [p|].
  - destruct (is_b (at_ cur read) c_lp); [intros f r; discriminate|].
    set (sub := if is_b (at_ cur read) c_bang || is_b (at_ cur read) c_amp || is_b (at_ cur read) c_bar
                then cplx (off + read) (len - read) else unpack_simple view (off + read) (len - read)).
    assert (Hs : good D sub) by (unfold sub; destruct (_ || _); [apply Hc|apply Simple]).
    intros f r H. apply fbind_inv in H. destruct H as ([g sr] & Es & H).
    revert H. apply IH. intros g0 E. injection E as <-. exact (Hs g sr Es).
  - destruct (is_b (at_ cur read) c_lp); [now apply IH|].
    intros f r H. apply fbind_inv in H. destruct H as ([g sr] & Es & H).
    revert H. apply Fin. intros g0 E. injection E as <-. exact (Simple _ _ g sr Es).
Qed.

Lemma fold_max_le D fs : Forall (fun g => (tdepth g <= D)%nat) fs -> (fold_right (fun g m => Nat.max (tdepth g) m) 0%nat fs <= D)%nat.
Proof. induction 1; cbn [fold_right]; lia. Qed.

Lemma complex_loop_sound uf off len cur n ct D :
  (forall o l, good D (uf o l)) ->
  forall fuel read fs,
  Forall (fun g => wf_tfilter g /\ (tdepth g <= D)%nat) fs ->
  good (S (S D)) (complex_loop uf off len cur n ct fuel read fs).
Proof.
  intros Hu.
  assert (Fin : forall read fs, Forall (fun g => wf_tfilter g /\ (tdepth g <= D)%nat) fs ->
            good (S (S D)) (finish_complex off len ct read fs)).
  { intros read fs Hfs f r. unfold finish_complex. destruct fs as [|f0 fs']; [discriminate|].
    assert (Hw : Forall wf_tfilter (f0 :: fs')) by (eapply Forall_impl; [|exact Hfs]; cbv beta; tauto).
    assert (Hd : Forall (fun g => (tdepth g <= D)%nat) (f0 :: fs')) by (eapply Forall_impl; [|exact Hfs]; cbv beta; tauto).
    pose proof (fold_max_le D _ Hd) as Hm.
    destruct (is_b ct c_bang); [|destruct (is_b ct c_amp)]; intros H; injection H as <- _.
    - inversion Hfs as [|? ? [W0 D0] _]; subst. split; [now constructor|cbn [tdepth]; lia].
    - split; [constructor; [discriminate|assumption]|cbn [tdepth]; lia].
    - split; [constructor; [discriminate|assumption]|cbn [tdepth]; lia]. }
  induction fuel as [|fu IH]; intros read fs Hfs; cbn [complex_loop]; [intros f r; discriminate|].
  destruct (n <=? read); [now apply Fin|].
  destruct (is_b (at_ cur read) c_sp); [now apply IH|].
  destruct (is_b (at_ cur read) c_lp).
  - assert (Step : good (S (S D)) ('(f, r) <-f uf (off + read) (len - read - 1) ;;
                                   complex_loop uf off len cur n ct fu (read + r) (fs ++ [f]))).
    { intros f r H. apply fbind_inv in H. destruct H as ([g sr] & Eg & H). revert H. apply IH.
      apply Forall_app. split; [assumption|]. constructor; [exact (Hu _ _ g sr Eg)|constructor]. }
    destruct fs as [|f0 fs']; [exact Step|]. destruct (is_b ct c_bang); [intros f r; discriminate|exact Step].
  - destruct (is_b (at_ cur read) c_rp); [now apply Fin|intros f r; discriminate].
Qed.

Theorem unpack_sound : forall d view off len,
  good d (unpack_filter d view off len) /\ good (S d) (unpack_complex d view off len).
Proof.
  induction d as [|d' IH]; intros view off len.
  - split; intros f r; cbn; discriminate.
  - split; cbn [unpack_filter unpack_complex].
    + apply filter_loop_sound; [lia| |intros g; discriminate].
      intros o l. apply IH.
    + destruct d' as [|d''].
      * (* the children cannot be parsed at all *)
        apply (complex_loop_sound _ _ _ _ _ _ 0); [|constructor]. intros o l f r. cbn. discriminate.
      * assert (G : good (S (S d'')) (complex_loop (unpack_filter (S d'') view) off len (sl view off len) (zlen (sl view off len))
                                        (at_ (sl view off len) 0) (S (length (sl view off len))) 1 []) ->
                    good (S (S (S d''))) (complex_loop (unpack_filter (S d'') view) off len (sl view off len) (zlen (sl view off len))
                                        (at_ (sl view off len) 0) (S (length (sl view off len))) 1 [])).
        { intros H f r E. destruct (H f r E). split; [assumption|lia]. }
        intros f r E.
        pose proof (complex_loop_sound (unpack_filter (S d'') view) off len (sl view off len) (zlen (sl view off len))
                      (at_ (sl view off len) 0) (S d'') (fun o l => proj1 (IH view o l)) (S (length (sl view off len))) 1 []
                      (Forall_nil _) f r E) as [W Dp].
        split; [assumption|lia].
Qed.

Theorem from_bytes_sound d b f : from_bytes d b = FOk f -> wf_tfilter f /\ (tdepth f <= d)%nat.
Proof.
  unfold from_bytes. destruct (unpack_filter d b 0 (zlen b)) as [[g c]|[o l|k]] eqn:E.
  - destruct (c <? zlen b); [discriminate|]. intros H. injection H as <-. exact (proj1 (unpack_sound d b 0 (zlen b)) g c E).
  - discriminate.
  - destruct k; discriminate.
Qed.

Theorem from_string_sound d s f : from_string d s = FOk f -> wf_tfilter f /\ (tdepth f <= d)%nat.
Proof.
  unfold from_string. destruct (encode_se (strip s) 0) as [b|[st ln]]; [apply from_bytes_sound|discriminate].
Qed.

(* whatever is accepted parses back from its own text form to itself *)
Theorem accepted_filters_reparse d s f :
  from_string d s = FOk f -> from_string d (bn (print_filter f)) = FOk f.
Proof. intros H. destruct (from_string_sound d s f H) as [W D]. now apply from_string_str. Qed.
