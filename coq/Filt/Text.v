(* Model of the RFC 4515 text side of _filter.py: LDAPFilter.from_string (recursive descent over
   the UTF-8 octets with absolute offsets and relative lengths, exactly as written) and __str__ of
   every filter type.  Attribute descriptions and escapes go through the GENERATED regexes. *)
From Coq Require Import ZArith NArith List Bool.
From Coq.Strings Require Import Byte.
From SV Require Import Base.Bytes Base.Py Rx.Syntax Gen.Generated Msg.Types.
Import ListNotations.
Local Open Scope Z_scope.

(* outcome of the parser: FilterSyntaxError(offset, length) or something the library never intends *)
Inductive ferr := FSyn (off len : Z) | FCrash (k : crash).
Inductive fres (A : Type) := FOk (a : A) | FErr (e : ferr).
Arguments FOk {A} a.
Arguments FErr {A} e.
Definition fbind {A B} (m : fres A) (f : A -> fres B) : fres B :=
  match m with FOk a => f a | FErr e => FErr e end.
Notation "x <-f m ;; k" := (fbind m (fun x => k)) (at level 61, m at next level, right associativity).
Notation "' p <-f m ;; k" := (fbind m (fun p => k)) (at level 61, p pattern, m at next level, right associativity).

Definition bn (l : list byte) : list N := map b2n l.
Definition zlen {A} (l : list A) : Z := Z.of_nat (length l).

(* view[offset : offset + length] for non-negative offset/length (Python clamps at the end) *)
Definition sl (view : list byte) (off len : Z) : list byte :=
  firstn (Z.to_nat len) (skipn (Z.to_nat off) view).
Definition at_ (l : list byte) (i : Z) : byte := nth (Z.to_nat i) l x00.

Definition c_sp := x20.  Definition c_lp := x28.  Definition c_rp := x29.  Definition c_star := x2a.
Definition c_eq := x3d.  Definition c_bs := x5c.  Definition c_colon := x3a.
Definition c_bang := x21. Definition c_amp := x26. Definition c_bar := x7c.
Definition c_gt := x3e.  Definition c_lt := x3c.  Definition c_tilde := x7e.
Definition is_b (a b : byte) : bool := byte_eqb a b.

(* ---- regex applications *)
Definition attr_ok (a : list byte) : bool := anchored_match rx_attribute rx_attribute_end (bn a).

Definition hexval (c : N) : option N :=
  if ((48 <=? c) && (c <=? 57))%N then Some (c - 48)%N
  else if ((97 <=? c) && (c <=? 102))%N then Some (c - 87)%N
  else if ((65 <=? c) && (c <=? 70))%N then Some (c - 55)%N
  else None.

(* rplcr of _unpack_filter_value: group(1)[1:] must fully match _HEX_PATTERN, then b16decode *)
Definition unescape_repl (m : list N) : option (list N) :=
  match m with
  | _ :: rest =>
      if anchored_match rx_hex rx_hex_end rest then
        match rest with
        | [h; l] => match hexval h, hexval l with Some a, Some b => Some [(a * 16 + b)%N] | _, _ => None end
        | _ => None
        end
      else None
  | [] => None
  end.

(* _unpack_filter_value *)
Definition unpack_value (raw : list byte) (off len : Z) : fres (list byte) :=
  match re_sub rx_ldap_escape unescape_repl (bn raw) with
  | None => FErr (FCrash OutOfFuel)
  | Some None => FErr (FSyn off len)
  | Some (Some out) => FOk (map n2b out)
  end.

(* bytes.split(sep) *)
Fixpoint split_on (sep : byte) (l : list byte) (cur : list byte) : list (list byte) :=
  match l with
  | [] => [rev cur]
  | c :: r => if is_b c sep then rev cur :: split_on sep r [] else split_on sep r (c :: cur)
  end.
Definition bsplit (sep : byte) (l : list byte) : list (list byte) := split_on sep l [].

Definition mem_b (c : byte) (l : list byte) : bool := existsb (is_b c) l.

(* _unpack_filter_substrings_value: the loop over the '*'-separated parts ([n] parts in all) *)
Fixpoint sub_go (n : nat) (off len : Z) (idx : nat) (ps : list (list byte)) (first : option (list byte))
                (vals : list (list byte)) (fin : option (list byte)) {struct ps}
  : fres (option (list byte) * list (list byte) * option (list byte)) :=
  match ps with
  | [] => FOk (first, vals, fin)
  | v :: rest =>
      if Nat.eqb idx 0 then
        match v with
        | [] => sub_go n off len (S idx) rest first vals fin
        | _ => u <-f unpack_value v off len ;; sub_go n off len (S idx) rest (Some u) vals fin
        end
      else if Nat.eqb idx (n - 1) then
        match v with
        | [] => sub_go n off len (S idx) rest first vals fin
        | _ => u <-f unpack_value v off len ;; sub_go n off len (S idx) rest first vals (Some u)
        end
      else
        match v with
        | [] => FErr (FSyn off len)
        | _ => u <-f unpack_value v off len ;; sub_go n off len (S idx) rest first (vals ++ [u]) fin
        end
  end.

Definition unpack_substrings (value : list byte) (off len : Z)
  : fres (option (list byte) * list (list byte) * option (list byte)) :=
  let parts := bsplit c_star value in
  sub_go (length parts) off len 0%nat parts None [] None.

(* _unpack_filter_extensible_header *)
Definition dn_lit : list byte := [x64; x6e].
Definition unpack_ext_header (header : list byte) (off len : Z)
  : fres (option (list byte) * bool * option (list byte)) :=
  match bsplit c_colon header with
  | [] => FErr (FCrash IndexErr)
  | h0 :: rest =>
      attr <-f (match h0 with
                | [] => FOk None
                | _ => if attr_ok h0 then FOk (Some h0) else FErr (FSyn off len)
                end) ;;
      let '(for_dn, rest) :=
        match rest with
        | x :: r => if bytes_eqb x dn_lit then (true, r) else (false, rest)
        | [] => (false, rest)
        end in
      '(rule, rest) <-f (match rest with
                          | x :: r => if attr_ok x then FOk (Some x, r) else FErr (FSyn off len)
                          | [] => FOk (None, rest)
                          end) ;;
      match rest with
      | _ :: _ => FErr (FSyn off len)
      | [] => FOk (attr, for_dn, rule)
      end
  end.

(* index of the first c in l, or -1 *)
Fixpoint find_b (c : byte) (l : list byte) (i : Z) : Z :=
  match l with
  | [] => -1
  | x :: r => if is_b x c then i else find_b c r (i + 1)
  end.

(* _unpack_simple_filter *)
Definition unpack_simple (view : list byte) (off len : Z) : fres (filter * Z) :=
  let cur := sl view off len in
  let equals_idx := find_b c_eq cur 0 in
  if equals_idx =? 0 then FErr (FSyn off 1)
  else if equals_idx =? -1 then FErr (FSyn off len)
  else if equals_idx =? len - 1 then FErr (FSyn off len)
  else
    let ft := at_ cur (equals_idx - 1) in
    let typed := is_b ft c_colon || is_b ft c_gt || is_b ft c_lt || is_b ft c_tilde in
    if typed && (equals_idx =? 1) then FErr (FSyn off len)
    else
      let attribute_end := if typed then equals_idx - 1 else equals_idx in
      let attribute := sl cur 0 attribute_end in
      if negb (typed && is_b ft c_colon) && negb (attr_ok attribute) then FErr (FSyn off attribute_end)
      else
        let read := equals_idx + 1 in
        let value_offset := off + read in
        let tail := skipn (Z.to_nat read) cur in
        let rp := find_b c_rp tail 0 in
        let value_length := if rp =? -1 then zlen tail else rp in
        let raw := sl cur read value_length in
        let read := read + value_length in
        b_value <-f (if typed || negb (mem_b c_star raw) then unpack_value raw value_offset value_length
                     else FOk raw) ;;
        if typed then
          if is_b ft c_colon then
            '(a, dn, rule) <-f unpack_ext_header attribute off attribute_end ;;
            FOk (FExt rule a b_value dn, read)
          else if is_b ft c_gt then FOk (FGe attribute b_value, read)
          else if is_b ft c_lt then FOk (FLe attribute b_value, read)
          else FOk (FApprox attribute b_value, read)
        else if bytes_eqb raw [c_star] then FOk (FPresent attribute, read)
        else if mem_b c_star raw then
          '(first, vals, fin) <-f unpack_substrings b_value value_offset value_length ;;
          FOk (FSub attribute first vals fin, read)
        else FOk (FEq attribute b_value, read).

(* _unpack_filter / _unpack_complex_filter: mutual recursion, [d] = remaining Python recursion
   budget (one unit per pair of frames).  The two while-loops are written as functions of the
   recursive call they make. *)
Definition finish_filter (off len read : Z) (parens : option Z) (parsed : option filter) : fres (filter * Z) :=
  match parens with
  | Some p => FErr (FSyn (off + p) (len - p))
  | None => match parsed with
            | None => FErr (FSyn off len)
            | Some f => FOk (f, read)
            end
  end.

Fixpoint filter_loop (cplx : Z -> Z -> fres (filter * Z)) (view : list byte) (off len : Z) (cur : list byte) (n : Z)
                     (fuel : nat) (read : Z) (parens : option Z) (parsed : option filter) {struct fuel}
  : fres (filter * Z) :=
  match fuel with
  | O => FErr (FCrash OutOfFuel)
  | S fu =>
      if n <=? read then finish_filter off len read parens parsed
      else
        let ch := at_ cur read in
        if is_b ch c_sp then filter_loop cplx view off len cur n fu (read + 1) parens parsed
        else if is_b ch c_rp then
          match parens with
          | None => FErr (FSyn (off + read) 1)
          | Some _ => finish_filter off len (read + 1) None parsed
          end
        else
          match parens with
          | Some _ =>
              if is_b ch c_lp then FErr (FSyn (off + read) 1)
              else
                '(f, sub_read) <-f
                   (if is_b ch c_bang || is_b ch c_amp || is_b ch c_bar
                    then cplx (off + read) (len - read)
                    else unpack_simple view (off + read) (len - read)) ;;
                filter_loop cplx view off len cur n fu (read + sub_read) parens (Some f)
          | None =>
              if is_b ch c_lp then filter_loop cplx view off len cur n fu (read + 1) (Some read) parsed
              else
                '(f, r) <-f unpack_simple view (off + read) (len - read) ;;
                finish_filter off len (read + r) parens (Some f)
          end
  end.

Definition finish_complex (off len : Z) (ctype : byte) (read : Z) (fs : list filter) : fres (filter * Z) :=
  match fs with
  | [] => FErr (FSyn off len)
  | f0 :: _ =>
      if is_b ctype c_bang then FOk (FNot f0, read)
      else if is_b ctype c_amp then FOk (FAnd fs, read)
      else FOk (FOr fs, read)
  end.

Fixpoint complex_loop (uf : Z -> Z -> fres (filter * Z)) (off len : Z) (cur : list byte) (n : Z) (ctype : byte)
                      (fuel : nat) (read : Z) (fs : list filter) {struct fuel} : fres (filter * Z) :=
  match fuel with
  | O => FErr (FCrash OutOfFuel)
  | S fu =>
      if n <=? read then finish_complex off len ctype read fs
      else
        let ch := at_ cur read in
        if is_b ch c_sp then complex_loop uf off len cur n ctype fu (read + 1) fs
        else if is_b ch c_lp then
          match fs with
          | _ :: _ => if is_b ctype c_bang then FErr (FSyn off len) else
              '(f, r) <-f uf (off + read) (len - read - 1) ;;
              complex_loop uf off len cur n ctype fu (read + r) (fs ++ [f])
          | [] =>
              '(f, r) <-f uf (off + read) (len - read - 1) ;;
              complex_loop uf off len cur n ctype fu (read + r) (fs ++ [f])
          end
        else if is_b ch c_rp then finish_complex off len ctype read fs
        else FErr (FSyn (off + read) 1)
  end.

Fixpoint unpack_filter (d : nat) (view : list byte) (off len : Z) {struct d} : fres (filter * Z) :=
  match d with
  | O => FErr (FCrash RecursionErr)
  | S d' =>
      let cur := sl view off len in
      filter_loop (unpack_complex d' view) view off len cur (zlen cur) (S (length cur)) 0 None None
  end

with unpack_complex (d : nat) (view : list byte) (off len : Z) {struct d} : fres (filter * Z) :=
  match d with
  | O => FErr (FCrash RecursionErr)
  | S d' =>
      let cur := sl view off len in
      complex_loop (unpack_filter d' view) off len cur (zlen cur) (at_ cur 0) (S (length cur)) 1 []
  end.

(* ---- str -> octets: filter.strip() then .encode("utf-8", errors="surrogateescape") *)
Definition is_space (c : N) : bool := existsb (N.eqb c) isspace_table.
Fixpoint lstrip (s : list N) : list N :=
  match s with c :: r => if is_space c then lstrip r else s | [] => [] end.
Definition strip (s : list N) : list N := rev (lstrip (rev (lstrip s))).

Definition is_surrogate (c : N) : bool := ((55296 <=? c) && (c <=? 57343))%N.
Definition is_escapable (c : N) : bool := ((56448 <=? c) && (c <=? 56575))%N.   (* U+DC80..U+DCFF *)

Definition utf8_of_cp (c : N) : list byte :=
  (if c <? 128 then [n2b c]
   else if c <? 2048 then [n2b (192 + c / 64); n2b (128 + c mod 64)]
   else if c <? 65536 then [n2b (224 + c / 4096); n2b (128 + (c / 64) mod 64); n2b (128 + c mod 64)]
   else [n2b (240 + c / 262144); n2b (128 + (c / 4096) mod 64); n2b (128 + (c / 64) mod 64); n2b (128 + c mod 64)])%N.

Fixpoint surrogate_run (s : list N) : Z :=
  match s with c :: r => if is_surrogate c then 1 + surrogate_run r else 0 | [] => 0 end.

(* returns the octets, or the (start, length) CPython's UnicodeEncodeError reports *)
Fixpoint encode_se (s : list N) (i : Z) : list byte + (Z * Z) :=
  match s with
  | [] => inl []
  | c :: r =>
      if is_surrogate c && negb (is_escapable c) then inr (i, surrogate_run s)
      else
        match encode_se r (i + 1) with
        | inl bs => inl ((if is_escapable c then [n2b (c - 56320)] else utf8_of_cp c) ++ bs)
        | inr e => inr e
        end
  end.

(* the part of from_string after strip/encode *)
Definition from_bytes (d : nat) (b : list byte) : fres filter :=
  let n := zlen b in
  match unpack_filter d b 0 n with
  | FErr (FCrash RecursionErr) => FErr (FSyn 0 n)
  | FErr e => FErr e
  | FOk (f, consumed) =>
      if consumed <? n then FErr (FSyn consumed (n - consumed)) else FOk f
  end.

(* LDAPFilter.from_string *)
Definition from_string (d : nat) (s : list N) : fres filter :=
  match encode_se (strip s) 0 with
  | inr (st, ln) => FErr (FSyn st ln)
  | inl b => from_bytes d b
  end.

(* ---- __str__ *)
Definition hexdigit (n : N) : N := if (n <? 10)%N then (48 + n)%N else (87 + n)%N.
Definition escape_repl (m : list N) : option (list N) :=
  match m with
  | [c] => Some [92%N; hexdigit (c / 16); hexdigit (c mod 16)]
  | _ => None
  end.

(* _serialize_filter_value *)
Definition ser_value (v : list byte) : list byte :=
  match re_sub rx_string_escape escape_repl (bn v) with
  | Some (Some out) => map n2b out
  | _ => []
  end.

Fixpoint join_b (sep : list byte) (l : list (list byte)) : list byte :=
  match l with
  | [] => []
  | [x] => x
  | x :: r => x ++ sep ++ join_b sep r
  end.

Definition opt_or_empty (o : option (list byte)) : list byte := match o with Some b => b | None => [] end.

Fixpoint print_filter (f : filter) : list byte :=
  match f with
  | FAnd fs => [c_lp; c_amp] ++ flat_map print_filter fs ++ [c_rp]
  | FOr fs => [c_lp; c_bar] ++ flat_map print_filter fs ++ [c_rp]
  | FNot g => [c_lp; c_bang] ++ print_filter g ++ [c_rp]
  | FEq a v => [c_lp] ++ a ++ [c_eq] ++ ser_value v ++ [c_rp]
  | FGe a v => [c_lp] ++ a ++ [c_gt; c_eq] ++ ser_value v ++ [c_rp]
  | FLe a v => [c_lp] ++ a ++ [c_lt; c_eq] ++ ser_value v ++ [c_rp]
  | FApprox a v => [c_lp] ++ a ++ [c_tilde; c_eq] ++ ser_value v ++ [c_rp]
  | FPresent a => [c_lp] ++ a ++ [c_eq; c_star; c_rp]
  | FSub a ini any fin =>
      [c_lp] ++ a ++ [c_eq]
      ++ join_b [c_star] ([ser_value (opt_or_empty ini)] ++ map ser_value any ++ [ser_value (opt_or_empty fin)])
      ++ [c_rp]
  | FExt rule attr v dn =>
      let headers := [opt_or_empty attr] ++ (if dn then [dn_lit] else [])
                     ++ (match rule with Some r => [r] | None => [] end) in
      [c_lp] ++ join_b [c_colon] headers ++ [c_colon; c_eq] ++ ser_value v ++ [c_rp]
  end.
