(* C15, totality: LDAPFilter.from_string returns a filter or raises FilterSyntaxError for every
   input -- no loop of the parser runs out of steps, no index is out of range. *)
From Coq Require Import ZArith NArith List Bool Lia ZifyBool.
From Coq.Strings Require Import Byte.
From SV Require Import Base.Bytes Base.Py Rx.Syntax Rx.Lemmas Gen.Generated Msg.Types Filt.Text Filt.Value Filt.Simple.
Import ListNotations.
Local Open Scope Z_scope.

(* ---- the backtracking matcher on a star-free pattern needs no more steps than the pattern is deep *)
Fixpoint star_free (r : rx) : bool :=
  match r with
  | Star _ => false
  | Cat a b | Alt a b => star_free a && star_free b
  | Group _ a => star_free a
  | _ => true
  end.

Lemma bt_star_free r : star_free r = true -> forall fuel s pos cs k,
  (rsize r <= fuel)%nat -> (forall s' p c, k s' p c <> BFuel) -> bt fuel r s pos cs k <> BFuel.
Proof.
  induction r as [| |neg rs|a IHa b IHb|a IHa b IHb|a IHa|i a IHa]; cbn [star_free rsize]; intros SF fuel s pos cs k Hf Hk;
    (destruct fuel as [|f]; [lia|]); cbn [bt].
  - discriminate.
  - apply Hk.
  - destruct s as [|c s']; [discriminate|]. destruct (chr_ok neg rs c); [apply Hk|discriminate].
  - apply andb_true_iff in SF as [Sa Sb]. apply IHa; [assumption|lia|]. intros s1 p1 c1. apply IHb; [assumption|lia|assumption].
  - apply andb_true_iff in SF as [Sa Sb].
    destruct (bt f a s pos cs k) eqn:E; try discriminate.
    + exfalso. revert E. apply IHa; [assumption|lia|assumption].
    + apply IHb; [assumption|lia|assumption].
  - discriminate.
  - apply IHa; [assumption|lia|]. intros s1 p1 c1. apply Hk.
Qed.

Lemma escape_star_free : star_free rx_ldap_escape = true.
Proof. reflexivity. Qed.

Lemma bt_escape_total s : bt (bt_fuel rx_ldap_escape s) rx_ldap_escape s 0 [] (fun _ p cs => BYes p cs) <> BFuel.
Proof.
  apply bt_star_free; [reflexivity| |discriminate].
  unfold bt_fuel. assert (rsize rx_ldap_escape <= rsize rx_ldap_escape + 2)%nat by lia. nia.
Qed.

(* re.sub never runs out of steps: the remaining input shrinks at every step *)
Lemma re_sub_total repl : forall f s, (length s < f)%nat -> re_sub_loop f rx_ldap_escape repl s <> None.
Proof.
  induction f as [|f IH]; intros s Hf; [lia|].
  destruct s as [|c s']; [discriminate|]. rewrite re_sub_loop_cons. cbv zeta.
  pose proof (bt_escape_total (c :: s')) as T.
  destruct (bt _ rx_ldap_escape (c :: s') 0 [] _) as [| |[|e] cs]; [congruence| | |].
  - specialize (IH s' ltac:(cbn [length] in Hf; lia)). destruct (re_sub_loop f rx_ldap_escape repl s') as [[x|]|]; congruence.
  - specialize (IH s' ltac:(cbn [length] in Hf; lia)). destruct (re_sub_loop f rx_ldap_escape repl s') as [[x|]|]; congruence.
  - destruct (repl _); [|discriminate].
    assert (Hl : (length (skipn (S e) (c :: s')) < f)%nat).
    { rewrite skipn_length. cbn [length] in *. lia. }
    specialize (IH _ Hl). destruct (re_sub_loop f rx_ldap_escape repl _) as [[x|]|]; congruence.
Qed.

(* a parser outcome that the caller sees as a filter or a FilterSyntaxError; RecursionError is the one
   other exception, and from_string converts it *)
Definition crashes {A} (r : fres A) : Prop :=
  match r with FErr (FCrash RecursionErr) => False | FErr (FCrash _) => True | _ => False end.

Lemma unpack_value_total raw off len : ~ crashes (unpack_value raw off len).
Proof.
  unfold unpack_value, re_sub.
  pose proof (re_sub_total unescape_repl (S (length (bn raw))) (bn raw) ltac:(lia)) as T.
  destruct (re_sub_loop _ _ _ _) as [[x|]|]; [intros []|intros []|congruence].
Qed.

Lemma fbind_total {A B} (m : fres A) (f : A -> fres B) :
  ~ crashes m -> (forall a, m = FOk a -> ~ crashes (f a)) -> ~ crashes (fbind m f).
Proof.
  intros Hm Hf. destruct m as [a|e]; cbn [fbind]; [now apply Hf|exact Hm].
Qed.

Lemma sub_go_total n off len : forall ps idx first vals fin, ~ crashes (sub_go n off len idx ps first vals fin).
Proof.
  induction ps as [|v ps IH]; intros idx first vals fin; cbn [sub_go]; [intros []|].
  destruct (Nat.eqb idx 0); [|destruct (Nat.eqb idx (n - 1))];
    (destruct v; [first [apply IH|intros []]|apply fbind_total; [apply unpack_value_total|intros; apply IH]]).
Qed.

Lemma split_on_nonempty sep l cur : split_on sep l cur <> [].
Proof. revert cur. induction l as [|c r IH]; intros cur; cbn [split_on]; [discriminate|]. destruct (is_b c sep); [discriminate|apply IH]. Qed.

Lemma ext_header_total header off len : ~ crashes (unpack_ext_header header off len).
Proof.
  unfold unpack_ext_header. unfold bsplit. pose proof (split_on_nonempty c_colon header []) as NE.
  destruct (split_on c_colon header []) as [|h0 rest]; [congruence|].
  apply fbind_total.
  - destruct h0; [intros []|]. destruct (attr_ok _); intros [].
  - intros attr _.
    destruct (match rest with x :: r => if bytes_eqb x dn_lit then (true, r) else (false, rest) | [] => (false, rest) end) as [for_dn rest'].
    apply fbind_total.
    + destruct rest' as [|x r]; [intros []|]. destruct (attr_ok x); intros [].
    + intros [rule rest''] _. destruct rest''; intros [].
Qed.

Lemma unpack_simple_total view off len : ~ crashes (unpack_simple view off len).
Proof.
  unfold unpack_simple. cbv zeta.
  repeat match goal with
         | |- ~ crashes (if ?b then _ else _) => destruct b; try (intros []; fail)
         end.
  all: try (intros []; fail).
  all: apply fbind_total;
    [ match goal with |- ~ crashes (if ?b then _ else _) => destruct b end; [apply unpack_value_total|intros []]
    | intros bv _ ].
  all: repeat match goal with
              | |- ~ crashes (if ?b then _ else _) => destruct b; try (intros []; fail)
              end.
  all: try (intros []; fail).
  all: apply fbind_total;
    [ first [apply ext_header_total | apply sub_go_total]
    | intros [[x y] z] _; intros [] ].
Qed.

(* ---- progress: an accepted item consumes at least one octet *)
Lemma find_b_range c l : forall i, find_b c l i = -1 \/ i <= find_b c l i.
Proof.
  induction l as [|x l IH]; intros i; cbn [find_b]; [now left|].
  destruct (is_b x c); [right; lia|]. destruct (IH (i + 1)) as [H|H]; [now left|right; lia].
Qed.

Definition ok_sub (r : fres (filter * Z)) : Prop := ~ crashes r /\ forall f n, r = FOk (f, n) -> 1 <= n.

Lemma fbind_ok {A} (m : fres A) (k : A -> fres (filter * Z)) f n :
  fbind m k = FOk (f, n) -> exists a, m = FOk a /\ k a = FOk (f, n).
Proof. destruct m as [a|e]; cbn [fbind]; [eauto|discriminate]. Qed.

Lemma unpack_simple_progress view off len f n : unpack_simple view off len = FOk (f, n) -> 1 <= n.
Proof.
  unfold unpack_simple. cbv zeta.
  set (cur := sl view off len). set (eq := find_b c_eq cur 0).
  destruct (find_b_range c_eq cur 0) as [E|E]; fold eq in E.
  - rewrite E. cbn. discriminate.
  - destruct (eq =? 0) eqn:E0; [discriminate|]. destruct (eq =? -1) eqn:E1; [discriminate|].
    destruct (eq =? len - 1); [discriminate|].
    set (tail := skipn (Z.to_nat (eq + 1)) cur). set (rp := find_b c_rp tail 0).
    set (vl := if rp =? -1 then zlen tail else rp).
    assert (Hvl : 0 <= vl).
    { unfold vl. destruct (rp =? -1) eqn:R; [apply zlen_nonneg|]. destruct (find_b_range c_rp tail 0) as [H|H]; fold rp in H; lia. }
    assert (Hn : forall g f n, @FOk (filter * Z) (g, eq + 1 + vl) = FOk (f, n) -> 1 <= n) by (intros g0 f0 n0 H; injection H as _ <-; lia).
    destruct (_ && (eq =? 1)); [discriminate|].
    destruct (_ && negb (attr_ok _)); [discriminate|].
    intros H. apply fbind_ok in H. destruct H as (bv & _ & H).
    repeat match type of H with
           | (if ?b then _ else _) = _ => destruct b
           end;
      try (apply fbind_ok in H; destruct H as ([[x y] z] & _ & H)); apply (Hn _ _ _ H).
Qed.

Lemma unpack_simple_ok view off len : ok_sub (unpack_simple view off len).
Proof. split; [apply unpack_simple_total|intros f n; apply unpack_simple_progress]. Qed.

(* ---- the two while-loops *)
Lemma finish_filter_total off len read parens parsed : ~ crashes (finish_filter off len read parens parsed).
Proof. unfold finish_filter. destruct parens; [intros []|]. destruct parsed; intros []. Qed.

Lemma filter_loop_total cplx view off len cur n :
  (forall o l, ok_sub (cplx o l)) ->
  forall fuel read parens parsed, (0 < fuel)%nat -> n - read < Z.of_nat fuel ->
  ~ crashes (filter_loop cplx view off len cur n fuel read parens parsed).
Proof.
  intros Hc. induction fuel as [|fu IH]; intros read parens parsed Hpos Hf; [lia|].
  - cbn [filter_loop]. destruct (n <=? read) eqn:E; [apply finish_filter_total|].
    destruct (is_b (at_ cur read) c_sp); [apply IH; lia|].
    destruct (is_b (at_ cur read) c_rp); [destruct parens; [apply finish_filter_total|intros []]|].
    destruct parens as [p|].
    + destruct (is_b (at_ cur read) c_lp); [intros []|].
      set (sub := if is_b (at_ cur read) c_bang || is_b (at_ cur read) c_amp || is_b (at_ cur read) c_bar then cplx (off + read) (len - read) else unpack_simple view (off + read) (len - read)).
      assert (Hs : ok_sub sub) by (unfold sub; destruct (is_b (at_ cur read) c_bang || is_b (at_ cur read) c_amp || is_b (at_ cur read) c_bar); [apply Hc|apply unpack_simple_ok]).
      destruct Hs as [Hs1 Hs2]. apply fbind_total; [exact Hs1|]. intros [f r] Ef. specialize (Hs2 f r Ef). apply IH; lia.
    + destruct (is_b (at_ cur read) c_lp); [apply IH; lia|].
      apply fbind_total; [apply unpack_simple_total|]. intros [f r] _. apply finish_filter_total.
Qed.

Lemma filter_loop_progress cplx view off len cur n :
  (forall o l, ok_sub (cplx o l)) ->
  forall fuel read parens parsed f r, 0 <= read -> (parsed <> None -> 1 <= read) ->
  filter_loop cplx view off len cur n fuel read parens parsed = FOk (f, r) -> 1 <= r.
Proof.
  intros Hc.
  assert (Fin : forall read parens parsed f r, (parsed <> None -> 1 <= read) ->
            finish_filter off len read parens parsed = FOk (f, r) -> 1 <= r).
  { intros read parens parsed f r Hp. unfold finish_filter. destruct parens; [discriminate|].
    destruct parsed; [|discriminate]. intros H. injection H as _ <-. apply Hp. discriminate. }
  induction fuel as [|fu IH]; intros read parens parsed f r H0 Hp; cbn [filter_loop]; [discriminate|].
  destruct (n <=? read); [now apply Fin|].
  destruct (is_b (at_ cur read) c_sp); [apply IH; [lia|intros; lia]|].
  destruct (is_b (at_ cur read) c_rp).
  { destruct parens; [|discriminate]. apply Fin. intros; lia. }
  destruct parens as [p|].
  - destruct (is_b (at_ cur read) c_lp); [discriminate|].
    set (sub := if is_b (at_ cur read) c_bang || is_b (at_ cur read) c_amp || is_b (at_ cur read) c_bar then cplx (off + read) (len - read) else unpack_simple view (off + read) (len - read)).
    assert (Hs : ok_sub sub) by (unfold sub; destruct (is_b (at_ cur read) c_bang || is_b (at_ cur read) c_amp || is_b (at_ cur read) c_bar); [apply Hc|apply unpack_simple_ok]).
    intros H. apply fbind_ok in H. destruct H as ([g sr] & Es & H). destruct Hs as [_ Hs2]. specialize (Hs2 g sr Es).
    revert H. apply IH; [lia|intros; lia].
  - destruct (is_b (at_ cur read) c_lp); [apply IH; [lia|intros; lia]|].
    intros H. apply fbind_ok in H. destruct H as ([g sr] & Es & H). pose proof (unpack_simple_progress _ _ _ _ _ Es).
    revert H. apply Fin. intros; lia.
Qed.

Lemma finish_complex_total off len ct read fs : ~ crashes (finish_complex off len ct read fs).
Proof. unfold finish_complex. destruct fs; [intros []|]. destruct (is_b ct c_bang); [intros []|]. destruct (is_b ct c_amp); intros []. Qed.

Lemma complex_loop_total uf off len cur n ct :
  (forall o l, ok_sub (uf o l)) ->
  forall fuel read fs, (0 < fuel)%nat -> n - read < Z.of_nat fuel -> ~ crashes (complex_loop uf off len cur n ct fuel read fs).
Proof.
  intros Hu. induction fuel as [|fu IH]; intros read fs Hpos Hf; [lia|].
  - cbn [complex_loop]. destruct (n <=? read) eqn:E; [apply finish_complex_total|].
    destruct (is_b (at_ cur read) c_sp); [apply IH; lia|].
    destruct (is_b (at_ cur read) c_lp).
    + destruct (Hu (off + read) (len - read - 1)) as [H1 H2].
      destruct fs as [|f0 fs']; [|destruct (is_b ct c_bang); [intros []|]];
        (apply fbind_total; [exact H1|]; intros [g r] Eg; specialize (H2 g r Eg); apply IH; lia).
    + destruct (is_b (at_ cur read) c_rp); [apply finish_complex_total|intros []].
Qed.

Lemma complex_loop_progress uf off len cur n ct :
  (forall o l, ok_sub (uf o l)) ->
  forall fuel read fs f r, 1 <= read -> complex_loop uf off len cur n ct fuel read fs = FOk (f, r) -> 1 <= r.
Proof.
  intros Hu.
  assert (Fin : forall read fs f r, 1 <= read -> finish_complex off len ct read fs = FOk (f, r) -> 1 <= r).
  { intros read fs f r H1. unfold finish_complex. destruct fs; [discriminate|].
    destruct (is_b ct c_bang); [|destruct (is_b ct c_amp)]; intros H; injection H as _ <-; exact H1. }
  induction fuel as [|fu IH]; intros read fs f r H1; cbn [complex_loop]; [discriminate|].
  destruct (n <=? read); [now apply Fin|].
  destruct (is_b (at_ cur read) c_sp); [apply IH; lia|].
  destruct (is_b (at_ cur read) c_lp).
  - destruct (Hu (off + read) (len - read - 1)) as [_ H2].
    destruct fs as [|f0 fs']; [|destruct (is_b ct c_bang); [discriminate|]];
      (intros H; apply fbind_ok in H; destruct H as ([g sr] & Eg & H); specialize (H2 g sr Eg); revert H; apply IH; lia).
  - destruct (is_b (at_ cur read) c_rp); [now apply Fin|discriminate].
Qed.

(* ---- the parser *)
Lemma to_nat_len (l : list byte) : zlen l - 0 < Z.of_nat (S (length l)).
Proof. unfold zlen. lia. Qed.

Theorem unpack_total : forall d view off len,
  ok_sub (unpack_filter d view off len) /\ ok_sub (unpack_complex d view off len).
Proof.
  induction d as [|d' IH]; intros view off len.
  - split; split; cbn; try (intros []); discriminate.
  - assert (Hf : forall o l, ok_sub (unpack_filter d' view o l)) by (intros o l; apply IH).
    assert (Hc : forall o l, ok_sub (unpack_complex d' view o l)) by (intros o l; apply IH).
    split; split; cbn [unpack_filter unpack_complex].
    + apply filter_loop_total; [exact Hc|lia|]. apply to_nat_len.
    + intros f n. apply filter_loop_progress; [exact Hc|lia|congruence].
    + apply complex_loop_total; [exact Hf|lia|]. unfold zlen. lia.
    + intros f n. apply complex_loop_progress; [exact Hf|lia].
Qed.

(* LDAPFilter.from_string: a filter, or FilterSyntaxError -- for every string and every recursion budget *)
Theorem from_string_total d s :
  match from_string d s with
  | FOk _ | FErr (FSyn _ _) => True
  | FErr (FCrash _) => False
  end.
Proof.
  unfold from_string. destruct (encode_se (strip s) 0) as [b|[st ln]]; [|exact I].
  unfold from_bytes. destruct (unpack_total d b 0 (zlen b)) as [[H _] _].
  destruct (unpack_filter d b 0 (zlen b)) as [[f c]|[o l|k]].
  - destruct (c <? zlen b); exact I.
  - exact I.
  - destruct k; try (exfalso; apply H; exact I). exact I.
Qed.
