(* C13: assertion values.  __str__ escapes exactly the special octets as \xx, and from_string turns
   that text back into the original octets. *)
From Coq Require Import ZArith NArith List Bool Lia ZifyBool.
From Coq.Strings Require Import Byte.
From SV Require Import Base.Bytes Base.Py Rx.Syntax Rx.Lemmas Gen.Generated Msg.Types Filt.Text.
Import ListNotations.
Local Open Scope N_scope.

(* the class of _STRING_ESCAPE_PATTERN, as generated from the source *)
Definition special (c : N) : bool :=
  match rx_string_escape with Chr neg rs => chr_ok neg rs c | _ => false end.

Definition esc (c : N) : list N :=
  if special c then [92; hexdigit (c / 16); hexdigit (c mod 16)] else [c].

Lemma ser_value_spec v : ser_value v = map n2b (flat_map esc (bn v)).
Proof.
  unfold ser_value, rx_string_escape.
  rewrite (re_sub_chr _ _ escape_repl (fun c => [92; hexdigit (c / 16); hexdigit (c mod 16)])) by reflexivity.
  reflexivity.
Qed.

(* the structural characters are special (and so are NUL, controls and everything from DEL up) *)
Lemma special_structural : special 40 = true /\ special 41 = true /\ special 42 = true /\ special 92 = true /\ special 0 = true.
Proof. repeat split; reflexivity. Qed.

Definition is_hex (c : N) : bool :=
  match rx_hex with Cat (Chr neg rs) _ => chr_ok neg rs c | _ => false end.

Lemma hexdigit_facts n : n < 16 -> is_hex (hexdigit n) = true /\ hexval (hexdigit n) = Some n /\ hexdigit n <> 10 /\ hexdigit n < 128
                                  /\ special (hexdigit n) = false.
Proof.
  intros H.
  assert (E : n = 0 \/ n = 1 \/ n = 2 \/ n = 3 \/ n = 4 \/ n = 5 \/ n = 6 \/ n = 7 \/ n = 8 \/ n = 9 \/ n = 10 \/ n = 11
              \/ n = 12 \/ n = 13 \/ n = 14 \/ n = 15) by lia.
  repeat (destruct E as [->|E]; [vm_compute; repeat split; (reflexivity || discriminate)|]).
  subst. vm_compute. repeat split; (reflexivity || discriminate).
Qed.

Lemma matches_hex h l : is_hex h = true -> is_hex l = true -> anchored_match rx_hex rx_hex_end [h; l] = true.
Proof.
  unfold is_hex, rx_hex, rx_hex_end, anchored_match. intros Hh Hl.
  cbn [matches deriv nullable]. rewrite Hh. cbn [cat alt nullable deriv]. rewrite Hl. reflexivity.
Qed.

Lemma unescape_hex c : c < 256 -> unescape_repl [92; hexdigit (c / 16); hexdigit (c mod 16)] = Some [c].
Proof.
  intros H. assert (H1 : c / 16 < 16) by (apply N.div_lt_upper_bound; lia). assert (H2 : c mod 16 < 16) by (apply N.mod_lt; lia).
  destruct (hexdigit_facts _ H1) as (A1 & B1 & _). destruct (hexdigit_facts _ H2) as (A2 & B2 & _).
  unfold unescape_repl. rewrite matches_hex by assumption. rewrite B1, B2. f_equal. f_equal.
  pose proof (N.div_mod c 16 ltac:(lia)). lia.
Qed.

(* ---- the backtracking matcher on _LDAP_ESCAPE_PATTERN = (\\.{,2}) *)
Lemma bt_escape_no fuel c s k : (8 <= fuel)%nat -> c <> 92 -> bt fuel rx_ldap_escape (c :: s) 0 [] k = BNo.
Proof.
  intros Hf Hc. do 8 (destruct fuel as [|fuel]; [lia|]). unfold rx_ldap_escape. cbn [bt].
  unfold chr_ok, in_ranges. cbn [existsb fst snd xorb]. 
  destruct ((92 <=? c) && (c <=? 92)) eqn:E; [lia|]. reflexivity.
Qed.

Lemma bt_escape_3 fuel h l s :
  (8 <= fuel)%nat -> h <> 10 -> l <> 10 ->
  bt fuel rx_ldap_escape (92 :: h :: l :: s) 0 [] (fun _ p cs => BYes p cs) = BYes 3 [(1%nat, (0%nat, 3%nat))].
Proof.
  intros Hf Hh Hl. do 8 (destruct fuel as [|fuel]; [lia|]). unfold rx_ldap_escape. cbn [bt].
  unfold chr_ok, in_ranges. cbn [existsb fst snd xorb andb orb N.leb N.compare Pos.compare Pos.compare_cont].
  assert (E1 : ((10 <=? h) && (h <=? 10)) = false) by (destruct (10 <=? h) eqn:A; destruct (h <=? 10) eqn:B; try reflexivity; lia).
  assert (E2 : ((10 <=? l) && (l <=? 10)) = false) by (destruct (10 <=? l) eqn:A; destruct (l <=? 10) eqn:B; try reflexivity; lia).
  rewrite E1. cbn [orb xorb]. rewrite E2. reflexivity.
Qed.

Lemma rsize_escape : (8 <= rsize rx_ldap_escape + 2)%nat.
Proof. vm_compute. lia. Qed.

Lemma fuel_ok s : s <> [] -> (8 <= bt_fuel rx_ldap_escape s)%nat.
Proof.
  intros H. unfold bt_fuel. pose proof rsize_escape. destruct s; [congruence|]. cbn [length]. nia.
Qed.

(* unescaping the escaped form gives the octets back *)
Lemma unescape_escaped (v : list N) :
  Forall (fun c => c < 256) v ->
  forall f, (length (flat_map esc v) < f)%nat ->
  re_sub_loop f rx_ldap_escape unescape_repl (flat_map esc v) = Some (Some v).
Proof.
  induction 1 as [|c v Hc Hv IH]; intros f Hf.
  - destruct f; [cbn in Hf; lia|]. reflexivity.
  - cbn [flat_map] in *. unfold esc at 1 in Hf. unfold esc at 1. destruct (special c) eqn:S.
    + destruct f as [|f]; [cbn in Hf; lia|]. cbn [app] in *. rewrite re_sub_loop_cons. cbv zeta.
      assert (H1 : c / 16 < 16) by (apply N.div_lt_upper_bound; lia). assert (H2 : c mod 16 < 16) by (apply N.mod_lt; lia).
      destruct (hexdigit_facts _ H1) as (_ & _ & N1 & _). destruct (hexdigit_facts _ H2) as (_ & _ & N2 & _).
      rewrite bt_escape_3 by (try assumption; apply fuel_ok; discriminate).
      cbn [firstn skipn]. rewrite unescape_hex by assumption.
      rewrite IH by (cbn [length] in Hf; lia). reflexivity.
    + destruct f as [|f]; [cbn in Hf; lia|]. cbn [app] in *. rewrite re_sub_loop_cons. cbv zeta.
      assert (Nc : c <> 92) by (intros ->; vm_compute in S; discriminate).
      rewrite bt_escape_no by (try assumption; apply fuel_ok; discriminate).
      rewrite IH by (cbn [length] in Hf; lia). reflexivity.
Qed.

Lemma bn_lt v : Forall (fun c => c < 256) (bn v).
Proof. unfold bn. apply Forall_forall. intros c H. apply in_map_iff in H. destruct H as (b & <- & _). apply b2n_lt. Qed.

Lemma esc_lt c : c < 256 -> Forall (fun x => x < 256) (esc c).
Proof.
  intros H. unfold esc. destruct (special c); [|repeat constructor; assumption].
  assert (H1 : c / 16 < 16) by (apply N.div_lt_upper_bound; lia). assert (H2 : c mod 16 < 16) by (apply N.mod_lt; lia).
  destruct (hexdigit_facts _ H1) as (_ & _ & _ & L1 & _). destruct (hexdigit_facts _ H2) as (_ & _ & _ & L2 & _).
  repeat constructor; lia.
Qed.

Lemma bn_map_n2b l : Forall (fun x => x < 256) l -> bn (map n2b l) = l.
Proof.
  unfold bn. induction 1 as [|x l Hx _ IH]; [reflexivity|]. cbn [map]. rewrite IH. f_equal. now apply b2n_n2b_small.
Qed.

Lemma map_n2b_bn v : map n2b (bn v) = v.
Proof. unfold bn. induction v as [|b v IH]; [reflexivity|]. cbn [map]. rewrite IH. f_equal. apply n2b_b2n. Qed.

Lemma esc_all_lt v : Forall (fun x => x < 256) (flat_map esc (bn v)).
Proof.
  pose proof (bn_lt v) as H. induction H as [|c l Hc _ IH]; [constructor|].
  cbn [flat_map]. apply Forall_app. split; [now apply esc_lt|assumption].
Qed.

Theorem unpack_value_ser v off len : unpack_value (ser_value v) off len = FOk v.
Proof.
  unfold unpack_value. rewrite ser_value_spec. rewrite bn_map_n2b by apply esc_all_lt.
  unfold re_sub. rewrite (unescape_escaped (bn v) (bn_lt v)) by lia. now rewrite map_n2b_bn.
Qed.

(* the text of a value contains no structural character *)
Lemma esc_plain c x : c < 256 -> In x (esc c) -> special x = false \/ x = 92.
Proof.
  intros Hc. unfold esc. destruct (special c) eqn:S.
  - assert (H1 : c / 16 < 16) by (apply N.div_lt_upper_bound; lia). assert (H2 : c mod 16 < 16) by (apply N.mod_lt; lia).
    destruct (hexdigit_facts _ H1) as (_ & _ & _ & _ & S1). destruct (hexdigit_facts _ H2) as (_ & _ & _ & _ & S2).
    intros [<-|[<-|[<-|[]]]]; auto.
  - intros [<-|[]]. now left.
Qed.

Lemma ser_value_chars v b : In b (ser_value v) -> special (b2n b) = false \/ b = c_bs.
Proof.
  rewrite ser_value_spec. intros H. apply in_map_iff in H. destruct H as (x & <- & Hx).
  apply in_flat_map in Hx. destruct Hx as (c & Hc & Hx).
  assert (Lc : c < 256). { pose proof (bn_lt v) as F. rewrite Forall_forall in F. now apply F. }
  assert (Lx : x < 256). { pose proof (esc_lt c Lc) as F. rewrite Forall_forall in F. now apply F. }
  destruct (esc_plain c x Lc Hx) as [S| ->].
  - left. now rewrite b2n_n2b_small.
  - right. reflexivity.
Qed.

Lemma ser_value_no b v : special (b2n b) = true -> b <> c_bs -> ~ In b (ser_value v).
Proof. intros S N H. destruct (ser_value_chars v b H) as [E|E]; congruence. Qed.
