(* Model of unpack_ldap_message and every unpack function below it: same reads in the same
   order, same exception class at the same point.  [d] is the Python recursion budget for
   nested filters (exhaustion = RecursionError). *)
From Coq Require Import ZArith NArith List Bool.
From Coq.Strings Require Import Byte.
From SV Require Import Base.Bytes Base.Py Gen.Generated Asn1.Model Msg.Types Msg.Encode.
Import ListNotations.
Local Open Scope N_scope.

(* bytes.decode("utf-8") *)
Definition dec_str (b : list byte) : res str := if utf8_valid b then Ok b else Raise ValueErr.

(* "while reader:" with a body that consumes from the reader; every iteration consumes at least
   one octet of a non-empty reader or raises, so |r|+1 iterations always suffice *)
Fixpoint loop {S} (fuel : nat) (body : S -> reader -> res (S * reader)) (s : S) (r : reader) : res S :=
  match r with
  | [] => Ok s
  | _ =>
      match fuel with
      | O => Raise (Crash OutOfFuel)
      | Datatypes.S f => '(s', r') <- body s r ;; loop f body s' r'
      end
  end.
Definition while_reader {S} (body : S -> reader -> res (S * reader)) (s : S) (r : reader) : res S :=
  loop (Datatypes.S (length r)) body s r.

Definition is_ctx (h : header) (n : N) : bool := (t_cls (h_tag h) =? cls_context) && (t_num (h_tag h) =? n).

(* read_octet_string(...).decode() *)
Definition read_str (r : reader) (t : option tag) (h : option header) : res (str * reader) :=
  '(b, r') <- read_octet_string r t h ;; s <- dec_str b ;; Ok (s, r').

(* ---- controls *)
Definition unpack_paged (crit : bool) (value : option octets) : res control :=
  let r := match value with Some v => v | None => [] end in
  '(cr, _) <- read_sequence r None None ;;
  '(size, cr) <- read_integer cr None None ;;
  '(cookie, _) <- read_octet_string cr None None ;;
  Ok (CPaged crit size cookie value).

Definition unpack_control (r : reader) : res (control * reader) :=
  '(cr, r') <- read_sequence r None None ;;
  '(ctype, cr) <- read_str cr None None ;;
  nh <- (match cr with [] => Ok None | _ => h <- peek_header cr ;; Ok (Some h) end) ;;
  let is_univ (h : option header) (n : N) :=
    match h with
    | Some h => (t_cls (h_tag h) =? cls_universal) && (t_num (h_tag h) =? n)
    | None => false
    end in
  '(crit, cr, nh) <-
     (if is_univ nh tn_boolean then
        '(b, cr') <- read_boolean cr None nh ;;
        nh' <- (match cr' with [] => Ok nh | _ => h <- peek_header cr' ;; Ok (Some h) end) ;;
        Ok (b, cr', nh')
      else Ok (false, cr, nh)) ;;
  value <- (if is_univ nh tn_octet_string then
              '(v, _) <- read_octet_string cr None nh ;; Ok (Some v)
            else Ok None) ;;
  (* next(c.unpack for c in options.choices if c.control_type == control_type) *)
  c <- (if bytes_eqb ctype oid_paged then unpack_paged crit value
        else if bytes_eqb ctype oid_show_deactivated then Ok (CShowDeactivated crit value)
        else if bytes_eqb ctype oid_show_deleted then Ok (CShowDeleted crit value)
        else Ok (CGeneric ctype crit value)) ;;
  Ok (c, r').

(* ---- credentials *)
Definition unpack_cred (r : reader) : res (cred * reader) :=
  h <- peek_header r ;;
  if (t_cls (h_tag h) =? cls_context) && (t_num (h_tag h) =? aid_sasl) then
    '(sr, r') <- read_sequence r (Some (ctx aid_sasl true)) None ;;
    '(mech, sr) <- read_str sr None None ;;
    creds <- (match sr with
              | [] => Ok None
              | _ =>
                  nh <- peek_header sr ;;
                  if (t_cls (h_tag nh) =? cls_universal) && (t_num (h_tag nh) =? tn_octet_string) then
                    '(c, _) <- read_octet_string sr None (Some nh) ;; Ok (Some c)
                  else Ok None
              end) ;;
    Ok (CrSasl mech creds, r')
  else if (t_cls (h_tag h) =? cls_context) && (t_num (h_tag h) =? aid_simple) then
    '(pw, r') <- read_str r (Some (ctx aid_simple false)) None ;;
    Ok (CrSimple pw, r')
  else Raise NotImpl.

(* ---- filters *)
Definition unpack_ava (id : N) (r : reader) : res (str * octets * reader) :=
  '(fr, r') <- read_sequence r (Some (ctx id true)) None ;;
  '(a, fr) <- read_str fr None None ;;
  '(v, _) <- read_octet_string fr None None ;;
  Ok (a, v, r').

Definition sub_state := (option octets * list octets * option octets)%type.

Definition unpack_substrings (r : reader) : res (filter * reader) :=
  '(fr, r') <- read_sequence r (Some (ctx fid_substrings true)) None ;;
  '(a, fr) <- read_str fr None None ;;
  '(sr, _) <- read_sequence fr None None ;;
  st <- while_reader
          (fun (st : sub_state) (sr : reader) =>
             let '(ini, any, fin) := st in
             h <- peek_header sr ;;
             if is_ctx h 0 then
               match ini with
               | Some _ => Raise ValueErr
               | None => '(v, sr') <- read_octet_string sr None (Some h) ;; Ok ((Some v, any, fin), sr')
               end
             else if is_ctx h 1 then
               '(v, sr') <- read_octet_string sr None (Some h) ;; Ok ((ini, any ++ [v], fin), sr')
             else if is_ctx h 2 then
               match fin with
               | Some _ => Raise ValueErr
               | None => '(v, sr') <- read_octet_string sr None (Some h) ;; Ok ((ini, any, Some v), sr')
               end
             else Ok (st, skip_value sr h))
          (None, [], None) sr ;;
  let '(ini, any, fin) := st in
  Ok (FSub a ini any fin, r').

Definition ext_state := (option str * option str * octets * bool)%type.

Definition unpack_extensible (r : reader) : res (filter * reader) :=
  '(fr, r') <- read_sequence r (Some (ctx fid_extensible true)) None ;;
  st <- while_reader
          (fun (st : ext_state) (fr : reader) =>
             let '(rule, attr, v, dn) := st in
             h <- peek_header fr ;;
             if is_ctx h 1 then '(s, fr') <- read_str fr None (Some h) ;; Ok ((Some s, attr, v, dn), fr')
             else if is_ctx h 2 then '(s, fr') <- read_str fr None (Some h) ;; Ok ((rule, Some s, v, dn), fr')
             else if is_ctx h 3 then '(b, fr') <- read_octet_string fr None (Some h) ;; Ok ((rule, attr, b, dn), fr')
             else if is_ctx h 4 then '(b, fr') <- read_boolean fr None (Some h) ;; Ok ((rule, attr, v, b), fr')
             else Ok (st, skip_value fr h))
          (None, None, [], false) fr ;;
  let '(rule, attr, v, dn) := st in
  Ok (FExt rule attr v dn, r').

(* LDAPFilter.unpack: first choice (in options.choices order) whose filter_id matches *)
Fixpoint unpack_filter (d : nat) (r : reader) : res (filter * reader) :=
  match d with
  | O => Raise (Crash RecursionErr)
  | Datatypes.S d' =>
      h <- peek_header r ;;
      if negb (t_cls (h_tag h) =? cls_context) then Raise NotImpl
      else
        let n := t_num (h_tag h) in
        let many (id : N) (mk : list filter -> filter) :=
          '(sr, r') <- read_set r (Some (ctx id true)) None ;;
          fs <- while_reader (fun acc sr => '(f, sr') <- unpack_filter d' sr ;; Ok (acc ++ [f], sr')) [] sr ;;
          Ok (mk fs, r') in
        if n =? fid_and then many fid_and FAnd
        else if n =? fid_approx then '(a, v, r') <- unpack_ava fid_approx r ;; Ok (FApprox a v, r')
        else if n =? fid_equality then '(a, v, r') <- unpack_ava fid_equality r ;; Ok (FEq a v, r')
        else if n =? fid_extensible then unpack_extensible r
        else if n =? fid_ge then '(a, v, r') <- unpack_ava fid_ge r ;; Ok (FGe a v, r')
        else if n =? fid_le then '(a, v, r') <- unpack_ava fid_le r ;; Ok (FLe a v, r')
        else if n =? fid_not then
          '(nr, r') <- read_sequence r (Some (ctx fid_not true)) None ;;
          '(f, _) <- unpack_filter d' nr ;; Ok (FNot f, r')
        else if n =? fid_or then many fid_or FOr
        else if n =? fid_present then '(a, r') <- read_str r (Some (ctx fid_present false)) None ;; Ok (FPresent a, r')
        else if n =? fid_substrings then unpack_substrings r
        else Raise NotImpl
  end.

(* ---- LDAPResult, PartialAttribute *)
Definition unpack_result (r : reader) : res (ldap_result * reader) :=
  '(code, r) <- read_enumerated r None None ;;
  (* LDAPResultCode(code): the enum accepts every int when result_code_open *)
  _ <- (if result_code_open || (match code with Zneg _ => false | _ => in_table (Z.to_N code) result_codes end)
   then Ok tt else Raise ValueErr) ;;
  '(matched, r) <- read_str r None None ;;
  '(diag, r) <- read_str r None None ;;
  match r with
  | [] => Ok (mkResult code matched diag None, r)
  | _ =>
      h <- peek_header r ;;
      if is_ctx h 3 then
        '(rr, r') <- read_sequence r None (Some h) ;;
        refs <- while_reader (fun acc rr => '(s, rr') <- read_str rr None None ;; Ok (acc ++ [s], rr')) [] rr ;;
        Ok (mkResult code matched diag (Some refs), r')
      else Ok (mkResult code matched diag None, r)
  end.

Definition unpack_partial_attr (r : reader) : res (partial_attr * reader) :=
  '(ar, r') <- read_sequence r None None ;;
  '(name, ar) <- read_str ar None None ;;
  '(vr, _) <- read_set ar None None ;;
  vals <- while_reader (fun acc vr => '(v, vr') <- read_octet_string vr None None ;; Ok (acc ++ [v], vr')) [] vr ;;
  Ok (mkPA name vals, r').

(* ---- the protocol operations; [r] is protocol_reader *)
Definition enum_member (v : Z) (tbl : list N) : res unit :=
  match v with
  | Zneg _ => Raise ValueErr
  | _ => if in_table (Z.to_N v) tbl then Ok tt else Raise ValueErr
  end.

Definition unpack_op (d : nat) (num : N) (r : reader) : res op :=
  if num =? op_bind_request then
    '(version, r) <- read_integer r None None ;;
    '(name, r) <- read_str r None None ;;
    '(auth, _) <- unpack_cred r ;;
    Ok (BindRequest version name auth)
  else if num =? op_bind_response then
    '(res, r) <- unpack_result r ;;
    sasl <- while_reader
              (fun (acc : option octets) r =>
                 h <- peek_header r ;;
                 if is_ctx h 7 then '(v, r') <- read_octet_string r None (Some h) ;; Ok (Some v, r')
                 else Ok (acc, skip_value r h))
              None r ;;
    Ok (BindResponse res sasl)
  else if num =? op_unbind_request then Ok UnbindRequest
  else if num =? op_search_request then
    '(base, r) <- read_octet_string r None None ;;
    '(scope, r) <- read_enumerated r None None ;;
    _ <- enum_member scope search_scopes ;;
    '(deref, r) <- read_enumerated r None None ;;
    _ <- enum_member deref deref_policies ;;
    '(size, r) <- read_integer r None None ;;
    '(time, r) <- read_integer r None None ;;
    '(types_only, r) <- read_boolean r None None ;;
    '(f, r) <- unpack_filter d r ;;
    '(ar, _) <- read_sequence r None None ;;
    attrs <- while_reader (fun acc ar => '(s, ar') <- read_str ar None None ;; Ok (acc ++ [s], ar')) [] ar ;;
    base <- dec_str base ;;
    Ok (SearchRequest base scope deref size time types_only f attrs)
  else if num =? op_search_result_entry then
    '(name, r) <- read_str r None None ;;
    '(ar, _) <- read_sequence r None None ;;
    attrs <- while_reader (fun acc ar => '(a, ar') <- unpack_partial_attr ar ;; Ok (acc ++ [a], ar')) [] ar ;;
    Ok (SearchResultEntry name attrs)
  else if num =? op_search_result_done then
    '(res, _) <- unpack_result r ;; Ok (SearchResultDone res)
  else if num =? op_search_result_reference then
    uris <- while_reader (fun acc r => '(s, r') <- read_str r None None ;; Ok (acc ++ [s], r')) [] r ;;
    Ok (SearchResultReference uris)
  else if num =? op_extended_request then
    '(name, r) <- read_str r (Some (ctx 0 false)) None ;;
    value <- while_reader
               (fun (acc : option octets) r =>
                  h <- peek_header r ;;
                  if is_ctx h 1 then '(v, r') <- read_octet_string r None (Some h) ;; Ok (Some v, r')
                  else Ok (acc, skip_value r h))
               None r ;;
    Ok (ExtendedRequest name value)
  else if num =? op_extended_response then
    '(res, r) <- unpack_result r ;;
    nv <- while_reader
            (fun (acc : option str * option octets) r =>
               h <- peek_header r ;;
               if is_ctx h 10 then '(s, r') <- read_str r None (Some h) ;; Ok ((Some s, snd acc), r')
               else if is_ctx h 11 then '(v, r') <- read_octet_string r None (Some h) ;; Ok ((fst acc, Some v), r')
               else Ok (acc, skip_value r h))
            (None, None) r ;;
    Ok (ExtendedResponse res (fst nv) (snd nv))
  else Raise NotImpl.

(* _unpack_ldap_message_value: everything inside the envelope *)
Definition unpack_message_value (d : nat) (message : reader) : res msg :=
  '(id, message) <- read_integer message None None ;;
  h <- peek_header message ;;
  if negb (t_cls (h_tag h) =? cls_application) then Raise ValueErr
  else if negb (in_table (t_num (h_tag h)) protocol_packer_keys) then Raise NotImpl
  else
    '(pr, message) <- read_sequence message None (Some h) ;;
    st <- while_reader
            (fun (st : list control * option str) message =>
               nh <- peek_header message ;;
               if is_ctx nh 0 then
                 '(cr, message') <- read_sequence message None (Some nh) ;;
                 cs <- while_reader (fun acc cr => '(c, cr') <- unpack_control cr ;; Ok (acc ++ [c], cr')) (fst st) cr ;;
                 Ok ((cs, snd st), message')
               else if is_ctx nh 10 then
                 '(s, message') <- read_str message None (Some nh) ;;
                 Ok ((fst st, Some s), message')
               else Ok (st, skip_value message nh))
            ([], None) message ;;
    o <- unpack_op d (t_num (h_tag h)) pr ;;
    (* MS-ADTS responseName [10] outside the protocolOp *)
    let o := match o, snd st with
             | ExtendedResponse res name value, Some ((_ :: _) as rn) =>
                 match name with
                 | None | Some [] => ExtendedResponse res (Some rn) value
                 | _ => o
                 end
             | _, _ => o
             end in
    Ok (mkMsg id o (fst st)).

(* unpack_ldap_message: the envelope may be incomplete (NeedMore); once it is complete any
   NotEnougData below is malformed data (ValueError) *)
Definition unpack_message (d : nat) (r : reader) : res (msg * reader) :=
  '(message, r') <- read_sequence r None None ;;
  match unpack_message_value d message with
  | Ok m => Ok (m, r')
  | Raise NeedMore => Raise ValueErr
  | Raise e => Raise e
  end.
