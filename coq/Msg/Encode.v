(* Model of LDAPMessage.pack and every _pack_inner / pack below it. *)
From Coq Require Import ZArith NArith List Bool.
From Coq.Strings Require Import Byte.
From SV Require Import Base.Bytes Base.Py Gen.Generated Asn1.Model Msg.Types.
Import ListNotations.
Local Open Scope N_scope.

(* _pack_asn1 for tag classes that are known to be valid *)
Definition tlv (t : tag) (data : list byte) : list byte :=
  pack_identifier (t_cls t) (t_cons t) (t_num t) ++ pack_length (nlen data) ++ data.

Definition ctx (n : N) (cons : bool) : tag := mkTag cls_context n cons.
Definition app_tag (n : N) : tag := mkTag cls_application n true.
Definition u_bool := universal tn_boolean false.
Definition u_int := universal tn_integer false.
Definition u_enum := universal tn_enumerated false.
Definition u_oct := universal tn_octet_string false.
Definition u_seq := universal tn_sequence true.
Definition u_set := universal tn_set true.

Definition w_int (z : Z) := tlv u_int (int_content z).
Definition w_enum (z : Z) := tlv u_enum (int_content z).
Definition w_bool (t : tag) (b : bool) := tlv t [if b then xff else x00].
Definition w_oct (t : tag) (v : list byte) := tlv t v.
Definition w_opt_oct (t : tag) (v : option (list byte)) : list byte :=
  match v with Some v => w_oct t v | None => [] end.
Definition cat {A} (f : A -> list byte) (l : list A) : list byte := flat_map f l.

(* ---- controls *)
Definition paged_value (size : Z) (cookie : octets) : octets :=
  tlv u_seq (w_int size ++ w_oct u_oct cookie).

Definition control_oid (c : control) : str :=
  match c with
  | CGeneric oid _ _ => oid
  | CPaged _ _ _ _ => oid_paged
  | CShowDeleted _ _ => oid_show_deleted
  | CShowDeactivated _ _ => oid_show_deactivated
  end.
Definition control_crit (c : control) : bool :=
  match c with
  | CGeneric _ b _ | CPaged b _ _ _ | CShowDeleted b _ | CShowDeactivated b _ => b
  end.
(* get_value() *)
Definition control_value (c : control) : option octets :=
  match c with
  | CGeneric _ _ v => v
  | CPaged _ size cookie _ => Some (paged_value size cookie)
  | CShowDeleted _ raw | CShowDeactivated _ raw => raw
  end.

Definition enc_control (c : control) : list byte :=
  tlv u_seq (w_oct u_oct (control_oid c)
             ++ (if control_crit c then w_bool u_bool true else [])
             ++ w_opt_oct u_oct (control_value c)).

(* ---- credentials *)
Definition enc_cred (c : cred) : list byte :=
  match c with
  | CrSimple pw => w_oct (ctx aid_simple false) pw
  | CrSasl mech creds => tlv (ctx aid_sasl true) (w_oct u_oct mech ++ w_opt_oct u_oct creds)
  end.

(* ---- filters *)
Fixpoint enc_filter (f : filter) : list byte :=
  match f with
  | FAnd fs => tlv (ctx fid_and true) (flat_map enc_filter fs)
  | FOr fs => tlv (ctx fid_or true) (flat_map enc_filter fs)
  | FNot g => tlv (ctx fid_not true) (enc_filter g)
  | FEq a v => tlv (ctx fid_equality true) (w_oct u_oct a ++ w_oct u_oct v)
  | FGe a v => tlv (ctx fid_ge true) (w_oct u_oct a ++ w_oct u_oct v)
  | FLe a v => tlv (ctx fid_le true) (w_oct u_oct a ++ w_oct u_oct v)
  | FApprox a v => tlv (ctx fid_approx true) (w_oct u_oct a ++ w_oct u_oct v)
  | FPresent a => w_oct (ctx fid_present false) a
  | FSub a ini any fin =>
      tlv (ctx fid_substrings true)
        (w_oct u_oct a
         ++ tlv u_seq (w_opt_oct (ctx 0 false) ini
                       ++ cat (w_oct (ctx 1 false)) any
                       ++ w_opt_oct (ctx 2 false) fin))
  | FExt rule attr v dn =>
      tlv (ctx fid_extensible true)
        (w_opt_oct (ctx 1 false) rule
         ++ w_opt_oct (ctx 2 false) attr
         ++ w_oct (ctx 3 false) v
         ++ (if dn then w_bool (ctx 4 false) true else []))
  end.

(* ---- results, attributes, operations *)
Definition enc_result (r : ldap_result) : list byte :=
  w_enum (r_code r) ++ w_oct u_oct (r_matched r) ++ w_oct u_oct (r_diag r)
  ++ match r_referrals r with
     | Some l => tlv (ctx 3 true) (cat (w_oct u_oct) l)
     | None => []
     end.

Definition enc_partial_attr (a : partial_attr) : list byte :=
  tlv u_seq (w_oct u_oct (pa_name a) ++ tlv u_set (cat (w_oct u_oct) (pa_vals a))).

Definition op_tag_number (o : op) : N :=
  match o with
  | BindRequest _ _ _ => op_bind_request
  | BindResponse _ _ => op_bind_response
  | UnbindRequest => op_unbind_request
  | SearchRequest _ _ _ _ _ _ _ _ => op_search_request
  | SearchResultEntry _ _ => op_search_result_entry
  | SearchResultDone _ => op_search_result_done
  | SearchResultReference _ => op_search_result_reference
  | ExtendedRequest _ _ => op_extended_request
  | ExtendedResponse _ _ _ => op_extended_response
  end.

Definition enc_op_inner (o : op) : list byte :=
  match o with
  | BindRequest version name auth => w_int version ++ w_oct u_oct name ++ enc_cred auth
  | BindResponse res sasl => enc_result res ++ w_opt_oct (ctx 7 false) sasl
  | UnbindRequest => []
  | SearchRequest base scope deref size time types_only f attrs =>
      w_oct u_oct base ++ w_enum scope ++ w_enum deref ++ w_int size ++ w_int time
      ++ w_bool u_bool types_only ++ enc_filter f ++ tlv u_seq (cat (w_oct u_oct) attrs)
  | SearchResultEntry name attrs => w_oct u_oct name ++ tlv u_seq (cat enc_partial_attr attrs)
  | SearchResultDone res => enc_result res
  | SearchResultReference uris => cat (w_oct u_oct) uris
  | ExtendedRequest name value => w_oct (ctx 0 false) name ++ w_opt_oct (ctx 1 false) value
  | ExtendedResponse res name value =>
      enc_result res ++ w_opt_oct (ctx 10 false) name ++ w_opt_oct (ctx 11 false) value
  end.

(* LDAPMessage.pack *)
Definition enc_msg (m : msg) : list byte :=
  tlv u_seq (w_int (m_id m)
             ++ tlv (app_tag (op_tag_number (m_op m))) (enc_op_inner (m_op m))
             ++ match m_controls m with
                | [] => []
                | cs => tlv (ctx 0 true) (cat enc_control cs)
                end).
