(* C04: the decoder reads every encoding a conforming peer may produce (Msg/Peer.v) to the value it
   reads from the library's own encoding.  The development follows Msg/RoundTrip.v step by step, with
   the TLV lemmas of Asn1/Lenient.v in place of the canonical ones. *)
From Coq Require Import ZArith NArith List Bool Lia ZifyBool.
From Coq.Strings Require Import Byte.
From SV Require Import Base.Bytes Base.Py Gen.Generated Asn1.Model Asn1.Spec Asn1.IntProofs Asn1.TlvProofs Asn1.Progress
  Asn1.Lenient Msg.Types Msg.Encode Msg.Decode Msg.RoundTrip Msg.Peer.
Import ListNotations.
Local Open Scope N_scope.

Section Lenient.
Variable lf : list byte -> list byte.
Variable tb : byte.
Variable explicit : bool.
Hypothesis lf_valid : forall d, fits d -> valid_len (lf d) (nlen d).
Hypothesis tb_nonzero : tb <> x00.
(* trailing elements: tags no component of any LDAP SEQUENCE uses (APPLICATION or PRIVATE class, or a
   context-specific number above every defined one) *)
Variable trail : nat -> list (tag * list byte).
Definition unknown_tag (t : tag) : Prop := t_cls t = 1 \/ t_cls t = 3 \/ (t_cls t = 2 /\ 12 <= t_num t).
Hypothesis trail_unknown : forall k x, In x (trail k) -> unknown_tag (fst x).

Notation ptlv := (ptlv lf).
Notation pw_int := (pw_int lf).
Notation pw_enum := (pw_enum lf).
Notation pw_bool := (pw_bool lf tb).
Notation pw_dflt := (pw_dflt lf tb explicit).
Notation pw_oct := (pw_oct lf).
Notation pw_opt_oct := (pw_opt_oct lf).
Notation ppaged_value := (ppaged_value lf trail).
Notation ptrail := (ptrail lf trail).
Notation pcontrol_value := (pcontrol_value lf trail).
Notation penc_control := (penc_control lf tb explicit trail).
Notation penc_cred := (penc_cred lf trail).
Notation penc_filter := (penc_filter lf tb explicit trail).
Notation penc_result := (penc_result lf).
Notation penc_partial_attr := (penc_partial_attr lf trail).
Notation penc_op_inner := (penc_op_inner lf tb explicit trail).
Notation penc_msg := (penc_msg lf tb explicit trail).


Lemma fits_app_l a b : fits (a ++ b) -> fits a.
Proof. unfold fits. rewrite nlen_app. lia. Qed.
Lemma fits_app_r a b : fits (a ++ b) -> fits b.
Proof. unfold fits. rewrite nlen_app. lia. Qed.
Lemma fits_tlv t d : fits (ptlv t d) -> fits d.
Proof. unfold Peer.ptlv. intros H. apply fits_app_r in H. now apply fits_app_r in H. Qed.

Lemma wf_ctx n c : wf_tag (ctx n c).
Proof. split; cbn; [vm_compute; discriminate|vm_compute; discriminate]. Qed.
Lemma wf_app n : wf_tag (app_tag n).
Proof. split; cbn; [vm_compute; discriminate|vm_compute; discriminate]. Qed.
Lemma wf_u_bool : wf_tag u_bool. Proof. apply wf_universal. reflexivity. Qed.
Lemma wf_u_int : wf_tag u_int. Proof. apply wf_universal. reflexivity. Qed.
Lemma wf_u_enum : wf_tag u_enum. Proof. apply wf_universal. reflexivity. Qed.
Lemma wf_u_oct : wf_tag u_oct. Proof. apply wf_universal. reflexivity. Qed.
Lemma wf_u_seq : wf_tag u_seq. Proof. apply wf_universal. reflexivity. Qed.
Lemma wf_u_set : wf_tag u_set. Proof. apply wf_universal. reflexivity. Qed.
#[local] Hint Resolve wf_ctx wf_app wf_u_bool wf_u_int wf_u_enum wf_u_oct wf_u_seq wf_u_set : wf.

Lemma wf_cls t : wf_tag t -> t_cls t <= 3.
Proof. now intros [H _]. Qed.

Lemma tlv_nonempty t d : ptlv t d <> [].
Proof. unfold Peer.ptlv, pack_identifier. destruct (_ <? 31); discriminate. Qed.

(* ---- what the reader does on a TLV that the writer produced *)
Lemma validate_tlv t d rest :
  wf_tag t -> fits d -> validate_tag (ptlv t d ++ rest) t None = Ok (d, nlen (ptlv t d)).
Proof.
  intros W F. exact (tlv_any_length t (lf d) d rest W (lf_valid d F)).
Qed.

Definition phdr_of (t : tag) (d : list byte) : header := mkHdr t (ident_octets t + nlen (lf d)) (nlen d).

Lemma peek_tlv t d rest :
  wf_tag t -> fits d ->
  peek_header (ptlv t d ++ rest) = Ok (phdr_of t d).
Proof.
  intros W F. unfold peek_header, Peer.ptlv. rewrite <- !app_assoc. apply header_any_length; auto.
Qed.

Lemma validate_tag_hdr_eq data t h : read_header data = Ok h -> validate_tag data t (Some h) = validate_tag data t None.
Proof. intros H. unfold validate_tag. now rewrite H. Qed.

Lemma validate_tlv_hdr t d rest h :
  wf_tag t -> fits d -> h = mkHdr t (ident_octets t + nlen (lf d)) (nlen d) ->
  validate_tag (ptlv t d ++ rest) t (Some h) = Ok (d, nlen (ptlv t d)).
Proof.
  intros W F ->. rewrite validate_tag_hdr_eq; [now apply validate_tlv|].
  now apply (peek_tlv t d rest).
Qed.

(* reads with an explicit tag, with the default tag, and with a peeked header *)

Lemma rd_tlv {A} (f : list byte -> option tag -> option header -> res (A * N)) t d rest ot oh (v : A) :
  f (ptlv t d ++ rest) ot oh = Ok (v, nlen (ptlv t d)) ->
  rd f (ptlv t d ++ rest) ot oh = Ok (v, rest).
Proof. intros H. unfold rd. rewrite H. cbn [bind]. now rewrite drop_app_exact. Qed.

Lemma read_oct_tag t d rest : wf_tag t -> fits d -> read_octet_string (ptlv t d ++ rest) (Some t) None = Ok (d, rest).
Proof. intros. apply rd_tlv. unfold read_octet_string_raw, pick_tag. now apply validate_tlv. Qed.
Lemma read_oct_dflt d rest : fits d -> read_octet_string (ptlv u_oct d ++ rest) None None = Ok (d, rest).
Proof. intros. apply rd_tlv. unfold read_octet_string_raw, pick_tag. apply validate_tlv; auto with wf. Qed.
Lemma read_oct_hdr t d rest : wf_tag t -> fits d -> read_octet_string (ptlv t d ++ rest) None (Some (phdr_of t d)) = Ok (d, rest).
Proof. intros. apply rd_tlv. unfold read_octet_string_raw, pick_tag. cbn [h_tag phdr_of]. now apply validate_tlv_hdr. Qed.

Lemma read_seq_tag t d rest : wf_tag t -> fits d -> read_sequence (ptlv t d ++ rest) (Some t) None = Ok (d, rest).
Proof. intros. apply rd_tlv. unfold read_sequence_raw, pick_tag. now apply validate_tlv. Qed.
Lemma read_seq_dflt d rest : fits d -> read_sequence (ptlv u_seq d ++ rest) None None = Ok (d, rest).
Proof. intros. apply rd_tlv. unfold read_sequence_raw, pick_tag. apply validate_tlv; auto with wf. Qed.
Lemma read_seq_hdr t d rest : wf_tag t -> fits d -> read_sequence (ptlv t d ++ rest) None (Some (phdr_of t d)) = Ok (d, rest).
Proof. intros. apply rd_tlv. unfold read_sequence_raw, pick_tag. cbn [h_tag phdr_of]. now apply validate_tlv_hdr. Qed.
Lemma read_set_tag t d rest : wf_tag t -> fits d -> read_set (ptlv t d ++ rest) (Some t) None = Ok (d, rest).
Proof. intros. apply rd_tlv. unfold read_set_raw, pick_tag. now apply validate_tlv. Qed.
Lemma read_set_dflt d rest : fits d -> read_set (ptlv u_set d ++ rest) None None = Ok (d, rest).
Proof. intros. apply rd_tlv. unfold read_set_raw, pick_tag. apply validate_tlv; auto with wf. Qed.

Lemma fits_int z : fits (pw_int z) -> fits (int_content z).
Proof. apply fits_tlv. Qed.

Lemma read_int_dflt z rest : fits (int_content z) -> read_integer (ptlv u_int (int_content z) ++ rest) None None = Ok (z, rest).
Proof.
  intros F. apply rd_tlv. unfold read_integer_raw, pick_tag.
  rewrite validate_tlv by auto with wf. cbn [bind]. rewrite int_content_roundtrip. reflexivity.
Qed.
Lemma read_enum_dflt z rest : fits (int_content z) -> read_enumerated (ptlv u_enum (int_content z) ++ rest) None None = Ok (z, rest).
Proof.
  intros F. apply rd_tlv. unfold read_enumerated_raw, pick_tag.
  rewrite validate_tlv by auto with wf. cbn [bind]. rewrite int_content_roundtrip. reflexivity.
Qed.

Lemma fits_one b : fits [b].
Proof. unfold fits, nlen. cbn [length]. reflexivity. Qed.

Lemma tb_reads_true : negb (bytes_eqb [tb] [x00]) = true.
Proof. apply boolean_nonzero_true. intros E. injection E as E. exact (tb_nonzero E). Qed.

Lemma read_bool_dflt (b : bool) rest : read_boolean (ptlv u_bool [if b then tb else x00] ++ rest) None None = Ok (b, rest).
Proof.
  apply rd_tlv. unfold read_boolean_raw, pick_tag.
  rewrite validate_tlv by (auto with wf; apply fits_one). cbn [bind]. destruct b; [now rewrite tb_reads_true|reflexivity].
Qed.
Lemma read_bool_hdr t (b : bool) rest : wf_tag t ->
  read_boolean (ptlv t [if b then tb else x00] ++ rest) None (Some (phdr_of t [if b then tb else x00])) = Ok (b, rest).
Proof.
  intros W. apply rd_tlv. unfold read_boolean_raw, pick_tag. cbn [h_tag phdr_of].
  rewrite validate_tlv_hdr by (auto; apply fits_one). cbn [bind]. destruct b; [now rewrite tb_reads_true|reflexivity].
Qed.

(* strings: encode is the identity on valid UTF-8 *)
Lemma read_str_dflt s rest : utf8_valid s = true -> fits s -> read_str (ptlv u_oct s ++ rest) None None = Ok (s, rest).
Proof. intros U F. unfold read_str. rewrite read_oct_dflt by auto. cbn [bind]. unfold dec_str. now rewrite U. Qed.
Lemma read_str_tag t s rest : wf_tag t -> utf8_valid s = true -> fits s ->
  read_str (ptlv t s ++ rest) (Some t) None = Ok (s, rest).
Proof. intros W U F. unfold read_str. rewrite read_oct_tag by auto. cbn [bind]. unfold dec_str. now rewrite U. Qed.
Lemma read_str_hdr t s rest : wf_tag t -> utf8_valid s = true -> fits s ->
  read_str (ptlv t s ++ rest) None (Some (phdr_of t s)) = Ok (s, rest).
Proof. intros W U F. unfold read_str. rewrite read_oct_hdr by auto. cbn [bind]. unfold dec_str. now rewrite U. Qed.

(* ---- loops over concatenated encodings *)
Lemma while_items {A} (enc : A -> list byte) (dec : reader -> res (A * reader)) :
  forall xs acc,
  (forall x, In x xs -> enc x <> []) ->
  (forall x rest, In x xs -> dec (enc x ++ rest) = Ok (x, rest)) ->
  forall fuel, (length xs < fuel)%nat ->
  loop fuel (fun acc r => '(x, r') <- dec r ;; Ok (acc ++ [x], r')) acc (cat enc xs) = Ok (acc ++ xs).
Proof.
  induction xs as [|x xs IH]; intros acc Hne Hdec fuel Hf.
  - destruct fuel; [cbn in Hf; lia|]. cbn [cat flat_map loop]. now rewrite app_nil_r.
  - destruct fuel as [|f]; [cbn in Hf; lia|].
    cbn [cat flat_map]. 
    assert (Hx : enc x <> []) by (apply Hne; now left).
    destruct (enc x ++ flat_map enc xs) as [|b0 r0] eqn:E.
    { apply app_eq_nil in E. destruct E; congruence. }
    rewrite <- E. cbn [loop]. rewrite E. rewrite <- E.
    rewrite Hdec by now left. cbn [bind].
    change (flat_map enc xs) with (cat enc xs).
    rewrite IH; [now rewrite <- app_assoc| | |cbn in Hf; lia].
    + intros y Hy. apply Hne. now right.
    + intros y rest Hy. apply Hdec. now right.
Qed.

Lemma cat_length_ge {A} (enc : A -> list byte) xs :
  (forall x, In x xs -> enc x <> []) -> (length xs <= length (cat enc xs))%nat.
Proof.
  induction xs as [|x xs IH]; intros H; cbn [cat flat_map length]; [lia|].
  rewrite app_length. assert (enc x <> []) by (apply H; now left).
  destruct (enc x); [congruence|]. cbn [length]. unfold cat in IH. specialize (IH (fun y Hy => H y (or_intror Hy))). lia.
Qed.

Lemma while_reader_items {A} (enc : A -> list byte) (dec : reader -> res (A * reader)) xs acc :
  (forall x, In x xs -> enc x <> []) ->
  (forall x rest, In x xs -> dec (enc x ++ rest) = Ok (x, rest)) ->
  while_reader (fun acc r => '(x, r') <- dec r ;; Ok (acc ++ [x], r')) acc (cat enc xs) = Ok (acc ++ xs).
Proof.
  intros Hne Hdec. unfold while_reader. apply while_items; auto.
  pose proof (cat_length_ge enc xs Hne). lia.
Qed.

(* ---- bookkeeping of the size side condition *)
Ltac unfold_w := unfold Peer.pw_opt_oct, cat in *; unfold Peer.pw_oct, Peer.pw_int, Peer.pw_enum, Peer.pw_bool in *.
Ltac add_fact H :=
  let T := type of H in
  lazymatch goal with
  | _ : T |- _ => fail
  | _ => pose proof H
  end.
Ltac sat_fits :=
  repeat match goal with
         | H : fits (match ?x with _ => _ end) |- _ => destruct x
         | H : fits (if ?b then _ else _) |- _ => destruct b
         | H : fits (ptlv ?t ?d) |- _ => add_fact (fits_tlv t d H)
         | H : fits (?a ++ ?b) |- _ => first [add_fact (fits_app_l a b H) | add_fact (fits_app_r a b H)]
         end.

Lemma match_app_nonempty {A B} (x y : list A) (a b : B) :
  x <> [] -> match x ++ y with [] => a | _ :: _ => b end = b.
Proof. destruct x; [congruence|reflexivity]. Qed.

Lemma fits_nil : fits [].
Proof. reflexivity. Qed.

Lemma app_nil_end {A} (l : list A) : l = l ++ [].
Proof. now rewrite app_nil_r. Qed.

(* ---- trailing elements *)
Lemma wf_unknown t : unknown_tag t -> wf_tag t.
Proof. intros [H|[H|[H _]]]; split; rewrite H; try lia; intros E; vm_compute in E; discriminate. Qed.

Lemma unknown_not_ctx t d n : unknown_tag t -> n < 12 -> is_ctx (phdr_of t d) n = false.
Proof.
  intros [H|[H|[H H2]]] Hn; unfold is_ctx, phdr_of; cbn [h_tag]; rewrite H; try reflexivity.
  change (2 =? cls_context) with true. cbn [andb]. destruct (N.eqb_spec (t_num t) n); [lia|reflexivity].
Qed.

Lemma unknown_not_univ t d n : unknown_tag t ->
  (t_cls (h_tag (phdr_of t d)) =? cls_universal) && (t_num (h_tag (phdr_of t d)) =? n) = false.
Proof. intros [H|[H|[H _]]]; cbn [h_tag phdr_of]; rewrite H; reflexivity. Qed.

Lemma nlen_ptlv t d : nlen (ptlv t d) = ident_octets t + nlen (lf d) + nlen d.
Proof. unfold Peer.ptlv, ident_octets. rewrite !nlen_app. lia. Qed.

Lemma skip_tlv t d rest : skip_value (ptlv t d ++ rest) (phdr_of t d) = rest.
Proof.
  unfold skip_value, phdr_of. cbn [h_hlen h_len].
  replace (ident_octets t + nlen (lf d) + nlen d) with (nlen (ptlv t d)) by apply nlen_ptlv. apply drop_app_exact.
Qed.

Definition tr_enc (x : tag * list byte) : list byte := ptlv (fst x) (snd x).

Lemma ptrail_eq k : ptrail k = flat_map tr_enc (trail k).
Proof. reflexivity. Qed.

Lemma tr_fits k x : fits (ptrail k) -> In x (trail k) -> fits (snd x).
Proof. intros F H. rewrite ptrail_eq in F. apply (fits_tlv (fst x)). exact (fits_flat_map tr_enc _ x F H). Qed.

(* what may follow the defined components: nothing, or an element with an unknown tag *)
Lemma ptrail_cases k : fits (ptrail k) ->
  ptrail k = [] \/ exists t d rest, ptrail k = ptlv t d ++ rest /\ unknown_tag t /\ fits d.
Proof.
  intros F. rewrite ptrail_eq in *. destruct (trail k) as [|x xs] eqn:E; [now left|]. right.
  exists (fst x), (snd x), (flat_map tr_enc xs). cbn [flat_map]. split; [reflexivity|]. split.
  - apply (trail_unknown k). rewrite E. now left.
  - cbn [flat_map] in F. apply fits_app_l in F. now apply fits_tlv in F.
Qed.

(* a loop body that skips elements it does not recognise runs through the trailing elements *)
Lemma loop_skip_trail {S} (body : S -> reader -> res (S * reader)) k st tail fuel :
  fits (ptrail k) ->
  (forall t d st rest, unknown_tag t -> fits d -> body st (ptlv t d ++ rest) = Ok (st, rest)) ->
  loop (length (trail k) + fuel) body st (ptrail k ++ tail) = loop fuel body st tail.
Proof.
  intros F Hb. rewrite ptrail_eq.
  rewrite (loop_items_state tr_enc (fun (s : S) _ => s) body).
  - f_equal. clear. induction (trail k) as [|x xs IH]; [reflexivity|exact IH].
  - intros x _. apply tlv_nonempty.
  - intros s x rest Hx. apply Hb; [now apply (trail_unknown k)|now apply (tr_fits k)].
Qed.

Lemma ptrail_len k : (length (trail k) <= length (ptrail k))%nat.
Proof. rewrite ptrail_eq. apply length_flat_map_ge. intros x _. apply tlv_nonempty. Qed.

(* ---- controls *)


Definition pnorm_control (c : control) : control :=
  match c with
  | CPaged crit size cookie _ => CPaged crit size cookie (Some (ppaged_value size cookie))
  | _ => c
  end.

Lemma utf8_oids : utf8_valid oid_paged = true /\ utf8_valid oid_show_deleted = true /\ utf8_valid oid_show_deactivated = true.
Proof. repeat split; vm_compute; reflexivity. Qed.

Lemma oid_tests :
  bytes_eqb oid_paged oid_paged = true /\
  bytes_eqb oid_show_deactivated oid_paged = false /\ bytes_eqb oid_show_deactivated oid_show_deactivated = true /\
  bytes_eqb oid_show_deleted oid_paged = false /\ bytes_eqb oid_show_deleted oid_show_deactivated = false /\
  bytes_eqb oid_show_deleted oid_show_deleted = true.
Proof. repeat split; vm_compute; reflexivity. Qed.

Lemma tn_distinct : (tn_octet_string =? tn_boolean) = false /\ (tn_boolean =? tn_octet_string) = false /\
                    (cls_universal =? cls_universal) = true /\ (tn_boolean =? tn_boolean) = true /\
                    (tn_octet_string =? tn_octet_string) = true.
Proof. repeat split; vm_compute; reflexivity. Qed.


Ltac side :=
  first [ assumption | apply fits_one | apply fits_nil | solve [auto with wf] | apply tlv_nonempty ].

Lemma is_univ_bool c : (t_cls (h_tag (phdr_of u_bool c)) =? cls_universal) && (t_num (h_tag (phdr_of u_bool c)) =? tn_boolean) = true.
Proof. reflexivity. Qed.
Lemma is_univ_bool_oct c : (t_cls (h_tag (phdr_of u_bool c)) =? cls_universal) && (t_num (h_tag (phdr_of u_bool c)) =? tn_octet_string) = false.
Proof. reflexivity. Qed.
Lemma is_univ_oct v : (t_cls (h_tag (phdr_of u_oct v)) =? cls_universal) && (t_num (h_tag (phdr_of u_oct v)) =? tn_octet_string) = true.
Proof. reflexivity. Qed.
Lemma is_univ_oct_bool v : (t_cls (h_tag (phdr_of u_oct v)) =? cls_universal) && (t_num (h_tag (phdr_of u_oct v)) =? tn_boolean) = false.
Proof. reflexivity. Qed.

(* the criticality / value tail of a control as unpack_control walks it; [k] is the rest of the
   decoder, applied to (criticality, value).  Criticality may be absent (FALSE), an explicit FALSE, or
   TRUE written as any non-zero octet. *)
Lemma control_tail {B} (crit : bool) (value : option octets) (k : bool -> option octets -> res B) :
  fits (pw_dflt u_bool crit ++ pw_opt_oct u_oct value ++ ptrail 0) ->
  (let cr := pw_dflt u_bool crit ++ pw_opt_oct u_oct value ++ ptrail 0 in
   nh <- (match cr with [] => Ok (@None header) | _ => h <- peek_header cr ;; Ok (Some h) end) ;;
   let is_univ (h : option header) (n : N) :=
     match h with
     | Some h => (t_cls (h_tag h) =? cls_universal) && (t_num (h_tag h) =? n)
     | None => false
     end in
   '(crit', cr, nh) <-
      (if is_univ nh tn_boolean then
         '(b, cr') <- read_boolean cr None nh ;;
         nh' <- (match cr' with [] => Ok nh | _ => h <- peek_header cr' ;; Ok (Some h) end) ;;
         Ok (b, cr', nh')
       else Ok (false, cr, nh)) ;;
   v <- (if is_univ nh tn_octet_string then
           '(v, _) <- read_octet_string cr None nh ;; Ok (Some v)
         else Ok (@None octets)) ;;
   k crit' v) = k crit value.
Proof.
  intros F. cbv zeta.
  assert (Ft : fits (ptrail 0)) by (apply fits_app_r in F; now apply fits_app_r in F).
  unfold Peer.pw_dflt, Peer.pw_bool in *.
  destruct crit; [|destruct explicit]; destruct value as [v|]; unfold Peer.pw_opt_oct, Peer.pw_oct in *; cbn [app] in *; sat_fits.
  - rewrite match_app_nonempty by side. rewrite peek_tlv by side. cbn [bind].
    rewrite is_univ_bool. rewrite (read_bool_hdr u_bool true) by side. cbn [bind].
    rewrite match_app_nonempty by side. rewrite peek_tlv by side. cbn [bind].
    rewrite is_univ_oct. rewrite read_oct_hdr by side. reflexivity.
  - rewrite match_app_nonempty by side. rewrite peek_tlv by side. cbn [bind].
    rewrite is_univ_bool. rewrite (read_bool_hdr u_bool true) by side. cbn [bind].
    destruct (ptrail_cases 0 Ft) as [E|(t & d & rest & E & U & Fd)]; rewrite E.
    + cbn [bind]. rewrite is_univ_bool_oct. reflexivity.
    + rewrite match_app_nonempty by side. rewrite peek_tlv by (auto using wf_unknown). cbn [bind].
      rewrite unknown_not_univ by assumption. reflexivity.
  - rewrite match_app_nonempty by side. rewrite peek_tlv by side. cbn [bind].
    rewrite is_univ_bool. rewrite (read_bool_hdr u_bool false) by side. cbn [bind].
    rewrite match_app_nonempty by side. rewrite peek_tlv by side. cbn [bind].
    rewrite is_univ_oct. rewrite read_oct_hdr by side. reflexivity.
  - rewrite match_app_nonempty by side. rewrite peek_tlv by side. cbn [bind].
    rewrite is_univ_bool. rewrite (read_bool_hdr u_bool false) by side. cbn [bind].
    destruct (ptrail_cases 0 Ft) as [E|(t & d & rest & E & U & Fd)]; rewrite E.
    + cbn [bind]. rewrite is_univ_bool_oct. reflexivity.
    + rewrite match_app_nonempty by side. rewrite peek_tlv by (auto using wf_unknown). cbn [bind].
      rewrite unknown_not_univ by assumption. reflexivity.
  - rewrite match_app_nonempty by side. rewrite peek_tlv by side. cbn [bind].
    rewrite is_univ_oct_bool. cbn [bind]. rewrite is_univ_oct. rewrite read_oct_hdr by side. reflexivity.
  - destruct (ptrail_cases 0 Ft) as [E|(t & d & rest & E & U & Fd)]; rewrite E; [reflexivity|].
    rewrite match_app_nonempty by side. rewrite peek_tlv by (auto using wf_unknown). cbn [bind].
    rewrite unknown_not_univ by assumption. cbn [bind]. rewrite unknown_not_univ by assumption. reflexivity.
Qed.

Lemma paged_rt crit size cookie :
  fits (ppaged_value size cookie) ->
  unpack_paged crit (Some (ppaged_value size cookie)) = Ok (CPaged crit size cookie (Some (ppaged_value size cookie))).
Proof.
  intros F. unfold unpack_paged, Peer.ppaged_value in *. unfold_w. sat_fits.
  rewrite (app_nil_end (ptlv u_seq _)). rewrite read_seq_dflt by side. cbn [bind].
  rewrite read_int_dflt by side. cbn [bind].
  rewrite read_oct_dflt by side. reflexivity.
Qed.

Lemma control_rt c rest :
  wf_control c -> fits (penc_control c) ->
  unpack_control (penc_control c ++ rest) = Ok (pnorm_control c, rest).
Proof.
  intros W F. unfold unpack_control, Peer.penc_control in *.
  apply fits_tlv in F.
  rewrite read_seq_dflt by exact F. cbn [bind].
  unfold Peer.pw_oct at 1. unfold Peer.pw_oct at 1 in F.
  pose proof (fits_app_l _ _ F) as F1. apply fits_tlv in F1. pose proof (fits_app_r _ _ F) as F2.
  assert (U : utf8_valid (control_oid c) = true).
  { destruct c; cbn [control_oid]; try apply utf8_oids. now destruct W. }
  rewrite read_str_dflt by assumption. cbn [bind].
  change (if control_crit c then pw_bool u_bool true else []) with (if control_crit c then ptlv u_bool [xff] else []) in *.
  etransitivity.
  { apply (control_tail (control_crit c) (pcontrol_value c)
             (fun crit value =>
                c0 <- (if bytes_eqb (control_oid c) oid_paged then unpack_paged crit value
                       else if bytes_eqb (control_oid c) oid_show_deactivated then Ok (CShowDeactivated crit value)
                       else if bytes_eqb (control_oid c) oid_show_deleted then Ok (CShowDeleted crit value)
                       else Ok (CGeneric (control_oid c) crit value)) ;;
                Ok (c0, rest))).
    exact F2. }
  destruct oid_tests as (O1 & O2 & O3 & O4 & O5 & O6).
  destruct c; cbn [control_oid control_crit Peer.pcontrol_value pnorm_control].
  - destruct W as [_ K]. unfold known_oid in K.
    apply orb_false_iff in K as [K K3]. apply orb_false_iff in K as [K1 K2].
    rewrite K1, K2, K3. reflexivity.
  - rewrite O1. rewrite paged_rt; [reflexivity|].
    cbn [Peer.pcontrol_value] in F2. unfold Peer.pw_opt_oct, Peer.pw_oct in F2. apply fits_app_r in F2. apply fits_app_l in F2. now apply fits_tlv in F2.
  - rewrite O4, O5, O6. reflexivity.
  - rewrite O2, O3. reflexivity.
Qed.

(* closed boolean tests on generated constants are decided by computation *)
Ltac decide_closed :=
  repeat match goal with
         | |- context [N.eqb ?a ?b] =>
             let v := eval vm_compute in (N.eqb a b) in
             lazymatch v with true => idtac | false => idtac end;
             change (N.eqb a b) with v
         end;
  cbn [andb orb negb].

Lemma hdr_tag t d : h_tag (phdr_of t d) = t.
Proof. reflexivity. Qed.

(* ---- credentials *)

Lemma cred_rt c rest : wf_cred c -> fits (penc_cred c) -> unpack_cred (penc_cred c ++ rest) = Ok (c, rest).
Proof.
  intros W F. unfold unpack_cred. destruct c as [pw|mech [cr|]]; cbn [Peer.penc_cred wf_cred] in *; unfold_w; cbn [app] in *; sat_fits.
  - rewrite peek_tlv by side. cbn [bind]. rewrite hdr_tag. cbn [t_cls t_num ctx]. decide_closed.
    rewrite read_str_tag by side. reflexivity.
  - rewrite peek_tlv by side. cbn [bind]. rewrite hdr_tag. cbn [t_cls t_num ctx]. decide_closed.
    rewrite read_seq_tag by side. cbn [bind].
    rewrite read_str_dflt by side. cbn [bind].
    unfold_w. rewrite match_app_nonempty by side.
    rewrite peek_tlv by side. cbn [bind]. rewrite hdr_tag. cbn [t_cls t_num u_oct universal]. decide_closed.
    rewrite read_oct_hdr by side. reflexivity.
  - rewrite peek_tlv by side. cbn [bind]. rewrite hdr_tag. cbn [t_cls t_num ctx]. decide_closed.
    rewrite read_seq_tag by side. cbn [bind].
    rewrite read_str_dflt by side. cbn [bind].
    match goal with H : fits (ptrail 1) |- _ => destruct (ptrail_cases 1 H) as [E|(t & d & rest' & E & U & Fd)] end; rewrite E; [reflexivity|].
    rewrite match_app_nonempty by side. rewrite peek_tlv by (auto using wf_unknown). cbn [bind].
    rewrite unknown_not_univ by assumption. reflexivity.
Qed.

(* ---- LDAPResult *)

(* what may follow the LDAPResult components inside a protocolOp: nothing, or an element that is not
   the [3] referral *)
Definition pnot_referral_next (rest : list byte) : Prop :=
  rest = [] \/ exists t d rest', rest = ptlv t d ++ rest' /\ wf_tag t /\ fits d /\ is_ctx (phdr_of t d) 3 = false.

Lemma fits_flat_map {A} (enc : A -> list byte) xs x : fits (flat_map enc xs) -> In x xs -> fits (enc x).
Proof.
  induction xs as [|y xs IH]; cbn [flat_map In]; [tauto|].
  intros F [->|H]; [now apply fits_app_l in F|]. apply IH; [now apply fits_app_r in F|assumption].
Qed.

Lemma strs_rt (l : list str) acc :
  Forall (fun s => utf8_valid s = true) l -> fits (flat_map (ptlv u_oct) l) ->
  while_reader (fun acc rr => '(s, rr') <- read_str rr None None ;; Ok (acc ++ [s], rr')) acc (flat_map (ptlv u_oct) l)
  = Ok (acc ++ l).
Proof.
  intros U F. apply (while_reader_items (ptlv u_oct) (fun rr => read_str rr None None)).
  - intros x _. apply tlv_nonempty.
  - intros x rest Hx. rewrite Forall_forall in U. apply read_str_dflt; [now apply U|].
    apply fits_tlv with (t := u_oct). eapply fits_flat_map; eauto.
Qed.

Lemma octs_rt (l : list octets) acc :
  fits (flat_map (ptlv u_oct) l) ->
  while_reader (fun acc rr => '(s, rr') <- read_octet_string rr None None ;; Ok (acc ++ [s], rr')) acc (flat_map (ptlv u_oct) l)
  = Ok (acc ++ l).
Proof.
  intros F. apply (while_reader_items (ptlv u_oct) (fun rr => read_octet_string rr None None)).
  - intros x _. apply tlv_nonempty.
  - intros x rest Hx. apply read_oct_dflt. apply fits_tlv with (t := u_oct). eapply fits_flat_map; eauto.
Qed.

Lemma result_code_ok code :
  (if result_code_open || match code with Zneg _ => false | _ => in_table (Z.to_N code) result_codes end
   then Ok tt else Raise ValueErr) = Ok tt.
Proof. reflexivity. Qed.

Lemma result_rt r rest :
  wf_result r -> fits (penc_result r) -> pnot_referral_next rest ->
  unpack_result (penc_result r ++ rest) = Ok (r, rest).
Proof.
  destruct r as [code matched diag [l|]]; unfold wf_result, Peer.penc_result, unpack_result; cbn [r_code r_matched r_diag r_referrals];
    intros (U1 & U2 & U3) F NR; unfold_w; rewrite <- !app_assoc; sat_fits.
  - rewrite read_enum_dflt by side. cbn [bind].
    rewrite result_code_ok. cbn [bind].
    rewrite read_str_dflt by side. cbn [bind].
    rewrite read_str_dflt by side. cbn [bind].
    rewrite match_app_nonempty by side. rewrite peek_tlv by side. cbn [bind].
    unfold is_ctx. rewrite hdr_tag. cbn [t_cls t_num ctx]. decide_closed.
    rewrite read_seq_hdr by side. cbn [bind].
    rewrite strs_rt by assumption. reflexivity.
  - rewrite read_enum_dflt by side. cbn [bind].
    rewrite result_code_ok. cbn [bind].
    rewrite read_str_dflt by side. cbn [bind].
    rewrite read_str_dflt by side. cbn [bind app].
    destruct NR as [->|(t & d & rest' & -> & W & Fd & NC)]; [reflexivity|].
    rewrite match_app_nonempty by side. rewrite peek_tlv by side. cbn [bind]. rewrite NC. reflexivity.
Qed.

(* ---- PartialAttribute *)

Lemma pa_rt a rest : wf_pa a -> fits (penc_partial_attr a) -> unpack_partial_attr (penc_partial_attr a ++ rest) = Ok (a, rest).
Proof.
  destruct a as [name vals]. unfold wf_pa, Peer.penc_partial_attr, unpack_partial_attr. cbn [pa_name pa_vals].
  intros U F. unfold_w. sat_fits.
  rewrite read_seq_dflt by side. cbn [bind].
  rewrite read_str_dflt by side. cbn [bind].
  rewrite read_set_dflt by side. cbn [bind].
  rewrite octs_rt by assumption. reflexivity.
Qed.

(* ---- stateful loops, stepped by hand *)
Lemma loop_nil {S} fuel (body : S -> reader -> res (S * reader)) s : loop fuel body s [] = Ok s.
Proof. destruct fuel; reflexivity. Qed.

Lemma loop_step {S} f (body : S -> reader -> res (S * reader)) s r s' r' :
  r <> [] -> body s r = Ok (s', r') -> loop (Datatypes.S f) body s r = loop f body s' r'.
Proof. intros Hne Hb. cbn [loop]. destruct r; [congruence|]. now rewrite Hb. Qed.

(* a run of items, each of which updates the state and is consumed entirely *)
Lemma loop_items_state {S A} (enc : A -> list byte) (upd : S -> A -> S) (body : S -> reader -> res (S * reader)) :
  forall xs s tail fuel,
  (forall x, In x xs -> enc x <> []) ->
  (forall s x rest, In x xs -> body s (enc x ++ rest) = Ok (upd s x, rest)) ->
  loop (length xs + fuel) body s (flat_map enc xs ++ tail) = loop fuel body (fold_left upd xs s) tail.
Proof.
  induction xs as [|x xs IH]; intros s tail fuel Hne Hb; [reflexivity|].
  cbn [flat_map length fold_left Nat.add]. rewrite <- app_assoc.
  rewrite (loop_step _ body s _ (upd s x) (flat_map enc xs ++ tail)).
  - apply IH; [intros y Hy; apply Hne; now right|intros s0 y rest Hy; apply Hb; now right].
  - assert (enc x <> []) by (apply Hne; now left). destruct (enc x); [congruence|discriminate].
  - apply Hb. now left.
Qed.

Lemma loop_more_fuel {S} (body : S -> reader -> res (S * reader)) : forall f s r v k,
  loop f body s r = Ok v -> loop (f + k) body s r = Ok v.
Proof.
  induction f as [|f IH]; intros s r v k; cbn [loop Nat.add].
  - destruct r; [intros H; rewrite loop_nil; exact H|discriminate].
  - destruct r as [|b r0]; [auto|]. destruct (body s (b :: r0)) as [[s' r']|e]; cbn [bind]; [apply IH|discriminate].
Qed.

Lemma length_flat_map_ge {A} (enc : A -> list byte) xs :
  (forall x, In x xs -> enc x <> []) -> (length xs <= length (flat_map enc xs))%nat.
Proof. apply cat_length_ge. Qed.

(* ---- filters *)


Lemma fdepth_in g fs : In g fs -> (fdepth g <= fold_right (fun g m => Nat.max (fdepth g) m) 0%nat fs)%nat.
Proof.
  induction fs as [|x fs IH]; cbn [In fold_right]; [tauto|]. intros [->|H]; [lia|]. specialize (IH H). lia.
Qed.

(* the substrings loop *)

Lemma sub_body_any ini acc fin v rest :
  fits v -> sub_body (ini, acc, fin) (ptlv (ctx 1 false) v ++ rest) = Ok ((ini, acc ++ [v], fin), rest).
Proof.
  intros F. unfold sub_body. rewrite peek_tlv by side. cbn [bind]. unfold is_ctx. rewrite hdr_tag. cbn [t_cls t_num ctx].
  decide_closed. rewrite read_oct_hdr by side. reflexivity.
Qed.
Lemma sub_body_ini acc fin v rest :
  fits v -> sub_body (None, acc, fin) (ptlv (ctx 0 false) v ++ rest) = Ok ((Some v, acc, fin), rest).
Proof.
  intros F. unfold sub_body. rewrite peek_tlv by side. cbn [bind]. unfold is_ctx. rewrite hdr_tag. cbn [t_cls t_num ctx].
  decide_closed. rewrite read_oct_hdr by side. reflexivity.
Qed.
Lemma sub_body_fin ini acc v rest :
  fits v -> sub_body (ini, acc, None) (ptlv (ctx 2 false) v ++ rest) = Ok ((ini, acc, Some v), rest).
Proof.
  intros F. unfold sub_body. rewrite peek_tlv by side. cbn [bind]. unfold is_ctx. rewrite hdr_tag. cbn [t_cls t_num ctx].
  decide_closed. rewrite read_oct_hdr by side. reflexivity.
Qed.

Lemma fold_any ini fin (any acc : list octets) :
  fold_left (fun (s : sub_state) v => let '(i, a, f) := s in (i, a ++ [v], f)) any (ini, acc, fin) = (ini, acc ++ any, fin).
Proof.
  revert acc; induction any as [|v any IH]; intros acc; cbn [fold_left]; [now rewrite app_nil_r|].
  rewrite IH. now rewrite <- app_assoc.
Qed.

Lemma app_tlv_nonempty t d (rest : list byte) : ptlv t d ++ rest <> [].
Proof. pose proof (tlv_nonempty t d). destruct (ptlv t d); [congruence|discriminate]. Qed.

Lemma sub_loop_rt ini any fin :
  fits (pw_opt_oct (ctx 0 false) ini ++ flat_map (ptlv (ctx 1 false)) any ++ pw_opt_oct (ctx 2 false) fin) ->
  while_reader sub_body (None, [], None)
    (pw_opt_oct (ctx 0 false) ini ++ flat_map (ptlv (ctx 1 false)) any ++ pw_opt_oct (ctx 2 false) fin)
  = Ok (ini, any, fin).
Proof.
  intros F. unfold while_reader.
  set (input := pw_opt_oct (ctx 0 false) ini ++ flat_map (ptlv (ctx 1 false)) any ++ pw_opt_oct (ctx 2 false) fin) in *.
  set (a := match ini with Some _ => 1 | None => 0 end%nat).
  set (b := match fin with Some _ => 1 | None => 0 end%nat).
  assert (Fany : forall x, In x any -> fits x).
  { intros x Hx. unfold input in F. apply fits_app_r in F. apply fits_app_l in F.
    apply fits_tlv with (t := ctx 1 false). eapply fits_flat_map; eauto. }
  assert (Mid : forall i0 tail fuel,
            loop (length any + fuel) sub_body (i0, [], None) (flat_map (ptlv (ctx 1 false)) any ++ tail)
            = loop fuel sub_body (i0, any, None) tail).
  { intros i0 tail fuel.
    rewrite (loop_items_state (ptlv (ctx 1 false)) (fun (s : sub_state) v => let '(i, a, f) := s in (i, a ++ [v], f)) sub_body).
    - now rewrite fold_any.
    - intros x _. apply tlv_nonempty.
    - intros [[i a0] f] x rest Hx. apply sub_body_any. now apply Fany. }
  assert (E : loop (a + (length any + (b + 1))) sub_body (None, [], None) input = Ok (ini, any, fin)).
  { unfold input, a, b in *. clear input a b.
    destruct ini as [i|]; destruct fin as [f|]; unfold Peer.pw_opt_oct, Peer.pw_oct in *; cbn [app Nat.add] in *.
    - assert (Fi : fits i) by (apply fits_app_l in F; now apply fits_tlv in F).
      assert (Ff : fits f) by (apply fits_app_r in F; apply fits_app_r in F; now apply fits_tlv in F).
      erewrite loop_step; [|apply app_tlv_nonempty|now apply sub_body_ini].
      rewrite Mid. cbn [Nat.add].
      rewrite (app_nil_end (ptlv (ctx 2 false) f)).
      erewrite loop_step; [|apply app_tlv_nonempty|now apply sub_body_fin].
      apply loop_nil.
    - assert (Fi : fits i) by (apply fits_app_l in F; now apply fits_tlv in F).
      erewrite loop_step; [|apply app_tlv_nonempty|now apply sub_body_ini].
      rewrite Mid. apply loop_nil.
    - assert (Ff : fits f) by (apply fits_app_r in F; now apply fits_tlv in F).
      rewrite Mid. cbn [Nat.add].
      rewrite (app_nil_end (ptlv (ctx 2 false) f)).
      erewrite loop_step; [|apply app_tlv_nonempty|now apply sub_body_fin].
      apply loop_nil.
    - rewrite Mid. apply loop_nil. }
  (* the fuel of while_reader is at least that *)
  assert (Hf : (a + (length any + (b + 1)) <= S (length input))%nat).
  { unfold input, a, b. rewrite !app_length.
    pose proof (length_flat_map_ge (ptlv (ctx 1 false)) any (fun x _ => tlv_nonempty _ x)).
    assert (G : forall t (v : octets), (1 <= length (ptlv t v))%nat).
    { intros t v. pose proof (tlv_nonempty t v). destruct (ptlv t v); [congruence|cbn; lia]. }
    destruct ini as [i|]; destruct fin as [f|]; unfold Peer.pw_opt_oct, Peer.pw_oct; cbn [length];
      try pose proof (G (ctx 0 false) i); try pose proof (G (ctx 2 false) f); lia. }
  replace (S (length input)) with ((a + (length any + (b + 1))) + (S (length input) - (a + (length any + (b + 1)))))%nat by lia.
  apply loop_more_fuel. exact E.
Qed.

(* the extensible-match loop *)

Ltac ext_item :=
  unfold ext_body; rewrite peek_tlv by side; cbn [bind]; unfold is_ctx; rewrite hdr_tag; cbn [t_cls t_num ctx];
  decide_closed.

Lemma ext_body_rule rule attr v dn s rest : utf8_valid s = true -> fits s ->
  ext_body (rule, attr, v, dn) (ptlv (ctx 1 false) s ++ rest) = Ok ((Some s, attr, v, dn), rest).
Proof. intros U F. ext_item. rewrite read_str_hdr by side. reflexivity. Qed.
Lemma ext_body_attr rule attr v dn s rest : utf8_valid s = true -> fits s ->
  ext_body (rule, attr, v, dn) (ptlv (ctx 2 false) s ++ rest) = Ok ((rule, Some s, v, dn), rest).
Proof. intros U F. ext_item. rewrite read_str_hdr by side. reflexivity. Qed.
Lemma ext_body_val rule attr v dn b rest : fits b ->
  ext_body (rule, attr, v, dn) (ptlv (ctx 3 false) b ++ rest) = Ok ((rule, attr, b, dn), rest).
Proof. intros F. ext_item. rewrite read_oct_hdr by side. reflexivity. Qed.
Lemma ext_body_dn rule attr v dn rest :
  ext_body (rule, attr, v, dn) (ptlv (ctx 4 false) [tb] ++ rest) = Ok ((rule, attr, v, true), rest).
Proof. ext_item. rewrite (read_bool_hdr (ctx 4 false) true) by side. reflexivity. Qed.
Lemma ext_body_dn_false rule attr v dn rest :
  ext_body (rule, attr, v, dn) (ptlv (ctx 4 false) [x00] ++ rest) = Ok ((rule, attr, v, false), rest).
Proof. ext_item. rewrite (read_bool_hdr (ctx 4 false) false) by side. reflexivity. Qed.

Lemma loop_from_exact {S} (body : S -> reader -> res (S * reader)) s r v n :
  loop n body s r = Ok v -> (n <= Datatypes.S (length r))%nat -> loop (Datatypes.S (length r)) body s r = Ok v.
Proof.
  intros H L. replace (Datatypes.S (length r)) with (n + (Datatypes.S (length r) - n))%nat by lia.
  now apply loop_more_fuel.
Qed.

Lemma tlv_len_pos t (x : octets) : (1 <= length (ptlv t x))%nat.
Proof. pose proof (tlv_nonempty t x). destruct (ptlv t x); [congruence|cbn; lia]. Qed.

Lemma ext_body_skip st t d rest : unknown_tag t -> fits d -> ext_body st (ptlv t d ++ rest) = Ok (st, rest).
Proof.
  intros U F. destruct st as [[[rule attr] v] dn]. unfold ext_body. rewrite peek_tlv by (auto using wf_unknown). cbn [bind].
  rewrite !unknown_not_ctx by (assumption || reflexivity). now rewrite skip_tlv.
Qed.

Lemma ext_loop_rt rule attr v (dn : bool) :
  (match rule with Some r => utf8_valid r = true | None => True end) ->
  (match attr with Some r => utf8_valid r = true | None => True end) ->
  let input := pw_opt_oct (ctx 1 false) rule ++ pw_opt_oct (ctx 2 false) attr ++ pw_oct (ctx 3 false) v
               ++ pw_dflt (ctx 4 false) dn ++ ptrail 14 in
  fits input ->
  while_reader ext_body (None, None, [], false) input = Ok (rule, attr, v, dn).
Proof.
  intros Ur Ua input F. unfold while_reader. unfold input in *. clear input. unfold Peer.pw_dflt in *.
  assert (Ft : fits (ptrail 14)) by (do 4 apply fits_app_r in F; exact F).
  pose proof (ptrail_len 14) as Hlen.
  destruct rule as [r|]; destruct attr as [a|]; (destruct dn; [|destruct explicit]); unfold_w; cbn [app] in *; sat_fits.
  all: eapply loop_from_exact;
       [ repeat (erewrite loop_step; [|apply app_tlv_nonempty|first [apply ext_body_rule|apply ext_body_attr|apply ext_body_val|apply ext_body_dn|apply ext_body_dn_false]; side]);
         rewrite (app_nil_end (ptrail 14));
         erewrite (loop_skip_trail ext_body 14 _ [] 0%nat); [apply (loop_nil 0%nat)|exact Ft|intros; now apply ext_body_skip]
       | rewrite ?app_length;
         repeat match goal with |- context [length (ptlv ?t ?x)] =>
                  lazymatch goal with
                  | H : (1 <= length (ptlv t x))%nat |- _ => fail
                  | _ => pose proof (tlv_len_pos t x)
                  end
                end; lia ].
Qed.

Lemma ava_rt id a v rest :
  utf8_valid a = true -> fits (ptlv (ctx id true) (ptlv u_oct a ++ ptlv u_oct v ++ ptrail 11)) ->
  unpack_ava id (ptlv (ctx id true) (ptlv u_oct a ++ ptlv u_oct v ++ ptrail 11) ++ rest) = Ok (a, v, rest).
Proof.
  intros U F. unfold unpack_ava. sat_fits.
  rewrite read_seq_tag by side. cbn [bind].
  rewrite read_str_dflt by side. cbn [bind].
  rewrite read_oct_dflt by side. reflexivity.
Qed.

Lemma substrings_rt a ini any fin rest :
  utf8_valid a = true -> fits (penc_filter (FSub a ini any fin)) ->
  unpack_substrings (penc_filter (FSub a ini any fin) ++ rest) = Ok (FSub a ini any fin, rest).
Proof.
  intros U F. unfold unpack_substrings. cbn [Peer.penc_filter] in *. unfold Peer.pw_oct at 1. unfold Peer.pw_oct at 1 in F. unfold cat in *.
  pose proof (fits_tlv _ _ F) as F0. pose proof (fits_app_l _ _ F0) as F1. apply fits_tlv in F1.
  pose proof (fits_app_r _ _ F0) as F2. apply fits_app_l in F2. apply fits_tlv in F2.
  rewrite read_seq_tag by side. cbn [bind].
  rewrite read_str_dflt by side. cbn [bind].
  rewrite read_seq_dflt by side. cbn [bind].
  change (while_reader _ (None, [], None)) with (while_reader sub_body (None, [], None)).
  change (fun x => pw_oct (ctx 1 false) x) with (ptlv (ctx 1 false)) in *.
  rewrite sub_loop_rt by exact F2. reflexivity.
Qed.

Lemma extensible_rt rule attr v dn rest :
  (match rule with Some r => utf8_valid r = true | None => True end) ->
  (match attr with Some r => utf8_valid r = true | None => True end) ->
  fits (penc_filter (FExt rule attr v dn)) ->
  unpack_extensible (penc_filter (FExt rule attr v dn) ++ rest) = Ok (FExt rule attr v dn, rest).
Proof.
  intros Ur Ua F. unfold unpack_extensible. cbn [Peer.penc_filter] in *.
  pose proof (fits_tlv _ _ F) as F0.
  rewrite read_seq_tag by side. cbn [bind].
  change (while_reader _ (None, None, [], false)) with (while_reader ext_body (None, None, [], false)).
  rewrite ext_loop_rt by assumption. reflexivity.
Qed.

Theorem filter_rt : forall d f rest,
  (fdepth f <= d)%nat -> wf_filter f -> fits (penc_filter f) ->
  unpack_filter d (penc_filter f ++ rest) = Ok (f, rest).
Proof.
  induction d as [|d IH]; intros f rest Hd W F.
  - destruct f; cbn [fdepth] in Hd; lia.
  - assert (Many : forall id (mk : list filter -> filter) fs,
              Forall wf_filter fs -> (forall g, In g fs -> (fdepth g <= d)%nat) -> fits (ptlv (ctx id true) (flat_map penc_filter fs)) ->
              ('(sr, r') <- read_set (ptlv (ctx id true) (flat_map penc_filter fs) ++ rest) (Some (ctx id true)) None ;;
               fs0 <- while_reader (fun acc sr => '(f0, sr') <- unpack_filter d sr ;; Ok (acc ++ [f0], sr')) [] sr ;;
               Ok (mk fs0, r')) = Ok (mk fs, rest)).
    { intros id mk fs Wf Hdep Ff. pose proof (fits_tlv _ _ Ff) as Fc.
      rewrite read_set_tag by side. cbn [bind].
      change (flat_map penc_filter fs) with (cat penc_filter fs).
      rewrite (while_reader_items penc_filter (unpack_filter d) fs []).
      - reflexivity.
      - intros x _. destruct x; cbn [Peer.penc_filter]; apply tlv_nonempty.
      - intros x rest0 Hx. apply IH; [now apply Hdep|rewrite Forall_forall in Wf; now apply Wf|].
        eapply fits_flat_map; eauto. }
    destruct f; inversion W; subst; cbn [unpack_filter Peer.penc_filter] in *; unfold cat in *.
    all: try (unfold Peer.pw_oct at 1).
    all: rewrite peek_tlv by (first [side | exact (fits_tlv _ _ F)]); cbn [bind]; rewrite hdr_tag; cbn [t_cls t_num ctx]; decide_closed.
    + apply Many; auto. intros g Hg. cbn [fdepth] in Hd. pose proof (fdepth_in g fs Hg). lia.
    + apply Many; auto. intros g Hg. cbn [fdepth] in Hd. pose proof (fdepth_in g fs Hg). lia.
    + pose proof (fits_tlv _ _ F) as Fc.
      rewrite read_seq_tag by side. cbn [bind].
      rewrite IH; [reflexivity|cbn [fdepth] in Hd; lia|assumption|now apply fits_app_l in Fc].
    + unfold Peer.pw_oct in *. rewrite ava_rt by assumption. reflexivity.
    + change (ptlv (ctx fid_substrings true) _) with (penc_filter (FSub attr initial any final)).
      apply substrings_rt; assumption.
    + unfold Peer.pw_oct in *. rewrite ava_rt by assumption. reflexivity.
    + unfold Peer.pw_oct in *. rewrite ava_rt by assumption. reflexivity.
    + unfold Peer.pw_oct in F. rewrite read_str_tag by (first [side | exact (fits_tlv _ _ F)]). reflexivity.
    + unfold Peer.pw_oct in *. rewrite ava_rt by assumption. reflexivity.
    + change (ptlv (ctx fid_extensible true) _) with (penc_filter (FExt rule attr v dn)).
      apply extensible_rt; assumption.
Qed.

(* ---- loops whose decoder normalises the item *)
Lemma while_items_map {A} (enc : A -> list byte) (g : A -> A) (dec : reader -> res (A * reader)) :
  forall xs acc,
  (forall x, In x xs -> enc x <> []) ->
  (forall x rest, In x xs -> dec (enc x ++ rest) = Ok (g x, rest)) ->
  forall fuel, (length xs < fuel)%nat ->
  loop fuel (fun acc r => '(x, r') <- dec r ;; Ok (acc ++ [x], r')) acc (cat enc xs) = Ok (acc ++ map g xs).
Proof.
  induction xs as [|x xs IH]; intros acc Hne Hdec fuel Hf.
  - destruct fuel; [cbn in Hf; lia|]. cbn [cat flat_map loop map]. now rewrite app_nil_r.
  - destruct fuel as [|f]; [cbn in Hf; lia|].
    cbn [cat flat_map map].
    assert (Hx : enc x <> []) by (apply Hne; now left).
    destruct (enc x ++ flat_map enc xs) as [|b0 r0] eqn:E.
    { apply app_eq_nil in E. destruct E; congruence. }
    rewrite <- E. cbn [loop]. rewrite E. rewrite <- E.
    rewrite Hdec by now left. cbn [bind].
    change (flat_map enc xs) with (cat enc xs).
    rewrite IH; [now rewrite <- app_assoc| | |cbn in Hf; lia].
    + intros y Hy. apply Hne. now right.
    + intros y rest Hy. apply Hdec. now right.
Qed.

Lemma while_reader_items_map {A} (enc : A -> list byte) (g : A -> A) (dec : reader -> res (A * reader)) xs acc :
  (forall x, In x xs -> enc x <> []) ->
  (forall x rest, In x xs -> dec (enc x ++ rest) = Ok (g x, rest)) ->
  while_reader (fun acc r => '(x, r') <- dec r ;; Ok (acc ++ [x], r')) acc (cat enc xs) = Ok (acc ++ map g xs).
Proof.
  intros Hne Hdec. unfold while_reader. apply while_items_map; auto.
  pose proof (cat_length_ge enc xs Hne). lia.
Qed.

(* ---- protocol operations *)

Lemma nrn_nil : pnot_referral_next [].
Proof. now left. Qed.
Lemma nrn_ctx n d rest : n <> 3 -> fits d -> pnot_referral_next (ptlv (ctx n false) d ++ rest).
Proof.
  intros Hn F. right. exists (ctx n false), d, rest.
  split; [reflexivity|]. split; [auto with wf|]. split; [assumption|].
  unfold is_ctx, phdr_of. cbn [h_tag t_cls t_num ctx]. destruct (N.eqb_spec n 3); [congruence|]. apply andb_false_r.
Qed.

Lemma nrn_trail k : fits (ptrail k) -> pnot_referral_next (ptrail k).
Proof.
  intros F. destruct (ptrail_cases k F) as [->|(t & d & rest & -> & U & Fd)]; [now left|].
  right. exists t, d, rest. split; [reflexivity|]. split; [now apply wf_unknown|]. split; [assumption|apply unknown_not_ctx; [assumption|reflexivity]].
Qed.

Ltac len_bound k :=
  rewrite ?app_length; cbn [length]; pose proof (ptrail_len k);
  repeat match goal with |- context [length (ptlv ?t ?x)] =>
           lazymatch goal with
           | H : (1 <= length (ptlv t x))%nat |- _ => fail
           | _ => pose proof (tlv_len_pos t x)
           end
         end; lia.

Ltac skip_unknown :=
  intros; rewrite peek_tlv by (auto using wf_unknown); cbn [bind]; rewrite !unknown_not_ctx by (assumption || reflexivity); now rewrite skip_tlv.

(* a loop that picks up optional components and skips whatever it does not recognise *)
Ltac opt_loop k lem :=
  unfold while_reader at 1; eapply loop_from_exact;
  [ repeat (erewrite loop_step; [|apply app_tlv_nonempty|cbv beta; lem]);
    rewrite (app_nil_end (ptrail k));
    erewrite (loop_skip_trail _ k _ [] 0%nat); [apply (loop_nil 0%nat)|assumption|skip_unknown]
  | len_bound k ].

Theorem op_rt d o : wf_op d o -> fits (penc_op_inner o) -> unpack_op d (op_tag_number o) (penc_op_inner o) = Ok o.
Proof.
  intros W F. unfold unpack_op.
  destruct o; cbn [op_tag_number Peer.penc_op_inner wf_op] in *; decide_closed.
  - (* BindRequest *)
    destruct W as [U Wc]. unfold_w. sat_fits.
    rewrite read_int_dflt by side. cbn [bind].
    rewrite read_str_dflt by side. cbn [bind].
    rewrite cred_rt by assumption. reflexivity.
  - (* BindResponse *)
    destruct sasl as [v|]; unfold_w; cbn [app] in *; sat_fits.
    + rewrite result_rt; [|assumption|assumption|apply nrn_ctx; [discriminate|assumption]].
      cbn [bind].
      match goal with |- context [while_reader ?b None ?r] =>
        assert (E : while_reader b None r = Ok (Some v)) end.
      { opt_loop 3%nat ltac:(rewrite peek_tlv by side; cbn [bind]; unfold is_ctx; rewrite hdr_tag; cbn [t_cls t_num ctx];
                       decide_closed; rewrite read_oct_hdr by side; reflexivity). }
      rewrite E. reflexivity.
    + rewrite result_rt; [|assumption|assumption|now apply nrn_trail]. cbn [bind].
      match goal with |- context [while_reader ?b None ?r] =>
        assert (E : while_reader b None r = Ok None) end.
      { opt_loop 3%nat ltac:(fail). }
      rewrite E. reflexivity.
  - reflexivity.
  - (* SearchRequest *)
    destruct W as (Ub & Es & Ed & Wf & Hd & Ua). unfold_w. sat_fits.
    rewrite read_oct_dflt by side. cbn [bind].
    rewrite read_enum_dflt by side. cbn [bind]. rewrite Es. cbn [bind].
    rewrite read_enum_dflt by side. cbn [bind]. rewrite Ed. cbn [bind].
    rewrite read_int_dflt by side. cbn [bind].
    rewrite read_int_dflt by side. cbn [bind].
    rewrite read_bool_dflt. cbn [bind].
    rewrite filter_rt by assumption. cbn [bind].
    rewrite read_seq_dflt by side. cbn [bind].
    rewrite strs_rt by assumption. cbn [bind app]. unfold dec_str. rewrite Ub. reflexivity.
  - (* SearchResultEntry *)
    destruct W as (Un & Wa). unfold_w. sat_fits.
    rewrite read_str_dflt by side. cbn [bind].
    rewrite read_seq_dflt by side. cbn [bind].
    change (flat_map penc_partial_attr attrs) with (cat penc_partial_attr attrs).
    rewrite (while_reader_items penc_partial_attr unpack_partial_attr attrs []).
    + reflexivity.
    + intros x _. apply tlv_nonempty.
    + intros x rest Hx. rewrite Forall_forall in Wa. apply pa_rt; [now apply Wa|]. eapply fits_flat_map; eauto.
  - (* SearchResultDone *)
    sat_fits. rewrite result_rt; [reflexivity|assumption|assumption|now apply nrn_trail].
  - (* SearchResultReference *)
    unfold_w. rewrite strs_rt by assumption. reflexivity.
  - (* ExtendedRequest *)
    destruct value as [v|]; unfold_w; cbn [app] in *; sat_fits.
    + rewrite read_str_tag by side. cbn [bind].
      match goal with |- context [while_reader ?b None ?r] =>
        assert (E : while_reader b None r = Ok (Some v)) end.
      { opt_loop 8%nat ltac:(rewrite peek_tlv by side; cbn [bind]; unfold is_ctx; rewrite hdr_tag; cbn [t_cls t_num ctx];
                       decide_closed; rewrite read_oct_hdr by side; reflexivity). }
      rewrite E. reflexivity.
    + rewrite read_str_tag by side. cbn [bind].
      match goal with |- context [while_reader ?b None ?r] =>
        assert (E : while_reader b None r = Ok None) end.
      { opt_loop 8%nat ltac:(fail). }
      rewrite E. reflexivity.
  - (* ExtendedResponse *)
    destruct W as (Wr & Un).
    destruct name as [n|]; destruct value as [v|]; unfold_w; cbn [app] in *; sat_fits.
    + rewrite result_rt; [|assumption|assumption|apply nrn_ctx; [discriminate|assumption]]. cbn [bind].
      match goal with |- context [while_reader ?b (None, None) ?r] =>
        assert (E : while_reader b (None, None) r = Ok (Some n, Some v)) end.
      { opt_loop 9%nat ltac:(rewrite peek_tlv by side; cbn [bind]; unfold is_ctx; rewrite hdr_tag; cbn [t_cls t_num ctx];
                       decide_closed; first [rewrite read_str_hdr by side|rewrite read_oct_hdr by side]; reflexivity). }
      rewrite E. reflexivity.
    + rewrite result_rt; [|assumption|assumption|apply nrn_ctx; [discriminate|assumption]]. cbn [bind].
      match goal with |- context [while_reader ?b (None, None) ?r] =>
        assert (E : while_reader b (None, None) r = Ok (Some n, None)) end.
      { opt_loop 9%nat ltac:(rewrite peek_tlv by side; cbn [bind]; unfold is_ctx; rewrite hdr_tag; cbn [t_cls t_num ctx];
                       decide_closed; first [rewrite read_str_hdr by side|rewrite read_oct_hdr by side]; reflexivity). }
      rewrite E. reflexivity.
    + rewrite result_rt; [|assumption|assumption|apply nrn_ctx; [discriminate|assumption]]. cbn [bind].
      match goal with |- context [while_reader ?b (None, None) ?r] =>
        assert (E : while_reader b (None, None) r = Ok (None, Some v)) end.
      { opt_loop 9%nat ltac:(rewrite peek_tlv by side; cbn [bind]; unfold is_ctx; rewrite hdr_tag; cbn [t_cls t_num ctx];
                       decide_closed; first [rewrite read_str_hdr by side|rewrite read_oct_hdr by side]; reflexivity). }
      rewrite E. reflexivity.
    + rewrite result_rt; [|assumption|assumption|now apply nrn_trail]. cbn [bind].
      match goal with |- context [while_reader ?b (None, None) ?r] =>
        assert (E : while_reader b (None, None) r = Ok (None, None)) end.
      { opt_loop 9%nat ltac:(fail). }
      rewrite E. reflexivity.
Qed.

(* ---- the whole message *)
Definition pwf_msg (d : nat) (m : msg) : Prop :=
  wf_op d (m_op m) /\ Forall wf_control (m_controls m) /\ fits (penc_msg m).

Definition pnorm_msg (m : msg) : msg := mkMsg (m_id m) (m_op m) (map pnorm_control (m_controls m)).

Lemma op_tag_known o : in_table (op_tag_number o) protocol_packer_keys = true.
Proof. destruct o; vm_compute; reflexivity. Qed.

Lemma app_cls_test n : (t_cls (h_tag (phdr_of (app_tag n) [])) =? cls_application) = true.
Proof. reflexivity. Qed.

Lemma enc_control_nonempty c : penc_control c <> [].
Proof. unfold Peer.penc_control. apply tlv_nonempty. Qed.

Theorem msg_value_rt d m :
  pwf_msg d m ->
  let content := pw_int (m_id m) ++ ptlv (app_tag (op_tag_number (m_op m))) (penc_op_inner (m_op m))
                 ++ match m_controls m with [] => [] | cs => ptlv (ctx 0 true) (cat penc_control cs) end
                 ++ ptrail 10 in
  unpack_message_value d content = Ok (pnorm_msg m).
Proof.
  intros (Wo & Wc & F). destruct m as [id o cs]. cbn [m_id m_op m_controls] in *. cbv zeta.
  unfold Peer.penc_msg in F. cbn [m_id m_op m_controls] in F. apply fits_tlv in F.
  unfold unpack_message_value. unfold Peer.pw_int in *.
  pose proof (fits_app_l _ _ F) as F1. apply fits_tlv in F1.
  pose proof (fits_app_r _ _ F) as F2. pose proof (fits_app_l _ _ F2) as F3. apply fits_tlv in F3.
  pose proof (fits_app_r _ _ F2) as F4. pose proof (fits_app_r _ _ F4) as Ft.
  rewrite read_int_dflt by side. cbn [bind].
  rewrite peek_tlv by side. cbn [bind].
  rewrite hdr_tag. cbn [t_cls t_num app_tag].
  assert (Ea : (cls_application =? cls_application) = true) by reflexivity. rewrite Ea. cbn [negb].
  rewrite op_tag_known. cbn [negb].
  rewrite read_seq_hdr by side. cbn [bind].
  rewrite op_rt by assumption.
  destruct cs as [|c0 cs0].
  - cbn [app].
    match goal with |- context [while_reader ?b ([], None) ?r] =>
      assert (E : while_reader b ([], None) r = Ok ([], None)) end.
    { opt_loop 10%nat ltac:(fail). }
    rewrite E. cbn [bind fst snd]. unfold pnorm_msg. cbn [m_id m_op m_controls map]. destruct o; reflexivity.
  - set (cs := c0 :: cs0) in *.
    assert (F5 : fits (cat penc_control cs)) by (apply fits_app_l in F4; now apply fits_tlv in F4).
    match goal with |- context [while_reader ?b ([], None) ?r] =>
      assert (E : while_reader b ([], None) r = Ok (map pnorm_control cs, None)) end.
    { opt_loop 10%nat ltac:(rewrite peek_tlv by side; cbn [bind]; unfold is_ctx; rewrite hdr_tag; cbn [t_cls t_num ctx];
                     decide_closed; rewrite read_seq_hdr by side; cbn [bind fst snd];
                     rewrite (while_reader_items_map penc_control pnorm_control unpack_control cs []);
                     [reflexivity
                     |intros x _; apply enc_control_nonempty
                     |intros x rest Hx; rewrite Forall_forall in Wc; apply control_rt; [now apply Wc|];
                      eapply fits_flat_map; eauto]). }
    rewrite E. cbn [bind fst snd]. unfold pnorm_msg. cbn [m_id m_op m_controls]. destruct o; reflexivity.
Qed.

Theorem msg_rt d m rest :
  pwf_msg d m -> unpack_message d (penc_msg m ++ rest) = Ok (pnorm_msg m, rest).
Proof.
  intros W. pose proof W as (_ & _ & F). unfold unpack_message, Peer.penc_msg in *.
  rewrite read_seq_dflt by (now apply fits_tlv in F). cbn [bind].
  rewrite (msg_value_rt d m W). reflexivity.
Qed.

End Lenient.

(* ---- C04: what the decoder returns for a peer's encoding is what it returns for the library's own *)
Definition erase_raw (c : control) : control :=
  match c with
  | CPaged crit size cookie _ => CPaged crit size cookie None
  | c => c
  end.
Definition erase_raw_msg (m : msg) : msg := mkMsg (m_id m) (m_op m) (map erase_raw (m_controls m)).

Lemma erase_pnorm lf trail m : erase_raw_msg (pnorm_msg lf trail m) = erase_raw_msg m.
Proof.
  unfold erase_raw_msg, pnorm_msg. cbn [m_id m_op m_controls]. f_equal.
  rewrite map_map. apply map_ext. intros c. destruct c; reflexivity.
Qed.
Lemma erase_norm m : erase_raw_msg (norm_msg m) = erase_raw_msg m.
Proof.
  unfold erase_raw_msg, norm_msg. cbn [m_id m_op m_controls]. f_equal.
  rewrite map_map. apply map_ext. intros c. destruct c; reflexivity.
Qed.

Theorem peer_encoding_decodes_alike lf tb explicit trail d m rest rest' :
  (forall c, fits c -> valid_len (lf c) (nlen c)) -> tb <> x00 ->
  (forall k x, In x (trail k) -> unknown_tag (fst x)) ->
  pwf_msg lf tb explicit trail d m -> wf_msg d m ->
  exists v v',
    unpack_message d (penc_msg lf tb explicit trail m ++ rest) = Ok (v, rest) /\
    unpack_message d (enc_msg m ++ rest') = Ok (v', rest') /\
    erase_raw_msg v = erase_raw_msg v' /\ erase_raw_msg v = erase_raw_msg m.
Proof.
  intros HL HT HU PW W. exists (pnorm_msg lf trail m), (norm_msg m).
  split; [exact (msg_rt lf tb explicit HL HT trail HU d m rest PW)|].
  split; [exact (RoundTrip.msg_rt d m rest' W)|].
  rewrite erase_pnorm, erase_norm. split; reflexivity.
Qed.
