(* C04: how a conforming peer may encode a message.  The same abstract message as Msg/Encode.v, with
   the freedoms BER leaves open as parameters: [lf] chooses the length octets of every TLV from its
   content (any valid definite form), [tb] is the octet written for TRUE, [explicit] says whether
   DEFAULT FALSE components (criticality, dnAttributes) are written out. *)
From Coq Require Import ZArith NArith List Bool.
From Coq.Strings Require Import Byte.
From SV Require Import Base.Bytes Base.Py Gen.Generated Asn1.Model Msg.Types Msg.Encode.
Import ListNotations.
Local Open Scope N_scope.

Section Peer.
Variable lf : list byte -> list byte.
Variable tb : byte.
Variable explicit : bool.
(* unrecognised elements a peer appends after the defined components of an extensible SEQUENCE, per
   site (0 control, 1 SASL credentials, 2 bind request, 3 bind response, 4 search request, 5 entry,
   6 partial attribute, 7 search done, 8 extended request, 9 extended response, 10 envelope,
   11 attribute-value assertion, 12 not, 13 substring filter, 14 extensible match, 15 paged value) *)
Variable trail : nat -> list (tag * list byte).

Definition ptlv (t : tag) (data : list byte) : list byte :=
  pack_identifier (t_cls t) (t_cons t) (t_num t) ++ lf data ++ data.

Definition pw_int (z : Z) := ptlv u_int (int_content z).
Definition pw_enum (z : Z) := ptlv u_enum (int_content z).
Definition pw_bool (t : tag) (b : bool) := ptlv t [if b then tb else x00].
(* BOOLEAN DEFAULT FALSE *)
Definition pw_dflt (t : tag) (b : bool) : list byte :=
  if b then pw_bool t true else if explicit then pw_bool t false else [].
Definition pw_oct (t : tag) (v : list byte) := ptlv t v.
Definition pw_opt_oct (t : tag) (v : option (list byte)) : list byte :=
  match v with Some v => pw_oct t v | None => [] end.

Definition ptrail (site : nat) : list byte := flat_map (fun x => ptlv (fst x) (snd x)) (trail site).

Definition ppaged_value (size : Z) (cookie : octets) : octets :=
  ptlv u_seq (pw_int size ++ pw_oct u_oct cookie ++ ptrail 15).

Definition pcontrol_value (c : control) : option octets :=
  match c with
  | CGeneric _ _ v => v
  | CPaged _ size cookie _ => Some (ppaged_value size cookie)
  | CShowDeleted _ raw | CShowDeactivated _ raw => raw
  end.

Definition penc_control (c : control) : list byte :=
  ptlv u_seq (pw_oct u_oct (control_oid c)
              ++ pw_dflt u_bool (control_crit c)
              ++ pw_opt_oct u_oct (pcontrol_value c) ++ ptrail 0).

Definition penc_cred (c : cred) : list byte :=
  match c with
  | CrSimple pw => pw_oct (ctx aid_simple false) pw
  | CrSasl mech creds => ptlv (ctx aid_sasl true) (pw_oct u_oct mech ++ pw_opt_oct u_oct creds ++ ptrail 1)
  end.

Fixpoint penc_filter (f : filter) : list byte :=
  match f with
  | FAnd fs => ptlv (ctx fid_and true) (flat_map penc_filter fs)
  | FOr fs => ptlv (ctx fid_or true) (flat_map penc_filter fs)
  | FNot g => ptlv (ctx fid_not true) (penc_filter g ++ ptrail 12)
  | FEq a v => ptlv (ctx fid_equality true) (pw_oct u_oct a ++ pw_oct u_oct v ++ ptrail 11)
  | FGe a v => ptlv (ctx fid_ge true) (pw_oct u_oct a ++ pw_oct u_oct v ++ ptrail 11)
  | FLe a v => ptlv (ctx fid_le true) (pw_oct u_oct a ++ pw_oct u_oct v ++ ptrail 11)
  | FApprox a v => ptlv (ctx fid_approx true) (pw_oct u_oct a ++ pw_oct u_oct v ++ ptrail 11)
  | FPresent a => pw_oct (ctx fid_present false) a
  | FSub a ini any fin =>
      ptlv (ctx fid_substrings true)
        (pw_oct u_oct a
         ++ ptlv u_seq (pw_opt_oct (ctx 0 false) ini
                        ++ cat (pw_oct (ctx 1 false)) any
                        ++ pw_opt_oct (ctx 2 false) fin)
         ++ ptrail 13)
  | FExt rule attr v dn =>
      ptlv (ctx fid_extensible true)
        (pw_opt_oct (ctx 1 false) rule
         ++ pw_opt_oct (ctx 2 false) attr
         ++ pw_oct (ctx 3 false) v
         ++ pw_dflt (ctx 4 false) dn
         ++ ptrail 14)
  end.

Definition penc_result (r : ldap_result) : list byte :=
  pw_enum (r_code r) ++ pw_oct u_oct (r_matched r) ++ pw_oct u_oct (r_diag r)
  ++ match r_referrals r with
     | Some l => ptlv (ctx 3 true) (cat (pw_oct u_oct) l)
     | None => []
     end.

Definition penc_partial_attr (a : partial_attr) : list byte :=
  ptlv u_seq (pw_oct u_oct (pa_name a) ++ ptlv u_set (cat (pw_oct u_oct) (pa_vals a)) ++ ptrail 6).

Definition penc_op_inner (o : op) : list byte :=
  match o with
  | BindRequest version name auth => pw_int version ++ pw_oct u_oct name ++ penc_cred auth ++ ptrail 2
  | BindResponse res sasl => penc_result res ++ pw_opt_oct (ctx 7 false) sasl ++ ptrail 3
  | UnbindRequest => []
  | SearchRequest base scope deref size time types_only f attrs =>
      pw_oct u_oct base ++ pw_enum scope ++ pw_enum deref ++ pw_int size ++ pw_int time
      ++ pw_bool u_bool types_only ++ penc_filter f ++ ptlv u_seq (cat (pw_oct u_oct) attrs) ++ ptrail 4
  | SearchResultEntry name attrs => pw_oct u_oct name ++ ptlv u_seq (cat penc_partial_attr attrs) ++ ptrail 5
  | SearchResultDone res => penc_result res ++ ptrail 7
  | SearchResultReference uris => cat (pw_oct u_oct) uris
  | ExtendedRequest name value => pw_oct (ctx 0 false) name ++ pw_opt_oct (ctx 1 false) value ++ ptrail 8
  | ExtendedResponse res name value =>
      penc_result res ++ pw_opt_oct (ctx 10 false) name ++ pw_opt_oct (ctx 11 false) value ++ ptrail 9
  end.

Definition penc_msg (m : msg) : list byte :=
  ptlv u_seq (pw_int (m_id m)
              ++ ptlv (app_tag (op_tag_number (m_op m))) (penc_op_inner (m_op m))
              ++ match m_controls m with
                 | [] => []
                 | cs => ptlv (ctx 0 true) (cat penc_control cs)
                 end
              ++ ptrail 10).
End Peer.

(* the library's own encoder is the peer that always chooses minimal lengths, FF and omission *)
Definition canon_lf (d : list byte) : list byte := pack_length (nlen d).

Lemma ptlv_canon t d : ptlv canon_lf t d = tlv t d.
Proof. reflexivity. Qed.
