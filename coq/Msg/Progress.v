(* The decoders never run out of loop fuel, and every decoder that hands a reader back hands
   back a strictly shorter one.  (Used for C05 totality, C06 framing and the C18 loop bounds.) *)
From Coq Require Import ZArith NArith List Bool Lia.
From Coq.Strings Require Import Byte.
From SV Require Import Base.Bytes Base.Py Gen.Generated Asn1.Model Asn1.Progress Msg.Types Msg.Encode Msg.Decode.
Import ListNotations.

Lemma loop_nofuel {S} (body : S -> reader -> res (S * reader)) :
  (forall s r, r <> [] -> nofuel (body s r)) ->
  (forall s r s' r', r <> [] -> body s r = Ok (s', r') -> (length r' < length r)%nat) ->
  forall fuel s r, (length r < fuel)%nat -> nofuel (loop fuel body s r).
Proof.
  intros Hn Hp. induction fuel as [|f IH]; intros s r Hl; [lia|].
  cbn [loop]. destruct r as [|b r0] eqn:Er; [nfd|]. rewrite <- Er in *.
  assert (Hne : r <> []) by (rewrite Er; nfd).
  apply nofuel_bind; [now apply Hn|]. intros [s' r'] Hb.
  apply IH. specialize (Hp _ _ _ _ Hne Hb). lia.
Qed.

Lemma while_reader_nofuel {S} (body : S -> reader -> res (S * reader)) s r :
  (forall s r, r <> [] -> nofuel (body s r)) ->
  (forall s r s' r', r <> [] -> body s r = Ok (s', r') -> (length r' < length r)%nat) ->
  nofuel (while_reader body s r).
Proof. intros Hn Hp. unfold while_reader. apply loop_nofuel; auto. Qed.

Lemma dec_str_nofuel b : nofuel (dec_str b).
Proof. unfold dec_str. destruct (utf8_valid b); nfd. Qed.

Lemma read_str_nofuel r t h : nofuel (read_str r t h).
Proof.
  unfold read_str. apply nofuel_bind; [apply read_octet_string_nofuel|intros [b r'] _].
  apply nofuel_bind; [apply dec_str_nofuel|intros; nfd].
Qed.

Lemma read_str_progress r t hdr v r' :
  hdr_ok r hdr -> read_str r t hdr = Ok (v, r') -> r <> [] -> (length r' < length r)%nat.
Proof.
  unfold read_str. intros Hh. destruct (read_octet_string r t hdr) as [[b r1]|e] eqn:R; [|nfd]. cbn [bind].
  destruct (dec_str b); [|nfd]. cbn [bind]. intros H Hne; inversion H; subst.
  eapply read_octet_string_progress; eauto.
Qed.

(* generic automation for "nofuel" goals *)
Ltac nf :=
  repeat first
    [ apply nofuel_ok
    | nfd
    | apply read_octet_string_nofuel | apply read_sequence_nofuel | apply read_set_nofuel
    | apply read_boolean_nofuel | apply read_integer_nofuel | apply read_enumerated_nofuel
    | apply peek_header_nofuel | apply read_str_nofuel | apply dec_str_nofuel
    | match goal with
      | |- nofuel (bind _ _) => apply nofuel_bind; [|intros ? ?]
      | |- nofuel (if ?b then _ else _) => destruct b
      | |- nofuel (match ?x with _ => _ end) => destruct x
      end ].

(* ---- controls *)
Lemma unpack_paged_nofuel crit value : nofuel (unpack_paged crit value).
Proof. unfold unpack_paged. nf. Qed.

Lemma unpack_control_nofuel r : nofuel (unpack_control r).
Proof. unfold unpack_control. nf; apply unpack_paged_nofuel. Qed.

Lemma unpack_control_progress r c r' : unpack_control r = Ok (c, r') -> r <> [] -> (length r' < length r)%nat.
Proof.
  unfold unpack_control. destruct (read_sequence r None None) as [[cr r1]|e] eqn:R; [|nfd]. cbn [bind].
  intros H Hne.
  assert (r' = r1).
  { repeat match type of H with
           | bind ?m _ = _ => destruct m as [?|?]; cbn [bind] in H; [|discriminate H]
           | (match ?x with _ => _ end) = _ => destruct x
           end.
    now inversion H. }
  subst. eapply read_sequence_progress; eauto. exact I.
Qed.

(* ---- credentials *)
Lemma unpack_cred_nofuel r : nofuel (unpack_cred r).
Proof. unfold unpack_cred. nf. Qed.

(* ---- filters *)
Lemma unpack_ava_nofuel id r : nofuel (unpack_ava id r).
Proof. unfold unpack_ava. nf. Qed.

Lemma unpack_ava_progress id r a v r' : unpack_ava id r = Ok (a, v, r') -> r <> [] -> (length r' < length r)%nat.
Proof.
  unfold unpack_ava. destruct (read_sequence r _ None) as [[fr r1]|e] eqn:R; [|nfd]. cbn [bind].
  destruct (read_str fr None None) as [[a0 fr1]|e]; [|nfd]. cbn [bind].
  destruct (read_octet_string fr1 None None) as [[v0 fr2]|e]; [|nfd]. cbn [bind].
  intros H Hne; inversion H; subst. eapply read_sequence_progress; eauto. exact I.
Qed.

Ltac body_progress :=
  intros ? ? ? ? Hne;
  repeat match goal with
         | |- (match ?st with (_, _) => _ end) = _ -> _ => destruct st
         end;
  match goal with
  | |- bind (peek_header ?r) _ = _ -> _ =>
      let P := fresh "P" in
      destruct (peek_header r) as [h|e] eqn:P; [|nfd]; cbn [bind];
      pose proof (peek_header_ok _ _ P)
  end;
  repeat match goal with
         | |- (if ?b then _ else _) = _ -> _ => destruct b
         | |- (match ?x with Some _ => _ | None => _ end) = _ -> _ => destruct x
         end;
  try nfd;
  try (intros HH; inversion HH; subst; apply skip_value_progress; assumption);
  match goal with
  | |- bind (read_octet_string ?r ?t ?h) _ = _ -> _ =>
      let R := fresh "R" in destruct (read_octet_string r t h) as [[? ?]|?] eqn:R; [|nfd]; cbn [bind];
      intros HH; inversion HH; subst; eapply read_octet_string_progress; eauto; cbn [hdr_ok]; assumption
  | |- bind (read_str ?r ?t ?h) _ = _ -> _ =>
      let R := fresh "R" in destruct (read_str r t h) as [[? ?]|?] eqn:R; [|nfd]; cbn [bind];
      intros HH; inversion HH; subst; eapply read_str_progress; eauto; cbn [hdr_ok]; assumption
  | |- bind (read_boolean ?r ?t ?h) _ = _ -> _ =>
      let R := fresh "R" in destruct (read_boolean r t h) as [[? ?]|?] eqn:R; [|nfd]; cbn [bind];
      intros HH; inversion HH; subst; eapply read_boolean_progress; eauto; cbn [hdr_ok]; assumption
  end.

Lemma unpack_substrings_nofuel r : nofuel (unpack_substrings r).
Proof.
  unfold unpack_substrings. nf.
  apply while_reader_nofuel.
  - intros [[ini any] fin] sr _. nf.
  - body_progress.
Qed.

Lemma unpack_substrings_progress r f r' : unpack_substrings r = Ok (f, r') -> r <> [] -> (length r' < length r)%nat.
Proof.
  unfold unpack_substrings. destruct (read_sequence r _ None) as [[fr r1]|e] eqn:R; [|nfd]. cbn [bind].
  intros H Hne.
  assert (r' = r1).
  { repeat match type of H with
           | bind ?m _ = _ => destruct m as [?|?]; cbn [bind] in H; [|discriminate H]
           | (match ?x with _ => _ end) = _ => destruct x
           end.
    now inversion H. }
  subst. eapply read_sequence_progress; eauto. exact I.
Qed.

Lemma unpack_extensible_nofuel r : nofuel (unpack_extensible r).
Proof.
  unfold unpack_extensible. nf.
  apply while_reader_nofuel.
  - intros [[[rule attr] v] dn] fr _. nf.
  - body_progress.
Qed.

Lemma unpack_extensible_progress r f r' : unpack_extensible r = Ok (f, r') -> r <> [] -> (length r' < length r)%nat.
Proof.
  unfold unpack_extensible. destruct (read_sequence r _ None) as [[fr r1]|e] eqn:R; [|nfd]. cbn [bind].
  intros H Hne.
  assert (r' = r1).
  { repeat match type of H with
           | bind ?m _ = _ => destruct m as [?|?]; cbn [bind] in H; [|discriminate H]
           | (match ?x with _ => _ end) = _ => destruct x
           end.
    now inversion H. }
  subst. eapply read_sequence_progress; eauto. exact I.
Qed.

(* LDAPFilter.unpack: by induction on the recursion budget *)
Lemma unpack_filter_facts d : forall r,
  nofuel (unpack_filter d r) /\
  (forall f r', unpack_filter d r = Ok (f, r') -> r <> [] -> (length r' < length r)%nat).
Proof.
  induction d as [|d IH]; intros r; cbn [unpack_filter]; [split; [nfd|nfd]|].
  assert (IHn : forall r, nofuel (unpack_filter d r)) by (intros; apply IH).
  assert (IHp : forall r f r', unpack_filter d r = Ok (f, r') -> r <> [] -> (length r' < length r)%nat)
    by (intros r0; apply IH).
  assert (Many : forall id (mk : list filter -> filter),
            nofuel ('(sr, r') <- read_set r (Some (ctx id true)) None ;;
                    fs <- while_reader (fun acc sr => '(f, sr') <- unpack_filter d sr ;; Ok (acc ++ [f], sr')) [] sr ;;
                    Ok (mk fs, r')) /\
            (forall f r', ('(sr, r') <- read_set r (Some (ctx id true)) None ;;
                    fs <- while_reader (fun acc sr => '(f, sr') <- unpack_filter d sr ;; Ok (acc ++ [f], sr')) [] sr ;;
                    Ok (mk fs, r')) = Ok (f, r') -> r <> [] -> (length r' < length r)%nat)).
  { intros id mk. split.
    - apply nofuel_bind; [apply read_set_nofuel|intros [sr r1] _].
      apply nofuel_bind; [|intros; nfd].
      apply while_reader_nofuel.
      + intros acc sr0 _. apply nofuel_bind; [apply IHn|intros [? ?] _; nfd].
      + intros acc sr0 acc' sr' Hne. destruct (unpack_filter d sr0) as [[f0 sr1]|e] eqn:U; [|nfd].
        cbn [bind]. intros H; inversion H; subst. eapply IHp; eauto.
    - intros f r'. destruct (read_set r _ None) as [[sr r1]|e] eqn:R; [|nfd]. cbn [bind].
      destruct (while_reader _ [] sr); [|nfd]. cbn [bind].
      intros H Hne; inversion H; subst. eapply read_set_progress; eauto. exact I. }
  destruct (peek_header r) as [h|e] eqn:P; cbn [bind].
  2: { split; [|nfd]. pose proof (peek_header_nofuel r) as N. rewrite P in N.
       unfold nofuel in *. intros c C. apply N. injection C as ->. reflexivity. }
  destruct (negb _); [split; nfd|].
  repeat match goal with
         | |- context [if ?b then _ else _] => destruct b
         end.
  all: try (apply Many).
  all: try (split; [nfd|nfd]).
  (* AVA-style *)
  all: try (split;
            [apply nofuel_bind; [apply unpack_ava_nofuel|intros [[? ?] ?] _; nfd]
            |intros f r'; match goal with |- context [unpack_ava ?i ?rr] => destruct (unpack_ava i rr) as [[[a v] r1]|e] eqn:U end;
             [|nfd]; cbn [bind]; intros H Hne; inversion H; subst; eapply unpack_ava_progress; eauto]).
  (* extensible, substrings *)
  all: try (split; [apply unpack_extensible_nofuel|apply unpack_extensible_progress]).
  all: try (split; [apply unpack_substrings_nofuel|apply unpack_substrings_progress]).
  (* not *)
  - split.
    + apply nofuel_bind; [apply read_sequence_nofuel|intros [nr r1] _].
      apply nofuel_bind; [apply IHn|intros [? ?] _; nfd].
    + intros f r'. destruct (read_sequence r _ None) as [[nr r1]|e] eqn:R; [|nfd]. cbn [bind].
      destruct (unpack_filter d nr) as [[f0 x]|e]; [|nfd]. cbn [bind].
      intros H Hne; inversion H; subst. eapply read_sequence_progress; eauto. exact I.
  (* present *)
  - split.
    + apply nofuel_bind; [apply read_str_nofuel|intros [? ?] _; nfd].
    + intros f r'. destruct (read_str r _ None) as [[a r1]|e] eqn:R; [|nfd]. cbn [bind].
      intros H Hne; inversion H; subst. eapply read_str_progress; eauto. exact I.
Qed.

Lemma unpack_filter_nofuel d r : nofuel (unpack_filter d r).
Proof. apply unpack_filter_facts. Qed.

(* ---- result, attributes *)
Ltac simple_loop_facts lem_n lem_p :=
  apply while_reader_nofuel;
  [ intros acc rr _; apply nofuel_bind; [apply lem_n|intros [? ?] _; nfd]
  | intros acc rr acc' rr' Hne;
    match goal with |- bind ?m _ = _ -> _ => destruct m as [[x y]|e] eqn:U; [|nfd] end;
    cbn [bind]; intros HH; inversion HH; subst; eapply lem_p; eauto; exact I ].

Lemma unpack_result_nofuel r : nofuel (unpack_result r).
Proof.
  unfold unpack_result. nf.
  all: simple_loop_facts read_str_nofuel read_str_progress.
Qed.

Lemma unpack_partial_attr_nofuel r : nofuel (unpack_partial_attr r).
Proof.
  unfold unpack_partial_attr. nf.
  simple_loop_facts read_octet_string_nofuel read_octet_string_progress.
Qed.

Lemma unpack_partial_attr_progress r a r' : unpack_partial_attr r = Ok (a, r') -> r <> [] -> (length r' < length r)%nat.
Proof.
  unfold unpack_partial_attr. destruct (read_sequence r None None) as [[ar r1]|e] eqn:R; [|nfd]. cbn [bind].
  intros H Hne.
  assert (r' = r1).
  { repeat match type of H with
           | bind ?m _ = _ => destruct m as [?|?]; cbn [bind] in H; [|discriminate H]
           | (match ?x with _ => _ end) = _ => destruct x
           end.
    now inversion H. }
  subst. eapply read_sequence_progress; eauto. exact I.
Qed.

Lemma enum_member_nofuel v t : nofuel (enum_member v t).
Proof. unfold enum_member. destruct v; try destruct (in_table _ _); nfd. Qed.

Ltac skip_loop_facts :=
  apply while_reader_nofuel; [intros acc rr _; nf | body_progress].

Lemma unpack_op_nofuel d num r : nofuel (unpack_op d num r).
Proof.
  unfold unpack_op.
  repeat match goal with |- nofuel (if ?b then _ else _) => destruct b end; try nfd.
  - nf. apply unpack_cred_nofuel.
  - apply nofuel_bind; [apply unpack_result_nofuel|intros [? ?] _].
    apply nofuel_bind; [|intros; nfd]. skip_loop_facts.
  - nf; try apply enum_member_nofuel; try apply unpack_filter_nofuel.
    simple_loop_facts read_str_nofuel read_str_progress.
  - nf. simple_loop_facts unpack_partial_attr_nofuel unpack_partial_attr_progress.
  - apply nofuel_bind; [apply unpack_result_nofuel|intros [? ?] _; nfd].
  - apply nofuel_bind; [|intros; nfd]. simple_loop_facts read_str_nofuel read_str_progress.
  - nf. skip_loop_facts.
  - apply nofuel_bind; [apply unpack_result_nofuel|intros [? ?] _].
    apply nofuel_bind; [|intros; nfd]. skip_loop_facts.
Qed.

(* ---- whole messages *)
Lemma unpack_message_value_nofuel d m : nofuel (unpack_message_value d m).
Proof.
  unfold unpack_message_value. nf; try apply unpack_op_nofuel.
  apply while_reader_nofuel.
  - intros st mr _. nf.
    apply while_reader_nofuel.
    + intros acc cr _. apply nofuel_bind; [apply unpack_control_nofuel|intros [? ?] _; nfd].
    + intros acc cr acc' cr' Hne. destruct (unpack_control cr) as [[c cr1]|e] eqn:U; [|nfd].
      cbn [bind]. intros HH; inversion HH; subst. eapply unpack_control_progress; eauto.
  - intros st mr st' mr' Hne.
    destruct (peek_header mr) as [nh|e] eqn:P; [|nfd]. cbn [bind].
    pose proof (peek_header_ok _ _ P) as Hh.
    destruct (is_ctx nh 0).
    + destruct (read_sequence mr None (Some nh)) as [[cr mr1]|e] eqn:R; [|nfd]. cbn [bind].
      destruct (while_reader _ (fst st) cr); [|nfd]. cbn [bind].
      intros HH; inversion HH; subst. eapply read_sequence_progress; eauto. cbn [hdr_ok]; assumption.
    + destruct (is_ctx nh 10).
      * destruct (read_str mr None (Some nh)) as [[s mr1]|e] eqn:R; [|nfd]. cbn [bind].
        intros HH; inversion HH; subst. eapply read_str_progress; eauto. cbn [hdr_ok]; assumption.
      * intros HH; inversion HH; subst. apply skip_value_progress; assumption.
Qed.

Lemma unpack_message_nofuel d r : nofuel (unpack_message d r).
Proof.
  unfold unpack_message. apply nofuel_bind; [apply read_sequence_nofuel|intros [message r'] _].
  pose proof (unpack_message_value_nofuel d message) as N.
  destruct (unpack_message_value d message) as [m|e]; [nfd|].
  destruct e as [| | |k]; try nfd. intros c C. injection C as <-. now apply N.
Qed.

(* a decoded message consumed exactly the outer TLV that read_sequence validated *)
Lemma unpack_message_progress d r m r' : unpack_message d r = Ok (m, r') -> r <> [] -> (length r' < length r)%nat.
Proof.
  unfold unpack_message. destruct (read_sequence r None None) as [[message r1]|e] eqn:R; [|nfd]. cbn [bind].
  destruct (unpack_message_value d message) as [m0|e]; [|destruct e; nfd].
  intros H Hne; inversion H; subst. eapply read_sequence_progress; eauto. exact I.
Qed.
