(* RFC 4511 (appendix B) as a specification: every LDAPMessage is mapped to a generic BER tree
   carrying, for each element, the tag class, tag number and primitive/constructed form the ASN.1
   module prescribes (IMPLICIT tags, [APPLICATION n], NULL, DEFAULT/OPTIONAL omission, BOOLEAN TRUE =
   FF).  Written from the RFC text, not from the encoder.  The TLV layer itself (identifier octets,
   minimal definite lengths, minimal two's-complement integers) is the subject of C07. *)
From Coq Require Import ZArith NArith List Bool.
From Coq.Strings Require Import Byte.
From SV Require Import Base.Bytes Base.Py Gen.Generated Asn1.Model Msg.Types Msg.Encode.
Import ListNotations.
Local Open Scope N_scope.

Inductive ber :=
| Prim (cls num : N) (content : list byte)
| Constr (cls num : N) (kids : list ber).

Fixpoint ser (b : ber) : list byte :=
  match b with
  | Prim c n d => tlv (mkTag c n false) d
  | Constr c n ks => tlv (mkTag c n true) (flat_map ser ks)
  end.

(* tag classes of X.690 *)
Definition UNIV : N := 0.  Definition APPL : N := 1.  Definition CTXT : N := 2.

(* universal types used by LDAP *)
Definition r_boolean (b : bool) : ber := Prim UNIV 1 [if b then xff else x00].
Definition r_integer (z : Z) : ber := Prim UNIV 2 (int_content z).
Definition r_octets (v : list byte) : ber := Prim UNIV 4 v.
Definition r_enumerated (z : Z) : ber := Prim UNIV 10 (int_content z).
Definition r_sequence (ks : list ber) : ber := Constr UNIV 16 ks.
Definition r_set (ks : list ber) : ber := Constr UNIV 17 ks.
Definition opt {A} (f : A -> ber) (o : option A) : list ber := match o with Some a => [f a] | None => [] end.

(* Control ::= SEQUENCE { controlType LDAPOID, criticality BOOLEAN DEFAULT FALSE, controlValue OCTET STRING OPTIONAL } *)
Definition r_control (c : control) : ber :=
  r_sequence ([r_octets (control_oid c)] ++ (if control_crit c then [r_boolean true] else [])
              ++ opt r_octets (control_value c)).

(* AuthenticationChoice ::= CHOICE { simple [0] OCTET STRING, sasl [3] SaslCredentials }
   SaslCredentials ::= SEQUENCE { mechanism LDAPString, credentials OCTET STRING OPTIONAL } *)
Definition r_cred (c : cred) : ber :=
  match c with
  | CrSimple pw => Prim CTXT 0 pw
  | CrSasl mech creds => Constr CTXT 3 ([r_octets mech] ++ opt r_octets creds)
  end.

(* Filter ::= CHOICE { and [0] SET OF Filter, or [1] SET OF Filter, not [2] Filter,
     equalityMatch [3] AVA, substrings [4] SubstringFilter, greaterOrEqual [5] AVA, lessOrEqual [6] AVA,
     present [7] AttributeDescription, approxMatch [8] AVA, extensibleMatch [9] MatchingRuleAssertion }
   (not [2] is an EXPLICIT-like tagging of a CHOICE: constructed, containing the inner filter)
   SubstringFilter ::= SEQUENCE { type, substrings SEQUENCE OF CHOICE { initial [0], any [1], final [2] } }
   MatchingRuleAssertion ::= SEQUENCE { matchingRule [1] OPTIONAL, type [2] OPTIONAL, matchValue [3],
                                        dnAttributes [4] BOOLEAN DEFAULT FALSE } *)
Fixpoint r_filter (f : filter) : ber :=
  match f with
  | FAnd fs => Constr CTXT 0 (map r_filter fs)
  | FOr fs => Constr CTXT 1 (map r_filter fs)
  | FNot g => Constr CTXT 2 [r_filter g]
  | FEq a v => Constr CTXT 3 [r_octets a; r_octets v]
  | FSub a ini any fin =>
      Constr CTXT 4 [r_octets a;
                     r_sequence (opt (Prim CTXT 0) ini ++ map (Prim CTXT 1) any ++ opt (Prim CTXT 2) fin)]
  | FGe a v => Constr CTXT 5 [r_octets a; r_octets v]
  | FLe a v => Constr CTXT 6 [r_octets a; r_octets v]
  | FPresent a => Prim CTXT 7 a
  | FApprox a v => Constr CTXT 8 [r_octets a; r_octets v]
  | FExt rule attr v dn =>
      Constr CTXT 9 (opt (Prim CTXT 1) rule ++ opt (Prim CTXT 2) attr ++ [Prim CTXT 3 v]
                     ++ (if dn then [Prim CTXT 4 [xff]] else []))
  end.

(* LDAPResult ::= SEQUENCE { resultCode ENUMERATED, matchedDN LDAPDN, diagnosticMessage LDAPString,
                             referral [3] Referral OPTIONAL }   (COMPONENTS OF: inlined) *)
Definition r_result (r : ldap_result) : list ber :=
  [r_enumerated (r_code r); r_octets (r_matched r); r_octets (r_diag r)]
  ++ opt (fun l => Constr CTXT 3 (map r_octets l)) (r_referrals r).

(* PartialAttribute ::= SEQUENCE { type AttributeDescription, vals SET OF AttributeValue } *)
Definition r_partial_attr (a : partial_attr) : ber :=
  r_sequence [r_octets (pa_name a); r_set (map r_octets (pa_vals a))].

Definition r_op (o : op) : ber :=
  match o with
  | BindRequest version name auth =>                       (* [APPLICATION 0] SEQUENCE *)
      Constr APPL 0 [r_integer version; r_octets name; r_cred auth]
  | BindResponse res sasl =>                               (* [APPLICATION 1] SEQUENCE { COMPONENTS OF LDAPResult, serverSaslCreds [7] OPTIONAL } *)
      Constr APPL 1 (r_result res ++ opt (Prim CTXT 7) sasl)
  | UnbindRequest => Prim APPL 2 []                        (* [APPLICATION 2] NULL *)
  | SearchRequest base scope deref size time types_only f attrs =>   (* [APPLICATION 3] SEQUENCE *)
      Constr APPL 3 [r_octets base; r_enumerated scope; r_enumerated deref; r_integer size; r_integer time;
                     r_boolean types_only; r_filter f; r_sequence (map r_octets attrs)]
  | SearchResultEntry name attrs =>                        (* [APPLICATION 4] SEQUENCE *)
      Constr APPL 4 [r_octets name; r_sequence (map r_partial_attr attrs)]
  | SearchResultDone res => Constr APPL 5 (r_result res)   (* [APPLICATION 5] LDAPResult *)
  | SearchResultReference uris => Constr APPL 19 (map r_octets uris)   (* [APPLICATION 19] SEQUENCE OF URI *)
  | ExtendedRequest name value =>                          (* [APPLICATION 23] SEQUENCE { requestName [0], requestValue [1] OPTIONAL } *)
      Constr APPL 23 ([Prim CTXT 0 name] ++ opt (Prim CTXT 1) value)
  | ExtendedResponse res name value =>                     (* [APPLICATION 24] SEQUENCE { COMPONENTS OF LDAPResult, responseName [10], responseValue [11] } *)
      Constr APPL 24 (r_result res ++ opt (Prim CTXT 10) name ++ opt (Prim CTXT 11) value)
  end.

(* LDAPMessage ::= SEQUENCE { messageID, protocolOp, controls [0] Controls OPTIONAL } *)
Definition r_msg (m : msg) : ber :=
  r_sequence ([r_integer (m_id m); r_op (m_op m)]
              ++ match m_controls m with [] => [] | cs => [Constr CTXT 0 (map r_control cs)] end).

Definition rfc_enc (m : msg) : list byte := ser (r_msg m).
