(* C03: the library's encoder produces exactly the RFC 4511 encoding (for every operation except
   UnbindRequest, where it sets the constructed bit -- known finding pinned by the test-suite). *)
From Coq Require Import ZArith NArith List Bool Lia.
From Coq.Strings Require Import Byte.
From SV Require Import Base.Bytes Base.Py Gen.Generated Asn1.Model Msg.Types Msg.Encode Msg.Decode Msg.Rfc Msg.RoundTrip.
Import ListNotations.
Local Open Scope N_scope.

(* the generated constants are the RFC's numbers *)
Lemma constants_are_rfc :
  cls_universal = 0 /\ cls_application = 1 /\ cls_context = 2 /\
  tn_boolean = 1 /\ tn_integer = 2 /\ tn_octet_string = 4 /\ tn_enumerated = 10 /\ tn_sequence = 16 /\ tn_set = 17 /\
  op_bind_request = 0 /\ op_bind_response = 1 /\ op_unbind_request = 2 /\ op_search_request = 3 /\
  op_search_result_entry = 4 /\ op_search_result_done = 5 /\ op_search_result_reference = 19 /\
  op_extended_request = 23 /\ op_extended_response = 24 /\
  fid_and = 0 /\ fid_or = 1 /\ fid_not = 2 /\ fid_equality = 3 /\ fid_substrings = 4 /\ fid_ge = 5 /\ fid_le = 6 /\
  fid_present = 7 /\ fid_approx = 8 /\ fid_extensible = 9 /\ aid_simple = 0 /\ aid_sasl = 3.
Proof. repeat split; reflexivity. Qed.

Lemma flat_map_ser_map {A} (f : A -> ber) l : flat_map ser (map f l) = flat_map (fun x => ser (f x)) l.
Proof. induction l as [|x l IH]; cbn [map flat_map]; [reflexivity|now rewrite IH]. Qed.

Lemma flat_map_ext' {A} (f g : A -> list byte) l : (forall x, In x l -> f x = g x) -> flat_map f l = flat_map g l.
Proof.
  induction l as [|x l IH]; intros H; cbn [flat_map]; [reflexivity|].
  rewrite (H x) by now left. rewrite IH; [reflexivity|]. intros y Hy. apply H. now right.
Qed.

Lemma ser_opt {A} (f : A -> ber) o : flat_map ser (opt f o) = match o with Some a => ser (f a) | None => [] end.
Proof. destruct o; cbn [opt flat_map]; [apply app_nil_r|reflexivity]. Qed.

Ltac norm :=
  cbn [flat_map ser r_octets r_integer r_enumerated r_boolean r_sequence r_set opt app];
  rewrite ?app_nil_r; unfold w_oct, w_opt_oct, w_enum, w_int, w_bool, cat.

Lemma filter_is_rfc f : enc_filter f = ser (r_filter f).
Proof.
  revert f. fix IH 1. intros f. destruct f; cbn [enc_filter r_filter ser].
  - f_equal. rewrite flat_map_ser_map. induction fs as [|g fs IHl]; cbn [flat_map]; [reflexivity|]. now rewrite IH, IHl.
  - f_equal. rewrite flat_map_ser_map. induction fs as [|g fs IHl]; cbn [flat_map]; [reflexivity|]. now rewrite IH, IHl.
  - cbn [flat_map]. rewrite app_nil_r. now rewrite IH.
  - norm. reflexivity.
  - norm. rewrite !flat_map_app, !ser_opt, flat_map_ser_map. destruct initial; destruct final; reflexivity.
  - norm. reflexivity.
  - norm. reflexivity.
  - reflexivity.
  - norm. reflexivity.
  - rewrite !flat_map_app, !ser_opt. norm.
    destruct rule; destruct attr; destruct dn; norm; reflexivity.
Qed.

Lemma control_is_rfc c : enc_control c = ser (r_control c).
Proof.
  unfold enc_control, r_control. cbn [ser r_sequence]. f_equal.
  rewrite !flat_map_app, ser_opt. cbn [flat_map ser r_octets]. rewrite app_nil_r. unfold w_oct, w_opt_oct, w_bool.
  destruct (control_crit c); destruct (control_value c); cbn [flat_map ser r_boolean app]; rewrite ?app_nil_r; reflexivity.
Qed.

Lemma cred_is_rfc c : enc_cred c = ser (r_cred c).
Proof.
  destruct c as [pw|mech creds]; cbn [enc_cred r_cred ser]; [reflexivity|].
  f_equal. rewrite flat_map_app, ser_opt. cbn [flat_map ser r_octets]. rewrite app_nil_r. unfold w_oct, w_opt_oct.
  destruct creds; reflexivity.
Qed.

Lemma result_is_rfc r : enc_result r = flat_map ser (r_result r).
Proof.
  unfold enc_result, r_result. rewrite flat_map_app, ser_opt. cbn [flat_map ser r_enumerated r_octets].
  unfold w_enum, w_oct, cat. rewrite <- !app_assoc. cbn [app]. do 3 f_equal.
  destruct (r_referrals r) as [l|]; [|reflexivity]. cbn [ser]. rewrite flat_map_ser_map. reflexivity.
Qed.

Lemma pa_is_rfc a : enc_partial_attr a = ser (r_partial_attr a).
Proof.
  unfold enc_partial_attr, r_partial_attr. cbn [ser r_sequence r_set r_octets flat_map]. rewrite app_nil_r.
  unfold w_oct, cat. rewrite flat_map_ser_map. reflexivity.
Qed.

Theorem op_is_rfc o :
  o <> UnbindRequest -> tlv (app_tag (op_tag_number o)) (enc_op_inner o) = ser (r_op o).
Proof.
  intros NU. destruct o; cbn [op_tag_number enc_op_inner r_op ser]; try congruence; f_equal.
  - cbn [flat_map ser r_integer r_octets]. rewrite app_nil_r. now rewrite cred_is_rfc.
  - rewrite flat_map_app, ser_opt, result_is_rfc. unfold w_opt_oct, w_oct. destruct sasl; reflexivity.
  - cbn [flat_map ser r_integer r_octets r_enumerated r_boolean r_sequence]. rewrite app_nil_r.
    rewrite filter_is_rfc. unfold w_oct, w_enum, w_int, w_bool, cat. rewrite flat_map_ser_map. reflexivity.
  - cbn [flat_map ser r_octets r_sequence]. rewrite app_nil_r. unfold w_oct, cat. rewrite flat_map_ser_map.
    f_equal. f_equal. apply flat_map_ext'. intros x _. apply pa_is_rfc.
  - apply result_is_rfc.
  - unfold cat, w_oct. rewrite flat_map_ser_map. reflexivity.
  - rewrite flat_map_app, ser_opt. cbn [flat_map ser]. rewrite app_nil_r. unfold w_oct, w_opt_oct. destruct value; reflexivity.
  - rewrite !flat_map_app, !ser_opt, result_is_rfc. unfold w_opt_oct, w_oct. destruct name; destruct value; reflexivity.
Qed.

(* the whole message *)
Theorem enc_is_rfc m : m_op m <> UnbindRequest -> enc_msg m = rfc_enc m.
Proof.
  intros NU. unfold enc_msg, rfc_enc, r_msg. cbn [ser r_sequence]. f_equal.
  rewrite flat_map_app. cbn [flat_map ser r_integer]. rewrite app_nil_r.
  unfold w_int. rewrite <- app_assoc. f_equal. rewrite op_is_rfc by assumption. f_equal.
  destruct (m_controls m) as [|c cs]; [reflexivity|].
  cbn [flat_map ser]. rewrite app_nil_r. f_equal. unfold cat. rewrite flat_map_ser_map.
  apply flat_map_ext'. intros x _. apply control_is_rfc.
Qed.

(* the one deviation: UnbindRequest is [APPLICATION 2] NULL, i.e. primitive 42 00; the library
   writes the constructed form 62 00 (nine existing tests pin those bytes) *)
Theorem unbind_is_not_rfc :
  enc_msg (mkMsg 0 UnbindRequest []) = [x30; x05; x02; x01; x00; x62; x00] /\
  rfc_enc (mkMsg 0 UnbindRequest []) = [x30; x05; x02; x01; x00; x42; x00].
Proof. split; vm_compute; reflexivity. Qed.

(* the encoding determines the message (up to the raw octets of a paged control): what an independent
   decoder can recover is exactly what was encoded *)
Theorem enc_injective d m m' :
  wf_msg d m -> wf_msg d m' -> enc_msg m = enc_msg m' -> norm_msg m = norm_msg m'.
Proof.
  intros W W' E. pose proof (msg_rt d m [] W) as R. pose proof (msg_rt d m' [] W') as R'.
  rewrite E in R. rewrite R in R'. assert (E' : (norm_msg m, @nil byte) = (norm_msg m', [])) by congruence. exact (f_equal fst E').
Qed.
