(* C03: an independent strict decoder written from RFC 4511 / X.690, in two layers:
   [parse_one] reads octets into a generic BER tree accepting only single-octet identifiers (LDAP has
   no tag number above 30) and definite lengths; [d_msg] reads the tree against the ASN.1 module,
   demanding the exact class / number / form of every element, TRUE = FF, omitted defaults, minimal
   integers, nothing left over.  Neither layer uses the library's reader. *)
From Coq Require Import ZArith NArith List Bool Lia.
From Coq.Strings Require Import Byte.
From SV Require Import Base.Bytes Base.Py Gen.Generated Asn1.Model Asn1.Spec Msg.Types Msg.Encode Msg.Rfc.
Import ListNotations.
Local Open Scope N_scope.

(* ---- octets -> tree *)
Definition s_ident (b : byte) : option (N * bool * N) :=
  let v := b2n b in
  if v mod 32 =? 31 then None else Some (v / 64, 32 <=? v mod 64, v mod 32).

Definition s_length (bs : list byte) : option (N * list byte) :=
  match bs with
  | [] => None
  | l0 :: r =>
      let v := b2n l0 in
      if v <? 128 then Some (v, r)
      else if v =? 128 then None          (* indefinite form: excluded by RFC 4511 5.1 *)
      else if v =? 255 then None          (* reserved *)
      else let k := v - 128 in
           if nlen r <? k then None else Some (Z.to_N (ube (take k r)), drop k r)
  end.

Fixpoint parse_one (fuel : nat) (bs : list byte) : option (ber * list byte) :=
  match fuel with
  | O => None
  | S f =>
      match bs with
      | [] => None
      | b0 :: r =>
          match s_ident b0 with
          | None => None
          | Some (cls, constructed, num) =>
              match s_length r with
              | None => None
              | Some (len, r2) =>
                  if nlen r2 <? len then None
                  else
                    let content := take len r2 in
                    let rest := drop len r2 in
                    if constructed then
                      match parse_many f content with
                      | Some ks => Some (Constr cls num ks, rest)
                      | None => None
                      end
                    else Some (Prim cls num content, rest)
              end
          end
      end
  end
with parse_many (fuel : nat) (bs : list byte) : option (list ber) :=
  match fuel with
  | O => None
  | S f =>
      match bs with
      | [] => Some []
      | _ =>
          match parse_one f bs with
          | Some (k, rest) =>
              match parse_many f rest with Some ks => Some (k :: ks) | None => None end
          | None => None
          end
      end
  end.

(* ---- tree -> message *)
Definition d_list {A} (f : ber -> option A) : list ber -> option (list A) :=
  fix go l :=
    match l with
    | [] => Some []
    | x :: r => match f x, go r with Some a, Some b => Some (a :: b) | _, _ => None end
    end.

Definition is_prim (c n : N) (b : ber) : option (list byte) :=
  match b with Prim c' n' v => if (c' =? c) && (n' =? n) then Some v else None | Constr _ _ _ => None end.
Definition is_constr (c n : N) (b : ber) : option (list ber) :=
  match b with Constr c' n' ks => if (c' =? c) && (n' =? n) then Some ks else None | Prim _ _ _ => None end.

Definition d_octets := is_prim 0 4.
Definition d_int_content (c : list byte) : option Z :=
  match c with
  | [] => None
  | _ => let z := twos c in if bytes_eqb (int_content z) c then Some z else None   (* minimal form only *)
  end.
Definition d_integer (b : ber) : option Z := match is_prim 0 2 b with Some c => d_int_content c | None => None end.
Definition d_enumerated (b : ber) : option Z := match is_prim 0 10 b with Some c => d_int_content c | None => None end.
Definition d_bool_content (c : list byte) : option bool :=
  match c with [b] => if byte_eqb b xff then Some true else if byte_eqb b x00 then Some false else None | _ => None end.
Definition d_boolean (b : ber) : option bool := match is_prim 0 1 b with Some c => d_bool_content c | None => None end.

(* an OPTIONAL element with a given primitive tag at the head of a list *)
Definition take_opt (c n : N) (l : list ber) : option (list byte) * list ber :=
  match l with
  | x :: r => match is_prim c n x with Some v => (Some v, r) | None => (None, l) end
  | [] => (None, l)
  end.
(* BOOLEAN DEFAULT FALSE at the head: only an explicit TRUE may be present *)
Definition take_true (c n : N) (l : list ber) : option (bool * list ber) :=
  match l with
  | x :: r => match is_prim c n x with
              | Some v => match d_bool_content v with Some true => Some (true, r) | _ => None end
              | None => Some (false, l)
              end
  | [] => Some (false, l)
  end.

Definition d_control (b : ber) : option control :=
  match is_constr 0 16 b with
  | Some (o :: r) =>
      match d_octets o with
      | Some oid =>
          match take_true 0 1 r with
          | Some (crit, r1) =>
              match take_opt 0 4 r1 with
              | (v, []) => Some (CGeneric oid crit v)
              | _ => None
              end
          | None => None
          end
      | None => None
      end
  | _ => None
  end.

Definition d_cred (b : ber) : option cred :=
  match b with
  | Prim c n v => if (c =? 2) && (n =? 0) then Some (CrSimple v) else None
  | Constr c n ks =>
      if (c =? 2) && (n =? 3) then
        match ks with
        | m :: r => match d_octets m, take_opt 0 4 r with
                    | Some mech, (creds, []) => Some (CrSasl mech creds)
                    | _, _ => None
                    end
        | [] => None
        end
      else None
  end.

Fixpoint span_any (l : list ber) : list (list byte) * list ber :=
  match l with
  | x :: r => match is_prim 2 1 x with
              | Some v => let '(vs, t) := span_any r in (v :: vs, t)
              | None => ([], l)
              end
  | [] => ([], l)
  end.

Definition d_ava (mk : str -> octets -> filter) (ks : list ber) : option filter :=
  match ks with
  | [a; v] => match d_octets a, d_octets v with Some a, Some v => Some (mk a v) | _, _ => None end
  | _ => None
  end.

Definition d_substrings (ks : list ber) : option filter :=
  match ks with
  | [a; s] =>
      match d_octets a, is_constr 0 16 s with
      | Some a, Some subs =>
          let '(ini, r1) := take_opt 2 0 subs in
          let '(anys, r2) := span_any r1 in
          match take_opt 2 2 r2 with
          | (fin, []) => Some (FSub a ini anys fin)
          | _ => None
          end
      | _, _ => None
      end
  | _ => None
  end.

Definition d_extensible (ks : list ber) : option filter :=
  let '(rule, r1) := take_opt 2 1 ks in
  let '(attr, r2) := take_opt 2 2 r1 in
  match r2 with
  | v :: r3 =>
      match is_prim 2 3 v, take_true 2 4 r3 with
      | Some v, Some (dn, []) => Some (FExt rule attr v dn)
      | _, _ => None
      end
  | [] => None
  end.

Fixpoint d_filter (b : ber) : option filter :=
  match b with
  | Prim c n v => if (c =? 2) && (n =? 7) then Some (FPresent v) else None
  | Constr c n ks =>
      if negb (c =? 2) then None
      else if n =? 0 then option_map FAnd (d_list d_filter ks)
      else if n =? 1 then option_map FOr (d_list d_filter ks)
      else if n =? 2 then match ks with [k] => option_map FNot (d_filter k) | _ => None end
      else if n =? 3 then d_ava FEq ks
      else if n =? 4 then d_substrings ks
      else if n =? 5 then d_ava FGe ks
      else if n =? 6 then d_ava FLe ks
      else if n =? 8 then d_ava FApprox ks
      else if n =? 9 then d_extensible ks
      else None
  end.

(* COMPONENTS OF LDAPResult at the head of a list *)
Definition d_result (ks : list ber) : option (ldap_result * list ber) :=
  match ks with
  | c :: m :: d :: r =>
      match d_enumerated c, d_octets m, d_octets d with
      | Some c, Some m, Some d =>
          match r with
          | x :: r' =>
              match is_constr 2 3 x with
              | Some refs => match d_list d_octets refs with
                             | Some l => Some (mkResult c m d (Some l), r')
                             | None => None
                             end
              | None => Some (mkResult c m d None, r)
              end
          | [] => Some (mkResult c m d None, r)
          end
      | _, _, _ => None
      end
  | _ => None
  end.

Definition d_partial_attr (b : ber) : option partial_attr :=
  match is_constr 0 16 b with
  | Some [n; vs] =>
      match d_octets n, is_constr 0 17 vs with
      | Some n, Some vs => match d_list d_octets vs with Some l => Some (mkPA n l) | None => None end
      | _, _ => None
      end
  | _ => None
  end.

Definition d_search (ks : list ber) : option op :=
  match ks with
  | [b; s; d; sl; tl; t; f; a] =>
      match d_octets b, d_enumerated s, d_enumerated d, d_integer sl, d_integer tl, d_boolean t, d_filter f, is_constr 0 16 a with
      | Some b, Some s, Some d, Some sl, Some tl, Some t, Some f, Some a =>
          match d_list d_octets a with Some a => Some (SearchRequest b s d sl tl t f a) | None => None end
      | _, _, _, _, _, _, _, _ => None
      end
  | _ => None
  end.

Definition d_op (b : ber) : option op :=
  match b with
  | Prim c n v => if (c =? 1) && (n =? 2) then match v with [] => Some UnbindRequest | _ => None end else None
  | Constr c n ks =>
      if negb (c =? 1) then None
      else if n =? 0 then
        match ks with
        | [v; nm; a] => match d_integer v, d_octets nm, d_cred a with
                        | Some v, Some nm, Some a => Some (BindRequest v nm a)
                        | _, _, _ => None
                        end
        | _ => None
        end
      else if n =? 1 then
        match d_result ks with
        | Some (res, r) => match take_opt 2 7 r with (sasl, []) => Some (BindResponse res sasl) | _ => None end
        | None => None
        end
      else if n =? 3 then d_search ks
      else if n =? 4 then
        match ks with
        | [nm; attrs] =>
            match d_octets nm, is_constr 0 16 attrs with
            | Some nm, Some attrs => match d_list d_partial_attr attrs with Some l => Some (SearchResultEntry nm l) | None => None end
            | _, _ => None
            end
        | _ => None
        end
      else if n =? 5 then match d_result ks with Some (res, []) => Some (SearchResultDone res) | _ => None end
      else if n =? 19 then option_map SearchResultReference (d_list d_octets ks)
      else if n =? 23 then
        match ks with
        | nm :: r => match is_prim 2 0 nm, take_opt 2 1 r with
                     | Some nm, (v, []) => Some (ExtendedRequest nm v)
                     | _, _ => None
                     end
        | [] => None
        end
      else if n =? 24 then
        match d_result ks with
        | Some (res, r) =>
            let '(nm, r1) := take_opt 2 10 r in
            match take_opt 2 11 r1 with (v, []) => Some (ExtendedResponse res nm v) | _ => None end
        | None => None
        end
      else None
  end.

Definition d_msg (b : ber) : option msg :=
  match is_constr 0 16 b with
  | Some (i :: o :: r) =>
      match d_integer i, d_op o with
      | Some i, Some o =>
          match r with
          | [] => Some (mkMsg i o [])
          | [c] => match is_constr 2 0 c with
                   | Some (c1 :: cs) => match d_list d_control (c1 :: cs) with Some l => Some (mkMsg i o l) | None => None end
                   | _ => None
                   end
          | _ => None
          end
      | _, _ => None
      end
  | _ => None
  end.

Definition strict_decode (bs : list byte) : option msg :=
  match parse_one (2 * length bs) bs with
  | Some (t, []) => d_msg t
  | _ => None
  end.
