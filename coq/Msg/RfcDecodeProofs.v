(* The strict RFC decoder reads back what the library's encoder writes. *)
From Coq Require Import ZArith NArith List Bool Lia ZifyBool ZifyN.
From Coq.Strings Require Import Byte.
From SV Require Import Base.Bytes Base.Py Gen.Generated Asn1.Model Asn1.Spec Asn1.IntProofs Asn1.TlvProofs
  Msg.Types Msg.Encode Msg.Rfc Msg.RfcDecode Msg.RfcConform.
Import ListNotations.
Local Open Scope N_scope.
Ltac Zify.zify_post_hook ::= Z.to_euclidean_division_equations.
#[local] Arguments N.mul : simpl never.
#[local] Arguments N.add : simpl never.
#[local] Arguments N.div : simpl never.
#[local] Arguments N.modulo : simpl never.
#[local] Arguments N.pow : simpl never.

(* ---- identifier and length octets *)
Lemma s_ident_pack c cons n :
  c <= 3 -> n < 31 ->
  exists b, pack_identifier c cons n = [b] /\ s_ident b = Some (c, cons, n).
Proof.
  intros Hc Hn. unfold pack_identifier.
  destruct (n <? 31) eqn:E; [|lia].
  eexists. split; [reflexivity|]. unfold s_ident.
  rewrite b2n_n2b_small by (destruct cons; lia).
  set (v := c * 64 + (if cons then 32 else 0) + n).
  assert (H1 : v mod 32 = n) by (subst v; destruct cons; lia).
  assert (H2 : v / 64 = c) by (subst v; destruct cons; lia).
  assert (H3 : (32 <=? v mod 64) = cons) by (subst v; destruct cons; lia).
  rewrite H1, H2, H3. destruct (n =? 31) eqn:E2; [lia|reflexivity].
Qed.

Lemma ule_len_loop fuel n : n < 256 ^ N.of_nat fuel -> ule (len_loop fuel n) = Z.of_N n.
Proof.
  revert n. induction fuel as [|f IH]; intros n Hn.
  - change (N.of_nat 0) with 0 in Hn. rewrite N.pow_0_r in Hn. cbn [len_loop ule]. lia.
  - cbn [len_loop]. destruct (n =? 0) eqn:E; [cbn [ule]; lia|].
    rewrite pow_S in Hn. cbn [ule]. rewrite IH by (apply N.div_lt_upper_bound; lia).
    unfold b2z. rewrite b2n_n2b, N.mod_mod by lia. lia.
Qed.

Lemma s_length_pack n x : n < max_len -> s_length (pack_length n ++ x) = Some (n, x).
Proof.
  intros Hn. unfold pack_length. destruct (n <? 128) eqn:E.
  - cbn [app s_length]. rewrite b2n_n2b_small by lia. now rewrite E.
  - set (fuel := S (N.to_nat (N.log2 n))).
    assert (Hf : n < 256 ^ N.of_nat fuel) by (apply (log2_fuel_gen 256 8); [reflexivity|lia]).
    set (octs := rev (len_loop fuel n)).
    assert (Hl : (length octs <= 125)%nat).
    { subst octs. rewrite rev_length. apply len_loop_bound. exact Hn. }
    assert (Hl1 : (1 <= length octs)%nat).
    { subst octs. rewrite rev_length. subst fuel. cbn [len_loop]. destruct (n =? 0) eqn:E0; [lia|cbn [length]; lia]. }
    assert (Hk : 1 <= nlen octs <= 125) by (unfold nlen; lia).
    cbn [app s_length]. rewrite b2n_n2b_small by lia.
    destruct (nlen octs + 128 <? 128) eqn:E1; [lia|].
    destruct (nlen octs + 128 =? 128) eqn:E2; [lia|].
    destruct (nlen octs + 128 =? 255) eqn:E3; [lia|].
    replace (nlen octs + 128 - 128) with (nlen octs) by lia.
    rewrite nlen_app. destruct (nlen octs + nlen x <? nlen octs) eqn:E4; [lia|].
    rewrite take_app_exact, drop_app_exact. subst octs. rewrite ube_rev, ule_len_loop by exact Hf.
    now rewrite N2Z.id.
Qed.

(* ---- trees *)
Inductive wf_ber : ber -> Prop :=
| wf_prim c n v : c <= 3 -> n < 31 -> wf_ber (Prim c n v)
| wf_constr c n ks : c <= 3 -> n < 31 -> Forall wf_ber ks -> wf_ber (Constr c n ks).

Fixpoint sz (t : ber) : nat :=
  match t with
  | Prim _ _ _ => 1
  | Constr _ _ ks => 2 + fold_right (fun k a => 1 + sz k + a)%nat 0%nat ks
  end.
Definition szl (ks : list ber) : nat := 1 + fold_right (fun k a => 1 + sz k + a)%nat 0%nat ks.

Lemma ser_head t :
  wf_ber t -> exists b0 tl, ser t = b0 :: tl.
Proof.
  intros W. destruct W as [c n v Hc Hn|c n ks Hc Hn _]; cbn [ser]; unfold tlv; cbn [t_cls t_cons t_num];
    destruct (s_ident_pack c false n Hc Hn) as (b & E & _); destruct (s_ident_pack c true n Hc Hn) as (b' & E' & _);
    rewrite ?E, ?E'; cbn [app]; eauto.
Qed.

Lemma parse_one_tlv f c cons n d rest :
  c <= 3 -> n < 31 -> nlen d < max_len ->
  parse_one (S f) (tlv (mkTag c n cons) d ++ rest) =
  if cons then match parse_many f d with Some ks => Some (Constr c n ks, rest) | None => None end
  else Some (Prim c n d, rest).
Proof.
  intros Hc Hn Hd. unfold tlv. cbn [t_cls t_cons t_num].
  destruct (s_ident_pack c cons n Hc Hn) as (b & E & Ei). rewrite E. cbn [app parse_one].
  rewrite Ei. rewrite <- app_assoc. rewrite s_length_pack by exact Hd.
  rewrite nlen_app. destruct (nlen d + nlen rest <? nlen d) eqn:E4; [lia|].
  now rewrite take_app_exact, drop_app_exact.
Qed.

Lemma nlen_tlv_ge t d : nlen d <= nlen (tlv t d).
Proof. unfold tlv. rewrite !nlen_app. lia. Qed.

Lemma parse_ser :
  forall t, wf_ber t -> forall fuel rest, (sz t <= fuel)%nat -> nlen (ser t) < max_len ->
  parse_one fuel (ser t ++ rest) = Some (t, rest).
Proof.
  fix IH 1. intros t W fuel rest Hf Hl.
  destruct t as [c n v|c n ks].
  - inversion W as [? ? ? Hc Hn|]; subst. destruct fuel as [|f]; [cbn in Hf; lia|].
    cbn [ser] in *. pose proof (nlen_tlv_ge (mkTag c n false) v).
    rewrite parse_one_tlv by (assumption || lia). reflexivity.
  - inversion W as [|? ? ? Hc Hn Wk]; subst. destruct fuel as [|f]; [cbn in Hf; lia|].
    cbn [ser] in *. pose proof (nlen_tlv_ge (mkTag c n true) (flat_map ser ks)) as Hge.
    rewrite parse_one_tlv by (assumption || lia).
    assert (Hks : (szl ks <= f)%nat) by (unfold szl; cbn [sz] in Hf; lia).
    assert (Hlk : nlen (flat_map ser ks) < max_len) by lia.
    clear Hf Hl Hge W.
    assert (G : parse_many f (flat_map ser ks) = Some ks).
    { revert f Hks Hlk. induction ks as [|k ks IHks]; intros f Hks Hlk.
      - destruct f as [|f]; [unfold szl in Hks; cbn in Hks; lia|]. reflexivity.
      - inversion Wk as [|? ? Wk1 Wk2]; subst.
        destruct f as [|f]; [unfold szl in Hks; cbn in Hks; lia|].
        cbn [flat_map]. destruct (ser_head k Wk1) as (b0 & tl & Eh).
        assert (Hne : forall X, parse_many (S f) (ser k ++ X) =
                  match parse_one f (ser k ++ X) with
                  | Some (k0, rest) => match parse_many f rest with Some ks0 => Some (k0 :: ks0) | None => None end
                  | None => None end) by (intros X; rewrite Eh; reflexivity).
        rewrite Hne.
        cbn [flat_map] in Hlk. rewrite nlen_app in Hlk.
        unfold szl in Hks. cbn [fold_right] in Hks.
        rewrite (IH k Wk1 f (flat_map ser ks)) by lia.
        rewrite (IHks Wk2 f) by (unfold szl; lia). reflexivity. }
    rewrite G. reflexivity.
Qed.

Lemma tlv_len_ge2 t d : (2 <= length (tlv t d))%nat.
Proof.
  unfold tlv. rewrite !app_length.
  assert (1 <= length (pack_identifier (t_cls t) (t_cons t) (t_num t)))%nat.
  { unfold pack_identifier. destruct (_ <? _); cbn [length]; lia. }
  assert (1 <= length (pack_length (nlen d)))%nat.
  { unfold pack_length. destruct (_ <? _); cbn [length]; lia. }
  lia.
Qed.

Lemma sz_bound : forall t, (sz t <= 2 * length (ser t) - 1)%nat.
Proof.
  fix IH 1. intros t. destruct t as [c n v|c n ks]; cbn [sz ser].
  - pose proof (tlv_len_ge2 (mkTag c n false) v). lia.
  - assert (G : (fold_right (fun k a => 1 + sz k + a) 0 ks <= 2 * length (flat_map ser ks))%nat).
    { induction ks as [|k ks IHks]; cbn [fold_right flat_map]; [lia|].
      rewrite app_length. specialize (IH k).
      assert (2 <= length (ser k))%nat by (destruct k; cbn [ser]; apply tlv_len_ge2). lia. }
    unfold tlv. rewrite !app_length.
    assert (1 <= length (pack_identifier (t_cls (mkTag c n true)) (t_cons (mkTag c n true)) (t_num (mkTag c n true))))%nat.
    { unfold pack_identifier. destruct (_ <? _); cbn [length]; lia. }
    assert (1 <= length (pack_length (nlen (flat_map ser ks))))%nat.
    { unfold pack_length. destruct (_ <? _); cbn [length]; lia. }
    lia.
Qed.

(* ---- tree -> message *)
Definition gen_control (c : control) : control := CGeneric (control_oid c) (control_crit c) (control_value c).
Definition gen_msg (m : msg) : msg := mkMsg (m_id m) (m_op m) (map gen_control (m_controls m)).

Lemma is_prim_same c n v : is_prim c n (Prim c n v) = Some v.
Proof. unfold is_prim. now rewrite !N.eqb_refl. Qed.
Lemma is_constr_same c n ks : is_constr c n (Constr c n ks) = Some ks.
Proof. unfold is_constr. now rewrite !N.eqb_refl. Qed.

Lemma d_int_content_rt z : d_int_content (int_content z) = Some z.
Proof.
  destruct (int_content_minimal z) as (NE & T & _). unfold d_int_content.
  destruct (int_content z) as [|b bs] eqn:E; [congruence|]. rewrite T, E.
  assert (H : bytes_eqb (b :: bs) (b :: bs) = true) by now apply bytes_eqb_eq. now rewrite H.
Qed.
Lemma d_integer_rt z : d_integer (r_integer z) = Some z.
Proof. unfold d_integer, r_integer. rewrite is_prim_same. apply d_int_content_rt. Qed.
Lemma d_enumerated_rt z : d_enumerated (r_enumerated z) = Some z.
Proof. unfold d_enumerated, r_enumerated. rewrite is_prim_same. apply d_int_content_rt. Qed.
Lemma d_boolean_rt b : d_boolean (r_boolean b) = Some b.
Proof. destruct b; reflexivity. Qed.
Lemma d_octets_rt v : d_octets (r_octets v) = Some v.
Proof. reflexivity. Qed.

Lemma d_list_map {A B} (f : ber -> option B) (g : A -> ber) (h : A -> B) l :
  (forall x, In x l -> f (g x) = Some (h x)) -> d_list f (map g l) = Some (map h l).
Proof.
  induction l as [|x l IH]; intros H; cbn [map d_list]; [reflexivity|].
  rewrite (H x) by now left. rewrite IH; [reflexivity|]. intros y Hy. apply H. now right.
Qed.
Lemma d_list_octets l : d_list d_octets (map r_octets l) = Some l.
Proof. rewrite (d_list_map d_octets r_octets (fun x => x)); [now rewrite map_id|reflexivity]. Qed.

Definition hd_not_prim (c n : N) (l : list ber) : Prop :=
  match l with x :: _ => is_prim c n x = None | [] => True end.

Lemma take_opt_rt c n o tail : hd_not_prim c n tail -> take_opt c n (opt (Prim c n) o ++ tail) = (o, tail).
Proof.
  intros H. destruct o as [v|]; cbn [opt app take_opt].
  - now rewrite is_prim_same.
  - destruct tail as [|x r]; [reflexivity|]. cbn [take_opt]. cbn in H. now rewrite H.
Qed.
Lemma take_opt_nil c n o : take_opt c n (opt (Prim c n) o) = (o, []).
Proof. rewrite (app_nil_end (opt (Prim c n) o)). now apply take_opt_rt. Qed.
Lemma take_opt_oct_nil o : take_opt 0 4 (opt r_octets o) = (o, []).
Proof. exact (take_opt_nil 0 4 o). Qed.
Lemma take_true_rt c n (b : bool) tail :
  hd_not_prim c n tail -> take_true c n ((if b then [Prim c n [xff]] else []) ++ tail) = Some (b, tail).
Proof.
  intros H. destruct b; cbn [app take_true].
  - now rewrite is_prim_same.
  - destruct tail as [|x r]; [reflexivity|]. cbn [take_true]. cbn in H. now rewrite H.
Qed.
Lemma span_any_rt l tail : hd_not_prim 2 1 tail -> span_any (map (Prim 2 1) l ++ tail) = (l, tail).
Proof.
  intros H. induction l as [|v l IH]; cbn [map app span_any].
  - destruct tail as [|x r]; [reflexivity|]. cbn [span_any]. cbn in H. now rewrite H.
  - rewrite is_prim_same, IH. reflexivity.
Qed.

Lemma d_control_rt c : d_control (r_control c) = Some (gen_control c).
Proof.
  unfold d_control, r_control, r_sequence. rewrite is_constr_same. cbn [app]. rewrite d_octets_rt.
  change (if control_crit c then [r_boolean true] else []) with (if control_crit c then [Prim 0 1 [xff]] else []).
  rewrite take_true_rt by (destruct (control_value c); cbn; reflexivity).
  rewrite take_opt_oct_nil. reflexivity.
Qed.

Lemma d_cred_rt c : d_cred (r_cred c) = Some c.
Proof.
  destruct c as [pw|mech creds]; [reflexivity|].
  cbn [r_cred d_cred app]. change ((CTXT =? 2) && (3 =? 3)) with true. cbv iota.
  rewrite d_octets_rt, take_opt_oct_nil. reflexivity.
Qed.

Lemma d_filter_rt : forall f, d_filter (r_filter f) = Some f.
Proof.
  fix IH 1. intros f. destruct f; cbn [r_filter d_filter]; try reflexivity.
  - change (negb (CTXT =? 2)) with false. cbv iota. change (0 =? 0) with true. cbv iota.
    assert (G : d_list d_filter (map r_filter fs) = Some fs) by (induction fs as [|g fs IHl]; cbn [map d_list]; [reflexivity|now rewrite IH, IHl]).
    now rewrite G.
  - change (negb (CTXT =? 2)) with false. cbv iota. change (1 =? 0) with false. change (1 =? 1) with true. cbv iota.
    assert (G : d_list d_filter (map r_filter fs) = Some fs) by (induction fs as [|g fs IHl]; cbn [map d_list]; [reflexivity|now rewrite IH, IHl]).
    now rewrite G.
  - change (negb (CTXT =? 2)) with false. cbv iota. change (2 =? 0) with false. change (2 =? 1) with false.
    change (2 =? 2) with true. cbv iota. now rewrite IH.
  - change (negb (CTXT =? 2)) with false. cbv iota.
    change (4 =? 0) with false. change (4 =? 1) with false. change (4 =? 2) with false. change (4 =? 3) with false.
    change (4 =? 4) with true. cbv iota.
    unfold d_substrings. rewrite d_octets_rt. unfold r_sequence. rewrite is_constr_same.
    change CTXT with 2.
    assert (Hh : hd_not_prim 2 1 (opt (Prim 2 2) final)) by (destruct final; cbn; reflexivity).
    rewrite take_opt_rt by (destruct any; [exact (match final with Some _ => eq_refl | None => I end)|cbn; reflexivity]).
    rewrite span_any_rt by exact Hh.
    rewrite take_opt_nil. reflexivity.
  - change (negb (CTXT =? 2)) with false. cbv iota.
    change (9 =? 0) with false. change (9 =? 1) with false. change (9 =? 2) with false. change (9 =? 3) with false.
    change (9 =? 4) with false. change (9 =? 5) with false. change (9 =? 6) with false. change (9 =? 8) with false.
    change (9 =? 9) with true. cbv iota.
    unfold d_extensible. change CTXT with 2.
    rewrite take_opt_rt by (destruct attr; cbn; reflexivity).
    rewrite take_opt_rt by (cbn; reflexivity).
    cbn [app]. rewrite is_prim_same.
    rewrite (app_nil_end (if dn then [Prim 2 4 [xff]] else [])). rewrite take_true_rt by exact I. reflexivity.
Qed.

Definition hd_not_constr (c n : N) (l : list ber) : Prop :=
  match l with x :: _ => is_constr c n x = None | [] => True end.

Lemma d_result_rt r tail : hd_not_constr 2 3 tail -> d_result (r_result r ++ tail) = Some (r, tail).
Proof.
  intros H. destruct r as [code m d refs]. unfold r_result. cbn [r_code r_matched r_diag r_referrals app d_result].
  rewrite d_enumerated_rt, !d_octets_rt. destruct refs as [l|]; cbn [opt app].
  - change CTXT with 2. rewrite is_constr_same, d_list_octets. reflexivity.
  - destruct tail as [|x t]; [reflexivity|]. cbn in H. now rewrite H.
Qed.

Lemma d_partial_attr_rt a : d_partial_attr (r_partial_attr a) = Some a.
Proof.
  destruct a as [n vs]. unfold d_partial_attr, r_partial_attr, r_sequence, r_set. cbn [pa_name pa_vals].
  rewrite is_constr_same, d_octets_rt. change UNIV with 0. rewrite is_constr_same, d_list_octets. reflexivity.
Qed.

Lemma d_op_rt o : d_op (r_op o) = Some o.
Proof.
  destruct o; cbn [r_op d_op].
  - change (negb (APPL =? 1)) with false. cbv iota. change (0 =? 0) with true. cbv iota.
    now rewrite d_integer_rt, d_octets_rt, d_cred_rt.
  - change (negb (APPL =? 1)) with false. cbv iota. change (1 =? 0) with false. change (1 =? 1) with true. cbv iota.
    rewrite d_result_rt by (destruct sasl; cbn; reflexivity).
    change CTXT with 2. rewrite take_opt_nil. reflexivity.
  - reflexivity.
  - change (negb (APPL =? 1)) with false. cbv iota.
    change (3 =? 0) with false. change (3 =? 1) with false. change (3 =? 3) with true. cbv iota.
    unfold d_search. rewrite d_octets_rt, !d_enumerated_rt, !d_integer_rt, d_boolean_rt, d_filter_rt.
    unfold r_sequence. rewrite is_constr_same, d_list_octets. reflexivity.
  - change (negb (APPL =? 1)) with false. cbv iota.
    change (4 =? 0) with false. change (4 =? 1) with false. change (4 =? 3) with false. change (4 =? 4) with true. cbv iota.
    rewrite d_octets_rt. unfold r_sequence. rewrite is_constr_same.
    rewrite (d_list_map d_partial_attr r_partial_attr (fun x => x)); [now rewrite map_id|].
    intros x _. apply d_partial_attr_rt.
  - change (negb (APPL =? 1)) with false. cbv iota.
    change (5 =? 0) with false. change (5 =? 1) with false. change (5 =? 3) with false. change (5 =? 4) with false.
    change (5 =? 5) with true. cbv iota.
    rewrite (app_nil_end (r_result res)). rewrite d_result_rt by exact I. reflexivity.
  - change (negb (APPL =? 1)) with false. cbv iota.
    change (19 =? 0) with false. change (19 =? 1) with false. change (19 =? 3) with false. change (19 =? 4) with false.
    change (19 =? 5) with false. change (19 =? 19) with true. cbv iota.
    now rewrite d_list_octets.
  - change (negb (APPL =? 1)) with false. cbv iota.
    change (23 =? 0) with false. change (23 =? 1) with false. change (23 =? 3) with false. change (23 =? 4) with false.
    change (23 =? 5) with false. change (23 =? 19) with false. change (23 =? 23) with true. cbv iota.
    cbn [app]. change CTXT with 2. rewrite is_prim_same.
    rewrite take_opt_nil. reflexivity.
  - change (negb (APPL =? 1)) with false. cbv iota.
    change (24 =? 0) with false. change (24 =? 1) with false. change (24 =? 3) with false. change (24 =? 4) with false.
    change (24 =? 5) with false. change (24 =? 19) with false. change (24 =? 23) with false. change (24 =? 24) with true. cbv iota.
    rewrite d_result_rt by (destruct name; [|destruct value]; cbn; reflexivity).
    change CTXT with 2. rewrite take_opt_rt by (destruct value; cbn; reflexivity).
    rewrite take_opt_nil. reflexivity.
Qed.

Lemma d_msg_rt m : d_msg (r_msg m) = Some (gen_msg m).
Proof.
  destruct m as [i o cs]. unfold d_msg, r_msg, r_sequence, gen_msg. cbn [m_id m_op m_controls].
  rewrite is_constr_same. cbn [app]. rewrite d_integer_rt, d_op_rt.
  destruct cs as [|c cs]; [reflexivity|].
  change CTXT with 2. rewrite is_constr_same. cbn [map].
  change (r_control c :: map r_control cs) with (map r_control (c :: cs)).
  rewrite (d_list_map d_control r_control gen_control); [reflexivity|]. intros x _. apply d_control_rt.
Qed.

(* ---- the RFC tree of a message is well formed *)
Lemma wf_octets_list l : Forall wf_ber (map r_octets l).
Proof. induction l; cbn [map]; constructor; [constructor; cbv; (reflexivity || discriminate)|assumption]. Qed.

Ltac wfp := constructor; cbv; (reflexivity || discriminate).

Lemma Forall_app_intro {A} (P : A -> Prop) a b : Forall P a -> Forall P b -> Forall P (a ++ b).
Proof. intros. apply Forall_app. now split. Qed.

Lemma wf_opt c n o : c <= 3 -> n < 31 -> Forall wf_ber (opt (Prim c n) o).
Proof. intros. destruct o; cbn [opt]; repeat constructor; assumption. Qed.

Lemma wf_filter_ber : forall f, wf_ber (r_filter f).
Proof.
  fix IH 1. intros f. destruct f; cbn [r_filter].
  - constructor; [cbv; discriminate|reflexivity|]. induction fs; cbn [map]; constructor; [apply IH|assumption].
  - constructor; [cbv; discriminate|reflexivity|]. induction fs; cbn [map]; constructor; [apply IH|assumption].
  - constructor; [cbv; discriminate|reflexivity|]. repeat constructor. apply IH.
  - constructor; [cbv; discriminate|reflexivity|]. repeat constructor; cbv; (reflexivity || discriminate).
  - constructor; [cbv; discriminate|reflexivity|]. constructor; [wfp|]. constructor; [|constructor].
    constructor; [cbv; discriminate|reflexivity|].
    apply Forall_app_intro; [apply wf_opt; [cbv; discriminate|reflexivity]|].
    apply Forall_app_intro; [|apply wf_opt; [cbv; discriminate|reflexivity]].
    induction any; cbn [map]; constructor; [wfp|assumption].
  - constructor; [cbv; discriminate|reflexivity|]. repeat constructor; cbv; (reflexivity || discriminate).
  - constructor; [cbv; discriminate|reflexivity|]. repeat constructor; cbv; (reflexivity || discriminate).
  - wfp.
  - constructor; [cbv; discriminate|reflexivity|]. repeat constructor; cbv; (reflexivity || discriminate).
  - constructor; [cbv; discriminate|reflexivity|].
    apply Forall_app_intro; [apply wf_opt; [cbv; discriminate|reflexivity]|].
    apply Forall_app_intro; [apply wf_opt; [cbv; discriminate|reflexivity]|].
    constructor; [wfp|]. destruct dn; repeat constructor; cbv; (reflexivity || discriminate).
Qed.

Lemma wf_result_ber r : Forall wf_ber (r_result r).
Proof.
  unfold r_result. apply Forall_app_intro; [repeat constructor; cbv; (reflexivity || discriminate)|].
  destruct (r_referrals r); cbn [opt]; [|constructor]. constructor; [|constructor].
  constructor; [cbv; discriminate|reflexivity|apply wf_octets_list].
Qed.

Lemma wf_op_ber o : wf_ber (r_op o).
Proof.
  destruct o; cbn [r_op].
  - constructor; [cbv; discriminate|reflexivity|]. constructor; [wfp|]. constructor; [wfp|]. constructor; [|constructor].
    destruct auth; cbn [r_cred]; [wfp|]. constructor; [cbv; discriminate|reflexivity|].
    constructor; [wfp|]. apply wf_opt; [cbv; discriminate|reflexivity].
  - constructor; [cbv; discriminate|reflexivity|].
    apply Forall_app_intro; [apply wf_result_ber|apply wf_opt; [cbv; discriminate|reflexivity]].
  - wfp.
  - constructor; [cbv; discriminate|reflexivity|]. repeat (constructor; [wfp|]).
    constructor; [apply wf_filter_ber|]. constructor; [|constructor].
    constructor; [cbv; discriminate|reflexivity|apply wf_octets_list].
  - constructor; [cbv; discriminate|reflexivity|]. constructor; [wfp|]. constructor; [|constructor].
    constructor; [cbv; discriminate|reflexivity|]. induction attrs as [|a attrs IHa]; cbn [map]; constructor; [|assumption].
    unfold r_partial_attr. constructor; [cbv; discriminate|reflexivity|]. constructor; [wfp|]. constructor; [|constructor].
    constructor; [cbv; discriminate|reflexivity|apply wf_octets_list].
  - constructor; [cbv; discriminate|reflexivity|apply wf_result_ber].
  - constructor; [cbv; discriminate|reflexivity|apply wf_octets_list].
  - constructor; [cbv; discriminate|reflexivity|]. constructor; [wfp|]. apply wf_opt; [cbv; discriminate|reflexivity].
  - constructor; [cbv; discriminate|reflexivity|].
    apply Forall_app_intro; [apply wf_result_ber|].
    apply Forall_app_intro; apply wf_opt; (cbv; discriminate) || reflexivity.
Qed.

Lemma wf_control_ber c : wf_ber (r_control c).
Proof.
  unfold r_control. constructor; [cbv; discriminate|reflexivity|]. constructor; [wfp|].
  apply Forall_app_intro; [destruct (control_crit c); repeat constructor; cbv; (reflexivity || discriminate)|].
  apply wf_opt; [cbv; discriminate|reflexivity].
Qed.

Lemma wf_msg_ber m : wf_ber (r_msg m).
Proof.
  unfold r_msg. constructor; [cbv; discriminate|reflexivity|]. constructor; [wfp|]. constructor; [apply wf_op_ber|].
  destruct (m_controls m) as [|c cs]; [constructor|]. constructor; [|constructor].
  constructor; [cbv; discriminate|reflexivity|].
  set (l := c :: cs). clearbody l. induction l; cbn [map]; constructor; [apply wf_control_ber|assumption].
Qed.

(* ---- the theorem *)
Theorem strict_decode_rfc m : nlen (rfc_enc m) < max_len -> strict_decode (rfc_enc m) = Some (gen_msg m).
Proof.
  intros F. unfold strict_decode, rfc_enc in *.
  rewrite (app_nil_end (ser (r_msg m))) at 2.
  rewrite parse_ser; [apply d_msg_rt|apply wf_msg_ber| |exact F].
  pose proof (sz_bound (r_msg m)). lia.
Qed.

Theorem strict_decode_enc m :
  m_op m <> UnbindRequest -> nlen (enc_msg m) < max_len -> strict_decode (enc_msg m) = Some (gen_msg m).
Proof. intros NU F. rewrite enc_is_rfc in * by exact NU. now apply strict_decode_rfc. Qed.

(* an UnbindRequest as the library writes it is rejected by the strict decoder (known finding) *)
Theorem strict_decode_unbind_refuted : strict_decode (enc_msg (mkMsg 1 UnbindRequest [])) = None.
Proof. vm_compute. reflexivity. Qed.
