(* Values of _messages.py / _filter.py / _controls.py / _authentication.py as Gallina data.
   A Python [str] is represented by its UTF-8 encoding (valid UTF-8 octets <-> surrogate-free str
   is a bijection; [utf8_valid] is the decoder's acceptance test), so encode is the identity and
   decode is a validity check. *)
From Coq Require Import ZArith NArith List Bool.
From Coq.Strings Require Import Byte.
From SV Require Import Base.Bytes.
Import ListNotations.

Definition str := list byte.
Definition octets := list byte.

Inductive control :=
| CGeneric (oid : str) (crit : bool) (value : option octets)
(* library-known types: [raw] is the control value octets a decoded instance exposes (None on a
   value built by the caller) *)
| CPaged (crit : bool) (size : Z) (cookie : octets) (raw : option octets)
| CShowDeleted (crit : bool) (raw : option octets)
| CShowDeactivated (crit : bool) (raw : option octets).

Inductive cred :=
| CrSimple (password : str)
| CrSasl (mech : str) (creds : option octets).

Inductive filter :=
| FAnd (fs : list filter)
| FOr (fs : list filter)
| FNot (f : filter)
| FEq (attr : str) (v : octets)
| FSub (attr : str) (initial : option octets) (any : list octets) (final : option octets)
| FGe (attr : str) (v : octets)
| FLe (attr : str) (v : octets)
| FPresent (attr : str)
| FApprox (attr : str) (v : octets)
| FExt (rule : option str) (attr : option str) (v : octets) (dn : bool).

Record ldap_result := mkResult {
  r_code : Z;
  r_matched : str;
  r_diag : str;
  r_referrals : option (list str) }.

Record partial_attr := mkPA { pa_name : str; pa_vals : list octets }.

Inductive op :=
| BindRequest (version : Z) (name : str) (auth : cred)
| BindResponse (res : ldap_result) (sasl : option octets)
| UnbindRequest
| SearchRequest (base : str) (scope deref size_limit time_limit : Z) (types_only : bool)
                (f : filter) (attrs : list str)
| SearchResultEntry (name : str) (attrs : list partial_attr)
| SearchResultDone (res : ldap_result)
| SearchResultReference (uris : list str)
| ExtendedRequest (name : str) (value : option octets)
| ExtendedResponse (res : ldap_result) (name : option str) (value : option octets).

Record msg := mkMsg { m_id : Z; m_op : op; m_controls : list control }.

(* classification used by the session layer *)
Inductive kind := KBindReq | KBindResp | KUnbind | KSearchReq | KEntry | KDone | KRef | KExtReq | KExtResp.

Definition kind_of (o : op) : kind :=
  match o with
  | BindRequest _ _ _ => KBindReq
  | BindResponse _ _ => KBindResp
  | UnbindRequest => KUnbind
  | SearchRequest _ _ _ _ _ _ _ _ => KSearchReq
  | SearchResultEntry _ _ => KEntry
  | SearchResultDone _ => KDone
  | SearchResultReference _ => KRef
  | ExtendedRequest _ _ => KExtReq
  | ExtendedResponse _ _ _ => KExtResp
  end.

Definition is_request (k : kind) : bool :=
  match k with KBindReq | KUnbind | KSearchReq | KExtReq => true | _ => false end.
Definition is_response (k : kind) : bool := negb (is_request k).

(* RFC 3629 UTF-8 validity as CPython's strict decoder implements it: no overlong forms, no
   surrogates (ED A0..BF), nothing above U+10FFFF. *)
Fixpoint utf8_valid (bs : list byte) : bool :=
  match bs with
  | [] => true
  | b0 :: r =>
      let c0 := b2n b0 in
      let cont b := ((128 <=? b2n b) && (b2n b <=? 191))%N in
      if (c0 <=? 127)%N then utf8_valid r
      else if ((194 <=? c0) && (c0 <=? 223))%N then
        match r with b1 :: r' => cont b1 && utf8_valid r' | _ => false end
      else if (c0 =? 224)%N then
        match r with b1 :: b2 :: r' => ((160 <=? b2n b1) && (b2n b1 <=? 191))%N && cont b2 && utf8_valid r' | _ => false end
      else if (((225 <=? c0) && (c0 <=? 236)) || ((238 <=? c0) && (c0 <=? 239)))%N then
        match r with b1 :: b2 :: r' => cont b1 && cont b2 && utf8_valid r' | _ => false end
      else if (c0 =? 237)%N then
        match r with b1 :: b2 :: r' => ((128 <=? b2n b1) && (b2n b1 <=? 159))%N && cont b2 && utf8_valid r' | _ => false end
      else if (c0 =? 240)%N then
        match r with b1 :: b2 :: b3 :: r' => ((144 <=? b2n b1) && (b2n b1 <=? 191))%N && cont b2 && cont b3 && utf8_valid r' | _ => false end
      else if ((241 <=? c0) && (c0 <=? 243))%N then
        match r with b1 :: b2 :: b3 :: r' => cont b1 && cont b2 && cont b3 && utf8_valid r' | _ => false end
      else if (c0 =? 244)%N then
        match r with b1 :: b2 :: b3 :: r' => ((128 <=? b2n b1) && (b2n b1 <=? 143))%N && cont b2 && cont b3 && utf8_valid r' | _ => false end
      else false
  end.
