(* C01 -- every LDAP message survives encode -> decode unchanged. *)
From Coq Require Import ZArith NArith List.
From Coq.Strings Require Import Byte.
From SV Require Import Gen.Sharing Base.Bytes Base.Py Gen.Generated Asn1.Model Msg.Types Msg.Encode Msg.Decode Msg.RoundTrip.
Import ListNotations.

(* For every message value of every protocol operation -- any id, any strings that are valid UTF-8
   (= any Python str without lone surrogates), any octet strings, lists of any length, filter trees of
   any shape and of any depth up to the recursion budget d, any controls -- and any octets [rest]
   following it: decoding the encoding returns the message and exactly [rest].  The only difference
   ([norm_msg]) is that a decoded paged-results control exposes its raw value octets. *)
Theorem C01_decode_encode :
  forall d m rest, wf_msg d m -> unpack_message d (enc_msg m ++ rest) = Ok (norm_msg m, rest).
Proof. exact msg_rt. Qed.

(* re-encoding the decoded message reproduces the same octets *)
Theorem C01_reencode_is_identical : forall m, enc_msg (norm_msg m) = enc_msg m.
Proof. exact enc_norm_msg. Qed.

(* the search filter alone: any shape, any depth within the budget *)
Theorem C01_filter_round_trip :
  forall d f rest, (fdepth f <= d)%nat -> wf_filter f -> fits (enc_filter f) ->
  unpack_filter d (enc_filter f ++ rest) = Ok (f, rest).
Proof. exact filter_rt. Qed.

Theorem C01_control_round_trip :
  forall c rest, wf_control c -> fits (enc_control c) -> unpack_control (enc_control c ++ rest) = Ok (norm_control c, rest).
Proof. exact control_rt. Qed.

(* non-vacuity: a message with a negative id ending in zero octets (the original carry defect), an
   unknown result code, a paged control, and a nested filter satisfies the hypotheses *)
Example C01_wf_example :
  wf_msg 10 (mkMsg (-65536)%Z
               (SearchRequest [x64; x63] 2 0 0 (2 ^ 40)%Z true
                  (FAnd [FNot (FPresent [x61]); FSub [x62] (Some [x2a]) [[]; [x29]] None;
                         FExt (Some [x72]) None [x00; xff] true]) [[x63; x6e]])
               [CPaged true 100 [x01] None; CGeneric [x31; x2e; x32] false (Some [])]).
Proof.
  split; [|split].
  - cbn. repeat split; try reflexivity; repeat constructor.
  - repeat constructor; vm_compute; reflexivity.
  - vm_compute. reflexivity.
Qed.

(* The theorems above are about functions and values; that the message codec (_messages.py, _controls.py, _authentication.py, asn1.py, the BER half of _filter.py) keeps no state
   between calls and shares none between objects is read off the source by tools/audit.py on every run
   (Gen/Sharing.v): no memoisation, no module- or class-level container that is written, no mutable default, no
   attribute written behind a dataclass, no parameter stored without a copy. *)
Theorem C01_audit_no_state_between_calls : (hidden_state_messages ++ hidden_state_controls ++ hidden_state_authentication ++ hidden_state_asn1 ++ hidden_state_filter_ber = [])%list.
Proof. exact eq_refl. Qed.

Print Assumptions C01_decode_encode.
Print Assumptions C01_reencode_is_identical.
Print Assumptions C01_filter_round_trip.
Print Assumptions C01_control_round_trip.
Print Assumptions C01_audit_no_state_between_calls.
