(* C01 -- placeholder while the round-trip proof is being developed: see Msg/RoundTrip.v *)
From SV Require Import Msg.Types Msg.Encode Msg.Decode.
