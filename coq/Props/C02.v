(* C02 -- message reassembly is independent of how the byte stream is chunked. *)
From Coq Require Import ZArith NArith List.
From Coq.Strings Require Import Byte.
From SV Require Import Gen.Sharing Base.Bytes Base.Py Msg.Types Msg.Decode Sess.Model Sess.Chunk.
Import ListNotations.

(* For ANY byte stream whose delivery in one piece succeeds, from any open state (client or server,
   with or without held-back octets), and ANY way of cutting it into consecutive chunks (empty chunks,
   single octets, cuts inside headers, several messages per chunk): feeding the chunks in order
   succeeds, returns overall exactly the same messages in the same order, and ends in exactly the same
   session state (protocol state, bookkeeping and held-back octets). *)
Theorem C02_chunking_is_unobservable :
  forall d chunks s s' ms, s_state s <> CLOSED -> chunks <> [] ->
  receive d s (concat chunks) = (s', ORetMsgs ms) ->
  receive_chunks d s chunks = Some (s', ms).
Proof. exact chunk_independent. Qed.

Theorem C02_two_chunks :
  forall d s a b s2 ms, s_state s <> CLOSED -> receive d s (a ++ b) = (s2, ORetMsgs ms) ->
  exists s1 ms1 ms2,
    receive d s a = (s1, ORetMsgs ms1) /\ receive d s1 b = (s2, ORetMsgs ms2) /\ ms = ms1 ++ ms2.
Proof. exact receive_two_chunks. Qed.

(* the buffered and the direct code path compute the same thing: parse (held-back ++ data), keep
   the remainder, process the messages *)
Theorem C02_both_receive_paths_agree :
  forall d s data s' ms, s_state s <> CLOSED ->
  (receive d s data = (s', ORetMsgs ms) <->
   exists rest, parse d (s_in s ++ data) = Ok (ms, rest) /\ process_all (set_in s rest) ms = (s', None)).
Proof. exact receive_ok. Qed.

(* a decoded message does not depend on what follows it in the stream *)
Theorem C02_decoding_ignores_what_follows :
  forall d r x m r', unpack_message d r = Ok (m, r') -> unpack_message d (r ++ x) = Ok (m, r' ++ x).
Proof. exact unpack_message_prefix. Qed.

(* The theorems above are about functions and values; that _session.py (everything a session mutates is reached from the session object) keeps no state
   between calls and shares none between objects is read off the source by tools/audit.py on every run
   (Gen/Sharing.v): no memoisation, no module- or class-level container that is written, no mutable default, no
   attribute written behind a dataclass, no parameter stored without a copy. *)
Theorem C02_audit_no_state_between_calls : (hidden_state_session = [])%list.
Proof. exact eq_refl. Qed.

Print Assumptions C02_chunking_is_unobservable.
Print Assumptions C02_two_chunks.
Print Assumptions C02_both_receive_paths_agree.
Print Assumptions C02_decoding_ignores_what_follows.
Print Assumptions C02_audit_no_state_between_calls.
