(* C02 -- statement file; proofs in Sess/ *)
From SV Require Import Sess.Model.
