(* C03 -- encoded messages are RFC 4511 BER that an independent decoder reads back. *)
From Coq Require Import ZArith NArith List.
From Coq.Strings Require Import Byte.
From SV Require Import Gen.Sharing Base.Bytes Base.Py Gen.Generated Asn1.Model Asn1.TlvProofs Msg.Types Msg.Encode
  Msg.Rfc Msg.RfcDecode Msg.RfcConform Msg.RfcDecodeProofs.
Import ListNotations.
Local Open Scope N_scope.

(* [Msg/Rfc.v] maps a message to the BER tree the RFC 4511 ASN.1 module prescribes (class, number and
   primitive/constructed form of every element; TRUE = FF; DEFAULT FALSE and absent OPTIONALs omitted;
   minimal integers) and serialises it with definite minimal lengths.  For every message of every
   operation except UnbindRequest the library's octets ARE that encoding. *)
Theorem C03_encoder_is_rfc4511 :
  forall m, m_op m <> UnbindRequest -> enc_msg m = rfc_enc m.
Proof. exact enc_is_rfc. Qed.

(* [Msg/RfcDecode.v] is a strict decoder written from the RFC (single-octet identifiers, definite
   lengths only, exact tags and forms, TRUE = FF only, explicit FALSE defaults rejected, minimal
   integers only, nothing left over).  It recovers exactly the message that was encoded; controls come
   back in their abstract form (OID, criticality, value octets). *)
Theorem C03_strict_decoder_reads_back :
  forall m, m_op m <> UnbindRequest -> nlen (enc_msg m) < max_len ->
  strict_decode (enc_msg m) = Some (gen_msg m).
Proof. exact strict_decode_enc. Qed.

(* the generic layer on its own: any well-formed BER tree, of any depth, is read back from its
   serialisation followed by arbitrary octets *)
Theorem C03_ber_tree_round_trip :
  forall t, wf_ber t -> forall fuel rest, (sz t <= fuel)%nat -> nlen (ser t) < max_len ->
  parse_one fuel (ser t ++ rest) = Some (t, rest).
Proof. exact parse_ser. Qed.

(* the tag numbers the encoder takes from the source (regenerated on every run) are the RFC's *)
Theorem C03_constants_are_rfc :
  cls_universal = 0 /\ cls_application = 1 /\ cls_context = 2 /\
  tn_boolean = 1 /\ tn_integer = 2 /\ tn_octet_string = 4 /\ tn_enumerated = 10 /\ tn_sequence = 16 /\ tn_set = 17 /\
  op_bind_request = 0 /\ op_bind_response = 1 /\ op_unbind_request = 2 /\ op_search_request = 3 /\
  op_search_result_entry = 4 /\ op_search_result_done = 5 /\ op_search_result_reference = 19 /\
  op_extended_request = 23 /\ op_extended_response = 24 /\
  fid_and = 0 /\ fid_or = 1 /\ fid_not = 2 /\ fid_equality = 3 /\ fid_substrings = 4 /\ fid_ge = 5 /\ fid_le = 6 /\
  fid_present = 7 /\ fid_approx = 8 /\ fid_extensible = 9 /\ aid_simple = 0 /\ aid_sasl = 3.
Proof. exact constants_are_rfc. Qed.

(* The full statement (all operations) is false of the faithful model: UnbindRequest is
   [APPLICATION 2] NULL, primitive 42 00; the library writes the constructed form 62 00, which the
   strict decoder rejects.  Known finding "unbind-constructed" (nine existing tests pin 62 00). *)
Theorem C03_unbind_refuted :
  enc_msg (mkMsg 0 UnbindRequest []) = [x30; x05; x02; x01; x00; x62; x00] /\
  rfc_enc (mkMsg 0 UnbindRequest []) = [x30; x05; x02; x01; x00; x42; x00].
Proof. exact unbind_is_not_rfc. Qed.
Theorem C03_unbind_rejected : strict_decode (enc_msg (mkMsg 1 UnbindRequest [])) = None.
Proof. exact strict_decode_unbind_refuted. Qed.

(* non-vacuity *)
Example C03_example :
  let m := mkMsg 7 (SearchRequest [x64] 2 3 1000 (-1)%Z true
                      (FOr [FSub [x61] None [[x62]] (Some [x63]); FExt None (Some [x64]) [] true]) [[x2a]])
                 [CPaged true 10 [] None] in
  m_op m <> UnbindRequest /\ nlen (enc_msg m) < max_len /\ strict_decode (enc_msg m) = Some (gen_msg m).
Proof. cbv zeta. split; [discriminate|]. split; vm_compute; reflexivity. Qed.

(* The theorems above are about functions and values; that the message codec (_messages.py, _controls.py, _authentication.py, asn1.py, the BER half of _filter.py) keeps no state
   between calls and shares none between objects is read off the source by tools/audit.py on every run
   (Gen/Sharing.v): no memoisation, no module- or class-level container that is written, no mutable default, no
   attribute written behind a dataclass, no parameter stored without a copy. *)
Theorem C03_audit_no_state_between_calls : (hidden_state_messages ++ hidden_state_controls ++ hidden_state_authentication ++ hidden_state_asn1 ++ hidden_state_filter_ber = [])%list.
Proof. exact eq_refl. Qed.

Print Assumptions C03_encoder_is_rfc4511.
Print Assumptions C03_strict_decoder_reads_back.
Print Assumptions C03_ber_tree_round_trip.
Print Assumptions C03_constants_are_rfc.
Print Assumptions C03_unbind_refuted.
Print Assumptions C03_unbind_rejected.
Print Assumptions C03_audit_no_state_between_calls.
