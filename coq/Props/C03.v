(* C03 -- statement file *)
From SV Require Import Msg.Encode.
