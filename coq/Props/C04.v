(* C04 -- statement file *)
From SV Require Import Msg.Decode.
