(* C04 -- the decoder accepts every valid BER form of a message, not only its own. *)
From Coq Require Import ZArith NArith List.
From Coq.Strings Require Import Byte.
From SV Require Import Gen.Sharing Base.Bytes Base.Py Gen.Generated Asn1.Model Asn1.TlvProofs Asn1.Lenient
  Msg.Types Msg.Encode Msg.Decode Msg.RoundTrip Msg.Peer Msg.Lenient.
Import ListNotations.
Local Open Scope N_scope.

(* The TLV layer: whatever valid definite length octets precede a content -- short form, or long form
   with any number (1..126) of length octets, leading zeros included -- the header reader returns the
   same tag and length and consumes exactly identifier + length octets. *)
Theorem C04_any_length_form :
  forall t lo len rest, wf_tag t -> valid_len lo len ->
  read_header (pack_identifier (t_cls t) (t_cons t) (t_num t) ++ lo ++ rest)
  = Ok (mkHdr t (ident_octets t + nlen lo) len).
Proof. exact header_any_length. Qed.

(* Whole messages.  [penc_msg lf tb explicit trail] (Msg/Peer.v) is a peer's encoder: [lf] chooses the
   length octets of every TLV node from the node's content (any valid form; different nodes may use
   different forms), [tb] is the octet written for TRUE, [explicit] says whether DEFAULT FALSE
   components (criticality, dnAttributes) are written out as an explicit FALSE, and [trail] gives, for
   each of the sixteen extensible SEQUENCE sites (control, SASL credentials, the protocol operations,
   partial attribute, the filter items, the paged-results value, the envelope), a list of unrecognised
   elements (any tag number in the APPLICATION or PRIVATE class, or a context-specific number above 11; any
   content) appended after the
   defined components.  For every such peer, every message of every operation, filters of any depth
   within the budget, any controls, and any octets following: the decoder consumes exactly the message
   and returns the value it returns for the library's own encoding (the only field that can differ is
   the raw value octets a paged-results control exposes, which are "as received"). *)
Theorem C04_peer_encodings_decode_alike :
  forall lf tb explicit trail d m rest rest',
  (forall c, fits c -> valid_len (lf c) (nlen c)) -> tb <> x00 ->
  (forall k x, In x (trail k) -> unknown_tag (fst x)) ->
  pwf_msg lf tb explicit trail d m -> wf_msg d m ->
  exists v v',
    unpack_message d (penc_msg lf tb explicit trail m ++ rest) = Ok (v, rest) /\
    unpack_message d (enc_msg m ++ rest') = Ok (v', rest') /\
    erase_raw_msg v = erase_raw_msg v' /\ erase_raw_msg v = erase_raw_msg m.
Proof. exact peer_encoding_decodes_alike. Qed.

Theorem C04_peer_round_trip :
  forall lf tb explicit, (forall c, fits c -> valid_len (lf c) (nlen c)) -> tb <> x00 ->
  forall trail, (forall k x, In x (trail k) -> unknown_tag (fst x)) ->
  forall d m rest, pwf_msg lf tb explicit trail d m ->
  unpack_message d (penc_msg lf tb explicit trail m ++ rest) = Ok (pnorm_msg lf trail m, rest).
Proof. exact msg_rt. Qed.

(* two length styles that satisfy the hypothesis: the library's own minimal lengths, and the fixed
   four-octet lengths Active Directory writes *)
Theorem C04_minimal_lengths_are_valid : forall n, n < max_len -> valid_len (pack_length n) n.
Proof. exact canonical_length_valid. Qed.
Theorem C04_four_octet_lengths_are_valid : forall d, nlen d < max_len -> valid_len (lf_four d) (nlen d).
Proof. exact lf_four_valid. Qed.

(* non-vacuity: an Active-Directory-style peer (four-octet lengths, TRUE = 01, explicit FALSE) that
   also appends unknown elements to controls, to the search request, to filter items and to the envelope *)
Definition ex_trail (k : nat) : list (tag * list byte) :=
  match k with
  | 0%nat => [(mkTag 1 11 false, [x01])]
  | 4%nat => [(mkTag 3 5 false, []); (mkTag 1 0 true, [x04; x00])]
  | 10%nat => [(mkTag 3 1024 false, [x78]); (mkTag 2 25 true, [x04; x01; x78])]
  | 11%nat | 14%nat => [(mkTag 1 3 false, [x00])]
  | _ => []
  end.

Example C04_example :
  let m := mkMsg 5 (SearchRequest [x64] 2 0 0 0 true
                      (FAnd [FExt None (Some [x61]) [x62] false; FSub [x63] None [[x64]] None; FEq [x61] [x62]]) [])
                 [CGeneric [x31; x2e; x32] false None; CPaged true 10 [] None] in
  (forall k x, In x (ex_trail k) -> unknown_tag (fst x)) /\
  pwf_msg lf_four x01 true ex_trail 5 m /\
  unpack_message 5 (penc_msg lf_four x01 true ex_trail m) = Ok (pnorm_msg lf_four ex_trail m, []) /\
  penc_msg lf_four x01 true ex_trail m <> enc_msg m.
Proof.
  cbv zeta. split; [|split; [|split]].
  - intros k x H. do 15 (destruct k as [|k]; [cbn in H; repeat (destruct H as [<-|H]; [first [solve [cbv; auto 6] | (cbv; right; right; split; [reflexivity|discriminate])]|]); destruct H|]). destruct H.
  - split; [|split].
    + cbn. repeat split; try reflexivity; repeat constructor.
    + repeat constructor; vm_compute; reflexivity.
    + vm_compute. reflexivity.
  - vm_compute. reflexivity.
  - vm_compute. discriminate.
Qed.

(* The theorems above are about functions and values; that the message codec (_messages.py, _controls.py, _authentication.py, asn1.py, the BER half of _filter.py) keeps no state
   between calls and shares none between objects is read off the source by tools/audit.py on every run
   (Gen/Sharing.v): no memoisation, no module- or class-level container that is written, no mutable default, no
   attribute written behind a dataclass, no parameter stored without a copy. *)
Theorem C04_audit_no_state_between_calls : (hidden_state_messages ++ hidden_state_controls ++ hidden_state_authentication ++ hidden_state_asn1 ++ hidden_state_filter_ber = [])%list.
Proof. exact eq_refl. Qed.

Print Assumptions C04_any_length_form.
Print Assumptions C04_peer_encodings_decode_alike.
Print Assumptions C04_peer_round_trip.
Print Assumptions C04_minimal_lengths_are_valid.
Print Assumptions C04_four_octet_lengths_are_valid.
Print Assumptions C04_audit_no_state_between_calls.
