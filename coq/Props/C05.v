(* C05 -- receiving arbitrary bytes either yields messages or fails closed. *)
From Coq Require Import ZArith List.
From Coq.Strings Require Import Byte.
From SV Require Import Gen.Sharing Base.Bytes Base.Py Msg.Types Msg.Decode Sess.Model Sess.Total.
Import ListNotations.

(* for EVERY history of calls that led to the current state, every byte string and every recursion
   budget d: receive returns a list of messages or raises ProtocolError -- never IndexError,
   KeyError, RecursionError, an exhausted loop or anything else the model can express *)
Theorem C05_receive_total :
  forall d r cs data s' o, receive d (fst (run d (init r) cs)) data = (s', o) ->
  (exists ms, o = ORetMsgs ms) \/ (exists p, o = OProtoErr p).
Proof. exact receive_total_reachable. Qed.

(* the same for any state satisfying the bookkeeping invariant (search ids are outstanding ids) *)
Theorem C05_receive_total_invariant :
  forall d s data s' o, good s -> receive d s data = (s', o) ->
  (exists ms, o = ORetMsgs ms) \/ (exists p, o = OProtoErr p).
Proof. exact receive_total. Qed.

Theorem C05_invariant_holds_in_every_reachable_state : forall d r cs, good (fst (run d (init r) cs)).
Proof. exact good_reachable. Qed.

(* after a protocol error the session reports CLOSED and refuses all further input, unchanged *)
Theorem C05_fail_closed :
  forall d s data s' p, step d s (Receive data) = (s', OProtoErr p) ->
  s_state s' = CLOSED /\
  forall data2 s2 o2, step d s' (Receive data2) = (s2, o2) -> s2 = s' /\ exists q, o2 = OProtoErr q.
Proof. exact fail_closed. Qed.

(* the stream parser's loop fuel (|input| + 1) is never exhausted; the only crash it can report is
   the interpreter's recursion limit, which receive converts into the protocol error *)
Theorem C05_parser_needs_no_more_fuel :
  forall d fuel r acc k, (length r < fuel)%nat -> parse_loop fuel d r acc = Raise (Crash k) -> k = RecursionErr.
Proof. exact parse_loop_benign. Qed.

Example C05_zero_length_integer : exists s', receive 10 (init Client) [x30; x02; x02; x00] = (s', OProtoErr PUnbind).
Proof. eexists. vm_compute. reflexivity. Qed.

(* The theorems above are about functions and values; that _session.py (everything a session mutates is reached from the session object) keeps no state
   between calls and shares none between objects is read off the source by tools/audit.py on every run
   (Gen/Sharing.v): no memoisation, no module- or class-level container that is written, no mutable default, no
   attribute written behind a dataclass, no parameter stored without a copy. *)
Theorem C05_audit_no_state_between_calls : (hidden_state_session = [])%list.
Proof. exact eq_refl. Qed.

Print Assumptions C05_receive_total.
Print Assumptions C05_receive_total_invariant.
Print Assumptions C05_invariant_holds_in_every_reachable_state.
Print Assumptions C05_fail_closed.
Print Assumptions C05_parser_needs_no_more_fuel.
Print Assumptions C05_audit_no_state_between_calls.
