(* C06 -- no complete protocol data unit is ever silently discarded. *)
From Coq Require Import ZArith NArith List.
From Coq.Strings Require Import Byte.
From SV Require Import Gen.Sharing Base.Bytes Base.Py Asn1.Model Msg.Types Msg.Decode Sess.Model Sess.Frame.
Import ListNotations.

(* [frame_one] reads identifier and length octets only (X.690 8.1.2, 8.1.3): the independent framer.
   [framed input n residue]: input = n complete units followed by residue, and residue is empty or
   a genuinely incomplete unit. *)

(* In every error-free receive call, from any open state: the number of messages returned equals the
   number of complete units in (held-back octets ++ new data) and exactly an incomplete unit (or
   nothing) is held back. *)
Theorem C06_receive_accounts_for_every_complete_unit :
  forall d s data s' ms, s_state s <> CLOSED -> receive d s data = (s', ORetMsgs ms) ->
  framed (s_in s ++ data) (length ms) (s_in s').
Proof. exact receive_accounts_for_every_unit. Qed.

Theorem C06_framing_loses_no_octet :
  forall r n rest, framed r n rest -> exists units, r = concat units ++ rest /\ length units = n.
Proof. exact framed_concat. Qed.

(* the reader asks for more data only when the framer finds the outer unit incomplete; a decoded
   message consumed exactly one complete unit *)
Theorem C06_need_more_iff_incomplete :
  forall d r,
  match unpack_message d r with
  | Ok (_, r') => exists hl ln, frame_one r = FUnit hl ln /\ r' = drop (hl + ln) r /\ (2 <= hl)%N
  | Raise NeedMore => frame_one r = FIncomplete
  | Raise _ => True
  end.
Proof. exact unpack_message_frames. Qed.

(* the original defect: a complete envelope whose diagnosticMessage overruns it is now an error *)
Example C06_complete_but_overrunning :
  frame_one [x30;x0e;x02;x01;x01;x61;x09;x0a;x01;x00;x04;x00;x04;x05;x61;x62] = FUnit 2 14 /\
  unpack_message 10 [x30;x0e;x02;x01;x01;x61;x09;x0a;x01;x00;x04;x00;x04;x05;x61;x62] = Raise ValueErr.
Proof. split; vm_compute; reflexivity. Qed.

(* The theorems above are about functions and values; that _session.py (everything a session mutates is reached from the session object) keeps no state
   between calls and shares none between objects is read off the source by tools/audit.py on every run
   (Gen/Sharing.v): no memoisation, no module- or class-level container that is written, no mutable default, no
   attribute written behind a dataclass, no parameter stored without a copy. *)
Theorem C06_audit_no_state_between_calls : (hidden_state_session = [])%list.
Proof. exact eq_refl. Qed.

Print Assumptions C06_receive_accounts_for_every_complete_unit.
Print Assumptions C06_framing_loses_no_octet.
Print Assumptions C06_need_more_iff_incomplete.
Print Assumptions C06_audit_no_state_between_calls.
