(* C07 -- BER primitives agree with an arithmetic oracle in both directions.
   Only statements closed by [exact]; the proofs live in Asn1/IntProofs.v and Asn1/TlvProofs.v. *)
From Coq Require Import ZArith NArith List.
From Coq.Strings Require Import Byte.
From SV Require Import Gen.Sharing Base.Bytes Base.Py Gen.Generated Asn1.Model Asn1.Spec Asn1.IntProofs Asn1.TlvProofs.
Import ListNotations.

(* reader: ANY non-empty content (minimal or padded) denotes its two's-complement value *)
Theorem C07_reader_is_twos_complement :
  forall bs, bs <> [] -> int_of_content bs = Ok (twos bs).
Proof. exact int_of_content_spec. Qed.

(* the only content the reader rejects is the empty one (with the library's ValueError) *)
Theorem C07_reader_empty_is_value_error : int_of_content [] = Raise ValueErr.
Proof. reflexivity. Qed.

(* writer: for EVERY integer the content denotes it and no shorter content does *)
Theorem C07_writer_minimal_twos_complement :
  forall z, minimal_enc z (int_content z).
Proof. exact int_content_minimal. Qed.

Theorem C07_integer_roundtrip :
  forall z, int_of_content (int_content z) = Ok z.
Proof. exact int_content_roundtrip. Qed.

(* tags (any class 0..3, any number incl. multi-octet, either form) and lengths (any size below
   256^125) are read back identically *)
Theorem C07_header_roundtrip :
  forall t len rest, wf_tag t -> (len < max_len)%N ->
  read_header (pack_identifier (t_cls t) (t_cons t) (t_num t) ++ pack_length len ++ rest)
  = Ok (mkHdr t (ident_octets t + len_octets len) len).
Proof. exact header_roundtrip. Qed.

(* a TLV is read back and exactly its octets are consumed: [rest] is untouched *)
Theorem C07_tlv_roundtrip_no_overconsumption :
  forall t data rest tlv, wf_tag t -> (nlen data < max_len)%N -> pack_tlv t data = Ok tlv ->
  read_octet_string (tlv ++ rest) (Some t) None = Ok (data, rest).
Proof. exact reader_tlv_roundtrip. Qed.

Theorem C07_reader_integer_roundtrip :
  forall t z rest tlv, wf_tag t -> (nlen (int_content z) < max_len)%N -> pack_integer (Some t) z = Ok tlv ->
  read_integer (tlv ++ rest) (Some t) None = Ok (z, rest).
Proof. exact reader_integer_roundtrip. Qed.

Theorem C07_reader_boolean_roundtrip :
  forall t v rest tlv, wf_tag t -> pack_boolean (Some t) v = Ok tlv ->
  read_boolean (tlv ++ rest) (Some t) None = Ok (v, rest).
Proof. exact reader_boolean_roundtrip. Qed.

Theorem C07_reader_sequence_roundtrip :
  forall t inner rest tlv, wf_tag t -> (nlen inner < max_len)%N -> pack_tlv t inner = Ok tlv ->
  read_sequence (tlv ++ rest) (Some t) None = Ok (inner, rest).
Proof. exact reader_sequence_roundtrip. Qed.

(* non-vacuity: the hypotheses have interesting inhabitants *)
Example C07_wf_high_tag : wf_tag (mkTag 1 1048576 true) /\ wf_tag (mkTag 3 31 false) /\ wf_tag (universal 16 true).
Proof. repeat split; vm_compute; try discriminate; auto. Qed.
Example C07_carry_witness : int_of_content [xff; x00; x00] = Ok (-65536)%Z /\ int_content (-65536)%Z = [xff; x00; x00].
Proof. split; reflexivity. Qed.

(* The theorems above are about functions and values; that asn1.py keeps no state
   between calls and shares none between objects is read off the source by tools/audit.py on every run
   (Gen/Sharing.v): no memoisation, no module- or class-level container that is written, no mutable default, no
   attribute written behind a dataclass, no parameter stored without a copy. *)
Theorem C07_audit_no_state_between_calls : (hidden_state_asn1 = [])%list.
Proof. exact eq_refl. Qed.

Print Assumptions C07_reader_is_twos_complement.
Print Assumptions C07_reader_empty_is_value_error.
Print Assumptions C07_writer_minimal_twos_complement.
Print Assumptions C07_integer_roundtrip.
Print Assumptions C07_header_roundtrip.
Print Assumptions C07_tlv_roundtrip_no_overconsumption.
Print Assumptions C07_reader_integer_roundtrip.
Print Assumptions C07_reader_boolean_roundtrip.
Print Assumptions C07_reader_sequence_roundtrip.
Print Assumptions C07_audit_no_state_between_calls.
