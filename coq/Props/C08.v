(* C08 -- session lifecycle follows the documented state machine; CLOSED is final. *)
From Coq Require Import ZArith List.
From Coq.Strings Require Import Byte.
From SV Require Import Gen.Sharing Base.Bytes Base.Py Msg.Types Sess.Model Sess.Drain Sess.Wire Sess.Lifecycle.
Import ListNotations.

Theorem C08_closed_is_final :
  forall d s c s' o, s_state s = CLOSED -> step d s c = (s', o) ->
  s_state s' = CLOSED /\ s_in s' = s_in s /\ s_outstanding s' = s_outstanding s /\
  match c with
  | Drain a => s_out s' = snd (py_cut a (s_out s)) /\ o = ORetBytes (fst (py_cut a (s_out s)))
  | Receive _ => s' = s /\ exists p, o = OProtoErr p
  | _ => s' = s /\ (o = OLdapErr \/ exists e, o = OOther e)
  end.
Proof. exact closed_is_final. Qed.

Theorem C08_closed_forever :
  forall d cs s, s_state s = CLOSED -> s_state (fst (run d s cs)) = CLOSED.
Proof. exact closed_forever. Qed.

(* every step of every history is a documented transition, up to the one deviation pinned by the
   existing test-suite (known finding) and crash outcomes (shown unreachable in C05/C09) *)
Theorem C08_every_step_documented :
  forall d s c s' o, s_state s <> CLOSED -> step d s c = (s', o) ->
  documented (s_role s) (s_state s) c o (s_state s') \/
  pinned_deviation (s_role s) (s_state s) c o (s_state s') \/
  (exists k, o = OOther (Crash k)).
Proof. exact lifecycle_step. Qed.

Theorem C08_bind_needs_nothing_outstanding :
  forall d s n a cs s' id, step d s (CBind n a cs) = (s', ORetId id) -> s_role s = Client ->
  s_outstanding s = [] /\ s_state s' = BINDING.
Proof. exact bind_needs_nothing_outstanding. Qed.

Theorem C08_binding_gate :
  forall d s c s' o, s_state s = BINDING -> step d s c = (s', o) -> accepted o = true ->
  match c with
  | CBind _ _ _ | SBindResponse _ _ _ _ _ _ | Unbind => True
  | SExtendedResponse _ n _ _ _ _ _ => is_notice_name n = true
  | _ => False
  end.
Proof. exact binding_gate. Qed.

Theorem C08_unbind_closes :
  forall d s s', step d s Unbind = (s', ORetNone) -> s_state s' = CLOSED /\ s_outstanding s' = [].
Proof. exact unbind_closes. Qed.

Theorem C08_protocol_error_closes :
  forall d s data s' p, step d s (Receive data) = (s', OProtoErr p) -> s_state s' = CLOSED.
Proof. exact protocol_error_closes. Qed.

(* the strict statement is false of the faithful model: witness = LDAPServer().bind_response(1) *)
Theorem C08_strict_reading_refuted :
  exists d s c s' o, step d s c = (s', o) /\ s_state s <> CLOSED /\
    ~ documented (s_role s) (s_state s) c o (s_state s') /\ ~ (exists k, o = OOther (Crash k)).
Proof. exact strict_lifecycle_refuted. Qed.

(* The theorems above are about functions and values; that _session.py (everything a session mutates is reached from the session object) keeps no state
   between calls and shares none between objects is read off the source by tools/audit.py on every run
   (Gen/Sharing.v): no memoisation, no module- or class-level container that is written, no mutable default, no
   attribute written behind a dataclass, no parameter stored without a copy. *)
Theorem C08_audit_no_state_between_calls : (hidden_state_session = [])%list.
Proof. exact eq_refl. Qed.

Print Assumptions C08_closed_is_final.
Print Assumptions C08_closed_forever.
Print Assumptions C08_every_step_documented.
Print Assumptions C08_bind_needs_nothing_outstanding.
Print Assumptions C08_binding_gate.
Print Assumptions C08_unbind_closes.
Print Assumptions C08_protocol_error_closes.
Print Assumptions C08_strict_reading_refuted.
Print Assumptions C08_audit_no_state_between_calls.
