(* C09 -- client correlates responses to requests strictly by message ID. *)
From Coq Require Import ZArith List Bool.
From Coq.Strings Require Import Byte.
From SV Require Import Gen.Sharing Base.Bytes Base.Py Msg.Types Msg.Encode Sess.Model Sess.Drain Sess.Ids Sess.Total Sess.IdsReach.
Import ListNotations.
Local Open Scope Z_scope.

Theorem C09_invariant_initially : ids_inv (init Client).
Proof. exact ids_inv_init. Qed.

(* the invariant the theorems below assume holds in every state a client reaches, whatever the calls (API calls,
   deliveries of any bytes, drains): the counter is at least 1, every id in progress is a positive id already
   handed out, every search in progress is an operation in progress *)
Theorem C09_invariant_in_every_reachable_state :
  forall d cs, ids_inv (fst (run d (init Client) cs)).
Proof. exact ids_inv_reachable. Qed.

(* ids are positive, fresh, consecutive, and are the ids carried by the queued bytes *)
Theorem C09_request_ids :
  forall d s c s' i, s_role s = Client -> ids_inv s -> is_request_call c = true -> step d s c = (s', ORetId i) ->
  i = s_counter s /\ 0 < i /\ s_counter s' = i + 1 /\ ~ In i (s_outstanding s) /\ In i (s_outstanding s') /\
  exists m, msg_of_call s c = Some m /\ m_id m = i /\ s_out s' = s_out s ++ enc_msg m.
Proof. exact request_ids. Qed.

(* rejected calls, deliveries and drains never consume an id *)
Theorem C09_counter_moves_only_on_accepted_request :
  forall d s c s' o, step d s c = (s', o) ->
  s_counter s' = s_counter s \/
  (s_role s = Client /\ is_request_call c = true /\ o = ORetId (s_counter s) /\ s_counter s' = s_counter s + 1).
Proof. exact counter_moves_only_on_accepted_request. Qed.

Theorem C09_response_accepted_iff_in_progress :
  forall s m, s_state s <> CLOSED -> ids_inv s -> is_response (kind_of (m_op m)) = true ->
  (snd (process_client s m) = None <-> In (m_id m) (s_outstanding s)) /\
  (forall k, snd (process_client s m) <> Some (PCrash k)).
Proof. exact response_accepted_iff_in_progress. Qed.

Theorem C09_request_message_rejected :
  forall s m, is_response (kind_of (m_op m)) = false -> process_client s m = (s, Some (PF None false)).
Proof. exact request_message_rejected. Qed.

Theorem C09_unknown_id_rejected :
  forall s m, s_state s <> CLOSED -> ids_inv s -> ~ In (m_id m) (s_outstanding s) ->
  process_client s m = (s, Some (PF None false)).
Proof. exact unknown_id_rejected. Qed.

Theorem C09_retirement :
  forall s m s', process_client s m = (s', None) ->
  let stays := zmem (m_id m) (s_searches s) && negb (match kind_of (m_op m) with KDone => true | _ => false end) in
  (stays = true -> s_outstanding s' = s_outstanding s /\ s_searches s' = s_searches s) /\
  (stays = false -> ~ In (m_id m) (s_outstanding s') /\ ~ In (m_id m) (s_searches s')).
Proof. exact retirement. Qed.

(* in every reachable open client state the search ids are outstanding ids, so the KeyError path of
   the response bookkeeping is unreachable *)
Theorem C09_searches_are_outstanding :
  forall d r cs, let s := fst (run d (init r) cs) in
  s_state s <> CLOSED -> s_role s = Client -> forall i, In i (s_searches s) -> In i (s_outstanding s).
Proof. intros d r cs. exact (good_reachable d r cs). Qed.

(* The theorems above are about functions and values; that _session.py (everything a session mutates is reached from the session object) keeps no state
   between calls and shares none between objects is read off the source by tools/audit.py on every run
   (Gen/Sharing.v): no memoisation, no module- or class-level container that is written, no mutable default, no
   attribute written behind a dataclass, no parameter stored without a copy. *)
Theorem C09_audit_no_state_between_calls : (hidden_state_session = [])%list.
Proof. exact eq_refl. Qed.

Print Assumptions C09_invariant_initially.
Print Assumptions C09_searches_are_outstanding.
Print Assumptions C09_request_ids.
Print Assumptions C09_counter_moves_only_on_accepted_request.
Print Assumptions C09_response_accepted_iff_in_progress.
Print Assumptions C09_request_message_rejected.
Print Assumptions C09_unknown_id_rejected.
Print Assumptions C09_retirement.
Print Assumptions C09_invariant_in_every_reachable_state.
Print Assumptions C09_audit_no_state_between_calls.
