(* C10 -- rejected calls have no wire effect; servers answer only open requests. *)
From Coq Require Import ZArith List.
From Coq.Strings Require Import Byte.
From SV Require Import Gen.Sharing Base.Bytes Base.Py Msg.Types Msg.Encode Sess.Model Sess.Drain Sess.Wire.
Import ListNotations.

Theorem C10_refused_call_leaves_stream :
  forall d s c s', step d s c = (s', OLdapErr) -> s_out s' = s_out s.
Proof. exact refused_call_leaves_stream. Qed.

(* a message-sending call either succeeds or fails with the library's own error type *)
Theorem C10_only_library_error :
  forall d s c s' o, call_fits (s_role s) c = true -> step d s c = (s', o) ->
  match o with ORetId _ | ORetNone | OLdapErr => True | _ => False end.
Proof. exact send_call_outcomes. Qed.

Theorem C10_server_answers_only_outstanding :
  forall d s c s' i id, s_role s = Server -> response_id c = Some id -> step d s c = (s', ORetId i) ->
  i = id /\ In id (s_outstanding s) /\
  (is_final_response c = true -> ~ In id (s_outstanding s')) /\
  (is_final_response c = false -> In id (s_outstanding s')).
Proof. exact server_answers_only_outstanding. Qed.

Theorem C10_second_response_refused :
  forall d s c id s' o, s_role s = Server -> response_id c = Some id -> ~ In id (s_outstanding s) ->
  step d s c = (s', o) -> o = OLdapErr /\ s_out s' = s_out s.
Proof. exact response_to_non_outstanding_refused. Qed.

(* The theorems above are about functions and values; that _session.py (everything a session mutates is reached from the session object) keeps no state
   between calls and shares none between objects is read off the source by tools/audit.py on every run
   (Gen/Sharing.v): no memoisation, no module- or class-level container that is written, no mutable default, no
   attribute written behind a dataclass, no parameter stored without a copy. *)
Theorem C10_audit_no_state_between_calls : (hidden_state_session = [])%list.
Proof. exact eq_refl. Qed.

Print Assumptions C10_refused_call_leaves_stream.
Print Assumptions C10_only_library_error.
Print Assumptions C10_server_answers_only_outstanding.
Print Assumptions C10_second_response_refused.
Print Assumptions C10_audit_no_state_between_calls.
