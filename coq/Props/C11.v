(* C11 -- a client and a server session interoperate under any interleaving. *)
From Coq Require Import ZArith NArith List.
From Coq.Strings Require Import Byte.
From SV Require Import Base.Bytes Base.Py Msg.Types Msg.Encode Msg.Decode Msg.RoundTrip
  Sess.Model Sess.Drain Sess.Chunk Sess.Proto Sess.Joint.
Import ListNotations.
Local Open Scope Z_scope.

(* The joint system: a client session and a server session of the session model (the same [step] and
   [process_all] that are compared with the implementation on every run), joined by two FIFO queues.
   A step is: an API call the client accepts (bind / extended / search / unbind, any arguments), an API
   call the server accepts and that answers an outstanding request with a response of the matching
   kind (any of the five responses, notice of disconnection, unbind), the delivery of the oldest
   message in flight to an open endpoint, or the refusal of a message by an endpoint that has already
   closed.  [jreach] is every state reachable by any finite interleaving of such steps. *)

(* No protocol error other than the designed terminations: whatever the interleaving, the message
   that arrives next at an open server is accepted, unless it is the client's unbind ... *)
Theorem C11_server_accepts_everything_sent :
  forall d j m q sv' r,
  jreach d j -> qcs j = m :: q -> s_state (sv j) <> CLOSED -> process_all (sv j) [m] = (sv', r) ->
  r = None \/ (m_op m = UnbindRequest /\ exists w n, r = Some (PF w n)).
Proof. exact no_spurious_error_at_server. Qed.

(* ... and the message that arrives next at an open client is accepted, unless it is the server's
   unbind or notice of disconnection (never KeyError, never "unknown message id"). *)
Theorem C11_client_accepts_everything_sent :
  forall d j m q cl' r,
  jreach d j -> qsc j = m :: q -> s_state (cl j) <> CLOSED -> process_all (cl j) [m] = (cl', r) ->
  r = None \/ ((m_op m = UnbindRequest \/ is_notice (m_op m) = true) /\ exists w n, r = Some (PF w n)).
Proof. exact no_spurious_error_at_client. Qed.

(* Whenever everything sent has been delivered, both sides agree on the session state (BEFORE_OPEN
   and OPENED alike) and on which operations and which searches are still in progress. *)
Theorem C11_agreement_when_all_delivered :
  forall d j, jreach d j -> qcs j = [] -> qsc j = [] ->
  same_state (s_state (cl j)) (s_state (sv j)) /\
  (s_state (cl j) <> CLOSED ->
   (forall i, In i (s_outstanding (cl j)) <-> In i (s_outstanding (sv j))) /\
   (forall i, In i (s_searches (cl j)) <-> In i (s_searches (sv j)))).
Proof. exact agreement_when_delivered. Qed.

(* The pipes: the octets queued for any sequence of messages parse back to exactly those messages, in
   order, each once, as equal values (up to the raw octets a decoded paged control exposes) ... *)
Theorem C11_octets_carry_the_messages :
  forall d ms, Forall (wf_msg d) ms -> parse d (concat (map enc_msg ms)) = Ok (map norm_msg ms, []).
Proof. exact parse_encodings. Qed.

(* ... however the octets are cut into deliveries. *)
Theorem C11_delivered_exactly_once_in_order :
  forall d s ms chunks s' got,
  Forall (wf_msg d) ms -> s_state s <> CLOSED -> s_in s = [] -> chunks <> [] ->
  concat chunks = concat (map enc_msg ms) ->
  receive d s (concat chunks) = (s', ORetMsgs got) ->
  got = map norm_msg ms /\ receive_chunks d s chunks = Some (s', got) /\ s_in s' = [].
Proof. exact delivered_exactly_once_in_order. Qed.

(* the invariant behind the three theorems holds in every reachable state of the abstract protocol
   that the joint system refines *)
Theorem C11_refinement :
  forall d j j', roles_ok j -> inv (abs j) -> jstep d j j' -> astep (abs j) (abs j') /\ roles_ok j'.
Proof. exact jstep_refines. Qed.

(* non-vacuity: bind, delivery, SASL-in-progress response, delivery, second bind -- a reachable
   history through the phases the invariant distinguishes *)
Example C11_reachable_example :
  exists j, jreach 10 j /\ s_state (cl j) = BINDING /\ s_state (sv j) = BINDING /\ s_counter (cl j) = 3 /\
            length (qcs j) = 1%nat /\ qsc j = [].
Proof.
  pose (b := CBind [x63] (CrSimple []) []).
  pose (j1 := mkJ (fst (step 10 (init Client) b)) (init Server) [mkMsg 1 (BindRequest 3 [x63] (CrSimple [])) []] []).
  assert (R1 : jreach 10 j1).
  { eapply jreach_step; [apply jreach_init|]. apply (J_client 10 jinit b _ (ORetId 1)); reflexivity. }
  pose (j2 := mkJ (cl j1) (after (fst (process_all (sv j1) (qcs j1))) None) [] []).
  assert (R2 : jreach 10 j2).
  { eapply jreach_step; [exact R1|]. apply (J_dcs 10 j1 (mkMsg 1 (BindRequest 3 [x63] (CrSimple [])) []) [] (fst (process_all (sv j1) (qcs j1))) None); [reflexivity|discriminate|reflexivity]. }
  pose (rsp := SBindResponse 1 None 14 [] [] []).
  pose (j3 := mkJ (cl j2) (fst (step 10 (sv j2) rsp)) [] [mkMsg 1 (BindResponse (server_result 14 [] []) None) []]).
  assert (R3 : jreach 10 j3).
  { eapply jreach_step; [exact R2|]. apply (J_server 10 j2 rsp _ (ORetId 1)); try reflexivity.
    split; [intros []|reflexivity]. }
  pose (j4 := mkJ (after (fst (process_all (cl j3) (qsc j3))) None) (sv j3) [] []).
  assert (R4 : jreach 10 j4).
  { eapply jreach_step; [exact R3|]. apply (J_dsc 10 j3 (mkMsg 1 (BindResponse (server_result 14 [] []) None) []) [] (fst (process_all (cl j3) (qsc j3))) None); [reflexivity|discriminate|reflexivity]. }
  pose (j5 := mkJ (fst (step 10 (cl j4) b)) (sv j4) [mkMsg 2 (BindRequest 3 [x63] (CrSimple [])) []] []).
  assert (R5 : jreach 10 j5).
  { eapply jreach_step; [exact R4|]. apply (J_client 10 j4 b _ (ORetId 2)); reflexivity. }
  exists j5. split; [exact R5|]. vm_compute. repeat split; reflexivity.
Qed.

Print Assumptions C11_server_accepts_everything_sent.
Print Assumptions C11_client_accepts_everything_sent.
Print Assumptions C11_agreement_when_all_delivered.
Print Assumptions C11_octets_carry_the_messages.
Print Assumptions C11_delivered_exactly_once_in_order.
Print Assumptions C11_refinement.
