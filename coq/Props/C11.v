(* C11 -- a client and a server session interoperate under any interleaving. *)
From Coq Require Import ZArith NArith List.
From Coq.Strings Require Import Byte.
From SV Require Import Gen.Sharing Base.Bytes Base.Py Msg.Types Msg.Encode Msg.Decode Msg.RoundTrip
  Sess.Model Sess.Drain Sess.Chunk Sess.Proto Sess.Joint Sess.Bytes.
Import ListNotations.
Local Open Scope Z_scope.

(* The joint system: a client session and a server session of the session model (the same [step] and
   [process_all] that are compared with the implementation on every run), joined by two FIFO queues.
   A step is: an API call the client accepts (bind / extended / search / unbind, any arguments), an API
   call the server accepts and that answers an outstanding request with a response of the matching
   kind (any of the five responses, notice of disconnection, unbind), the delivery of the oldest
   message in flight to an open endpoint, or the refusal of a message by an endpoint that has already
   closed.  [jreach] is every state reachable by any finite interleaving of such steps. *)

(* No protocol error other than the designed terminations: whatever the interleaving, the message
   that arrives next at an open server is accepted, unless it is the client's unbind ... *)
Theorem C11_server_accepts_everything_sent :
  forall d j m q sv' r,
  jreach d j -> qcs j = m :: q -> s_state (sv j) <> CLOSED -> process_all (sv j) [m] = (sv', r) ->
  r = None \/ (m_op m = UnbindRequest /\ exists w n, r = Some (PF w n)).
Proof. exact no_spurious_error_at_server. Qed.

(* ... and the message that arrives next at an open client is accepted, unless it is the server's
   unbind or notice of disconnection (never KeyError, never "unknown message id"). *)
Theorem C11_client_accepts_everything_sent :
  forall d j m q cl' r,
  jreach d j -> qsc j = m :: q -> s_state (cl j) <> CLOSED -> process_all (cl j) [m] = (cl', r) ->
  r = None \/ ((m_op m = UnbindRequest \/ is_notice (m_op m) = true) /\ exists w n, r = Some (PF w n)).
Proof. exact no_spurious_error_at_client. Qed.

(* Whenever everything sent has been delivered, both sides agree on the session state (BEFORE_OPEN
   and OPENED alike) and on which operations and which searches are still in progress. *)
Theorem C11_agreement_when_all_delivered :
  forall d j, jreach d j -> qcs j = [] -> qsc j = [] ->
  same_state (s_state (cl j)) (s_state (sv j)) /\
  (s_state (cl j) <> CLOSED ->
   (forall i, In i (s_outstanding (cl j)) <-> In i (s_outstanding (sv j))) /\
   (forall i, In i (s_searches (cl j)) <-> In i (s_searches (sv j)))).
Proof. exact agreement_when_delivered. Qed.

(* The pipes: the octets queued for any sequence of messages parse back to exactly those messages, in
   order, each once, as equal values (up to the raw octets a decoded paged control exposes) ... *)
Theorem C11_octets_carry_the_messages :
  forall d ms, Forall (wf_msg d) ms -> parse d (concat (map enc_msg ms)) = Ok (map norm_msg ms, []).
Proof. exact parse_encodings. Qed.

(* ... however the octets are cut into deliveries. *)
Theorem C11_delivered_exactly_once_in_order :
  forall d s ms chunks s' got,
  Forall (wf_msg d) ms -> s_state s <> CLOSED -> s_in s = [] -> chunks <> [] ->
  concat chunks = concat (map enc_msg ms) ->
  receive d s (concat chunks) = (s', ORetMsgs got) ->
  got = map norm_msg ms /\ receive_chunks d s chunks = Some (s', got) /\ s_in s' = [].
Proof. exact delivered_exactly_once_in_order. Qed.

(* the invariant behind the three theorems holds in every reachable state of the abstract protocol
   that the joint system refines *)
Theorem C11_refinement :
  forall d j j', roles_ok j -> inv (abs j) -> jstep d j j' -> astep (abs j) (abs j') /\ roles_ok j'.
Proof. exact jstep_refines. Qed.

(* non-vacuity: bind, delivery, SASL-in-progress response, delivery, second bind -- a reachable
   history through the phases the invariant distinguishes *)
Example C11_reachable_example :
  exists j, jreach 10 j /\ s_state (cl j) = BINDING /\ s_state (sv j) = BINDING /\ s_counter (cl j) = 3 /\
            length (qcs j) = 1%nat /\ qsc j = [].
Proof.
  pose (b := CBind [x63] (CrSimple []) []).
  pose (j1 := mkJ (fst (step 10 (init Client) b)) (init Server) [mkMsg 1 (BindRequest 3 [x63] (CrSimple [])) []] []).
  assert (R1 : jreach 10 j1).
  { eapply jreach_step; [apply jreach_init|]. apply (J_client 10 jinit b _ (ORetId 1)); reflexivity. }
  pose (j2 := mkJ (cl j1) (after (fst (process_all (sv j1) (qcs j1))) None) [] []).
  assert (R2 : jreach 10 j2).
  { eapply jreach_step; [exact R1|]. apply (J_dcs 10 j1 (mkMsg 1 (BindRequest 3 [x63] (CrSimple [])) []) [] (fst (process_all (sv j1) (qcs j1))) None); [reflexivity|discriminate|reflexivity]. }
  pose (rsp := SBindResponse 1 None 14 [] [] []).
  pose (j3 := mkJ (cl j2) (fst (step 10 (sv j2) rsp)) [] [mkMsg 1 (BindResponse (server_result 14 [] []) None) []]).
  assert (R3 : jreach 10 j3).
  { eapply jreach_step; [exact R2|]. apply (J_server 10 j2 rsp _ (ORetId 1)); try reflexivity.
    split; [intros []|reflexivity]. }
  pose (j4 := mkJ (after (fst (process_all (cl j3) (qsc j3))) None) (sv j3) [] []).
  assert (R4 : jreach 10 j4).
  { eapply jreach_step; [exact R3|]. apply (J_dsc 10 j3 (mkMsg 1 (BindResponse (server_result 14 [] []) None) []) [] (fst (process_all (cl j3) (qsc j3))) None); [reflexivity|discriminate|reflexivity]. }
  pose (j5 := mkJ (fst (step 10 (cl j4) b)) (sv j4) [mkMsg 2 (BindRequest 3 [x63] (CrSimple [])) []] []).
  assert (R5 : jreach 10 j5).
  { eapply jreach_step; [exact R4|]. apply (J_client 10 j4 b _ (ORetId 2)); reflexivity. }
  exists j5. split; [exact R5|]. vm_compute. repeat split; reflexivity.
Qed.

(* ======== the composed statement: sessions joined by BYTE pipes ========
   [breach] / [breachH] (Sess/Bytes.v): any interleaving of accepted client calls, accepted matching server calls
   (messages well formed for the decoder's recursion budget d), data_to_send of any amount on either side, and the
   delivery of any non-empty prefix of the octets on a wire to receive.  [breachH] also records what was sent and
   what receive handed back.  The byte-level system simulates the message-level one. *)
Theorem C11_bytes_simulate_messages :
  forall d b, breach d b -> exists j, jreach d j /\ Rel d b j.
Proof. exact byte_system_simulates. Qed.

(* no protocol error other than the designed terminations, whatever the chunking: an open endpoint that is handed the
   next octets on its wire returns messages, or raises the ProtocolError that ends the session because the peer's
   unbind (at the client also: the notice of disconnection) was among them *)
Theorem C11_bytes_no_spurious_error :
  (forall d b chunk rest sv' o, breach d b -> wcs b = chunk ++ rest -> s_state (bsv b) <> CLOSED ->
     step d (bsv b) (Receive chunk) = (sv', o) -> (exists ms, o = ORetMsgs ms) \/ o = OProtoErr PNone) /\
  (forall d b chunk rest cl' o, breach d b -> wsc b = chunk ++ rest -> s_state (bcl b) <> CLOSED ->
     step d (bcl b) (Receive chunk) = (cl', o) -> (exists ms, o = ORetMsgs ms) \/ o = OProtoErr PNone).
Proof. exact (conj byte_delivery_never_fails_cs byte_delivery_never_fails_sc). Qed.

(* every message handed to an application is, in order and each once, a message the peer sent, as an equal value ... *)
Theorem C11_bytes_messages_in_order :
  forall d b h, breachH d b h ->
  (exists t, map norm_msg (sent_cs h) = got_cs h ++ t) /\ (exists t, map norm_msg (sent_sc h) = got_sc h ++ t).
Proof. exact byte_messages_in_order. Qed.

(* ... and once all octets have reached an open receiver it has been handed every message sent *)
Theorem C11_bytes_all_received :
  (forall d b h, breachH d b h -> s_state (bsv b) <> CLOSED -> s_out (bcl b) = [] -> wcs b = [] -> s_in (bsv b) = [] ->
     got_cs h = map norm_msg (sent_cs h)) /\
  (forall d b h, breachH d b h -> s_state (bcl b) <> CLOSED -> s_out (bsv b) = [] -> wsc b = [] -> s_in (bcl b) = [] ->
     got_sc h = map norm_msg (sent_sc h)).
Proof. exact (conj byte_all_received_cs byte_all_received_sc). Qed.

(* whenever all octets have been delivered both sides agree on the state and on what is in progress *)
Theorem C11_bytes_agreement :
  forall d b, breach d b ->
  s_out (bcl b) = [] -> s_out (bsv b) = [] -> wcs b = [] -> wsc b = [] -> s_in (bcl b) = [] -> s_in (bsv b) = [] ->
  same_state (s_state (bcl b)) (s_state (bsv b)) /\
  (s_state (bcl b) <> CLOSED ->
   (forall i, In i (s_outstanding (bcl b)) <-> In i (s_outstanding (bsv b))) /\
   (forall i, In i (s_searches (bcl b)) <-> In i (s_searches (bsv b)))).
Proof. exact byte_agreement_when_all_delivered. Qed.

(* non-vacuity of the byte-level system: a request cut into two deliveries, the first leaving a partial message buffered *)
Example C11_bytes_example :
  breach 10 ex_b4 /\ s_outstanding (bsv ex_b4) = [1] /\ s_in (bsv ex_b3) <> [] /\ wcs ex_b3 <> [].
Proof. exact byte_system_example. Qed.

(* The theorems above are about functions and values; that _session.py (everything a session mutates is reached from the session object) keeps no state
   between calls and shares none between objects is read off the source by tools/audit.py on every run
   (Gen/Sharing.v): no memoisation, no module- or class-level container that is written, no mutable default, no
   attribute written behind a dataclass, no parameter stored without a copy. *)
Theorem C11_audit_no_state_between_calls : (hidden_state_session = [])%list.
Proof. exact eq_refl. Qed.

Print Assumptions C11_server_accepts_everything_sent.
Print Assumptions C11_client_accepts_everything_sent.
Print Assumptions C11_agreement_when_all_delivered.
Print Assumptions C11_octets_carry_the_messages.
Print Assumptions C11_delivered_exactly_once_in_order.
Print Assumptions C11_refinement.
Print Assumptions C11_bytes_simulate_messages.
Print Assumptions C11_bytes_no_spurious_error.
Print Assumptions C11_bytes_messages_in_order.
Print Assumptions C11_bytes_all_received.
Print Assumptions C11_bytes_agreement.
Print Assumptions C11_audit_no_state_between_calls.
