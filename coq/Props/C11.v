(* C11 -- statement file *)
From SV Require Import Sess.Model.
