(* C12 -- outgoing bytes are delivered exactly once, in order, however they are drained. *)
From Coq Require Import ZArith List.
From Coq.Strings Require Import Byte.
From SV Require Import Gen.Sharing Base.Bytes Msg.Types Msg.Encode Sess.Model Sess.Drain.
Import ListNotations.

(* for every history of calls (sends, deliveries, drains of any amount incl. negative / None):
   everything drained so far ++ what is still pending = the encodings of exactly the accepted
   sends, in call order *)
Theorem C12_exactly_once_in_order :
  forall d r cs, let '(drained, sent, s') := ghost d (init r) cs in drained ++ s_out s' = sent.
Proof. exact stream_from_init. Qed.

Theorem C12_from_any_state :
  forall d cs s, let '(drained, sent, s') := ghost d s cs in drained ++ s_out s' = s_out s ++ sent.
Proof. exact stream_exactly_once. Qed.

(* draining never affects protocol state *)
Theorem C12_drain_is_pure_cut :
  forall d s a s' o, step d s (Drain a) = (s', o) ->
  s_state s' = s_state s /\ s_outstanding s' = s_outstanding s /\ s_searches s' = s_searches s /\
  s_counter s' = s_counter s /\ s_in s' = s_in s /\ s_role s' = s_role s /\
  o = ORetBytes (fst (py_cut a (s_out s))) /\ s_out s' = snd (py_cut a (s_out s)).
Proof. exact drain_only_cuts. Qed.

Theorem C12_cut_loses_nothing : forall a buf, fst (py_cut a buf) ++ snd (py_cut a buf) = buf.
Proof. exact py_cut_app. Qed.

Example C12_negative_amount : py_cut (Some (-1)%Z) [x01; x02; x03] = ([x01; x02], [x03]).
Proof. reflexivity. Qed.

(* The theorems above are about functions and values; that _session.py (everything a session mutates is reached from the session object) keeps no state
   between calls and shares none between objects is read off the source by tools/audit.py on every run
   (Gen/Sharing.v): no memoisation, no module- or class-level container that is written, no mutable default, no
   attribute written behind a dataclass, no parameter stored without a copy. *)
Theorem C12_audit_no_state_between_calls : (hidden_state_session = [])%list.
Proof. exact eq_refl. Qed.

Print Assumptions C12_exactly_once_in_order.
Print Assumptions C12_from_any_state.
Print Assumptions C12_drain_is_pure_cut.
Print Assumptions C12_cut_loses_nothing.
Print Assumptions C12_audit_no_state_between_calls.
