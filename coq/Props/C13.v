(* C13 -- filter objects survive conversion to text and back (no filter injection). *)
From Coq Require Import ZArith NArith List Bool.
From Coq.Strings Require Import Byte.
From SV Require Import Gen.Sharing Base.Bytes Base.Py Rx.Syntax Gen.Generated Msg.Types Filt.Text Filt.Value Filt.Simple Filt.RoundTrip.
Import ListNotations.

(* [print_filter] mirrors __str__ of the ten filter classes, [from_string] mirrors
   LDAPFilter.from_string (strip, surrogateescape-encode, recursive descent with offsets); both run
   against the implementation on every check.  [wf_tfilter]: attribute descriptions and matching rules
   accepted by the generated _ATTRIBUTE_PATTERN, non-empty and/or, a substrings assertion that asserts
   something and nothing empty, an extensible match with an attribute, a rule or :dn (a rule spelled
   "dn" only after :dn).  Assertion values are ARBITRARY octet strings.  [d] is the recursion budget
   (two Python frames per nesting level). *)
Theorem C13_from_string_of_str :
  forall d f, (tdepth f <= d)%nat -> wf_tfilter f -> from_string d (bn (print_filter f)) = FOk f.
Proof. exact from_string_str. Qed.

(* the same inside any surrounding text: the parser stops exactly at the end of the filter's text *)
Theorem C13_text_round_trip :
  forall d f, (tdepth f <= d)%nat -> wf_tfilter f ->
  forall pre post junk,
  unpack_filter d (pre ++ (print_filter f ++ post) ++ junk) (zlen pre) (zlen (print_filter f ++ post))
  = FOk (f, zlen (print_filter f)).
Proof. exact text_round_trip. Qed.

(* values: every octet string is recovered from its escaped form ... *)
Theorem C13_value_round_trip : forall v off len, unpack_value (ser_value v) off len = FOk v.
Proof. exact unpack_value_ser. Qed.

(* ... and the escaped form contains no special octet (NUL, controls, parentheses, asterisk, DEL and
   above) other than the backslash that starts an escape: value content cannot alter the structure *)
Theorem C13_value_text_is_inert :
  forall v b, In b (ser_value v) -> special (b2n b) = false \/ b = c_bs.
Proof. exact ser_value_chars. Qed.

Theorem C13_text_is_ascii : forall f, wf_tfilter f -> Forall (fun b => (b2n b < 128)%N) (print_filter f).
Proof. exact print_ascii. Qed.

(* non-vacuity: nesting, hostile values, options, OIDs, every node kind *)
Example C13_example :
  let f := FAnd [FNot (FEq [x63; x6e] [x29; x28; x2a; x5c; x00; xff; x26]);
                 FOr [FSub [x61; x3b; x78] (Some [x2a]) [[x29]; [x5c; x32; x61]] None; FPresent [x31; x2e; x32]];
                 FExt (Some [x64; x6e]) None [x28] true; FExt None (Some [x6f]) [] false;
                 FGe [x61] []; FLe [x61] [x3d]; FApprox [x61] [x7e; x3d]] in
  wf_tfilter f /\ (tdepth f <= 6)%nat /\ from_string 6 (bn (print_filter f)) = FOk f.
Proof.
  cbv zeta. split; [|split].
  - repeat (constructor || discriminate || (vm_compute; reflexivity) || (intros [? ?]; discriminate)
            || (intros [? [? ?]]; discriminate)).
  - vm_compute. repeat constructor.
  - vm_compute. reflexivity.
Qed.

(* The theorems above are about functions and values; that the text half of _filter.py (from_string, __str__ and their helpers) keeps no state
   between calls and shares none between objects is read off the source by tools/audit.py on every run
   (Gen/Sharing.v): no memoisation, no module- or class-level container that is written, no mutable default, no
   attribute written behind a dataclass, no parameter stored without a copy. *)
Theorem C13_audit_no_state_between_calls : (hidden_state_filter_text = [])%list.
Proof. exact eq_refl. Qed.

Print Assumptions C13_from_string_of_str.
Print Assumptions C13_text_round_trip.
Print Assumptions C13_value_round_trip.
Print Assumptions C13_value_text_is_inert.
Print Assumptions C13_text_is_ascii.
Print Assumptions C13_audit_no_state_between_calls.
