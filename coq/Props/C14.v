(* C14 -- statement file *)
From SV Require Import Filt.Text.
