(* C14 -- filter text is parsed as RFC 4515 defines it. *)
From Coq Require Import ZArith NArith List Bool.
From Coq.Strings Require Import Byte.
From SV Require Import Gen.Sharing Base.Bytes Base.Py Rx.Syntax Gen.Generated Msg.Types Msg.Encode Msg.Rfc Msg.RfcConform
  Filt.Text Filt.Value Filt.Simple Filt.RoundTrip Filt.Grammar.
Import ListNotations.

(* [sent f t]: t is a sentence of the RFC 4515 section 3 grammar denoting the tree f --
     filter = "(" filtercomp ")",  filtercomp = and / or / not / item,  filterlist = 1*filter,
     item = simple / present / substring / extensible,
     value = *( normal / "\" hex hex ) with normal = any octet except NUL ( ) * \ (so raw UTF-8 and
     control octets are values) and hex digits in EITHER case, empty values included,
     attribute descriptions / matching rules = what the generated _ATTRIBUTE_PATTERN accepts
     (descr or numericoid, with options) --
   decorated with the spaces the library tolerates: after "(", after the & | ! operator and after each
   filter of a list.  ([vtext], [vform], [sent] in Filt/Grammar.v.)
   For every such sentence the parser returns exactly the tree, within the recursion budget. *)
Theorem C14_every_sentence_parses_to_its_tree :
  forall d f t, sent f t -> (tdepth f <= d)%nat -> from_bytes d t = FOk f.
Proof. exact from_bytes_sentence. Qed.

(* also inside surrounding text, consuming exactly the sentence *)
Theorem C14_sentence_in_context :
  forall d f t, sent f t -> (tdepth f <= d)%nat ->
  forall pre post junk,
  unpack_filter d (pre ++ (t ++ post) ++ junk) (zlen pre) (zlen (t ++ post)) = FOk (f, zlen t).
Proof. exact sentence_parse. Qed.

(* values: every text of the value grammar denotes the octets the unescaper returns *)
Theorem C14_value_grammar : forall v t off len, vtext v t -> unpack_value t off len = FOk v.
Proof. exact unpack_value_vtext. Qed.

(* and the octets then sent in a SearchRequest are the RFC 4511 encoding of that tree *)
Theorem C14_encoded_as_rfc4511 :
  forall d f t, sent f t -> (tdepth f <= d)%nat ->
  exists g, from_bytes d t = FOk g /\ g = f /\ enc_filter g = ser (r_filter g).
Proof.
  intros d f t S Hd. exists f. split; [now apply from_bytes_sentence|]. split; [reflexivity|apply filter_is_rfc].
Qed.

(* what __str__ writes is one sentence of the grammar (C13 is this instance) *)
Theorem C14_str_is_a_sentence : forall f, wf_tfilter f -> sent f (print_filter f).
Proof. exact print_is_sentence. Qed.

(* non-vacuity: upper-case hex, raw UTF-8 (c3 a9), raw control octet, spaces in all tolerated places *)
Example C14_example :
  let t := [c_lp; c_sp; c_amp; c_sp; c_sp] ++
           ([c_lp; x63; x6e; c_eq; c_bs; x32; x41; xc3; xa9; x01; c_rp] ++ [c_sp]) ++
           ([c_lp; c_sp; c_bang; c_lp; x6f; c_eq; c_star; x61; c_star; c_rp; c_sp; c_rp] ++ []) ++ [c_rp] in
  from_bytes 5 t = FOk (FAnd [FEq [x63; x6e] [x2a; xc3; xa9; x01]; FNot (FSub [x6f] None [[x61]] None)]).
Proof. vm_compute. reflexivity. Qed.

Example C14_example_is_sentence :
  sent (FEq [x63; x6e] [x2a; xc3; xa9; x01]) [c_lp; x63; x6e; c_eq; c_bs; x32; x41; xc3; xa9; x01; c_rp].
Proof.
  change [c_lp; x63; x6e; c_eq; c_bs; x32; x41; xc3; xa9; x01; c_rp]
    with ([c_lp] ++ [] ++ (hdr_of (FEq [x63; x6e] [x2a; xc3; xa9; x01]) ++ [c_eq] ++ [c_bs; x32; x41; xc3; xa9; x01]) ++ [c_rp]).
  apply s_simple; [reflexivity|constructor; vm_compute; reflexivity| |constructor].
  constructor. change x2a with (n2b (2 * 16 + 10)).
  apply vt_esc; [split; vm_compute; reflexivity|split; vm_compute; reflexivity|].
  repeat (apply vt_raw; [vm_compute; reflexivity|]). constructor.
Qed.

(* The theorems above are about functions and values; that the text half of _filter.py (from_string, __str__ and their helpers) keeps no state
   between calls and shares none between objects is read off the source by tools/audit.py on every run
   (Gen/Sharing.v): no memoisation, no module- or class-level container that is written, no mutable default, no
   attribute written behind a dataclass, no parameter stored without a copy. *)
Theorem C14_audit_no_state_between_calls : (hidden_state_filter_text = [])%list.
Proof. exact eq_refl. Qed.

Print Assumptions C14_every_sentence_parses_to_its_tree.
Print Assumptions C14_sentence_in_context.
Print Assumptions C14_value_grammar.
Print Assumptions C14_encoded_as_rfc4511.
Print Assumptions C14_str_is_a_sentence.
Print Assumptions C14_audit_no_state_between_calls.
