(* C15 -- the filter parser is total and only accepts what it can faithfully represent. *)
From Coq Require Import ZArith NArith List Bool.
From Coq.Strings Require Import Byte.
From SV Require Import Gen.Sharing Base.Bytes Base.Py Rx.Syntax Gen.Generated Msg.Types Filt.Text Filt.Value Filt.Simple Filt.RoundTrip
  Filt.Total Filt.Sound Filt.Range.
Import ListNotations.

(* For ANY string (a list of code points, lone surrogates included) and any recursion budget,
   LDAPFilter.from_string returns a filter or raises FilterSyntaxError; no other exception: no loop of
   the parser, of re.sub or of the matcher runs out of steps, no index is out of range, and the
   interpreter's RecursionError is converted. *)
Theorem C15_total :
  forall d s, match from_string d s with
              | FOk _ | FErr (FSyn _ _) => True
              | FErr (FCrash _) => False
              end.
Proof. exact from_string_total. Qed.

(* Whenever it accepts, every attribute description and matching rule in the result matches the
   library's attribute pattern, and the shape is one the text form can express ([wf_tfilter]) ... *)
Theorem C15_accepted_is_well_formed :
  forall d s f, from_string d s = FOk f -> wf_tfilter f /\ (tdepth f <= d)%nat.
Proof. exact from_string_sound. Qed.

(* ... and the result's own text form parses back to the same result. *)
Theorem C15_accepted_reparses_to_itself :
  forall d s f, from_string d s = FOk f -> from_string d (bn (print_filter f)) = FOk f.
Proof. exact accepted_filters_reparse. Qed.

(* The offset and length a FilterSyntaxError reports lie inside the input: inside the encoded filter
   for a parse error, inside the (stripped) string for a character that cannot be encoded. *)
Theorem C15_error_position_in_range :
  forall d s o l, from_string d s = FErr (FSyn o l) ->
  (0 <= o)%Z /\ (0 <= l)%Z /\
  (match encode_se (strip s) 0 return Prop with
   | inl b => (o + l <= zlen b)%Z
   | inr _ => (o + l <= zlen (strip s))%Z
   end).
Proof. exact from_string_error_in_range. Qed.

(* an accepted item always consumes input: the loops make progress *)
Theorem C15_progress :
  forall d view off len,
  (forall f n, unpack_filter d view off len = FOk (f, n) -> (1 <= n)%Z) /\
  (forall f n, unpack_complex d view off len = FOk (f, n) -> (1 <= n)%Z).
Proof. intros d view off len. destruct (unpack_total d view off len) as [[_ A] [_ B]]. split; assumption. Qed.

(* The clause "RFC 4512-valid" is FALSE of the faithful model for the library's own pattern (known
   findings, pinned by passing tests): a single-arc numeric OID and a matching rule with options are
   accepted. *)
Theorem C15_attribute_pattern_refuted :
  from_string 5 [40%N; 48%N; 61%N; 120%N; 41%N] = FOk (FEq [x30] [x78]) /\
  exists f, from_string 5 [40%N; 97%N; 58%N; 114%N; 59%N; 111%N; 58%N; 61%N; 118%N; 41%N] = FOk f.
Proof. split; [vm_compute; reflexivity|eexists; vm_compute; reflexivity]. Qed.

(* non-vacuity of the accepting branch and of the error branch *)
Example C15_examples :
  from_string 5 [32%N; 40%N; 99%N; 110%N; 61%N; 42%N; 41%N; 10%N] = FOk (FPresent [x63; x6e]) /\
  from_string 5 [40%N; 99%N; 110%N; 61%N; 42%N; 41%N; 41%N] = FErr (FSyn 6 1) /\
  from_string 5 [40%N; 55296%N; 41%N] = FErr (FSyn 1 1).
Proof. repeat split; vm_compute; reflexivity. Qed.

(* The theorems above are about functions and values; that the text half of _filter.py (from_string, __str__ and their helpers) keeps no state
   between calls and shares none between objects is read off the source by tools/audit.py on every run
   (Gen/Sharing.v): no memoisation, no module- or class-level container that is written, no mutable default, no
   attribute written behind a dataclass, no parameter stored without a copy. *)
Theorem C15_audit_no_state_between_calls : (hidden_state_filter_text = [])%list.
Proof. exact eq_refl. Qed.

Print Assumptions C15_total.
Print Assumptions C15_accepted_is_well_formed.
Print Assumptions C15_accepted_reparses_to_itself.
Print Assumptions C15_error_position_in_range.
Print Assumptions C15_progress.
Print Assumptions C15_attribute_pattern_refuted.
Print Assumptions C15_audit_no_state_between_calls.
