(* C15 -- statement file *)
From SV Require Import Filt.Text.
