(* C16 -- schema definitions survive conversion to text and back.
   For each of the three description types: whenever the fields are valid per RFC 4512, str() succeeds and
   from_string() of that text gives back the description, field for field.  The text goes through the
   pattern generated from the source (Gen/Generated.v) run by the backtracking matcher with captures, then
   through the model of the field readers.  The conditions are executable (Schema/WfDec.v) and the check
   evaluates them on every generated description. *)
From Coq Require Import ZArith NArith List Bool.
From SV Require Import Gen.Sharing Base.Py Rx.Syntax Gen.Generated Schema.Model Schema.Proofs Schema.Match Schema.Chain
  Schema.ObjectClass Schema.AttributeType Schema.DitContentRule Schema.WfDec.
Import ListNotations.

(* object classes: numeric OID, descriptor names, optional non-empty description, OID lists, kind, extensions
   with distinct keys and non-empty values *)
Theorem C16_object_class_round_trip :
  forall o, wf_oc o -> exists s, oc_print o = Ok s /\ oc_from_string s = Ok o.
Proof. exact oc_round_trip. Qed.

(* attribute types: additionally single OIDs for SUP / EQUALITY / ORDERING / SUBSTR, a numeric-OID syntax with any
   non-negative length, the three flags and the four usages *)
Theorem C16_attribute_type_round_trip :
  forall a, wf_at a -> exists s, at_print a = Ok s /\ at_from_string s = Ok a.
Proof. exact at_round_trip. Qed.

(* DIT content rules *)
Theorem C16_dit_content_rule_round_trip :
  forall o, wf_dcr o -> exists s, dcr_print o = Ok s /\ dcr_from_string s = Ok o.
Proof. exact dcr_round_trip. Qed.

(* the same, from the executable conditions *)
Theorem C16_round_trip_executable_conditions :
  (forall o, wf_oc_b o = true -> exists s, oc_print o = Ok s /\ oc_from_string s = Ok o) /\
  (forall a, wf_at_b a = true -> exists s, at_print a = Ok s /\ at_from_string s = Ok a) /\
  (forall o, wf_dcr_b o = true -> exists s, dcr_print o = Ok s /\ dcr_from_string s = Ok o).
Proof. exact (conj oc_round_trip_b (conj at_round_trip_b dcr_round_trip_b)). Qed.

(* Every description / extension text -- quotes, backslashes, text that looks like an escape, any code
   point -- is recovered from its quoted form. *)
Theorem C16_qdstring_round_trip :
  forall v, exists q, encode_qdstring v = Ok q /\ parse_qdstring q = Ok v.
Proof. exact qdstring_round_trip. Qed.

(* non-vacuity: descriptions with every part present satisfy the conditions *)
Example C16_example_oc :
  wf_oc (mkOC [50; 46; 53; 46; 54; 46; 49; 48] [[97; 98]; [99; 45; 100]] (Some [39; 92; 120]) true [[116; 111; 112]; [49; 46; 50]]
              2 [[99; 110]] [] [([102; 111; 111], [[98]; [99]]); ([98; 97; 114], [])])%N.
Proof. exact wf_oc_example. Qed.
Example C16_example_at :
  wf_at (mkAT [50; 46; 53; 46; 52; 46; 51] [[99; 110]] (Some [120]) false (Some [110; 97; 109; 101]) None (Some [49; 46; 50]) None
              (Some [49; 46; 51; 46; 54]) (Some 32768%Z) true false true 1 [])%N.
Proof. exact wf_at_example. Qed.
Example C16_example_dcr :
  wf_dcr (mkDCR [50; 46; 53; 46; 54; 46; 49; 48] [[97; 98]] None false [[116; 111; 112]; [49; 46; 50]] [] [[99; 110]] [[120]]
                [([102; 111; 111], [[98]])])%N.
Proof. exact wf_dcr_example. Qed.

(* The theorems above are about functions and values; that schema.py keeps no state
   between calls and shares none between objects is read off the source by tools/audit.py on every run
   (Gen/Sharing.v): no memoisation, no module- or class-level container that is written, no mutable default, no
   attribute written behind a dataclass, no parameter stored without a copy. *)
Theorem C16_audit_no_state_between_calls : (hidden_state_schema = [])%list.
Proof. exact eq_refl. Qed.

Print Assumptions C16_object_class_round_trip.
Print Assumptions C16_attribute_type_round_trip.
Print Assumptions C16_dit_content_rule_round_trip.
Print Assumptions C16_round_trip_executable_conditions.
Print Assumptions C16_qdstring_round_trip.
Print Assumptions C16_audit_no_state_between_calls.
