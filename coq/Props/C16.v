(* C16 -- schema definitions survive conversion to text and back: the stages AFTER the regular
   expression (partial; the regex stage itself is covered by the correspondence check only). *)
From Coq Require Import ZArith NArith List Bool.
From SV Require Import Base.Py Rx.Syntax Gen.Generated Schema.Model Schema.Proofs.
Import ListNotations.

(* Every description / extension text -- quotes, backslashes, text that looks like an escape, any code
   point -- is recovered from its quoted form. *)
Theorem C16_partial_qdstring_round_trip :
  forall v, exists q, encode_qdstring v = Ok q /\ parse_qdstring q = Ok v.
Proof. exact qdstring_round_trip. Qed.

(* The whole extensions block: any number of X- items with distinct space-free keys, single values and
   parenthesised lists (the empty list included), values arbitrary text. *)
Theorem C16_partial_extensions_round_trip :
  forall e, Forall (fun x => key_ok (fst x)) e -> NoDup (keys_of e) ->
  exists t, print_ext e = Ok t /\ parse_extensions (Some t) = Ok e.
Proof. exact extensions_round_trip. Qed.

(* OID lists (SUP / MUST / MAY / AUX / NOT), bare or parenthesised with $ separators. *)
Theorem C16_partial_oid_lists_round_trip :
  forall l, l <> [] -> Forall plain l -> parse_oids (Some (encode_oids l)) = l.
Proof. exact oids_round_trip. Qed.

(* NAME lists, one quoted name or a parenthesised list. *)
Theorem C16_partial_names_round_trip :
  forall names, names <> [] -> Forall plain names ->
  parse_names (Some (match names with
                     | [n] => quote n
                     | _ => [LP; SPC; SQ] ++ ujoin [SQ; SPC; SQ] names ++ [SQ; SPC; RP]
                     end)) = names.
Proof. exact names_round_trip. Qed.

(* non-vacuity: a description made of a quote, a backslash and the text "\27" *)
Example C16_example :
  parse_qdstring [39; 92; 50; 55; 92; 53; 99; 92; 53; 99; 50; 55; 39]%N = Ok [39; 92; 92; 50; 55]%N.
Proof. vm_compute. reflexivity. Qed.

Print Assumptions C16_partial_qdstring_round_trip.
Print Assumptions C16_partial_extensions_round_trip.
Print Assumptions C16_partial_oid_lists_round_trip.
Print Assumptions C16_partial_names_round_trip.
