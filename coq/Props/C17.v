(* C17 -- schema text is parsed as RFC 4512 defines it.
   Grammar clause: the sentences of the three description grammars are given as concrete syntax trees - the
   fields together with every choice the grammar leaves open (length of every WSP / SP run, bare or
   parenthesised lists of any length incl. empty ones, \5c or \5C, optional kind / usage, quoted SYNTAX) - with
   a function writing the sentence and a function giving the denoted description.  For every well-formed
   tree the parser returns exactly the denotation.  Totality clause: for ANY string the parsers return a
   definition or raise ValueError. *)
From Coq Require Import ZArith NArith List Bool.
From SV Require Import Gen.Sharing Base.Py Rx.Syntax Rx.Lemmas Gen.Generated Schema.Model Schema.Total
  Schema.GMatch Schema.GChain Schema.GObjectClass Schema.GAttributeType Schema.GDitContentRule Schema.GWfDec.
Import ListNotations.

Theorem C17_object_class_sentences :
  forall c, oc_cst_wf c -> oc_from_string (oc_sentence c) = Ok (oc_denote c).
Proof. exact oc_grammar. Qed.

Theorem C17_attribute_type_sentences :
  forall c, at_cst_wf c -> at_from_string (at_sentence c) = Ok (at_denote c).
Proof. exact at_grammar. Qed.

Theorem C17_dit_content_rule_sentences :
  forall c, dcr_cst_wf c -> dcr_from_string (dcr_sentence c) = Ok (dcr_denote c).
Proof. exact dcr_grammar. Qed.

(* the same from the executable conditions the check evaluates on generated trees *)
Theorem C17_sentences_executable_conditions :
  (forall c, oc_cst_b c = true -> oc_from_string (oc_sentence c) = Ok (oc_denote c)) /\
  (forall c, at_cst_b c = true -> at_from_string (at_sentence c) = Ok (at_denote c)) /\
  (forall c, dcr_cst_b c = true -> dcr_from_string (dcr_sentence c) = Ok (dcr_denote c)).
Proof. exact (conj oc_grammar_b (conj at_grammar_b dcr_grammar_b)). Qed.

(* totality: for input outside the grammar - for any input at all - a definition or ValueError, nothing else *)
Theorem C17_object_class_total : forall s, benign (oc_from_string s).
Proof. exact oc_from_string_total. Qed.
Theorem C17_attribute_type_total : forall s, benign (at_from_string s).
Proof. exact at_from_string_total. Qed.
Theorem C17_dit_content_rule_total : forall s, benign (dcr_from_string s).
Proof. exact dcr_from_string_total. Qed.

(* the matcher never runs out of steps, whatever the pattern and the input *)
Theorem C17_matcher_never_exhausts_fuel :
  forall r e s, re_match r e s <> BFuel.
Proof. exact re_match_total. Qed.

Theorem C17_mandatory_groups_are_captured :
  forall r e s p cs i, re_match r e s = BYes p cs -> must_capture i r = true -> exists se, cap_lookup i cs = Some se.
Proof. exact re_match_captures. Qed.

(* non-vacuity: a sentence with unusual spacing, an upper-case escape and the kind left out *)
Example C17_example :
  oc_cst_wf (mkOCc (mkHead 2%nat [50; 46; 53]%N (Some (0%nat, 2%nat, QParen 1%nat [99; 110]%N [(1%nat, [111]%N)] 0%nat))
                           (Some (1%nat, 0%nat, [DPlain 97%N; DBslUpper; DQuote])) None)
                   (Some (0%nat, 0%nat, OParen 0%nat [116; 111; 112]%N [(2%nat, 0%nat, [49; 46; 50]%N)] 1%nat)) None None
                   (Some (0%nat, 1%nat, OBare [99; 110]%N))
                   [mkExt 0%nat [102; 111; 111]%N 2%nat (SParen 0%nat [DPlain 98%N] [(1%nat, [DBslLower])] 2%nat); mkExt 1%nat [98]%N 0%nat (SEmpty 3%nat)] 0%nat).
Proof. exact oc_cst_example_wf. Qed.

(* The theorems above are about functions and values; that schema.py keeps no state
   between calls and shares none between objects is read off the source by tools/audit.py on every run
   (Gen/Sharing.v): no memoisation, no module- or class-level container that is written, no mutable default, no
   attribute written behind a dataclass, no parameter stored without a copy. *)
Theorem C17_audit_no_state_between_calls : (hidden_state_schema = [])%list.
Proof. exact eq_refl. Qed.

Print Assumptions C17_object_class_sentences.
Print Assumptions C17_attribute_type_sentences.
Print Assumptions C17_dit_content_rule_sentences.
Print Assumptions C17_sentences_executable_conditions.
Print Assumptions C17_object_class_total.
Print Assumptions C17_attribute_type_total.
Print Assumptions C17_dit_content_rule_total.
Print Assumptions C17_matcher_never_exhausts_fuel.
Print Assumptions C17_mandatory_groups_are_captured.
Print Assumptions C17_audit_no_state_between_calls.
