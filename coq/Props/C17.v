(* C17 -- schema text is parsed as RFC 4512 defines it: the totality clause (partial; the grammar
   clause is decided by the reference-parser check only). *)
From Coq Require Import ZArith NArith List Bool.
From SV Require Import Base.Py Rx.Syntax Rx.Lemmas Gen.Generated Schema.Model Schema.Total.
Import ListNotations.

(* For ANY string each of the three parsers returns a definition or raises ValueError, nothing else:
   the matcher never exhausts its steps on any pattern and input (general theorem), re.sub always
   answers, the extension loops make progress, the groups the code indexes are always captured. *)
Theorem C17_partial_object_class_total : forall s, benign (oc_from_string s).
Proof. exact oc_from_string_total. Qed.
Theorem C17_partial_attribute_type_total : forall s, benign (at_from_string s).
Proof. exact at_from_string_total. Qed.
Theorem C17_partial_dit_content_rule_total : forall s, benign (dcr_from_string s).
Proof. exact dcr_from_string_total. Qed.

(* the general facts about the regular-expression engine of the model *)
Theorem C17_matcher_never_exhausts_its_steps : forall r e s, re_match r e s <> BFuel.
Proof. exact re_match_total. Qed.
Theorem C17_mandatory_groups_are_captured :
  forall r e s p cs i, re_match r e s = BYes p cs -> must_capture i r = true -> exists se, cap_lookup i cs = Some se.
Proof. exact re_match_captures. Qed.

Print Assumptions C17_partial_object_class_total.
Print Assumptions C17_partial_attribute_type_total.
Print Assumptions C17_partial_dit_content_rule_total.
Print Assumptions C17_matcher_never_exhausts_its_steps.
Print Assumptions C17_mandatory_groups_are_captured.
