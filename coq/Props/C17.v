(* C17 -- statement file *)
From SV Require Import Schema.Model.
