(* C18 -- parsing cost grows polynomially with input size.  PARTIAL: what is proved bounds the number of
   iterations of every hand-written loop and the depth of the matcher's recursion by the size of the
   input; the number of steps of the backtracking matcher (the time of one regular-expression match) is
   NOT bounded by any theorem here - that part of the property is decided by a timing experiment only.

   Every loop of the model runs on explicit fuel, and the fuel the model hands to a loop is the length of
   what it scans plus one (parse_loop (S (length input)), ext_loop (S (length s)), the filter loops get
   the remaining length, bt gets (length s + 2) * (size of the pattern + 2)).  "The loop never reports
   OutOfFuel" therefore says: it stops within that many iterations, for every input. *)
From Coq Require Import ZArith NArith List Bool.
From SV Require Import Base.Py Rx.Syntax Rx.Lemmas Gen.Generated Sess.Model Sess.Total Filt.Text Filt.Total Schema.Model Schema.Total.
Import ListNotations.

(* receive: the message loop over the buffer stops within length(buffer)+1 rounds in every reachable state *)
Theorem C18_partial_receive_loop_is_linear :
  forall d s data s' o, good s -> receive d s data = (s', o) ->
  (exists ms, o = ORetMsgs ms) \/ (exists p, o = OProtoErr p).
Proof. exact receive_total. Qed.

(* the filter parser: the loops over filter items, substring parts and escapes stop within the remaining length *)
Theorem C18_partial_filter_loops_are_linear :
  forall d s, match from_string d s with FOk _ | FErr (FSyn _ _) => True | FErr (FCrash _) => False end.
Proof. exact from_string_total. Qed.

(* the schema parsers: the extension loops and the re.sub scans stop within the length of the text *)
Theorem C18_partial_schema_loops_are_linear :
  (forall s, benign (oc_from_string s)) /\ (forall s, benign (at_from_string s)) /\ (forall s, benign (dcr_from_string s)).
Proof. exact (conj oc_from_string_total (conj at_from_string_total dcr_from_string_total)). Qed.

(* the matcher: along every chain of nested calls the input shrinks or the pattern does, so the recursion is never
   deeper than size(pattern) + length(input) - for EVERY pattern.  (Depth, not the number of calls.) *)
Theorem C18_partial_matcher_depth_is_linear :
  forall fuel r s pos cs k,
  (rsize r + length s < fuel)%nat ->
  (forall s1 p1 c1, (length s1 <= length s)%nat -> (p1 + length s1 = pos + length s)%nat -> k s1 p1 c1 <> BFuel) ->
  bt fuel r s pos cs k <> BFuel.
Proof. exact bt_no_fuel. Qed.

Print Assumptions C18_partial_receive_loop_is_linear.
Print Assumptions C18_partial_filter_loops_are_linear.
Print Assumptions C18_partial_schema_loops_are_linear.
Print Assumptions C18_partial_matcher_depth_is_linear.
