(* C18 -- statement file *)
From SV Require Import Rx.Syntax.
