(* C19 -- sessions are isolated; custom types take effect per session only.
   Two parts.  (1) Isolation: in the model any interleaving of two sessions' calls gives each exactly what
   it gets alone - true by construction of a pure model, so it documents the model; whether Python objects
   share state is decided by the interleaved-vs-alone experiment of the check.  (2) Registration: the
   per-session lists of known control / filter / credential types are modelled (Sess/Registry.v) and compared
   with the implementation on every generated history; the theorems below are about that model. *)
From Coq Require Import ZArith NArith List Bool.
From SV Require Import Base.Py Gen.Generated Msg.Types Sess.Model Sess.Isolation Sess.Registry Sess.RegistryProofs.
Import ListNotations.

Theorem C19_model_sessions_do_not_interact :
  forall d sched a b,
  let '(a', b', os) := run_pair d a b sched in
  run d a (side true sched) = (a', side true os) /\ run d b (side false sched) = (b', side false os).
Proof. exact interleaving_is_unobservable. Qed.

(* A successful registration makes exactly that session decode the type with the registered class and changes
   the treatment of no other type. *)
Theorem C19_registration_takes_effect :
  forall k i cls r r', reg_add k i cls r = Ok r' ->
  reg_decodes k i r' = Some cls /\ (forall k2 i2, (k2, i2) <> (k, i) -> reg_decodes k2 i2 r' = reg_decodes k2 i2 r).
Proof. exact reg_add_effect. Qed.

(* A duplicate registration - same class or another class for the same id, or an id a built-in type has - is
   rejected with ValueError. *)
Theorem C19_duplicate_registration_is_rejected :
  (forall k i cls r, reg_decodes k i r <> None -> reg_add k i cls r = Raise ValueErr) /\
  (forall k i cls cls2 r r', reg_add k i cls r = Ok r' -> reg_add k i cls2 r' = Raise ValueErr).
Proof. exact (conj reg_add_taken reg_add_twice). Qed.

(* Whatever is registered later, the class registered first keeps decoding its id ... *)
Theorem C19_first_registration_wins :
  forall ops k i cls r, reg_decodes k i r = Some cls -> reg_decodes k i (snd (reg_run ops r)) = Some cls.
Proof. exact reg_first_wins. Qed.

(* ... and a session that never registered an id that is not built in treats it as an unknown type, whatever else
   it (or, trivially, any other session) registered. *)
Theorem C19_unregistered_type_stays_unknown :
  forall ops k i r, reg_decodes k i r = None -> (forall c, ~ In (k, i, c) ops) -> reg_decodes k i (snd (reg_run ops r)) = None.
Proof. exact reg_unknown_stays_unknown. Qed.

(* non-vacuity: built-in ids are taken in a fresh session, a new id can be registered *)
Example C19_example :
  reg_add RControl (bytes_id oid_paged) [67%N] reg_init = Raise ValueErr /\ reg_add RFilter [7%N] [70%N] reg_init = Raise ValueErr /\
  reg_add RAuth [0%N] [65%N] reg_init = Raise ValueErr /\ exists r, reg_add RFilter [1024%N] [70%N] reg_init = Ok r.
Proof. exact builtin_taken. Qed.

Print Assumptions C19_model_sessions_do_not_interact.
Print Assumptions C19_registration_takes_effect.
Print Assumptions C19_duplicate_registration_is_rejected.
Print Assumptions C19_first_registration_wins.
Print Assumptions C19_unregistered_type_stays_unknown.
