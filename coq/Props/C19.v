(* C19 -- statement file *)
From SV Require Import Sess.Model.
