(* C19 -- sessions are isolated; custom types take effect per session only.
   Two parts.  (1) Isolation: in the model any interleaving of two sessions' calls gives each exactly what
   it gets alone - true by construction of a pure model, so it documents the model; whether Python objects
   share state is decided by the interleaved-vs-alone experiment of the check.  (2) Registration: the
   per-session lists of known control / filter / credential types are modelled (Sess/Registry.v) and compared
   with the implementation on every generated history; the theorems below are about that model. *)
From Coq Require Import ZArith NArith List Bool.
From SV Require Import Base.Py Gen.Generated Gen.Sharing Msg.Types Sess.Model Sess.Isolation Sess.Registry Sess.RegistryProofs Sess.Sharing.
Import ListNotations.

Theorem C19_model_sessions_do_not_interact :
  forall d sched a b,
  let '(a', b', os) := run_pair d a b sched in
  run d a (side true sched) = (a', side true os) /\ run d b (side false sched) = (b', side false os).
Proof. exact interleaving_is_unobservable. Qed.

(* A successful registration makes exactly that session decode the type with the registered class and changes
   the treatment of no other type. *)
Theorem C19_registration_takes_effect :
  forall k i cls r r', reg_add k i cls r = Ok r' ->
  reg_decodes k i r' = Some cls /\ (forall k2 i2, (k2, i2) <> (k, i) -> reg_decodes k2 i2 r' = reg_decodes k2 i2 r).
Proof. exact reg_add_effect. Qed.

(* A duplicate registration - same class or another class for the same id, or an id a built-in type has - is
   rejected with ValueError. *)
Theorem C19_duplicate_registration_is_rejected :
  (forall k i cls r, reg_decodes k i r <> None -> reg_add k i cls r = Raise ValueErr) /\
  (forall k i cls cls2 r r', reg_add k i cls r = Ok r' -> reg_add k i cls2 r' = Raise ValueErr).
Proof. exact (conj reg_add_taken reg_add_twice). Qed.

(* Whatever is registered later, the class registered first keeps decoding its id ... *)
Theorem C19_first_registration_wins :
  forall ops k i cls r, reg_decodes k i r = Some cls -> reg_decodes k i (snd (reg_run ops r)) = Some cls.
Proof. exact reg_first_wins. Qed.

(* ... and a session that never registered an id that is not built in treats it as an unknown type, whatever else
   it (or, trivially, any other session) registered. *)
Theorem C19_unregistered_type_stays_unknown :
  forall ops k i r, reg_decodes k i r = None -> (forall c, ~ In (k, i, c) ops) -> reg_decodes k i (snd (reg_run ops r)) = None.
Proof. exact reg_unknown_stays_unknown. Qed.

(* The object graph.  Whether two sessions can see each other's registrations is decided where the lists are
   created.  Sess/Sharing.v puts the lists in a store, sessions hold locations; [new_sessions fresh] creates sessions
   the way the source does according to tools/audit.py (Gen/Sharing.v, regenerated on every run): every `choices`
   field is a default_factory building a new list, LDAPSession.__init__ constructs its own options objects,
   register_* appends to self._packing_options.<..>.choices and writes nothing else. *)
Theorem C19_audit_registries_built_per_session : choice_lists_fresh = true.
Proof. exact eq_refl. Qed.

(* Then, for any number of sessions created one after the other and ANY interleaving of registrations and look-ups,
   every session observes exactly what it observes alone on a fresh session ... *)
Theorem C19_sessions_isolated_in_the_object_graph :
  forall n sched st ls who,
  new_sessions choice_lists_fresh n [] = (st, ls) -> who < n ->
  mine who (run_store ls sched st) = run_alone (mine who sched) reg_init.
Proof. exact current_sessions_are_isolated. Qed.

(* ... which is a fact about the creation of the lists, not a tautology of the model: with one shared list a
   look-up by session 1 sees the registration of session 0. *)
Theorem C19_a_shared_list_would_interfere :
  exists sched st ls, new_sessions false 2 [] = (st, ls) /\ mine 1 (run_store ls sched st) <> run_alone (mine 1 sched) reg_init.
Proof. exact shared_list_is_not_isolated. Qed.

(* Nothing else in the package keeps state between calls or shares it between objects (same audit). *)
Theorem C19_audit_no_state_outside_the_sessions :
  (hidden_state_asn1 ++ hidden_state_authentication ++ hidden_state_controls ++ hidden_state_filter ++
   hidden_state_messages ++ hidden_state_session ++ hidden_state_schema = [])%list.
Proof. exact eq_refl. Qed.

(* non-vacuity: built-in ids are taken in a fresh session, a new id can be registered *)
Example C19_example :
  reg_add RControl (bytes_id oid_paged) [67%N] reg_init = Raise ValueErr /\ reg_add RFilter [7%N] [70%N] reg_init = Raise ValueErr /\
  reg_add RAuth [0%N] [65%N] reg_init = Raise ValueErr /\ exists r, reg_add RFilter [1024%N] [70%N] reg_init = Ok r.
Proof. exact builtin_taken. Qed.

Print Assumptions C19_model_sessions_do_not_interact.
Print Assumptions C19_registration_takes_effect.
Print Assumptions C19_duplicate_registration_is_rejected.
Print Assumptions C19_first_registration_wins.
Print Assumptions C19_unregistered_type_stays_unknown.
Print Assumptions C19_audit_registries_built_per_session.
Print Assumptions C19_sessions_isolated_in_the_object_graph.
Print Assumptions C19_a_shared_list_would_interfere.
Print Assumptions C19_audit_no_state_outside_the_sessions.
