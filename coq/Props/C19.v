(* C19 -- sessions are isolated (the part a pure model can state; see Sess/Isolation.v). *)
From Coq Require Import ZArith List Bool.
From SV Require Import Base.Py Msg.Types Sess.Model Sess.Isolation.
Import ListNotations.

(* Any interleaving of the call sequences of two sessions gives each session exactly the outcomes,
   the final state and (inside the state) the pending bytes it gets when run alone.  In the model this
   holds by construction; the property's content -- no state shared between Python objects, custom
   type registration per session -- is decided by the interleaved-vs-alone experiment of the check. *)
Theorem C19_model_sessions_do_not_interact :
  forall d sched a b,
  let '(a', b', os) := run_pair d a b sched in
  run d a (side true sched) = (a', side true os) /\ run d b (side false sched) = (b', side false os).
Proof. exact interleaving_is_unobservable. Qed.

Print Assumptions C19_model_sessions_do_not_interact.
