(* A fuel-free equational theory of the backtracking matcher.  [BT r s pos cs k] is [bt] run with the
   canonical amount of fuel; it satisfies the recursion equations one would write without fuel, so the
   pattern-specific proofs never mention fuel. *)
From Coq Require Import NArith List Bool Arith Lia.
From SV Require Import Rx.Syntax Rx.Lemmas.
Import ListNotations.

Definition cont := list N -> nat -> caps -> bres.

(* fuel is irrelevant above (size + length): two runs with enough fuel and continuations that agree on
   the inputs they can be called with give the same answer *)
Lemma bt_irrel : forall f f' r s pos cs (k k' : cont),
  (rsize r + length s < f)%nat -> (rsize r + length s < f')%nat ->
  (forall s1 p1 c1, (length s1 <= length s)%nat -> (p1 + length s1 = pos + length s)%nat -> k s1 p1 c1 = k' s1 p1 c1) ->
  bt f r s pos cs k = bt f' r s pos cs k'.
Proof.
  induction f as [|f IH]; intros f' r s pos cs k k' Hf Hf' Hk; [lia|].
  destruct f' as [|f']; [lia|].
  destruct r as [| |neg rs|a b|a b|a|i a]; cbn [bt rsize] in *.
  - reflexivity.
  - apply Hk; lia.
  - destruct s as [|c s']; [reflexivity|]. destruct (chr_ok neg rs c); [|reflexivity]. apply Hk; cbn [length]; lia.
  - apply IH; [lia|lia|]. intros s1 p1 c1 H1 H2. apply IH; [lia|lia|]. intros s2 p2 c2 H3 H4. apply Hk; lia.
  - rewrite (IH f' a s pos cs k k') by (lia || assumption).
    destruct (bt f' a s pos cs k'); try reflexivity. apply IH; [lia|lia|assumption].
  - assert (E : bt f a s pos cs (fun s1 p1 c1 => if Nat.eqb p1 pos then BNo else bt f (Star a) s1 p1 c1 k)
              = bt f' a s pos cs (fun s1 p1 c1 => if Nat.eqb p1 pos then BNo else bt f' (Star a) s1 p1 c1 k')).
    { apply IH; [lia|lia|]. intros s1 p1 c1 H1 H2. destruct (Nat.eqb p1 pos) eqn:Ep; [reflexivity|]. apply Nat.eqb_neq in Ep.
      apply IH; [cbn [rsize]; lia|cbn [rsize]; lia|]. intros s2 p2 c2 H3 H4. apply Hk; lia. }
    rewrite E. destruct (bt f' a s pos cs _); try reflexivity. apply Hk; lia.
  - apply IH; [lia|lia|]. intros s1 p1 c1 H1 H2. now rewrite Hk.
Qed.

Definition BT (r : rx) (s : list N) (pos : nat) (cs : caps) (k : cont) : bres :=
  bt (S (rsize r + length s)) r s pos cs k.

Lemma BT_bt f r s pos cs k : (rsize r + length s < f)%nat -> bt f r s pos cs k = BT r s pos cs k.
Proof. intros H. unfold BT. apply bt_irrel; [assumption|lia|reflexivity]. Qed.

(* pattern.match *)
Lemma re_match_BT r e s :
  re_match r e s = BT r s 0 []
     (fun rest p cs =>
        match e with
        | NoEnd => BYes p cs
        | EndZ => match rest with [] => BYes p cs | _ => BNo end
        | EndDollar => match rest with [] | [10%N] => BYes p cs | _ => BNo end
        end).
Proof. unfold re_match. apply BT_bt. apply bt_fuel_enough. Qed.

(* ---- the recursion equations *)
Lemma BT_nul s pos cs k : BT Nul s pos cs k = BNo.
Proof. reflexivity. Qed.
Lemma BT_eps s pos cs k : BT Eps s pos cs k = k s pos cs.
Proof. reflexivity. Qed.
Lemma BT_chr_nil neg rs pos cs k : BT (Chr neg rs) [] pos cs k = BNo.
Proof. reflexivity. Qed.
Lemma BT_chr neg rs c s pos cs k : BT (Chr neg rs) (c :: s) pos cs k = if chr_ok neg rs c then k s (S pos) cs else BNo.
Proof. reflexivity. Qed.

Lemma BT_cat a b s pos cs k :
  BT (Cat a b) s pos cs k = BT a s pos cs (fun s1 p1 c1 => BT b s1 p1 c1 k).
Proof.
  unfold BT at 1. cbn [bt rsize]. unfold BT at 1. apply bt_irrel; [lia|lia|].
  intros s1 p1 c1 H1 H2. apply BT_bt. lia.
Qed.

Lemma BT_alt a b s pos cs k :
  BT (Alt a b) s pos cs k = match BT a s pos cs k with BNo => BT b s pos cs k | res => res end.
Proof.
  unfold BT at 1. cbn [bt rsize]. rewrite (BT_bt _ a) by lia. rewrite (BT_bt _ b) by lia. reflexivity.
Qed.

Lemma BT_star a s pos cs k :
  BT (Star a) s pos cs k =
  match BT a s pos cs (fun s1 p1 c1 => if Nat.eqb p1 pos then BNo else BT (Star a) s1 p1 c1 k) with
  | BNo => k s pos cs
  | res => res
  end.
Proof.
  unfold BT at 1. cbn [bt rsize].
  assert (E : bt (rsize a + length s + 1) a s pos cs
                (fun s1 p1 c1 => if Nat.eqb p1 pos then BNo else bt (rsize a + length s + 1) (Star a) s1 p1 c1 k)
              = BT a s pos cs (fun s1 p1 c1 => if Nat.eqb p1 pos then BNo else BT (Star a) s1 p1 c1 k)).
  { unfold BT at 1. apply bt_irrel; [lia|lia|]. intros s1 p1 c1 H1 H2.
    destruct (Nat.eqb p1 pos) eqn:Ep; [reflexivity|]. apply Nat.eqb_neq in Ep. apply BT_bt. cbn [rsize]. lia. }
  replace (S (rsize a) + length s)%nat with (rsize a + length s + 1)%nat by lia. rewrite E. reflexivity.
Qed.

Lemma BT_group i a s pos cs k :
  BT (Group i a) s pos cs k = BT a s pos cs (fun s1 p1 c1 => k s1 p1 ((i, (pos, p1)) :: c1)).
Proof.
  unfold BT at 1. cbn [bt rsize]. unfold BT. apply bt_irrel; [lia|lia|reflexivity].
Qed.

(* continuations that agree give the same answer (extensionality on reachable inputs is not needed
   once fuel is out of the way) *)
Lemma BT_ext r s pos cs (k k' : cont) : (forall s1 p1 c1, k s1 p1 c1 = k' s1 p1 c1) -> BT r s pos cs k = BT r s pos cs k'.
Proof. intros H. unfold BT. apply bt_irrel; [lia|lia|]. intros; apply H. Qed.

(* ---- what a pattern can start with *)
Fixpoint first (r : rx) (x : N) : bool :=
  match r with
  | Nul | Eps => false
  | Chr neg rs => chr_ok neg rs x
  | Cat a b => first a x || (nullable a && first b x)
  | Alt a b => first a x || first b x
  | Star a | Group _ a => first a x
  end.
Definition first_in (r : rx) (s : list N) : bool := match s with [] => false | x :: _ => first r x end.

(* a pattern that cannot start with the next character and cannot match the empty word fails;
   one that can match the empty word fails if its continuation fails right here *)
Lemma BT_reject : forall r s pos cs k,
  first_in r s = false ->
  (nullable r = false \/ forall c1, k s pos c1 = BNo) ->
  BT r s pos cs k = BNo.
Proof.
  induction r as [| |neg rs|a IHa b IHb|a IHa b IHb|a IHa|i a IHa]; intros s pos cs k Hf Hk.
  - reflexivity.
  - rewrite BT_eps. destruct Hk as [Hk|Hk]; [discriminate|apply Hk].
  - destruct s as [|x s']; [reflexivity|]. rewrite BT_chr. cbn [first_in first] in Hf. now rewrite Hf.
  - rewrite BT_cat. cbn [nullable] in Hk.
    assert (Hfa : first_in a s = false).
    { destruct s as [|x s']; [reflexivity|]. cbn [first_in first] in *. apply orb_false_iff in Hf. tauto. }
    destruct (nullable a) eqn:Na.
    + assert (Hfb : first_in b s = false).
      { destruct s as [|x s']; [reflexivity|]. cbn [first_in first] in *. rewrite Na in Hf. apply orb_false_iff in Hf. tauto. }
      apply IHa; [assumption|]. right. intros c1. apply IHb; [assumption|].
      destruct Hk as [Hk|Hk]; [left; now destruct (nullable b)|right; exact Hk].
    + apply IHa; [assumption|now left].
  - rewrite BT_alt. cbn [nullable] in Hk.
    assert (Hfa : first_in a s = false /\ first_in b s = false).
    { destruct s as [|x s']; [split; reflexivity|]. cbn [first_in first] in *. apply orb_false_iff in Hf. exact Hf. }
    destruct Hfa as [Hfa Hfb].
    rewrite IHa; [apply IHb; [assumption|]|assumption|].
    + destruct Hk as [Hk|Hk]; [left; now apply orb_false_iff in Hk|now right].
    + destruct Hk as [Hk|Hk]; [left; now apply orb_false_iff in Hk|now right].
  - rewrite BT_star. destruct Hk as [Hk|Hk]; [discriminate|].
    rewrite IHa.
    + apply Hk.
    + destruct s; [reflexivity|exact Hf].
    + right. intros c1. now rewrite Nat.eqb_refl.
  - rewrite BT_group. apply IHa; [destruct s; [reflexivity|exact Hf]|].
    destruct Hk as [Hk|Hk]; [now left|right; intros c1; apply Hk].
Qed.

(* an optional element "( ... )?" = Alt (...) Eps whose body cannot start here is skipped *)
Lemma BT_opt_skip a s pos cs k :
  first_in a s = false -> nullable a = false -> BT (Alt a Eps) s pos cs k = k s pos cs.
Proof. intros Hf Hn. rewrite BT_alt, BT_reject by auto. apply BT_eps. Qed.

(* ---- greedy repetition of a character class *)
Lemma BT_star_class neg rs : forall w rest pos cs k,
  Forall (fun c => chr_ok neg rs c = true) w ->
  (match rest with [] => True | c :: _ => chr_ok neg rs c = false end) ->
  (forall j, (j < length w)%nat -> k (skipn j w ++ rest) (pos + j)%nat cs = BNo) ->
  BT (Star (Chr neg rs)) (w ++ rest) pos cs k = k rest (pos + length w)%nat cs.
Proof.
  induction w as [|c w IH]; intros rest pos cs k Hw Hr Hk.
  - cbn [app length]. rewrite Nat.add_0_r, BT_star.
    destruct rest as [|x rest']; [reflexivity|]. rewrite BT_chr, Hr. reflexivity.
  - inversion Hw as [|? ? Hc Hw']; subst. cbn [app]. rewrite BT_star, BT_chr, Hc.
    assert (Ep : Nat.eqb (S pos) pos = false) by (apply Nat.eqb_neq; lia). rewrite Ep.
    rewrite IH; [|assumption|assumption|].
    + replace (S pos + length w)%nat with (pos + length (c :: w))%nat by (cbn [length]; lia).
      destruct (k rest (pos + length (c :: w))%nat cs) eqn:E; try reflexivity.
      specialize (Hk 0%nat ltac:(cbn [length]; lia)). cbn [skipn app] in Hk. rewrite Nat.add_0_r in Hk. exact Hk.
    + intros j Hj. specialize (Hk (S j) ltac:(cbn [length]; lia)). cbn [skipn] in Hk.
      replace (S pos + j)%nat with (pos + S j)%nat by lia. exact Hk.
Qed.

(* ---- greedy repetition of a body that consumes one item at a time *)
Fixpoint fold_caps (F : list N -> nat -> caps -> caps) (its : list (list N)) (pos : nat) (cs : caps) : caps :=
  match its with
  | [] => cs
  | it :: r => fold_caps F r (pos + length it) (F it pos cs)
  end.

(* each item is consumed exactly by one iteration of the body, given what follows it *)
Fixpoint items_ok (a : rx) (F : list N -> nat -> caps -> caps) (Pk : cont -> Prop) (rest : list N) (its : list (list N)) : Prop :=
  match its with
  | [] => True
  | it :: r =>
      it <> [] /\
      (forall p c k', Pk k' -> BT a (it ++ concat r ++ rest) p c k' = k' (concat r ++ rest) (p + length it)%nat (F it p c)) /\
      items_ok a F Pk rest r
  end.

Lemma BT_star_items (a : rx) (F : list N -> nat -> caps -> caps) (Pk : cont -> Prop) :
  forall its rest pos cs (k : cont),
  items_ok a F Pk rest its ->
  (forall p c k', BT a rest p c k' = BNo) ->
  (forall p0, Pk (fun s1 p1 c1 => if Nat.eqb p1 p0 then BNo else BT (Star a) s1 p1 c1 k)) ->
  (forall i, (i < length its)%nat -> forall p c, k (concat (skipn i its) ++ rest) p c = BNo) ->
  BT (Star a) (concat its ++ rest) pos cs k = k rest (pos + length (concat its))%nat (fold_caps F its pos cs).
Proof.
  induction its as [|it its IH]; intros rest pos cs k Hit Hrest Hloop Hk.
  - cbn [concat app length fold_caps]. rewrite Nat.add_0_r, BT_star, Hrest. reflexivity.
  - destruct Hit as (Hne & Hbody & Hits).
    cbn [concat fold_caps]. rewrite <- app_assoc, BT_star, Hbody by apply Hloop.
    assert (Ep : Nat.eqb (pos + length it) pos = false).
    { apply Nat.eqb_neq. destruct it; [congruence|cbn [length]; lia]. }
    rewrite Ep. rewrite IH; [|assumption|assumption|assumption|].
    + rewrite app_length. replace (pos + length it + length (concat its))%nat with (pos + (length it + length (concat its)))%nat by lia.
      destruct (k rest _ _) eqn:E; try reflexivity.
      specialize (Hk 0%nat ltac:(cbn [length]; lia) pos cs). cbn [skipn concat] in Hk. rewrite <- app_assoc in Hk. exact Hk.
    + intros i Hi p c. exact (Hk (S i) ltac:(cbn [length]; lia) p c).
Qed.

(* ---- bookkeeping of capture groups *)
Definition only_touches (lo hi : nat) (cs cs' : caps) : Prop :=
  forall i, (i < lo \/ hi < i)%nat -> cap_lookup i cs' = cap_lookup i cs.

Lemma only_touches_refl lo hi cs : only_touches lo hi cs cs.
Proof. intros i _. reflexivity. Qed.
Lemma only_touches_trans lo hi a b c : only_touches lo hi a b -> only_touches lo hi b c -> only_touches lo hi a c.
Proof. intros H1 H2 i Hi. now rewrite H2, H1. Qed.
Lemma only_touches_wider lo hi lo' hi' a b : (lo' <= lo)%nat -> (hi <= hi')%nat -> only_touches lo hi a b -> only_touches lo' hi' a b.
Proof. intros H1 H2 H i Hi. apply H. lia. Qed.
Lemma only_touches_push lo hi g se cs : (lo <= g <= hi)%nat -> only_touches lo hi cs ((g, se) :: cs).
Proof. intros H i Hi. cbn [cap_lookup]. destruct (Nat.eqb_spec i g); [lia|reflexivity]. Qed.
Lemma cap_lookup_push g se cs : cap_lookup g ((g, se) :: cs) = Some se.
Proof. cbn [cap_lookup]. now rewrite Nat.eqb_refl. Qed.

(* ---- success-directed steps.  [eats r t rest pos cs k lo hi]: provided the continuation accepts after
   [t] whatever was captured, the pattern run on [t ++ rest] hands exactly [rest] to it, having changed
   only capture groups lo..hi.  (The equation need not hold when the continuation refuses, because the
   matcher then goes on to try shorter alternatives; a successful parse never needs that case.) *)
Definition eats (r : rx) (t rest : list N) (pos : nat) (cs : caps) (k : cont) (lo hi : nat) : Prop :=
  (forall c', k rest (pos + length t)%nat c' <> BNo) ->
  exists cs', only_touches lo hi cs cs' /\ BT r (t ++ rest) pos cs k = k rest (pos + length t)%nat cs'.

Lemma eats_eq r t rest pos cs k lo hi cs' :
  only_touches lo hi cs cs' -> BT r (t ++ rest) pos cs k = k rest (pos + length t)%nat cs' -> eats r t rest pos cs k lo hi.
Proof. intros T E _. now exists cs'. Qed.

Lemma eats_wider r t rest pos cs k lo hi lo' hi' :
  (lo' <= lo)%nat -> (hi <= hi')%nat -> eats r t rest pos cs k lo hi -> eats r t rest pos cs k lo' hi'.
Proof. intros H1 H2 E Hk. destruct (E Hk) as (c & T & Eq). exists c. split; [now apply (only_touches_wider lo hi)|exact Eq]. Qed.

Lemma eats_nil_eps rest pos cs k lo hi : eats Eps [] rest pos cs k lo hi.
Proof. intros _. exists cs. split; [apply only_touches_refl|]. cbn [app length]. now rewrite Nat.add_0_r, BT_eps. Qed.

Lemma eats_cat a b t1 t2 rest pos cs k lo hi :
  eats a t1 (t2 ++ rest) pos cs (fun s1 p1 c1 => BT b s1 p1 c1 k) lo hi ->
  (forall c1, eats b t2 rest (pos + length t1) c1 k lo hi) ->
  eats (Cat a b) (t1 ++ t2) rest pos cs k lo hi.
Proof.
  intros Ha Hb Hk. rewrite app_length, Nat.add_assoc in *.
  destruct Ha as (c1 & T1 & E1).
  { intros c'. destruct (Hb c' Hk) as (c2 & _ & E2). rewrite E2. apply Hk. }
  destruct (Hb c1 Hk) as (c2 & T2 & E2).
  exists c2. split; [now apply (only_touches_trans lo hi cs c1 c2)|].
  rewrite BT_cat, <- app_assoc, E1. exact E2.
Qed.

Lemma eats_alt_l a b t rest pos cs k lo hi : eats a t rest pos cs k lo hi -> eats (Alt a b) t rest pos cs k lo hi.
Proof.
  intros Ha Hk. destruct (Ha Hk) as (c & T & E). exists c. split; [exact T|].
  rewrite BT_alt, E. destruct (k rest (pos + length t)%nat c) eqn:Ek; try reflexivity. now apply Hk in Ek.
Qed.

Lemma eats_alt_r a b t rest pos cs k lo hi :
  BT a (t ++ rest) pos cs k = BNo -> eats b t rest pos cs k lo hi -> eats (Alt a b) t rest pos cs k lo hi.
Proof. intros Ha Hb Hk. destruct (Hb Hk) as (c & T & E). exists c. split; [exact T|]. now rewrite BT_alt, Ha. Qed.

(* a group: the new capture sits on top of what the body captured *)
Lemma eats_group_top g a t rest pos cs k lo hi :
  eats a t rest pos cs (fun s1 p1 c1 => k s1 p1 ((g, (pos, p1)) :: c1)) lo hi ->
  (forall c', k rest (pos + length t)%nat c' <> BNo) ->
  exists cs', only_touches lo hi cs cs' /\
     BT (Group g a) (t ++ rest) pos cs k = k rest (pos + length t)%nat ((g, (pos, (pos + length t)%nat)) :: cs').
Proof.
  intros Ha Hk. destruct Ha as (c & T & E); [intros c'; apply Hk|]. exists c. split; [exact T|]. now rewrite BT_group.
Qed.

Lemma eats_group g a t rest pos cs k lo hi :
  (lo <= g <= hi)%nat ->
  eats a t rest pos cs (fun s1 p1 c1 => k s1 p1 ((g, (pos, p1)) :: c1)) lo hi ->
  eats (Group g a) t rest pos cs k lo hi.
Proof.
  intros Hg Ha Hk. destruct (eats_group_top g a t rest pos cs k lo hi Ha Hk) as (c & T & E).
  eexists. split; [|exact E]. eapply only_touches_trans; [exact T|now apply only_touches_push].
Qed.

(* an optional part that is present / absent *)
Lemma eats_opt_some a t rest pos cs k lo hi : eats a t rest pos cs k lo hi -> eats (Alt a Eps) t rest pos cs k lo hi.
Proof. apply eats_alt_l. Qed.

Lemma BT_opt_none a s pos cs k : (forall k', BT a s pos cs k' = BNo) -> BT (Alt a Eps) s pos cs k = k s pos cs.
Proof. intros H. now rewrite BT_alt, H, BT_eps. Qed.

(* greedy repetition, success-directed: the items are eaten one per iteration, the body fails on what follows *)
Fixpoint items_eat (a : rx) (lo hi : nat) (Pk : cont -> Prop) (rest : list N) (its : list (list N)) : Prop :=
  match its with
  | [] => True
  | it :: r => it <> [] /\ (forall p c k', Pk k' -> eats a it (concat r ++ rest) p c k' lo hi) /\ items_eat a lo hi Pk rest r
  end.

Definition loopk (a : rx) (p0 : nat) (k : cont) : cont :=
  fun s1 p1 c1 => if Nat.eqb p1 p0 then BNo else BT (Star a) s1 p1 c1 k.

Lemma eats_star a lo hi (Pk : cont -> Prop) : forall its rest pos cs k,
  (forall p c k', BT a rest p c k' = BNo) ->
  items_eat a lo hi Pk rest its ->
  (forall p0, Pk (loopk a p0 k)) ->
  eats (Star a) (concat its) rest pos cs k lo hi.
Proof.
  induction its as [|it its IH]; intros rest pos cs k Hrest Hit Hloop Hk.
  - exists cs. split; [apply only_touches_refl|]. cbn [concat app length] in *. now rewrite BT_star, Hrest, Nat.add_0_r.
  - destruct Hit as (Hne & Hbody & Hits). cbn [concat] in *. rewrite app_length, Nat.add_assoc in Hk.
    assert (Ep : Nat.eqb (pos + length it) pos = false).
    { apply Nat.eqb_neq. destruct it; [congruence|cbn [length]; lia]. }
    destruct (Hbody pos cs (loopk a pos k) (Hloop pos)) as (c1 & T1 & E1).
    { intros c'. unfold loopk. rewrite Ep. destruct (IH rest (pos + length it)%nat c' k Hrest Hits Hloop Hk) as (c2 & _ & E2).
      rewrite E2. apply Hk. }
    destruct (IH rest (pos + length it)%nat c1 k Hrest Hits Hloop Hk) as (c2 & T2 & E2).
    exists c2. split; [now apply (only_touches_trans lo hi cs c1 c2)|].
    rewrite <- app_assoc, BT_star. fold (loopk a pos k). rewrite E1. unfold loopk at 1. rewrite Ep, E2.
    rewrite app_length, Nat.add_assoc.
    destruct (k rest (pos + length it + length (concat its))%nat c2) eqn:Ek; try reflexivity. now apply Hk in Ek.
Qed.

Lemma concat_singletons {A} (w : list A) : concat (map (fun c => [c]) w) = w.
Proof. induction w as [|c w IH]; [reflexivity|]. cbn [map concat app]. now rewrite IH. Qed.

(* greedy repetition of a character class *)
Lemma eats_star_class neg rs w rest pos cs k lo hi :
  Forall (fun c => chr_ok neg rs c = true) w ->
  (match rest with [] => True | c :: _ => chr_ok neg rs c = false end) ->
  eats (Star (Chr neg rs)) w rest pos cs k lo hi.
Proof.
  intros Hw Hr Hk. exists cs. split; [apply only_touches_refl|].
  revert pos Hk. induction Hw as [|c w Hc Hw IH]; intros pos Hk.
  - cbn [app length] in *. rewrite Nat.add_0_r, BT_star. destruct rest as [|x rest']; [reflexivity|]. now rewrite BT_chr, Hr.
  - cbn [app length] in *. rewrite BT_star, BT_chr, Hc.
    assert (Ep : Nat.eqb (S pos) pos = false) by (apply Nat.eqb_neq; lia). rewrite Ep.
    replace (pos + S (length w))%nat with (S pos + length w)%nat in * by lia.
    rewrite IH by exact Hk. destruct (k rest (S pos + length w)%nat cs) eqn:Ek; try reflexivity. now apply Hk in Ek.
Qed.

(* one character of a class *)
Lemma eats_chr neg rs c rest pos cs k lo hi : chr_ok neg rs c = true -> eats (Chr neg rs) [c] rest pos cs k lo hi.
Proof.
  intros Hc _. exists cs. split; [apply only_touches_refl|]. cbn [app length]. rewrite BT_chr, Hc. f_equal. lia.
Qed.

(* greedy repetition of a character class, success-directed, captures untouched (explicit form) *)
Lemma BT_star_class_S neg rs : forall w rest pos cs k,
  Forall (fun c => chr_ok neg rs c = true) w ->
  (match rest with [] => True | c :: _ => chr_ok neg rs c = false end) ->
  k rest (pos + length w)%nat cs <> BNo ->
  BT (Star (Chr neg rs)) (w ++ rest) pos cs k = k rest (pos + length w)%nat cs.
Proof.
  intros w rest pos cs k Hw Hr. revert pos. induction Hw as [|c w Hc Hw IH]; intros pos Hk.
  - cbn [app length] in *. rewrite Nat.add_0_r in *. rewrite BT_star. destruct rest as [|x rest']; [reflexivity|]. now rewrite BT_chr, Hr.
  - cbn [app length] in *. rewrite BT_star, BT_chr, Hc.
    assert (Ep : Nat.eqb (S pos) pos = false) by (apply Nat.eqb_neq; lia). rewrite Ep.
    replace (pos + S (length w))%nat with (S pos + length w)%nat in * by lia.
    rewrite IH by exact Hk. destruct (k rest (S pos + length w)%nat cs) eqn:Ek; try reflexivity. congruence.
Qed.

(* ... and when the continuation refuses every stopping point, the repetition fails as a whole *)
Lemma BT_star_class_no neg rs w rest pos cs k :
  Forall (fun c => chr_ok neg rs c = true) w ->
  (match rest with [] => True | c :: _ => chr_ok neg rs c = false end) ->
  (forall j p c, (j <= length w)%nat -> k (skipn j w ++ rest) p c = BNo) ->
  BT (Star (Chr neg rs)) (w ++ rest) pos cs k = BNo.
Proof.
  intros Hw Hr Hk. rewrite BT_star_class; [| assumption | assumption |].
  - specialize (Hk (length w) (pos + length w)%nat cs (Nat.le_refl _)). now rewrite skipn_all in Hk.
  - intros j Hj. apply Hk. lia.
Qed.
