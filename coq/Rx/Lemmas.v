(* General facts about the two regex semantics of Rx/Syntax.v. *)
From Coq Require Import NArith List Bool Arith Lia.
From SV Require Import Rx.Syntax.
Import ListNotations.

(* ---- character classes occurring in a regex *)
Fixpoint leaves (r : rx) : list (bool * list (N * N)) :=
  match r with
  | Nul | Eps => []
  | Chr neg rs => [(neg, rs)]
  | Cat a b | Alt a b => leaves a ++ leaves b
  | Star a | Group _ a => leaves a
  end.

Definition in_leaves (c : N) (r : rx) : bool := existsb (fun l => chr_ok (fst l) (snd l) c) (leaves r).

Lemma in_leaves_app c a b : existsb (fun l => chr_ok (fst l) (snd l) c) (leaves a ++ leaves b) = in_leaves c a || in_leaves c b.
Proof. unfold in_leaves. apply existsb_app. Qed.

Lemma cat_leaves_sub a b l : In l (leaves (cat a b)) -> In l (leaves a ++ leaves b).
Proof.
  unfold cat. destruct a; destruct b; cbn [leaves app]; intros H; try assumption; try (destruct H; fail);
    try (apply in_or_app; now right); try (apply in_or_app; now left).
Qed.
Lemma alt_leaves_sub a b l : In l (leaves (alt a b)) -> In l (leaves a ++ leaves b).
Proof.
  unfold alt. destruct a; destruct b; cbn [leaves app]; intros H; try assumption; try (destruct H; fail);
    try (apply in_or_app; now right); try (apply in_or_app; now left); try (rewrite app_nil_r; assumption).
Qed.

Lemma deriv_leaves_sub c r : forall l, In l (leaves (deriv c r)) -> In l (leaves r).
Proof.
  induction r as [| |neg rs|a IHa b IHb|a IHa b IHb|a IHa|i a IHa]; cbn [deriv leaves]; intros l H.
  - destruct H.
  - destruct H.
  - destruct (chr_ok neg rs c); destruct H.
  - apply alt_leaves_sub in H. apply in_app_or in H. destruct H as [H|H].
    + apply cat_leaves_sub in H. apply in_app_or in H. apply in_or_app. destruct H as [H|H]; [left; now apply IHa|now right].
    + destruct (nullable a); [|destruct H]. apply in_or_app. right. now apply IHb.
  - apply alt_leaves_sub in H. apply in_app_or in H. apply in_or_app. destruct H as [H|H]; [left; now apply IHa|right; now apply IHb].
  - apply cat_leaves_sub in H. apply in_app_or in H. destruct H as [H|H]; [now apply IHa|exact H].
  - now apply IHa.
Qed.

Lemma deriv_dead c r : in_leaves c r = false -> deriv c r = Nul.
Proof.
  induction r as [| |neg rs|a IHa b IHb|a IHa b IHb|a IHa|i a IHa]; cbn [deriv]; intros H; try reflexivity.
  - unfold in_leaves in H. cbn in H. rewrite orb_false_r in H. now rewrite H.
  - unfold in_leaves in H. cbn [leaves] in H. rewrite in_leaves_app in H. apply orb_false_iff in H as [Ha Hb].
    rewrite (IHa Ha), (IHb Hb). cbn. destruct (nullable a); reflexivity.
  - unfold in_leaves in H. cbn [leaves] in H. rewrite in_leaves_app in H. apply orb_false_iff in H as [Ha Hb].
    rewrite (IHa Ha), (IHb Hb). reflexivity.
  - rewrite (IHa H). reflexivity.
  - exact (IHa H).
Qed.

Lemma matches_nul s : matches Nul s = false.
Proof. induction s as [|c s IH]; [reflexivity|exact IH]. Qed.

(* every character of a matched word belongs to one of the regex's character classes *)
Theorem matches_chars r : forall s, matches r s = true -> forall c, In c s -> in_leaves c r = true.
Proof.
  intros s. revert r. induction s as [|x s IH]; intros r M c H; [destruct H|]. destruct H as [->|H].
  - cbn [matches] in M. destruct (in_leaves c r) eqn:E; [reflexivity|].
    rewrite (deriv_dead c r E), matches_nul in M. discriminate.
  - cbn [matches] in M. specialize (IH (deriv x r) M c H).
    unfold in_leaves in *. apply existsb_exists in IH. destruct IH as (l & Hl & Hc).
    apply existsb_exists. exists l. split; [now apply (deriv_leaves_sub x r)|assumption].
Qed.

(* ---- re.sub: one step *)
Lemma re_sub_loop_cons f r repl c s' :
  re_sub_loop (S f) r repl (c :: s') =
  let s := c :: s' in
  match bt (bt_fuel r s) r s 0 [] (fun _ p cs => BYes p cs) with
  | BFuel => None
  | BYes (S e) _ =>
      match repl (firstn (S e) s) with
      | None => Some None
      | Some out =>
          match re_sub_loop f r repl (skipn (S e) s) with
          | Some (Some rest) => Some (Some (out ++ rest))
          | other => other
          end
      end
  | _ =>
      match re_sub_loop f r repl s' with
      | Some (Some rest) => Some (Some (c :: rest))
      | other => other
      end
  end.
Proof. reflexivity. Qed.

(* more fuel does not change a finished substitution *)
Lemma re_sub_loop_more r repl : forall f s v k, re_sub_loop f r repl s = Some v -> re_sub_loop (f + k) r repl s = Some v.
Proof.
  induction f as [|f IH]; intros s v k H; [discriminate|].
  destruct s as [|c s']; [cbn in *; exact H|].
  change (S f + k) with (S (f + k)). rewrite re_sub_loop_cons in *. cbv zeta in *.
  destruct (bt _ r (c :: s') 0 [] _) as [| |[|e] cs]; try discriminate.
  - destruct (re_sub_loop f r repl s') as [[x|]|] eqn:E; try discriminate; rewrite (IH _ _ k E); exact H.
  - destruct (re_sub_loop f r repl s') as [[x|]|] eqn:E; try discriminate; rewrite (IH _ _ k E); exact H.
  - destruct (repl _); [|exact H].
    destruct (re_sub_loop f r repl _) as [[x|]|] eqn:E; try discriminate; rewrite (IH _ _ k E); exact H.
Qed.

(* ---- re.sub with a single character class as the pattern: a per-character map *)
Lemma re_sub_chr neg rs (repl : list N -> option (list N)) (g : N -> list N) :
  (forall c, chr_ok neg rs c = true -> repl [c] = Some (g c)) ->
  forall s, re_sub (Chr neg rs) repl s =
            Some (Some (flat_map (fun c => if chr_ok neg rs c then g c else [c]) s)).
Proof.
  intros Hr s. unfold re_sub. induction s as [|c s IH]; [reflexivity|].
  cbn [length]. rewrite re_sub_loop_cons. cbv zeta. unfold bt_fuel. cbn [rsize length Nat.add Nat.mul bt].
  destruct (chr_ok neg rs c) eqn:E.
  - cbn [firstn skipn]. rewrite (Hr c E). rewrite IH. cbn [flat_map]. rewrite E. reflexivity.
  - rewrite IH. cbn [flat_map]. rewrite E. reflexivity.
Qed.

(* ---- the backtracking matcher never runs out of steps: for EVERY pattern and input, fuel above
   (size of the pattern + length of the input) suffices.  A repetition only iterates again after its
   body consumed something, so the input shrinks along every chain of nested calls. *)
Theorem bt_no_fuel : forall fuel r s pos cs k,
  (rsize r + length s < fuel)%nat ->
  (forall s1 p1 c1, (length s1 <= length s)%nat -> (p1 + length s1 = pos + length s)%nat -> k s1 p1 c1 <> BFuel) ->
  bt fuel r s pos cs k <> BFuel.
Proof.
  induction fuel as [|f IH]; intros r s pos cs k Hf Hk; [lia|].
  destruct r as [| |neg rs|a b|a b|a|i a]; cbn [bt rsize] in *.
  - discriminate.
  - apply Hk; lia.
  - destruct s as [|c s']; [discriminate|]. destruct (chr_ok neg rs c); [|discriminate].
    apply Hk; cbn [length]; lia.
  - apply IH; [lia|]. intros s1 p1 c1 H1 H2. apply IH; [lia|]. intros s2 p2 c2 H3 H4. apply Hk; lia.
  - destruct (bt f a s pos cs k) eqn:E; try discriminate.
    + exfalso. revert E. apply IH; [lia|assumption].
    + apply IH; [lia|assumption].
  - destruct (bt f a s pos cs _) eqn:E; try discriminate.
    + exfalso. revert E. apply IH; [lia|]. intros s1 p1 c1 H1 H2.
      destruct (Nat.eqb p1 pos) eqn:Ep; [discriminate|]. apply Nat.eqb_neq in Ep.
      apply IH; [cbn [rsize]; lia|]. intros s2 p2 c2 H3 H4. apply Hk; lia.
    + apply Hk; lia.
  - apply IH; [lia|]. intros s1 p1 c1 H1 H2. apply Hk; assumption.
Qed.

Lemma bt_fuel_enough r s : (rsize r + length s < bt_fuel r s)%nat.
Proof. unfold bt_fuel. nia. Qed.

(* pattern.match(s) always answers *)
Corollary re_match_total r e s : re_match r e s <> BFuel.
Proof.
  unfold re_match. apply bt_no_fuel; [apply bt_fuel_enough|].
  intros s1 p1 c1 _ _ H. destruct e; cbv beta iota in H.
  - discriminate H.
  - repeat match type of H with context [match ?x with _ => _ end] => destruct x end; discriminate H.
  - destruct s1; discriminate H.
Qed.

(* ---- re.sub always answers (any pattern, any replacement function) *)
Lemma re_sub_loop_total r repl : forall f s, (length s < f)%nat -> re_sub_loop f r repl s <> None.
Proof.
  induction f as [|f IH]; intros s Hf; [lia|].
  destruct s as [|c s']; [discriminate|]. rewrite re_sub_loop_cons. cbv zeta.
  assert (T : bt (bt_fuel r (c :: s')) r (c :: s') 0 [] (fun _ p cs => BYes p cs) <> BFuel)
    by (apply bt_no_fuel; [apply bt_fuel_enough|discriminate]).
  destruct (bt _ r (c :: s') 0 [] _) as [| |[|e] cs]; [congruence| | |].
  - specialize (IH s' ltac:(cbn [length] in Hf; lia)). destruct (re_sub_loop f r repl s') as [[x|]|]; congruence.
  - specialize (IH s' ltac:(cbn [length] in Hf; lia)). destruct (re_sub_loop f r repl s') as [[x|]|]; congruence.
  - destruct (repl _); [|discriminate].
    assert (Hl : (length (skipn (S e) (c :: s')) < f)%nat) by (rewrite skipn_length; cbn [length] in *; lia).
    specialize (IH _ Hl). destruct (re_sub_loop f r repl _) as [[x|]|]; congruence.
Qed.

Corollary re_sub_total r repl s : re_sub r repl s <> None.
Proof. unfold re_sub. apply re_sub_loop_total. lia. Qed.

(* ---- groups that lie on every path of a pattern are captured by every successful match *)
Fixpoint must_capture (i : nat) (r : rx) : bool :=
  match r with
  | Cat a b => must_capture i a || must_capture i b
  | Alt a b => must_capture i a && must_capture i b
  | Group j a => Nat.eqb i j || must_capture i a
  | _ => false
  end.

Definition has_cap (i : nat) (cs : caps) : Prop := cap_lookup i cs <> None.

Lemma has_cap_cons i j se cs : has_cap i cs -> has_cap i ((j, se) :: cs).
Proof. unfold has_cap. cbn [cap_lookup]. destruct (Nat.eqb i j); [discriminate|auto]. Qed.

Lemma bt_captures : forall fuel r s pos cs k e cf i,
  bt fuel r s pos cs k = BYes e cf ->
  exists s1 p1 c1, k s1 p1 c1 = BYes e cf /\ (has_cap i cs -> has_cap i c1) /\ (must_capture i r = true -> has_cap i c1).
Proof.
  induction fuel as [|f IH]; intros r s pos cs k e cf i H; [discriminate|].
  destruct r as [| |neg rs|a b|a b|a|j a]; cbn [bt must_capture] in *.
  - discriminate.
  - exists s, pos, cs. repeat split; auto. discriminate.
  - destruct s as [|c s']; [discriminate|]. destruct (chr_ok neg rs c); [|discriminate].
    exists s', (S pos), cs. repeat split; auto. discriminate.
  - apply (IH a _ _ _ _ _ _ i) in H. destruct H as (s1 & p1 & c1 & H & K1 & M1).
    apply (IH b _ _ _ _ _ _ i) in H. destruct H as (s2 & p2 & c2 & H & K2 & M2).
    exists s2, p2, c2. repeat split; auto. intros M. apply orb_true_iff in M as [M|M]; auto.
  - destruct (bt f a s pos cs k) as [| |e0 c0] eqn:E; try discriminate.
    + apply (IH b _ _ _ _ _ _ i) in H. destruct H as (s1 & p1 & c1 & H & K1 & M1).
      exists s1, p1, c1. repeat split; auto. intros M. apply andb_true_iff in M as [_ M]. auto.
    + injection H as <- <-. apply (IH a _ _ _ _ _ _ i) in E. destruct E as (s1 & p1 & c1 & E & K1 & M1).
      exists s1, p1, c1. repeat split; auto. intros M. apply andb_true_iff in M as [M _]. auto.
  - destruct (bt f a s pos cs _) as [| |e0 c0] eqn:E; try discriminate.
    + exists s, pos, cs. repeat split; auto. discriminate.
    + injection H as <- <-. apply (IH a _ _ _ _ _ _ i) in E. destruct E as (s1 & p1 & c1 & E & K1 & _).
      destruct (Nat.eqb p1 pos); [discriminate|].
      apply (IH (Star a) _ _ _ _ _ _ i) in E. destruct E as (s2 & p2 & c2 & E & K2 & _).
      exists s2, p2, c2. repeat split; auto. discriminate.
  - apply (IH a _ _ _ _ _ _ i) in H. destruct H as (s1 & p1 & c1 & H & K1 & M1).
    exists s1, p1, ((j, (pos, p1)) :: c1). split; [exact H|]. split.
    + intros Hc. apply has_cap_cons. auto.
    + intros M. apply orb_true_iff in M as [M|M].
      * unfold has_cap. cbn [cap_lookup]. rewrite M. discriminate.
      * apply has_cap_cons. auto.
Qed.

Corollary re_match_captures r e s p cs i :
  re_match r e s = BYes p cs -> must_capture i r = true -> exists se, cap_lookup i cs = Some se.
Proof.
  unfold re_match. intros H M. apply (bt_captures _ _ _ _ _ _ _ _ i) in H. destruct H as (s1 & p1 & c1 & H & _ & Hm).
  assert (E : c1 = cs).
  { destruct e; cbv beta iota in H; [congruence| |destruct s1; congruence].
    repeat match type of H with context [match ?x with _ => _ end] => destruct x end; congruence. }
  subst. specialize (Hm M). unfold has_cap in Hm. destruct (cap_lookup i cs); [eauto|congruence].
Qed.
