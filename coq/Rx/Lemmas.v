(* General facts about the two regex semantics of Rx/Syntax.v. *)
From Coq Require Import NArith List Bool Arith Lia.
From SV Require Import Rx.Syntax.
Import ListNotations.

(* ---- character classes occurring in a regex *)
Fixpoint leaves (r : rx) : list (bool * list (N * N)) :=
  match r with
  | Nul | Eps => []
  | Chr neg rs => [(neg, rs)]
  | Cat a b | Alt a b => leaves a ++ leaves b
  | Star a | Group _ a => leaves a
  end.

Definition in_leaves (c : N) (r : rx) : bool := existsb (fun l => chr_ok (fst l) (snd l) c) (leaves r).

Lemma in_leaves_app c a b : existsb (fun l => chr_ok (fst l) (snd l) c) (leaves a ++ leaves b) = in_leaves c a || in_leaves c b.
Proof. unfold in_leaves. apply existsb_app. Qed.

Lemma cat_leaves_sub a b l : In l (leaves (cat a b)) -> In l (leaves a ++ leaves b).
Proof.
  unfold cat. destruct a; destruct b; cbn [leaves app]; intros H; try assumption; try (destruct H; fail);
    try (apply in_or_app; now right); try (apply in_or_app; now left).
Qed.
Lemma alt_leaves_sub a b l : In l (leaves (alt a b)) -> In l (leaves a ++ leaves b).
Proof.
  unfold alt. destruct a; destruct b; cbn [leaves app]; intros H; try assumption; try (destruct H; fail);
    try (apply in_or_app; now right); try (apply in_or_app; now left); try (rewrite app_nil_r; assumption).
Qed.

Lemma deriv_leaves_sub c r : forall l, In l (leaves (deriv c r)) -> In l (leaves r).
Proof.
  induction r as [| |neg rs|a IHa b IHb|a IHa b IHb|a IHa|i a IHa]; cbn [deriv leaves]; intros l H.
  - destruct H.
  - destruct H.
  - destruct (chr_ok neg rs c); destruct H.
  - apply alt_leaves_sub in H. apply in_app_or in H. destruct H as [H|H].
    + apply cat_leaves_sub in H. apply in_app_or in H. apply in_or_app. destruct H as [H|H]; [left; now apply IHa|now right].
    + destruct (nullable a); [|destruct H]. apply in_or_app. right. now apply IHb.
  - apply alt_leaves_sub in H. apply in_app_or in H. apply in_or_app. destruct H as [H|H]; [left; now apply IHa|right; now apply IHb].
  - apply cat_leaves_sub in H. apply in_app_or in H. destruct H as [H|H]; [now apply IHa|exact H].
  - now apply IHa.
Qed.

Lemma deriv_dead c r : in_leaves c r = false -> deriv c r = Nul.
Proof.
  induction r as [| |neg rs|a IHa b IHb|a IHa b IHb|a IHa|i a IHa]; cbn [deriv]; intros H; try reflexivity.
  - unfold in_leaves in H. cbn in H. rewrite orb_false_r in H. now rewrite H.
  - unfold in_leaves in H. cbn [leaves] in H. rewrite in_leaves_app in H. apply orb_false_iff in H as [Ha Hb].
    rewrite (IHa Ha), (IHb Hb). cbn. destruct (nullable a); reflexivity.
  - unfold in_leaves in H. cbn [leaves] in H. rewrite in_leaves_app in H. apply orb_false_iff in H as [Ha Hb].
    rewrite (IHa Ha), (IHb Hb). reflexivity.
  - rewrite (IHa H). reflexivity.
  - exact (IHa H).
Qed.

Lemma matches_nul s : matches Nul s = false.
Proof. induction s as [|c s IH]; [reflexivity|exact IH]. Qed.

(* every character of a matched word belongs to one of the regex's character classes *)
Theorem matches_chars r : forall s, matches r s = true -> forall c, In c s -> in_leaves c r = true.
Proof.
  intros s. revert r. induction s as [|x s IH]; intros r M c H; [destruct H|]. destruct H as [->|H].
  - cbn [matches] in M. destruct (in_leaves c r) eqn:E; [reflexivity|].
    rewrite (deriv_dead c r E), matches_nul in M. discriminate.
  - cbn [matches] in M. specialize (IH (deriv x r) M c H).
    unfold in_leaves in *. apply existsb_exists in IH. destruct IH as (l & Hl & Hc).
    apply existsb_exists. exists l. split; [now apply (deriv_leaves_sub x r)|assumption].
Qed.

(* ---- re.sub: one step *)
Lemma re_sub_loop_cons f r repl c s' :
  re_sub_loop (S f) r repl (c :: s') =
  let s := c :: s' in
  match bt (bt_fuel r s) r s 0 [] (fun _ p cs => BYes p cs) with
  | BFuel => None
  | BYes (S e) _ =>
      match repl (firstn (S e) s) with
      | None => Some None
      | Some out =>
          match re_sub_loop f r repl (skipn (S e) s) with
          | Some (Some rest) => Some (Some (out ++ rest))
          | other => other
          end
      end
  | _ =>
      match re_sub_loop f r repl s' with
      | Some (Some rest) => Some (Some (c :: rest))
      | other => other
      end
  end.
Proof. reflexivity. Qed.

(* more fuel does not change a finished substitution *)
Lemma re_sub_loop_more r repl : forall f s v k, re_sub_loop f r repl s = Some v -> re_sub_loop (f + k) r repl s = Some v.
Proof.
  induction f as [|f IH]; intros s v k H; [discriminate|].
  destruct s as [|c s']; [cbn in *; exact H|].
  change (S f + k) with (S (f + k)). rewrite re_sub_loop_cons in *. cbv zeta in *.
  destruct (bt _ r (c :: s') 0 [] _) as [| |[|e] cs]; try discriminate.
  - destruct (re_sub_loop f r repl s') as [[x|]|] eqn:E; try discriminate; rewrite (IH _ _ k E); exact H.
  - destruct (re_sub_loop f r repl s') as [[x|]|] eqn:E; try discriminate; rewrite (IH _ _ k E); exact H.
  - destruct (repl _); [|exact H].
    destruct (re_sub_loop f r repl _) as [[x|]|] eqn:E; try discriminate; rewrite (IH _ _ k E); exact H.
Qed.

(* ---- re.sub with a single character class as the pattern: a per-character map *)
Lemma re_sub_chr neg rs (repl : list N -> option (list N)) (g : N -> list N) :
  (forall c, chr_ok neg rs c = true -> repl [c] = Some (g c)) ->
  forall s, re_sub (Chr neg rs) repl s =
            Some (Some (flat_map (fun c => if chr_ok neg rs c then g c else [c]) s)).
Proof.
  intros Hr s. unfold re_sub. induction s as [|c s IH]; [reflexivity|].
  cbn [length]. rewrite re_sub_loop_cons. cbv zeta. unfold bt_fuel. cbn [rsize length Nat.add Nat.mul bt].
  destruct (chr_ok neg rs c) eqn:E.
  - cbn [firstn skipn]. rewrite (Hr c E). rewrite IH. cbn [flat_map]. rewrite E. reflexivity.
  - rewrite IH. cbn [flat_map]. rewrite E. reflexivity.
Qed.
