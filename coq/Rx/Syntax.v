(* Regular expressions as data (generated from CPython's own parse tree), with two executable
   semantics: a Brzozowski-derivative matcher (language membership, used where only acceptance
   matters) and a continuation-passing backtracking matcher with captures that mirrors a
   Perl-style engine such as CPython's sre (priorities: left alternative first, greedy repeats). *)
From Coq Require Import NArith List Bool Arith.
Import ListNotations.

Inductive rx :=
| Nul                                        (* matches nothing; only produced by derivatives *)
| Eps
| Chr (neg : bool) (ranges : list (N * N))   (* character class; Chr true [] = any character *)
| Cat (a b : rx)
| Alt (a b : rx)
| Star (a : rx)
| Group (i : nat) (a : rx).

(* how the pattern ends: nothing, '$' (end, or before one final newline), '\Z' (end) *)
Inductive end_anchor := NoEnd | EndDollar | EndZ.

Definition in_ranges (c : N) (ranges : list (N * N)) : bool :=
  existsb (fun r => (fst r <=? c)%N && (c <=? snd r)%N) ranges.
Definition chr_ok (neg : bool) (ranges : list (N * N)) (c : N) : bool := xorb neg (in_ranges c ranges).

(* ---- derivatives *)
Fixpoint nullable (r : rx) : bool :=
  match r with
  | Nul => false
  | Eps => true
  | Chr _ _ => false
  | Cat a b => nullable a && nullable b
  | Alt a b => nullable a || nullable b
  | Star _ => true
  | Group _ a => nullable a
  end.

Definition cat (a b : rx) : rx :=
  match a, b with
  | Nul, _ => Nul
  | _, Nul => Nul
  | Eps, _ => b
  | _, _ => Cat a b
  end.
Definition alt (a b : rx) : rx :=
  match a, b with
  | Nul, _ => b
  | _, Nul => a
  | _, _ => Alt a b
  end.

Fixpoint deriv (c : N) (r : rx) : rx :=
  match r with
  | Nul | Eps => Nul
  | Chr neg ranges => if chr_ok neg ranges c then Eps else Nul
  | Cat a b => alt (cat (deriv c a) b) (if nullable a then deriv c b else Nul)
  | Alt a b => alt (deriv c a) (deriv c b)
  | Star a => cat (deriv c a) (Star a)
  | Group _ a => deriv c a
  end.

Fixpoint matches (r : rx) (s : list N) : bool :=
  match s with
  | [] => nullable r
  | c :: s' => matches (deriv c r) s'
  end.

(* <pattern>.match(s) for a pattern of the form ^r<end>: is some prefix accepted (NoEnd), or the
   whole input (EndZ), or the whole input possibly minus one final newline (EndDollar) *)
Fixpoint prefix_matches (r : rx) (s : list N) : bool :=
  nullable r || match s with [] => false | c :: s' => prefix_matches (deriv c r) s' end.

Definition anchored_match (r : rx) (e : end_anchor) (s : list N) : bool :=
  match e with
  | NoEnd => prefix_matches r s
  | EndZ => matches r s
  | EndDollar =>
      matches r s ||
      match rev s with
      | 10%N :: body => matches r (rev body)
      | _ => false
      end
  end.

(* ---- backtracking with captures *)
Definition caps := list (nat * (nat * nat)).   (* group index -> (start, end), most recent first *)

Fixpoint rsize (r : rx) : nat :=
  match r with
  | Nul | Eps | Chr _ _ => 1
  | Cat a b | Alt a b => S (rsize a + rsize b)
  | Star a | Group _ a => S (rsize a)
  end.

Inductive bres := BFuel | BNo | BYes (e : nat) (cs : caps).

Fixpoint bt (fuel : nat) (r : rx) (s : list N) (pos : nat) (cs : caps)
            (k : list N -> nat -> caps -> bres) : bres :=
  match fuel with
  | O => BFuel
  | S f =>
      match r with
      | Nul => BNo
      | Eps => k s pos cs
      | Chr neg ranges =>
          match s with
          | c :: s' => if chr_ok neg ranges c then k s' (S pos) cs else BNo
          | [] => BNo
          end
      | Cat a b => bt f a s pos cs (fun s1 p1 c1 => bt f b s1 p1 c1 k)
      | Alt a b =>
          match bt f a s pos cs k with
          | BNo => bt f b s pos cs k
          | res => res
          end
      | Star a =>
          (* greedy; an iteration that consumed nothing is not repeated *)
          match bt f a s pos cs (fun s1 p1 c1 => if Nat.eqb p1 pos then BNo else bt f (Star a) s1 p1 c1 k) with
          | BNo => k s pos cs
          | res => res
          end
      | Group i a => bt f a s pos cs (fun s1 p1 c1 => k s1 p1 ((i, (pos, p1)) :: c1))
      end
  end.

Definition bt_fuel (r : rx) (s : list N) : nat := (length s + 2) * (rsize r + 2).

(* pattern.match(s) at position 0 with the given end anchor *)
Definition re_match (r : rx) (e : end_anchor) (s : list N) : bres :=
  bt (bt_fuel r s) r s 0 []
     (fun rest p cs =>
        match e with
        | NoEnd => BYes p cs
        | EndZ => match rest with [] => BYes p cs | _ => BNo end
        | EndDollar => match rest with [] | [10%N] => BYes p cs | _ => BNo end
        end).

(* m.group(i): the most recent capture of group i *)
Fixpoint cap_lookup (i : nat) (cs : caps) : option (nat * nat) :=
  match cs with
  | [] => None
  | (j, se) :: rest => if Nat.eqb i j then Some se else cap_lookup i rest
  end.

Definition slice {A} (l : list A) (st en : nat) : list A := firstn (en - st) (skipn st l).

Definition group_text (s : list N) (cs : caps) (i : nat) : option (list N) :=
  match cap_lookup i cs with Some (st, en) => Some (slice s st en) | None => None end.

(* re.sub(pattern, repl, s) for a pattern that cannot match the empty string: scan left to
   right, replace each leftmost match by [repl matched_text], continue after it *)
Fixpoint re_sub_loop (fuel : nat) (r : rx) (repl : list N -> option (list N)) (s : list N)
  : option (option (list N)) :=
  (* outer None: fuel; inner None: repl raised *)
  match fuel with
  | O => None
  | S f =>
      match s with
      | [] => Some (Some [])
      | c :: s' =>
          match bt (bt_fuel r s) r s 0 [] (fun _ p cs => BYes p cs) with
          | BFuel => None
          | BYes (S e) _ =>
              match repl (firstn (S e) s) with
              | None => Some None
              | Some out =>
                  match re_sub_loop f r repl (skipn (S e) s) with
                  | Some (Some rest) => Some (Some (out ++ rest))
                  | other => other
                  end
              end
          | _ =>
              match re_sub_loop f r repl s' with
              | Some (Some rest) => Some (Some (c :: rest))
              | other => other
              end
          end
      end
  end.
Definition re_sub (r : rx) (repl : list N -> option (list N)) (s : list N) := re_sub_loop (S (length s)) r repl s.
