(* C16 for attribute types. *)
From Coq Require Import NArith ZArith List Bool Arith Lia ZifyBool.
From SV Require Import Base.Py Rx.Syntax Rx.Lemmas Rx.Bt Gen.Generated Schema.Model Schema.Proofs Schema.Regex Schema.Match
  Schema.IntText Schema.Chain.
Import ListNotations.
Local Open Scope N_scope.

(* ---- a keyword followed by one object identifier *)
Lemma oid1_part T txt lo Q g gm kw (o : option ustr) F :
  tail_ok T txt lo Q ->
  (g < gm)%nat -> (gm + 6 < lo)%nat -> (lo <= 200)%nat ->
  starts_not is_sp (kw ++ [32]) ->
  match o with Some v => oid_ok v | None => True end ->
  (forall junk, starts_with_one F (txt ++ junk)) ->
  forallb starts32 F = true ->
  forallb (kw_skips kw) F = true ->
  nullable T = false -> (forall x, first T x = sp_or_close x) ->
  tail_ok (Cat (KWSEG g gm kw (OID1 (gm + 1))) T) (opt_seg kw o ++ txt) g
    (fun w c => group_text w c gm = o /\ Q w c).
Proof.
  intros HT Hg1 Hg2 Hg3 Hkw Ho HF Hsp Hsk Hn Hf. destruct o as [v|].
  - destruct (oid_first v Ho) as (c0 & r0 & Ev & Hc0).
    apply (tail_kw_present T txt lo Q g gm kw (OID1 (gm + 1)) v (gm + 1) (gm + 1 + 5) C_oid); try assumption; try lia.
    + rewrite Ev. cbn. chr_tac.
    + rewrite Ev. discriminate.
    + intros junk p c k' Hk'. unfold OID1. apply eats_group; [lia|].
      apply (eats_wider _ _ _ _ _ _ (gm + 1 + 1) (gm + 1 + 1 + 4)); [lia|lia|]. apply m_OID; [assumption| |].
      * destruct (starts_sp F _ (HF junk) Hsp) as (s' & ->). reflexivity.
      * intros x s0 p0 c1 Hx. apply Hk'. exact Hx.
    + apply tail_rejects; [assumption|assumption|apply C_oid_not_sp].
  - cbn [opt_seg app]. apply (tail_kw_absent T txt lo Q g gm kw _ F); [assumption|lia|lia|assumption|assumption].
Qed.

(* ---- SYNTAX: a numeric OID with an optional {length} *)
Definition len_text (l : option Z) : list N := match l with Some z => [123] ++ str_of_int z ++ [125] | None => [] end.
Definition syn_text (s : ustr) (l : option Z) : list N := s ++ len_text l.
Definition len_ok (l : option Z) : Prop := match l with Some z => (0 <= z)%Z | None => True end.

Lemma len_arc z : (0 <= z)%Z -> arc_ok (str_of_int z) /\ int_of_digits (str_of_int z) = z.
Proof. intros Hz. rewrite <- (Z2N.id z Hz). apply str_of_N_spec. Qed.

Lemma BT_noidlen_assoc g s pos cs k :
  BT (NOIDLENr g) s pos cs k = BT (NUMOID g) s pos cs (fun s1 p1 c1 => BT (LENr (g + 3)) s1 p1 c1 k).
Proof.
  unfold NOIDLENr, NUMOID. rewrite !BT_cat. apply BT_ext. intros s1 p1 c1. rewrite !BT_cat. reflexivity.
Qed.

Definition len_stop (c : N) : bool := is_digdot c || (c =? 123).

Lemma m_LEN g l rest pos cs k :
  len_ok l -> starts_not len_stop rest -> eats (LENr g) (len_text l) rest pos cs k g (g + 1).
Proof.
  intros Hl Hr. unfold LENr. destruct l as [z|].
  - destruct (len_arc z Hl) as [Ha _]. cbn [len_text]. apply eats_opt_some. apply eats_group; [lia|].
    apply (eats_cat _ _ [123]); [apply eats_ch|]. intros c1.
    apply (eats_cat _ _ (str_of_int z) [125]); [|intros c2; apply eats_ch].
    apply eats_group; [lia|]. eapply eats_eq; [apply only_touches_refl|]. apply m_NUM; [assumption|reflexivity|].
    intros x s p c Hx. apply BT_ch_no. intros ->. discriminate.
  - cbn [len_text]. apply eats_opt_none. intros k'. apply reject_first; [|reflexivity].
    destruct rest as [|x r]; [reflexivity|]. unfold ch. cbn [first_in first nullable andb]. rewrite ok_ch. unfold starts_not, len_stop in Hr.
    apply orb_false_iff in Hr. destruct Hr as [_ ->]. reflexivity.
Qed.

Lemma m_SYNTAX s l rest pos cs k :
  numoid_ok s -> len_ok l -> starts_not len_stop rest -> krej is_digdot k ->
  eats (Alt (NOIDLENr 54) (QDSTRINGr 59)) (syn_text s l) rest pos cs k 54 59.
Proof.
  intros Hs Hl Hr Hk. apply eats_alt_l. unfold syn_text. intros Hnb.
  set (k' := fun (s1 : list N) (p1 : nat) (c1 : caps) => BT (LENr (54 + 3)) s1 p1 c1 k).
  destruct (m_NUMOID_eats 54 s (len_text l ++ rest) pos cs k') as (c1 & T1 & E1).
  - assumption.
  - destruct l as [z|]; [reflexivity|]. cbn [len_text app]. destruct rest as [|x r]; [exact I|]. unfold starts_not, len_stop in *. apply orb_false_iff in Hr. tauto.
  - intros x s0 p c Hx. unfold k', LENr, optg. rewrite BT_alt, BT_reject; [rewrite BT_eps; now apply Hk| |now left].
    unfold ch. cbn [first_in first nullable andb]. rewrite ok_ch. chr_tac.
  - intros c'. unfold k'. destruct (m_LEN (54 + 3) l rest (pos + length s) c' k Hl Hr) as (c2 & _ & E2).
    + intros c''. rewrite <- Nat.add_assoc, <- app_length. apply Hnb.
    + rewrite E2. rewrite <- Nat.add_assoc, <- app_length. apply Hnb.
  - destruct (m_LEN (54 + 3) l rest (pos + length s) c1 k Hl Hr) as (c2 & T2 & E2).
    { intros c''. rewrite <- Nat.add_assoc, <- app_length. apply Hnb. }
    exists c2. split.
    + eapply only_touches_trans; [apply (only_touches_wider 54 (54 + 2)); [lia|lia|exact T1]|apply (only_touches_wider (54 + 3) (54 + 3 + 1)); [lia|lia|exact T2]].
    + rewrite BT_noidlen_assoc. fold k'. rewrite <- app_assoc, E1. unfold k'. rewrite E2. rewrite app_length, Nat.add_assoc. reflexivity.
Qed.

(* ---- the pattern that splits "oid{len}" *)
Lemma noidlen_no s : numoid_ok s -> re_match rx_noidlen rx_noidlen_end s = BNo.
Proof.
  intros (a0 & a1 & arcs & -> & H0 & H1 & Hs). unfold rx_noidlen_end. rewrite noidlen_regex_eq, re_match_BT. unfold R_noidlen.
  rewrite BT_cat, BT_group.
  set (k := fun (s1 : list N) (p1 : nat) (c1 : caps) => BT (Cat (ch 123) (Cat (Group 5 (Group 6 NUM)) (ch 125))) s1 p1 ((1%nat, (0%nat, p1)) :: c1)
             (fun rest p cs => BYes p cs)).
  destruct (m_NUMOID 2 a0 a1 arcs [] 0 [] k H0 H1 Hs I) as (c & _ & E).
  - intros x s p c Hx. unfold k. rewrite BT_cat. apply BT_ch_no. intros ->. discriminate.
  - rewrite app_nil_r in E. fold k. rewrite E. unfold k. rewrite BT_cat. reflexivity.
Qed.

Lemma noidlen_yes s z : numoid_ok s -> (0 <= z)%Z ->
  let t := s ++ [123] ++ str_of_int z ++ [125] in
  exists e c2, re_match rx_noidlen rx_noidlen_end t = BYes e c2 /\
               group_text t c2 rx_noidlen_g_value = Some s /\ group_text t c2 rx_noidlen_g_len = Some (str_of_int z).
Proof.
  intros (a0 & a1 & arcs & -> & H0 & H1 & Hs) Hz t. destruct (len_arc z Hz) as [Ha _].
  unfold rx_noidlen_end. rewrite noidlen_regex_eq, re_match_BT. unfold R_noidlen.
  set (k := fun (s1 : list N) (p1 : nat) (c1 : caps) => BT (Cat (ch 123) (Cat (Group 5 (Group 6 NUM)) (ch 125))) s1 p1 ((1%nat, (0%nat, p1)) :: c1)
             (fun rest p cs => BYes p cs)).
  destruct (m_NUMOID 2 a0 a1 arcs ([123] ++ str_of_int z ++ [125]) 0 [] k H0 H1 Hs eq_refl) as (c & T & E).
  { intros x s p c Hx. unfold k. rewrite BT_cat. apply BT_ch_no. intros ->. discriminate. }
  cbn [Nat.add] in E. set (o := a0 ++ dots (a1 :: arcs)) in *.
  eexists _, _. split; [|split].
  - unfold t, o. rewrite <- app_assoc. rewrite BT_cat, BT_group. fold k. rewrite E. unfold k. cbn [app].
    rewrite BT_cat, BT_ch_yes, BT_cat, BT_group, BT_group. rewrite m_NUM; [|assumption|reflexivity|].
    + rewrite BT_ch_yes. reflexivity.
    + intros x s p c0 Hx. apply BT_ch_no. intros ->. discriminate.
  - unfold group_text, rx_noidlen_g_value. cbn [cap_lookup Nat.eqb]. f_equal. unfold t.
    rewrite <- (app_nil_l (o ++ _)). apply slice_mid; reflexivity.
  - unfold group_text, rx_noidlen_g_len. cbn [cap_lookup Nat.eqb]. f_equal. unfold t.
    replace (o ++ [123] ++ str_of_int z ++ [125]) with ((o ++ [123]) ++ str_of_int z ++ [125]) by (rewrite <- app_assoc; reflexivity).
    apply slice_mid; unfold o; rewrite !app_length; cbn [length]; lia.
Qed.

(* ---- the parts after OBSOLETE *)
Definition usage_text (u : N) : option ustr := match u with 1 => Some u_dir | 2 => Some u_dist | 3 => Some u_dsa | _ => None end.
Definition syn_opt (syntax : option ustr) (len : option Z) : option ustr :=
  match syntax with Some s => Some (syn_text s len) | None => None end.

Definition a12 u e := opt_seg s_USAGE (usage_text u) ++ t8 e.
Definition a11 (num : bool) u e := flag_seg s_NOUSERMOD num ++ a12 u e.
Definition a10 (col num : bool) u e := flag_seg s_COLLECTIVE col ++ a11 num u e.
Definition a9 (single col num : bool) u e := flag_seg s_SINGLE single ++ a10 col num u e.
Definition a8 syntax len single col num u e := opt_seg s_SYNTAX (syn_opt syntax len) ++ a9 single col num u e.
Definition a7 substr syntax len single col num u e := opt_seg s_SUBSTR substr ++ a8 syntax len single col num u e.
Definition a6 ordering substr syntax len single col num u e := opt_seg s_ORDERING ordering ++ a7 substr syntax len single col num u e.
Definition a5 equality ordering substr syntax len single col num u e :=
  opt_seg s_EQUALITY equality ++ a6 ordering substr syntax len single col num u e.
Definition a4 sup equality ordering substr syntax len single col num u e :=
  opt_seg s_SUP sup ++ a5 equality ordering substr syntax len single col num u e.

Definition A12f := ([32] ++ s_USAGE ++ [32]) :: F8.
Definition A11f := ([32] ++ s_NOUSERMOD) :: A12f.
Definition A10f := ([32] ++ s_COLLECTIVE) :: A11f.
Definition A9f := ([32] ++ s_SINGLE) :: A10f.
Definition A8f := ([32] ++ s_SYNTAX ++ [32]) :: A9f.
Definition A7f := ([32] ++ s_SUBSTR ++ [32]) :: A8f.
Definition A6f := ([32] ++ s_ORDERING ++ [32]) :: A7f.
Definition A5f := ([32] ++ s_EQUALITY ++ [32]) :: A6f.
Definition A4f := ([32] ++ s_SUP ++ [32]) :: A5f.

Lemma afollow12 u e junk : starts_with_one A12f (a12 u e ++ junk).
Proof. apply opt_seg_follow, follow8. Qed.
Lemma afollow11 num u e junk : starts_with_one A11f (a11 num u e ++ junk).
Proof. apply flag_seg_follow, afollow12. Qed.
Lemma afollow10 col num u e junk : starts_with_one A10f (a10 col num u e ++ junk).
Proof. apply flag_seg_follow, afollow11. Qed.
Lemma afollow9 single col num u e junk : starts_with_one A9f (a9 single col num u e ++ junk).
Proof. apply flag_seg_follow, afollow10. Qed.
Lemma afollow8 syntax len single col num u e junk : starts_with_one A8f (a8 syntax len single col num u e ++ junk).
Proof. apply opt_seg_follow, afollow9. Qed.
Lemma afollow7 substr syntax len single col num u e junk : starts_with_one A7f (a7 substr syntax len single col num u e ++ junk).
Proof. apply opt_seg_follow, afollow8. Qed.
Lemma afollow6 ordering substr syntax len single col num u e junk :
  starts_with_one A6f (a6 ordering substr syntax len single col num u e ++ junk).
Proof. apply opt_seg_follow, afollow7. Qed.
Lemma afollow5 equality ordering substr syntax len single col num u e junk :
  starts_with_one A5f (a5 equality ordering substr syntax len single col num u e ++ junk).
Proof. apply opt_seg_follow, afollow6. Qed.
Lemma afollow4 sup equality ordering substr syntax len single col num u e junk :
  starts_with_one A4f (a4 sup equality ordering substr syntax len single col num u e ++ junk).
Proof. apply opt_seg_follow, afollow5. Qed.

Definition flag_opt (kw : list N) (b : bool) : option (list N) := if b then Some ([32] ++ kw) else None.

Definition QA13 e (w : list N) (c : caps) := group_text w c 65 = Some (ext_text e).
Definition QA12 u e w c := group_text w c 64 = usage_text u /\ QA13 e w c.
Definition QA11 num u e w c := group_text w c 62 = flag_opt s_NOUSERMOD num /\ QA12 u e w c.
Definition QA10 col num u e w c := group_text w c 61 = flag_opt s_COLLECTIVE col /\ QA11 num u e w c.
Definition QA9 single col num u e w c := group_text w c 60 = flag_opt s_SINGLE single /\ QA10 col num u e w c.
Definition QA8 syntax len single col num u e w c := group_text w c 53 = syn_opt syntax len /\ QA9 single col num u e w c.
Definition QA7 (substr : option ustr) syntax len single col num u e w c :=
  group_text w c 45 = substr /\ QA8 syntax len single col num u e w c.
Definition QA6 (ordering : option ustr) substr syntax len single col num u e w c :=
  group_text w c 37 = ordering /\ QA7 substr syntax len single col num u e w c.
Definition QA5 (equality : option ustr) ordering substr syntax len single col num u e w c :=
  group_text w c 29 = equality /\ QA6 ordering substr syntax len single col num u e w c.
Definition QA4 (sup : option ustr) equality ordering substr syntax len single col num u e w c :=
  group_text w c 21 = sup /\ QA5 equality ordering substr syntax len single col num u e w c.

Lemma afirst13 x : first AT_t13 x = sp_or_close x.
Proof. apply (first_ext_tail 65). Qed.
Lemma afirst12 x : first AT_t12 x = sp_or_close x.
Proof. apply first_opt_then, afirst13. Qed.
Lemma afirst11 x : first AT_t11 x = sp_or_close x.
Proof. apply first_opt_then, afirst12. Qed.
Lemma afirst10 x : first AT_t10 x = sp_or_close x.
Proof. apply first_opt_then, afirst11. Qed.
Lemma afirst9 x : first AT_t9 x = sp_or_close x.
Proof. apply first_opt_then, afirst10. Qed.
Lemma afirst8 x : first AT_t8 x = sp_or_close x.
Proof. apply first_opt_then, afirst9. Qed.
Lemma afirst7 x : first AT_t7 x = sp_or_close x.
Proof. apply first_opt_then, afirst8. Qed.
Lemma afirst6 x : first AT_t6 x = sp_or_close x.
Proof. apply first_opt_then, afirst7. Qed.
Lemma afirst5 x : first AT_t5 x = sp_or_close x.
Proof. apply first_opt_then, afirst6. Qed.
Lemma afirst4 x : first AT_t4 x = sp_or_close x.
Proof. apply first_opt_then, afirst5. Qed.

Lemma at_t13 e : Forall ext_ok e -> tail_ok AT_t13 (t8 e) 65 (QA13 e).
Proof. intros He. apply (ext_tail 65); [lia|assumption]. Qed.

Lemma m_USAGE u t rest pos cs k : usage_text u = Some t -> eats USAGEr t rest pos cs k 1 0.
Proof.
  intros Hu. unfold USAGEr.
  assert (Hc : t = u_dir \/ t = u_dist \/ t = u_dsa).
  { destruct u as [|[[|[]|]|[|[]|]|]]; cbn in Hu; try discriminate; injection Hu as <-; auto. }
  destruct Hc as [-> | [-> | ->]].
  - apply eats_alt_r; [apply lit'_no; apply mismatch_app; reflexivity|]. apply eats_alt_l. apply eats_lit'. discriminate.
  - apply eats_alt_r; [apply lit'_no; apply mismatch_app; reflexivity|].
    apply eats_alt_r; [apply lit'_no; apply mismatch_app; reflexivity|]. apply eats_alt_l. apply eats_lit'. discriminate.
  - apply eats_alt_r; [apply lit'_no; apply mismatch_app; reflexivity|].
    apply eats_alt_r; [apply lit'_no; apply mismatch_app; reflexivity|].
    apply eats_alt_r; [apply lit'_no; apply mismatch_app; reflexivity|]. apply eats_lit'. discriminate.
Qed.

Lemma at_t12 u e : Forall ext_ok e -> tail_ok AT_t12 (a12 u e) 63 (QA12 u e).
Proof.
  intros He. unfold AT_t12, a12, QA12. destruct (usage_text u) as [t|] eqn:Eu.
  - assert (Ht : starts_not is_sp t /\ t <> []).
    { destruct u as [|[[|[]|]|[|[]|]|]]; cbn in Eu; try discriminate; injection Eu as <-; split; try reflexivity; discriminate. }
    destruct Ht as [Ht1 Ht2].
    apply (tail_kw_present AT_t13 (t8 e) 65 (QA13 e) 63 64 s_USAGE USAGEr t 1 0 no_class); try lia; try reflexivity; try assumption.
    + now apply at_t13.
    + intros junk p c k' _. now apply (m_USAGE u).
    + intros x s p c Hx. discriminate.
  - cbn [opt_seg app]. apply (tail_kw_absent AT_t13 (t8 e) 65 (QA13 e) 63 64 s_USAGE _ F8); try lia; try reflexivity.
    + now apply at_t13.
    + intros junk. apply follow8.
Qed.

Lemma flag_part T txt lo Q g kw (b : bool) F :
  tail_ok T txt lo Q -> (g < lo)%nat -> (lo <= 200)%nat -> kw <> [] -> starts_not is_sp kw ->
  (forall junk, starts_with_one F (txt ++ junk)) -> forallb (kw_skips kw) F = true ->
  tail_ok (Cat (FLAGSEG g kw) T) (flag_seg kw b ++ txt) g (fun w c => group_text w c g = flag_opt kw b /\ Q w c).
Proof.
  intros HT Hg Hl Hne Hs HF Hsk. destruct b.
  - now apply (tail_flag_present T txt lo Q g kw).
  - cbn [flag_seg app flag_opt]. now apply (tail_flag_absent T txt lo Q g kw F).
Qed.

Lemma at_t11 num u e : Forall ext_ok e -> tail_ok AT_t11 (a11 num u e) 62 (QA11 num u e).
Proof.
  intros He. apply (flag_part AT_t12 (a12 u e) 63 (QA12 u e) 62 s_NOUSERMOD num A12f); try lia; try reflexivity; try discriminate.
  - now apply at_t12.
  - intros junk. apply afollow12.
Qed.
Lemma at_t10 col num u e : Forall ext_ok e -> tail_ok AT_t10 (a10 col num u e) 61 (QA10 col num u e).
Proof.
  intros He. apply (flag_part AT_t11 (a11 num u e) 62 (QA11 num u e) 61 s_COLLECTIVE col A11f); try lia; try reflexivity; try discriminate.
  - now apply at_t11.
  - intros junk. apply afollow11.
Qed.
Lemma at_t9 single col num u e : Forall ext_ok e -> tail_ok AT_t9 (a9 single col num u e) 60 (QA9 single col num u e).
Proof.
  intros He. apply (flag_part AT_t10 (a10 col num u e) 61 (QA10 col num u e) 60 s_SINGLE single A10f); try lia; try reflexivity; try discriminate.
  - now apply at_t10.
  - intros junk. apply afollow10.
Qed.

Definition syn_ok (syntax : option ustr) (len : option Z) : Prop :=
  match syntax with Some s => numoid_ok s /\ len_ok len | None => len = None end.

Lemma at_t8 syntax len single col num u e : syn_ok syntax len -> Forall ext_ok e ->
  tail_ok AT_t8 (a8 syntax len single col num u e) 52 (QA8 syntax len single col num u e).
Proof.
  intros Hsy He. unfold AT_t8, a8, QA8. destruct syntax as [s|].
  - destruct Hsy as [Hs Hl]. cbn [syn_opt opt_seg].
    destruct (numoid_chars s Hs) as [Hne Hch]. destruct s as [|c0 s0]; [congruence|]. inversion Hch as [|? ? Hc0 _]; subst.
    apply (tail_kw_present AT_t9 _ 60 (QA9 single col num u e) 52 53 s_SYNTAX (Alt (NOIDLENr 54) (QDSTRINGr 59)) (syn_text (c0 :: s0) len) 54 59 is_digdot);
      try lia; try reflexivity.
    + now apply at_t9.
    + cbn. chr_tac.
    + discriminate.
    + intros junk p c k' Hk'. apply m_SYNTAX; [assumption|assumption| |assumption].
      destruct (starts_sp A9f _ (afollow9 single col num u e junk) eq_refl) as (s' & ->). reflexivity.
    + apply tail_rejects; [reflexivity|apply afirst9|apply digdot_not_sp].
  - cbn [syn_opt opt_seg app]. apply (tail_kw_absent AT_t9 _ 60 (QA9 single col num u e) 52 53 s_SYNTAX _ A9f); try lia; try reflexivity.
    + now apply at_t9.
    + intros junk. apply afollow9.
Qed.

Definition oid_opt_ok (o : option ustr) : Prop := match o with Some v => oid_ok v | None => True end.

Lemma at_t7 substr syntax len single col num u e : oid_opt_ok substr -> syn_ok syntax len -> Forall ext_ok e ->
  tail_ok AT_t7 (a7 substr syntax len single col num u e) 44 (QA7 substr syntax len single col num u e).
Proof.
  intros H1 Hsy He.
  apply (oid1_part AT_t8 _ 52 (QA8 syntax len single col num u e) 44 45 s_SUBSTR substr A8f); try lia; try reflexivity; try assumption.
  - now apply at_t8.
  - intros junk. apply afollow8.
  - apply afirst8.
Qed.
Lemma at_t6 ordering substr syntax len single col num u e : oid_opt_ok ordering -> oid_opt_ok substr -> syn_ok syntax len -> Forall ext_ok e ->
  tail_ok AT_t6 (a6 ordering substr syntax len single col num u e) 36 (QA6 ordering substr syntax len single col num u e).
Proof.
  intros H0 H1 Hsy He.
  apply (oid1_part AT_t7 _ 44 (QA7 substr syntax len single col num u e) 36 37 s_ORDERING ordering A7f); try lia; try reflexivity; try assumption.
  - now apply at_t7.
  - intros junk. apply afollow7.
  - apply afirst7.
Qed.
Lemma at_t5 equality ordering substr syntax len single col num u e :
  oid_opt_ok equality -> oid_opt_ok ordering -> oid_opt_ok substr -> syn_ok syntax len -> Forall ext_ok e ->
  tail_ok AT_t5 (a5 equality ordering substr syntax len single col num u e) 28 (QA5 equality ordering substr syntax len single col num u e).
Proof.
  intros Hq H0 H1 Hsy He.
  apply (oid1_part AT_t6 _ 36 (QA6 ordering substr syntax len single col num u e) 28 29 s_EQUALITY equality A6f); try lia; try reflexivity; try assumption.
  - now apply at_t6.
  - intros junk. apply afollow6.
  - apply afirst6.
Qed.
Lemma at_t4 sup equality ordering substr syntax len single col num u e :
  oid_opt_ok sup -> oid_opt_ok equality -> oid_opt_ok ordering -> oid_opt_ok substr -> syn_ok syntax len -> Forall ext_ok e ->
  tail_ok AT_t4 (a4 sup equality ordering substr syntax len single col num u e) 20
    (QA4 sup equality ordering substr syntax len single col num u e).
Proof.
  intros Hp Hq H0 H1 Hsy He.
  apply (oid1_part AT_t5 _ 28 (QA5 equality ordering substr syntax len single col num u e) 20 21 s_SUP sup A5f); try lia; try reflexivity; try assumption.
  - now apply at_t5.
  - intros junk. apply afollow5.
  - apply afirst5.
Qed.

(* ---- reading the SYNTAX value back *)
Lemma digdot_no_quote (t : list N) : Forall (fun c => is_digdot c = true) t -> ~ In SQ t.
Proof. intros H Hin. rewrite Forall_forall in H. specialize (H _ Hin). discriminate H. Qed.

Lemma arc_digdot a : arc_ok a -> Forall (fun c => is_digdot c = true) a.
Proof. intros H. eapply Forall_impl; [|apply arc_chars; exact H]. intros c Hc. chr_tac. Qed.

Lemma syntax_back syntax len : syn_ok syntax len ->
  split_syntax (syn_opt syntax len) = Ok (syntax, len) /\ restrip_syntax syntax = syntax.
Proof.
  intros H. destruct syntax as [s|]; cbn [syn_ok syn_opt] in *.
  2: { subst len. split; reflexivity. }
  destruct H as [Hs Hl]. destruct (numoid_chars s Hs) as [Hne Hch].
  assert (Sq : strip_chars [SQ] s = s) by (apply strip_quotes_none, digdot_no_quote, Hch).
  split.
  2: { destruct s as [|c0 s0]; [congruence|]. cbn [restrip_syntax]. now rewrite Sq. }
  destruct len as [z|]; cbn [len_ok] in Hl.
  - unfold syn_text, len_text. destruct (len_arc z Hl) as [Ha Hv].
    set (t := s ++ [123] ++ str_of_int z ++ [125]).
    assert (Hq : strip_chars [SQ] t = t).
    { apply strip_quotes_none. unfold t. intros Hin. apply in_app_or in Hin. destruct Hin as [Hin|Hin]; [now apply (digdot_no_quote s Hch)|].
      cbn [app] in Hin. destruct Hin as [Hin|Hin]; [discriminate|]. apply in_app_or in Hin. destruct Hin as [Hin|Hin].
      - now apply (digdot_no_quote _ (arc_digdot _ Ha)).
      - cbn in Hin. destruct Hin as [Hin|[]]. discriminate. }
    destruct (noidlen_yes s z Hs Hl) as (e & c2 & Em & G1 & G2). fold t in Em, G1, G2.
    unfold split_syntax. destruct t as [|c0 t0] eqn:Et; [destruct s; [congruence|discriminate]|]. rewrite <- Et in *.
    cbv zeta. rewrite Hq, Em, G1, G2, Hv. reflexivity.
  - unfold syn_text, len_text. rewrite app_nil_r. unfold split_syntax. destruct s as [|c0 s0] eqn:Es; [congruence|]. rewrite <- Es in *.
    cbv zeta. rewrite Sq, (noidlen_no s Hs). reflexivity.
Qed.

Record wf_at (a : attrtype) : Prop := {
  a_oid : numoid_ok (at_oid a);
  a_names : Forall descr_ok (at_names a);
  a_desc : match at_desc a with Some v => v <> [] | None => True end;
  a_sup : oid_opt_ok (at_sup a);
  a_equality : oid_opt_ok (at_equality a);
  a_ordering : oid_opt_ok (at_ordering a);
  a_substr : oid_opt_ok (at_substr a);
  a_syntax : syn_ok (at_syntax a) (at_syntax_len a);
  a_usage : at_usage a = 0 \/ at_usage a = 1 \/ at_usage a = 2 \/ at_usage a = 3;
  a_ext : Forall ext_ok (at_ext a);
  a_keys : NoDup (keys_of (at_ext a)) }.

Definition at_text_of (a : attrtype) : list N :=
  head_text (a4 (at_sup a) (at_equality a) (at_ordering a) (at_substr a) (at_syntax a) (at_syntax_len a)
                (at_single a) (at_collective a) (at_no_user_mod a) (at_usage a) (at_ext a))
            (at_oid a) (at_names a) (at_desc a) (at_obsolete a).

Lemma opt_kw_seg k kw o : k = [32] ++ kw ++ [32] -> opt_kw k o = opt_seg kw o.
Proof. intros ->. destruct o; [|reflexivity]. unfold opt_kw, opt_seg, seg_kw. now rewrite <- !app_assoc. Qed.

Lemma at_print_text a : at_print a = Ok (at_text_of a).
Proof.
  unfold at_print. rewrite print_desc_seg. cbn [bind]. rewrite print_ext_spec. cbn [bind]. f_equal.
  unfold at_text_of, head_text, h1, h2, h3, wrap, a4, a5, a6, a7, a8, a9, a10, a11, a12, t8, ext_text.
  rewrite print_names_seg, (opt_kw_seg k_SUP s_SUP), (opt_kw_seg k_EQUALITY s_EQUALITY), (opt_kw_seg k_ORDERING s_ORDERING),
    (opt_kw_seg k_SUBSTR s_SUBSTR) by reflexivity.
  replace (match at_syntax a with
           | Some s => k_SYNTAX ++ s ++ match at_syntax_len a with Some l => [LCURLY] ++ str_of_int l ++ [RCURLY] | None => [] end
           | None => [] end) with (opt_seg s_SYNTAX (syn_opt (at_syntax a) (at_syntax_len a))).
  2: { destruct (at_syntax a) as [s|]; [|reflexivity]. cbn [syn_opt opt_seg]. unfold seg_kw, syn_text, len_text.
       destruct (at_syntax_len a); reflexivity. }
  replace (match at_usage a with 1 => k_USAGE ++ s_directoryOperation | 2 => k_USAGE ++ s_distributedOperation
           | 3 => k_USAGE ++ s_dSAOperation | _ => [] end) with (opt_seg s_USAGE (usage_text (at_usage a))).
  2: { destruct (at_usage a) as [|[[|[]|]|[|[]|]|]]; reflexivity. }
  change (if at_obsolete a then k_OBSOLETE else []) with (flag_seg s_OBSOLETE (at_obsolete a)).
  change (if at_single a then k_SINGLE else []) with (flag_seg s_SINGLE (at_single a)).
  change (if at_collective a then k_COLLECTIVE else []) with (flag_seg s_COLLECTIVE (at_collective a)).
  change (if at_no_user_mod a then k_NOUSERMOD else []) with (flag_seg s_NOUSERMOD (at_no_user_mod a)).
  change [LP; SPC] with [40; 32]. change [SPC; RP] with [32; 41].
  rewrite <- !app_assoc. reflexivity.
Qed.

Theorem at_round_trip a : wf_at a -> exists s, at_print a = Ok s /\ at_from_string s = Ok a.
Proof.
  intros [Ho Hn Hd Hp Hq Hr Hb Hsy Hu He Hnd]. exists (at_text_of a). split; [apply at_print_text|].
  destruct (head_match AT_t4 _ _ A4f
              (at_t4 (at_sup a) (at_equality a) (at_ordering a) (at_substr a) (at_syntax a) (at_syntax_len a)
                     (at_single a) (at_collective a) (at_no_user_mod a) (at_usage a) (at_ext a) Hp Hq Hr Hb Hsy He)
              (afollow4 _ _ _ _ _ _ _ _ _ _ _) eq_refl eq_refl eq_refl eq_refl eq_refl afirst4
              (at_oid a) (at_names a) (at_desc a) (at_obsolete a) [] Ho Hn Hd)
    as (c' & Em & G1 & G6' & G17 & G19 & G21 & G29 & G37 & G45 & G53 & G60 & G61 & G62 & G64 & G65).
  rewrite app_nil_r in *. fold (at_text_of a) in *.
  unfold at_from_string, do_match. unfold rx_attribute_type_end. rewrite at_regex_eq, re_match_BT. fold kf.
  change R_at with (HR AT_t4). rewrite Em. cbn [bind]. unfold grp.
  unfold rx_attribute_type_g_syntax, rx_attribute_type_g_usage, rx_attribute_type_g_desc, rx_attribute_type_g_extensions,
    rx_attribute_type_g_oid, rx_attribute_type_g_name, rx_attribute_type_g_obsolete, rx_attribute_type_g_sup,
    rx_attribute_type_g_equality, rx_attribute_type_g_ordering, rx_attribute_type_g_substr, rx_attribute_type_g_single_value,
    rx_attribute_type_g_collective, rx_attribute_type_g_no_user_modification.
  rewrite G1, G6', G17, G19, G21, G29, G37, G45, G53, G60, G61, G62, G64, G65.
  destruct (syntax_back (at_syntax a) (at_syntax_len a) Hsy) as [Ssplit Sstrip].
  rewrite Ssplit. cbn [bind]. rewrite Sstrip.
  match goal with |- context [parse_qdstring_opt ?x] => replace (parse_qdstring_opt x) with (@Ok (option ustr) (at_desc a)) by (symmetry; apply parse_desc_back) end.
  cbn [bind]. rewrite parse_ext_back by assumption. cbn [bind].
  match goal with |- context [parse_names ?x] => replace (parse_names x) with (at_names a) by (symmetry; now apply parse_names_back) end.
  replace (truthy (if at_obsolete a then Some ([32] ++ s_OBSOLETE) else None)) with (at_obsolete a) by (destruct (at_obsolete a); reflexivity).
  replace (truthy (flag_opt s_SINGLE (at_single a))) with (at_single a) by (destruct (at_single a); reflexivity).
  replace (truthy (flag_opt s_COLLECTIVE (at_collective a))) with (at_collective a) by (destruct (at_collective a); reflexivity).
  replace (truthy (flag_opt s_NOUSERMOD (at_no_user_mod a))) with (at_no_user_mod a) by (destruct (at_no_user_mod a); reflexivity).
  destruct a as [oid names desc obs sup eq ord sub syn slen single col num usage ext].
  cbn [at_oid at_names at_desc at_obsolete at_sup at_equality at_ordering at_substr at_syntax at_syntax_len at_single at_collective
       at_no_user_mod at_usage at_ext] in *.
  destruct obs; destruct Hu as [-> | [-> | [-> | ->]]]; reflexivity.
Qed.

Example wf_at_example :
  wf_at (mkAT [50; 46; 53; 46; 52; 46; 51] [[99; 110]] (Some [120]) false (Some [110; 97; 109; 101]) None (Some [49; 46; 50]) None
              (Some [49; 46; 51; 46; 54]) (Some 32768%Z) true false true 1 []).
Proof.
  constructor; cbn.
  - exists [50], [53], [[52]; [51]]. repeat split; try reflexivity. repeat constructor.
  - repeat constructor.
  - discriminate.
  - left. repeat constructor.
  - exact I.
  - right. exists [49], [50], []. repeat split; constructor.
  - exact I.
  - split; [|lia]. exists [49], [51], [[54]]. repeat split; try reflexivity. repeat constructor.
  - right; left; reflexivity.
  - constructor.
  - constructor.
Qed.
