(* C16, shared by the three description types: the chain of optional parts between the numeric OID and the
   closing parenthesis.  The head (oid, NAME, DESC, OBSOLETE) and the end (extensions, closing parenthesis)
   are common; what lies between is supplied by each description type. *)
From Coq Require Import NArith List Bool Arith Lia ZifyBool.
From SV Require Import Base.Py Rx.Syntax Rx.Lemmas Rx.Bt Gen.Generated Schema.Model Schema.Proofs Schema.Regex Schema.Match.
Import ListNotations.
Local Open Scope N_scope.

(* ---- what the parts of the pattern can start with *)
Definition sp_or_close (x : N) : bool := (x =? 32) || (x =? 41).

Lemma first_optsp g B x : first (optg g (Cat SPr B)) x = (x =? 32).
Proof. unfold optg, SPr, ch. cbn [first nullable]. rewrite ok_ch. cbn [andb orb]. now rewrite !orb_false_r. Qed.

Lemma first_opt_then g B T x : (forall y, first T y = sp_or_close y) -> first (Cat (optg g (Cat SPr B)) T) x = sp_or_close x.
Proof. intros HT. cbn [first]. rewrite first_optsp, HT. unfold sp_or_close. cbn. destruct (x =? 32); reflexivity. Qed.

Lemma tail_rejects (T : rx) (C : N -> bool) :
  nullable T = false -> (forall x, first T x = sp_or_close x) -> (forall x, C x = true -> sp_or_close x = false) ->
  forall x s p c, C x = true -> BT T (x :: s) p c kf = BNo.
Proof. intros Hn Hf HC x s p c Hx. apply BT_reject; [|now left]. cbn [first_in]. rewrite Hf. now apply HC. Qed.

Lemma C_oid_not_sp x : C_oid x = true -> sp_or_close x = false.
Proof. unfold sp_or_close. chr_tac. Qed.
Lemma digdot_not_sp x : is_digdot x = true -> sp_or_close x = false.
Proof. unfold sp_or_close. chr_tac. Qed.

(* ---- texts of parts *)
Definition seg_kw (kw payload : list N) : list N := [32] ++ kw ++ [32] ++ payload.
Definition oids_seg (kw : list N) (l : list ustr) : list N := match l with [] => [] | _ => seg_kw kw (encode_oids l) end.
Definition opt_oids (l : list ustr) : option ustr := match l with [] => None | _ => Some (encode_oids l) end.
Definition opt_seg (kw : list N) (o : option ustr) : list N := match o with Some v => seg_kw kw v | None => [] end.
Definition flag_seg (kw : list N) (b : bool) : list N := if b then [32] ++ kw else [].
Definition t8 (e : list (ustr * list ustr)) : list N := ext_text e ++ [32; 41].

(* ---- what can follow an absent part *)
Definition starts32 (p : list N) : bool := match p with a :: _ => a =? 32 | [] => false end.

Lemma follow_skip p F s : starts_with_one F s -> starts_with_one (p :: F) s.
Proof. intros (q & r & Hin & ->). exists q, r. split; [now right|reflexivity]. Qed.
Lemma follow_here p F r : starts_with_one (p :: F) (p ++ r).
Proof. exists p, r. split; [now left|reflexivity]. Qed.

Definition F8 : list (list N) := [[32; 88; 45]; [32; 41]].

Lemma follow8 e junk : starts_with_one F8 (t8 e ++ junk).
Proof.
  unfold t8, ext_text. destruct e as [|[a vs] e].
  - exists [32; 41], junk. split; [right; now left|reflexivity].
  - cbn [flat_map fst snd]. destruct (ext_item_shape a vs) as (r & ->). eexists [32; 88; 45], _. split; [now left|].
    rewrite <- !app_assoc. reflexivity.
Qed.

Lemma oids_seg_follow kw l F t junk :
  starts_with_one F (t ++ junk) -> starts_with_one (([32] ++ kw ++ [32]) :: F) ((oids_seg kw l ++ t) ++ junk).
Proof.
  intros H. destruct l as [|x l]; [now apply follow_skip|].
  unfold oids_seg, seg_kw. replace ((([32] ++ kw ++ [32] ++ encode_oids (x :: l)) ++ t) ++ junk)
    with (([32] ++ kw ++ [32]) ++ (encode_oids (x :: l) ++ t ++ junk)) by (rewrite <- !app_assoc; reflexivity).
  apply follow_here.
Qed.

Lemma opt_seg_follow kw o F t junk :
  starts_with_one F (t ++ junk) -> starts_with_one (([32] ++ kw ++ [32]) :: F) ((opt_seg kw o ++ t) ++ junk).
Proof.
  intros H. destruct o as [v|]; [|now apply follow_skip].
  unfold opt_seg, seg_kw. replace ((([32] ++ kw ++ [32] ++ v) ++ t) ++ junk)
    with (([32] ++ kw ++ [32]) ++ (v ++ t ++ junk)) by (rewrite <- !app_assoc; reflexivity).
  apply follow_here.
Qed.

Lemma flag_seg_follow kw b F t junk :
  starts_with_one F (t ++ junk) -> starts_with_one (([32] ++ kw) :: F) ((flag_seg kw b ++ t) ++ junk).
Proof.
  intros H. destruct b; [|now apply follow_skip]. unfold flag_seg. rewrite <- app_assoc. apply follow_here.
Qed.

Lemma starts_sp F s : starts_with_one F s -> forallb starts32 F = true -> exists s', s = 32 :: s'.
Proof.
  intros (p & r & Hin & ->) H. rewrite forallb_forall in H. specialize (H p Hin). destruct p as [|a p]; [discriminate|].
  apply N.eqb_eq in H. subst a. eexists; reflexivity.
Qed.

Lemma tail_ok_total T txt lo Q : tail_ok T txt lo Q -> forall junk p c, BT T (txt ++ junk) p c kf <> BNo.
Proof.
  intros HT junk p c. destruct (HT (repeat 0 p ++ txt ++ junk) (repeat 0 p) junk c eq_refl) as (c'' & _ & E & _).
  rewrite repeat_length in E. rewrite E. discriminate.
Qed.

(* ---- the end of every description: extensions, white space, closing parenthesis *)
Definition EXT_tail (g : nat) : rx := Cat (Group g (EXTr (g + 1))) (Cat WSPr (ch 41)).

Lemma first_ext_tail g x : first (EXT_tail g) x = sp_or_close x.
Proof.
  unfold EXT_tail, EXTr, EXTITEM, SPr, WSPr, ch. cbn [first nullable]. rewrite !ok_ch. cbn [andb orb]. unfold sp_or_close.
  destruct (x =? 32); reflexivity.
Qed.

Lemma closing junk p c : BT (Cat WSPr (ch 41)) (32 :: 41 :: junk) p c kf = BYes (p + 2)%nat c.
Proof.
  rewrite BT_cat, BT_WSP1_yes; [|reflexivity|rewrite BT_ch_yes; discriminate]. rewrite BT_ch_yes. unfold kf. f_equal. lia.
Qed.

Lemma ext_tail g e : (g + 9 <= 200)%nat -> Forall ext_ok e ->
  tail_ok (EXT_tail g) (t8 e) g (fun w c => group_text w c g = Some (ext_text e)).
Proof.
  intros Hg He w pre junk cs Hw. unfold EXT_tail, t8. rewrite <- app_assoc. cbn [app].
  set (k := fun (s1 : list N) (p1 : nat) (c1 : caps) => BT (Cat WSPr (ch 41)) s1 p1 c1 kf).
  destruct (eats_group_top g (EXTr (g + 1)) (ext_text e) (32 :: 41 :: junk) (length pre) cs k (g + 1) (g + 1 + 8)) as (c1 & T1 & E1).
  { now apply m_EXT. }
  { intros c'. unfold k. rewrite closing. discriminate. }
  exists ((g, (length pre, (length pre + length (ext_text e))%nat)) :: c1). split; [|split].
  - eapply only_touches_trans; [apply (only_touches_wider (g + 1) (g + 1 + 8)); [lia|lia|exact T1]|]. apply only_touches_push. lia.
  - rewrite BT_cat. fold k. rewrite E1. unfold k. rewrite closing. f_equal. rewrite app_length. cbn [length]. lia.
  - intros _. unfold group_text. rewrite cap_lookup_push. f_equal. rewrite Hw. unfold t8. rewrite <- app_assoc.
    apply slice_mid; reflexivity.
Qed.

(* ---- a keyword followed by a list of object identifiers *)
Lemma encode_oids_first l : l <> [] -> Forall oid_ok l -> starts_not is_sp (encode_oids l) /\ encode_oids l <> [].
Proof.
  intros Hne Hl. destruct l as [|x [|y l]]; [congruence| |].
  - inversion Hl as [|? ? Hx _]; subst. destruct (oid_first x Hx) as (c & r & -> & Hc). cbn. split; [chr_tac|discriminate].
  - split; [reflexivity|discriminate].
Qed.

Lemma oids_part T txt lo Q g gm kw l F :
  tail_ok T txt lo Q ->
  (g < gm)%nat -> (gm + 21 < lo)%nat -> (lo <= 200)%nat ->
  starts_not is_sp (kw ++ [32]) ->
  Forall oid_ok l ->
  (forall junk, starts_with_one F (txt ++ junk)) ->
  forallb starts32 F = true ->
  forallb (kw_skips kw) F = true ->
  nullable T = false -> (forall x, first T x = sp_or_close x) ->
  tail_ok (Cat (KWSEG g gm kw (OIDSr (gm + 1))) T) (oids_seg kw l ++ txt) g
    (fun w c => group_text w c gm = opt_oids l /\ Q w c).
Proof.
  intros HT Hg1 Hg2 Hg3 Hkw Hl HF Hsp Hsk Hn Hf. destruct l as [|x l'].
  - cbn [oids_seg app opt_oids]. apply (tail_kw_absent T txt lo Q g gm kw _ F); [assumption|lia|lia|assumption|assumption].
  - set (l := x :: l') in *. destruct (encode_oids_first l ltac:(discriminate) Hl) as [Hs Hne].
    change (oids_seg kw l) with ([32] ++ kw ++ [32] ++ encode_oids l). change (opt_oids l) with (Some (encode_oids l)).
    apply (tail_kw_present T txt lo Q g gm kw (OIDSr (gm + 1)) (encode_oids l) (gm + 1) (gm + 1 + 20) C_oid); try assumption; try lia.
    + intros junk p c k' Hk'. apply m_OIDS; [discriminate|assumption| |assumption].
      destruct (starts_sp F _ (HF junk) Hsp) as (s' & ->). reflexivity.
    + apply tail_rejects; [assumption|assumption|apply C_oid_not_sp].
Qed.

Lemma eats_lit' w rest pos cs k lo hi : w <> [] -> eats (lit' w) w rest pos cs k lo hi.
Proof. intros Hw. apply (eats_eq _ _ _ _ _ _ _ _ cs); [apply only_touches_refl|]. now apply BT_lit'. Qed.

Lemma names_text_first names : names <> [] -> starts_not is_sp (names_text names) /\ names_text names <> [].
Proof. intros Hne. destruct names as [|n [|n2 ns]]; [congruence| |]; split; try reflexivity; discriminate. Qed.

(* ---- the head of every description: "( " oid [NAME ..] [DESC ..] [OBSOLETE] then the type's own parts *)
Section Head.
  Variables (T4 : rx) (txt4 : list N) (Q4 : list N -> caps -> Prop) (F4 : list (list N)).
  Hypothesis HT4 : tail_ok T4 txt4 20 Q4.
  Hypothesis HF4 : forall junk, starts_with_one F4 (txt4 ++ junk).
  Hypothesis Hsp4 : forallb starts32 F4 = true.
  Hypothesis Hsk19 : forallb (kw_skips s_OBSOLETE) F4 = true.
  Hypothesis Hsk16 : forallb (kw_skips s_DESC) F4 = true.
  Hypothesis Hsk5 : forallb (kw_skips s_NAME) F4 = true.
  Hypothesis Hn4 : nullable T4 = false.
  Hypothesis Hf4 : forall x, first T4 x = sp_or_close x.

  Definition H3 : rx := Cat (FLAGSEG 19 s_OBSOLETE) T4.
  Definition H2 : rx := Cat (KWSEG 16 17 s_DESC (QDSTRINGr 18)) H3.
  Definition H1 : rx := Cat (KWSEG 5 6 s_NAME (QDESCRSr 7)) H2.
  Definition HR : rx := Cat (ch 40) (Cat WSPr (Cat (Group 1 (NUMOID 2)) H1)).

  Definition names_seg (names : list ustr) : list N := match names with [] => [] | _ => seg_kw s_NAME (names_text names) end.
  Definition desc_seg (desc : option ustr) : list N := match desc with Some v => seg_kw s_DESC (qd v) | None => [] end.
  Definition h3 (obs : bool) : list N := flag_seg s_OBSOLETE obs ++ txt4.
  Definition h2 desc obs : list N := desc_seg desc ++ h3 obs.
  Definition h1 names desc obs : list N := names_seg names ++ h2 desc obs.
  Definition head_text oid names desc obs : list N := [40; 32] ++ oid ++ h1 names desc obs.

  Definition QH3 (obs : bool) w c := group_text w c 19 = (if obs then Some ([32] ++ s_OBSOLETE) else None) /\ Q4 w c.
  Definition QH2 (desc : option ustr) obs w c :=
    group_text w c 17 = (match desc with Some v => Some (qd v) | None => None end) /\ QH3 obs w c.
  Definition QH1 (names : list ustr) desc obs w c :=
    group_text w c 6 = (match names with [] => None | _ => Some (names_text names) end) /\ QH2 desc obs w c.

  Definition FH3 := ([32] ++ s_OBSOLETE) :: F4.
  Definition FH2 := ([32] ++ s_DESC ++ [32]) :: FH3.
  Definition FH1 := ([32] ++ s_NAME ++ [32]) :: FH2.

  Lemma followH3 obs junk : starts_with_one FH3 (h3 obs ++ junk).
  Proof. apply flag_seg_follow, HF4. Qed.
  Lemma followH2 desc obs junk : starts_with_one FH2 (h2 desc obs ++ junk).
  Proof.
    unfold h2, desc_seg. destruct desc as [v|]; [|apply follow_skip, followH3].
    apply (opt_seg_follow s_DESC (Some (qd v))), followH3.
  Qed.
  Lemma followH1 names desc obs junk : starts_with_one FH1 (h1 names desc obs ++ junk).
  Proof.
    unfold h1, names_seg. destruct names as [|n ns]; [apply follow_skip, followH2|].
    apply (opt_seg_follow s_NAME (Some (names_text (n :: ns)))), followH2.
  Qed.

  Lemma first_H3 x : first H3 x = sp_or_close x.
  Proof. apply first_opt_then, Hf4. Qed.
  Lemma first_H2 x : first H2 x = sp_or_close x.
  Proof. apply first_opt_then, first_H3. Qed.
  Lemma first_H1 x : first H1 x = sp_or_close x.
  Proof. apply first_opt_then, first_H2. Qed.

  Lemma head_t3 obs : tail_ok H3 (h3 obs) 19 (QH3 obs).
  Proof.
    unfold H3, h3, QH3. destruct obs.
    - apply (tail_flag_present T4 _ 20 Q4 19 s_OBSOLETE); try lia; try reflexivity; try discriminate. exact HT4.
    - cbn [flag_seg app]. apply (tail_flag_absent T4 _ 20 Q4 19 s_OBSOLETE F4); try lia; assumption.
  Qed.

  Lemma head_t2 desc obs : match desc with Some v => v <> [] | None => True end -> tail_ok H2 (h2 desc obs) 16 (QH2 desc obs).
  Proof.
    intros Hd. unfold H2, h2, QH2, desc_seg. destruct desc as [v|].
    - apply (tail_kw_present H3 _ 19 (QH3 obs) 16 17 s_DESC (QDSTRINGr 18) (qd v) 18 18 no_class);
        try lia; try reflexivity; try discriminate.
      + apply head_t3.
      + intros junk p c k' _. now apply m_QDSTRING.
    - cbn [app]. apply (tail_kw_absent H3 _ 19 (QH3 obs) 16 17 s_DESC _ FH3); try lia.
      + apply head_t3.
      + intros junk. apply followH3.
      + unfold FH3. cbn [forallb]. rewrite Hsk16. reflexivity.
  Qed.

  Lemma head_t1 names desc obs :
    Forall descr_ok names -> match desc with Some v => v <> [] | None => True end ->
    tail_ok H1 (h1 names desc obs) 5 (QH1 names desc obs).
  Proof.
    intros Hn Hd. unfold H1, h1, QH1, names_seg. destruct names as [|n ns].
    - cbn [app]. apply (tail_kw_absent H2 _ 16 (QH2 desc obs) 5 6 s_NAME _ FH2); try lia.
      + now apply head_t2.
      + intros junk. apply followH2.
      + unfold FH2, FH3. cbn [forallb]. rewrite Hsk5. reflexivity.
    - set (names := n :: ns) in *. destruct (names_text_first names ltac:(discriminate)) as [Hsp Hne].
      apply (tail_kw_present H2 _ 16 (QH2 desc obs) 5 6 s_NAME (QDESCRSr 7) (names_text names) 7 (7 + 8) no_class);
        try lia; try reflexivity; try assumption.
      + now apply head_t2.
      + intros junk p c k' _. apply m_QDESCRS; [discriminate|assumption].
      + intros x s p c Hx. discriminate.
  Qed.

  (* the whole pattern on the whole text *)
  Lemma head_match oid names desc obs junk :
    numoid_ok oid -> Forall descr_ok names -> match desc with Some v => v <> [] | None => True end ->
    let s := head_text oid names desc obs in
    exists c', BT HR (s ++ junk) 0 [] kf = BYes (length s) c' /\
               group_text (s ++ junk) c' 1 = Some oid /\ QH1 names desc obs (s ++ junk) c'.
  Proof.
    intros Ho Hn Hd s.
    pose proof (head_t1 names desc obs Hn Hd) as HT.
    set (tt := h1 names desc obs) in *.
    set (k1 := fun (s1 : list N) (p1 : nat) (c1 : caps) => BT H1 s1 p1 c1 kf).
    destruct (eats_group_top 1 (NUMOID 2) oid (tt ++ junk) 2 [] k1 2 (2 + 2)) as (c1 & T1 & E1).
    { apply m_NUMOID_eats; [assumption| |].
      - assert (Hs1 : forallb starts32 FH1 = true) by (unfold FH1, FH2, FH3; cbn [forallb]; rewrite Hsp4; reflexivity).
        destruct (starts_sp FH1 _ (followH1 names desc obs junk) Hs1) as (s' & E). fold tt in E. rewrite E. reflexivity.
      - intros x s0 p c Hx. apply (tail_rejects H1 is_digdot); [|apply first_H1|apply digdot_not_sp|exact Hx].
        unfold H1, H2, H3. cbn [nullable]. rewrite Hn4. now rewrite !andb_false_r. }
    { intros c'. unfold k1. now apply (tail_ok_total _ _ _ _ HT). }
    assert (Hw : s ++ junk = ([40; 32] ++ oid) ++ tt ++ junk) by (unfold s, head_text; rewrite <- !app_assoc; reflexivity).
    destruct (HT (s ++ junk) ([40; 32] ++ oid) junk ((1%nat, (2%nat, (2 + length oid)%nat)) :: c1) Hw) as (c' & T' & E' & Q').
    assert (Lp : length ([40; 32] ++ oid) = (2 + length oid)%nat) by reflexivity. rewrite Lp in E'.
    assert (Inner : BT (Cat (Group 1 (NUMOID 2)) H1) (oid ++ tt ++ junk) 2 [] kf = BYes (length s) c').
    { rewrite BT_cat. fold k1. rewrite E1. unfold k1. rewrite E'. f_equal. unfold s, head_text. rewrite !app_length. cbn [length]. fold tt. lia. }
    exists c'. split; [|split].
    - unfold HR. rewrite Hw. rewrite <- app_assoc. cbn [app].
      rewrite BT_cat, BT_ch_yes, BT_cat. rewrite BT_WSP1_yes.
      + exact Inner.
      + destruct Ho as (a0 & a1 & arcs & -> & H0 & _). destruct (arc_first a0 H0) as (d & r & -> & Hd0). cbn. chr_tac.
      + rewrite Inner. discriminate.
    - unfold group_text. rewrite T' by lia. rewrite cap_lookup_push. f_equal. rewrite Hw.
      replace (([40; 32] ++ oid) ++ tt ++ junk) with ([40; 32] ++ oid ++ (tt ++ junk)) by (rewrite <- !app_assoc; reflexivity).
      apply slice_mid; reflexivity.
    - apply Q'. apply fresh_push; [lia|]. intros g Hg. rewrite T1 by lia. reflexivity.
  Qed.
End Head.

(* ---- from the grammar's well-formedness to what the field readers need *)
Lemma C_oid_plainc c : C_oid c = true -> plainc c.
Proof.
  intros H. unfold plainc, SPC, DOLLAR, SQ, LP, RP, is_ws, isspace_table. cbn [existsb].
  repeat split; try (intros ->; discriminate H).
  revert H. chr_tac.
Qed.

Lemma descr_plain d : descr_ok d -> plain d.
Proof.
  destruct d as [|a w]; [intros []|]. intros [Ha Hw]. split; [discriminate|]. constructor.
  - apply C_oid_plainc. chr_tac.
  - eapply Forall_impl; [|exact Hw]. intros c Hc. apply C_oid_plainc. chr_tac.
Qed.

Lemma arc_chars a : arc_ok a -> Forall (fun c => is_dig c = true) a.
Proof.
  destruct a as [|l [|d ds]]; cbn; [tauto| |].
  - intros H. now constructor.
  - intros (Hl & Hd & Hds). constructor; [chr_tac|]. now constructor.
Qed.

Lemma numoid_chars o : numoid_ok o -> o <> [] /\ Forall (fun c => is_digdot c = true) o.
Proof.
  intros (a0 & a1 & arcs & -> & H0 & H1 & Hs). split.
  - destruct (arc_first a0 H0) as (d & r & -> & _). discriminate.
  - apply Forall_app. split.
    + eapply Forall_impl; [|apply (arc_chars a0 H0)]. intros c Hc. chr_tac.
    + unfold dots. assert (G : forall l, Forall arc_ok l -> Forall (fun c => is_digdot c = true) (concat (map (cons 46) l))).
      { induction l as [|a l IH]; intros Hl; [constructor|]. inversion Hl; subst. cbn [map concat]. apply Forall_app. split; [|now apply IH].
        constructor; [reflexivity|]. eapply Forall_impl; [|apply arc_chars; eassumption]. intros c Hc. chr_tac. }
      apply G. now constructor.
Qed.

Lemma numoid_plain o : numoid_ok o -> plain o.
Proof.
  intros H. destruct (numoid_chars o H) as [Hne Hc]. split; [assumption|].
  eapply Forall_impl; [|exact Hc]. intros c Hd. apply C_oid_plainc. chr_tac.
Qed.

Lemma oid_plain o : oid_ok o -> plain o.
Proof. intros [H|H]; [now apply descr_plain|now apply numoid_plain]. Qed.

Lemma xkey_key a : xkey_ok a -> key_ok a.
Proof.
  intros [_ Ha] Hin. rewrite Forall_forall in Ha. specialize (Ha _ Hin). unfold SPC in Ha. discriminate Ha.
Qed.

Lemma print_names_seg names : print_names names = names_seg names.
Proof. destruct names as [|n [|n2 ns]]; reflexivity. Qed.
Lemma print_oids_seg k kw l : k = [32] ++ kw ++ [32] -> print_oids k l = oids_seg kw l.
Proof. intros ->. destruct l; [reflexivity|]. unfold print_oids, oids_seg, seg_kw. now rewrite <- !app_assoc. Qed.
Lemma print_desc_seg d : print_desc d = Ok (desc_seg d).
Proof. unfold print_desc. destruct d as [v|]; [|reflexivity]. rewrite encode_qdstring_spec. reflexivity. Qed.

Lemma parse_opt_oids l : Forall oid_ok l -> parse_oids (opt_oids l) = l.
Proof.
  intros Hl. destruct l as [|x l']; [reflexivity|]. apply oids_round_trip; [discriminate|].
  eapply Forall_impl; [|exact Hl]. apply oid_plain.
Qed.

Lemma parse_desc_back (d : option ustr) :
  parse_qdstring_opt (match d with Some v => Some (qd v) | None => None end) = Ok d.
Proof.
  destruct d as [v|]; [|reflexivity]. cbn [parse_qdstring_opt].
  destruct (qdstring_round_trip v) as (q & Eq & Pq). rewrite encode_qdstring_spec in Eq. injection Eq as Eq'. rewrite <- Eq' in Pq.
  unfold qd. cbn [app] in *. rewrite Pq. reflexivity.
Qed.

Lemma parse_ext_back e : Forall ext_ok e -> NoDup (keys_of e) -> parse_extensions (Some (ext_text e)) = Ok e.
Proof.
  intros He Hnd. destruct (extensions_round_trip e) as (t & Et & Pt); [|assumption|].
  - eapply Forall_impl; [|exact He]. intros x [Hx _]. now apply xkey_key.
  - rewrite print_ext_spec in Et. injection Et as <-. exact Pt.
Qed.

Lemma parse_names_back names : Forall descr_ok names ->
  parse_names (match names with [] => None | _ => Some (names_text names) end) = names.
Proof.
  intros Hn. destruct names as [|n ns]; [reflexivity|].
  assert (Hp : Forall plain (n :: ns)) by (eapply Forall_impl; [|exact Hn]; apply descr_plain).
  exact (names_round_trip (n :: ns) ltac:(discriminate) Hp).
Qed.
