(* C16 for DIT content rules. *)
From Coq Require Import NArith List Bool Arith Lia ZifyBool.
From SV Require Import Base.Py Rx.Syntax Rx.Lemmas Rx.Bt Gen.Generated Schema.Model Schema.Proofs Schema.Regex Schema.Match Schema.Chain.
Import ListNotations.
Local Open Scope N_scope.

Definition d7 nt e := oids_seg s_NOT nt ++ t8 e.
Definition d6 may nt e := oids_seg s_MAY may ++ d7 nt e.
Definition d5 must may nt e := oids_seg s_MUST must ++ d6 may nt e.
Definition d4 aux must may nt e := oids_seg s_AUX aux ++ d5 must may nt e.

Definition G7 := ([32] ++ s_NOT ++ [32]) :: F8.
Definition G6 := ([32] ++ s_MAY ++ [32]) :: G7.
Definition G5 := ([32] ++ s_MUST ++ [32]) :: G6.
Definition G4 := ([32] ++ s_AUX ++ [32]) :: G5.

Lemma dfollow7 nt e junk : starts_with_one G7 (d7 nt e ++ junk).
Proof. apply oids_seg_follow, follow8. Qed.
Lemma dfollow6 may nt e junk : starts_with_one G6 (d6 may nt e ++ junk).
Proof. apply oids_seg_follow, dfollow7. Qed.
Lemma dfollow5 must may nt e junk : starts_with_one G5 (d5 must may nt e ++ junk).
Proof. apply oids_seg_follow, dfollow6. Qed.
Lemma dfollow4 aux must may nt e junk : starts_with_one G4 (d4 aux must may nt e ++ junk).
Proof. apply oids_seg_follow, dfollow5. Qed.

Definition D8 e (w : list N) (c : caps) := group_text w c 112 = Some (ext_text e).
Definition D7 nt e w c := group_text w c 90 = opt_oids nt /\ D8 e w c.
Definition D6 may nt e w c := group_text w c 67 = opt_oids may /\ D7 nt e w c.
Definition D5 must may nt e w c := group_text w c 44 = opt_oids must /\ D6 may nt e w c.
Definition D4 aux must may nt e w c := group_text w c 21 = opt_oids aux /\ D5 must may nt e w c.

Lemma dfirst8 x : first DCR_t8 x = sp_or_close x.
Proof. apply (first_ext_tail 112). Qed.
Lemma dfirst7 x : first DCR_t7 x = sp_or_close x.
Proof. apply first_opt_then, dfirst8. Qed.
Lemma dfirst6 x : first DCR_t6 x = sp_or_close x.
Proof. apply first_opt_then, dfirst7. Qed.
Lemma dfirst5 x : first DCR_t5 x = sp_or_close x.
Proof. apply first_opt_then, dfirst6. Qed.
Lemma dfirst4 x : first DCR_t4 x = sp_or_close x.
Proof. apply first_opt_then, dfirst5. Qed.

Lemma dcr_t8 e : Forall ext_ok e -> tail_ok DCR_t8 (t8 e) 112 (D8 e).
Proof. intros He. apply (ext_tail 112); [lia|assumption]. Qed.

Lemma dcr_t7 nt e : Forall oid_ok nt -> Forall ext_ok e -> tail_ok DCR_t7 (d7 nt e) 89 (D7 nt e).
Proof.
  intros Hn He. unfold DCR_t7, d7, D7.
  apply (oids_part DCR_t8 (t8 e) 112 (D8 e) 89 90 s_NOT nt F8); try reflexivity; try lia; try assumption.
  - now apply dcr_t8.
  - intros junk. apply follow8.
  - apply dfirst8.
Qed.

Lemma dcr_t6 may nt e : Forall oid_ok may -> Forall oid_ok nt -> Forall ext_ok e -> tail_ok DCR_t6 (d6 may nt e) 66 (D6 may nt e).
Proof.
  intros Hm Hn He. unfold DCR_t6, d6, D6.
  apply (oids_part DCR_t7 (d7 nt e) 89 (D7 nt e) 66 67 s_MAY may G7); try reflexivity; try lia; try assumption.
  - now apply dcr_t7.
  - intros junk. apply dfollow7.
  - apply dfirst7.
Qed.

Lemma dcr_t5 must may nt e : Forall oid_ok must -> Forall oid_ok may -> Forall oid_ok nt -> Forall ext_ok e ->
  tail_ok DCR_t5 (d5 must may nt e) 43 (D5 must may nt e).
Proof.
  intros Hu Hm Hn He. unfold DCR_t5, d5, D5.
  apply (oids_part DCR_t6 (d6 may nt e) 66 (D6 may nt e) 43 44 s_MUST must G6); try reflexivity; try lia; try assumption.
  - now apply dcr_t6.
  - intros junk. apply dfollow6.
  - apply dfirst6.
Qed.

Lemma dcr_t4 aux must may nt e : Forall oid_ok aux -> Forall oid_ok must -> Forall oid_ok may -> Forall oid_ok nt -> Forall ext_ok e ->
  tail_ok DCR_t4 (d4 aux must may nt e) 20 (D4 aux must may nt e).
Proof.
  intros Ha Hu Hm Hn He. unfold DCR_t4, d4, D4.
  apply (oids_part DCR_t5 (d5 must may nt e) 43 (D5 must may nt e) 20 21 s_AUX aux G5); try reflexivity; try lia; try assumption.
  - now apply dcr_t5.
  - intros junk. apply dfollow5.
  - apply dfirst5.
Qed.

Record wf_dcr (o : ditrule) : Prop := {
  d_oid : numoid_ok (dc_oid o);
  d_names : Forall descr_ok (dc_names o);
  d_desc : match dc_desc o with Some v => v <> [] | None => True end;
  d_aux : Forall oid_ok (dc_aux o);
  d_must : Forall oid_ok (dc_must o);
  d_may : Forall oid_ok (dc_may o);
  d_not : Forall oid_ok (dc_not o);
  d_ext : Forall ext_ok (dc_ext o);
  d_keys : NoDup (keys_of (dc_ext o)) }.

Definition dcr_text_of (o : ditrule) : list N :=
  head_text (d4 (dc_aux o) (dc_must o) (dc_may o) (dc_not o) (dc_ext o)) (dc_oid o) (dc_names o) (dc_desc o) (dc_obsolete o).

Lemma dcr_print_text o : dcr_print o = Ok (dcr_text_of o).
Proof.
  unfold dcr_print. rewrite print_desc_seg. cbn [bind]. rewrite print_ext_spec. cbn [bind]. f_equal.
  unfold dcr_text_of, head_text, h1, h2, h3, flag_seg, wrap, d4, d5, d6, d7, t8, ext_text.
  rewrite print_names_seg, (print_oids_seg k_AUX s_AUX), (print_oids_seg k_MUST s_MUST), (print_oids_seg k_MAY s_MAY),
    (print_oids_seg k_NOT s_NOT) by reflexivity.
  change (if dc_obsolete o then k_OBSOLETE else []) with (if dc_obsolete o then [32] ++ s_OBSOLETE else []).
  change [LP; SPC] with [40; 32]. change [SPC; RP] with [32; 41].
  rewrite <- !app_assoc. reflexivity.
Qed.

Theorem dcr_round_trip o : wf_dcr o -> exists s, dcr_print o = Ok s /\ dcr_from_string s = Ok o.
Proof.
  intros [Ho Hn Hd Ha Hu Hm Hnt He Hnd]. exists (dcr_text_of o). split; [apply dcr_print_text|].
  destruct (head_match DCR_t4 (d4 (dc_aux o) (dc_must o) (dc_may o) (dc_not o) (dc_ext o))
              (D4 (dc_aux o) (dc_must o) (dc_may o) (dc_not o) (dc_ext o)) G4
              (dcr_t4 _ _ _ _ _ Ha Hu Hm Hnt He) (dfollow4 _ _ _ _ _) eq_refl eq_refl eq_refl eq_refl eq_refl dfirst4
              (dc_oid o) (dc_names o) (dc_desc o) (dc_obsolete o) [] Ho Hn Hd)
    as (c' & Em & G1 & G6' & G17 & G19 & G21 & G44 & G67 & G90 & G112).
  rewrite app_nil_r in *. fold (dcr_text_of o) in *.
  unfold dcr_from_string, do_match. unfold rx_dit_content_rule_end. rewrite dcr_regex_eq, re_match_BT. fold kf.
  change R_dcr with (HR DCR_t4). rewrite Em. cbn [bind]. unfold grp.
  unfold rx_dit_content_rule_g_desc, rx_dit_content_rule_g_extensions, rx_dit_content_rule_g_oid, rx_dit_content_rule_g_name,
    rx_dit_content_rule_g_obsolete, rx_dit_content_rule_g_aux, rx_dit_content_rule_g_must, rx_dit_content_rule_g_may, rx_dit_content_rule_g_not.
  rewrite G1, G6', G17, G19, G21, G44, G67, G90, G112.
  match goal with |- context [parse_qdstring_opt ?x] => replace (parse_qdstring_opt x) with (@Ok (option ustr) (dc_desc o)) by (symmetry; apply parse_desc_back) end.
  cbn [bind]. rewrite parse_ext_back by assumption. cbn [bind].
  match goal with |- context [parse_names ?x] => replace (parse_names x) with (dc_names o) by (symmetry; now apply parse_names_back) end.
  rewrite !parse_opt_oids by assumption.
  match goal with |- context [truthy ?x] => replace (truthy x) with (dc_obsolete o) by (destruct (dc_obsolete o); reflexivity) end.
  destruct o; reflexivity.
Qed.

Example wf_dcr_example :
  wf_dcr (mkDCR [50; 46; 53; 46; 54; 46; 49; 48] [[97; 98]] None false [[116; 111; 112]; [49; 46; 50]] [] [[99; 110]] [[120]]
                [([102; 111; 111], [[98]])]).
Proof.
  constructor; cbn.
  - exists [50], [53], [[54]; [49; 48]]. repeat split; try reflexivity. repeat constructor.
  - repeat constructor.
  - exact I.
  - constructor; [left; repeat constructor|]. constructor; [|constructor]. right. exists [49], [50], []. repeat split; constructor.
  - constructor.
  - constructor; [left; repeat constructor|constructor].
  - constructor; [left; repeat constructor|constructor].
  - repeat constructor; discriminate.
  - repeat constructor; cbn; intuition discriminate.
Qed.
