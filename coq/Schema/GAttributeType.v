(* C17 for attribute types, including the quoted SYNTAX value Active Directory emits. *)
From Coq Require Import NArith ZArith List Bool Arith Lia ZifyBool.
From SV Require Import Base.Py Rx.Syntax Rx.Lemmas Rx.Bt Gen.Generated Schema.Model Schema.Proofs Schema.Regex Schema.Match Schema.Chain
  Schema.IntText Schema.AttributeType Schema.GMatch Schema.GRead Schema.GChain Schema.GObjectClass.
Import ListNotations.
Local Open Scope N_scope.

Inductive syn_cst := SynPlain (s : list N) (l : option Z) | SynQuoted (s : list N) (l : option Z).
Definition syn_text_g (x : syn_cst) : list N :=
  match x with SynPlain s l => syn_text s l | SynQuoted s l => [39] ++ syn_text s l ++ [39] end.
Definition syn_s (x : syn_cst) := match x with SynPlain s _ | SynQuoted s _ => s end.
Definition syn_l (x : syn_cst) := match x with SynPlain _ l | SynQuoted _ l => l end.
Definition syn_wf (x : syn_cst) : Prop := numoid_ok (syn_s x) /\ len_ok (syn_l x).

Definition usage_name (u : N) : list N := match u with 0 => u_user | 1 => u_dir | 2 => u_dist | _ => u_dsa end.
Definition usage_wf (u : N) : Prop := u = 0 \/ u = 1 \/ u = 2 \/ u = 3.

Record at_cst := mkATc {
  at_h : head_cst;
  at_csup : part (list N); at_ceq : part (list N); at_cord : part (list N); at_csub : part (list N);
  at_csyn : part syn_cst; at_csingle : option nat; at_ccol : option nat; at_cnum : option nat;
  at_cusage : part N; at_cext : list ext_cst; at_cw1 : nat }.

Definition idf (o : list N) : list N := o.
Definition b13 c := end_text (at_cext c) (at_cw1 c).
Definition b12 c := part_text s_USAGE usage_name (at_cusage c) ++ b13 c.
Definition b11 c := flag_text s_NOUSERMOD (at_cnum c) ++ b12 c.
Definition b10 c := flag_text s_COLLECTIVE (at_ccol c) ++ b11 c.
Definition b9 c := flag_text s_SINGLE (at_csingle c) ++ b10 c.
Definition b8 c := part_text s_SYNTAX syn_text_g (at_csyn c) ++ b9 c.
Definition b7 c := part_text s_SUBSTR idf (at_csub c) ++ b8 c.
Definition b6 c := part_text s_ORDERING idf (at_cord c) ++ b7 c.
Definition b5 c := part_text s_EQUALITY idf (at_ceq c) ++ b6 c.
Definition b4 c := part_text s_SUP idf (at_csup c) ++ b5 c.
Definition at_sentence c : list N := head_sentence (b4 c) (at_h c).

Definition part_opt {A} (p : part A) : option A := match p with Some (_, _, x) => Some x | None => None end.
Definition flag_on (o : option nat) : bool := match o with Some _ => true | None => false end.

Definition at_denote (c : at_cst) : attrtype :=
  mkAT (h_oid (at_h c)) (part_den qdescrs_den (h_name (at_h c)))
       (match h_desc (at_h c) with Some (_, _, ds) => Some (map den ds) | None => None end)
       (flag_on (h_obs (at_h c)))
       (part_opt (at_csup c)) (part_opt (at_ceq c)) (part_opt (at_cord c)) (part_opt (at_csub c))
       (match at_csyn c with Some (_, _, x) => Some (syn_s x) | None => None end)
       (match at_csyn c with Some (_, _, x) => syn_l x | None => None end)
       (flag_on (at_csingle c)) (flag_on (at_ccol c)) (flag_on (at_cnum c))
       (match at_cusage c with Some (_, _, u) => u | None => 0 end)
       (exts_den (at_cext c)).

Definition at_cst_wf (c : at_cst) : Prop :=
  head_ok (at_h c) /\ part_ok oid_ok (at_csup c) /\ part_ok oid_ok (at_ceq c) /\ part_ok oid_ok (at_cord c) /\ part_ok oid_ok (at_csub c) /\
  part_ok syn_wf (at_csyn c) /\ part_ok usage_wf (at_cusage c) /\ exts_wf (at_cext c).

Definition B12 := s_USAGE :: FE.
Definition B11 := s_NOUSERMOD :: B12.
Definition B10 := s_COLLECTIVE :: B11.
Definition B9 := s_SINGLE :: B10.
Definition B8 := s_SYNTAX :: B9.
Definition B7 := s_SUBSTR :: B8.
Definition B6 := s_ORDERING :: B7.
Definition B5 := s_EQUALITY :: B6.
Definition B4 := s_SUP :: B5.

Lemma bfollow12 c junk : follows B12 (b12 c ++ junk).  Proof. apply part_follows, follows_end. Qed.
Lemma bfollow11 c junk : follows B11 (b11 c ++ junk).  Proof. apply flag_follows, bfollow12. Qed.
Lemma bfollow10 c junk : follows B10 (b10 c ++ junk).  Proof. apply flag_follows, bfollow11. Qed.
Lemma bfollow9 c junk : follows B9 (b9 c ++ junk).  Proof. apply flag_follows, bfollow10. Qed.
Lemma bfollow8 c junk : follows B8 (b8 c ++ junk).  Proof. apply part_follows, bfollow9. Qed.
Lemma bfollow7 c junk : follows B7 (b7 c ++ junk).  Proof. apply part_follows, bfollow8. Qed.
Lemma bfollow6 c junk : follows B6 (b6 c ++ junk).  Proof. apply part_follows, bfollow7. Qed.
Lemma bfollow5 c junk : follows B5 (b5 c ++ junk).  Proof. apply part_follows, bfollow6. Qed.
Lemma bfollow4 c junk : follows B4 (b4 c ++ junk).  Proof. apply part_follows, bfollow5. Qed.

Definition S13 c (w : list N) (cs : caps) := group_text w cs 65 = Some (exts_text (at_cext c)).
Definition S12 c w cs := group_text w cs 64 = part_payload usage_name (at_cusage c) /\ S13 c w cs.
Definition S11 c w cs := group_text w cs 62 = flag_payload s_NOUSERMOD (at_cnum c) /\ S12 c w cs.
Definition S10 c w cs := group_text w cs 61 = flag_payload s_COLLECTIVE (at_ccol c) /\ S11 c w cs.
Definition S9 c w cs := group_text w cs 60 = flag_payload s_SINGLE (at_csingle c) /\ S10 c w cs.
Definition S8 c w cs := group_text w cs 53 = part_payload syn_text_g (at_csyn c) /\ S9 c w cs.
Definition S7 c w cs := group_text w cs 45 = part_payload idf (at_csub c) /\ S8 c w cs.
Definition S6 c w cs := group_text w cs 37 = part_payload idf (at_cord c) /\ S7 c w cs.
Definition S5 c w cs := group_text w cs 29 = part_payload idf (at_ceq c) /\ S6 c w cs.
Definition S4 c w cs := group_text w cs 21 = part_payload idf (at_csup c) /\ S5 c w cs.

Lemma arej13 : rej_ok AT_t13.  Proof. split; [reflexivity|apply afirst13]. Qed.
Lemma arej12 : rej_ok AT_t12.  Proof. split; [reflexivity|apply afirst12]. Qed.
Lemma arej9 : rej_ok AT_t9.  Proof. split; [reflexivity|apply afirst9]. Qed.
Lemma arej8 : rej_ok AT_t8.  Proof. split; [reflexivity|apply afirst8]. Qed.
Lemma arej7 : rej_ok AT_t7.  Proof. split; [reflexivity|apply afirst7]. Qed.
Lemma arej6 : rej_ok AT_t6.  Proof. split; [reflexivity|apply afirst6]. Qed.
Lemma arej5 : rej_ok AT_t5.  Proof. split; [reflexivity|apply afirst5]. Qed.
Lemma arej4 : rej_ok AT_t4.  Proof. split; [reflexivity|apply afirst4]. Qed.

Lemma gat_t13 c : at_cst_wf c -> tail_ok AT_t13 (b13 c) 65 (S13 c).
Proof. intros (_ & _ & _ & _ & _ & _ & _ & He). apply (ext_tail_g 65); [lia|assumption]. Qed.

Lemma m_USAGE_g u rest pos cs k : usage_wf u -> eats USAGEr (usage_name u) rest pos cs k 1 0.
Proof.
  intros Hu. unfold USAGEr. destruct Hu as [-> | [-> | [-> | ->]]]; cbn [usage_name].
  - apply eats_alt_l. apply eats_lit'. discriminate.
  - apply eats_alt_r; [apply lit'_no; apply mismatch_app; reflexivity|]. apply eats_alt_l. apply eats_lit'. discriminate.
  - apply eats_alt_r; [apply lit'_no; apply mismatch_app; reflexivity|].
    apply eats_alt_r; [apply lit'_no; apply mismatch_app; reflexivity|]. apply eats_alt_l. apply eats_lit'. discriminate.
  - apply eats_alt_r; [apply lit'_no; apply mismatch_app; reflexivity|].
    apply eats_alt_r; [apply lit'_no; apply mismatch_app; reflexivity|].
    apply eats_alt_r; [apply lit'_no; apply mismatch_app; reflexivity|]. apply eats_lit'. discriminate.
Qed.

Lemma gat_t12 c : at_cst_wf c -> tail_ok AT_t12 (b12 c) 63 (S12 c).
Proof.
  intros Hc. pose proof Hc as (_ & _ & _ & _ & _ & _ & Hu & _). unfold AT_t12, b12, S12.
  apply (part_kw AT_t13 (b13 c) 65 (S13 c) 63 64 s_USAGE USAGEr usage_name usage_wf (at_cusage c) 1 0 no_class FE); try lia; try reflexivity; try assumption.
  - now apply gat_t13.
  - intros u Hu'. split; [|split].
    + destruct Hu' as [-> | [-> | [-> | ->]]]; reflexivity.
    + destruct Hu' as [-> | [-> | [-> | ->]]]; discriminate.
    + intros junk pp c0 k' _. now apply m_USAGE_g.
  - intros x s pp c0 Hx. discriminate.
  - intros junk. apply follows_end.
Qed.

Lemma gat_t11 c : at_cst_wf c -> tail_ok AT_t11 (b11 c) 62 (S11 c).
Proof.
  intros Hc. apply (part_flag AT_t12 (b12 c) 63 (S12 c) 62 s_NOUSERMOD (at_cnum c) B12); try lia; try reflexivity; try discriminate.
  - now apply gat_t12.
  - intros junk. apply bfollow12.
Qed.
Lemma gat_t10 c : at_cst_wf c -> tail_ok AT_t10 (b10 c) 61 (S10 c).
Proof.
  intros Hc. apply (part_flag AT_t11 (b11 c) 62 (S11 c) 61 s_COLLECTIVE (at_ccol c) B11); try lia; try reflexivity; try discriminate.
  - now apply gat_t11.
  - intros junk. apply bfollow11.
Qed.
Lemma gat_t9 c : at_cst_wf c -> tail_ok AT_t9 (b9 c) 60 (S9 c).
Proof.
  intros Hc. apply (part_flag AT_t10 (b10 c) 61 (S10 c) 60 s_SINGLE (at_csingle c) B10); try lia; try reflexivity; try discriminate.
  - now apply gat_t10.
  - intros junk. apply bfollow10.
Qed.

(* the text of a numeric OID with optional length: digits, dots and braces only *)
Definition synchar (c : N) : bool := is_digdot c || (c =? 123) || (c =? 125).

Lemma syn_text_chars s l : numoid_ok s -> len_ok l -> syn_text s l <> [] /\ Forall (fun c => synchar c = true) (syn_text s l).
Proof.
  intros Hs Hl. destruct (numoid_chars s Hs) as [Hne Hch]. split.
  - unfold syn_text. destruct s; [congruence|discriminate].
  - unfold syn_text. apply Forall_app. split.
    + eapply Forall_impl; [|exact Hch]. intros c Hc. unfold synchar. now rewrite Hc.
    + destruct l as [z|]; [|constructor]. cbn [len_text len_ok] in *. destruct (len_arc z Hl) as [Ha _].
      constructor; [reflexivity|]. apply Forall_app. split; [|repeat constructor].
      eapply Forall_impl; [|apply (arc_digdot _ Ha)]. intros c Hc. unfold synchar. now rewrite Hc.
Qed.

Lemma enc_plain t : concat (map enc (map DPlain t)) = t.
Proof. induction t as [|c t IH]; [reflexivity|]. cbn [map concat enc app]. now rewrite IH. Qed.

Lemma m_SYNTAX_g x rest pos cs k :
  syn_wf x -> starts_not len_stop rest -> krej is_digdot k ->
  eats (Alt (NOIDLENr 54) (QDSTRINGr 59)) (syn_text_g x) rest pos cs k 54 59.
Proof.
  intros [Hs Hl] Hr Hk. destruct x as [s l|s l]; cbn [syn_text_g syn_s syn_l] in *.
  - now apply m_SYNTAX.
  - apply eats_alt_r; [apply reject_first; reflexivity|].
    destruct (syn_text_chars s l Hs Hl) as [Hne Hch].
    assert (E : [39] ++ syn_text s l ++ [39] = qd_g (map DPlain (syn_text s l))) by (unfold qd_g; now rewrite enc_plain).
    rewrite E. apply (eats_wider _ _ _ _ _ _ 59 59); [lia|lia|]. apply m_QDSTRING_g. split.
    + destruct (syn_text s l); [congruence|discriminate].
    + apply Forall_forall. intros d Hd. apply in_map_iff in Hd. destruct Hd as (c & <- & Hc). rewrite Forall_forall in Hch. specialize (Hch c Hc).
      cbn. unfold synchar in Hch. split; intros ->; discriminate Hch.
Qed.

Lemma gat_t8 c : at_cst_wf c -> tail_ok AT_t8 (b8 c) 52 (S8 c).
Proof.
  intros Hc. pose proof Hc as (_ & _ & _ & _ & _ & Hsy & _ & _). unfold AT_t8, b8, S8.
  apply (part_kw AT_t9 (b9 c) 60 (S9 c) 52 53 s_SYNTAX (Alt (NOIDLENr 54) (QDSTRINGr 59)) syn_text_g syn_wf (at_csyn c) 54 59 is_digdot B9);
    try lia; try reflexivity; try assumption.
  - now apply gat_t9.
  - intros x [Hs Hl]. split; [|split].
    + destruct x as [s l|s l]; cbn [syn_text_g]; [|reflexivity]. cbn [syn_s] in Hs. destruct (numoid_chars s Hs) as [Hne Hch].
      destruct s as [|c0 s0]; [congruence|]. inversion Hch; subst. cbn. chr_tac.
    + destruct x as [s l|s l]; cbn [syn_text_g]; [|discriminate]. cbn [syn_s] in Hs. destruct (numoid_chars s Hs) as [Hne _]. unfold syn_text. destruct s; [congruence|discriminate].
    + intros junk pp c0 k' Hk'. apply m_SYNTAX_g; [split; assumption| |assumption]. apply (follows_first B9); [apply bfollow9|reflexivity|reflexivity].
  - destruct arej9 as [Hn Hf]. apply tail_rejects; [assumption|assumption|apply digdot_not_sp].
  - intros junk. apply bfollow9.
Qed.

Lemma gat_t7 c : at_cst_wf c -> tail_ok AT_t7 (b7 c) 44 (S7 c).
Proof.
  intros Hc. pose proof Hc as (_ & _ & _ & _ & H1 & _). unfold AT_t7, b7, S7.
  apply (part_oid1 AT_t8 (b8 c) 52 (S8 c) 44 45 s_SUBSTR (at_csub c) B8); try reflexivity; try lia; try assumption.
  - now apply gat_t8.
  - apply arej8.
  - intros junk. apply bfollow8.
Qed.
Lemma gat_t6 c : at_cst_wf c -> tail_ok AT_t6 (b6 c) 36 (S6 c).
Proof.
  intros Hc. pose proof Hc as (_ & _ & _ & H1 & _ & _). unfold AT_t6, b6, S6.
  apply (part_oid1 AT_t7 (b7 c) 44 (S7 c) 36 37 s_ORDERING (at_cord c) B7); try reflexivity; try lia; try assumption.
  - now apply gat_t7.
  - apply arej7.
  - intros junk. apply bfollow7.
Qed.
Lemma gat_t5 c : at_cst_wf c -> tail_ok AT_t5 (b5 c) 28 (S5 c).
Proof.
  intros Hc. pose proof Hc as (_ & _ & H1 & _ & _ & _). unfold AT_t5, b5, S5.
  apply (part_oid1 AT_t6 (b6 c) 36 (S6 c) 28 29 s_EQUALITY (at_ceq c) B6); try reflexivity; try lia; try assumption.
  - now apply gat_t6.
  - apply arej6.
  - intros junk. apply bfollow6.
Qed.
Lemma gat_t4 c : at_cst_wf c -> tail_ok AT_t4 (b4 c) 20 (S4 c).
Proof.
  intros Hc. pose proof Hc as (_ & H1 & _ & _ & _ & _). unfold AT_t4, b4, S4.
  apply (part_oid1 AT_t5 (b5 c) 28 (S5 c) 20 21 s_SUP (at_csup c) B5); try reflexivity; try lia; try assumption.
  - now apply gat_t5.
  - apply arej5.
  - intros junk. apply bfollow5.
Qed.

(* ---- reading the SYNTAX value back, quoted or not *)
Lemma syn_no_quote s l : numoid_ok s -> len_ok l -> ~ In SQ (syn_text s l).
Proof.
  intros Hs Hl Hin. destruct (syn_text_chars s l Hs Hl) as [_ Hch]. rewrite Forall_forall in Hch. specialize (Hch _ Hin). discriminate Hch.
Qed.

Lemma syntax_back_g x : syn_wf x ->
  split_syntax (Some (syn_text_g x)) = Ok (Some (syn_s x), syn_l x).
Proof.
  intros [Hs Hl].
  assert (Sq : strip_chars [SQ] (syn_text_g x) = syn_text (syn_s x) (syn_l x)).
  { destruct x as [s l|s l]; cbn [syn_text_g syn_s syn_l] in *.
    - apply strip_quotes_none. now apply syn_no_quote.
    - apply (strip_quotes_inner SQ). now apply syn_no_quote. }
  assert (Hne : exists c0 t0, syn_text_g x = c0 :: t0).
  { destruct x as [s l|s l]; cbn [syn_text_g]; [|eexists _, _; reflexivity]. cbn [syn_s] in Hs. destruct (numoid_chars s Hs) as [Hn _]. unfold syn_text. destruct s; [congruence|eexists _, _; reflexivity]. }
  destruct Hne as (c0 & t0 & E0). unfold split_syntax. rewrite E0. rewrite <- E0. cbv zeta. rewrite Sq.
  pose proof (syntax_back (Some (syn_s x)) (syn_l x) (conj Hs Hl)) as [Sb _]. cbn [syn_opt] in Sb. unfold split_syntax in Sb.
  destruct (numoid_chars _ Hs) as [Hn _]. destruct (syn_text (syn_s x) (syn_l x)) as [|c1 t1] eqn:E1.
  { unfold syn_text in E1. destruct (syn_s x); [congruence|discriminate]. }
  cbv zeta in Sb. rewrite <- E1 in *.
  assert (Sq2 : strip_chars [SQ] (syn_text (syn_s x) (syn_l x)) = syn_text (syn_s x) (syn_l x)) by (apply strip_quotes_none; now apply syn_no_quote).
  rewrite Sq2 in Sb. exact Sb.
Qed.

Lemma restrip_numoid s : numoid_ok s -> restrip_syntax (Some s) = Some s.
Proof.
  intros Hs. destruct (numoid_chars s Hs) as [Hne Hch]. destruct s as [|c0 s0]; [congruence|]. cbn [restrip_syntax]. f_equal.
  apply strip_quotes_none. now apply digdot_no_quote.
Qed.

Lemma flag_back kw o : kw <> [] -> truthy (flag_payload kw o) = flag_on o.
Proof. intros H. destruct o; [|reflexivity]. cbn. reflexivity. Qed.

Theorem at_grammar c : at_cst_wf c -> at_from_string (at_sentence c) = Ok (at_denote c).
Proof.
  intros Hc. pose proof Hc as (Hh & H1 & H2 & H3 & H4 & Hsy & Hu & He).
  destruct (head_match_g AT_t4 (b4 c) (S4 c) B4 (gat_t4 c Hc) (bfollow4 c) eq_refl eq_refl eq_refl eq_refl arej4 (at_h c) [] Hh)
    as (c' & Em & G1 & G6' & G17 & G19 & G21 & G29 & G37 & G45 & G53 & G60 & G61 & G62 & G64 & G65).
  rewrite app_nil_r in *. fold (at_sentence c) in *.
  unfold at_from_string, do_match. unfold rx_attribute_type_end. rewrite at_regex_eq, re_match_BT. fold kf.
  change R_at with (HR AT_t4). rewrite Em. cbn [bind]. unfold grp.
  unfold rx_attribute_type_g_syntax, rx_attribute_type_g_usage, rx_attribute_type_g_desc, rx_attribute_type_g_extensions,
    rx_attribute_type_g_oid, rx_attribute_type_g_name, rx_attribute_type_g_obsolete, rx_attribute_type_g_sup,
    rx_attribute_type_g_equality, rx_attribute_type_g_ordering, rx_attribute_type_g_substr, rx_attribute_type_g_single_value,
    rx_attribute_type_g_collective, rx_attribute_type_g_no_user_modification.
  rewrite G1, G6', G17, G19, G21, G29, G37, G45, G53, G60, G61, G62, G64, G65.
  destruct Hh as (Ho & Hn & Hd).
  assert (Ssyn : split_syntax (part_payload syn_text_g (at_csyn c))
                 = Ok (match at_csyn c with Some (_, _, x) => Some (syn_s x) | None => None end,
                       match at_csyn c with Some (_, _, x) => syn_l x | None => None end)).
  { destruct (at_csyn c) as [[[a b] x]|]; [|reflexivity]. cbn [part_payload]. now apply syntax_back_g. }
  rewrite Ssyn. cbn [bind].
  match goal with |- context [restrip_syntax ?x] =>
    assert (Sre : restrip_syntax x = x) by (destruct (at_csyn c) as [[[a b] y]|]; [destruct Hsy as [Hs _]; now apply restrip_numoid|reflexivity]);
    rewrite Sre; clear Sre end.
  rewrite desc_back by assumption. cbn [bind]. rewrite parse_extensions_g by assumption. cbn [bind].
  rewrite names_back by assumption. rewrite !flag_back by discriminate.
  unfold at_denote. f_equal.
  assert (P : forall p : part (list N), part_payload idf p = part_opt p) by (intros [[[a b] o]|]; reflexivity).
  rewrite !P. f_equal.
  destruct (at_cusage c) as [[[a b] u]|]; [|reflexivity]. cbn [part_payload part_ok] in *. destruct Hu as [-> | [-> | [-> | ->]]]; reflexivity.
Qed.
