(* C17: the chain of optional parts for sentences with arbitrary spacing - generic parts, the common
   end (extensions, closing parenthesis) and the common head. *)
From Coq Require Import NArith ZArith List Bool Arith Lia ZifyBool.
From SV Require Import Base.Py Rx.Syntax Rx.Lemmas Rx.Bt Gen.Generated Schema.Model Schema.Proofs Schema.Regex Schema.Match Schema.Chain
  Schema.GMatch Schema.GRead.
Import ListNotations.
Local Open Scope N_scope.

(* an optional part with its two runs of spaces *)
Definition part (A : Type) : Type := option (nat * nat * A).
Definition part_text {A} (kw : list N) (f : A -> list N) (p : part A) : list N :=
  match p with Some (a, b, x) => seg_kw_g a kw b (f x) | None => [] end.
Definition part_payload {A} (f : A -> list N) (p : part A) : option (list N) :=
  match p with Some (_, _, x) => Some (f x) | None => None end.
Definition part_ok {A} (ok : A -> Prop) (p : part A) : Prop := match p with Some (_, _, x) => ok x | None => True end.

Definition flag_text (kw : list N) (o : option nat) : list N := match o with Some a => sp (S a) ++ kw | None => [] end.
Definition flag_payload (kw : list N) (o : option nat) : option (list N) := match o with Some a => Some (sp (S a) ++ kw) | None => None end.

Lemma part_follows {A} kw (f : A -> list N) (p : part A) F t junk :
  follows F (t ++ junk) -> follows (kw :: F) ((part_text kw f p ++ t) ++ junk).
Proof.
  intros H. destruct p as [[[a b] x]|]; [|now apply follows_skip]. unfold part_text, seg_kw_g.
  replace (((sp (S a) ++ kw ++ sp (S b) ++ f x) ++ t) ++ junk) with (sp (S a) ++ kw ++ (sp (S b) ++ f x ++ t ++ junk)) by (rewrite <- !app_assoc; reflexivity).
  apply follows_here.
Qed.

Lemma flag_follows kw o F t junk : follows F (t ++ junk) -> follows (kw :: F) ((flag_text kw o ++ t) ++ junk).
Proof.
  intros H. destruct o as [a|]; [|now apply follows_skip]. unfold flag_text.
  replace (((sp (S a) ++ kw) ++ t) ++ junk) with (sp (S a) ++ kw ++ (t ++ junk)) by (rewrite <- !app_assoc; reflexivity).
  apply follows_here.
Qed.

(* a keyword part, present or absent *)
Lemma part_kw {A} T txt lo Q g gm kw P (f : A -> list N) (ok : A -> Prop) (p : part A) loP hiP (C : N -> bool) F :
  tail_ok T txt lo Q ->
  (g < gm)%nat -> (gm < lo)%nat -> (gm < loP \/ hiP < loP)%nat -> (hiP < lo)%nat -> (lo <= 200)%nat ->
  nonsp kw = true ->
  part_ok ok p ->
  (forall x, ok x -> starts_not is_sp (f x) /\ f x <> [] /\
             forall junk pp c k', krej C k' -> eats P (f x) (txt ++ junk) pp c k' loP hiP) ->
  (forall x s pp c, C x = true -> BT T (x :: s) pp c kf = BNo) ->
  (forall junk, follows F (txt ++ junk)) -> forallb nonsp F = true -> forallb (mismatch kw) F = true ->
  tail_ok (Cat (KWSEG g gm kw P) T) (part_text kw f p ++ txt) g
    (fun w c => group_text w c gm = part_payload f p /\ Q w c).
Proof.
  intros HT Hg1 Hg2 Hg3 Hg4 Hg5 Hkw Hp Hok HC HF Hns Hmm. destruct p as [[[a b] x]|]; cbn [part_text part_payload part_ok app] in *.
  - destruct (Hok x Hp) as (S1 & S2 & S3).
    apply (tailg_kw_present T txt lo Q g gm kw P a b (f x) loP hiP C); assumption.
  - apply (tailg_absent T txt lo Q g gm _ F); [assumption|lia|assumption|assumption|assumption|].
    intros p r j pp c k' Hin. apply lit_after_spaces; [assumption|]. rewrite forallb_forall in Hmm. now apply Hmm.
Qed.

Lemma part_flag T txt lo Q g kw (o : option nat) F :
  tail_ok T txt lo Q -> (g < lo)%nat -> (lo <= 200)%nat -> kw <> [] -> nonsp kw = true ->
  (forall junk, follows F (txt ++ junk)) -> forallb nonsp F = true -> forallb (mismatch kw) F = true ->
  tail_ok (Cat (FLAGSEG g kw) T) (flag_text kw o ++ txt) g (fun w c => group_text w c g = flag_payload kw o /\ Q w c).
Proof.
  intros HT Hg Hl Hne Hkw HF Hns Hmm. destruct o as [a|]; cbn [flag_text flag_payload app].
  - now apply (tailg_flag_present T txt lo Q g kw a).
  - apply (tailg_absent T txt lo Q g g _ F); [assumption|lia|assumption|assumption|assumption|].
    intros p r j pp c k' Hin. apply lit'_after_spaces; [assumption|]. rewrite forallb_forall in Hmm. now apply Hmm.
Qed.

(* ---- the end: extensions, white space, closing parenthesis *)
Definition end_text (e : list ext_cst) (w1 : nat) : list N := exts_text e ++ sp w1 ++ [41].
Definition FE : list (list N) := [[41]; [88; 45]].

Lemma follows_end e w1 junk : follows FE (end_text e w1 ++ junk).
Proof.
  unfold end_text, FE. destruct e as [|x e].
  - cbn [exts_text map concat app]. rewrite <- app_assoc. apply follows_close.
  - rewrite exts_text_cons. apply follows_skip.
    replace (((sp (S (e_a x)) ++ exts_body (x :: e)) ++ sp w1 ++ [41]) ++ junk)
      with (sp (S (e_a x)) ++ [88; 45] ++ (e_key x ++ sp (S (e_b x)) ++ qdstrings_text (e_vals x) ++ exts_text e ++ (sp w1 ++ [41]) ++ junk)).
    + apply follows_here.
    + cbn [exts_body app]. rewrite <- !app_assoc. cbn [app]. rewrite <- !app_assoc. reflexivity.
Qed.

Lemma closing_g w junk p c : BT (Cat WSPr (ch 41)) (sp w ++ 41 :: junk) p c kf = BYes (p + w + 1)%nat c.
Proof.
  rewrite BT_cat, BT_WSP_run; [|reflexivity|rewrite BT_ch_yes; discriminate]. rewrite BT_ch_yes. unfold kf. f_equal. lia.
Qed.

Lemma ext_tail_g g e w1 : (g + 9 <= 200)%nat -> Forall ext_wf e ->
  tail_ok (EXT_tail g) (end_text e w1) g (fun w c => group_text w c g = Some (exts_text e)).
Proof.
  intros Hg He w pre junk cs Hw. unfold EXT_tail, end_text. rewrite <- !app_assoc. cbn [app].
  set (k := fun (s1 : list N) (p1 : nat) (c1 : caps) => BT (Cat WSPr (ch 41)) s1 p1 c1 kf).
  destruct (eats_group_top g (EXTr (g + 1)) (exts_text e) (sp w1 ++ 41 :: junk) (length pre) cs k (g + 1) (g + 1 + 8)) as (c1 & T1 & E1).
  { now apply m_EXT_g. }
  { intros c'. unfold k. rewrite closing_g. discriminate. }
  exists ((g, (length pre, (length pre + length (exts_text e))%nat)) :: c1). split; [|split].
  - eapply only_touches_trans; [apply (only_touches_wider (g + 1) (g + 1 + 8)); [lia|lia|exact T1]|]. apply only_touches_push. lia.
  - rewrite BT_cat. fold k. rewrite E1. unfold k. rewrite closing_g. f_equal. rewrite !app_length, sp_length. cbn [length]. lia.
  - intros _. unfold group_text. rewrite cap_lookup_push. f_equal. rewrite Hw. unfold end_text. rewrite <- !app_assoc.
    apply slice_mid; reflexivity.
Qed.

(* ---- keyword parts whose payload is an OID list, one OID, quoted descriptors, a quoted string *)
Definition rej_ok (T : rx) : Prop := nullable T = false /\ forall x, first T x = sp_or_close x.

Lemma part_oids T txt lo Q g gm kw (p : part oids_cst) F :
  tail_ok T txt lo Q -> rej_ok T ->
  (g < gm)%nat -> (gm + 21 < lo)%nat -> (lo <= 200)%nat -> nonsp kw = true ->
  part_ok oids_wf p ->
  (forall junk, follows F (txt ++ junk)) -> forallb nonsp F = true -> forallb (mismatch kw) F = true ->
  tail_ok (Cat (KWSEG g gm kw (OIDSr (gm + 1))) T) (part_text kw oids_text p ++ txt) g
    (fun w c => group_text w c gm = part_payload oids_text p /\ Q w c).
Proof.
  intros HT [Hn Hf] Hg1 Hg2 Hg3 Hkw Hp HF Hns Hmm.
  apply (part_kw T txt lo Q g gm kw (OIDSr (gm + 1)) oids_text oids_wf p (gm + 1) (gm + 1 + 20) C_oid F); try assumption; try lia.
  - intros x Hx. split; [|split].
    + destruct x as [o|w0 y items w1]; cbn [oids_text]; [|reflexivity]. unfold oids_wf in Hx. cbn in Hx. inversion Hx as [|? ? Ho _]; subst.
      destruct (oid_first o Ho) as (c0 & r0 & -> & Hc0). cbn. chr_tac.
    + destruct x as [o|w0 y items w1]; cbn [oids_text]; [|discriminate]. unfold oids_wf in Hx. cbn in Hx. inversion Hx as [|? ? Ho _]; subst.
      destruct (oid_first o Ho) as (c0 & r0 & -> & _). discriminate.
    + intros junk pp c k' Hk'. apply m_OIDS_g; [assumption| |assumption]. apply (follows_first F); [apply HF|reflexivity|reflexivity].
  - apply tail_rejects; [assumption|assumption|apply C_oid_not_sp].
Qed.

Lemma part_oid1 T txt lo Q g gm kw (p : part (list N)) F :
  tail_ok T txt lo Q -> rej_ok T ->
  (g < gm)%nat -> (gm + 6 < lo)%nat -> (lo <= 200)%nat -> nonsp kw = true ->
  part_ok oid_ok p ->
  (forall junk, follows F (txt ++ junk)) -> forallb nonsp F = true -> forallb (mismatch kw) F = true ->
  tail_ok (Cat (KWSEG g gm kw (OID1 (gm + 1))) T) (part_text kw (fun o => o) p ++ txt) g
    (fun w c => group_text w c gm = part_payload (fun o => o) p /\ Q w c).
Proof.
  intros HT [Hn Hf] Hg1 Hg2 Hg3 Hkw Hp HF Hns Hmm.
  apply (part_kw T txt lo Q g gm kw (OID1 (gm + 1)) (fun o => o) oid_ok p (gm + 1) (gm + 1 + 5) C_oid F); try assumption; try lia.
  - intros o Ho. destruct (oid_first o Ho) as (c0 & r0 & Eo & Hc0). split; [|split].
    + rewrite Eo. cbn. chr_tac.
    + rewrite Eo. discriminate.
    + intros junk pp c k' Hk'. unfold OID1. apply eats_group; [lia|].
      apply (eats_wider _ _ _ _ _ _ (gm + 1 + 1) (gm + 1 + 1 + 4)); [lia|lia|]. apply m_OID; [assumption| |].
      * apply (follows_first F); [apply HF|reflexivity|reflexivity].
      * intros x s0 p0 c1 Hx. apply Hk'. exact Hx.
  - apply tail_rejects; [assumption|assumption|apply C_oid_not_sp].
Qed.

(* ---- the head *)
Record head_cst := mkHead {
  h_w0 : nat; h_oid : list N; h_name : part qdescrs_cst; h_desc : part (list dch); h_obs : option nat }.
Definition head_ok (h : head_cst) : Prop :=
  numoid_ok (h_oid h) /\ part_ok qdescrs_wf (h_name h) /\ part_ok ds_ok (h_desc h).

Section HeadG.
  Variables (T4 : rx) (txt4 : list N) (Q4 : list N -> caps -> Prop) (F4 : list (list N)).
  Hypothesis HT4 : tail_ok T4 txt4 20 Q4.
  Hypothesis HF4 : forall junk, follows F4 (txt4 ++ junk).
  Hypothesis Hns4 : forallb nonsp F4 = true.
  Hypothesis Hmm19 : forallb (mismatch s_OBSOLETE) F4 = true.
  Hypothesis Hmm16 : forallb (mismatch s_DESC) F4 = true.
  Hypothesis Hmm5 : forallb (mismatch s_NAME) F4 = true.
  Hypothesis Hrej4 : rej_ok T4.

  Definition g3 (h : head_cst) : list N := flag_text s_OBSOLETE (h_obs h) ++ txt4.
  Definition g2 (h : head_cst) : list N := part_text s_DESC qd_g (h_desc h) ++ g3 h.
  Definition g1 (h : head_cst) : list N := part_text s_NAME qdescrs_text (h_name h) ++ g2 h.
  Definition head_sentence (h : head_cst) : list N := [40] ++ sp (h_w0 h) ++ h_oid h ++ g1 h.

  Definition QG3 h w c := group_text w c 19 = flag_payload s_OBSOLETE (h_obs h) /\ Q4 w c.
  Definition QG2 h w c := group_text w c 17 = part_payload qd_g (h_desc h) /\ QG3 h w c.
  Definition QG1 h w c := group_text w c 6 = part_payload qdescrs_text (h_name h) /\ QG2 h w c.

  Definition FG3 := s_OBSOLETE :: F4.
  Definition FG2 := s_DESC :: FG3.
  Definition FG1 := s_NAME :: FG2.

  Lemma followG3 h junk : follows FG3 (g3 h ++ junk).
  Proof. apply flag_follows, HF4. Qed.
  Lemma followG2 h junk : follows FG2 (g2 h ++ junk).
  Proof. apply part_follows, followG3. Qed.
  Lemma followG1 h junk : follows FG1 (g1 h ++ junk).
  Proof. apply part_follows, followG2. Qed.

  Lemma rej_H3 : rej_ok (H3 T4).
  Proof. destruct Hrej4 as [Hn Hf]. split; [unfold H3; cbn [nullable]; now rewrite Hn, andb_false_r|intros x; unfold H3; apply first_opt_then; exact Hf]. Qed.
  Lemma rej_H2 : rej_ok (H2 T4).
  Proof. destruct rej_H3 as [Hn Hf]. split; [unfold H2; cbn [nullable]; now rewrite Hn, andb_false_r|intros x; unfold H2; apply first_opt_then; exact Hf]. Qed.
  Lemma rej_H1 : rej_ok (H1 T4).
  Proof. destruct rej_H2 as [Hn Hf]. split; [unfold H1; cbn [nullable]; now rewrite Hn, andb_false_r|intros x; unfold H1; apply first_opt_then; exact Hf]. Qed.

  Lemma headg_t3 h : tail_ok (H3 T4) (g3 h) 19 (QG3 h).
  Proof.
    unfold H3, g3, QG3. apply (part_flag T4 txt4 20 Q4 19 s_OBSOLETE (h_obs h) F4); try assumption; try lia; try reflexivity; discriminate.
  Qed.

  Lemma headg_t2 h : part_ok ds_ok (h_desc h) -> tail_ok (H2 T4) (g2 h) 16 (QG2 h).
  Proof.
    intros Hd. unfold H2, g2, QG2.
    apply (part_kw (H3 T4) (g3 h) 19 (QG3 h) 16 17 s_DESC (QDSTRINGr 18) qd_g ds_ok (h_desc h) 18 18 no_class FG3); try lia; try reflexivity; try assumption.
    - apply headg_t3.
    - intros ds Hds. split; [reflexivity|]. split; [discriminate|]. intros junk pp c k' _. now apply m_QDSTRING_g.
    - intros x s pp c Hx. discriminate.
    - intros junk. apply followG3.
  Qed.

  Lemma qdescrs_first c : exists t, qdescrs_text c = 39 :: t \/ qdescrs_text c = 40 :: t.
  Proof. destruct c; cbn [qdescrs_text]; eexists; [left|right|right]; reflexivity. Qed.

  Lemma headg_t1 h : part_ok qdescrs_wf (h_name h) -> part_ok ds_ok (h_desc h) -> tail_ok (H1 T4) (g1 h) 5 (QG1 h).
  Proof.
    intros Hn Hd. unfold H1, g1, QG1.
    apply (part_kw (H2 T4) (g2 h) 16 (QG2 h) 5 6 s_NAME (QDESCRSr 7) qdescrs_text qdescrs_wf (h_name h) 7 (7 + 8) no_class FG2); try lia; try reflexivity; try assumption.
    - now apply headg_t2.
    - intros q Hq. destruct (qdescrs_first q) as (t & [E|E]); (split; [rewrite E; reflexivity|]); (split; [rewrite E; discriminate|]);
        intros junk pp c k' _; now apply m_QDESCRS_g.
    - intros x s pp c Hx. discriminate.
    - intros junk. apply followG2.
  Qed.

  Lemma head_match_g h junk :
    head_ok h ->
    let s := head_sentence h in
    exists c', BT (HR T4) (s ++ junk) 0 [] kf = BYes (length s) c' /\
               group_text (s ++ junk) c' 1 = Some (h_oid h) /\ QG1 h (s ++ junk) c'.
  Proof.
    intros (Ho & Hn & Hd) s.
    pose proof (headg_t1 h Hn Hd) as HT.
    set (tt := g1 h) in *. set (w0 := h_w0 h). set (oid := h_oid h) in *.
    set (k1 := fun (s1 : list N) (p1 : nat) (c1 : caps) => BT (H1 T4) s1 p1 c1 kf).
    destruct (eats_group_top 1 (NUMOID 2) oid (tt ++ junk) (1 + w0) [] k1 2 (2 + 2)) as (c1 & T1 & E1).
    { apply m_NUMOID_eats; [assumption| |].
      - apply (follows_first FG1); [apply followG1|reflexivity|reflexivity].
      - intros x s0 p c Hx. destruct rej_H1 as [Hn1 Hf1]. apply (tail_rejects (H1 T4) is_digdot); [assumption|assumption|apply digdot_not_sp|exact Hx]. }
    { intros c'. unfold k1. now apply (tail_ok_total _ _ _ _ HT). }
    assert (Hw : s ++ junk = ([40] ++ sp w0 ++ oid) ++ tt ++ junk) by (unfold s, head_sentence; rewrite <- !app_assoc; reflexivity).
    assert (Lp : length ([40] ++ sp w0 ++ oid) = (1 + w0 + length oid)%nat) by (cbn [app length]; rewrite app_length, sp_length; lia).
    destruct (HT (s ++ junk) ([40] ++ sp w0 ++ oid) junk ((1%nat, ((1 + w0)%nat, (1 + w0 + length oid)%nat)) :: c1) Hw) as (c' & T' & E' & Q').
    rewrite Lp in E'.
    assert (Inner : BT (Cat (Group 1 (NUMOID 2)) (H1 T4)) (oid ++ tt ++ junk) (1 + w0) [] kf = BYes (length s) c').
    { rewrite BT_cat. fold k1. rewrite E1. unfold k1. rewrite E'. f_equal. unfold s, head_sentence. rewrite !app_length, sp_length. cbn [length]. fold tt. fold oid. fold w0. lia. }
    exists c'. split; [|split].
    - unfold HR. rewrite Hw. rewrite <- !app_assoc. cbn [app].
      rewrite BT_cat, BT_ch_yes, BT_cat. rewrite BT_WSP_run.
      + exact Inner.
      + destruct Ho as (a0 & a1 & arcs & Eo & H0 & _). rewrite Eo. destruct (arc_first a0 H0) as (d & r & -> & Hd0). cbn. chr_tac.
      + rewrite Inner. discriminate.
    - unfold group_text. rewrite T' by lia. rewrite cap_lookup_push. f_equal. rewrite Hw.
      replace (([40] ++ sp w0 ++ oid) ++ tt ++ junk) with (([40] ++ sp w0) ++ oid ++ (tt ++ junk)) by (rewrite <- !app_assoc; reflexivity).
      apply slice_mid; cbn [app length]; rewrite sp_length; lia.
    - apply Q'. apply fresh_push; [lia|]. intros g Hg. rewrite T1 by lia. reflexivity.
  Qed.
End HeadG.
