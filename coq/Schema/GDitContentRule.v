(* C17 for DIT content rules. *)
From Coq Require Import NArith ZArith List Bool Arith Lia ZifyBool.
From SV Require Import Base.Py Rx.Syntax Rx.Lemmas Rx.Bt Gen.Generated Schema.Model Schema.Proofs Schema.Regex Schema.Match Schema.Chain
  Schema.DitContentRule Schema.GMatch Schema.GRead Schema.GChain Schema.GObjectClass.
Import ListNotations.
Local Open Scope N_scope.

Record dcr_cst := mkDCRc {
  dc_h : head_cst; dc_caux : part oids_cst; dc_cmust : part oids_cst; dc_cmay : part oids_cst; dc_cnot : part oids_cst;
  dc_cext : list ext_cst; dc_cw1 : nat }.

Definition r8 c := end_text (dc_cext c) (dc_cw1 c).
Definition r7 c := part_text s_NOT oids_text (dc_cnot c) ++ r8 c.
Definition r6 c := part_text s_MAY oids_text (dc_cmay c) ++ r7 c.
Definition r5 c := part_text s_MUST oids_text (dc_cmust c) ++ r6 c.
Definition r4 c := part_text s_AUX oids_text (dc_caux c) ++ r5 c.
Definition dcr_sentence c : list N := head_sentence (r4 c) (dc_h c).

Definition dcr_denote (c : dcr_cst) : ditrule :=
  mkDCR (h_oid (dc_h c)) (part_den qdescrs_den (h_name (dc_h c)))
        (match h_desc (dc_h c) with Some (_, _, ds) => Some (map den ds) | None => None end)
        (match h_obs (dc_h c) with Some _ => true | None => false end)
        (part_den oids_den (dc_caux c)) (part_den oids_den (dc_cmust c)) (part_den oids_den (dc_cmay c)) (part_den oids_den (dc_cnot c))
        (exts_den (dc_cext c)).

Definition dcr_cst_wf (c : dcr_cst) : Prop :=
  head_ok (dc_h c) /\ part_ok oids_wf (dc_caux c) /\ part_ok oids_wf (dc_cmust c) /\ part_ok oids_wf (dc_cmay c) /\
  part_ok oids_wf (dc_cnot c) /\ exts_wf (dc_cext c).

Definition R7 := s_NOT :: FE.
Definition R6 := s_MAY :: R7.
Definition R5 := s_MUST :: R6.
Definition R4 := s_AUX :: R5.

Lemma rfollow7 c junk : follows R7 (r7 c ++ junk).
Proof. apply part_follows, follows_end. Qed.
Lemma rfollow6 c junk : follows R6 (r6 c ++ junk).
Proof. apply part_follows, rfollow7. Qed.
Lemma rfollow5 c junk : follows R5 (r5 c ++ junk).
Proof. apply part_follows, rfollow6. Qed.
Lemma rfollow4 c junk : follows R4 (r4 c ++ junk).
Proof. apply part_follows, rfollow5. Qed.

Definition E8 c (w : list N) (cs : caps) := group_text w cs 112 = Some (exts_text (dc_cext c)).
Definition E7 c w cs := group_text w cs 90 = part_payload oids_text (dc_cnot c) /\ E8 c w cs.
Definition E6 c w cs := group_text w cs 67 = part_payload oids_text (dc_cmay c) /\ E7 c w cs.
Definition E5 c w cs := group_text w cs 44 = part_payload oids_text (dc_cmust c) /\ E6 c w cs.
Definition E4 c w cs := group_text w cs 21 = part_payload oids_text (dc_caux c) /\ E5 c w cs.

Lemma drej8 : rej_ok DCR_t8.  Proof. split; [reflexivity|apply dfirst8]. Qed.
Lemma drej7 : rej_ok DCR_t7.  Proof. split; [reflexivity|apply dfirst7]. Qed.
Lemma drej6 : rej_ok DCR_t6.  Proof. split; [reflexivity|apply dfirst6]. Qed.
Lemma drej5 : rej_ok DCR_t5.  Proof. split; [reflexivity|apply dfirst5]. Qed.
Lemma drej4 : rej_ok DCR_t4.  Proof. split; [reflexivity|apply dfirst4]. Qed.

Lemma gdcr_t8 c : dcr_cst_wf c -> tail_ok DCR_t8 (r8 c) 112 (E8 c).
Proof. intros (_ & _ & _ & _ & _ & He). apply (ext_tail_g 112); [lia|assumption]. Qed.

Lemma gdcr_t7 c : dcr_cst_wf c -> tail_ok DCR_t7 (r7 c) 89 (E7 c).
Proof.
  intros Hc. pose proof Hc as (_ & _ & _ & _ & Hn & _). unfold DCR_t7, r7, E7.
  apply (part_oids DCR_t8 (r8 c) 112 (E8 c) 89 90 s_NOT (dc_cnot c) FE); try reflexivity; try lia; try assumption.
  - now apply gdcr_t8.
  - apply drej8.
  - intros junk. apply follows_end.
Qed.
Lemma gdcr_t6 c : dcr_cst_wf c -> tail_ok DCR_t6 (r6 c) 66 (E6 c).
Proof.
  intros Hc. pose proof Hc as (_ & _ & _ & Hm & _ & _). unfold DCR_t6, r6, E6.
  apply (part_oids DCR_t7 (r7 c) 89 (E7 c) 66 67 s_MAY (dc_cmay c) R7); try reflexivity; try lia; try assumption.
  - now apply gdcr_t7.
  - apply drej7.
  - intros junk. apply rfollow7.
Qed.
Lemma gdcr_t5 c : dcr_cst_wf c -> tail_ok DCR_t5 (r5 c) 43 (E5 c).
Proof.
  intros Hc. pose proof Hc as (_ & _ & Hu & _ & _ & _). unfold DCR_t5, r5, E5.
  apply (part_oids DCR_t6 (r6 c) 66 (E6 c) 43 44 s_MUST (dc_cmust c) R6); try reflexivity; try lia; try assumption.
  - now apply gdcr_t6.
  - apply drej6.
  - intros junk. apply rfollow6.
Qed.
Lemma gdcr_t4 c : dcr_cst_wf c -> tail_ok DCR_t4 (r4 c) 20 (E4 c).
Proof.
  intros Hc. pose proof Hc as (_ & Ha & _ & _ & _ & _). unfold DCR_t4, r4, E4.
  apply (part_oids DCR_t5 (r5 c) 43 (E5 c) 20 21 s_AUX (dc_caux c) R5); try reflexivity; try lia; try assumption.
  - now apply gdcr_t5.
  - apply drej5.
  - intros junk. apply rfollow5.
Qed.

Theorem dcr_grammar c : dcr_cst_wf c -> dcr_from_string (dcr_sentence c) = Ok (dcr_denote c).
Proof.
  intros Hc. pose proof Hc as (Hh & Ha & Hu & Hm & Hn' & He).
  destruct (head_match_g DCR_t4 (r4 c) (E4 c) R4 (gdcr_t4 c Hc) (rfollow4 c) eq_refl eq_refl eq_refl eq_refl drej4 (dc_h c) [] Hh)
    as (c' & Em & G1 & G6' & G17 & G19 & G21 & G44 & G67 & G90 & G112).
  rewrite app_nil_r in *. fold (dcr_sentence c) in *.
  unfold dcr_from_string, do_match. unfold rx_dit_content_rule_end. rewrite dcr_regex_eq, re_match_BT. fold kf.
  change R_dcr with (HR DCR_t4). rewrite Em. cbn [bind]. unfold grp.
  unfold rx_dit_content_rule_g_desc, rx_dit_content_rule_g_extensions, rx_dit_content_rule_g_oid, rx_dit_content_rule_g_name,
    rx_dit_content_rule_g_obsolete, rx_dit_content_rule_g_aux, rx_dit_content_rule_g_must, rx_dit_content_rule_g_may, rx_dit_content_rule_g_not.
  rewrite G1, G6', G17, G19, G21, G44, G67, G90, G112.
  destruct Hh as (Ho & Hn & Hd).
  rewrite desc_back by assumption. cbn [bind]. rewrite parse_extensions_g by assumption. cbn [bind].
  rewrite names_back, !oids_back, obs_back by assumption. reflexivity.
Qed.
