(* C17, the regex stage for arbitrary spacing: the fragments of Schema/Match.v again, now with every WSP / SP
   run of any length, lists of any length in parentheses, and both spellings of the escaped backslash. *)
From Coq Require Import NArith List Bool Arith Lia ZifyBool.
From SV Require Import Base.Py Rx.Syntax Rx.Lemmas Rx.Bt Gen.Generated Schema.Model Schema.Proofs Schema.Regex Schema.Match Schema.Chain.
Import ListNotations.
Local Open Scope N_scope.

(* ---- runs of spaces *)
Definition sp (n : nat) : list N := repeat 32 n.

Lemma sp_length n : length (sp n) = n.
Proof. apply repeat_length. Qed.
Lemma sp_all n : Forall (fun c => c = 32) (sp n).
Proof. induction n; constructor; auto. Qed.
Lemma sp_ok n : Forall (fun c => chr_ok false [(32, 32)] c = true) (sp n).
Proof. eapply Forall_impl; [|apply sp_all]. intros c ->. reflexivity. Qed.
Lemma skipn_sp j n : (j <= n)%nat -> skipn j (sp n) = sp (n - j).
Proof. revert n. induction j as [|j IH]; intros n Hj; [now rewrite Nat.sub_0_r|]. destruct n; [lia|]. cbn [sp repeat skipn]. apply IH. lia. Qed.

Lemma not_sp_ok s : starts_not is_sp s -> match s with [] => True | c :: _ => chr_ok false [(32, 32)] c = false end.
Proof. destruct s as [|c s]; [trivial|]. unfold starts_not. intros H. rewrite ok_ch. exact H. Qed.

Lemma m_WSPn n rest pos cs k lo hi : starts_not is_sp rest -> eats WSPr (sp n) rest pos cs k lo hi.
Proof. intros Hr. apply m_WSP; [apply sp_all|exact Hr]. Qed.
Lemma m_SPn n rest pos cs k lo hi : starts_not is_sp rest -> eats SPr (sp (S n)) rest pos cs k lo hi.
Proof. intros Hr. unfold SPr. apply (eats_cat _ _ [32] (sp n)); [apply eats_ch|]. intros c1. now apply m_WSPn. Qed.

(* explicit forms: captures untouched *)
Lemma BT_WSP_run n s pos cs k :
  starts_not is_sp s -> k s (pos + n)%nat cs <> BNo -> BT WSPr (sp n ++ s) pos cs k = k s (pos + n)%nat cs.
Proof.
  intros Hs Hk. unfold WSPr, ch. rewrite <- (sp_length n) at 2. apply BT_star_class_S; [apply sp_ok|now apply not_sp_ok|now rewrite sp_length].
Qed.
Lemma BT_SP_run n s pos cs k :
  starts_not is_sp s -> k s (pos + S n)%nat cs <> BNo -> BT SPr (sp (S n) ++ s) pos cs k = k s (pos + S n)%nat cs.
Proof.
  intros Hs Hk. unfold SPr. cbn [sp repeat app]. rewrite BT_cat, BT_ch_yes. fold (sp n). fold WSPr.
  replace (pos + S n)%nat with (S pos + n)%nat in * by lia. now apply BT_WSP_run.
Qed.

(* failure: what follows the spaces refuses however many of them are given back *)
Lemma BT_WSP_run_no K n s pos cs k :
  starts_not is_sp s -> (forall j p c k', (j <= n)%nat -> BT K (sp j ++ s) p c k' = BNo) -> BT (Cat WSPr K) (sp n ++ s) pos cs k = BNo.
Proof.
  intros Hs HK. rewrite BT_cat. unfold WSPr, ch. apply BT_star_class_no; [apply sp_ok|now apply not_sp_ok|].
  intros j p c Hj. rewrite sp_length in Hj. rewrite skipn_sp by assumption. apply HK. lia.
Qed.
Lemma BT_SP_run_no K n s pos cs k :
  starts_not is_sp s -> (forall j p c k', (j <= n)%nat -> BT K (sp j ++ s) p c k' = BNo) -> BT (Cat SPr K) (sp n ++ s) pos cs k = BNo.
Proof.
  intros Hs HK. destruct n as [|n].
  - cbn [sp repeat app]. rewrite BT_cat. unfold SPr. rewrite BT_cat. destruct s as [|c s']; [reflexivity|]. apply BT_ch_no. cbn in Hs. chr_tac.
  - rewrite BT_cat. unfold SPr. rewrite BT_cat. cbn [sp repeat app]. rewrite BT_ch_yes. fold (sp n). fold WSPr.
    pose proof (BT_WSP_run_no K n s (S pos) cs k Hs) as H. rewrite BT_cat in H. apply H. intros j p c k' Hj. apply HK. lia.
Qed.

Lemma sp_starts_not (C : N -> bool) n s : C 32 = false -> starts_not C s -> starts_not C (sp n ++ s).
Proof. intros HC Hs. destruct n; [exact Hs|exact HC]. Qed.

(* ---- OID lists: oid / ( WSP oid *( WSP $ WSP oid ) WSP ) *)
Definition gitem (x : nat * nat * list N) : list N := let '(a, b, o) := x in sp a ++ [36] ++ sp b ++ o.
Definition gitem_oid (x : nat * nat * list N) : list N := snd x.

Inductive oids_cst :=
| OBare (o : list N)
| OParen (w0 : nat) (x : list N) (items : list (nat * nat * list N)) (w1 : nat).

Definition oids_text (c : oids_cst) : list N :=
  match c with
  | OBare o => o
  | OParen w0 x items w1 => [40] ++ sp w0 ++ (x ++ concat (map gitem items)) ++ sp w1 ++ [41]
  end.
Definition oids_den (c : oids_cst) : list ustr :=
  match c with OBare o => [o] | OParen _ x items _ => x :: map gitem_oid items end.
Definition oids_wf (c : oids_cst) : Prop := Forall oid_ok (oids_den c).

Lemma sp_cases n s : exists c r, (n = 0%nat /\ sp n ++ s = s) \/ (sp n ++ s = 32 :: r /\ c = 32).
Proof. destruct n; [exists 0, []; now left|]. exists 32, (sp n ++ s). right. split; reflexivity. Qed.

Lemma starts_not_sp_then (C : N -> bool) n c s : C 32 = false -> C c = false -> starts_not C (sp n ++ c :: s).
Proof. intros H32 Hc. destruct n; [exact Hc|exact H32]. Qed.

Lemma m_OIDITEM_g g a b o more pos cs k :
  oid_ok o -> starts_not C_oid more -> krej C_oid k -> eats (OIDITEM g) (gitem (a, b, o)) more pos cs k g (g + 6).
Proof.
  intros Ho Hm Hk. unfold OIDITEM, gitem. apply eats_group; [lia|].
  apply (eats_cat _ _ (sp a) ([36] ++ sp b ++ o)); [apply m_WSPn; reflexivity|]. intros c1.
  apply (eats_cat _ _ [36] (sp b ++ o)); [apply eats_ch|]. intros c2.
  apply (eats_cat _ _ (sp b) o).
  - apply m_WSPn. apply starts_not_oid; [assumption|]. intros c Hc. chr_tac.
  - intros c3. apply eats_group; [lia|]. apply (eats_wider _ _ _ _ _ _ (g + 2) (g + 2 + 4)); [lia|lia|].
    apply m_OID; [assumption|assumption|]. intros x s p c Hx. apply Hk. exact Hx.
Qed.

Lemma OIDITEM_stops_g g w rest p c k' : BT (OIDITEM g) (sp w ++ 41 :: rest) p c k' = BNo.
Proof.
  unfold OIDITEM. rewrite BT_group. apply BT_WSP_run_no; [reflexivity|]. intros j p0 c0 k0 _. rewrite BT_cat.
  destruct j; cbn [sp repeat app]; apply BT_ch_no; discriminate.
Qed.

Lemma gitem_first x r : exists t, gitem x ++ r = 32 :: t \/ gitem x ++ r = 36 :: t.
Proof. destruct x as [[a b] o]. unfold gitem. destruct a; cbn [sp repeat app]; eexists; [right|left]; reflexivity. Qed.

Lemma items_eat_oids_g g w rest : forall items,
  Forall oid_ok (map gitem_oid items) -> items_eat (OIDITEM g) g (g + 6) (krej C_oid) (sp w ++ 41 :: rest) (map gitem items).
Proof.
  induction items as [|[[a b] o] items IH]; intros Hl; [exact I|]. inversion Hl as [|? ? Ho Hl']; subst. cbn [map items_eat].
  split; [|split; [|now apply IH]].
  - unfold gitem. destruct a; cbn [sp repeat app]; discriminate.
  - intros p c k' Hk'. apply m_OIDITEM_g; [assumption| |assumption].
    destruct items as [|y items']; cbn [map concat app].
    + apply starts_not_sp_then; reflexivity.
    + destruct (gitem_first y (concat (map gitem items') ++ sp w ++ 41 :: rest)) as (t & [E|E]); rewrite <- app_assoc, E; reflexivity.
Qed.

Lemma m_OIDS_g g c rest pos cs k :
  oids_wf c -> starts_not C_oid rest -> krej C_oid k -> eats (OIDSr g) (oids_text c) rest pos cs k g (g + 20).
Proof.
  intros Hl Hr Hk. unfold OIDSr. apply eats_group; [lia|]. destruct c as [o|w0 x items w1]; unfold oids_wf in Hl; cbn [oids_den oids_text] in *.
  - inversion Hl as [|? ? Hx _]; subst. apply eats_alt_l. apply eats_group; [lia|].
    apply (eats_wider _ _ _ _ _ _ (g + 2) (g + 2 + 4)); [lia|lia|]. apply m_OID; [assumption|assumption|].
    intros c s p c0 Hc. apply Hk. exact Hc.
  - inversion Hl as [|? ? Hx Hl']; subst. apply eats_alt_r; [apply reject_first; reflexivity|].
    apply (eats_cat _ _ [40]); [apply eats_ch|]. intros c1.
    apply (eats_cat _ _ (sp w0)).
    { apply m_WSPn. rewrite <- !app_assoc. apply starts_not_oid; [assumption|]. intros c Hc. chr_tac. }
    intros c2. apply (eats_cat _ _ (x ++ concat (map gitem items)) (sp w1 ++ [41])).
    + apply eats_group; [lia|]. apply (eats_cat _ _ x).
      * apply eats_group; [lia|]. apply (eats_wider _ _ _ _ _ _ (g + 9) (g + 9 + 4)); [lia|lia|].
        apply m_OID; [assumption| |].
        -- destruct items as [|y items']; cbn [map concat app].
           ++ rewrite <- app_assoc. apply starts_not_sp_then; reflexivity.
           ++ destruct (gitem_first y (concat (map gitem items') ++ (sp w1 ++ [41]) ++ rest)) as (t & [E|E]); rewrite <- app_assoc, E; reflexivity.
        -- intros c s p c0 Hc. apply BT_reject; [cbn [first_in first]; rewrite first_OIDITEM; chr_tac|]. right. intros c1'.
           apply BT_reject; [|now left]. unfold WSPr, ch. cbn [first_in first nullable]. rewrite !ok_ch. chr_tac.
      * intros c3. apply (eats_wider _ _ _ _ _ _ (g + 14) (g + 14 + 6)); [lia|lia|].
        rewrite <- app_assoc. cbn [app]. apply (eats_star _ _ _ (krej C_oid)).
        -- intros p c k'. apply OIDITEM_stops_g.
        -- now apply items_eat_oids_g.
        -- intros p0 c s p c0 Hc. unfold loopk. destruct (Nat.eqb p p0); [reflexivity|].
           apply BT_reject; [cbn [first_in first]; rewrite first_OIDITEM; chr_tac|]. right. intros c1'.
           apply BT_reject; [|now left]. unfold WSPr, ch. cbn [first_in first nullable]. rewrite !ok_ch. chr_tac.
    + intros c3. apply (eats_cat _ _ (sp w1) [41]); [apply m_WSPn; reflexivity|]. intros c4. apply eats_ch.
Qed.

(* ---- lists of quoted descriptors: qdescr / ( WSP [ qdescr *( SP qdescr ) ] WSP ) *)
Definition qitem_g (x : nat * list N) : list N := sp (S (fst x)) ++ quote (snd x).

Inductive qdescrs_cst :=
| QBare (n : list N)
| QEmpty (w : nat)
| QParen (w0 : nat) (n : list N) (items : list (nat * list N)) (w1 : nat).

Definition qdescrs_text (c : qdescrs_cst) : list N :=
  match c with
  | QBare n => quote n
  | QEmpty w => [40] ++ sp w ++ [41]
  | QParen w0 n items w1 => [40] ++ sp w0 ++ (39 :: n ++ [39] ++ concat (map qitem_g items)) ++ sp w1 ++ [41]
  end.
Definition qdescrs_den (c : qdescrs_cst) : list ustr :=
  match c with QBare n => [n] | QEmpty _ => [] | QParen _ n items _ => n :: map snd items end.
Definition qdescrs_wf (c : qdescrs_cst) : Prop := Forall descr_ok (qdescrs_den c).

Lemma m_QITEM_g g a n more pos cs k : descr_ok n -> eats (QITEM g) (qitem_g (a, n)) more pos cs k g (g + 2).
Proof.
  intros Hn. unfold QITEM, qitem_g. cbn [fst snd]. apply eats_group; [lia|]. apply (eats_cat _ _ (sp (S a)) (quote n)); [apply m_SPn; reflexivity|].
  intros c1. unfold quote. apply (m_QDESCR_then (g + 1) (ch 39) n [39]); [lia|lia|assumption|reflexivity|]. intros c2. apply eats_ch.
Qed.

Lemma QITEM_stops_g g w rest p c k' : BT (QITEM g) (sp w ++ 41 :: rest) p c k' = BNo.
Proof.
  unfold QITEM. rewrite BT_group. apply BT_SP_run_no; [reflexivity|]. intros j p0 c0 k0 _. unfold QDESCR_then. rewrite BT_cat.
  destruct j; cbn [sp repeat app]; apply BT_ch_no; discriminate.
Qed.

Lemma items_eat_q_g g w rest : forall items, Forall descr_ok (map snd items) ->
  items_eat (QITEM g) g (g + 2) (fun _ => True) (sp w ++ 41 :: rest) (map qitem_g items).
Proof.
  induction items as [|[a n] items IH]; intros H; [exact I|]. inversion H; subst. cbn [map items_eat]. split; [discriminate|]. split; [|now apply IH].
  intros p c k' _. now apply m_QITEM_g.
Qed.

Lemma m_QDESCRS_g g c rest pos cs k : qdescrs_wf c -> eats (QDESCRSr g) (qdescrs_text c) rest pos cs k g (g + 8).
Proof.
  intros Hn. unfold QDESCRSr. apply eats_group; [lia|]. destruct c as [n|w|w0 n items w1]; unfold qdescrs_wf in Hn; cbn [qdescrs_den qdescrs_text] in *.
  - inversion Hn; subst. apply eats_alt_l. unfold quote.
    apply (m_QDESCR_then (g + 1) (ch 39) n [39]); [lia|lia|assumption|reflexivity|]. intros c1. apply eats_ch.
  - apply eats_alt_r; [apply reject_first; reflexivity|].
    apply (eats_cat _ _ [40]); [apply eats_ch|]. intros c1.
    apply (eats_cat _ _ (sp w) [41]); [apply m_WSPn; reflexivity|]. intros c2.
    apply (eats_cat _ _ [] [41]); [apply eats_opt_none; intros k'; apply reject_first; reflexivity|]. intros c3.
    apply (eats_cat _ _ [] [41]); [apply (m_WSPn 0); reflexivity|]. intros c4. apply eats_ch.
  - inversion Hn as [|? ? Hn1 Hn']; subst. apply eats_alt_r; [apply reject_first; reflexivity|].
    apply (eats_cat _ _ [40]); [apply eats_ch|]. intros c1.
    apply (eats_cat _ _ (sp w0)); [apply m_WSPn; reflexivity|]. intros c2.
    apply (eats_cat _ _ _ (sp w1 ++ [41])).
    + apply eats_opt_some. apply eats_group; [lia|].
      apply (m_QDESCR_then (g + 4) _ n ([39] ++ concat (map qitem_g items))); [lia|lia|assumption|reflexivity|].
      intros c3. apply (eats_cat _ _ [39]); [apply eats_ch|]. intros c4.
      apply (eats_wider _ _ _ _ _ _ (g + 6) (g + 6 + 2)); [lia|lia|]. rewrite <- app_assoc. cbn [app]. apply (eats_star _ _ _ (fun _ => True)).
      * intros; apply QITEM_stops_g.
      * now apply items_eat_q_g.
      * intros; exact I.
    + intros c3. apply (eats_cat _ _ (sp w1) [41]); [apply m_WSPn; reflexivity|]. intros c4. apply eats_ch.
Qed.

(* ---- quoted strings with every spelling of the escapes *)
Inductive dch := DPlain (c : N) | DQuote | DBslLower | DBslUpper.
Definition enc (d : dch) : list N :=
  match d with DPlain c => [c] | DQuote => [92; 50; 55] | DBslLower => [92; 53; 99] | DBslUpper => [92; 53; 67] end.
Definition den (d : dch) : N := match d with DPlain c => c | DQuote => 39 | _ => 92 end.
Definition dch_ok (d : dch) : Prop := match d with DPlain c => c <> 39 /\ c <> 92 | _ => True end.
Definition qd_g (ds : list dch) : list N := [39] ++ concat (map enc ds) ++ [39].
Definition ds_ok (ds : list dch) : Prop := ds <> [] /\ Forall dch_ok ds.

Lemma m_QCHAR_g g d more pos cs k : dch_ok d -> eats (Group g QCHAR) (enc d) more pos cs k g g.
Proof.
  intros Hd. apply eats_group; [lia|]. unfold QCHAR. destruct d as [c| | |]; cbn [enc].
  - destruct Hd as [N2 N1]. apply eats_alt_r.
    { cbn [app]. rewrite BT_cat. now apply BT_ch_no. }
    apply eats_alt_r.
    { cbn [app]. rewrite BT_cat. now apply BT_ch_no. }
    apply eats_chr. unfold chr_ok, in_ranges. cbn [existsb fst snd]. rewrite xorb_true_l. lia.
  - apply eats_alt_r.
    { cbn [app]. rewrite BT_cat, BT_ch_yes, BT_cat. apply BT_ch_no. discriminate. }
    apply eats_alt_l. apply (eats_cat _ _ [92] [50; 55]); [apply eats_ch|]. intros c1.
    apply (eats_cat _ _ [50] [55]); [apply eats_ch|]. intros c2. apply eats_ch.
  - apply eats_alt_l. apply (eats_cat _ _ [92] [53; 99]); [apply eats_ch|]. intros c1.
    apply (eats_cat _ _ [53] [99]); [apply eats_ch|]. intros c2. apply eats_chr. reflexivity.
  - apply eats_alt_l. apply (eats_cat _ _ [92] [53; 67]); [apply eats_ch|]. intros c1.
    apply (eats_cat _ _ [53] [67]); [apply eats_ch|]. intros c2. apply eats_chr. reflexivity.
Qed.

Lemma enc_nonempty d : enc d <> [].
Proof. destruct d; discriminate. Qed.

Lemma items_eat_qchars_g g rest : forall ds, Forall dch_ok ds -> items_eat (Group g QCHAR) g g (fun _ => True) rest (map enc ds).
Proof.
  induction ds as [|d ds IH]; intros H; [exact I|]. inversion H; subst. cbn [map items_eat]. split; [apply enc_nonempty|]. split; [|now apply IH].
  intros p c0 k' _. now apply m_QCHAR_g.
Qed.

Lemma m_QDSTRING_then_g g K ds tK rest pos cs k lo hi :
  (lo <= g <= hi)%nat -> ds_ok ds ->
  (forall c1, eats K (39 :: tK) rest (pos + 1 + length (concat (map enc ds))) c1 k lo hi) ->
  eats (QDSTRING_then g K) ([39] ++ concat (map enc ds) ++ 39 :: tK) rest pos cs k lo hi.
Proof.
  intros Hg [Hne Hds] HK. unfold QDSTRING_then. apply (eats_cat _ _ [39]); [apply eats_ch|]. intros c1.
  apply (eats_cat _ _ (concat (map enc ds)) (39 :: tK)); [|intros c2; apply HK].
  destruct ds as [|d ds]; [congruence|]. inversion Hds; subst. cbn [map concat]. apply (eats_wider _ _ _ _ _ _ g g); [lia|lia|].
  apply (eats_cat _ _ (enc d)); [now apply m_QCHAR_g|]. intros c2.
  apply (eats_star _ _ _ (fun _ => True)).
  - intros. apply reject_first; reflexivity.
  - now apply items_eat_qchars_g.
  - intros; exact I.
Qed.

Lemma m_QDSTRING_g g ds rest pos cs k : ds_ok ds -> eats (QDSTRINGr g) (qd_g ds) rest pos cs k g g.
Proof.
  intros Hv. unfold QDSTRINGr, qd_g. apply (m_QDSTRING_then_g g (ch 39) ds []); [lia|assumption|]. intros c1. apply eats_ch.
Qed.

(* ---- lists of quoted strings: qdstring / ( WSP [ qdstring *( SP qdstring ) ] WSP ) *)
Definition qsitem_g (x : nat * list dch) : list N := sp (S (fst x)) ++ qd_g (snd x).

Inductive qdstrings_cst :=
| SBare (ds : list dch)
| SEmpty (w : nat)
| SParen (w0 : nat) (ds : list dch) (items : list (nat * list dch)) (w1 : nat).

Definition qdstrings_text (c : qdstrings_cst) : list N :=
  match c with
  | SBare ds => qd_g ds
  | SEmpty w => [40] ++ sp w ++ [41]
  | SParen w0 ds items w1 => [40] ++ sp w0 ++ ([39] ++ concat (map enc ds) ++ 39 :: concat (map qsitem_g items) ++ sp w1) ++ [41]
  end.
Definition qdstrings_den (c : qdstrings_cst) : list ustr :=
  match c with SBare ds => [map den ds] | SEmpty _ => [] | SParen _ ds items _ => map den ds :: map (fun x => map den (snd x)) items end.
Definition qdstrings_parts (c : qdstrings_cst) : list (list dch) :=
  match c with SBare ds => [ds] | SEmpty _ => [] | SParen _ ds items _ => ds :: map snd items end.
Definition qdstrings_wf (c : qdstrings_cst) : Prop := Forall ds_ok (qdstrings_parts c).

Lemma m_QSITEM_g g a ds more pos cs k : ds_ok ds -> eats (QSITEM g) (qsitem_g (a, ds)) more pos cs k g (g + 1).
Proof.
  intros Hv. unfold QSITEM, qsitem_g. cbn [fst snd]. apply eats_group; [lia|].
  apply (eats_cat _ _ (sp (S a)) (qd_g ds)); [apply m_SPn; reflexivity|].
  intros c1. apply (eats_wider _ _ _ _ _ _ (g + 1) (g + 1)); [lia|lia|]. now apply m_QDSTRING_g.
Qed.

Lemma QSITEM_stops_g g w rest p c k' : BT (QSITEM g) (sp w ++ 41 :: rest) p c k' = BNo.
Proof.
  unfold QSITEM. rewrite BT_group. apply BT_SP_run_no; [reflexivity|]. intros j p0 c0 k0 _. unfold QDSTRINGr, QDSTRING_then. rewrite BT_cat.
  destruct j; cbn [sp repeat app]; apply BT_ch_no; discriminate.
Qed.

Lemma items_eat_qs_g g w rest : forall items, Forall ds_ok (map snd items) ->
  items_eat (QSITEM g) g (g + 1) (fun _ => True) (sp w ++ 41 :: rest) (map qsitem_g items).
Proof.
  induction items as [|[a ds] items IH]; intros H; [exact I|]. inversion H; subst. cbn [map items_eat]. split; [discriminate|]. split; [|now apply IH].
  intros p c k' _. now apply m_QSITEM_g.
Qed.

Lemma m_QDSTRINGS_g g c rest pos cs k : qdstrings_wf c -> eats (QDSTRINGSr g) (qdstrings_text c) rest pos cs k g (g + 5).
Proof.
  intros Hv. unfold QDSTRINGSr. apply eats_group; [lia|]. destruct c as [ds|w|w0 ds items w1]; unfold qdstrings_wf in Hv; cbn [qdstrings_parts qdstrings_text] in *.
  - inversion Hv; subst. apply eats_alt_l. apply (eats_wider _ _ _ _ _ _ (g + 1) (g + 1)); [lia|lia|]. now apply m_QDSTRING_g.
  - apply eats_alt_r; [apply reject_first; reflexivity|].
    apply (eats_cat _ _ [40]); [apply eats_ch|]. intros c1.
    apply (eats_cat _ _ (sp w) [41]); [apply m_WSPn; reflexivity|]. intros c2.
    apply (eats_cat _ _ [] [41]); [|intros c3; apply eats_ch].
    apply eats_opt_none. intros k'. apply reject_first; reflexivity.
  - inversion Hv as [|? ? Hv1 Hv']; subst. apply eats_alt_r; [apply reject_first; reflexivity|].
    apply (eats_cat _ _ [40]); [apply eats_ch|]. intros c1.
    apply (eats_cat _ _ (sp w0)); [apply m_WSPn; reflexivity|]. intros c2.
    apply (eats_cat _ _ _ [41]); [|intros c3; apply eats_ch].
    apply eats_opt_some. apply eats_group; [lia|].
    apply (m_QDSTRING_then_g (g + 3) _ ds (concat (map qsitem_g items) ++ sp w1)); [lia|assumption|].
    intros c3. apply (eats_cat _ _ [39]); [apply eats_ch|]. intros c4.
    apply (eats_cat _ _ _ (sp w1)); [|intros c5; apply m_WSPn; reflexivity].
    apply (eats_wider _ _ _ _ _ _ (g + 4) (g + 4 + 1)); [lia|lia|]. apply (eats_star _ _ _ (fun _ => True)).
    + intros; apply QSITEM_stops_g.
    + now apply items_eat_qs_g.
    + intros; exact I.
Qed.

(* ---- extensions: *( SP xstring SP qdstrings ) *)
Record ext_cst := mkExt { e_a : nat; e_key : list N; e_b : nat; e_vals : qdstrings_cst }.
Definition ext_text_g (x : ext_cst) : list N := sp (S (e_a x)) ++ (88 :: 45 :: e_key x) ++ sp (S (e_b x)) ++ qdstrings_text (e_vals x).
Definition ext_wf (x : ext_cst) : Prop := xkey_ok (e_key x) /\ qdstrings_wf (e_vals x).

Lemma qdstrings_first c : exists t, qdstrings_text c = 39 :: t \/ qdstrings_text c = 40 :: t.
Proof. destruct c; cbn [qdstrings_text]; eexists; [left|right|right]; reflexivity. Qed.

Lemma m_EXTITEM_g g x more pos cs k : ext_wf x -> eats (EXTITEM g) (ext_text_g x) more pos cs k g (g + 8).
Proof.
  intros [Ha Hv]. unfold ext_text_g, EXTITEM. apply eats_group; [lia|].
  apply (eats_cat _ _ (sp (S (e_a x)))); [apply m_SPn; reflexivity|]. intros c1.
  apply (eats_cat _ _ (88 :: 45 :: e_key x)).
  - apply (eats_wider _ _ _ _ _ _ (g + 1) (S (g + 1))); [lia|lia|]. apply m_XSTRING; [assumption|reflexivity].
  - intros c2. apply (eats_cat _ _ (sp (S (e_b x)))).
    + apply m_SPn. destruct (qdstrings_first (e_vals x)) as (t & [E|E]); rewrite E; reflexivity.
    + intros c3. apply (eats_wider _ _ _ _ _ _ (g + 3) (g + 3 + 5)); [lia|lia|]. now apply m_QDSTRINGS_g.
Qed.

Lemma EXTITEM_stops_g g w rest p c k' : BT (EXTITEM g) (sp w ++ 41 :: rest) p c k' = BNo.
Proof.
  unfold EXTITEM. rewrite BT_group. apply BT_SP_run_no; [reflexivity|]. intros j p0 c0 k0 _. rewrite BT_cat. unfold XSTRINGr. rewrite BT_group, BT_cat.
  destruct j; cbn [sp repeat app]; rewrite BT_chr; reflexivity.
Qed.

Definition exts_text (e : list ext_cst) : list N := concat (map ext_text_g e).

Lemma items_eat_ext_g g w rest : forall e, Forall ext_wf e ->
  items_eat (EXTITEM g) g (g + 8) (fun _ => True) (sp w ++ 41 :: rest) (map ext_text_g e).
Proof.
  induction e as [|x e IH]; intros H; [exact I|]. inversion H; subst. cbn [map items_eat]. split; [|split; [|now apply IH]].
  - unfold ext_text_g. discriminate.
  - intros p c k' _. now apply m_EXTITEM_g.
Qed.

Lemma m_EXT_g g e w rest pos cs k :
  Forall ext_wf e -> eats (EXTr g) (exts_text e) (sp w ++ 41 :: rest) pos cs k g (g + 8).
Proof.
  intros He. unfold EXTr, exts_text. apply (eats_star _ _ _ (fun _ => True)).
  - intros; apply EXTITEM_stops_g.
  - now apply items_eat_ext_g.
  - intros; exact I.
Qed.

(* ======== the chain of optional parts with arbitrary spacing ======== *)
Definition nonsp (p : list N) : bool := match p with c :: _ => negb (c =? 32) | [] => false end.
(* what comes next: some spaces, then one of the listed beginnings; no space at all only before the closing parenthesis *)
Definition closes (p : list N) : bool := match p with c :: _ => c =? 41 | [] => false end.
Definition follows (F : list (list N)) (s : list N) : Prop :=
  exists n p r, In p F /\ s = sp n ++ p ++ r /\ (n <> 0%nat \/ closes p = true).

Lemma follows_skip p F s : follows F s -> follows (p :: F) s.
Proof. intros (n & q & r & Hin & -> & Hn). exists n, q, r. split; [now right|split; [reflexivity|exact Hn]]. Qed.
Lemma follows_here n p F r : follows (p :: F) (sp (S n) ++ p ++ r).
Proof. exists (S n), p, r. split; [now left|split; [reflexivity|left; discriminate]]. Qed.
Lemma follows_close n F r : follows ([41] :: F) (sp n ++ [41] ++ r).
Proof. exists n, [41], r. split; [now left|split; [reflexivity|right; reflexivity]]. Qed.

Lemma follows_first F s (C : N -> bool) : follows F s -> C 32 = false -> C 41 = false -> starts_not C s.
Proof.
  intros (n & p & r & _ & -> & Hn) H32 H41. destruct n as [|n]; [|exact H32].
  destruct Hn as [Hn|Hn]; [congruence|]. destruct p as [|c p]; [discriminate|]. cbn in *. apply N.eqb_eq in Hn. subst c. exact H41.
Qed.

(* a literal fails after any number of spaces when the text that follows them is not the literal *)
Lemma lit_after_spaces kw K j p r pp c k' :
  nonsp kw = true -> mismatch kw p = true -> BT (lit kw K) (sp j ++ p ++ r) pp c k' = BNo.
Proof.
  intros Hkw Hm. apply lit_no. destruct j; cbn [sp repeat app]; [now apply mismatch_app|].
  destruct kw as [|c0 kw]; [discriminate|]. cbn [mismatch nonsp] in *. destruct (N.eqb_spec 32 c0) as [<-|]; [discriminate|reflexivity].
Qed.
Lemma lit'_after_spaces kw j p r pp c k' :
  nonsp kw = true -> mismatch kw p = true -> BT (lit' kw) (sp j ++ p ++ r) pp c k' = BNo.
Proof.
  intros Hkw Hm. apply lit'_no. destruct j; cbn [sp repeat app]; [now apply mismatch_app|].
  destruct kw as [|c0 kw]; [discriminate|]. cbn [mismatch nonsp] in *. destruct (N.eqb_spec 32 c0) as [<-|]; [discriminate|reflexivity].
Qed.

Lemma nonsp_starts p r : nonsp p = true -> starts_not is_sp (p ++ r).
Proof. destruct p as [|c p]; [discriminate|]. unfold nonsp, starts_not, is_sp. cbn [app]. destruct (c =? 32); [discriminate|reflexivity]. Qed.

Lemma follows_shape F s : follows F s -> forallb nonsp F = true -> exists n s', s = sp n ++ s' /\ starts_not is_sp s'.
Proof.
  intros (n & p & r & Hin & -> & _) H. rewrite forallb_forall in H. specialize (H p Hin). exists n, (p ++ r). split; [reflexivity|].
  now apply nonsp_starts.
Qed.

(* an optional part that is absent: its body fails on what follows, however many spaces are given back *)
Lemma tailg_absent T txt lo Q g gm B F :
  tail_ok T txt lo Q -> (g <= gm)%nat -> (gm < lo)%nat ->
  (forall junk, follows F (txt ++ junk)) -> forallb nonsp F = true ->
  (forall p r j pp c k', In p F -> BT B (sp j ++ p ++ r) pp c k' = BNo) ->
  tail_ok (Cat (optg g (Cat SPr B)) T) txt g (fun w c' => group_text w c' gm = None /\ Q w c').
Proof.
  intros HT Hg1 Hg2 HF Hns HB w pre junk cs Hw. destruct (HT w pre junk cs Hw) as (c' & T' & E' & Q').
  exists c'. split; [|split].
  - apply (only_touches_wider lo 200); [lia|lia|exact T'].
  - rewrite BT_cat. unfold optg. rewrite BT_opt_none; [exact E'|]. intros k'.
    destruct (HF junk) as (n & p & r & Hin & E & _). rewrite E. rewrite BT_group. apply BT_SP_run_no.
    + rewrite forallb_forall in Hns. specialize (Hns p Hin). now apply nonsp_starts.
    + intros j pp c k0 _. now apply HB.
  - intros Hf. split.
    + unfold group_text. rewrite T' by lia. rewrite Hf by lia. reflexivity.
    + apply Q'. apply (fresh_weaken g); [lia|assumption].
Qed.

Definition seg_kw_g (a : nat) (kw : list N) (b : nat) (payload : list N) : list N := sp (S a) ++ kw ++ sp (S b) ++ payload.

Lemma tailg_kw_present T txt lo Q g gm kw P a b ptext loP hiP (C : N -> bool) :
  tail_ok T txt lo Q ->
  (g < gm)%nat -> (gm < lo)%nat -> (gm < loP \/ hiP < loP)%nat -> (hiP < lo)%nat -> (lo <= 200)%nat ->
  nonsp kw = true -> starts_not is_sp ptext -> ptext <> [] ->
  (forall junk p c k', krej C k' -> eats P ptext (txt ++ junk) p c k' loP hiP) ->
  (forall x s p c, C x = true -> BT T (x :: s) p c kf = BNo) ->
  tail_ok (Cat (KWSEG g gm kw P) T) (seg_kw_g a kw b ptext ++ txt) g
    (fun w c' => group_text w c' gm = Some ptext /\ Q w c').
Proof.
  intros HT Hg1 Hg2 Hg2' Hg3 Hg4 Hkw Hpt Hne HP HC w pre junk cs Hw. unfold seg_kw_g in *.
  set (pos := length pre). set (p1 := (pos + S a + length kw + S b)%nat). set (p2 := (p1 + length ptext)%nat).
  assert (Hw' : w = (pre ++ sp (S a) ++ kw ++ sp (S b) ++ ptext) ++ txt ++ junk) by (rewrite Hw, <- !app_assoc; reflexivity).
  assert (Lp : length (pre ++ sp (S a) ++ kw ++ sp (S b) ++ ptext) = p2).
  { rewrite !app_length, !sp_length. unfold p2, p1, pos. lia. }
  set (k := fun (s1 : list N) (p1 : nat) (c1 : caps) => BT T s1 p1 c1 kf).
  set (k1 := fun (s1 : list N) (pp : nat) (c1 : caps) => k s1 pp ((g, (pos, pp)) :: c1)).
  set (k2 := fun (s1 : list N) (pp : nat) (c1 : caps) => k1 s1 pp ((gm, (p1, pp)) :: c1)).
  assert (Hk2 : krej C k2) by (intros x s p c Hx; apply HC; exact Hx).
  assert (Hall : forall p c, BT T (txt ++ junk) p c kf <> BNo) by (intros p c; now apply (tail_ok_total _ _ _ _ HT)).
  destruct (HP junk p1 cs k2 Hk2) as (c3 & T3 & E3).
  { intros c'. unfold k2, k1, k. apply Hall. }
  destruct (HT w _ junk ((g, (pos, p2)) :: (gm, (p1, p2)) :: c3) Hw') as (c' & T' & E' & Q'). rewrite Lp in E'.
  assert (E_in2 : BT (Group gm P) (ptext ++ txt ++ junk) p1 cs k1 = BYes (p2 + length txt) c').
  { rewrite BT_group. fold k2. rewrite E3. unfold k2, k1, k. fold p2. exact E'. }
  assert (Sp2 : starts_not is_sp (ptext ++ txt ++ junk)) by (destruct ptext; [congruence|exact Hpt]).
  assert (E_lit : BT (lit kw (Cat SPr (Group gm P))) (kw ++ sp (S b) ++ ptext ++ txt ++ junk) (pos + S a) cs k1 = BYes (p2 + length txt) c').
  { rewrite BT_lit, BT_cat. replace (pos + S a + length kw + S b)%nat with p1 in * by reflexivity.
    rewrite BT_SP_run; [|exact Sp2|].
    - replace (pos + S a + length kw + S b)%nat with p1 by reflexivity. exact E_in2.
    - replace (pos + S a + length kw + S b)%nat with p1 by reflexivity. rewrite E_in2. discriminate. }
  exists c'. split; [|split].
  - intros i Hi. rewrite T' by lia. cbn [cap_lookup].
    destruct (Nat.eqb_spec i g); [lia|]. destruct (Nat.eqb_spec i gm); [lia|]. apply T3. lia.
  - rewrite BT_cat. unfold KWSEG, optg. rewrite BT_alt, BT_group, BT_cat. fold pos.
    unfold k1, k in E_lit. cbv beta in E_lit.
    rewrite <- !app_assoc. rewrite BT_SP_run.
    + rewrite E_lit. f_equal. unfold p2, p1. rewrite !app_length, !sp_length. lia.
    + now apply nonsp_starts.
    + rewrite E_lit. discriminate.
  - intros Hf. split.
    + unfold group_text. rewrite T' by lia. cbn [cap_lookup]. destruct (Nat.eqb_spec gm g); [lia|]. rewrite Nat.eqb_refl.
      f_equal. rewrite Hw. replace (pre ++ ((sp (S a) ++ kw ++ sp (S b) ++ ptext) ++ txt) ++ junk)
        with ((pre ++ sp (S a) ++ kw ++ sp (S b)) ++ ptext ++ (txt ++ junk)) by (rewrite <- !app_assoc; reflexivity).
      apply slice_mid; [|unfold p2; f_equal]; rewrite !app_length, !sp_length; unfold p1, pos; lia.
    + apply Q'.
      apply fresh_push; [lia|]. apply fresh_push; [lia|]. apply (fresh_touch lo loP hiP cs); [lia|assumption|]. apply (fresh_weaken g); [lia|assumption].
Qed.

Lemma tailg_flag_present T txt lo Q g kw a :
  tail_ok T txt lo Q -> (g < lo)%nat -> (lo <= 200)%nat -> kw <> [] -> nonsp kw = true ->
  tail_ok (Cat (FLAGSEG g kw) T) ((sp (S a) ++ kw) ++ txt) g
    (fun w c' => group_text w c' g = Some (sp (S a) ++ kw) /\ Q w c').
Proof.
  intros HT Hg Hg200 Hne Hkw w pre junk cs Hw.
  set (pos := length pre). set (p2 := (pos + S a + length kw)%nat).
  assert (Hw' : w = (pre ++ sp (S a) ++ kw) ++ txt ++ junk) by (rewrite Hw, <- !app_assoc; reflexivity).
  assert (Lp : length (pre ++ sp (S a) ++ kw) = p2) by (rewrite !app_length, sp_length; unfold p2, pos; lia).
  destruct (HT w _ junk ((g, (pos, p2)) :: cs) Hw') as (c' & T' & E' & Q'). rewrite Lp in E'.
  set (k1 := fun (s1 : list N) (pp : nat) (c1 : caps) => BT T s1 pp ((g, (pos, pp)) :: c1) kf).
  assert (E_lit : BT (lit' kw) (kw ++ txt ++ junk) (pos + S a) cs k1 = BYes (p2 + length txt) c').
  { rewrite BT_lit' by assumption. unfold k1. fold p2. exact E'. }
  exists c'. split; [|split].
  - intros i Hi. rewrite T' by lia. cbn [cap_lookup]. destruct (Nat.eqb_spec i g); [lia|reflexivity].
  - rewrite BT_cat. unfold FLAGSEG, optg. rewrite BT_alt, BT_group, BT_cat. fold pos. unfold k1 in E_lit. rewrite <- !app_assoc.
    rewrite BT_SP_run.
    + rewrite E_lit. f_equal. unfold p2. rewrite !app_length, sp_length. lia.
    + now apply nonsp_starts.
    + rewrite E_lit. discriminate.
  - intros Hf. split.
    + unfold group_text. rewrite T' by lia. rewrite cap_lookup_push. f_equal. rewrite Hw.
      replace (pre ++ ((sp (S a) ++ kw) ++ txt) ++ junk) with (pre ++ (sp (S a) ++ kw) ++ (txt ++ junk)) by (rewrite <- !app_assoc; reflexivity).
      apply slice_mid; [reflexivity|]. unfold p2, pos. rewrite app_length, sp_length. lia.
    + apply Q'. apply fresh_push; [lia|]. apply (fresh_weaken g); [lia|assumption].
Qed.

Lemma tailg_grp_present T txt lo Q g gm P a ptext :
  tail_ok T txt lo Q -> (g < gm)%nat -> (gm < lo)%nat -> (lo <= 200)%nat ->
  starts_not is_sp ptext -> ptext <> [] ->
  (forall junk p c k', eats P ptext (txt ++ junk) p c k' 1 0) ->
  tail_ok (Cat (GRPSEG g gm P) T) ((sp (S a) ++ ptext) ++ txt) g
    (fun w c' => group_text w c' gm = Some ptext /\ Q w c').
Proof.
  intros HT Hg1 Hg2 Hg200 Hpt Hne HP w pre junk cs Hw.
  set (pos := length pre). set (p1 := (pos + S a)%nat). set (p2 := (p1 + length ptext)%nat).
  assert (Hw' : w = (pre ++ sp (S a) ++ ptext) ++ txt ++ junk) by (rewrite Hw, <- !app_assoc; reflexivity).
  assert (Lp : length (pre ++ sp (S a) ++ ptext) = p2) by (rewrite !app_length, sp_length; unfold p2, p1, pos; lia).
  set (k1 := fun (s1 : list N) (pp : nat) (c1 : caps) => BT T s1 pp ((g, (pos, pp)) :: c1) kf).
  set (k2 := fun (s1 : list N) (pp : nat) (c1 : caps) => k1 s1 pp ((gm, (p1, pp)) :: c1)).
  assert (Hall : forall p c, BT T (txt ++ junk) p c kf <> BNo) by (intros p c; now apply (tail_ok_total _ _ _ _ HT)).
  destruct (HP junk p1 cs k2) as (c3 & T3 & E3).
  { intros c'. unfold k2, k1. apply Hall. }
  destruct (HT w _ junk ((g, (pos, p2)) :: (gm, (p1, p2)) :: c3) Hw') as (c' & T' & E' & Q'). rewrite Lp in E'.
  assert (E_in : BT (Group gm P) (ptext ++ txt ++ junk) p1 cs k1 = BYes (p2 + length txt) c').
  { rewrite BT_group. fold k2. rewrite E3. unfold k2, k1. fold p2. exact E'. }
  exists c'. split; [|split].
  - intros i Hi. rewrite T' by lia. cbn [cap_lookup].
    destruct (Nat.eqb_spec i g); [lia|]. destruct (Nat.eqb_spec i gm); [lia|]. apply T3. lia.
  - rewrite BT_cat. unfold GRPSEG, optg. rewrite BT_alt, BT_group, BT_cat. fold pos. unfold k1 in E_in. rewrite <- !app_assoc.
    rewrite BT_SP_run.
    + fold p1. rewrite E_in. f_equal. unfold p2, p1. rewrite !app_length, sp_length. lia.
    + destruct ptext; [congruence|exact Hpt].
    + fold p1. rewrite E_in. discriminate.
  - intros Hf. split.
    + unfold group_text. rewrite T' by lia. cbn [cap_lookup]. destruct (Nat.eqb_spec gm g); [lia|]. rewrite Nat.eqb_refl.
      f_equal. rewrite Hw. replace (pre ++ ((sp (S a) ++ ptext) ++ txt) ++ junk) with ((pre ++ sp (S a)) ++ ptext ++ (txt ++ junk)) by (rewrite <- !app_assoc; reflexivity).
      apply slice_mid; [|unfold p2; f_equal]; rewrite !app_length, sp_length; unfold p1, pos; lia.
    + apply Q'. apply fresh_push; [lia|]. apply fresh_push; [lia|]. intros i Hi. rewrite T3 by lia. apply Hf. lia.
Qed.
