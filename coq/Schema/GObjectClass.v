(* C17 for object classes: every sentence of the RFC 4512 ObjectClassDescription grammar, with any spacing,
   list form and escape spelling, is parsed to the description it denotes. *)
From Coq Require Import NArith ZArith List Bool Arith Lia ZifyBool.
From SV Require Import Base.Py Rx.Syntax Rx.Lemmas Rx.Bt Gen.Generated Schema.Model Schema.Proofs Schema.Regex Schema.Match Schema.Chain
  Schema.ObjectClass Schema.GMatch Schema.GRead Schema.GChain.
Import ListNotations.
Local Open Scope N_scope.

(* the concrete syntax tree of a sentence: the description's fields together with every spacing choice *)
Record oc_cst := mkOCc {
  oc_h : head_cst; oc_csup : part oids_cst; oc_ckind : option (nat * N);
  oc_cmust : part oids_cst; oc_cmay : part oids_cst; oc_cext : list ext_cst; oc_cw1 : nat }.

Definition kind_seg (k : option (nat * N)) : list N := match k with Some (a, k) => sp (S a) ++ kind_text k | None => [] end.
Definition kind_payload (k : option (nat * N)) : option (list N) := match k with Some (_, k) => Some (kind_text k) | None => None end.

Definition o8 c := end_text (oc_cext c) (oc_cw1 c).
Definition o7 c := part_text s_MAY oids_text (oc_cmay c) ++ o8 c.
Definition o6 c := part_text s_MUST oids_text (oc_cmust c) ++ o7 c.
Definition o5 c := kind_seg (oc_ckind c) ++ o6 c.
Definition o4 c := part_text s_SUP oids_text (oc_csup c) ++ o5 c.
Definition oc_sentence c : list N := head_sentence (o4 c) (oc_h c).

Definition part_den {A B} (f : A -> list B) (p : part A) : list B := match p with Some (_, _, x) => f x | None => [] end.

Definition oc_denote (c : oc_cst) : objclass :=
  mkOC (h_oid (oc_h c)) (part_den qdescrs_den (h_name (oc_h c)))
       (match h_desc (oc_h c) with Some (_, _, ds) => Some (map den ds) | None => None end)
       (match h_obs (oc_h c) with Some _ => true | None => false end)
       (part_den oids_den (oc_csup c))
       (match oc_ckind c with Some (_, k) => k | None => 1 end)
       (part_den oids_den (oc_cmust c)) (part_den oids_den (oc_cmay c)) (exts_den (oc_cext c)).

Definition oc_cst_wf (c : oc_cst) : Prop :=
  head_ok (oc_h c) /\ part_ok oids_wf (oc_csup c) /\
  (match oc_ckind c with Some (_, k) => k = 0 \/ k = 1 \/ k = 2 | None => True end) /\
  part_ok oids_wf (oc_cmust c) /\ part_ok oids_wf (oc_cmay c) /\ exts_wf (oc_cext c).

Definition G7 := s_MAY :: FE.
Definition G6 := s_MUST :: G7.
Definition G5 := s_ABSTRACT :: s_STRUCTURAL :: s_AUXILIARY :: G6.
Definition G4 := s_SUP :: G5.

Lemma gfollow7 c junk : follows G7 (o7 c ++ junk).
Proof. apply part_follows, follows_end. Qed.
Lemma gfollow6 c junk : follows G6 (o6 c ++ junk).
Proof. apply part_follows, gfollow7. Qed.
Lemma gfollow5 c junk : follows G5 (o5 c ++ junk).
Proof.
  unfold o5, G5. destruct (oc_ckind c) as [[a k]|]; cbn [kind_seg app].
  - rewrite <- !app_assoc. destruct (kind_text_cases k) as [-> | [-> | ->]].
    + apply follows_here.
    + apply follows_skip, follows_here.
    + apply follows_skip, follows_skip, follows_here.
  - apply follows_skip, follows_skip, follows_skip, gfollow6.
Qed.
Lemma gfollow4 c junk : follows G4 (o4 c ++ junk).
Proof. apply part_follows, gfollow5. Qed.

Definition P8 c (w : list N) (cs : caps) := group_text w cs 91 = Some (exts_text (oc_cext c)).
Definition P7 c w cs := group_text w cs 69 = part_payload oids_text (oc_cmay c) /\ P8 c w cs.
Definition P6 c w cs := group_text w cs 46 = part_payload oids_text (oc_cmust c) /\ P7 c w cs.
Definition P5 c w cs := group_text w cs 44 = kind_payload (oc_ckind c) /\ P6 c w cs.
Definition P4 c w cs := group_text w cs 21 = part_payload oids_text (oc_csup c) /\ P5 c w cs.

Lemma rej8 : rej_ok OC_tail8.  Proof. split; [reflexivity|apply first_tail8]. Qed.
Lemma rej7 : rej_ok OC_tail7.  Proof. split; [reflexivity|apply first_tail7]. Qed.
Lemma rej6 : rej_ok OC_tail6.  Proof. split; [reflexivity|apply first_tail6]. Qed.
Lemma rej5 : rej_ok OC_tail5.  Proof. split; [reflexivity|apply first_tail5]. Qed.
Lemma rej4 : rej_ok OC_tail4.  Proof. split; [reflexivity|apply first_tail4]. Qed.

Lemma goc_t8 c : oc_cst_wf c -> tail_ok OC_tail8 (o8 c) 91 (P8 c).
Proof. intros (_ & _ & _ & _ & _ & He). apply (ext_tail_g 91); [lia|assumption]. Qed.

Lemma goc_t7 c : oc_cst_wf c -> tail_ok OC_tail7 (o7 c) 68 (P7 c).
Proof.
  intros Hc. pose proof Hc as (_ & _ & _ & _ & Hm & _). unfold OC_tail7, o7, P7.
  apply (part_oids OC_tail8 (o8 c) 91 (P8 c) 68 69 s_MAY (oc_cmay c) FE); try reflexivity; try lia; try assumption.
  - now apply goc_t8.
  - apply rej8.
  - intros junk. apply follows_end.
Qed.

Lemma goc_t6 c : oc_cst_wf c -> tail_ok OC_tail6 (o6 c) 45 (P6 c).
Proof.
  intros Hc. pose proof Hc as (_ & _ & _ & Hu & _ & _). unfold OC_tail6, o6, P6.
  apply (part_oids OC_tail7 (o7 c) 68 (P7 c) 45 46 s_MUST (oc_cmust c) G7); try reflexivity; try lia; try assumption.
  - now apply goc_t7.
  - apply rej7.
  - intros junk. apply gfollow7.
Qed.

Lemma kind_fails p r j pp c k' : In p G6 -> BT (Group 44 KINDr) (sp j ++ p ++ r) pp c k' = BNo.
Proof.
  intros Hin. rewrite BT_group. unfold KINDr. rewrite !BT_alt.
  assert (M : mismatch s_ABSTRACT p = true /\ mismatch s_STRUCTURAL p = true /\ mismatch s_AUXILIARY p = true).
  { unfold G6, G7, FE in Hin. cbn [In] in Hin. destruct Hin as [<-|[<-|[<-|[<-|[]]]]]; repeat split; reflexivity. }
  destruct M as (M1 & M2 & M3).
  rewrite (lit'_after_spaces s_ABSTRACT) by (try reflexivity; assumption).
  rewrite (lit'_after_spaces s_STRUCTURAL) by (try reflexivity; assumption).
  apply (lit'_after_spaces s_AUXILIARY); [reflexivity|assumption].
Qed.

Lemma goc_t5 c : oc_cst_wf c -> tail_ok OC_tail5 (o5 c) 43 (P5 c).
Proof.
  intros Hc. unfold OC_tail5, o5, P5. destruct (oc_ckind c) as [[a k]|]; cbn [kind_seg kind_payload app].
  - apply (tailg_grp_present OC_tail6 (o6 c) 45 (P6 c) 43 44 KINDr a (kind_text k)); try lia.
    + now apply goc_t6.
    + destruct (kind_text_cases k) as [-> | [-> | ->]]; reflexivity.
    + destruct (kind_text_cases k) as [-> | [-> | ->]]; discriminate.
    + intros junk p c0 k'. apply m_KIND.
  - apply (tailg_absent OC_tail6 (o6 c) 45 (P6 c) 43 44 _ G6); try lia; try reflexivity.
    + now apply goc_t6.
    + intros junk. apply gfollow6.
    + intros p r j pp c0 k' Hin. now apply kind_fails.
Qed.

Lemma goc_t4 c : oc_cst_wf c -> tail_ok OC_tail4 (o4 c) 20 (P4 c).
Proof.
  intros Hc. pose proof Hc as (_ & Hs & _ & _ & _ & _). unfold OC_tail4, o4, P4.
  apply (part_oids OC_tail5 (o5 c) 43 (P5 c) 20 21 s_SUP (oc_csup c) G5); try reflexivity; try lia; try assumption.
  - now apply goc_t5.
  - apply rej5.
  - intros junk. apply gfollow5.
Qed.

(* ---- what the field readers make of the captured texts *)
Lemma names_back (p : part qdescrs_cst) : part_ok qdescrs_wf p -> parse_names (part_payload qdescrs_text p) = part_den qdescrs_den p.
Proof. destruct p as [[[a b] q]|]; [apply parse_names_g|reflexivity]. Qed.
Lemma oids_back (p : part oids_cst) : part_ok oids_wf p -> parse_oids (part_payload oids_text p) = part_den oids_den p.
Proof. destruct p as [[[a b] q]|]; [apply parse_oids_g|reflexivity]. Qed.
Lemma desc_back (p : part (list dch)) : part_ok ds_ok p ->
  parse_qdstring_opt (part_payload qd_g p) = Ok (match p with Some (_, _, ds) => Some (map den ds) | None => None end).
Proof. destruct p as [[[a b] ds]|]; [|reflexivity]. intros H. cbn [part_payload parse_qdstring_opt]. now rewrite parse_qd_g. Qed.
Lemma obs_back o : truthy (flag_payload s_OBSOLETE o) = match o with Some _ => true | None => false end.
Proof. destruct o; reflexivity. Qed.

Theorem oc_grammar c : oc_cst_wf c -> oc_from_string (oc_sentence c) = Ok (oc_denote c).
Proof.
  intros Hc. pose proof Hc as (Hh & Hs & Hk & Hu & Hm & He).
  destruct (head_match_g OC_tail4 (o4 c) (P4 c) G4 (goc_t4 c Hc) (gfollow4 c) eq_refl eq_refl eq_refl eq_refl rej4 (oc_h c) [] Hh)
    as (c' & Em & G1 & G6' & G17 & G19 & G21 & G44 & G46 & G69 & G91).
  rewrite app_nil_r in *. fold (oc_sentence c) in *.
  unfold oc_from_string, do_match. unfold rx_object_class_end. rewrite oc_regex_eq, re_match_BT. fold kf.
  change R_oc with (HR OC_tail4). rewrite Em. cbn [bind]. unfold grp.
  unfold rx_object_class_g_kind, rx_object_class_g_desc, rx_object_class_g_extensions, rx_object_class_g_oid, rx_object_class_g_name,
    rx_object_class_g_obsolete, rx_object_class_g_sup, rx_object_class_g_must, rx_object_class_g_may.
  rewrite G1, G6', G17, G19, G21, G44, G46, G69, G91.
  destruct Hh as (Ho & Hn & Hd).
  rewrite desc_back by assumption. cbn [bind]. rewrite parse_extensions_g by assumption. cbn [bind].
  rewrite names_back, !oids_back, obs_back by assumption.
  unfold oc_denote. f_equal. f_equal.
  destruct (oc_ckind c) as [[a k]|]; [|reflexivity]. cbn [kind_payload]. destruct Hk as [-> | [-> | ->]]; reflexivity.
Qed.

(* a sentence with unusual spacing, an upper-case escape and a kind left out *)
Example oc_cst_example_wf :
  oc_cst_wf (mkOCc (mkHead 2%nat [50; 46; 53] (Some (0%nat, 2%nat, QParen 1%nat [99; 110] [(1%nat, [111])] 0%nat))
                           (Some (1%nat, 0%nat, [DPlain 97; DBslUpper; DQuote])) None)
                   (Some (0%nat, 0%nat, OParen 0%nat [116; 111; 112] [(2%nat, 0%nat, [49; 46; 50])] 1%nat)) None None
                   (Some (0%nat, 1%nat, OBare [99; 110]))
                   [mkExt 0%nat [102; 111; 111] 2%nat (SParen 0%nat [DPlain 98] [(1%nat, [DBslLower])] 2%nat); mkExt 1%nat [98] 0%nat (SEmpty 3%nat)] 0%nat).
Proof.
  repeat split; cbn; try exact I.
  - exists [50], [53], []. repeat split; constructor.
  - repeat constructor.
  - discriminate.
  - repeat constructor; discriminate.
  - constructor; [left; repeat constructor|]. constructor; [|constructor]. right. exists [49], [50], []. repeat split; constructor.
  - constructor; [left; repeat constructor|constructor].
  - repeat constructor; try discriminate.
Qed.
