(* C17, the field readers on arbitrary spacing: what strip/split/lstrip make of every sentence of the list
   grammars is what the grammar denotes. *)
From Coq Require Import NArith List Bool Arith Lia ZifyBool.
From SV Require Import Base.Py Rx.Syntax Rx.Lemmas Rx.Bt Gen.Generated Schema.Model Schema.Proofs Schema.Regex Schema.Match Schema.Chain
  Schema.GMatch.
Import ListNotations.
Local Open Scope N_scope.

(* ---- spaces *)
Lemma lstrip_sp n s : starts_not is_sp s -> lstrip_chars [SPC] (sp n ++ s) = lstrip_chars [SPC] s.
Proof. intros _. induction n as [|n IH]; [reflexivity|]. cbn [sp repeat app]. fold (sp n). rewrite lstrip_one_space. exact IH. Qed.

Lemma lstrip_nonsp s : starts_not is_sp s -> lstrip_chars [SPC] s = s.
Proof.
  destruct s as [|c s]; [reflexivity|]. unfold starts_not, is_sp. intros H. apply lstrip_spaces_stop. unfold SPC. intros ->. discriminate.
Qed.

Lemma lstrip_sp_to n s : starts_not is_sp s -> lstrip_chars [SPC] (sp n ++ s) = s.
Proof. intros H. rewrite lstrip_sp by assumption. now apply lstrip_nonsp. Qed.

(* ---- un-escaping every spelling *)
Lemma bt_unesc_5C fuel s : (6 <= fuel)%nat ->
  bt fuel rx_qd_unescape (92 :: 53 :: 67 :: s) 0 [] (fun _ p cs => BYes p cs) = BYes 3 [].
Proof. intros Hf. do 6 (destruct fuel as [|fuel]; [lia|]). reflexivity. Qed.

Lemma enc_no_quote ds : Forall dch_ok ds -> ~ In SQ (concat (map enc ds)).
Proof.
  induction ds as [|d ds IH]; intros H; [intros []|]. inversion H as [|? ? Hd Hds]; subst. cbn [map concat]. intros Hin.
  apply in_app_or in Hin. destruct Hin as [Hin|Hin]; [|now apply IH].
  destruct d as [c| | |]; cbn in Hin; unfold SQ in *; destruct Hd; intuition (try discriminate; try congruence).
Qed.

Lemma unescape_enc (ds : list dch) : Forall dch_ok ds ->
  forall f, (length (concat (map enc ds)) < f)%nat ->
  re_sub_loop f rx_qd_unescape unesc_repl (concat (map enc ds)) = Some (Some (map den ds)).
Proof.
  induction ds as [|d ds IH]; intros Hds f Hf.
  - destruct f; [cbn in Hf; lia|]. reflexivity.
  - inversion Hds as [|? ? Hd Hds']; subst. cbn [map concat] in *. destruct f as [|f]; [cbn in Hf; lia|].
    destruct d as [c| | |]; cbn [enc den app] in *.
    + destruct Hd as [N2 N1]. rewrite re_sub_loop_cons. cbv zeta.
      rewrite bt_unesc_no by (try assumption; apply unesc_fuel; discriminate).
      rewrite IH by (try assumption; cbn [length] in Hf; lia). reflexivity.
    + rewrite re_sub_loop_cons. cbv zeta. rewrite bt_unesc_27 by (apply unesc_fuel; discriminate). cbn [firstn skipn].
      change (unesc_repl [92; 50; 55]) with (Some [39]). rewrite IH by (try assumption; cbn [length] in Hf; lia). reflexivity.
    + rewrite re_sub_loop_cons. cbv zeta. rewrite bt_unesc_5c by (apply unesc_fuel; discriminate). cbn [firstn skipn].
      change (unesc_repl [92; 53; 99]) with (Some [92]). rewrite IH by (try assumption; cbn [length] in Hf; lia). reflexivity.
    + rewrite re_sub_loop_cons. cbv zeta. rewrite bt_unesc_5C by (apply unesc_fuel; discriminate). cbn [firstn skipn].
      change (unesc_repl [92; 53; 67]) with (Some [92]). rewrite IH by (try assumption; cbn [length] in Hf; lia). reflexivity.
Qed.

Lemma parse_qd_g ds : ds_ok ds -> parse_qdstring (qd_g ds) = Ok (map den ds).
Proof.
  intros [_ Hds]. unfold parse_qdstring, qd_g. change [39] with [SQ]. rewrite strip_quotes_inner by now apply enc_no_quote.
  unfold re_sub. rewrite unescape_enc by (try assumption; lia). reflexivity.
Qed.

Lemma parse_qd_inner_g ds : Forall dch_ok ds -> parse_qdstring (concat (map enc ds)) = Ok (map den ds).
Proof.
  intros Hds. unfold parse_qdstring. rewrite strip_quotes_none by now apply enc_no_quote.
  unfold re_sub. rewrite unescape_enc by (try assumption; lia). reflexivity.
Qed.

Lemma extract_qd_g ds rest : ds_ok ds -> extract_qdstring (qd_g ds ++ rest) = Ok (map den ds, lstrip_chars [SPC] rest).
Proof.
  intros [_ Hds]. unfold extract_qdstring, qd_g. cbn [app tl]. rewrite <- app_assoc. cbn [app]. change 39 with SQ.
  rewrite usplit1_plain by now apply enc_no_quote. rewrite parse_qd_inner_g by assumption. reflexivity.
Qed.

(* ---- names *)
Definition ne (n : list N) : bool := match n with [] => false | _ => true end.
Definition toks (s : list N) : list (list N) := List.filter ne (usplit_aux SPC s []).

Lemma toks_spaces n s : toks (sp n ++ s) = toks s.
Proof.
  unfold toks. induction n as [|n IH]; [reflexivity|]. cbn [sp repeat app usplit_aux]. fold (sp n). unfold SPC at 1. rewrite N.eqb_refl. cbn [rev List.filter ne]. exact IH.
Qed.

Lemma toks_nil : toks [] = [].
Proof. reflexivity. Qed.

Lemma toks_token (t rest : list N) : t <> [] -> ~ In SPC t -> (rest = [] \/ exists s, rest = 32 :: s) -> toks (t ++ rest) = t :: toks rest.
Proof.
  intros Hne Hns [->|(s & ->)]; unfold toks.
  - rewrite app_nil_r, usplit_aux_end by assumption. cbn [rev app List.filter]. destruct t; [congruence|reflexivity].
  - change 32 with SPC. rewrite usplit_aux_plain by assumption. cbn [rev app List.filter]. destruct t as [|c t]; [congruence|]. cbn [ne]. f_equal.
Qed.

Lemma sp_snoc n : sp (S n) = sp n ++ [32].
Proof. induction n as [|n IH]; [reflexivity|]. cbn [sp repeat app] in *. fold (sp n) in *. now rewrite <- IH. Qed.

Lemma sp_shape n s : (s = [] \/ exists t, s = 32 :: t) -> (sp n ++ s = [] \/ exists t, sp n ++ s = 32 :: t).
Proof. intros H. destruct n; [exact H|]. right. eexists. reflexivity. Qed.

Lemma quote_nospace n : descr_ok n -> ~ In SPC (quote n).
Proof. intros H. apply quote_no_space. now apply descr_plain. Qed.

Lemma qitems_shape w1 items : concat (map qitem_g items) ++ sp w1 = [] \/ exists t, concat (map qitem_g items) ++ sp w1 = 32 :: t.
Proof.
  destruct items as [|[a n] items]; cbn [map concat app].
  - rewrite <- (app_nil_r (sp w1)). apply sp_shape. now left.
  - right. unfold qitem_g. cbn [fst snd sp repeat app]. eexists. reflexivity.
Qed.

Lemma toks_qitems w1 : forall items, Forall descr_ok (map snd items) ->
  toks (concat (map qitem_g items) ++ sp w1) = map (fun x => quote (snd x)) items.
Proof.
  induction items as [|[a n] items IH]; intros H.
  - cbn [map concat app]. rewrite <- (app_nil_r (sp w1)), toks_spaces. reflexivity.
  - inversion H as [|? ? Hn H']; subst. cbn [map concat snd]. unfold qitem_g at 1. cbn [fst snd]. rewrite <- !app_assoc.
    rewrite toks_spaces. rewrite toks_token; [|discriminate|now apply quote_nospace|apply qitems_shape].
    f_equal. now apply IH.
Qed.

Lemma body_last n items : exists b, 39 :: n ++ [39] ++ concat (map qitem_g items) = b ++ [39].
Proof.
  induction items as [|[a m] items IH] using rev_ind.
  - exists (39 :: n). cbn [map concat]. now rewrite app_nil_r.
  - rewrite map_app, concat_app. cbn [map concat]. rewrite app_nil_r. unfold qitem_g at 2. cbn [fst snd]. unfold quote.
    exists (39 :: n ++ [39] ++ concat (map qitem_g items) ++ sp (S a) ++ [SQ] ++ m). unfold SQ. cbn [app]. f_equal. rewrite <- !app_assoc. cbn [app].
    rewrite <- !app_assoc. cbn [app]. rewrite <- ?app_assoc. reflexivity.
Qed.

Lemma strip_parens_mid (mid : list N) c0 m' cl b :
  mid = c0 :: m' -> mid = b ++ [cl] -> memc c0 [LP; RP] = false -> memc cl [LP; RP] = false ->
  strip_chars [LP; RP] (40 :: mid ++ [41]) = mid.
Proof.
  intros E0 El H0 Hl. change (40 :: mid ++ [41]) with ([40] ++ mid ++ [41]).
  apply strip_chars_pad; [repeat constructor|repeat constructor| | |].
  - rewrite E0. discriminate.
  - rewrite E0. exact H0.
  - rewrite El, last_last. exact Hl.
Qed.

Lemma parse_names_toks s : s <> [] -> parse_names (Some s) = map (strip_chars [SQ]) (toks (strip_chars [LP; RP] s)).
Proof. destruct s; [congruence|reflexivity]. Qed.

Lemma parse_names_g c : qdescrs_wf c -> parse_names (Some (qdescrs_text c)) = qdescrs_den c.
Proof.
  intros H. destruct c as [n|w|w0 n items w1]; unfold qdescrs_wf in H; cbn [qdescrs_den qdescrs_text] in *.
  - inversion H; subst. apply (names_round_trip [n]); [discriminate|]. constructor; [now apply descr_plain|constructor].
  - rewrite parse_names_toks by discriminate. cbn [app].
    assert (S1 : strip_chars [LP; RP] (40 :: sp w ++ [41]) = sp w).
    { destruct w as [|w]; [reflexivity|]. apply (strip_parens_mid (sp (S w)) 32 (sp w) 32 (sp w)); [reflexivity|apply sp_snoc|reflexivity|reflexivity]. }
    rewrite S1. rewrite <- (app_nil_r (sp w)), toks_spaces. reflexivity.
  - inversion H as [|? ? Hn H']; subst.
    set (body := 39 :: n ++ [39] ++ concat (map qitem_g items)).
    set (mid := sp w0 ++ body ++ sp w1).
    replace ([40] ++ sp w0 ++ body ++ sp w1 ++ [41]) with (40 :: mid ++ [41]) by (unfold mid; cbn [app]; rewrite <- !app_assoc; reflexivity).
    rewrite parse_names_toks by discriminate.
    assert (S1 : strip_chars [LP; RP] (40 :: mid ++ [41]) = mid).
    { destruct (body_last n items) as (b & Eb). fold body in Eb.
      assert (F0 : exists c0 m', mid = c0 :: m' /\ memc c0 [LP; RP] = false).
      { unfold mid, body. destruct w0; cbn [sp repeat app]; eexists _, _; split; reflexivity. }
      destruct F0 as (c0 & m' & E0 & M0).
      destruct w1 as [|w1].
      - apply (strip_parens_mid mid c0 m' 39 (sp w0 ++ b)); [assumption| |assumption|reflexivity].
        unfold mid. cbn [sp repeat]. rewrite app_nil_r, Eb, app_assoc. reflexivity.
      - apply (strip_parens_mid mid c0 m' 32 (sp w0 ++ body ++ sp w1)); [assumption| |assumption|reflexivity].
        unfold mid. rewrite sp_snoc, <- !app_assoc. reflexivity. }
    rewrite S1. unfold mid, body. rewrite toks_spaces.
    replace (39 :: n ++ [39] ++ concat (map qitem_g items)) with (quote n ++ concat (map qitem_g items))
      by (unfold quote, SQ; cbn [app]; rewrite <- app_assoc; reflexivity).
    rewrite <- app_assoc.
    rewrite toks_token; [|discriminate|now apply quote_nospace|apply qitems_shape].
    rewrite toks_qitems by assumption. cbn [map]. rewrite strip_quote by now apply descr_plain. f_equal.
    rewrite map_map. apply map_ext_in. intros [a m] Hin. cbn [snd]. apply strip_quote. apply descr_plain.
    rewrite Forall_forall in H'. apply H'. apply in_map_iff. exists (a, m). split; [reflexivity|assumption].
Qed.

(* ---- OID lists *)
Lemma oid_chars o : oid_ok o -> o <> [] /\ Forall (fun c => C_oid c = true) o.
Proof.
  intros [Hd|Hn].
  - destruct o as [|a w]; [destruct Hd|]. destruct Hd as [Ha Hw]. split; [discriminate|]. constructor; [chr_tac|].
    eapply Forall_impl; [|exact Hw]. intros c Hc. chr_tac.
  - destruct (numoid_chars o Hn) as [Hne Hc]. split; [assumption|]. eapply Forall_impl; [|exact Hc]. intros c Hd. chr_tac.
Qed.

Lemma C_oid_outer c : C_oid c = true -> memc c [LP; RP; SPC] = false.
Proof. intros H. apply memc_outer; unfold LP, RP, SPC; intros ->; discriminate H. Qed.

Lemma oid_no_dollar o : oid_ok o -> ~ In DOLLAR o.
Proof. intros Ho Hin. destruct (oid_chars o Ho) as [_ Hc]. rewrite Forall_forall in Hc. specialize (Hc _ Hin). discriminate Hc. Qed.

Fixpoint pieces (x : list N) (items : list (nat * nat * list N)) : list (list N) :=
  match items with
  | [] => [x]
  | (a, b, o) :: r => (x ++ sp a) :: pieces (sp b ++ o) r
  end.

Lemma sp_no_dollar n : ~ In DOLLAR (sp n).
Proof. induction n; cbn; [tauto|]. intros [H|H]; [discriminate|auto]. Qed.

Lemma split_gitems : forall items x, ~ In DOLLAR x -> Forall oid_ok (map gitem_oid items) ->
  usplit_aux DOLLAR (x ++ concat (map gitem items)) [] = pieces x items.
Proof.
  induction items as [|[[a b] o] items IH]; intros x Hx Hl.
  - cbn [map concat pieces]. rewrite app_nil_r. now rewrite usplit_aux_end.
  - inversion Hl as [|? ? Ho Hl']; subst. cbn [map concat pieces]. unfold gitem at 1. rewrite <- !app_assoc. cbn [app].
    rewrite app_assoc. change 36 with DOLLAR. rewrite usplit_aux_plain.
    + cbn [rev app]. f_equal. rewrite app_assoc. apply IH; [|assumption].
      intros Hin. apply in_app_or in Hin. destruct Hin as [Hin|Hin]; [now apply (sp_no_dollar b)|now apply (oid_no_dollar o)].
    + intros Hin. apply in_app_or in Hin. destruct Hin as [Hin|Hin]; [now apply Hx|now apply (sp_no_dollar a)].
Qed.

Lemma strip_pieces : forall items b0 o0, oid_ok o0 -> Forall oid_ok (map gitem_oid items) ->
  map strip_ws (pieces (sp b0 ++ o0) items) = o0 :: map gitem_oid items.
Proof.
  induction items as [|[[a b] o] items IH]; intros b0 o0 H0 Hl.
  - cbn [pieces map]. f_equal. rewrite (app_nil_end o0) at 1. apply strip_ws_plain; [now apply oid_plain|apply sp_all|constructor].
  - inversion Hl as [|? ? Ho Hl']; subst. cbn [pieces map]. f_equal.
    + rewrite <- app_assoc. apply strip_ws_plain; [now apply oid_plain|apply sp_all|apply sp_all].
    + now apply IH.
Qed.

Lemma parse_oids_g c : oids_wf c -> parse_oids (Some (oids_text c)) = oids_den c.
Proof.
  intros H. destruct c as [o|w0 x items w1]; unfold oids_wf in H; cbn [oids_den oids_text] in *.
  - apply (oids_round_trip [o]); [discriminate|]. inversion H; subst. constructor; [now apply oid_plain|constructor].
  - inversion H as [|? ? Hx Hl]; subst. rewrite parse_oids_nonempty by discriminate.
    assert (Hcore : exists b c, x ++ concat (map gitem items) = b ++ [c] /\ C_oid c = true).
    { clear H. revert x Hx Hl. induction items as [|[[a b] o] items IH]; intros x Hx Hl.
      - cbn [map concat]. rewrite app_nil_r. destruct (oid_chars x Hx) as [Hne Hc]. destruct (exists_last Hne) as (b & c & ->).
        exists b, c. split; [reflexivity|]. rewrite Forall_forall in Hc. apply Hc. apply in_or_app. right. now left.
      - inversion Hl as [|? ? Ho Hl']; subst. destruct (IH o Ho Hl') as (b' & c & E & Hc). cbn [map concat]. unfold gitem at 1.
        exists (x ++ sp a ++ [36] ++ sp b ++ b'), c. split; [|exact Hc]. rewrite <- ?app_assoc. rewrite E. rewrite <- ?app_assoc. reflexivity. }
    set (core := x ++ concat (map gitem items)) in *.
    destruct Hcore as (b & c & Ec & Hc).
    assert (S1 : strip_chars [LP; RP; SPC] ([40] ++ sp w0 ++ core ++ sp w1 ++ [41]) = core).
    { replace ([40] ++ sp w0 ++ core ++ sp w1 ++ [41]) with (([40] ++ sp w0) ++ core ++ (sp w1 ++ [41])) by (rewrite <- !app_assoc; reflexivity).
      apply strip_chars_pad.
      - constructor; [reflexivity|]. eapply Forall_impl; [|apply sp_all]. intros y ->. reflexivity.
      - apply Forall_app. split; [eapply Forall_impl; [|apply sp_all]; intros y ->; reflexivity|repeat constructor].
      - rewrite Ec. destruct b; discriminate.
      - unfold core. destruct (oid_first x Hx) as (c0 & r0 & -> & Hc0). cbn [app hd]. apply C_oid_outer. chr_tac.
      - rewrite Ec, last_last. now apply C_oid_outer. }
    rewrite S1. unfold usplit, core. rewrite split_gitems; [|now apply oid_no_dollar|assumption].
    apply (strip_pieces items 0 x); assumption.
Qed.

(* ---- extensions *)
Definition ext_den (x : ext_cst) : ustr * list ustr := (e_key x, qdstrings_den (e_vals x)).
Definition exts_body (e : list ext_cst) : list N :=
  match e with
  | [] => []
  | x :: r => (88 :: 45 :: e_key x) ++ sp (S (e_b x)) ++ qdstrings_text (e_vals x) ++ exts_text r
  end.

Lemma exts_text_cons x r : exts_text (x :: r) = sp (S (e_a x)) ++ exts_body (x :: r).
Proof. unfold exts_text, exts_body. cbn [map concat]. unfold ext_text_g at 1. now rewrite <- !app_assoc. Qed.

Lemma exts_text_shape r : exts_text r = [] \/ exists n y r', r = y :: r' /\ exts_text r = sp (S n) ++ exts_body (y :: r').
Proof. destruct r as [|y r']; [now left|]. right. exists (e_a y), y, r'. split; [reflexivity|apply exts_text_cons]. Qed.

Lemma qd_g_first ds : exists t, qd_g ds = 39 :: t.
Proof. unfold qd_g. eexists. reflexivity. Qed.

Lemma starts_qd c ds X : c <> 39 -> starts_with c (qd_g ds ++ X) = false.
Proof. intros H. unfold qd_g. cbn [app starts_with]. destruct (N.eqb_spec 39 c); [congruence|reflexivity]. Qed.

(* the values of a parenthesised list, from the first quote to the closing parenthesis *)
Lemma ext_list_g w1 tail : forall items ds acc fuel,
  ds_ok ds -> Forall ds_ok (map snd items) -> (length items < fuel)%nat ->
  ext_list_loop (S fuel) (qd_g ds ++ concat (map qsitem_g items) ++ sp w1 ++ RP :: tail) acc
  = Ok (acc ++ map den ds :: map (fun x => map den (snd x)) items, RP :: tail).
Proof.
  induction items as [|[a ds2] items IH]; intros ds acc fuel Hds Hit Hf.
  - cbn [map concat app ext_list_loop]. rewrite starts_qd by discriminate. rewrite extract_qd_g by assumption. cbn [bind].
    rewrite lstrip_sp_to by reflexivity. destruct fuel; [lia|]. cbn [ext_list_loop starts_with]. unfold RP at 1. rewrite N.eqb_refl. reflexivity.
  - inversion Hit as [|? ? Hd2 Hit']; subst. cbn [map concat snd]. unfold qsitem_g at 1. cbn [fst snd]. rewrite <- !app_assoc.
    cbn [ext_list_loop]. rewrite starts_qd by discriminate. rewrite extract_qd_g by assumption. cbn [bind].
    rewrite lstrip_sp_to.
    2: { destruct (qd_g_first ds2) as (t2 & ->). reflexivity. }
    destruct fuel as [|fuel]; [cbn [length] in Hf; lia|].
    rewrite IH by (try assumption; cbn [length] in Hf; lia). rewrite <- app_assoc. reflexivity.
Qed.

Lemma ext_wf_key x : ext_wf x -> ~ In SPC (88 :: 45 :: e_key x).
Proof.
  intros [[_ Hk] _] [H|[H|H]]; try discriminate. rewrite Forall_forall in Hk. specialize (Hk _ H). discriminate Hk.
Qed.

Lemma exts_len e : (length e <= length (exts_body e))%nat.
Proof.
  induction e as [|x r IH]; [cbn; lia|]. cbn [exts_body length]. rewrite !app_length.
  destruct r as [|y r']; [cbn [length]; lia|]. rewrite exts_text_cons, app_length. cbn [length] in *. lia.
Qed.

(* the loop over the items: [value] is the block from the X of the next item, possibly after some spaces.
   A repeated key updates the entry in place, as the dict assignment of the code does. *)
Definition ext_upd (d : list (ustr * list ustr)) (x : ext_cst) := dict_set (e_key x) (qdstrings_den (e_vals x)) d.

Lemma ext_loop_g : forall e d fuel n,
  e <> [] -> Forall ext_wf e -> (length e < fuel)%nat ->
  ext_loop fuel (sp n ++ exts_body e) d = Ok (fold_left ext_upd e d).
Proof.
  induction e as [|x r IH]; intros d fuel n Hne He Hf; [congruence|].
  inversion He as [|? ? Hx Hr]; subst. destruct fuel as [|f]; [cbn [length] in Hf; lia|].
  (* what remains after this item: nothing, or the next item after its spaces *)
  assert (Next : forall m, (m = 0%nat \/ r <> []) ->
            ext_loop f (match r with [] => [] | _ => sp m ++ exts_body r end) (ext_upd d x) = Ok (fold_left ext_upd (x :: r) d)).
  { intros m Hm. cbn [fold_left]. destruct r as [|y r'].
    - destruct f; [cbn [length] in Hf; lia|]. cbn [ext_loop fold_left]. reflexivity.
    - rewrite IH; [reflexivity|discriminate|assumption|cbn [length] in *; lia]. }
  (* the key *)
  set (body := (88 :: 45 :: e_key x) ++ sp (S (e_b x)) ++ qdstrings_text (e_vals x) ++ exts_text r).
  assert (Eb : exts_body (x :: r) = body) by reflexivity. rewrite Eb.
  assert (Hv : exists n0 t0, sp n ++ body = n0 :: t0) by (destruct n; unfold body; cbn [sp repeat app]; eauto).
  destruct Hv as (n0 & t0 & Ev). cbn [ext_loop]. rewrite Ev. rewrite <- Ev.
  rewrite lstrip_sp_to by reflexivity. unfold body at 1.
  assert (E1 : (88 :: 45 :: e_key x) ++ sp (S (e_b x)) ++ qdstrings_text (e_vals x) ++ exts_text r
               = (88 :: 45 :: e_key x) ++ SPC :: (sp (e_b x) ++ qdstrings_text (e_vals x) ++ exts_text r)) by reflexivity.
  rewrite E1. clear E1.
  rewrite usplit1_plain by now apply ext_wf_key. cbn [skipn].
  destruct Hx as [Hk Hvals]. unfold ext_upd in Next.
  destruct (e_vals x) as [ds|w|w0 ds items w1] eqn:Ev'; unfold qdstrings_wf in Hvals; cbn [qdstrings_parts qdstrings_text] in *.
  - (* one value *)
    inversion Hvals as [|? ? Hds _]; subst. destruct (qd_g_first ds) as (t & Et).
    rewrite lstrip_sp_to by (rewrite Et; reflexivity). rewrite starts_qd by discriminate.
    rewrite extract_qd_g by assumption. cbn [bind qdstrings_den] in *.
    destruct (exts_text_shape r) as [E0|(m & y & r' & -> & E1)].
    + rewrite E0. cbn [lstrip_chars]. destruct r as [|y r']; [|rewrite exts_text_cons in E0; discriminate]. apply (Next 0%nat). now left.
    + rewrite E1, lstrip_sp_to by reflexivity. rewrite <- (app_nil_l (exts_body (y :: r'))). apply (Next 0%nat). right. discriminate.
  - (* an empty list *)
    rewrite lstrip_sp_to by reflexivity. cbn [app starts_with tl]. change (40 =? LP) with true. cbv iota.
    rewrite <- app_assoc. rewrite lstrip_sp_to by reflexivity. cbn [app ext_list_loop starts_with]. change (41 =? RP) with true. cbv iota. cbn [bind tl qdstrings_den] in *.
    destruct (exts_text_shape r) as [E0|(m & y & r' & -> & E1)].
    + rewrite E0. destruct r as [|y r']; [|rewrite exts_text_cons in E0; discriminate]. apply (Next 0%nat). now left.
    + rewrite E1. apply (Next (S m)). right. discriminate.
  - (* a list of values *)
    inversion Hvals as [|? ? Hds Hit]; subst.
    rewrite lstrip_sp_to by reflexivity. cbn [app starts_with tl]. change (40 =? LP) with true. cbv iota.
    rewrite <- !app_assoc. rewrite lstrip_sp_to by reflexivity. cbn [app].
    match goal with |- context [ext_list_loop _ ?L _] =>
      replace L with (qd_g ds ++ concat (map qsitem_g items) ++ sp w1 ++ RP :: exts_text r)
        by (unfold qd_g, RP; cbn [app]; rewrite <- ?app_assoc; cbn [app]; rewrite <- ?app_assoc; reflexivity) end.
    rewrite ext_list_g; [|assumption|assumption|].
    2: { rewrite !app_length. cbn [length]. assert (length items <= length (concat (map qsitem_g items)))%nat; [|lia].
         clear. induction items as [|[a d0] items IH]; [cbn; lia|]. cbn [map concat length]. rewrite app_length. unfold qsitem_g at 1. rewrite app_length, sp_length. lia. }
    cbn [bind app tl qdstrings_den] in *.
    destruct (exts_text_shape r) as [E0|(m & y & r' & -> & E1)].
    + rewrite E0. destruct r as [|y r']; [|rewrite exts_text_cons in E0; discriminate]. apply (Next 0%nat). now left.
    + rewrite E1. apply (Next (S m)). right. discriminate.
Qed.

Definition exts_wf (e : list ext_cst) : Prop := Forall ext_wf e.
Definition exts_den (e : list ext_cst) : list (ustr * list ustr) := fold_left ext_upd e [].

Lemma parse_extensions_g e : exts_wf e -> parse_extensions (Some (exts_text e)) = Ok (exts_den e).
Proof.
  intros He. destruct e as [|x r]; [reflexivity|]. unfold parse_extensions. rewrite exts_text_cons.
  cbn [sp repeat app]. fold (sp (e_a x)). rewrite lstrip_one_space.
  assert (Hb : exists c t, exts_body (x :: r) = c :: t /\ c <> 32) by (cbn [exts_body app]; eexists _, _; split; [reflexivity|discriminate]).
  destruct Hb as (c & t & Eb & Hc).
  rewrite lstrip_sp_to by (rewrite Eb; unfold starts_not, is_sp; now apply N.eqb_neq).
  pose proof (exts_len (x :: r)) as Hl.
  exact (ext_loop_g (x :: r) [] (S (length (exts_body (x :: r)))) 0%nat ltac:(discriminate) He ltac:(lia)).
Qed.

(* with distinct keys the dict is the list of items in order *)
Lemma exts_den_nodup e : NoDup (map e_key e) -> exts_den e = map ext_den e.
Proof.
  unfold exts_den. assert (G : forall d, NoDup (keys_of d ++ map e_key e) -> fold_left ext_upd e d = d ++ map ext_den e).
  { induction e as [|x r IH]; intros d H; [now rewrite app_nil_r|]. cbn [fold_left map]. unfold ext_upd at 2.
    rewrite dict_set_new.
    - rewrite IH; [now rewrite <- app_assoc|]. unfold keys_of in *. rewrite map_app. cbn [map fst]. rewrite <- app_assoc. exact H.
    - intros I. cbn [map] in H. apply NoDup_remove_2 in H. apply H. apply in_or_app. now left. }
  intros H. apply (G []). exact H.
Qed.
