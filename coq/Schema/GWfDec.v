(* Executable well-formedness of concrete syntax trees (C17), with soundness; evaluated by the correspondence
   check on every generated tree. *)
From Coq Require Import NArith ZArith List Bool Arith Lia ZifyBool.
From SV Require Import Base.Py Rx.Syntax Gen.Generated Schema.Model Schema.Proofs Schema.Regex Schema.Match Schema.Chain
  Schema.AttributeType Schema.WfDec Schema.GMatch Schema.GRead Schema.GChain Schema.GObjectClass Schema.GDitContentRule Schema.GAttributeType.
Import ListNotations.
Local Open Scope N_scope.

Definition part_b {A} (f : A -> bool) (p : part A) : bool := match p with Some (_, _, x) => f x | None => true end.
Lemma part_b_ok {A} (f : A -> bool) (P : A -> Prop) p : (forall x, f x = true -> P x) -> part_b f p = true -> part_ok P p.
Proof. intros H. destruct p as [[[a b] x]|]; [apply H|intros _; exact I]. Qed.

Definition qdescrs_b (c : qdescrs_cst) : bool := forallb descr_b (qdescrs_den c).
Lemma qdescrs_b_ok c : qdescrs_b c = true -> qdescrs_wf c.
Proof. apply (forallb_Forall descr_b). apply descr_b_ok. Qed.

Definition oids_b (c : oids_cst) : bool := forallb oid_b (oids_den c).
Lemma oids_b_ok c : oids_b c = true -> oids_wf c.
Proof. apply (forallb_Forall oid_b). apply oid_b_ok. Qed.

Definition dch_b (d : dch) : bool := match d with DPlain c => negb (c =? 39) && negb (c =? 92) | _ => true end.
Lemma dch_b_ok d : dch_b d = true -> dch_ok d.
Proof. destruct d as [c| | |]; cbn; [|trivial..]. intros H. split; intros ->; discriminate H. Qed.
Definition ds_b (ds : list dch) : bool := match ds with [] => false | _ => forallb dch_b ds end.
Lemma ds_b_ok ds : ds_b ds = true -> ds_ok ds.
Proof. destruct ds as [|d ds]; [discriminate|]. intros H. split; [discriminate|]. apply (forallb_Forall dch_b); [apply dch_b_ok|exact H]. Qed.

Definition qdstrings_b (c : qdstrings_cst) : bool := forallb ds_b (qdstrings_parts c).
Lemma qdstrings_b_ok c : qdstrings_b c = true -> qdstrings_wf c.
Proof. apply (forallb_Forall ds_b). apply ds_b_ok. Qed.

Definition xkey_b (a : list N) : bool := nonempty_b a && forallb is_xc a.
Lemma xkey_b_ok a : xkey_b a = true -> xkey_ok a.
Proof. intros H. apply andb_true_iff in H. destruct H as [H1 H2]. split; [now apply nonempty_b_ok|]. apply (forallb_Forall is_xc); auto. Qed.

Definition extc_b (x : ext_cst) : bool := xkey_b (e_key x) && qdstrings_b (e_vals x).
Lemma extc_b_ok x : extc_b x = true -> ext_wf x.
Proof. intros H. apply andb_true_iff in H. destruct H as [H1 H2]. split; [now apply xkey_b_ok|now apply qdstrings_b_ok]. Qed.

Definition exts_b (e : list ext_cst) : bool := forallb extc_b e.
Lemma exts_b_ok e : exts_b e = true -> exts_wf e.
Proof. apply (forallb_Forall extc_b). apply extc_b_ok. Qed.

Definition head_b (h : head_cst) : bool := numoid_b (h_oid h) && part_b qdescrs_b (h_name h) && part_b ds_b (h_desc h).
Lemma head_b_ok h : head_b h = true -> head_ok h.
Proof.
  intros H. apply andb_true_iff in H. destruct H as [H H3]. apply andb_true_iff in H. destruct H as [H1 H2]. split; [now apply numoid_b_ok|]. split.
  - apply (part_b_ok qdescrs_b); [apply qdescrs_b_ok|exact H2].
  - apply (part_b_ok ds_b); [apply ds_b_ok|exact H3].
Qed.

Definition oc_cst_b (c : oc_cst) : bool :=
  head_b (oc_h c) && part_b oids_b (oc_csup c) && (match oc_ckind c with Some (_, k) => k <? 3 | None => true end) &&
  part_b oids_b (oc_cmust c) && part_b oids_b (oc_cmay c) && exts_b (oc_cext c).
Lemma oc_cst_b_ok c : oc_cst_b c = true -> oc_cst_wf c.
Proof.
  unfold oc_cst_b. intros H. split_andb H. repeat split.
  - now apply head_b_ok.
  - now apply head_b_ok.
  - now apply head_b_ok.
  - apply (part_b_ok oids_b); [apply oids_b_ok|assumption].
  - destruct (oc_ckind c) as [[a k]|]; [lia|exact I].
  - apply (part_b_ok oids_b); [apply oids_b_ok|assumption].
  - apply (part_b_ok oids_b); [apply oids_b_ok|assumption].
  - now apply exts_b_ok.
Qed.

Definition dcr_cst_b (c : dcr_cst) : bool :=
  head_b (dc_h c) && part_b oids_b (dc_caux c) && part_b oids_b (dc_cmust c) && part_b oids_b (dc_cmay c) && part_b oids_b (dc_cnot c) &&
  exts_b (dc_cext c).
Lemma dcr_cst_b_ok c : dcr_cst_b c = true -> dcr_cst_wf c.
Proof.
  unfold dcr_cst_b. intros H. split_andb H. repeat split; try (now apply head_b_ok); try (now apply exts_b_ok);
    apply (part_b_ok oids_b); try apply oids_b_ok; assumption.
Qed.

Definition syn_cst_b (x : syn_cst) : bool := numoid_b (syn_s x) && match syn_l x with Some z => (0 <=? z)%Z | None => true end.
Lemma syn_cst_b_ok x : syn_cst_b x = true -> syn_wf x.
Proof.
  intros H. apply andb_true_iff in H. destruct H as [H1 H2]. split; [now apply numoid_b_ok|]. unfold len_ok. destruct (syn_l x); [lia|exact I].
Qed.
Definition usage_b (u : N) : bool := u <? 4.
Lemma usage_b_ok u : usage_b u = true -> usage_wf u.
Proof. unfold usage_b, usage_wf. lia. Qed.

Definition at_cst_b (c : at_cst) : bool :=
  head_b (at_h c) && part_b oid_b (at_csup c) && part_b oid_b (at_ceq c) && part_b oid_b (at_cord c) && part_b oid_b (at_csub c) &&
  part_b syn_cst_b (at_csyn c) && part_b usage_b (at_cusage c) && exts_b (at_cext c).
Lemma at_cst_b_ok c : at_cst_b c = true -> at_cst_wf c.
Proof.
  unfold at_cst_b. intros H. split_andb H. repeat split; try (now apply head_b_ok); try (now apply exts_b_ok).
  - apply (part_b_ok oid_b); [apply oid_b_ok|assumption].
  - apply (part_b_ok oid_b); [apply oid_b_ok|assumption].
  - apply (part_b_ok oid_b); [apply oid_b_ok|assumption].
  - apply (part_b_ok oid_b); [apply oid_b_ok|assumption].
  - apply (part_b_ok syn_cst_b); [apply syn_cst_b_ok|assumption].
  - apply (part_b_ok usage_b); [apply usage_b_ok|assumption].
Qed.

Theorem oc_grammar_b c : oc_cst_b c = true -> oc_from_string (oc_sentence c) = Ok (oc_denote c).
Proof. intros H. apply oc_grammar. now apply oc_cst_b_ok. Qed.
Theorem at_grammar_b c : at_cst_b c = true -> at_from_string (at_sentence c) = Ok (at_denote c).
Proof. intros H. apply at_grammar. now apply at_cst_b_ok. Qed.
Theorem dcr_grammar_b c : dcr_cst_b c = true -> dcr_from_string (dcr_sentence c) = Ok (dcr_denote c).
Proof. intros H. apply dcr_grammar. now apply dcr_cst_b_ok. Qed.
