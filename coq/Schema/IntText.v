(* str(int) / int(str) for the non-negative lengths of attribute syntaxes. *)
From Coq Require Import NArith ZArith List Bool Arith Lia ZifyBool.
From SV Require Import Base.Py Rx.Syntax Rx.Bt Schema.Model Schema.Regex Schema.Match.
Import ListNotations.
Local Open Scope N_scope.
Ltac Zify.zify_post_hook ::= Z.to_euclidean_division_equations.

Definition dstep (acc : Z) (c : N) : Z := (acc * 10 + Z.of_N (c - 48))%Z.

Lemma digits_pos_S f n acc :
  digits_pos (S f) n acc = if n <? 10 then (48 + n) :: acc else digits_pos f (n / 10) ((48 + n mod 10) :: acc).
Proof. reflexivity. Qed.

Lemma digits_pos_spec : forall f n acc,
  n < 2 ^ N.of_nat (S f) ->
  exists ds, digits_pos (S f) n acc = ds ++ acc /\ ds <> [] /\ Forall (fun c => is_dig c = true) ds /\
             (0 < n -> exists d r, ds = d :: r /\ is_ldig d = true) /\
             (10 <= n -> (2 <= length ds)%nat) /\
             forall a, fold_left dstep ds a = (a * 10 ^ Z.of_nat (length ds) + Z.of_N n)%Z.
Proof.
  induction f as [|f IH]; intros n acc Hn.
  - change (2 ^ N.of_nat 1) with 2 in Hn. exists [48 + n]. rewrite digits_pos_S. assert (n <? 10 = true) by lia. rewrite H.
    split; [reflexivity|]. split; [discriminate|]. split; [constructor; [chr_tac|constructor]|]. split; [|split].
    + intros Hp. exists (48 + n), []. split; [reflexivity|]. chr_tac.
    + lia.
    + intros a. cbn [fold_left length]. unfold dstep. lia.
  - rewrite digits_pos_S. destruct (n <? 10) eqn:E.
    + exists [48 + n]. split; [reflexivity|]. split; [discriminate|]. split; [constructor; [chr_tac|constructor]|]. split; [|split].
      * intros Hp. exists (48 + n), []. split; [reflexivity|]. chr_tac.
      * lia.
      * intros a. cbn [fold_left length]. unfold dstep. lia.
    + assert (Hd : n / 10 < 2 ^ N.of_nat (S f)).
      { replace (N.of_nat (S (S f))) with (N.succ (N.of_nat (S f))) in Hn by lia. rewrite N.pow_succ_r' in Hn.
        set (P := 2 ^ N.of_nat (S f)) in *. clearbody P. lia. }
      destruct (IH (n / 10) ((48 + n mod 10) :: acc) Hd) as (ds & Eds & Hne & Hdig & Hld & _ & Hval).
      exists (ds ++ [48 + n mod 10]). split; [rewrite Eds, <- app_assoc; reflexivity|]. split; [destruct ds; discriminate|].
      split; [apply Forall_app; split; [assumption|constructor; [chr_tac|constructor]]|]. split; [|split].
      * intros _. destruct Hld as (d & r & -> & Hd'); [lia|]. exists d, (r ++ [48 + n mod 10]). split; [reflexivity|assumption].
      * intros _. rewrite app_length. cbn [length]. destruct ds; [congruence|cbn [length]; lia].
      * intros a. rewrite fold_left_app, Hval. cbn [fold_left]. unfold dstep. rewrite app_length. cbn [length].
        replace (Z.of_nat (length ds + 1)) with (Z.succ (Z.of_nat (length ds))) by lia. rewrite Z.pow_succ_r by lia.
        set (P := (10 ^ Z.of_nat (length ds))%Z). clearbody P. lia.
Qed.

Lemma str_of_N_spec n :
  arc_ok (str_of_int (Z.of_N n)) /\ int_of_digits (str_of_int (Z.of_N n)) = Z.of_N n.
Proof.
  destruct n as [|p]; [split; reflexivity|]. cbn [Z.of_N str_of_int].
  destruct (digits_pos_spec (N.to_nat (N.log2 (N.pos p))) (N.pos p) []) as (ds & Eds & Hne & Hdig & Hld & Hlen & Hval).
  { replace (N.of_nat (S (N.to_nat (N.log2 (N.pos p))))) with (N.succ (N.log2 (N.pos p))) by lia. apply N.log2_spec. lia. }
  rewrite Eds, app_nil_r. split.
  - destruct Hld as (d & r & -> & Hd); [lia|]. destruct r as [|d2 r].
    + cbn. chr_tac.
    + inversion Hdig as [|? ? _ Hr]; subst. inversion Hr; subst. cbn. auto.
  - unfold int_of_digits. change (fun acc c => (acc * 10 + Z.of_N (c - 48))%Z) with dstep. rewrite Hval. lia.
Qed.
