(* C16, the regex stage: the matcher run on the parts of a printed definition.  Every lemma says: on
   (text of the part ++ rest) the sub-pattern hands exactly [rest] to its continuation, provided the
   continuation refuses the places where a shorter match could stop. *)
From Coq Require Import NArith List Bool Arith Lia ZifyBool.
From SV Require Import Base.Py Rx.Syntax Rx.Lemmas Rx.Bt Gen.Generated Schema.Model Schema.Proofs Schema.Regex.
Import ListNotations.
Local Open Scope N_scope.

(* a continuation that refuses every input starting with a character of the class, whatever was captured *)
Definition krej (C : N -> bool) (k : cont) : Prop := forall x s p c, C x = true -> k (x :: s) p c = BNo.
Definition starts_not (C : N -> bool) (s : list N) : Prop := match s with [] => True | x :: _ => C x = false end.

Definition is_dig (c : N) : bool := (48 <=? c) && (c <=? 57).
Definition is_ldig (c : N) : bool := (49 <=? c) && (c <=? 57).
Definition is_dot (c : N) : bool := c =? 46.

Lemma ok_DIG c : chr_ok false [(48, 57)] c = is_dig c.
Proof. unfold chr_ok, in_ranges, is_dig. cbn [existsb fst snd]. now rewrite xorb_false_l, orb_false_r. Qed.
Lemma ok_LDIG c : chr_ok false [(49, 57)] c = is_ldig c.
Proof. unfold chr_ok, in_ranges, is_ldig. cbn [existsb fst snd]. now rewrite xorb_false_l, orb_false_r. Qed.
Lemma ok_ch a c : chr_ok false [(a, a)] c = (c =? a).
Proof.
  unfold chr_ok, in_ranges. cbn [existsb fst snd]. rewrite xorb_false_l, orb_false_r.
  destruct (N.eqb_spec c a); [subst; rewrite N.leb_refl; reflexivity|]. destruct (a <=? c) eqn:A; destruct (c <=? a) eqn:B; try reflexivity. lia.
Qed.

Lemma BT_ch_yes a s pos cs k : BT (ch a) (a :: s) pos cs k = k s (S pos) cs.
Proof. unfold ch. rewrite BT_chr, ok_ch, N.eqb_refl. reflexivity. Qed.
Lemma BT_ch_no a x s pos cs k : x <> a -> BT (ch a) (x :: s) pos cs k = BNo.
Proof. intros H. unfold ch. rewrite BT_chr, ok_ch. destruct (N.eqb_spec x a); [congruence|reflexivity]. Qed.

(* ---- NUMBER: one digit, or a non-zero digit followed by at least one more *)
Definition arc_ok (a : list N) : Prop :=
  match a with
  | [d] => is_dig d = true
  | l :: d :: ds => is_ldig l = true /\ is_dig d = true /\ Forall (fun c => is_dig c = true) ds
  | [] => False
  end.

Lemma m_NUM a rest pos cs k :
  arc_ok a -> starts_not is_dig rest -> krej is_dig k ->
  BT NUM (a ++ rest) pos cs k = k rest (pos + length a)%nat cs.
Proof.
  intros Ha Hr Hk. unfold NUM. rewrite BT_alt. destruct a as [|l [|d ds]]; [destruct Ha| |].
  - (* one digit *)
    cbn [app length]. unfold DIG at 1. rewrite BT_chr, ok_DIG, Ha. replace (pos + 1)%nat with (S pos) by lia.
    destruct (k rest (S pos) cs) eqn:E; try reflexivity.
    rewrite BT_cat. unfold LDIG. rewrite BT_chr, ok_LDIG. destruct (is_ldig l); [|reflexivity].
    rewrite BT_cat. unfold DIG. destruct rest as [|x rest']; [reflexivity|]. rewrite BT_chr, ok_DIG. cbn in Hr. now rewrite Hr.
  - (* several digits: the one-digit alternative leaves a digit for a continuation that refuses digits *)
    destruct Ha as (Hl & Hd & Hds). cbn [app length].
    assert (Hl' : is_dig l = true) by (unfold is_dig, is_ldig in *; lia).
    unfold DIG at 1. rewrite BT_chr, ok_DIG, Hl'. rewrite (Hk d _ _ _ Hd).
    rewrite BT_cat. unfold LDIG. rewrite BT_chr, ok_LDIG, Hl.
    rewrite BT_cat. unfold DIG at 1. rewrite BT_chr, ok_DIG, Hd.
    unfold DIG. rewrite BT_star_class.
    + f_equal. lia.
    + eapply Forall_impl; [|exact Hds]. intros c Hc. now rewrite ok_DIG.
    + destruct rest as [|x r]; [exact I|]. rewrite ok_DIG. exact Hr.
    + intros j Hj. destruct (skipn j ds) as [|y ys] eqn:E.
      * exfalso. assert (length (skipn j ds) = (length ds - j)%nat) by apply skipn_length. rewrite E in H. cbn in H. lia.
      * cbn [app]. apply Hk. rewrite Forall_forall in Hds. apply Hds. rewrite <- (firstn_skipn j ds), E. apply in_or_app. right. now left.
Qed.

(* ---- NUMERICOID *)
Definition dots (arcs : list (list N)) : list N := concat (map (cons 46) arcs).
Definition is_digdot (c : N) : bool := is_dig c || is_dot c.

Lemma krej_push (C : N -> bool) (k : cont) g (f : nat -> nat * nat) :
  krej C k -> krej C (fun s p c => k s p ((g, f p) :: c)).
Proof. intros H x s p c Hx. now apply H. Qed.

Lemma m_DOTNUM g a rest pos cs k :
  arc_ok a -> starts_not is_dig rest -> krej is_dig k ->
  BT (DOTNUM g) ((46 :: a) ++ rest) pos cs k
  = k rest (pos + S (length a))%nat ((g, (pos, (pos + S (length a))%nat)) :: (S g, (S pos, (pos + S (length a))%nat)) :: cs).
Proof.
  intros Ha Hr Hk. unfold DOTNUM. rewrite BT_group, BT_cat. cbn [app]. rewrite BT_ch_yes, BT_group.
  rewrite m_NUM; [|assumption|assumption|].
  - replace (S pos + length a)%nat with (pos + S (length a))%nat by lia. reflexivity.
  - intros x s p c Hx. now apply Hk.
Qed.

Definition F_dotnum (g : nat) (it : list N) (p : nat) (c : caps) : caps :=
  (g, (p, (p + length it)%nat)) :: (S g, (S p, (p + length it)%nat)) :: c.

Lemma first_DOTNUM g x : first (DOTNUM g) x = is_dot x.
Proof. unfold DOTNUM, ch. cbn [first nullable]. rewrite ok_ch. unfold is_dot. now rewrite orb_false_r. Qed.

Lemma dig_not_dot x : is_dig x = true -> is_dot x = false.
Proof. unfold is_dig, is_dot. lia. Qed.

Lemma dots_items_ok g rest (k : cont) : forall arcs,
  Forall arc_ok arcs -> starts_not is_digdot rest ->
  items_ok (DOTNUM g) (F_dotnum g) (krej is_dig) rest (map (cons 46) arcs).
Proof.
  induction arcs as [|a arcs IH]; intros Ha Hr; [exact I|]. inversion Ha as [|? ? Ha0 Ha']; subst.
  cbn [map items_ok]. split; [discriminate|]. split; [|now apply IH].
  intros p c k' Hk'. rewrite m_DOTNUM; [|assumption| |assumption].
  - unfold F_dotnum. cbn [length]. reflexivity.
  - destruct arcs as [|a1 arcs']; cbn [map concat app].
    + destruct rest as [|x r]; [exact I|]. cbn in *. unfold is_digdot in Hr. apply orb_false_iff in Hr. tauto.
    + reflexivity.
Qed.

Lemma m_NUMOID g a0 a1 arcs rest pos cs k :
  arc_ok a0 -> arc_ok a1 -> Forall arc_ok arcs -> starts_not is_digdot rest -> krej is_digdot k ->
  exists cs', only_touches g (g + 2) cs cs' /\
    BT (NUMOID g) (a0 ++ dots (a1 :: arcs) ++ rest) pos cs k
    = k rest (pos + length (a0 ++ dots (a1 :: arcs)))%nat cs'.
Proof.
  intros H0 H1 Hs Hr Hk.
  assert (Kd : krej is_dig k) by (intros x s p c Hx; apply Hk; unfold is_digdot; now rewrite Hx).
  assert (Kt : krej is_dot k) by (intros x s p c Hx; apply Hk; unfold is_digdot; rewrite Hx; apply orb_true_r).
  eexists. split; [|unfold NUMOID; rewrite BT_cat, BT_group].
  2: { rewrite m_NUM; [|assumption|reflexivity|].
       2: { intros x s p c Hx. rewrite BT_reject; [reflexivity| |now left].
            cbn [first_in first]. rewrite first_DOTNUM. rewrite (dig_not_dot x Hx). reflexivity. }
       rewrite BT_cat. unfold dots. cbn [map concat]. rewrite <- app_assoc.
       rewrite m_DOTNUM; [|assumption| |].
       2: { destruct arcs as [|a2 arcs']; cbn [map concat app]; [|reflexivity].
            destruct rest as [|x r]; [exact I|]. cbn in *. unfold is_digdot in Hr. apply orb_false_iff in Hr. tauto. }
       2: { intros x s p c Hx. rewrite BT_reject; [reflexivity| |right; intros c1; now apply Kd].
            cbn [first_in first]. rewrite first_DOTNUM. now apply dig_not_dot. }
       rewrite (BT_star_items (DOTNUM (S g)) (F_dotnum (S g)) (krej is_dig)).
       - match goal with |- k _ ?p _ = k _ ?q _ => replace q with p; [reflexivity|] end.
         rewrite !app_length. cbn [length]. lia.
       - now apply dots_items_ok.
       - intros p c k'. apply BT_reject; [|now left].
         destruct rest as [|x r]; [reflexivity|]. cbn [first_in]. rewrite first_DOTNUM. cbn in Hr. unfold is_digdot in Hr.
         apply orb_false_iff in Hr. tauto.
       - intros p0 x s p c Hx. destruct (Nat.eqb p p0); [reflexivity|].
         rewrite BT_reject; [reflexivity| |right; intros c1; now apply Kd].
         cbn [first_in first]. rewrite first_DOTNUM. now apply dig_not_dot.
       - intros i Hi p c. rewrite map_length in Hi.
         destruct (skipn i (map (cons 46) arcs)) as [|it its] eqn:E.
         + exfalso. assert (L : length (skipn i (map (cons 46) arcs)) = (length arcs - i)%nat) by (rewrite skipn_length, map_length; reflexivity).
           rewrite E in L. cbn in L. lia.
         + assert (Hin : In it (map (cons 46) arcs)) by (rewrite <- (firstn_skipn i (map (cons 46) arcs)), E; apply in_or_app; right; now left).
           apply in_map_iff in Hin. destruct Hin as (a & <- & _). cbn [concat app]. apply Kt. reflexivity. }
  (* the groups touched *)
  intros i Hi. cbn [cap_lookup].
  assert (Hfold : forall its p c, cap_lookup i (fold_caps (F_dotnum (S g)) its p c) = cap_lookup i c).
  { induction its as [|it its IHits]; intros p c; [reflexivity|]. cbn [fold_caps]. rewrite IHits. unfold F_dotnum. cbn [cap_lookup].
    destruct (Nat.eqb_spec i (S g)); [lia|]. destruct (Nat.eqb_spec i (S (S g))); [lia|]. reflexivity. }
  rewrite Hfold. cbn [cap_lookup].
  destruct (Nat.eqb_spec i (S g)); [lia|]. destruct (Nat.eqb_spec i (S (S g))); [lia|]. destruct (Nat.eqb_spec i g); [lia|]. reflexivity.
Qed.

(* ======== success-directed steps (see [eats] in Rx/Bt.v) ======== *)
Definition is_alpha (c : N) : bool := ((97 <=? c) && (c <=? 122)) || ((65 <=? c) && (c <=? 90)).
Definition is_keyc (c : N) : bool := is_alpha c || is_dig c || (c =? 45).
Definition is_sp (c : N) : bool := c =? 32.
Definition C_oid (c : N) : bool := is_keyc c || is_dot c.
Definition no_class (c : N) : bool := false.

Ltac chr_tac := unfold chr_ok, in_ranges, C_oid, is_digdot, is_keyc, is_alpha, is_dig, is_ldig, is_dot, is_sp in *;
                cbn [existsb fst snd] in *; rewrite ?xorb_false_l, ?xorb_true_l in *; lia.

Lemma ok_ALPHA c : chr_ok false [(97, 122); (65, 90)] c = is_alpha c.
Proof. chr_tac. Qed.
Lemma ok_KEYC c : chr_ok false [(97, 122); (65, 90); (48, 57); (45, 45)] c = is_keyc c.
Proof. chr_tac. Qed.

Lemma reject_first r rest : first_in r rest = false -> nullable r = false -> forall p c k', BT r rest p c k' = BNo.
Proof. intros Hf Hn p c k'. apply BT_reject; [assumption|now left]. Qed.

Lemma krej_true (k : cont) : krej no_class k.
Proof. intros x s p c H. discriminate. Qed.

Lemma krej_sub (C D : N -> bool) k : (forall x, C x = true -> D x = true) -> krej D k -> krej C k.
Proof. intros H K x s p c Hx. apply K. now apply H. Qed.

Lemma eats_ch a rest pos cs k lo hi : eats (ch a) [a] rest pos cs k lo hi.
Proof. apply eats_chr. rewrite ok_ch. apply N.eqb_refl. Qed.

(* white space: as many spaces as there are *)
Lemma m_WSP w rest pos cs k lo hi :
  Forall (fun c => c = 32) w -> starts_not is_sp rest -> eats WSPr w rest pos cs k lo hi.
Proof.
  intros Hw Hr. apply eats_star_class.
  - eapply Forall_impl; [|exact Hw]. intros c ->. reflexivity.
  - destruct rest as [|x r]; [exact I|]. rewrite ok_ch. exact Hr.
Qed.
Lemma m_WSP1 rest pos cs k lo hi : starts_not is_sp rest -> eats WSPr [32] rest pos cs k lo hi.
Proof. intros Hr. apply m_WSP; [repeat constructor|exact Hr]. Qed.
Lemma m_WSP0 rest pos cs k lo hi : starts_not is_sp rest -> eats WSPr [] rest pos cs k lo hi.
Proof. intros Hr. apply m_WSP; [constructor|exact Hr]. Qed.
Lemma m_SP1 rest pos cs k lo hi : starts_not is_sp rest -> eats SPr [32] rest pos cs k lo hi.
Proof. intros Hr. unfold SPr. apply (eats_cat _ _ [32] []); [apply eats_ch|]. intros c1. apply m_WSP0. exact Hr. Qed.

(* ---- descriptors *)
Definition descr_ok (d : list N) : Prop :=
  match d with a :: w => is_alpha a = true /\ Forall (fun c => is_keyc c = true) w | [] => False end.

Lemma items_eat_chars a lo hi (Pk : cont -> Prop) rest : forall w,
  (forall c more p c0 k', In c w -> Pk k' -> eats a [c] more p c0 k' lo hi) ->
  items_eat a lo hi Pk rest (map (fun c => [c]) w).
Proof.
  induction w as [|c w IH]; intros H; [exact I|]. cbn [map items_eat]. split; [discriminate|]. split.
  - intros p c0 k' Hk'. apply H; [now left|assumption].
  - apply IH. intros c1 more p c0 k' Hin. apply H. now right.
Qed.

Lemma m_KEYTAIL g w rest pos cs k :
  Forall (fun c => is_keyc c = true) w -> starts_not is_keyc rest -> eats (KEYTAIL g) w rest pos cs k g (S g).
Proof.
  intros Hw Hr. unfold KEYTAIL. rewrite <- (concat_singletons w). apply (eats_star _ g (S g) (fun _ => True)).
  - apply reject_first; [|reflexivity]. destruct rest as [|x r]; [reflexivity|]. unfold KEYC. cbn [first_in first]. rewrite ok_KEYC. exact Hr.
  - apply items_eat_chars. intros c more p c0 k' Hin _. rewrite Forall_forall in Hw.
    apply eats_group; [lia|]. apply eats_group; [lia|]. apply eats_chr. rewrite ok_KEYC. now apply Hw.
  - intros; exact I.
Qed.

Lemma m_DESCR g d rest pos cs k :
  descr_ok d -> starts_not is_keyc rest -> eats (Cat ALPHA (KEYTAIL g)) d rest pos cs k g (S g).
Proof.
  intros Hd Hr. destruct d as [|a w]; [destruct Hd|]. destruct Hd as [Ha Hw].
  apply (eats_cat _ _ [a] w); [apply eats_chr; now rewrite ok_ALPHA|]. intros c1. now apply m_KEYTAIL.
Qed.

(* ' descr ' followed by whatever K eats *)
Lemma m_QDESCR_then g K d tK rest pos cs k lo hi :
  (lo <= g)%nat -> (S g <= hi)%nat ->
  descr_ok d -> starts_not is_keyc (tK ++ rest) ->
  (forall c1, eats K tK rest (pos + 1 + length d) c1 k lo hi) ->
  eats (QDESCR_then g K) (39 :: d ++ tK) rest pos cs k lo hi.
Proof.
  intros Hlo Hhi Hd Hr HK. unfold QDESCR_then. destruct d as [|a w]; [destruct Hd|]. destruct Hd as [Ha Hw].
  apply (eats_cat _ _ [39] ((a :: w) ++ tK)); [apply eats_ch|]. intros c1.
  apply (eats_cat _ _ [a] (w ++ tK)); [apply eats_chr; now rewrite ok_ALPHA|]. intros c2.
  apply (eats_cat _ _ w tK); [apply (eats_wider _ _ _ _ _ _ g (S g)); [assumption|assumption|now apply m_KEYTAIL]|].
  intros c3. cbn [length] in *. replace (pos + 1 + 1 + length w)%nat with (pos + 1 + S (length w))%nat by lia. apply HK.
Qed.

(* ---- object identifiers *)
Definition numoid_ok (o : list N) : Prop :=
  exists a0 a1 arcs, o = a0 ++ dots (a1 :: arcs) /\ arc_ok a0 /\ arc_ok a1 /\ Forall arc_ok arcs.
Definition oid_ok (o : list N) : Prop := descr_ok o \/ numoid_ok o.

Lemma arc_first a : arc_ok a -> exists d r, a = d :: r /\ is_dig d = true.
Proof.
  destruct a as [|l [|d ds]]; cbn; [tauto| |]; intros H.
  - now exists l, [].
  - exists l, (d :: ds). split; [reflexivity|]. destruct H as [H _]. chr_tac.
Qed.

Lemma m_NUMOID_eats g o rest pos cs k :
  numoid_ok o -> starts_not is_digdot rest -> krej is_digdot k -> eats (NUMOID g) o rest pos cs k g (g + 2).
Proof.
  intros (a0 & a1 & arcs & -> & H0 & H1 & Hs) Hr Hk.
  destruct (m_NUMOID g a0 a1 arcs rest pos cs k H0 H1 Hs Hr Hk) as (c & T & E).
  apply (eats_eq _ _ _ _ _ _ _ _ c T). rewrite <- app_assoc. exact E.
Qed.

Lemma m_OID g o rest pos cs k :
  oid_ok o -> starts_not C_oid rest -> krej C_oid k -> eats (OIDr g) o rest pos cs k g (g + 4).
Proof.
  intros [Hd|Hn] Hr Hk; unfold OIDr.
  - apply eats_alt_l. apply (eats_wider _ _ _ _ _ _ g (S g)); [lia|lia|]. apply m_DESCR; [assumption|].
    destruct rest as [|x r]; [exact I|]. cbn in *. chr_tac.
  - apply eats_alt_r.
    + destruct Hn as (a0 & a1 & arcs & -> & H0 & _). destruct (arc_first a0 H0) as (d & r & -> & Hd).
      apply reject_first; [|reflexivity]. unfold ALPHA. cbn [app first_in first nullable]. rewrite ok_ALPHA.
      cbn [orb andb]. chr_tac.
    + apply (eats_wider _ _ _ _ _ _ (g + 2) (g + 2 + 2)); [lia|lia|]. apply m_NUMOID_eats; [assumption| |].
      * destruct rest as [|x r]; [exact I|]. cbn in *. chr_tac.
      * eapply krej_sub; [|exact Hk]. intros x Hx. chr_tac.
Qed.

(* ---- lists of object identifiers *)
Lemma oid_first o : oid_ok o -> exists c r, o = c :: r /\ (is_alpha c = true \/ is_dig c = true).
Proof.
  intros [Hd|(a0 & a1 & arcs & -> & H0 & _)].
  - destruct o as [|a w]; [destruct Hd|]. exists a, w. split; [reflexivity|left; apply Hd].
  - destruct (arc_first a0 H0) as (d & r & -> & Hd). eexists d, _. split; [reflexivity|now right].
Qed.

Lemma starts_not_oid (C : N -> bool) o more :
  oid_ok o -> (forall c, is_alpha c = true \/ is_dig c = true -> C c = false) -> starts_not C (o ++ more).
Proof. intros Ho HC. destruct (oid_first o Ho) as (c & r & -> & Hc). cbn. now apply HC. Qed.

Definition dollar_item (o : list N) : list N := [32; 36; 32] ++ o.

Lemma WSP1_no K c s pos cs k :
  c <> 32 -> (forall p cs' k', BT K (c :: s) p cs' k' = BNo) -> (forall p cs' k', BT K (32 :: c :: s) p cs' k' = BNo) ->
  BT (Cat WSPr K) (32 :: c :: s) pos cs k = BNo.
Proof.
  intros Hc H1 H2. rewrite BT_cat. unfold WSPr. rewrite BT_star, BT_ch_yes.
  assert (Ep : Nat.eqb (S pos) pos = false) by (apply Nat.eqb_neq; lia). rewrite Ep.
  rewrite BT_star, BT_ch_no by assumption. rewrite H1. apply H2.
Qed.

Lemma first_OIDITEM g x : first (OIDITEM g) x = (x =? 32) || (x =? 36).
Proof. unfold OIDITEM, WSPr, ch. cbn [first nullable]. rewrite !ok_ch. cbn [andb orb]. now rewrite orb_false_r. Qed.

Lemma m_OIDITEM g o more pos cs k :
  oid_ok o -> starts_not C_oid more -> krej C_oid k -> eats (OIDITEM g) (dollar_item o) more pos cs k g (g + 6).
Proof.
  intros Ho Hm Hk. unfold OIDITEM, dollar_item. apply eats_group; [lia|].
  apply (eats_cat _ _ [32] ([36; 32] ++ o)); [apply m_WSP1; reflexivity|]. intros c1.
  apply (eats_cat _ _ [36] ([32] ++ o)); [apply eats_ch|]. intros c2.
  apply (eats_cat _ _ [32] o).
  - apply m_WSP1. apply starts_not_oid; [assumption|]. intros c Hc. chr_tac.
  - intros c3. apply eats_group; [lia|]. apply (eats_wider _ _ _ _ _ _ (g + 2) (g + 2 + 4)); [lia|lia|].
    apply m_OID; [assumption|assumption|]. intros x s p c Hx. apply Hk. exact Hx.
Qed.

Lemma OIDITEM_stops g rest p c k' : BT (OIDITEM g) (32 :: 41 :: rest) p c k' = BNo.
Proof.
  unfold OIDITEM. rewrite BT_group. apply WSP1_no; [discriminate| |]; intros; rewrite BT_cat; apply BT_ch_no; discriminate.
Qed.

Lemma items_eat_oids g rest : forall l,
  Forall oid_ok l -> items_eat (OIDITEM g) g (g + 6) (krej C_oid) (32 :: 41 :: rest) (map dollar_item l).
Proof.
  induction l as [|o l IH]; intros Hl; [exact I|]. inversion Hl as [|? ? Ho Hl']; subst. cbn [map items_eat].
  split; [discriminate|]. split; [|now apply IH].
  intros p c k' Hk'. apply m_OIDITEM; [assumption| |assumption].
  destruct l as [|o2 l2]; reflexivity.
Qed.

Lemma ujoin_dollar x l : ujoin [32; 36; 32] (x :: l) = x ++ concat (map dollar_item l).
Proof.
  revert x. induction l as [|y l IH]; intros x; [cbn; now rewrite app_nil_r|].
  change (ujoin [32; 36; 32] (x :: y :: l)) with (x ++ [32; 36; 32] ++ ujoin [32; 36; 32] (y :: l)).
  rewrite IH. cbn [map concat]. unfold dollar_item at 2. now rewrite <- !app_assoc.
Qed.

Lemma m_OIDS g l rest pos cs k :
  l <> [] -> Forall oid_ok l -> starts_not C_oid rest -> krej C_oid k ->
  eats (OIDSr g) (encode_oids l) rest pos cs k g (g + 20).
Proof.
  intros Hne Hl Hr Hk. unfold OIDSr. apply eats_group; [lia|].
  destruct l as [|x [|y l]]; [congruence| |].
  - (* one identifier, written bare *)
    inversion Hl as [|? ? Hx _]; subst. cbn [encode_oids]. apply eats_alt_l. apply eats_group; [lia|].
    apply (eats_wider _ _ _ _ _ _ (g + 2) (g + 2 + 4)); [lia|lia|]. apply m_OID; [assumption|assumption|].
    intros c s p c0 Hc. apply Hk. exact Hc.
  - (* a parenthesised list *)
    inversion Hl as [|? ? Hx Hl']; subst.
    assert (E : encode_oids (x :: y :: l) = [40] ++ [32] ++ (x ++ concat (map dollar_item (y :: l))) ++ [32; 41]).
    { unfold encode_oids. rewrite ujoin_dollar. reflexivity. }
    rewrite E. apply eats_alt_r.
    { apply reject_first; reflexivity. }
    apply (eats_cat _ _ [40]); [apply eats_ch|]. intros c1.
    apply (eats_cat _ _ [32]).
    { apply m_WSP1. rewrite <- !app_assoc. apply starts_not_oid; [assumption|]. intros c Hc. chr_tac. }
    intros c2. apply (eats_cat _ _ (x ++ concat (map dollar_item (y :: l))) [32; 41]).
    + apply eats_group; [lia|]. apply (eats_cat _ _ x).
      * apply eats_group; [lia|]. apply (eats_wider _ _ _ _ _ _ (g + 9) (g + 9 + 4)); [lia|lia|].
        apply m_OID; [assumption|reflexivity|].
        intros c s p c0 Hc. apply BT_reject; [cbn [first_in first]; rewrite first_OIDITEM; chr_tac|]. right. intros c1'.
        apply BT_reject; [|now left]. unfold WSPr, ch. cbn [first_in first nullable]. rewrite !ok_ch. chr_tac.
      * intros c3. apply (eats_wider _ _ _ _ _ _ (g + 14) (g + 14 + 6)); [lia|lia|].
        apply (eats_star _ _ _ (krej C_oid)).
        -- intros p c k'. apply OIDITEM_stops.
        -- now apply items_eat_oids.
        -- intros p0 c s p c0 Hc. unfold loopk. destruct (Nat.eqb p p0); [reflexivity|].
           apply BT_reject; [cbn [first_in first]; rewrite first_OIDITEM; chr_tac|]. right. intros c1'.
           apply BT_reject; [|now left]. unfold WSPr, ch. cbn [first_in first nullable]. rewrite !ok_ch. chr_tac.
    + intros c3. apply (eats_cat _ _ [32] [41]); [apply m_WSP1; reflexivity|]. intros c4. apply eats_ch.
Qed.

(* ---- quoted descriptors and lists of them *)
Lemma eats_opt_none a rest pos cs k lo hi : (forall k', BT a rest pos cs k' = BNo) -> eats (Alt a Eps) [] rest pos cs k lo hi.
Proof. intros H. apply (eats_eq _ _ _ _ _ _ _ _ cs); [apply only_touches_refl|]. cbn [app length]. rewrite Nat.add_0_r. now apply BT_opt_none. Qed.

Definition sp_item (q : list N) : list N := 32 :: q.

Lemma ujoin_sp_items q (qs : list (list N)) : ujoin [32] (q :: qs) = q ++ concat (map sp_item qs).
Proof.
  revert q. induction qs as [|q2 qs IH]; intros q; [cbn; now rewrite app_nil_r|].
  change (ujoin [32] (q :: q2 :: qs)) with (q ++ [32] ++ ujoin [32] (q2 :: qs)). rewrite IH. reflexivity.
Qed.

Lemma SP_then_no K c s pos cs k :
  c <> 32 -> (forall p cs' k', BT K (c :: s) p cs' k' = BNo) -> BT (Cat SPr K) (32 :: c :: s) pos cs k = BNo.
Proof.
  intros Hc HK. rewrite BT_cat. unfold SPr. rewrite BT_cat, BT_ch_yes. rewrite BT_star, BT_ch_no by assumption. apply HK.
Qed.

Lemma m_QITEM g n more pos cs k :
  descr_ok n -> eats (QITEM g) (sp_item (quote n)) more pos cs k g (g + 2).
Proof.
  intros Hn. unfold QITEM, sp_item. apply eats_group; [lia|]. apply (eats_cat _ _ [32] (quote n)); [apply m_SP1; reflexivity|].
  intros c1. unfold quote. apply (m_QDESCR_then (g + 1) (ch 39) n [39]); [lia|lia|assumption|reflexivity|]. intros c2. apply eats_ch.
Qed.

Lemma QITEM_stops g rest p c k' : BT (QITEM g) (32 :: 41 :: rest) p c k' = BNo.
Proof.
  unfold QITEM. rewrite BT_group. apply SP_then_no; [discriminate|]. intros. unfold QDESCR_then. rewrite BT_cat. apply BT_ch_no. discriminate.
Qed.

Lemma items_eat_q g rest : forall ns, Forall descr_ok ns ->
  items_eat (QITEM g) g (g + 2) (fun _ => True) (32 :: 41 :: rest) (map sp_item (map quote ns)).
Proof.
  induction ns as [|n ns IH]; intros H; [exact I|]. inversion H; subst. cbn [map items_eat]. split; [discriminate|]. split; [|now apply IH].
  intros p c k' _. now apply m_QITEM.
Qed.

Definition names_text (names : list ustr) : ustr :=
  match names with
  | [n] => quote n
  | _ => [LP; SPC; SQ] ++ ujoin [SQ; SPC; SQ] names ++ [SQ; SPC; RP]
  end.

Lemma m_QDESCRS g names rest pos cs k :
  names <> [] -> Forall descr_ok names -> eats (QDESCRSr g) (names_text names) rest pos cs k g (g + 8).
Proof.
  intros Hne Hn. unfold QDESCRSr. apply eats_group; [lia|]. destruct names as [|n [|n2 ns]]; [congruence| |].
  - inversion Hn; subst. cbn [names_text]. apply eats_alt_l. unfold quote.
    apply (m_QDESCR_then (g + 1) (ch 39) n [39]); [lia|lia|assumption|reflexivity|]. intros c1. apply eats_ch.
  - assert (E : names_text (n :: n2 :: ns) = [40] ++ [32] ++ (39 :: n ++ [39] ++ concat (map sp_item (map quote (n2 :: ns)))) ++ [32; 41]).
    { unfold names_text. pose proof (ujoin_quotes (n :: n2 :: ns) ltac:(discriminate)) as U.
      change (map quote (n :: n2 :: ns)) with (quote n :: map quote (n2 :: ns)) in U. rewrite ujoin_sp_items in U.
      transitivity ([40; 32] ++ ([SQ] ++ ujoin [SQ; SPC; SQ] (n :: n2 :: ns) ++ [SQ]) ++ [32; 41]).
      { cbn [app]. rewrite <- app_assoc. reflexivity. }
      rewrite U. unfold quote. cbn [app]. rewrite <- !app_assoc. reflexivity. }
    rewrite E. inversion Hn as [|? ? Hn1 Hn']; subst. apply eats_alt_r.
    { apply reject_first; reflexivity. }
    apply (eats_cat _ _ [40]); [apply eats_ch|]. intros c1.
    apply (eats_cat _ _ [32]); [apply m_WSP1; reflexivity|]. intros c2.
    apply (eats_cat _ _ _ [32; 41]).
    + apply eats_opt_some. apply eats_group; [lia|].
      apply (m_QDESCR_then (g + 4) _ n ([39] ++ concat (map sp_item (map quote (n2 :: ns))))); [lia|lia|assumption|reflexivity|].
      intros c3. apply (eats_cat _ _ [39]); [apply eats_ch|]. intros c4.
      apply (eats_wider _ _ _ _ _ _ (g + 6) (g + 6 + 2)); [lia|lia|]. apply (eats_star _ _ _ (fun _ => True)).
      * intros; apply QITEM_stops.
      * now apply items_eat_q.
      * intros; exact I.
    + intros c3. apply (eats_cat _ _ [32] [41]); [apply m_WSP1; reflexivity|]. intros c4. apply eats_ch.
Qed.

(* ---- quoted strings *)
Lemma m_QCHAR g c more pos cs k : eats (Group g QCHAR) (qesc c) more pos cs k g g.
Proof.
  apply eats_group; [lia|]. unfold QCHAR.
  destruct (N.eq_dec c 92) as [->|N1]; [|destruct (N.eq_dec c 39) as [->|N2]].
  - rewrite qesc_92. apply eats_alt_l. apply (eats_cat _ _ [92] [53; 99]); [apply eats_ch|]. intros c1.
    apply (eats_cat _ _ [53] [99]); [apply eats_ch|]. intros c2. apply eats_chr. reflexivity.
  - rewrite qesc_39. apply eats_alt_r.
    { cbn [app]. rewrite BT_cat, BT_ch_yes, BT_cat. apply BT_ch_no. discriminate. }
    apply eats_alt_l. apply (eats_cat _ _ [92] [50; 55]); [apply eats_ch|]. intros c1.
    apply (eats_cat _ _ [50] [55]); [apply eats_ch|]. intros c2. apply eats_ch.
  - rewrite qesc_plain by assumption. apply eats_alt_r.
    { cbn [app]. rewrite BT_cat. now apply BT_ch_no. }
    apply eats_alt_r.
    { cbn [app]. rewrite BT_cat. now apply BT_ch_no. }
    apply eats_chr. unfold chr_ok, in_ranges. cbn [existsb fst snd]. rewrite xorb_true_l. lia.
Qed.

Lemma items_eat_qchars g rest : forall v, items_eat (Group g QCHAR) g g (fun _ => True) rest (map qesc v).
Proof.
  induction v as [|c v IH]; [exact I|]. cbn [map items_eat]. split; [|split; [|exact IH]].
  - unfold qesc. destruct (qspecial c); discriminate.
  - intros p c0 k' _. apply m_QCHAR.
Qed.

Lemma m_QDSTRING_then g K v tK rest pos cs k lo hi :
  (lo <= g <= hi)%nat -> v <> [] ->
  (forall c1, eats K (39 :: tK) rest (pos + 1 + length (flat_map qesc v)) c1 k lo hi) ->
  eats (QDSTRING_then g K) ([39] ++ flat_map qesc v ++ 39 :: tK) rest pos cs k lo hi.
Proof.
  intros Hg Hv HK. unfold QDSTRING_then. apply (eats_cat _ _ [39]); [apply eats_ch|]. intros c1.
  apply (eats_cat _ _ (flat_map qesc v) (39 :: tK)); [|intros c2; apply HK].
  destruct v as [|c v]; [congruence|]. cbn [flat_map]. apply (eats_wider _ _ _ _ _ _ g g); [lia|lia|].
  apply (eats_cat _ _ (qesc c)); [apply m_QCHAR|]. intros c2. rewrite flat_map_concat_map.
  apply (eats_star _ _ _ (fun _ => True)).
  - intros. apply reject_first; reflexivity.
  - apply items_eat_qchars.
  - intros; exact I.
Qed.

Lemma m_QDSTRING g v rest pos cs k : v <> [] -> eats (QDSTRINGr g) (qd v) rest pos cs k g g.
Proof.
  intros Hv. unfold QDSTRINGr, qd. apply (m_QDSTRING_then g (ch 39) v []); [lia|assumption|]. intros c1. apply eats_ch.
Qed.

Lemma m_QSITEM g v more pos cs k : v <> [] -> eats (QSITEM g) (sp_item (qd v)) more pos cs k g (g + 1).
Proof.
  intros Hv. unfold QSITEM, sp_item. apply eats_group; [lia|]. apply (eats_cat _ _ [32] (qd v)); [apply m_SP1; reflexivity|].
  intros c1. apply (eats_wider _ _ _ _ _ _ (g + 1) (g + 1)); [lia|lia|]. now apply m_QDSTRING.
Qed.

Lemma QSITEM_stops g rest p c k' : BT (QSITEM g) (32 :: 41 :: rest) p c k' = BNo.
Proof.
  unfold QSITEM. rewrite BT_group. apply SP_then_no; [discriminate|]. intros. unfold QDSTRINGr, QDSTRING_then. rewrite BT_cat. apply BT_ch_no. discriminate.
Qed.

Lemma items_eat_qs g rest : forall vs, Forall (fun v => v <> []) vs ->
  items_eat (QSITEM g) g (g + 1) (fun _ => True) (32 :: 41 :: rest) (map sp_item (map qd vs)).
Proof.
  induction vs as [|v vs IH]; intros H; [exact I|]. inversion H; subst. cbn [map items_eat]. split; [discriminate|]. split; [|now apply IH].
  intros p c k' _. now apply m_QSITEM.
Qed.

(* the value part of an extension, as [print_ext] writes it (after the space) *)
Definition vals_text (vs : list ustr) : ustr :=
  match vs with
  | [v] => qd v
  | _ => [LP; SPC] ++ ujoin [SPC] (map qd vs) ++ [SPC; RP]
  end.

Lemma m_QDSTRINGS g vs rest pos cs k :
  Forall (fun v => v <> []) vs -> eats (QDSTRINGSr g) (vals_text vs) rest pos cs k g (g + 5).
Proof.
  intros Hv. unfold QDSTRINGSr. apply eats_group; [lia|]. destruct vs as [|v [|v2 vs]].
  - (* no value at all: "(  )" *)
    change (vals_text []) with ([40] ++ [32; 32] ++ [] ++ [41]). apply eats_alt_r; [apply reject_first; reflexivity|].
    apply (eats_cat _ _ [40]); [apply eats_ch|]. intros c1.
    apply (eats_cat _ _ [32; 32]); [apply m_WSP; [repeat constructor|reflexivity]|]. intros c2.
    apply (eats_cat _ _ [] [41]); [|intros c3; apply eats_ch].
    apply eats_opt_none. intros k'. apply reject_first; reflexivity.
  - inversion Hv; subst. cbn [vals_text]. apply eats_alt_l. apply (eats_wider _ _ _ _ _ _ (g + 1) (g + 1)); [lia|lia|]. now apply m_QDSTRING.
  - inversion Hv as [|? ? Hv1 Hv']; subst.
    assert (E : vals_text (v :: v2 :: vs) = [40] ++ [32] ++ ([39] ++ flat_map qesc v ++ 39 :: concat (map sp_item (map qd (v2 :: vs))) ++ [32]) ++ [41]).
    { unfold vals_text. change (map qd (v :: v2 :: vs)) with (qd v :: map qd (v2 :: vs)). rewrite ujoin_sp_items. unfold qd at 1.
      cbn [app]. rewrite <- !app_assoc. cbn [app]. rewrite <- !app_assoc. reflexivity. }
    rewrite E. apply eats_alt_r; [apply reject_first; reflexivity|].
    apply (eats_cat _ _ [40]); [apply eats_ch|]. intros c1.
    apply (eats_cat _ _ [32]); [apply m_WSP1; reflexivity|]. intros c2.
    apply (eats_cat _ _ _ [41]); [|intros c3; apply eats_ch].
    apply eats_opt_some. apply eats_group; [lia|].
    apply (m_QDSTRING_then (g + 3) _ v (concat (map sp_item (map qd (v2 :: vs))) ++ [32])); [lia|assumption|].
    intros c3. apply (eats_cat _ _ [39]); [apply eats_ch|]. intros c4.
    apply (eats_cat _ _ _ [32]); [|intros c5; apply m_WSP1; reflexivity].
    apply (eats_wider _ _ _ _ _ _ (g + 4) (g + 4 + 1)); [lia|lia|]. apply (eats_star _ _ _ (fun _ => True)).
    + intros; apply QSITEM_stops.
    + now apply items_eat_qs.
    + intros; exact I.
Qed.

(* ---- extensions *)
Definition is_xc (c : N) : bool := is_alpha c || (c =? 45) || (c =? 95).
Lemma ok_XC c : chr_ok false [(97, 122); (65, 90); (45, 45); (95, 95)] c = is_xc c.
Proof. unfold is_xc. chr_tac. Qed.
Definition xkey_ok (a : ustr) : Prop := a <> [] /\ Forall (fun c => is_xc c = true) a.

Lemma m_XSTRING g a rest pos cs k :
  xkey_ok a -> starts_not is_xc rest -> eats (XSTRINGr g) (88 :: 45 :: a) rest pos cs k g (S g).
Proof.
  intros [Hne Ha] Hr. unfold XSTRINGr. apply eats_group; [lia|].
  apply (eats_cat _ _ [88] (45 :: a)); [apply eats_chr; reflexivity|]. intros c1.
  apply (eats_cat _ _ [45] a); [apply eats_ch|]. intros c2.
  destruct a as [|x a]; [congruence|]. inversion Ha as [|? ? Hx Ha']; subst.
  apply (eats_cat _ _ [x] a).
  - apply eats_group; [lia|]. apply eats_chr. unfold XC. now rewrite ok_XC.
  - intros c3. rewrite <- (concat_singletons a). apply (eats_star _ _ _ (fun _ => True)).
    + apply reject_first; [|reflexivity]. destruct rest as [|y r]; [reflexivity|]. unfold XC. cbn [first_in first]. rewrite ok_XC. exact Hr.
    + apply items_eat_chars. intros c more p c0 k' Hin _. rewrite Forall_forall in Ha'.
      apply eats_group; [lia|]. apply eats_chr. unfold XC. rewrite ok_XC. now apply Ha'.
    + intros; exact I.
Qed.

Definition ext_ok (x : ustr * list ustr) : Prop := xkey_ok (fst x) /\ Forall (fun v => v <> []) (snd x).

Lemma ext_item_text a vs : ext_item a vs = [32] ++ (88 :: 45 :: a) ++ [32] ++ vals_text vs.
Proof. unfold ext_item, vals_text, k_X. destruct vs as [|v [|v2 vs]]; cbn [app]; rewrite <- ?app_assoc; reflexivity. Qed.

Lemma m_EXTITEM g a vs more pos cs k :
  ext_ok (a, vs) -> eats (EXTITEM g) (ext_item a vs) more pos cs k g (g + 8).
Proof.
  intros [Ha Hv]. cbn [fst snd] in *. rewrite ext_item_text. unfold EXTITEM. apply eats_group; [lia|].
  apply (eats_cat _ _ [32]); [apply m_SP1; reflexivity|]. intros c1.
  apply (eats_cat _ _ (88 :: 45 :: a)).
  - apply (eats_wider _ _ _ _ _ _ (g + 1) (S (g + 1))); [lia|lia|]. apply m_XSTRING; [assumption|reflexivity].
  - intros c2. apply (eats_cat _ _ [32]).
    + apply m_SP1. unfold vals_text. destruct vs as [|v [|v2 vs']]; reflexivity.
    + intros c3. apply (eats_wider _ _ _ _ _ _ (g + 3) (g + 3 + 5)); [lia|lia|]. now apply m_QDSTRINGS.
Qed.

Lemma EXTITEM_stops g rest p c k' : BT (EXTITEM g) (32 :: 41 :: rest) p c k' = BNo.
Proof.
  unfold EXTITEM. rewrite BT_group. apply SP_then_no; [discriminate|]. intros. rewrite BT_cat. unfold XSTRINGr. rewrite BT_group, BT_cat, BT_chr. reflexivity.
Qed.

Definition ext_text (e : list (ustr * list ustr)) : ustr := flat_map (fun x => ext_item (fst x) (snd x)) e.

Lemma items_eat_ext g rest : forall e, Forall ext_ok e ->
  items_eat (EXTITEM g) g (g + 8) (fun _ => True) (32 :: 41 :: rest) (map (fun x => ext_item (fst x) (snd x)) e).
Proof.
  induction e as [|[a vs] e IH]; intros H; [exact I|]. inversion H; subst. cbn [map items_eat fst snd]. split; [|split; [|now apply IH]].
  - destruct (ext_item_shape a vs) as (r & ->). discriminate.
  - intros p c k' _. now apply m_EXTITEM.
Qed.

Lemma m_EXT g e rest pos cs k :
  Forall ext_ok e -> eats (EXTr g) (ext_text e) (32 :: 41 :: rest) pos cs k g (g + 8).
Proof.
  intros He. unfold EXTr, ext_text. rewrite flat_map_concat_map. apply (eats_star _ _ _ (fun _ => True)).
  - intros; apply EXTITEM_stops.
  - now apply items_eat_ext.
  - intros; exact I.
Qed.

(* ======== keywords, optional parts and the chain of parts up to the closing parenthesis ======== *)
Lemma BT_SP1 s pos cs k : starts_not is_sp s -> BT SPr (32 :: s) pos cs k = k s (S pos) cs.
Proof.
  intros Hs. unfold SPr. rewrite BT_cat, BT_ch_yes, BT_star. destruct s as [|c s']; [reflexivity|].
  rewrite BT_ch_no; [reflexivity|]. cbn in Hs. chr_tac.
Qed.

Lemma BT_WSP1_yes s pos cs k : starts_not is_sp s -> k s (S pos) cs <> BNo -> BT WSPr (32 :: s) pos cs k = k s (S pos) cs.
Proof.
  intros Hs Hk. unfold WSPr. rewrite BT_star, BT_ch_yes.
  assert (Ep : Nat.eqb (S pos) pos = false) by (apply Nat.eqb_neq; lia). rewrite Ep.
  assert (E : BT (Star (ch 32)) s (S pos) cs k = k s (S pos) cs).
  { rewrite BT_star. destruct s as [|c s']; [reflexivity|]. rewrite BT_ch_no; [reflexivity|]. cbn in Hs. chr_tac. }
  rewrite E. destruct (k s (S pos) cs); congruence.
Qed.

Lemma BT_lit w K : forall s pos cs k, BT (lit w K) (w ++ s) pos cs k = BT K s (pos + length w) cs k.
Proof.
  induction w as [|c w IH]; intros s pos cs k; cbn [lit app length]; [now rewrite Nat.add_0_r|].
  rewrite BT_cat, BT_ch_yes, IH. f_equal. lia.
Qed.

Lemma BT_lit' : forall w s pos cs k, w <> [] -> BT (lit' w) (w ++ s) pos cs k = k s (pos + length w)%nat cs.
Proof.
  induction w as [|c w IH]; intros s pos cs k Hw; [congruence|]. destruct w as [|c2 w'].
  - cbn [lit' app length]. rewrite BT_ch_yes. f_equal. lia.
  - change (lit' (c :: c2 :: w')) with (Cat (ch c) (lit' (c2 :: w'))). cbn [app]. rewrite BT_cat, BT_ch_yes.
    change (c2 :: w' ++ s) with ((c2 :: w') ++ s). rewrite IH by discriminate. f_equal. cbn [length]. lia.
Qed.

(* the text certainly differs from the keyword within the characters given *)
Fixpoint mismatch (w t : list N) : bool :=
  match w, t with
  | c :: w', x :: t' => if x =? c then mismatch w' t' else true
  | _, _ => false
  end.

Lemma mismatch_app w : forall t r, mismatch w t = true -> mismatch w (t ++ r) = true.
Proof.
  induction w as [|c w IH]; intros t r H; [discriminate|]. destruct t as [|x t]; [discriminate|].
  cbn [mismatch app] in *. destruct (x =? c); [now apply IH|reflexivity].
Qed.

Lemma lit_no w K : forall t pos cs k, mismatch w t = true -> BT (lit w K) t pos cs k = BNo.
Proof.
  induction w as [|c w IH]; intros t pos cs k H; [discriminate|]. destruct t as [|x t]; [discriminate|].
  cbn [mismatch lit] in *. rewrite BT_cat. destruct (N.eqb_spec x c) as [->|Hx].
  - rewrite BT_ch_yes. now apply IH.
  - now apply BT_ch_no.
Qed.

Lemma lit'_no : forall w t pos cs k, mismatch w t = true -> BT (lit' w) t pos cs k = BNo.
Proof.
  induction w as [|c w IH]; intros t pos cs k H; [discriminate|]. destruct t as [|x t]; [discriminate|].
  cbn [mismatch] in H. destruct w as [|c2 w'].
  - cbn [lit']. destruct (N.eqb_spec x c) as [->|Hx]; [destruct t; discriminate|now apply BT_ch_no].
  - change (lit' (c :: c2 :: w')) with (Cat (ch c) (lit' (c2 :: w'))). rewrite BT_cat. destruct (N.eqb_spec x c) as [->|Hx].
    + rewrite BT_ch_yes. now apply IH.
    + now apply BT_ch_no.
Qed.

(* the final continuation of pattern.match without an end anchor *)
Definition kf : cont := fun _ p cs => BYes p cs.

Definition fresh_from (lo : nat) (cs : caps) : Prop := forall g, (lo <= g)%nat -> cap_lookup g cs = None.

Lemma slice_mid {A} (pre mid post : list A) st en :
  st = length pre -> en = (length pre + length mid)%nat -> slice (pre ++ mid ++ post) st en = mid.
Proof.
  intros -> ->. unfold slice. rewrite skipn_app, skipn_all, Nat.sub_diag. cbn [skipn app].
  replace (length pre + length mid - length pre)%nat with (length mid) by lia.
  rewrite firstn_app, firstn_all, Nat.sub_diag. cbn [firstn]. apply app_nil_r.
Qed.

(* [T] run on [txt ++ junk] succeeds at the end of [txt]; what it captured is described by [Q] in terms of the
   whole input [w], given that nothing at or above group [lo] had been captured before *)
Definition tail_ok (T : rx) (txt : list N) (lo : nat) (Q : list N -> caps -> Prop) : Prop :=
  forall w pre junk cs, w = pre ++ txt ++ junk ->
  exists c', only_touches lo 200 cs c' /\
     BT T (txt ++ junk) (length pre) cs kf = BYes (length pre + length txt)%nat c' /\ (fresh_from lo cs -> Q w c').

Lemma tail_ok_impl T txt lo (Q Q' : list N -> caps -> Prop) :
  (forall w c, Q w c -> Q' w c) -> tail_ok T txt lo Q -> tail_ok T txt lo Q'.
Proof.
  intros HQ HT w pre junk cs Hw. destruct (HT w pre junk cs Hw) as (c' & T' & E' & Q1). exists c'. split; [exact T'|]. split; [exact E'|].
  intros Hf. apply HQ. now apply Q1.
Qed.

Definition starts_with_one (ps : list (list N)) (s : list N) : Prop := exists p r, In p ps /\ s = p ++ r.

(* a follow-up text (space, then something that is not the keyword) *)
Definition kw_skips (kw : list N) (p : list N) : bool :=
  match p with a :: c :: p' => (a =? 32) && negb (c =? 32) && mismatch kw (c :: p') | _ => false end.

Lemma kw_skips_spec kw ps s :
  starts_with_one ps s -> forallb (kw_skips kw) ps = true ->
  exists s', s = 32 :: s' /\ starts_not is_sp s' /\ mismatch kw s' = true.
Proof.
  intros (p & r & Hin & ->) Hall. rewrite forallb_forall in Hall. specialize (Hall p Hin).
  destruct p as [|a [|c p']]; try discriminate. unfold kw_skips in Hall.
  apply andb_true_iff in Hall. destruct Hall as [H0 H2]. apply andb_true_iff in H0. destruct H0 as [H0 H1].
  apply N.eqb_eq in H0. subst a. exists ((c :: p') ++ r). split; [reflexivity|]. split.
  - cbn. chr_tac.
  - now apply mismatch_app.
Qed.

Definition KWSEG (g gm : nat) (kw : list N) (P : rx) : rx := optg g (Cat SPr (lit kw (Cat SPr (Group gm P)))).

Lemma fresh_push lo g se cs : (g < lo)%nat -> fresh_from lo cs -> fresh_from lo ((g, se) :: cs).
Proof. intros Hg H i Hi. cbn [cap_lookup]. destruct (Nat.eqb_spec i g); [lia|now apply H]. Qed.
Lemma fresh_touch lo lo' hi cs cs' : (hi < lo)%nat -> only_touches lo' hi cs cs' -> fresh_from lo cs -> fresh_from lo cs'.
Proof. intros Hh T H i Hi. rewrite T by lia. now apply H. Qed.
Lemma fresh_weaken lo lo' cs : (lo <= lo')%nat -> fresh_from lo cs -> fresh_from lo' cs.
Proof. intros H F i Hi. apply F. lia. Qed.

Lemma tail_kw_present T txt lo Q g gm kw P ptext loP hiP (C : N -> bool) :
  tail_ok T txt lo Q ->
  (g < gm)%nat -> (gm < lo)%nat -> (gm < loP \/ hiP < loP)%nat -> (hiP < lo)%nat -> (lo <= 200)%nat ->
  starts_not is_sp (kw ++ [32]) -> starts_not is_sp ptext -> ptext <> [] ->
  (forall junk p c k', krej C k' -> eats P ptext (txt ++ junk) p c k' loP hiP) ->
  (forall x s p c, C x = true -> BT T (x :: s) p c kf = BNo) ->
  tail_ok (Cat (KWSEG g gm kw P) T) (([32] ++ kw ++ [32] ++ ptext) ++ txt) g
    (fun w c' => group_text w c' gm = Some ptext /\ Q w c').
Proof.
  intros HT Hg1 Hg2 Hg2' Hg3 Hg4 Hkw Hpt Hne HP HC w pre junk cs Hw.
  set (pos := length pre). set (p1 := (pos + 2 + length kw)%nat). set (p2 := (p1 + length ptext)%nat).
  assert (Hw' : w = (pre ++ [32] ++ kw ++ [32] ++ ptext) ++ txt ++ junk) by (rewrite Hw, <- !app_assoc; reflexivity).
  assert (Lp : length (pre ++ [32] ++ kw ++ [32] ++ ptext) = p2).
  { rewrite !app_length. cbn [length]. unfold p2, p1, pos. lia. }
  set (k := fun (s1 : list N) (p1 : nat) (c1 : caps) => BT T s1 p1 c1 kf).
  set (k2 := fun (s1 : list N) (pp : nat) (c1 : caps) => k s1 pp ((g, (pos, pp)) :: (gm, (p1, pp)) :: c1)).
  assert (Hk2 : krej C k2) by (intros x s p c Hx; apply HC; exact Hx).
  assert (Hall : forall p c, BT T (txt ++ junk) p c kf <> BNo).
  { intros p c. destruct (HT (repeat 0 p ++ txt ++ junk) (repeat 0 p) junk c eq_refl) as (c'' & _ & E & _).
    rewrite repeat_length in E. rewrite E. discriminate. }
  destruct (HP junk p1 cs k2 Hk2) as (c3 & T3 & E3).
  { intros c'. unfold k2, k. apply Hall. }
  destruct (HT w _ junk ((g, (pos, p2)) :: (gm, (p1, p2)) :: c3) Hw') as (c' & T' & E' & Q'). rewrite Lp in E'.
  exists c'. split; [|split].
  - intros i Hi. rewrite T' by lia. cbn [cap_lookup].
    destruct (Nat.eqb_spec i g); [lia|]. destruct (Nat.eqb_spec i gm); [lia|]. apply T3. lia.
  - rewrite BT_cat. unfold KWSEG, optg. rewrite BT_alt, BT_group, BT_cat.
    rewrite <- !app_assoc. cbn [app]. rewrite BT_SP1.
    2: { destruct kw as [|c kw']; [exact Hkw|exact Hkw]. }
    rewrite BT_lit, BT_cat. cbn [app]. rewrite BT_SP1.
    2: { destruct ptext as [|c pt]; [congruence|exact Hpt]. }
    rewrite BT_group. fold pos. replace (S (S pos + length kw)) with p1 by (unfold p1; lia).
    unfold k2, k in E3. cbv beta in E3. rewrite E3. fold p2.
    rewrite E'. f_equal. unfold p2, p1. cbn [length]. rewrite !app_length. cbn [length]. rewrite !app_length. lia.
  - intros Hf. split.
    + unfold group_text. rewrite T' by lia. cbn [cap_lookup]. destruct (Nat.eqb_spec gm g); [lia|]. rewrite Nat.eqb_refl.
      f_equal. rewrite Hw. replace (pre ++ (([32] ++ kw ++ [32] ++ ptext) ++ txt) ++ junk) with ((pre ++ [32] ++ kw ++ [32]) ++ ptext ++ (txt ++ junk)).
      2: { rewrite <- ?app_assoc. cbn [app]. rewrite <- ?app_assoc. reflexivity. }
      apply slice_mid; [|unfold p2; f_equal]; rewrite !app_length; cbn [length]; unfold p1, pos; lia.
    + apply Q'.
      apply fresh_push; [lia|]. apply fresh_push; [lia|]. apply (fresh_touch lo loP hiP cs); [lia|assumption|]. apply (fresh_weaken g); [lia|assumption].
Qed.

Lemma tail_kw_absent T txt lo Q g gm kw P ps :
  tail_ok T txt lo Q -> (g < gm)%nat -> (gm < lo)%nat ->
  (forall junk, starts_with_one ps (txt ++ junk)) -> forallb (kw_skips kw) ps = true ->
  tail_ok (Cat (KWSEG g gm kw P) T) txt g (fun w c' => group_text w c' gm = None /\ Q w c').
Proof.
  intros HT Hg1 Hg2 Hps Hsk w pre junk cs Hw. destruct (HT w pre junk cs Hw) as (c' & T' & E' & Q').
  exists c'. split; [|split].
  - apply (only_touches_wider lo 200); [lia|lia|exact T'].
  - rewrite BT_cat. unfold KWSEG, optg. rewrite BT_opt_none; [exact E'|]. intros k'.
    destruct (kw_skips_spec kw ps _ (Hps junk) Hsk) as (s' & -> & Hs' & Hm).
    rewrite BT_group, BT_cat, BT_SP1 by assumption. now apply lit_no.
  - intros Hf. split.
    + unfold group_text. rewrite T' by lia. rewrite Hf by lia. reflexivity.
    + apply Q'. apply (fresh_weaken g); [lia|assumption].
Qed.

Definition FLAGSEG (g : nat) (kw : list N) : rx := optg g (Cat SPr (lit' kw)).

Lemma tail_flag_present T txt lo Q g kw :
  tail_ok T txt lo Q -> (g < lo)%nat -> (lo <= 200)%nat -> kw <> [] -> starts_not is_sp kw ->
  tail_ok (Cat (FLAGSEG g kw) T) (([32] ++ kw) ++ txt) g
    (fun w c' => group_text w c' g = Some ([32] ++ kw) /\ Q w c').
Proof.
  intros HT Hg Hg200 Hne Hkw w pre junk cs Hw.
  set (pos := length pre). set (p2 := (pos + 1 + length kw)%nat).
  assert (Hw' : w = (pre ++ [32] ++ kw) ++ txt ++ junk) by (rewrite Hw, <- !app_assoc; reflexivity).
  assert (Lp : length (pre ++ [32] ++ kw) = p2) by (rewrite !app_length; cbn [length]; unfold p2, pos; lia).
  destruct (HT w _ junk ((g, (pos, p2)) :: cs) Hw') as (c' & T' & E' & Q'). rewrite Lp in E'.
  exists c'. split; [|split].
  - intros i Hi. rewrite T' by lia. cbn [cap_lookup]. destruct (Nat.eqb_spec i g); [lia|reflexivity].
  - rewrite BT_cat. unfold FLAGSEG, optg. rewrite BT_alt, BT_group, BT_cat. rewrite <- !app_assoc. cbn [app].
    rewrite BT_SP1 by (destruct kw; [congruence|exact Hkw]). rewrite BT_lit' by assumption. fold pos.
    replace (S pos + length kw)%nat with p2 by (unfold p2; lia). rewrite E'. f_equal. unfold p2. cbn [length]. rewrite !app_length. lia.
  - intros Hf. split.
    + unfold group_text. rewrite T' by lia. rewrite cap_lookup_push. f_equal. rewrite Hw.
      replace (pre ++ (([32] ++ kw) ++ txt) ++ junk) with (pre ++ ([32] ++ kw) ++ (txt ++ junk)) by (rewrite <- !app_assoc; reflexivity).
      apply slice_mid; [reflexivity|]. unfold p2, pos. rewrite app_length. cbn [length]. lia.
    + apply Q'. apply fresh_push; [lia|]. apply (fresh_weaken g); [lia|assumption].
Qed.

Lemma tail_flag_absent T txt lo Q g kw ps :
  tail_ok T txt lo Q -> (g < lo)%nat ->
  (forall junk, starts_with_one ps (txt ++ junk)) -> forallb (kw_skips kw) ps = true ->
  tail_ok (Cat (FLAGSEG g kw) T) txt g (fun w c' => group_text w c' g = None /\ Q w c').
Proof.
  intros HT Hg Hps Hsk w pre junk cs Hw. destruct (HT w pre junk cs Hw) as (c' & T' & E' & Q').
  exists c'. split; [|split].
  - apply (only_touches_wider lo 200); [lia|lia|exact T'].
  - rewrite BT_cat. unfold FLAGSEG, optg. rewrite BT_opt_none; [exact E'|]. intros k'.
    destruct (kw_skips_spec kw ps _ (Hps junk) Hsk) as (s' & -> & Hs' & Hm).
    rewrite BT_group, BT_cat, BT_SP1 by assumption. now apply lit'_no.
  - intros Hf. split.
    + unfold group_text. rewrite T' by lia. rewrite Hf by lia. reflexivity.
    + apply Q'. apply (fresh_weaken g); [lia|assumption].
Qed.

(* an optional "SP (payload)" whose payload is present *)
Definition GRPSEG (g gm : nat) (P : rx) : rx := optg g (Cat SPr (Group gm P)).

Lemma tail_grp_present T txt lo Q g gm P ptext :
  tail_ok T txt lo Q -> (g < gm)%nat -> (gm < lo)%nat -> (lo <= 200)%nat ->
  starts_not is_sp ptext -> ptext <> [] ->
  (forall junk p c k', eats P ptext (txt ++ junk) p c k' 1 0) ->
  tail_ok (Cat (GRPSEG g gm P) T) (([32] ++ ptext) ++ txt) g
    (fun w c' => group_text w c' gm = Some ptext /\ Q w c').
Proof.
  intros HT Hg1 Hg2 Hg200 Hpt Hne HP w pre junk cs Hw.
  set (pos := length pre). set (p1 := (pos + 1)%nat). set (p2 := (p1 + length ptext)%nat).
  assert (Hw' : w = (pre ++ [32] ++ ptext) ++ txt ++ junk) by (rewrite Hw, <- !app_assoc; reflexivity).
  assert (Lp : length (pre ++ [32] ++ ptext) = p2) by (rewrite !app_length; cbn [length]; unfold p2, p1, pos; lia).
  set (k2 := fun (s1 : list N) (pp : nat) (c1 : caps) => BT T s1 pp ((g, (pos, pp)) :: (gm, (p1, pp)) :: c1) kf).
  assert (Hall : forall p c, BT T (txt ++ junk) p c kf <> BNo).
  { intros p c. destruct (HT (repeat 0 p ++ txt ++ junk) (repeat 0 p) junk c eq_refl) as (c'' & _ & E & _).
    rewrite repeat_length in E. rewrite E. discriminate. }
  destruct (HP junk p1 cs k2) as (c3 & T3 & E3).
  { intros c'. unfold k2. apply Hall. }
  destruct (HT w _ junk ((g, (pos, p2)) :: (gm, (p1, p2)) :: c3) Hw') as (c' & T' & E' & Q'). rewrite Lp in E'.
  exists c'. split; [|split].
  - intros i Hi. rewrite T' by lia. cbn [cap_lookup].
    destruct (Nat.eqb_spec i g); [lia|]. destruct (Nat.eqb_spec i gm); [lia|]. apply T3. lia.
  - rewrite BT_cat. unfold GRPSEG, optg. rewrite BT_alt, BT_group, BT_cat. rewrite <- !app_assoc. cbn [app].
    rewrite BT_SP1 by (destruct ptext; [congruence|exact Hpt]). rewrite BT_group. fold pos.
    replace (S pos) with p1 by (unfold p1; lia). unfold k2 in E3. rewrite E3. fold p2. rewrite E'.
    f_equal. unfold p2, p1. cbn [length]. rewrite !app_length. lia.
  - intros Hf. split.
    + unfold group_text. rewrite T' by lia. cbn [cap_lookup]. destruct (Nat.eqb_spec gm g); [lia|]. rewrite Nat.eqb_refl.
      f_equal. rewrite Hw. replace (pre ++ (([32] ++ ptext) ++ txt) ++ junk) with ((pre ++ [32]) ++ ptext ++ (txt ++ junk)) by (rewrite <- !app_assoc; reflexivity).
      apply slice_mid; [|unfold p2; f_equal]; rewrite !app_length; cbn [length]; unfold p1, pos; lia.
    + apply Q'. apply fresh_push; [lia|]. apply fresh_push; [lia|]. intros i Hi. rewrite T3 by lia. apply Hf. lia.
Qed.
