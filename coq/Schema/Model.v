(* Model of schema.py: the three description classes, from_string (one big generated regex with
   named groups, then strip/split post-processing) and __str__.  Strings are code-point lists. *)
From Coq Require Import ZArith NArith List Bool Arith.
From SV Require Import Base.Py Rx.Syntax Gen.Generated.
Import ListNotations.
Local Open Scope N_scope.

Definition ustr := list N.
Definition ch (c : N) := c.
Definition SQ : N := 39.   Definition SPC : N := 32.  Definition LP : N := 40.  Definition RP : N := 41.
Definition DOLLAR : N := 36. Definition BSL : N := 92. Definition LCURLY : N := 123. Definition RCURLY : N := 125.

Definition neqb (a b : N) := N.eqb a b.
Fixpoint ueqb (a b : ustr) : bool :=
  match a, b with
  | [], [] => true
  | x :: a', y :: b' => N.eqb x y && ueqb a' b'
  | _, _ => false
  end.
Definition memc (c : N) (cs : list N) : bool := existsb (N.eqb c) cs.

(* str.strip(chars) / lstrip *)
Fixpoint lstrip_chars (cs : list N) (s : ustr) : ustr :=
  match s with c :: r => if memc c cs then lstrip_chars cs r else s | [] => [] end.
Definition strip_chars (cs : list N) (s : ustr) : ustr := rev (lstrip_chars cs (rev (lstrip_chars cs s))).
(* str.strip() with no argument: whitespace *)
Definition is_ws (c : N) : bool := existsb (N.eqb c) isspace_table.
Fixpoint lstrip_ws (s : ustr) : ustr := match s with c :: r => if is_ws c then lstrip_ws r else s | [] => [] end.
Definition strip_ws (s : ustr) : ustr := rev (lstrip_ws (rev (lstrip_ws s))).

(* str.split(sep) for a one-character separator *)
Fixpoint usplit_aux (sep : N) (s cur : ustr) : list ustr :=
  match s with
  | [] => [rev cur]
  | c :: r => if N.eqb c sep then rev cur :: usplit_aux sep r [] else usplit_aux sep r (c :: cur)
  end.
Definition usplit (sep : N) (s : ustr) : list ustr := usplit_aux sep s [].

(* str.split(sep, 1): (before, after) or None when sep does not occur *)
Fixpoint usplit1_aux (sep : N) (s cur : ustr) : option (ustr * ustr) :=
  match s with
  | [] => None
  | c :: r => if N.eqb c sep then Some (rev cur, r) else usplit1_aux sep r (c :: cur)
  end.
Definition usplit1 (sep : N) (s : ustr) : option (ustr * ustr) := usplit1_aux sep s [].

Definition starts_with (c : N) (s : ustr) : bool := match s with x :: _ => N.eqb x c | [] => false end.

Fixpoint ujoin (sep : ustr) (l : list ustr) : ustr :=
  match l with [] => [] | [x] => x | x :: r => x ++ sep ++ ujoin sep r end.

(* ---- helpers of schema.py *)
(* _encode_oids *)
Definition encode_oids (v : list ustr) : ustr :=
  match v with
  | [x] => x
  | _ => [LP; SPC] ++ ujoin [SPC; DOLLAR; SPC] v ++ [SPC; RP]
  end.

Definition hexdigit (n : N) : N := if (n <? 10)%N then (48 + n)%N else (87 + n)%N.
(* f"\\{ord(c):02x}" *)
Definition esc_repl (m : list N) : option (list N) :=
  match m with
  | [c] => Some (BSL :: (if (c <? 256)%N then [hexdigit (c / 16); hexdigit (c mod 16)]
                          else (* wider than two hex digits: not produced by the library's class *) []))
  | _ => None
  end.
(* _encode_qdstring *)
Definition encode_qdstring (v : ustr) : res ustr :=
  match re_sub rx_qd_escape esc_repl v with
  | Some (Some out) => Ok ([SQ] ++ out ++ [SQ])
  | Some None => Raise ValueErr
  | None => Raise (Crash OutOfFuel)
  end.

(* _parse_oids *)
Definition parse_oids (v : option ustr) : list ustr :=
  match v with
  | None | Some [] => []
  | Some s => map strip_ws (usplit DOLLAR (strip_chars [LP; RP; SPC] s))
  end.

Definition hexval (c : N) : option N :=
  if ((48 <=? c) && (c <=? 57))%N then Some (c - 48)%N
  else if ((97 <=? c) && (c <=? 102))%N then Some (c - 87)%N
  else if ((65 <=? c) && (c <=? 70))%N then Some (c - 55)%N
  else None.
(* base64.b16decode(m[1:].upper()).decode() *)
Definition unesc_repl (m : list N) : option (list N) :=
  match m with
  | [_; h; l] => match hexval h, hexval l with
                 | Some a, Some b => if (a * 16 + b <? 128)%N then Some [(a * 16 + b)%N] else None
                 | _, _ => None
                 end
  | _ => None
  end.
(* _parse_qdstring on a non-None value *)
Definition parse_qdstring (v : ustr) : res ustr :=
  match re_sub rx_qd_unescape unesc_repl (strip_chars [SQ] v) with
  | Some (Some out) => Ok out
  | Some None => Raise ValueErr
  | None => Raise (Crash OutOfFuel)
  end.
Definition parse_qdstring_opt (v : option ustr) : res (option ustr) :=
  match v with None => Ok None | Some s => x <- parse_qdstring s ;; Ok (Some x) end.

(* dict[key] = value *)
Fixpoint dict_set (k : ustr) (v : list ustr) (d : list (ustr * list ustr)) : list (ustr * list ustr) :=
  match d with
  | [] => [(k, v)]
  | (k', v') :: r => if ueqb k k' then (k', v) :: r else (k', v') :: dict_set k v r
  end.

(* _extract_qdstring: value[1:].split("'", 1) -> (parsed entry, remaining.lstrip(" ")) *)
Definition extract_qdstring (v : ustr) : res (ustr * ustr) :=
  match usplit1 SQ (tl v) with
  | None => Raise ValueErr                       (* tuple unpacking of a 1-element list *)
  | Some (entry, remaining) => p <- parse_qdstring entry ;; Ok (p, lstrip_chars [SPC] remaining)
  end.

(* _parse_extensions *)
Fixpoint ext_list_loop (fuel : nat) (remaining : ustr) (acc : list ustr) : res (list ustr * ustr) :=
  match fuel with
  | O => Raise (Crash OutOfFuel)
  | S f =>
      if starts_with RP remaining then Ok (acc, remaining)
      else '(e, r) <- extract_qdstring remaining ;; ext_list_loop f r (acc ++ [e])
  end.

Fixpoint ext_loop (fuel : nat) (value : ustr) (d : list (ustr * list ustr)) : res (list (ustr * list ustr)) :=
  match fuel with
  | O => Raise (Crash OutOfFuel)
  | S f =>
      match value with
      | [] => Ok d
      | _ =>
          match usplit1 SPC (lstrip_chars [SPC] value) with
          | None => Raise ValueErr
          | Some (key, remaining) =>
              let key := skipn 2%nat key in
              let remaining := lstrip_chars [SPC] remaining in
              if starts_with LP remaining then
                let remaining := lstrip_chars [SPC] (tl remaining) in
                '(entries, rest) <- ext_list_loop (S (length remaining)) remaining [] ;;
                ext_loop f (tl rest) (dict_set key entries d)
              else
                '(e, rest) <- extract_qdstring remaining ;;
                ext_loop f rest (dict_set key [e] d)
          end
      end
  end.

Definition parse_extensions (v : option ustr) : res (list (ustr * list ustr)) :=
  match v with
  | None | Some [] => Ok []
  | Some s => let s := lstrip_chars [SPC] s in ext_loop (S (length s)) s []
  end.

(* names: [n.strip("'") for n in names.strip("()").split(" ") if n] if names else [] *)
Definition parse_names (v : option ustr) : list ustr :=
  match v with
  | None | Some [] => []
  | Some s => map (strip_chars [SQ])
                (List.filter (fun n => match n with [] => false | _ => true end)
                   (usplit SPC (strip_chars [LP; RP] s)))
  end.

(* ---- the three description types *)
Record objclass := mkOC {
  oc_oid : ustr; oc_names : list ustr; oc_desc : option ustr; oc_obsolete : bool;
  oc_sup : list ustr; oc_kind : N;   (* 0 ABSTRACT 1 STRUCTURAL 2 AUXILIARY *)
  oc_must : list ustr; oc_may : list ustr; oc_ext : list (ustr * list ustr) }.

Record attrtype := mkAT {
  at_oid : ustr; at_names : list ustr; at_desc : option ustr; at_obsolete : bool;
  at_sup : option ustr; at_equality : option ustr; at_ordering : option ustr; at_substr : option ustr;
  at_syntax : option ustr; at_syntax_len : option Z;
  at_single : bool; at_collective : bool; at_no_user_mod : bool;
  at_usage : N;    (* 0 userApplications 1 directoryOperation 2 distributedOperation 3 dSAOperation *)
  at_ext : list (ustr * list ustr) }.

Record ditrule := mkDCR {
  dc_oid : ustr; dc_names : list ustr; dc_desc : option ustr; dc_obsolete : bool;
  dc_aux : list ustr; dc_must : list ustr; dc_may : list ustr; dc_not : list ustr;
  dc_ext : list (ustr * list ustr) }.

Definition lit (s : list N) := s.
Definition s_ABSTRACT : ustr := [65;66;83;84;82;65;67;84].
Definition s_STRUCTURAL : ustr := [83;84;82;85;67;84;85;82;65;76].
Definition s_AUXILIARY : ustr := [65;85;88;73;76;73;65;82;89].
Definition s_userApplications : ustr := [117;115;101;114;65;112;112;108;105;99;97;116;105;111;110;115].
Definition s_directoryOperation : ustr := [100;105;114;101;99;116;111;114;121;79;112;101;114;97;116;105;111;110].
Definition s_distributedOperation : ustr := [100;105;115;116;114;105;98;117;116;101;100;79;112;101;114;97;116;105;111;110].
Definition s_dSAOperation : ustr := [100;83;65;79;112;101;114;97;116;105;111;110].

Definition grp (s : ustr) (cs : caps) (i : nat) : option ustr := group_text s cs i.
Definition truthy (o : option ustr) : bool := match o with Some (_ :: _) => true | _ => false end.

(* the fuel-exhausted matcher outcome is reported as a crash, no match as ValueError *)
Definition do_match (r : rx) (e : end_anchor) (s : ustr) : res caps :=
  match re_match r e s with
  | BYes _ cs => Ok cs
  | BNo => Raise ValueErr
  | BFuel => Raise (Crash OutOfFuel)
  end.

Definition oc_from_string (s : ustr) : res objclass :=
  cs <- do_match rx_object_class rx_object_class_end s ;;
  let g := grp s cs in
  let kind := match g rx_object_class_g_kind with
              | Some k => if ueqb k s_ABSTRACT then 0%N else if ueqb k s_AUXILIARY then 2%N else 1%N
              | None => 1%N
              end in
  desc <- parse_qdstring_opt (g rx_object_class_g_desc) ;;
  ext <- parse_extensions (g rx_object_class_g_extensions) ;;
  Ok (mkOC (match g rx_object_class_g_oid with Some o => o | None => [] end)
           (parse_names (g rx_object_class_g_name)) desc (truthy (g rx_object_class_g_obsolete))
           (parse_oids (g rx_object_class_g_sup)) kind
           (parse_oids (g rx_object_class_g_must)) (parse_oids (g rx_object_class_g_may)) ext).

(* int(str) for a string of ASCII digits *)
Definition int_of_digits (s : ustr) : Z := fold_left (fun acc c => (acc * 10 + Z.of_N (c - 48))%Z) s 0%Z.

(* the SYNTAX value: quotes stripped, then split into oid and {length} when it has that form *)
Definition split_syntax (raw : option ustr) : res (option ustr * option Z) :=
  match raw with
  | Some ((_ :: _) as raw) =>
      let syn := strip_chars [SQ] raw in
      match re_match rx_noidlen rx_noidlen_end syn with
      | BYes _ c2 =>
          match group_text syn c2 rx_noidlen_g_value, group_text syn c2 rx_noidlen_g_len with
          | Some v, Some l => Ok (Some v, Some (int_of_digits l))
          | _, _ => Raise (Crash IndexErr)
          end
      | BNo => Ok (Some syn, None)
      | BFuel => Raise (Crash OutOfFuel)
      end
  | _ => Ok (None, None)
  end.
Definition restrip_syntax (syntax : option ustr) : option ustr :=
  match syntax with
  | Some ((_ :: _) as x) => Some (strip_chars [SQ] x)
  | _ => None
  end.

Definition at_from_string (s : ustr) : res attrtype :=
  cs <- do_match rx_attribute_type rx_attribute_type_end s ;;
  let g := grp s cs in
  '(syntax, slen) <- split_syntax (g rx_attribute_type_g_syntax) ;;
  let syntax := restrip_syntax syntax in
  let usage := match g rx_attribute_type_g_usage with
               | Some u => if ueqb u s_directoryOperation then 1%N
                           else if ueqb u s_distributedOperation then 2%N
                           else if ueqb u s_dSAOperation then 3%N else 0%N
               | None => 0%N
               end in
  desc <- parse_qdstring_opt (g rx_attribute_type_g_desc) ;;
  ext <- parse_extensions (g rx_attribute_type_g_extensions) ;;
  Ok (mkAT (match g rx_attribute_type_g_oid with Some o => o | None => [] end)
           (parse_names (g rx_attribute_type_g_name)) desc (truthy (g rx_attribute_type_g_obsolete))
           (g rx_attribute_type_g_sup) (g rx_attribute_type_g_equality) (g rx_attribute_type_g_ordering)
           (g rx_attribute_type_g_substr) syntax slen
           (truthy (g rx_attribute_type_g_single_value)) (truthy (g rx_attribute_type_g_collective))
           (truthy (g rx_attribute_type_g_no_user_modification)) usage ext).

Definition dcr_from_string (s : ustr) : res ditrule :=
  cs <- do_match rx_dit_content_rule rx_dit_content_rule_end s ;;
  let g := grp s cs in
  desc <- parse_qdstring_opt (g rx_dit_content_rule_g_desc) ;;
  ext <- parse_extensions (g rx_dit_content_rule_g_extensions) ;;
  Ok (mkDCR (match g rx_dit_content_rule_g_oid with Some o => o | None => [] end)
            (parse_names (g rx_dit_content_rule_g_name)) desc (truthy (g rx_dit_content_rule_g_obsolete))
            (parse_oids (g rx_dit_content_rule_g_aux)) (parse_oids (g rx_dit_content_rule_g_must))
            (parse_oids (g rx_dit_content_rule_g_may)) (parse_oids (g rx_dit_content_rule_g_not)) ext).

(* ---- __str__ *)
Definition kw (s : list N) : ustr := s.
Definition k_NAME : ustr := [32;78;65;77;69;32].          (* " NAME " *)
Definition k_DESC : ustr := [32;68;69;83;67;32].
Definition k_OBSOLETE : ustr := [32;79;66;83;79;76;69;84;69].
Definition k_SUP : ustr := [32;83;85;80;32].
Definition k_MUST : ustr := [32;77;85;83;84;32].
Definition k_MAY : ustr := [32;77;65;89;32].
Definition k_AUX : ustr := [32;65;85;88;32].
Definition k_NOT : ustr := [32;78;79;84;32].
Definition k_EQUALITY : ustr := [32;69;81;85;65;76;73;84;89;32].
Definition k_ORDERING : ustr := [32;79;82;68;69;82;73;78;71;32].
Definition k_SUBSTR : ustr := [32;83;85;66;83;84;82;32].
Definition k_SYNTAX : ustr := [32;83;89;78;84;65;88;32].
Definition k_SINGLE : ustr := [32;83;73;78;71;76;69;45;86;65;76;85;69].
Definition k_COLLECTIVE : ustr := [32;67;79;76;76;69;67;84;73;86;69].
Definition k_NOUSERMOD : ustr := [32;78;79;45;85;83;69;82;45;77;79;68;73;70;73;67;65;84;73;79;78].
Definition k_USAGE : ustr := [32;85;83;65;71;69;32].
Definition k_X : ustr := [32;88;45].                      (* " X-" *)

Definition print_names (names : list ustr) : ustr :=
  match names with
  | [] => []
  | [n] => k_NAME ++ [SQ] ++ n ++ [SQ]
  | _ => k_NAME ++ [LP; SPC; SQ] ++ ujoin [SQ; SPC; SQ] names ++ [SQ; SPC; RP]
  end.

Fixpoint map_res {A B} (f : A -> res B) (l : list A) : res (list B) :=
  match l with [] => Ok [] | x :: r => y <- f x ;; ys <- map_res f r ;; Ok (y :: ys) end.

Definition print_desc (d : option ustr) : res ustr :=
  match d with None => Ok [] | Some s => q <- encode_qdstring s ;; Ok (k_DESC ++ q) end.

Definition print_oids (k : ustr) (l : list ustr) : ustr := match l with [] => [] | _ => k ++ encode_oids l end.

Fixpoint print_ext (e : list (ustr * list ustr)) : res ustr :=
  match e with
  | [] => Ok []
  | (a, vs) :: r =>
      qs <- map_res encode_qdstring vs ;;
      rest <- print_ext r ;;
      match qs with
      | [q] => Ok (k_X ++ a ++ [SPC] ++ q ++ rest)
      | _ => Ok (k_X ++ a ++ [SPC; LP; SPC] ++ ujoin [SPC] qs ++ [SPC; RP] ++ rest)
      end
  end.

Definition wrap (oid : ustr) (body : ustr) : ustr := [LP; SPC] ++ oid ++ body ++ [SPC; RP].

Definition oc_print (o : objclass) : res ustr :=
  d <- print_desc (oc_desc o) ;;
  e <- print_ext (oc_ext o) ;;
  Ok (wrap (oc_oid o)
        (print_names (oc_names o) ++ d ++ (if oc_obsolete o then k_OBSOLETE else [])
         ++ print_oids k_SUP (oc_sup o)
         ++ [SPC] ++ (match oc_kind o with 0%N => s_ABSTRACT | 2%N => s_AUXILIARY | _ => s_STRUCTURAL end)
         ++ print_oids k_MUST (oc_must o) ++ print_oids k_MAY (oc_may o) ++ e)).

Definition opt_kw (k : ustr) (o : option ustr) : ustr := match o with Some v => k ++ v | None => [] end.

(* str(int) *)
Fixpoint digits_pos (fuel : nat) (n : N) (acc : ustr) : ustr :=
  match fuel with
  | O => acc
  | S f => if (n <? 10)%N then (48 + n)%N :: acc else digits_pos f (n / 10)%N ((48 + n mod 10)%N :: acc)
  end.
Definition str_of_int (z : Z) : ustr :=
  match z with
  | Z0 => [48%N]
  | Zpos p => digits_pos (S (N.to_nat (N.log2 (Npos p)))) (Npos p) []
  | Zneg p => 45%N :: digits_pos (S (N.to_nat (N.log2 (Npos p)))) (Npos p) []
  end.

Definition at_print (a : attrtype) : res ustr :=
  d <- print_desc (at_desc a) ;;
  e <- print_ext (at_ext a) ;;
  Ok (wrap (at_oid a)
        (print_names (at_names a) ++ d ++ (if at_obsolete a then k_OBSOLETE else [])
         ++ opt_kw k_SUP (at_sup a) ++ opt_kw k_EQUALITY (at_equality a) ++ opt_kw k_ORDERING (at_ordering a)
         ++ opt_kw k_SUBSTR (at_substr a)
         ++ (match at_syntax a with
             | Some s => k_SYNTAX ++ s ++ (match at_syntax_len a with
                                           | Some l => [LCURLY] ++ str_of_int l ++ [RCURLY]
                                           | None => [] end)
             | None => []
             end)
         ++ (if at_single a then k_SINGLE else []) ++ (if at_collective a then k_COLLECTIVE else [])
         ++ (if at_no_user_mod a then k_NOUSERMOD else [])
         ++ (match at_usage a with
             | 1%N => k_USAGE ++ s_directoryOperation
             | 2%N => k_USAGE ++ s_distributedOperation
             | 3%N => k_USAGE ++ s_dSAOperation
             | _ => []
             end)
         ++ e)).

Definition dcr_print (o : ditrule) : res ustr :=
  d <- print_desc (dc_desc o) ;;
  e <- print_ext (dc_ext o) ;;
  Ok (wrap (dc_oid o)
        (print_names (dc_names o) ++ d ++ (if dc_obsolete o then k_OBSOLETE else [])
         ++ print_oids k_AUX (dc_aux o) ++ print_oids k_MUST (dc_must o) ++ print_oids k_MAY (dc_may o)
         ++ print_oids k_NOT (dc_not o) ++ e)).
