(* C16 for object classes: the text written by __str__ is matched by the generated pattern with every
   field in its capture group, and the fields read back give the original description. *)
From Coq Require Import NArith List Bool Arith Lia ZifyBool.
From SV Require Import Base.Py Rx.Syntax Rx.Lemmas Rx.Bt Gen.Generated Schema.Model Schema.Proofs Schema.Regex Schema.Match Schema.Chain.
Import ListNotations.
Local Open Scope N_scope.

Definition kind_text (k : N) : ustr := match k with 0 => s_ABSTRACT | 2 => s_AUXILIARY | _ => s_STRUCTURAL end.
Lemma kind_text_cases k : kind_text k = s_ABSTRACT \/ kind_text k = s_STRUCTURAL \/ kind_text k = s_AUXILIARY.
Proof. destruct k as [|[p|[p|p|]|]]; cbn [kind_text]; auto. Qed.

(* ---- the parts after OBSOLETE, from the closing parenthesis backwards *)
Definition t7 may e := oids_seg s_MAY may ++ t8 e.
Definition t6 must may e := oids_seg s_MUST must ++ t7 may e.
Definition t5 kind must may e := ([32] ++ kind_text kind) ++ t6 must may e.
Definition t4 sup kind must may e := oids_seg s_SUP sup ++ t5 kind must may e.

Definition F7 := ([32] ++ s_MAY ++ [32]) :: F8.
Definition F5 : list (list N) := [[32] ++ s_ABSTRACT; [32] ++ s_STRUCTURAL; [32] ++ s_AUXILIARY].
Definition F4 := ([32] ++ s_SUP ++ [32]) :: F5.

Lemma follow7 may e junk : starts_with_one F7 (t7 may e ++ junk).
Proof. apply oids_seg_follow, follow8. Qed.
Lemma follow5 kind must may e junk : starts_with_one F5 (t5 kind must may e ++ junk).
Proof.
  unfold t5, F5. rewrite <- !app_assoc. destruct (kind_text_cases kind) as [-> | [-> | ->]].
  - exists ([32] ++ s_ABSTRACT); eexists; split; [now left|rewrite <- app_assoc; reflexivity].
  - exists ([32] ++ s_STRUCTURAL); eexists; split; [right; now left|rewrite <- app_assoc; reflexivity].
  - exists ([32] ++ s_AUXILIARY); eexists; split; [right; right; now left|rewrite <- app_assoc; reflexivity].
Qed.
Lemma follow4 sup kind must may e junk : starts_with_one F4 (t4 sup kind must may e ++ junk).
Proof. apply oids_seg_follow, follow5. Qed.

Definition Q8 e (w : list N) (c : caps) := group_text w c 91 = Some (ext_text e).
Definition Q7 may e w c := group_text w c 69 = opt_oids may /\ Q8 e w c.
Definition Q6 must may e w c := group_text w c 46 = opt_oids must /\ Q7 may e w c.
Definition Q5 kind must may e w c := group_text w c 44 = Some (kind_text kind) /\ Q6 must may e w c.
Definition Q4 sup kind must may e w c := group_text w c 21 = opt_oids sup /\ Q5 kind must may e w c.

Lemma first_tail8 x : first OC_tail8 x = sp_or_close x.
Proof. apply (first_ext_tail 91). Qed.
Lemma first_tail7 x : first OC_tail7 x = sp_or_close x.
Proof. apply first_opt_then, first_tail8. Qed.
Lemma first_tail6 x : first OC_tail6 x = sp_or_close x.
Proof. apply first_opt_then, first_tail7. Qed.
Lemma first_tail5 x : first OC_tail5 x = sp_or_close x.
Proof. apply first_opt_then, first_tail6. Qed.
Lemma first_tail4 x : first OC_tail4 x = sp_or_close x.
Proof. apply first_opt_then, first_tail5. Qed.

Lemma oc_t8 e : Forall ext_ok e -> tail_ok OC_tail8 (t8 e) 91 (Q8 e).
Proof. intros He. apply (ext_tail 91); [lia|assumption]. Qed.

Lemma oc_t7 may e : Forall oid_ok may -> Forall ext_ok e -> tail_ok OC_tail7 (t7 may e) 68 (Q7 may e).
Proof.
  intros Hm He. unfold OC_tail7, t7, Q7.
  apply (oids_part OC_tail8 (t8 e) 91 (Q8 e) 68 69 s_MAY may F8); try reflexivity; try lia; try assumption.
  - now apply oc_t8.
  - intros junk. apply follow8.
  - apply first_tail8.
Qed.

Lemma oc_t6 must may e : Forall oid_ok must -> Forall oid_ok may -> Forall ext_ok e ->
  tail_ok OC_tail6 (t6 must may e) 45 (Q6 must may e).
Proof.
  intros Hu Hm He. unfold OC_tail6, t6, Q6.
  apply (oids_part OC_tail7 (t7 may e) 68 (Q7 may e) 45 46 s_MUST must F7); try reflexivity; try lia; try assumption.
  - now apply oc_t7.
  - intros junk. apply follow7.
  - apply first_tail7.
Qed.

Lemma m_KIND kind rest pos cs k : eats KINDr (kind_text kind) rest pos cs k 1 0.
Proof.
  unfold KINDr. destruct (kind_text_cases kind) as [-> | [-> | ->]].
  - apply eats_alt_l. apply eats_lit'. discriminate.
  - apply eats_alt_r; [apply lit'_no; apply mismatch_app; reflexivity|]. apply eats_alt_l. apply eats_lit'. discriminate.
  - apply eats_alt_r; [apply lit'_no; apply mismatch_app; reflexivity|].
    apply eats_alt_r; [apply lit'_no; apply mismatch_app; reflexivity|]. apply eats_lit'. discriminate.
Qed.

Lemma oc_t5 kind must may e : Forall oid_ok must -> Forall oid_ok may -> Forall ext_ok e ->
  tail_ok OC_tail5 (t5 kind must may e) 43 (Q5 kind must may e).
Proof.
  intros Hu Hm He. unfold OC_tail5, t5, Q5.
  apply (tail_grp_present OC_tail6 (t6 must may e) 45 (Q6 must may e) 43 44 KINDr (kind_text kind)); try lia.
  - now apply oc_t6.
  - destruct (kind_text_cases kind) as [-> | [-> | ->]]; reflexivity.
  - destruct (kind_text_cases kind) as [-> | [-> | ->]]; discriminate.
  - intros junk p c k'. apply m_KIND.
Qed.

Lemma oc_t4 sup kind must may e : Forall oid_ok sup -> Forall oid_ok must -> Forall oid_ok may -> Forall ext_ok e ->
  tail_ok OC_tail4 (t4 sup kind must may e) 20 (Q4 sup kind must may e).
Proof.
  intros Hs Hu Hm He. unfold OC_tail4, t4, Q4.
  apply (oids_part OC_tail5 (t5 kind must may e) 43 (Q5 kind must may e) 20 21 s_SUP sup F5); try reflexivity; try lia; try assumption.
  - now apply oc_t5.
  - intros junk. apply follow5.
  - apply first_tail5.
Qed.

(* ---- the description as a whole *)
Record wf_oc (o : objclass) : Prop := {
  w_oid : numoid_ok (oc_oid o);
  w_names : Forall descr_ok (oc_names o);
  w_desc : match oc_desc o with Some v => v <> [] | None => True end;
  w_sup : Forall oid_ok (oc_sup o);
  w_kind : oc_kind o = 0 \/ oc_kind o = 1 \/ oc_kind o = 2;
  w_must : Forall oid_ok (oc_must o);
  w_may : Forall oid_ok (oc_may o);
  w_ext : Forall ext_ok (oc_ext o);
  w_keys : NoDup (keys_of (oc_ext o)) }.

Definition oc_text_of (o : objclass) : list N :=
  head_text (t4 (oc_sup o) (oc_kind o) (oc_must o) (oc_may o) (oc_ext o)) (oc_oid o) (oc_names o) (oc_desc o) (oc_obsolete o).

Lemma oc_print_text o : oc_print o = Ok (oc_text_of o).
Proof.
  unfold oc_print. rewrite print_desc_seg. cbn [bind]. rewrite print_ext_spec. cbn [bind]. f_equal.
  unfold oc_text_of, head_text, h1, h2, h3, flag_seg, wrap, t4, t5, t6, t7, t8, ext_text.
  rewrite print_names_seg, (print_oids_seg k_SUP s_SUP), (print_oids_seg k_MUST s_MUST), (print_oids_seg k_MAY s_MAY) by reflexivity.
  change (match oc_kind o with 0 => s_ABSTRACT | 2 => s_AUXILIARY | _ => s_STRUCTURAL end) with (kind_text (oc_kind o)).
  change (if oc_obsolete o then k_OBSOLETE else []) with (if oc_obsolete o then [32] ++ s_OBSOLETE else []).
  change [LP; SPC] with [40; 32]. change [SPC; RP] with [32; 41]. change [SPC] with [32].
  rewrite <- !app_assoc. reflexivity.
Qed.

Theorem oc_round_trip o : wf_oc o -> exists s, oc_print o = Ok s /\ oc_from_string s = Ok o.
Proof.
  intros [Ho Hn Hd Hs Hk Hu Hm He Hnd]. exists (oc_text_of o). split; [apply oc_print_text|].
  destruct (head_match OC_tail4 (t4 (oc_sup o) (oc_kind o) (oc_must o) (oc_may o) (oc_ext o))
              (Q4 (oc_sup o) (oc_kind o) (oc_must o) (oc_may o) (oc_ext o)) F4
              (oc_t4 _ _ _ _ _ Hs Hu Hm He) (follow4 _ _ _ _ _) eq_refl eq_refl eq_refl eq_refl eq_refl first_tail4
              (oc_oid o) (oc_names o) (oc_desc o) (oc_obsolete o) [] Ho Hn Hd)
    as (c' & Em & G1 & G6 & G17 & G19 & G21 & G44 & G46 & G69 & G91).
  rewrite app_nil_r in *. fold (oc_text_of o) in *.
  unfold oc_from_string, do_match. unfold rx_object_class_end. rewrite oc_regex_eq, re_match_BT. fold kf.
  change R_oc with (HR OC_tail4). rewrite Em. cbn [bind]. unfold grp.
  unfold rx_object_class_g_kind, rx_object_class_g_desc, rx_object_class_g_extensions, rx_object_class_g_oid, rx_object_class_g_name,
    rx_object_class_g_obsolete, rx_object_class_g_sup, rx_object_class_g_must, rx_object_class_g_may.
  rewrite G1, G6, G17, G19, G21, G44, G46, G69, G91.
  match goal with |- context [parse_qdstring_opt ?x] => replace (parse_qdstring_opt x) with (@Ok (option ustr) (oc_desc o)) by (symmetry; apply parse_desc_back) end.
  cbn [bind]. rewrite parse_ext_back by assumption. cbn [bind].
  match goal with |- context [parse_names ?x] => replace (parse_names x) with (oc_names o) by (symmetry; now apply parse_names_back) end.
  rewrite !parse_opt_oids by assumption.
  assert (Dk : (if ueqb (kind_text (oc_kind o)) s_ABSTRACT then 0 else if ueqb (kind_text (oc_kind o)) s_AUXILIARY then 2 else 1) = oc_kind o).
  { destruct Hk as [-> | [-> | ->]]; reflexivity. }
  rewrite Dk.
  match goal with |- context [truthy ?x] => replace (truthy x) with (oc_obsolete o) by (destruct (oc_obsolete o); reflexivity) end.
  destruct o; reflexivity.
Qed.

(* the hypotheses are satisfiable: a class with every part present *)
Example wf_oc_example :
  wf_oc (mkOC [50; 46; 53; 46; 54; 46; 49; 48] [[97; 98]; [99; 45; 100]] (Some [39; 92; 120]) true [[116; 111; 112]; [49; 46; 50]]
              2 [[99; 110]] [] [([102; 111; 111], [[98]; [99]]); ([98; 97; 114], [])]).
Proof.
  constructor; cbn.
  - exists [50], [53], [[54]; [49; 48]]. repeat split; try reflexivity. repeat constructor.
  - repeat constructor.
  - discriminate.
  - constructor; [left; repeat constructor|]. constructor; [|constructor]. right. exists [49], [50], []. repeat split; constructor.
  - right; right; reflexivity.
  - constructor; [left; repeat constructor|constructor].
  - constructor.
  - repeat constructor; discriminate.
  - repeat constructor; cbn; intuition discriminate.
Qed.
