(* C16, the stages after the regular expression: quoted strings (descriptions, extension values)
   with quotes, backslashes and arbitrary code points survive encoding and parsing; so do OID lists,
   name lists and the extensions block. *)
From Coq Require Import ZArith NArith List Bool Arith Lia ZifyBool.
From SV Require Import Base.Py Rx.Syntax Rx.Lemmas Gen.Generated Schema.Model.
Import ListNotations.
Local Open Scope N_scope.

(* ---- _encode_qdstring: ' and \ become \27 and \5c *)
Definition qspecial (c : N) : bool := match rx_qd_escape with Chr neg rs => chr_ok neg rs c | _ => false end.
Definition qesc (c : N) : list N := if qspecial c then [BSL; hexdigit (c / 16); hexdigit (c mod 16)] else [c].

Lemma qspecial_spec c : qspecial c = (c =? 92) || (c =? 39).
Proof.
  unfold qspecial, rx_qd_escape, chr_ok, in_ranges. cbn [existsb fst snd]. rewrite xorb_false_l, orb_false_r.
  destruct (N.eqb_spec c 92) as [->|N1]; [reflexivity|]. destruct (N.eqb_spec c 39) as [->|N2]; [reflexivity|].
  cbn [orb]. destruct ((92 <=? c) && (c <=? 92)) eqn:A; [lia|]. destruct ((39 <=? c) && (c <=? 39)) eqn:B; [lia|]. reflexivity.
Qed.

Lemma encode_qdstring_spec v : encode_qdstring v = Ok ([SQ] ++ flat_map qesc v ++ [SQ]).
Proof.
  unfold encode_qdstring, rx_qd_escape.
  rewrite (re_sub_chr _ _ esc_repl (fun c => [BSL; hexdigit (c / 16); hexdigit (c mod 16)])).
  - reflexivity.
  - intros c H. unfold esc_repl.
    assert (Hc : c = 92 \/ c = 39).
    { change (qspecial c = true) in H. rewrite qspecial_spec in H. lia. }
    destruct Hc as [-> | ->]; reflexivity.
Qed.

Lemma qesc_92 : qesc 92 = [92; 53; 99].  Proof. reflexivity. Qed.
Lemma qesc_39 : qesc 39 = [92; 50; 55].  Proof. reflexivity. Qed.
Lemma qesc_plain c : c <> 92 -> c <> 39 -> qesc c = [c].
Proof. intros A B. unfold qesc. rewrite qspecial_spec. destruct (N.eqb_spec c 92); [congruence|]. destruct (N.eqb_spec c 39); [congruence|]. reflexivity. Qed.

Lemma qesc_no_quote v : ~ In SQ (flat_map qesc v).
Proof.
  induction v as [|c v IH]; [intros []|]. cbn [flat_map]. intros H. apply in_app_or in H. destruct H as [H|H]; [|tauto].
  destruct (N.eq_dec c 92) as [->|N1]; [rewrite qesc_92 in H; cbn in H; unfold SQ in H; lia|].
  destruct (N.eq_dec c 39) as [->|N2]; [rewrite qesc_39 in H; cbn in H; unfold SQ in H; lia|].
  rewrite qesc_plain in H by assumption. destruct H as [H|[]]. unfold SQ in H. congruence.
Qed.

(* ---- the matcher on  \\(5[Cc]|27)  *)
Lemma bt_unesc_no fuel c s k : (6 <= fuel)%nat -> c <> 92 -> bt fuel rx_qd_unescape (c :: s) 0 [] k = BNo.
Proof.
  intros Hf Hc. do 6 (destruct fuel as [|fuel]; [lia|]). unfold rx_qd_unescape. cbn [bt].
  unfold chr_ok, in_ranges. cbn [existsb fst snd]. rewrite xorb_false_l, orb_false_r.
  destruct ((92 <=? c) && (c <=? 92)) eqn:E; [lia|]. reflexivity.
Qed.

Lemma bt_unesc_5c fuel s : (6 <= fuel)%nat ->
  bt fuel rx_qd_unescape (92 :: 53 :: 99 :: s) 0 [] (fun _ p cs => BYes p cs) = BYes 3 [].
Proof. intros Hf. do 6 (destruct fuel as [|fuel]; [lia|]). reflexivity. Qed.

Lemma bt_unesc_27 fuel s : (6 <= fuel)%nat ->
  bt fuel rx_qd_unescape (92 :: 50 :: 55 :: s) 0 [] (fun _ p cs => BYes p cs) = BYes 3 [].
Proof. intros Hf. do 6 (destruct fuel as [|fuel]; [lia|]). reflexivity. Qed.

Lemma unesc_fuel s : s <> [] -> (6 <= bt_fuel rx_qd_unescape s)%nat.
Proof. intros H. unfold bt_fuel. destruct s; [congruence|]. cbn [length]. assert (6 <= rsize rx_qd_unescape + 2)%nat by (vm_compute; lia). nia. Qed.

(* a backslash in the original text that is followed by what looks like an escape is itself escaped,
   so unescaping cannot be confused: induction over the ORIGINAL text *)
Lemma unescape_qesc (v : list N) :
  forall f, (length (flat_map qesc v) < f)%nat ->
  re_sub_loop f rx_qd_unescape unesc_repl (flat_map qesc v) = Some (Some v).
Proof.
  induction v as [|c v IH]; intros f Hf.
  - destruct f; [cbn in Hf; lia|]. reflexivity.
  - cbn [flat_map] in *. destruct f as [|f]; [cbn in Hf; lia|].
    destruct (N.eq_dec c 92) as [->|N1].
    + rewrite qesc_92 in *. cbn [app] in *. rewrite re_sub_loop_cons. cbv zeta.
      rewrite bt_unesc_5c by (apply unesc_fuel; discriminate). cbn [firstn skipn].
      change (unesc_repl [92; 53; 99]) with (Some [92]).
      rewrite IH by (cbn [length] in Hf; lia). reflexivity.
    + destruct (N.eq_dec c 39) as [->|N2].
      * rewrite qesc_39 in *. cbn [app] in *. rewrite re_sub_loop_cons. cbv zeta.
        rewrite bt_unesc_27 by (apply unesc_fuel; discriminate). cbn [firstn skipn].
        change (unesc_repl [92; 50; 55]) with (Some [39]).
        rewrite IH by (cbn [length] in Hf; lia). reflexivity.
      * rewrite qesc_plain in * by assumption. cbn [app] in *. rewrite re_sub_loop_cons. cbv zeta.
        rewrite bt_unesc_no by (try assumption; apply unesc_fuel; discriminate).
        rewrite IH by (cbn [length] in Hf; lia). reflexivity.
Qed.

(* ---- strip("'") *)
Lemma lstrip_chars_stop cs c s : memc c cs = false -> lstrip_chars cs (c :: s) = c :: s.
Proof. intros H. cbn [lstrip_chars]. now rewrite H. Qed.

Lemma strip_quotes_inner q (t : ustr) : ~ In q t -> strip_chars [q] ([q] ++ t ++ [q]) = t.
Proof.
  intros H. unfold strip_chars. cbn [app lstrip_chars]. unfold memc at 1. cbn [existsb]. rewrite N.eqb_refl. cbn [orb].
  assert (Hm : forall x, x <> q -> memc x [q] = false).
  { intros x Hx. unfold memc. cbn [existsb]. destruct (N.eqb_spec x q); [congruence|reflexivity]. }
  destruct t as [|t0 t'].
  - cbn [app lstrip_chars]. unfold memc. cbn [existsb]. rewrite N.eqb_refl. reflexivity.
  - assert (H0 : t0 <> q) by (intros ->; apply H; now left).
    cbn [app]. rewrite lstrip_chars_stop by now apply Hm.
    change (t0 :: t' ++ [q]) with ((t0 :: t') ++ [q]). rewrite rev_app_distr. cbn [rev app lstrip_chars].
    unfold memc at 1. cbn [existsb]. rewrite N.eqb_refl. cbn [orb].
    destruct (rev t' ++ [t0]) as [|r0 r'] eqn:E; [destruct (rev t'); discriminate|].
    assert (Hr : r0 <> q).
    { intros ->. apply H. apply in_rev. cbn [rev]. rewrite E. now left. }
    rewrite lstrip_chars_stop by now apply Hm. rewrite <- E. change (rev t' ++ [t0]) with (rev (t0 :: t')). apply rev_involutive.
Qed.

Lemma strip_quotes_none (t : ustr) : ~ In SQ t -> strip_chars [SQ] t = t.
Proof.
  intros H. unfold strip_chars.
  assert (Hm : forall x, x <> SQ -> memc x [SQ] = false).
  { intros x Hx. unfold memc. cbn [existsb]. destruct (N.eqb_spec x SQ); [congruence|reflexivity]. }
  assert (L : forall s : ustr, ~ In SQ s -> lstrip_chars [SQ] s = s).
  { intros s Hs. destruct s as [|x s']; [reflexivity|]. apply lstrip_chars_stop. apply Hm. intros ->. apply Hs. now left. }
  rewrite (L t H). rewrite L by (intros I; apply H; now apply in_rev). apply rev_involutive.
Qed.

(* _parse_qdstring (_encode_qdstring v) = v for EVERY text v *)
Theorem qdstring_round_trip v : exists q, encode_qdstring v = Ok q /\ parse_qdstring q = Ok v.
Proof.
  exists ([SQ] ++ flat_map qesc v ++ [SQ]). split; [apply encode_qdstring_spec|].
  unfold parse_qdstring. rewrite strip_quotes_inner by apply qesc_no_quote.
  unfold re_sub. rewrite unescape_qesc by lia. reflexivity.
Qed.

(* the inside of the quotes on its own, as _extract_qdstring sees it *)
Lemma parse_qdstring_inner v : parse_qdstring (flat_map qesc v) = Ok v.
Proof.
  unfold parse_qdstring. rewrite strip_quotes_none by apply qesc_no_quote.
  unfold re_sub. rewrite unescape_qesc by lia. reflexivity.
Qed.

(* ---- split helpers *)
Lemma usplit1_aux_plain sep (p rest cur : ustr) :
  ~ In sep p -> usplit1_aux sep (p ++ sep :: rest) cur = Some (rev cur ++ p, rest).
Proof.
  revert cur. induction p as [|x p IH]; intros cur H; cbn [app usplit1_aux].
  - rewrite N.eqb_refl. now rewrite app_nil_r.
  - destruct (N.eqb_spec x sep) as [->|Ne]; [exfalso; apply H; now left|].
    rewrite IH by (intros I; apply H; now right). cbn [rev]. now rewrite <- app_assoc.
Qed.

Lemma usplit1_plain sep (p rest : ustr) : ~ In sep p -> usplit1 sep (p ++ sep :: rest) = Some (p, rest).
Proof. intros H. unfold usplit1. now rewrite usplit1_aux_plain. Qed.

Lemma lstrip_spaces_stop (c : N) s : c <> SPC -> lstrip_chars [SPC] (c :: s) = c :: s.
Proof. intros H. apply lstrip_chars_stop. unfold memc. cbn [existsb]. destruct (N.eqb_spec c SPC); [congruence|reflexivity]. Qed.

Lemma lstrip_one_space s : lstrip_chars [SPC] (SPC :: s) = lstrip_chars [SPC] s.
Proof. reflexivity. Qed.

(* ---- the extensions block *)
Definition qd (v : ustr) : ustr := [SQ] ++ flat_map qesc v ++ [SQ].

Definition ext_item (a : ustr) (vs : list ustr) : ustr :=
  match vs with
  | [v] => k_X ++ a ++ [SPC] ++ qd v
  | _ => k_X ++ a ++ [SPC; LP; SPC] ++ ujoin [SPC] (map qd vs) ++ [SPC; RP]
  end.

Lemma map_res_encode vs : map_res encode_qdstring vs = Ok (map qd vs).
Proof. induction vs as [|v vs IH]; [reflexivity|]. cbn [map_res map]. rewrite encode_qdstring_spec. cbn [bind]. now rewrite IH. Qed.

Lemma print_ext_spec e : print_ext e = Ok (flat_map (fun x => ext_item (fst x) (snd x)) e).
Proof.
  induction e as [|[a vs] e IH]; [reflexivity|]. cbn [print_ext flat_map fst snd]. rewrite map_res_encode. cbn [bind]. rewrite IH. cbn [bind].
  unfold ext_item. destruct vs as [|v [|v2 vs']]; cbn [map]; rewrite <- ?app_assoc; reflexivity.
Qed.

Lemma extract_qd v rest c : c <> SPC ->
  extract_qdstring (qd v ++ SPC :: c :: rest) = Ok (v, c :: rest) .
Proof.
  intros Hc. unfold extract_qdstring, qd. cbn [app tl]. rewrite <- app_assoc. cbn [app].
  rewrite usplit1_plain by apply qesc_no_quote. rewrite parse_qdstring_inner. cbn [bind].
  rewrite lstrip_one_space, lstrip_spaces_stop by assumption. reflexivity.
Qed.

Lemma extract_qd_end v : extract_qdstring (qd v) = Ok (v, []).
Proof.
  unfold extract_qdstring, qd. cbn [app tl].
  rewrite usplit1_plain by apply qesc_no_quote. rewrite parse_qdstring_inner. reflexivity.
Qed.

Lemma extract_qd_sp v rest : extract_qdstring (qd v ++ SPC :: rest) = Ok (v, lstrip_chars [SPC] rest).
Proof.
  unfold extract_qdstring, qd. cbn [app tl]. rewrite <- app_assoc. cbn [app].
  rewrite usplit1_plain by apply qesc_no_quote. rewrite parse_qdstring_inner. reflexivity.
Qed.

(* the values of a parenthesised list:  'a' 'b' ... )  *)
Lemma ext_list_values : forall vs acc fuel tail,
  (length vs < fuel)%nat ->
  ext_list_loop fuel (flat_map (fun v => qd v ++ [SPC]) vs ++ RP :: tail) acc = Ok (acc ++ vs, RP :: tail).
Proof.
  induction vs as [|v vs IH]; intros acc fuel tail Hf.
  - destruct fuel; [cbn in Hf; lia|]. cbn [flat_map app ext_list_loop starts_with]. unfold RP. rewrite N.eqb_refl. now rewrite app_nil_r.
  - destruct fuel as [|f]; [cbn in Hf; lia|]. cbn [flat_map ext_list_loop]. rewrite <- !app_assoc.
    assert (S0 : starts_with RP (qd v ++ [SPC] ++ flat_map (fun v0 => qd v0 ++ [SPC]) vs ++ RP :: tail) = false) by reflexivity.
    rewrite S0. cbn [app]. rewrite extract_qd_sp. cbn [bind].
    assert (L : lstrip_chars [SPC] (flat_map (fun v0 => qd v0 ++ [SPC]) vs ++ RP :: tail) = flat_map (fun v0 => qd v0 ++ [SPC]) vs ++ RP :: tail).
    { destruct vs as [|v1 vs']; cbn [flat_map app]; apply lstrip_spaces_stop; unfold RP, SQ, SPC; discriminate. }
    rewrite L. rewrite IH by (cbn [length] in Hf; lia). now rewrite <- app_assoc.
Qed.

Lemma ujoin_sp (qs : list ustr) : qs <> [] -> ujoin [SPC] qs ++ [SPC] = flat_map (fun q => q ++ [SPC]) qs.
Proof.
  induction qs as [|q qs IH]; [congruence|]. intros _. destruct qs as [|q2 qs'].
  - cbn [ujoin flat_map]. now rewrite app_nil_r.
  - change (ujoin [SPC] (q :: q2 :: qs')) with (q ++ [SPC] ++ ujoin [SPC] (q2 :: qs')). rewrite <- !app_assoc.
    cbn [flat_map]. rewrite <- app_assoc. f_equal. f_equal. apply IH. discriminate.
Qed.

Definition key_ok (a : ustr) : Prop := ~ In SPC a.

Definition keys_of (d : list (ustr * list ustr)) : list ustr := map fst d.

Lemma ueqb_eq a b : ueqb a b = true <-> a = b.
Proof.
  revert b. induction a as [|x a IH]; intros [|y b]; cbn [ueqb]; split; intros H; try reflexivity; try discriminate.
  - apply andb_true_iff in H as [H1 H2]. apply N.eqb_eq in H1. apply IH in H2. congruence.
  - injection H as -> ->. rewrite N.eqb_refl. now apply IH.
Qed.

Lemma dict_set_new k v d : ~ In k (keys_of d) -> dict_set k v d = d ++ [(k, v)].
Proof.
  induction d as [|[k' v'] d IH]; intros H; [reflexivity|]. cbn [dict_set].
  destruct (ueqb k k') eqn:E; [apply ueqb_eq in E; subst; exfalso; apply H; now left|].
  rewrite IH by (intros I; apply H; now right). reflexivity.
Qed.

Lemma flat_qd_len (vs : list ustr) : (length vs <= length (flat_map (fun v0 => qd v0 ++ [SPC]) vs))%nat.
Proof.
  induction vs as [|x l IHl]; cbn [flat_map length]; [lia|]. rewrite !app_length. cbn [length].
  assert (1 <= length (qd x))%nat by (unfold qd; cbn [app length]; lia). lia.
Qed.

Lemma ext_loop_lstrip fu r d : ext_loop fu (SPC :: 88 :: r) d = ext_loop fu (lstrip_chars [SPC] (SPC :: 88 :: r)) d.
Proof. destruct fu; reflexivity. Qed.

(* one extension item followed by the rest of the block *)
Lemma ext_loop_items : forall e d fuel,
  Forall (fun x => key_ok (fst x)) e -> NoDup (keys_of d ++ keys_of e) ->
  (length e < fuel)%nat ->
  ext_loop fuel (lstrip_chars [SPC] (flat_map (fun x => ext_item (fst x) (snd x)) e)) d = Ok (d ++ e).
Proof.
  induction e as [|[a vs] e IH]; intros d fuel Hk Hnd Hf.
  - destruct fuel; [cbn in Hf; lia|]. cbn [flat_map lstrip_chars ext_loop]. now rewrite app_nil_r.
  - destruct fuel as [|f]; [cbn in Hf; lia|]. inversion Hk as [|? ? Ka Ke]; subst. cbn [fst snd] in *.
    cbn [flat_map fst snd].
    set (rest := flat_map (fun x => ext_item (fst x) (snd x)) e).
    assert (Hnew : ~ In a (keys_of d)).
    { intros I. unfold keys_of in Hnd. cbn [map fst] in Hnd. apply NoDup_remove_2 in Hnd. apply Hnd. apply in_or_app. now left. }
    assert (Hnd' : NoDup (keys_of (d ++ [(a, vs)]) ++ keys_of e)).
    { unfold keys_of in *. rewrite map_app. cbn [map fst]. rewrite <- app_assoc. exact Hnd. }
    assert (Rest : forall fu, (length e < fu)%nat -> forall d', d' = d ++ [(a, vs)] ->
              ext_loop fu (lstrip_chars [SPC] rest) d' = Ok (d ++ (a, vs) :: e)).
    { intros fu Hfu d' ->. unfold rest. rewrite IH by assumption. now rewrite <- app_assoc. }
    assert (Rest' : forall fu, (length e < fu)%nat -> forall d', d' = d ++ [(a, vs)] ->
              ext_loop fu rest d' = Ok (d ++ (a, vs) :: e)).
    { intros fu Hfu d' E'. destruct e as [|[a2 vs2] e'].
      - subst d'. unfold rest. cbn [flat_map]. destruct fu; [cbn in Hfu; lia|]. reflexivity.
      - assert (R0 : exists r', rest = SPC :: 88 :: r').
        { unfold rest. cbn [flat_map fst snd]. unfold ext_item. destruct vs2 as [|? [|? ?]]; unfold k_X; cbn [app]; eauto. }
        destruct R0 as (r' & ER). rewrite ER, ext_loop_lstrip, <- ER. now apply Rest. }
    (* the key *)
    assert (Head : forall body,
              ext_loop (S f) (lstrip_chars [SPC] ((k_X ++ a ++ SPC :: body) ++ rest)) d =
              (let remaining := lstrip_chars [SPC] (body ++ rest) in
               if starts_with LP remaining then
                 '(entries, r) <- ext_list_loop (S (length (lstrip_chars [SPC] (tl remaining)))) (lstrip_chars [SPC] (tl remaining)) [] ;;
                 ext_loop f (tl r) (dict_set a entries d)
               else '(e0, r) <- extract_qdstring remaining ;; ext_loop f r (dict_set a [e0] d))).
    { intros body.
      assert (E : (k_X ++ a ++ SPC :: body) ++ rest = SPC :: (88 :: 45 :: a) ++ SPC :: body ++ rest).
      { unfold k_X. cbn [app]. rewrite <- app_assoc. reflexivity. }
      rewrite E. rewrite lstrip_one_space.
      assert (L : lstrip_chars [SPC] ((88 :: 45 :: a) ++ SPC :: body ++ rest) = (88 :: 45 :: a) ++ SPC :: body ++ rest)
        by (cbn [app]; apply lstrip_spaces_stop; unfold SPC; discriminate).
      rewrite L. cbn [ext_loop app]. change (88 :: 45 :: a ++ SPC :: body ++ rest) with ((88 :: 45 :: a) ++ SPC :: body ++ rest).
      rewrite L. rewrite usplit1_plain.
      2: { intros [H|[H|H]]; [unfold SPC in H; discriminate|unfold SPC in H; discriminate|exact (Ka H)]. }
      cbn [skipn]. reflexivity. }
    unfold ext_item at 1. destruct vs as [|v [|v2 vs']].
    + (* an empty list: ( ) *)
      etransitivity; [exact (Head ([LP; SPC] ++ ujoin [SPC] (map qd []) ++ [SPC; RP]))|].
      cbv zeta. cbn [map ujoin app]. rewrite lstrip_spaces_stop by (unfold LP, SPC; discriminate).
      cbn [starts_with tl]. unfold LP at 1. rewrite N.eqb_refl.
      rewrite !lstrip_one_space. rewrite lstrip_spaces_stop by (unfold RP, SPC; discriminate).
      cbn [ext_list_loop length starts_with]. unfold RP at 1. rewrite N.eqb_refl. cbn [bind tl].
      rewrite dict_set_new by assumption. apply Rest'; [cbn [length] in *; lia|reflexivity].
    + (* a single value *)
      etransitivity; [exact (Head (qd v))|].
      cbv zeta.
      assert (Q : lstrip_chars [SPC] (qd v ++ rest) = qd v ++ rest) by (unfold qd; cbn [app]; apply lstrip_spaces_stop; unfold SQ, SPC; discriminate).
      rewrite Q. assert (S0 : starts_with LP (qd v ++ rest) = false) by reflexivity. rewrite S0.
      destruct e as [|[a2 vs2] e'].
      * unfold rest. cbn [flat_map]. rewrite app_nil_r, extract_qd_end. cbn [bind].
        rewrite dict_set_new by assumption. destruct f; [cbn in Hf; lia|]. reflexivity.
      * assert (R0 : exists r', rest = SPC :: 88 :: r').
        { unfold rest. cbn [flat_map fst snd]. unfold ext_item. destruct vs2 as [|? [|? ?]]; unfold k_X; cbn [app]; eauto. }
        destruct R0 as (r' & ER). rewrite ER. rewrite extract_qd_sp. cbn [bind].
        rewrite dict_set_new by assumption.
        replace (lstrip_chars [SPC] (88 :: r')) with (lstrip_chars [SPC] rest) by (rewrite ER; reflexivity).
        apply Rest; [cbn [length] in *; lia|reflexivity].
    + (* a list of two or more values *)
      set (vs := v :: v2 :: vs').
      etransitivity; [exact (Head ([LP; SPC] ++ ujoin [SPC] (map qd vs) ++ [SPC; RP]))|].
      cbv zeta. cbn [app]. rewrite lstrip_spaces_stop by (unfold LP, SPC; discriminate).
      cbn [starts_with tl]. unfold LP at 1. rewrite N.eqb_refl. rewrite lstrip_one_space.
      assert (Body : (ujoin [SPC] (map qd vs) ++ [SPC; RP]) ++ rest = flat_map (fun v0 => qd v0 ++ [SPC]) vs ++ RP :: rest).
      { change [SPC; RP] with ([SPC] ++ [RP]). rewrite app_assoc, ujoin_sp by (unfold vs; discriminate).
        rewrite <- app_assoc. cbn [app]. f_equal. unfold vs. clear. generalize (v :: v2 :: vs'). intros l.
        induction l as [|x l IHl]; [reflexivity|]. cbn [map flat_map]. now rewrite IHl. }
      rewrite Body.
      assert (L : lstrip_chars [SPC] (flat_map (fun v0 => qd v0 ++ [SPC]) vs ++ RP :: rest) = flat_map (fun v0 => qd v0 ++ [SPC]) vs ++ RP :: rest).
      { unfold vs. cbn [flat_map app]. apply lstrip_spaces_stop. unfold SQ, SPC. discriminate. }
      rewrite L. rewrite ext_list_values.
      2: { rewrite app_length. cbn [length]. pose proof (flat_qd_len vs). lia. }
      cbn [bind app tl]. rewrite dict_set_new by assumption. apply Rest'; [cbn [length] in *; lia|reflexivity].
Qed.

Lemma ext_item_shape a vs : exists r, ext_item a vs = SPC :: 88 :: 45 :: r.
Proof. unfold ext_item, k_X. destruct vs as [|? [|? ?]]; cbn [app]; eauto. Qed.

Lemma items_len e : (3 * length e <= length (flat_map (fun x => ext_item (fst x) (snd x)) e))%nat.
Proof.
  induction e as [|[a vs] e IH]; [cbn; lia|]. cbn [flat_map fst snd length]. rewrite app_length.
  destruct (ext_item_shape a vs) as (r & ->). cbn [length]. lia.
Qed.

(* _parse_extensions (text of the extensions) = the extensions *)
Theorem extensions_round_trip e :
  Forall (fun x => key_ok (fst x)) e -> NoDup (keys_of e) ->
  exists t, print_ext e = Ok t /\ parse_extensions (Some t) = Ok e.
Proof.
  intros Hk Hnd. eexists. split; [apply print_ext_spec|].
  unfold parse_extensions. set (t := flat_map (fun x => ext_item (fst x) (snd x)) e).
  destruct t as [|c0 t'] eqn:Et.
  - destruct e as [|[a vs] e']; [reflexivity|]. unfold t in Et. cbn [flat_map fst snd] in Et. unfold ext_item, k_X in Et.
    destruct vs as [|? [|? ?]]; discriminate.
  - rewrite <- Et. pose proof (ext_loop_items e [] (S (length (lstrip_chars [SPC] t))) Hk) as H. cbn [app keys_of map] in H.
    apply H; [exact Hnd|].
    assert (G : (length e <= length (lstrip_chars [SPC] t))%nat).
    { pose proof (items_len e) as L. fold t in L. destruct e as [|[a vs] e']; [cbn; lia|].
      unfold t in *. cbn [flat_map fst snd] in *. destruct (ext_item_shape a vs) as (r & Er). rewrite Er in *.
      cbn [app] in *. rewrite lstrip_one_space, lstrip_spaces_stop by (unfold SPC; discriminate). cbn [length] in *. lia. }
    lia.
Qed.

(* ---- OID lists and name lists *)
(* an oid / descriptor as the grammars allow: no space, $, quote or parenthesis, not empty *)
Definition plainc (c : N) : Prop := c <> SPC /\ c <> DOLLAR /\ c <> SQ /\ c <> LP /\ c <> RP /\ is_ws c = false.
Definition plain (o : ustr) : Prop := o <> [] /\ Forall plainc o.

Lemma lstrip_chars_plain cs (o rest : ustr) c :
  o = c :: rest -> memc c cs = false -> lstrip_chars cs o = o.
Proof. intros -> H. now apply lstrip_chars_stop. Qed.

Lemma hd_rev {A} (l : list A) d : hd d (rev l) = last l d.
Proof.
  destruct l as [|x l] using rev_ind; [reflexivity|]. rewrite rev_app_distr, last_last. reflexivity.
Qed.

Lemma strip_chars_pad cs (pre o post : ustr) :
  Forall (fun c => memc c cs = true) pre -> Forall (fun c => memc c cs = true) post ->
  o <> [] -> memc (hd 0 o) cs = false -> memc (last o 0) cs = false ->
  strip_chars cs (pre ++ o ++ post) = o.
Proof.
  intros Hpre Hpost Hne Hh Hl. unfold strip_chars.
  assert (L : forall (p : ustr) s, Forall (fun c => memc c cs = true) p -> lstrip_chars cs (p ++ s) = lstrip_chars cs s).
  { induction 1 as [|x p Hx _ IH]; [reflexivity|]. cbn [app lstrip_chars]. now rewrite Hx. }
  assert (St : forall (w s : ustr), w <> [] -> memc (hd 0 w) cs = false -> lstrip_chars cs (w ++ s) = w ++ s).
  { intros w s Hw Hm. destruct w as [|c w']; [congruence|]. cbn [hd] in Hm. cbn [app]. now apply lstrip_chars_stop. }
  rewrite L by assumption. rewrite St by assumption. rewrite rev_app_distr.
  rewrite L by (apply Forall_rev; assumption).
  rewrite (app_nil_end (rev o)). rewrite St; [rewrite app_nil_r; apply rev_involutive| |].
  - intros E. apply Hne. rewrite <- (rev_involutive o), E. reflexivity.
  - now rewrite hd_rev.
Qed.

Lemma strip_ws_pad (pre o post : ustr) :
  Forall (fun c => is_ws c = true) pre -> Forall (fun c => is_ws c = true) post ->
  o <> [] -> is_ws (hd 0 o) = false -> is_ws (last o 0) = false -> strip_ws (pre ++ o ++ post) = o.
Proof.
  intros Hpre Hpost Hne Hh Hl. unfold strip_ws.
  assert (L : forall (p : ustr) s, Forall (fun c => is_ws c = true) p -> lstrip_ws (p ++ s) = lstrip_ws s).
  { induction 1 as [|x p Hx _ IH]; [reflexivity|]. cbn [app lstrip_ws]. now rewrite Hx. }
  assert (St : forall (w s : ustr), w <> [] -> is_ws (hd 0 w) = false -> lstrip_ws (w ++ s) = w ++ s).
  { intros w s Hw Hm. destruct w as [|c w']; [congruence|]. cbn [hd] in Hm. cbn [app lstrip_ws]. now rewrite Hm. }
  rewrite L by assumption. rewrite St by assumption. rewrite rev_app_distr.
  rewrite L by (apply Forall_rev; assumption).
  rewrite (app_nil_end (rev o)). rewrite St; [rewrite app_nil_r; apply rev_involutive| |].
  - intros E. apply Hne. rewrite <- (rev_involutive o), E. reflexivity.
  - now rewrite hd_rev.
Qed.

Lemma plain_ends o : plain o -> plainc (hd 0 o) /\ plainc (last o 0).
Proof.
  intros [Hne Hf]. rewrite Forall_forall in Hf. split; apply Hf.
  - destruct o; [congruence|now left].
  - destruct (exists_last Hne) as (o0 & z & ->). rewrite last_last. apply in_or_app. right. now left.
Qed.

Lemma usplit_aux_plain sep (p rest cur : ustr) :
  ~ In sep p -> usplit_aux sep (p ++ sep :: rest) cur = (rev cur ++ p) :: usplit_aux sep rest [].
Proof.
  revert cur. induction p as [|x p IH]; intros cur H; cbn [app usplit_aux].
  - rewrite N.eqb_refl. now rewrite app_nil_r.
  - destruct (N.eqb_spec x sep) as [->|Ne]; [exfalso; apply H; now left|].
    rewrite IH by (intros I; apply H; now right). cbn [rev]. now rewrite <- app_assoc.
Qed.

Lemma usplit_aux_end sep (p cur : ustr) : ~ In sep p -> usplit_aux sep p cur = [rev cur ++ p].
Proof.
  revert cur. induction p as [|x p IH]; intros cur H; cbn [usplit_aux]; [now rewrite app_nil_r|].
  destruct (N.eqb_spec x sep) as [->|Ne]; [exfalso; apply H; now left|].
  rewrite IH by (intros I; apply H; now right). cbn [rev]. now rewrite <- app_assoc.
Qed.

Lemma usplit_join sep (mid : ustr) (ps : list ustr) :
  ps <> [] -> (forall p, In p ps -> ~ In sep p) ->
  usplit sep (ujoin [sep] ps) = ps.
Proof.
  unfold usplit. induction ps as [|p ps IH]; intros Hne Hp; [congruence|].
  destruct ps as [|q ps'].
  - cbn [ujoin]. rewrite usplit_aux_end by (apply Hp; now left). reflexivity.
  - change (ujoin [sep] (p :: q :: ps')) with (p ++ sep :: ujoin [sep] (q :: ps')).
    rewrite usplit_aux_plain by (apply Hp; now left). cbn [rev app]. f_equal. apply IH; [discriminate|]. intros x Hx. apply Hp. now right.
Qed.

Lemma plain_no c o : plain o -> (c = SPC \/ c = DOLLAR \/ c = SQ \/ c = LP \/ c = RP) -> ~ In c o.
Proof.
  intros [_ Hf] Hc I. rewrite Forall_forall in Hf. destruct (Hf c I) as (A & B & C & D & E & _).
  destruct Hc as [->|[->|[->|[->| ->]]]]; congruence.
Qed.

(* "a $ b $ c" split on "$": the oids, each padded with the spaces of the separator *)
Fixpoint pad_rest (ps : list ustr) : list ustr :=
  match ps with
  | [] => []
  | [q] => [[SPC] ++ q]
  | q :: r => ([SPC] ++ q ++ [SPC]) :: pad_rest r
  end.
Definition pad (ps : list ustr) : list ustr :=
  match ps with
  | [] => []
  | [p] => [p]
  | p :: r => (p ++ [SPC]) :: pad_rest r
  end.

Lemma join_pad_rest q r : ujoin [DOLLAR] (pad_rest (q :: r)) = [SPC] ++ ujoin [SPC; DOLLAR; SPC] (q :: r).
Proof.
  revert q. induction r as [|q2 r IH]; intros q; [reflexivity|].
  change (pad_rest (q :: q2 :: r)) with (([SPC] ++ q ++ [SPC]) :: pad_rest (q2 :: r)).
  change (ujoin [SPC; DOLLAR; SPC] (q :: q2 :: r)) with (q ++ [SPC; DOLLAR; SPC] ++ ujoin [SPC; DOLLAR; SPC] (q2 :: r)).
  assert (Ne : pad_rest (q2 :: r) <> []) by (destruct r; discriminate).
  destruct (pad_rest (q2 :: r)) as [|z zs] eqn:E; [congruence|].
  change (ujoin [DOLLAR] (([SPC] ++ q ++ [SPC]) :: z :: zs)) with (([SPC] ++ q ++ [SPC]) ++ [DOLLAR] ++ ujoin [DOLLAR] (z :: zs)).
  rewrite <- E, IH. rewrite <- !app_assoc. reflexivity.
Qed.

Lemma join_pad ps : ujoin [DOLLAR] (pad ps) = ujoin [SPC; DOLLAR; SPC] ps.
Proof.
  destruct ps as [|p [|q r]]; [reflexivity|reflexivity|].
  change (pad (p :: q :: r)) with ((p ++ [SPC]) :: pad_rest (q :: r)).
  change (ujoin [SPC; DOLLAR; SPC] (p :: q :: r)) with (p ++ [SPC; DOLLAR; SPC] ++ ujoin [SPC; DOLLAR; SPC] (q :: r)).
  assert (Ne : pad_rest (q :: r) <> []) by (destruct r; discriminate).
  destruct (pad_rest (q :: r)) as [|z zs] eqn:E; [congruence|].
  change (ujoin [DOLLAR] ((p ++ [SPC]) :: z :: zs)) with ((p ++ [SPC]) ++ [DOLLAR] ++ ujoin [DOLLAR] (z :: zs)).
  rewrite <- E, join_pad_rest. rewrite <- !app_assoc. reflexivity.
Qed.

Lemma ws_space : is_ws SPC = true.
Proof. vm_compute. reflexivity. Qed.

Lemma strip_ws_plain (pre o post : ustr) :
  plain o -> Forall (fun c => c = SPC) pre -> Forall (fun c => c = SPC) post -> strip_ws (pre ++ o ++ post) = o.
Proof.
  intros P Hpre Hpost. destruct (plain_ends o P) as [(_ & _ & _ & _ & _ & A) (_ & _ & _ & _ & _ & B)]. destruct P as [Ne _].
  apply strip_ws_pad; auto; eapply Forall_impl; try eassumption; cbv beta; intros c ->; apply ws_space.
Qed.

Lemma strip_pad_rest ps : Forall plain ps -> map strip_ws (pad_rest ps) = ps.
Proof.
  induction ps as [|q r IH]; intros Hf; [reflexivity|]. inversion Hf as [|? ? Pq Pr]; subst.
  destruct r as [|q2 r'].
  - cbn [pad_rest map]. f_equal. rewrite (app_nil_end q) at 1. apply strip_ws_plain; auto.
  - change (pad_rest (q :: q2 :: r')) with (([SPC] ++ q ++ [SPC]) :: pad_rest (q2 :: r')). cbn [map]. rewrite IH by assumption.
    f_equal. apply strip_ws_plain; auto.
Qed.

Lemma strip_pad ps : Forall plain ps -> map strip_ws (pad ps) = ps.
Proof.
  intros Hf. destruct ps as [|p [|q r]]; [reflexivity| |].
  - inversion Hf; subst. cbn [pad map]. f_equal. rewrite <- (app_nil_l p) at 1. rewrite (app_nil_end p) at 1. apply strip_ws_plain; auto.
  - inversion Hf as [|? ? Pp Pr]; subst. change (pad (p :: q :: r)) with ((p ++ [SPC]) :: pad_rest (q :: r)). cbn [map].
    rewrite strip_pad_rest by assumption. f_equal. rewrite <- (app_nil_l (p ++ [SPC])). apply strip_ws_plain; auto.
Qed.

Lemma pad_no_dollar ps : Forall plain ps -> forall x, In x (pad ps) -> ~ In DOLLAR x.
Proof.
  intros Hf.
  assert (R : forall qs, Forall plain qs -> forall x, In x (pad_rest qs) -> ~ In DOLLAR x).
  { induction qs as [|q r IH]; intros Hq x Hx; [destruct Hx|]. inversion Hq as [|? ? Pq Pr]; subst.
    destruct r as [|q2 r'].
    - destruct Hx as [<-|[]]. intros I. cbn [app] in I. destruct I as [E|I]; [unfold SPC, DOLLAR in E; discriminate|]. revert I. apply plain_no; auto.
    - change (pad_rest (q :: q2 :: r')) with (([SPC] ++ q ++ [SPC]) :: pad_rest (q2 :: r')) in Hx. destruct Hx as [<-|Hx]; [|now apply IH].
      intros I. cbn [app] in I. destruct I as [E|I]; [unfold SPC, DOLLAR in E; discriminate|]. apply in_app_or in I. destruct I as [I|[E|[]]]; [|unfold SPC, DOLLAR in E; discriminate].
      revert I. apply plain_no; auto. }
  intros x Hx. destruct ps as [|p [|q r]]; [destruct Hx| |].
  - destruct Hx as [<-|[]]. inversion Hf; subst. apply plain_no; auto.
  - inversion Hf as [|? ? Pp Pr]; subst. change (pad (p :: q :: r)) with ((p ++ [SPC]) :: pad_rest (q :: r)) in Hx.
    destruct Hx as [<-|Hx]; [|now apply (R (q :: r))].
    intros I. apply in_app_or in I. destruct I as [I|[E|[]]]; [|unfold SPC, DOLLAR in E; discriminate]. revert I. apply plain_no; auto.
Qed.

Lemma oid_pieces ps : ps <> [] -> Forall plain ps -> map strip_ws (usplit DOLLAR (ujoin [SPC; DOLLAR; SPC] ps)) = ps.
Proof.
  intros Hne Hf. rewrite <- join_pad. rewrite (usplit_join DOLLAR []).
  - now apply strip_pad.
  - destruct ps as [|p [|q r]]; [congruence|discriminate|discriminate].
  - now apply pad_no_dollar.
Qed.

(* the joined text starts and ends with an oid character *)
Lemma join_last (sep : ustr) : forall (ps : list ustr) pre, ps <> [] -> Forall plain ps -> plainc (last (pre ++ ujoin sep ps) 0).
Proof.
  induction ps as [|p ps IH]; intros pre Hn Hf; [congruence|]. inversion Hf as [|? ? Pp Pps]; subst. destruct ps as [|q ps'].
  - cbn [ujoin]. destruct (plain_ends p Pp) as [_ Hl]. destruct Pp as [Pne _]. destruct (exists_last Pne) as (p0 & z & ->).
    rewrite app_assoc, last_last. now rewrite last_last in Hl.
  - change (ujoin sep (p :: q :: ps')) with (p ++ sep ++ ujoin sep (q :: ps')).
    replace (pre ++ p ++ sep ++ ujoin sep (q :: ps')) with (((pre ++ p) ++ sep) ++ ujoin sep (q :: ps')) by (rewrite <- !app_assoc; reflexivity).
    apply (IH ((pre ++ p) ++ sep)); [discriminate|assumption].
Qed.

Lemma memc_outer c0 : c0 <> LP -> c0 <> RP -> c0 <> SPC -> memc c0 [LP; RP; SPC] = false.
Proof.
  intros H1 H2 H3. unfold memc. cbn [existsb]. destruct (N.eqb_spec c0 LP); [congruence|]. destruct (N.eqb_spec c0 RP); [congruence|].
  destruct (N.eqb_spec c0 SPC); [congruence|]. reflexivity.
Qed.

Lemma parse_oids_nonempty s : s <> [] -> parse_oids (Some s) = map strip_ws (usplit DOLLAR (strip_chars [LP; RP; SPC] s)).
Proof. destruct s; [congruence|reflexivity]. Qed.

(* _parse_oids (_encode_oids l) = l *)
Theorem oids_round_trip l : l <> [] -> Forall plain l -> parse_oids (Some (encode_oids l)) = l.
Proof.
  intros Hne Hp. unfold encode_oids.
  destruct l as [|x [|y r]]; [congruence| |].
  - (* a single oid, written bare *)
    inversion Hp as [|? ? Px _]; subst. destruct (plain_ends x Px) as [(A1 & A2 & A3 & A4 & A5 & A6) (B1 & B2 & B3 & B4 & B5 & B6)].
    pose proof Px as [Xne Xf]. rewrite parse_oids_nonempty by assumption.
    assert (S1 : strip_chars [LP; RP; SPC] x = x).
    { rewrite <- (app_nil_l x) at 1. rewrite (app_nil_end x) at 1. apply strip_chars_pad; try constructor; auto; now apply memc_outer. }
    rewrite S1. unfold usplit. rewrite usplit_aux_end by (apply (plain_no DOLLAR x); auto).
    cbn [rev app map]. f_equal. rewrite <- (app_nil_l x) at 1. rewrite (app_nil_end x) at 1. apply strip_ws_plain; auto.
  - (* a parenthesised list *)
    set (l := x :: y :: r) in *. set (J := ujoin [SPC; DOLLAR; SPC] l).
    assert (Jne : J <> []).
    { unfold J, l. inversion Hp as [|? ? [Xne _] _]; subst. destruct x; [congruence|discriminate]. }
    assert (Jh : plainc (hd 0 J)).
    { unfold J, l. inversion Hp as [|? ? Px _]; subst. destruct (plain_ends x Px) as [Hx _]. destruct Px as [Xne _].
      destruct x; [congruence|exact Hx]. }
    assert (Jl : plainc (last J 0)) by (apply (join_last [SPC; DOLLAR; SPC] l []); [discriminate|assumption]).
    destruct Jh as (A1 & A2 & A3 & A4 & A5 & A6). destruct Jl as (B1 & B2 & B3 & B4 & B5 & B6).
    rewrite parse_oids_nonempty by discriminate.
    assert (Strip : strip_chars [LP; RP; SPC] ([LP; SPC] ++ J ++ [SPC; RP]) = J).
    { apply strip_chars_pad; auto; try (repeat constructor; fail); now apply memc_outer. }
    rewrite Strip. apply oid_pieces; [discriminate|assumption].
Qed.

(* ---- names *)
Definition quote (n : ustr) : ustr := [SQ] ++ n ++ [SQ].

Lemma ujoin_cons sep (x : ustr) (l : list ustr) : l <> [] -> ujoin sep (x :: l) = x ++ sep ++ ujoin sep l.
Proof. destruct l; [congruence|reflexivity]. Qed.

Lemma ujoin_quotes names : names <> [] ->
  [SQ] ++ ujoin [SQ; SPC; SQ] names ++ [SQ] = ujoin [SPC] (map quote names).
Proof.
  induction names as [|n ns IH]; [congruence|]. intros _. destruct ns as [|n2 ns'].
  - reflexivity.
  - rewrite ujoin_cons by discriminate. change (map quote (n :: n2 :: ns')) with (quote n :: map quote (n2 :: ns')).
    rewrite (ujoin_cons [SPC]) by (cbn [map]; discriminate). rewrite <- IH by discriminate. unfold quote. rewrite <- !app_assoc. reflexivity.
Qed.

Lemma quote_no_space n : plain n -> ~ In SPC (quote n).
Proof.
  intros P. unfold quote. intros I. cbn [app] in I. destruct I as [E|I]; [unfold SQ, SPC in E; discriminate|].
  apply in_app_or in I. destruct I as [I|[E|[]]]; [|unfold SQ, SPC in E; discriminate]. revert I. apply plain_no; auto.
Qed.

Lemma filter_quotes names : List.filter (fun n : ustr => match n with [] => false | _ => true end) (map quote names) = map quote names.
Proof. induction names as [|n ns IH]; [reflexivity|]. cbn [map List.filter]. unfold quote at 1. cbn [app]. now rewrite IH. Qed.

Lemma strip_quote n : plain n -> strip_chars [SQ] (quote n) = n.
Proof. intros P. apply strip_quotes_inner. apply plain_no; auto. Qed.

Lemma memc_parens c0 : c0 <> LP -> c0 <> RP -> memc c0 [LP; RP] = false.
Proof. intros H1 H2. unfold memc. cbn [existsb]. destruct (N.eqb_spec c0 LP); [congruence|]. destruct (N.eqb_spec c0 RP); [congruence|]. reflexivity. Qed.

Lemma usplit_aux_snoc (J : ustr) : forall cur, usplit_aux SPC (J ++ [SPC]) cur = usplit_aux SPC J cur ++ [[]].
Proof.
  induction J as [|c J IH]; intros cur; cbn [app usplit_aux].
  - rewrite N.eqb_refl. reflexivity.
  - destruct (N.eqb c SPC); [cbn [app]; f_equal; apply IH|apply IH].
Qed.

Theorem names_round_trip names :
  names <> [] -> Forall plain names ->
  parse_names (Some (match names with
                     | [n] => quote n
                     | _ => [LP; SPC; SQ] ++ ujoin [SQ; SPC; SQ] names ++ [SQ; SPC; RP]
                     end)) = names.
Proof.
  intros Hne Hp.
  assert (Core : forall (t : ustr), t = ujoin [SPC] (map quote names) ->
            map (strip_chars [SQ]) (List.filter (fun n : ustr => match n with [] => false | _ => true end) (usplit SPC t)) = names).
  { intros t ->. rewrite (usplit_join SPC []).
    - rewrite filter_quotes, map_map. rewrite <- (map_id names) at 2. apply map_ext_in. intros n Hn. apply strip_quote.
      rewrite Forall_forall in Hp. now apply Hp.
    - destruct names; [congruence|discriminate].
    - intros q Hq. apply in_map_iff in Hq. destruct Hq as (n & <- & Hn). apply quote_no_space. rewrite Forall_forall in Hp. now apply Hp. }
  destruct names as [|n [|n2 ns]]; [congruence| |].
  - (* one name *)
    unfold parse_names. unfold quote at 1. cbn [app].
    assert (S1 : strip_chars [LP; RP] (quote n) = quote n).
    { rewrite <- (app_nil_l (quote n)) at 1. rewrite (app_nil_end (quote n)) at 1.
      apply strip_chars_pad; [constructor|constructor|discriminate|reflexivity|]. unfold quote. rewrite app_assoc, last_last. reflexivity. }
    change (SQ :: n ++ [SQ]) with (quote n). rewrite S1. apply Core. reflexivity.
  - set (names := n :: n2 :: ns) in *. unfold parse_names.
    set (J := ujoin [SPC] (map quote names)).
    assert (E : [LP; SPC; SQ] ++ ujoin [SQ; SPC; SQ] names ++ [SQ; SPC; RP] = [LP] ++ ([SPC] ++ J ++ [SPC]) ++ [RP]).
    { unfold J. rewrite <- ujoin_quotes by discriminate. rewrite <- !app_assoc. reflexivity. }
    rewrite E. cbn [app].
    assert (S1 : strip_chars [LP; RP] ([LP] ++ ([SPC] ++ J ++ [SPC]) ++ [RP]) = [SPC] ++ J ++ [SPC]).
    { apply strip_chars_pad; [repeat constructor|repeat constructor|discriminate|reflexivity|].
      rewrite !app_assoc, last_last. reflexivity. }
    change (LP :: SPC :: (J ++ [SPC]) ++ [RP]) with ([LP] ++ ([SPC] ++ J ++ [SPC]) ++ [RP]). rewrite S1.
    (* the leading and the trailing space give two empty pieces, which the comprehension drops *)
    assert (Sp : usplit SPC ([SPC] ++ J ++ [SPC]) = [] :: usplit SPC J ++ [[]]).
    { unfold usplit. cbn [app usplit_aux]. unfold SPC at 1. rewrite N.eqb_refl. cbn [rev]. f_equal. apply usplit_aux_snoc. }
    rewrite Sp. cbn [List.filter]. rewrite filter_app. cbn [List.filter]. rewrite app_nil_r. apply Core. reflexivity.
Qed.
