(* The object-class pattern of schema.py rebuilt from named parts (the way the source builds it with
   f-strings); equality with the term generated from the source is checked by computation, so a change
   of the source pattern breaks the development here. *)
From Coq Require Import NArith List Bool Arith.
From SV Require Import Rx.Syntax Gen.Generated.
Import ListNotations.

Definition ch (c : N) : rx := Chr false [(c, c)].
Definition WSPr : rx := Star (ch 32).
Definition SPr : rx := Cat (ch 32) (Star (ch 32)).
Definition DIG : rx := Chr false [(48, 57)]%N.
Definition LDIG : rx := Chr false [(49, 57)]%N.
Definition NUM : rx := Alt DIG (Cat LDIG (Cat DIG (Star DIG))).
Definition DOTNUM (g : nat) : rx := Group g (Cat (ch 46) (Group (S g) NUM)).
(* NUMERICOID = NUMBER followed by one or more DOT NUMBER ; groups g, g+1, g+2 *)
Definition NUMOID (g : nat) : rx := Cat (Group g NUM) (Cat (DOTNUM (S g)) (Star (DOTNUM (S g)))).
Definition ALPHA : rx := Chr false [(97, 122); (65, 90)]%N.
Definition KEYC : rx := Chr false [(97, 122); (65, 90); (48, 57); (45, 45)]%N.
Definition KEYTAIL (g : nat) : rx := Star (Group g (Group (S g) KEYC)).
(* QDESCR = ' DESCR ' , flattened; groups g, g+1 *)
Definition QDESCR_then (g : nat) (k : rx) : rx := Cat (ch 39) (Cat ALPHA (Cat (KEYTAIL g) k)).
(* OID = DESCR | NUMERICOID ; groups g .. g+4 *)
Definition OIDr (g : nat) : rx := Alt (Cat ALPHA (KEYTAIL g)) (NUMOID (g + 2)).
(* OIDS = OID | ( WSP OIDLIST WSP ) ; groups g .. g+16 *)
(* one further element of an OID list: WSP $ WSP OID ; groups g .. g+6 *)
Definition OIDITEM (g : nat) : rx := Group g (Cat WSPr (Cat (ch 36) (Cat WSPr (Group (g + 1) (OIDr (g + 2)))))).
Definition OIDSr (g : nat) : rx :=
  Group g (Alt (Group (g + 1) (OIDr (g + 2)))
               (Cat (ch 40) (Cat WSPr (Cat (Group (g + 7) (Cat (Group (g + 8) (OIDr (g + 9))) (Star (OIDITEM (g + 14)))))
                                      (Cat WSPr (ch 41)))))).
(* one element of DSTRING: \5c | \27 | any character but ' and \ *)
Definition QCHAR : rx :=
  Alt (Cat (ch 92) (Cat (ch 53) (Chr false [(67, 67); (99, 99)]%N)))
      (Alt (Cat (ch 92) (Cat (ch 50) (ch 55))) (Chr true [(39, 39); (92, 92)]%N)).
(* QDSTRING = ' DSTRING ' with DSTRING = QCHAR+ ; group g *)
Definition QDSTRING_then (g : nat) (k : rx) : rx := Cat (ch 39) (Cat (Cat (Group g QCHAR) (Star (Group g QCHAR))) k).
Definition QDSTRINGr (g : nat) : rx := QDSTRING_then g (ch 39).

Fixpoint lit (s : list N) (k : rx) : rx := match s with [] => k | c :: r => Cat (ch c) (lit r k) end.
Fixpoint lit' (s : list N) : rx := match s with [] => Eps | [c] => ch c | c :: r => Cat (ch c) (lit' r) end.
Definition optg (g : nat) (body : rx) : rx := Alt (Group g body) Eps.

Definition s_NAME : list N := [78; 65; 77; 69]%N.
Definition s_DESC : list N := [68; 69; 83; 67]%N.
Definition s_OBSOLETE : list N := [79; 66; 83; 79; 76; 69; 84; 69]%N.
Definition s_SUP : list N := [83; 85; 80]%N.
Definition s_MUST : list N := [77; 85; 83; 84]%N.
Definition s_MAY : list N := [77; 65; 89]%N.

(* QDESCRS = QDESCR or a parenthesised, space separated, possibly empty list ; groups g .. g+8 *)
Definition QITEM (g : nat) : rx := Group g (Cat SPr (QDESCR_then (g + 1) (ch 39))).
Definition QDESCRSr (g : nat) : rx :=
  Group g (Alt (QDESCR_then (g + 1) (ch 39))
               (Cat (ch 40) (Cat WSPr (Cat (optg (g + 3) (QDESCR_then (g + 4) (Cat (ch 39) (Star (QITEM (g + 6))))))
                                      (Cat WSPr (ch 41)))))).

Definition XC : rx := Chr false [(97, 122); (65, 90); (45, 45); (95, 95)]%N.
Definition XSTRINGr (g : nat) : rx :=
  Group g (Cat (Chr false [(120, 120); (88, 88)]%N) (Cat (ch 45) (Cat (Group (S g) XC) (Star (Group (S g) XC))))).

(* QDSTRINGS = QDSTRING or a parenthesised, space separated, possibly empty list ; groups g .. g+5 *)
Definition QSITEM (g : nat) : rx := Group g (Cat SPr (QDSTRINGr (g + 1))).
Definition QDSTRINGSr (g : nat) : rx :=
  Group g (Alt (QDSTRINGr (g + 1))
               (Cat (ch 40) (Cat WSPr (Cat (optg (g + 2) (QDSTRING_then (g + 3) (Cat (ch 39) (Cat (Star (QSITEM (g + 4))) WSPr))))
                                      (ch 41))))).

(* EXTENSIONS = any number of: SP xstring SP QDSTRINGS ; one element uses groups g .. g+8 *)
Definition EXTITEM (g : nat) : rx := Group g (Cat SPr (Cat (XSTRINGr (g + 1)) (Cat SPr (QDSTRINGSr (g + 3))))).
Definition EXTr (g : nat) : rx := Star (EXTITEM g).

Definition KINDr : rx :=
  Alt (lit' [65; 66; 83; 84; 82; 65; 67; 84]%N)
      (Alt (lit' [83; 84; 82; 85; 67; 84; 85; 82; 65; 76]%N) (lit' [65; 85; 88; 73; 76; 73; 65; 82; 89]%N)).

Definition OC_tail8 : rx := Cat (Group 91 (EXTr 92)) (Cat WSPr (ch 41)).
Definition OC_tail7 : rx := Cat (optg 68 (Cat SPr (lit s_MAY (Cat SPr (Group 69 (OIDSr 70)))))) OC_tail8.
Definition OC_tail6 : rx := Cat (optg 45 (Cat SPr (lit s_MUST (Cat SPr (Group 46 (OIDSr 47)))))) OC_tail7.
Definition OC_tail5 : rx := Cat (optg 43 (Cat SPr (Group 44 KINDr))) OC_tail6.
Definition OC_tail4 : rx := Cat (optg 20 (Cat SPr (lit s_SUP (Cat SPr (Group 21 (OIDSr 22)))))) OC_tail5.
Definition OC_tail3 : rx := Cat (optg 19 (Cat SPr (lit' s_OBSOLETE))) OC_tail4.
Definition OC_tail2 : rx := Cat (optg 16 (Cat SPr (lit s_DESC (Cat SPr (Group 17 (QDSTRINGr 18)))))) OC_tail3.
Definition OC_tail1 : rx := Cat (optg 5 (Cat SPr (lit s_NAME (Cat SPr (Group 6 (QDESCRSr 7)))))) OC_tail2.
Definition R_oc : rx := Cat (ch 40) (Cat WSPr (Cat (Group 1 (NUMOID 2)) OC_tail1)).

(* the part common to the three description types: "(" WSP oid [NAME] [DESC] [OBSOLETE] then T *)
Definition HEADr (T : rx) : rx :=
  Cat (ch 40) (Cat WSPr (Cat (Group 1 (NUMOID 2))
    (Cat (optg 5 (Cat SPr (lit s_NAME (Cat SPr (Group 6 (QDESCRSr 7))))))
    (Cat (optg 16 (Cat SPr (lit s_DESC (Cat SPr (Group 17 (QDSTRINGr 18))))))
    (Cat (optg 19 (Cat SPr (lit' s_OBSOLETE))) T))))).

(* DIT content rules *)
Definition s_AUX : list N := [65; 85; 88]%N.
Definition s_NOT : list N := [78; 79; 84]%N.
Definition DCR_t8 : rx := Cat (Group 112 (EXTr 113)) (Cat WSPr (ch 41)).
Definition DCR_t7 : rx := Cat (optg 89 (Cat SPr (lit s_NOT (Cat SPr (Group 90 (OIDSr 91)))))) DCR_t8.
Definition DCR_t6 : rx := Cat (optg 66 (Cat SPr (lit s_MAY (Cat SPr (Group 67 (OIDSr 68)))))) DCR_t7.
Definition DCR_t5 : rx := Cat (optg 43 (Cat SPr (lit s_MUST (Cat SPr (Group 44 (OIDSr 45)))))) DCR_t6.
Definition DCR_t4 : rx := Cat (optg 20 (Cat SPr (lit s_AUX (Cat SPr (Group 21 (OIDSr 22)))))) DCR_t5.
Definition R_dcr : rx := HEADr DCR_t4.

(* attribute types *)
Definition s_EQUALITY : list N := [69; 81; 85; 65; 76; 73; 84; 89]%N.
Definition s_ORDERING : list N := [79; 82; 68; 69; 82; 73; 78; 71]%N.
Definition s_SUBSTR : list N := [83; 85; 66; 83; 84; 82]%N.
Definition s_SYNTAX : list N := [83; 89; 78; 84; 65; 88]%N.
Definition s_SINGLE : list N := [83; 73; 78; 71; 76; 69; 45; 86; 65; 76; 85; 69]%N.
Definition s_COLLECTIVE : list N := [67; 79; 76; 76; 69; 67; 84; 73; 86; 69]%N.
Definition s_NOUSERMOD : list N := [78; 79; 45; 85; 83; 69; 82; 45; 77; 79; 68; 73; 70; 73; 67; 65; 84; 73; 79; 78]%N.
Definition s_USAGE : list N := [85; 83; 65; 71; 69]%N.
Definition u_user : list N := [117;115;101;114;65;112;112;108;105;99;97;116;105;111;110;115]%N.
Definition u_dir : list N := [100;105;114;101;99;116;111;114;121;79;112;101;114;97;116;105;111;110]%N.
Definition u_dist : list N := [100;105;115;116;114;105;98;117;116;101;100;79;112;101;114;97;116;105;111;110]%N.
Definition u_dsa : list N := [100;83;65;79;112;101;114;97;116;105;111;110]%N.
(* one OID in its own group ; groups g .. g+5 *)
Definition OID1 (g : nat) : rx := Group g (OIDr (g + 1)).
(* NUMERICOID with an optional {length} ; groups g .. g+4 *)
Definition LENr (g : nat) : rx := optg g (Cat (ch 123) (Cat (Group (g + 1) NUM) (ch 125))).
Definition NOIDLENr (g : nat) : rx := Cat (Group g NUM) (Cat (Cat (DOTNUM (S g)) (Star (DOTNUM (S g)))) (LENr (g + 3))).
Definition USAGEr : rx := Alt (lit' u_user) (Alt (lit' u_dir) (Alt (lit' u_dist) (lit' u_dsa))).
Definition AT_t13 : rx := Cat (Group 65 (EXTr 66)) (Cat WSPr (ch 41)).
Definition AT_t12 : rx := Cat (optg 63 (Cat SPr (lit s_USAGE (Cat SPr (Group 64 USAGEr))))) AT_t13.
Definition AT_t11 : rx := Cat (optg 62 (Cat SPr (lit' s_NOUSERMOD))) AT_t12.
Definition AT_t10 : rx := Cat (optg 61 (Cat SPr (lit' s_COLLECTIVE))) AT_t11.
Definition AT_t9 : rx := Cat (optg 60 (Cat SPr (lit' s_SINGLE))) AT_t10.
Definition AT_t8 : rx := Cat (optg 52 (Cat SPr (lit s_SYNTAX (Cat SPr (Group 53 (Alt (NOIDLENr 54) (QDSTRINGr 59))))))) AT_t9.
Definition AT_t7 : rx := Cat (optg 44 (Cat SPr (lit s_SUBSTR (Cat SPr (Group 45 (OID1 46)))))) AT_t8.
Definition AT_t6 : rx := Cat (optg 36 (Cat SPr (lit s_ORDERING (Cat SPr (Group 37 (OID1 38)))))) AT_t7.
Definition AT_t5 : rx := Cat (optg 28 (Cat SPr (lit s_EQUALITY (Cat SPr (Group 29 (OID1 30)))))) AT_t6.
Definition AT_t4 : rx := Cat (optg 20 (Cat SPr (lit s_SUP (Cat SPr (Group 21 (OID1 22)))))) AT_t5.
Definition R_at : rx := HEADr AT_t4.
(* the pattern that splits "oid{len}" *)
Definition R_noidlen : rx := Cat (Group 1 (NUMOID 2)) (Cat (ch 123) (Cat (Group 5 (Group 6 NUM)) (ch 125))).

(* first differing pair of subterms, for maintenance *)
Fixpoint rx_diff (a b : rx) : option (rx * rx) :=
  match a, b with
  | Nul, Nul | Eps, Eps => None
  | Chr n1 r1, Chr n2 r2 =>
      if Bool.eqb n1 n2 && (Nat.eqb (length r1) (length r2)) &&
         forallb (fun p => (fst (fst p) =? fst (snd p))%N && (snd (fst p) =? snd (snd p))%N) (combine r1 r2)
      then None else Some (a, b)
  | Cat a1 a2, Cat b1 b2 | Alt a1 a2, Alt b1 b2 =>
      match rx_diff a1 b1 with Some d => Some d | None => rx_diff a2 b2 end
  | Star a1, Star b1 => rx_diff a1 b1
  | Group i a1, Group j b1 => if Nat.eqb i j then rx_diff a1 b1 else Some (a, b)
  | _, _ => Some (a, b)
  end.

Lemma oc_regex_eq : rx_object_class = R_oc.
Proof. vm_compute. reflexivity. Qed.

Lemma dcr_regex_eq : rx_dit_content_rule = R_dcr.
Proof. vm_compute. reflexivity. Qed.

Lemma at_regex_eq : rx_attribute_type = R_at.
Proof. vm_compute. reflexivity. Qed.
Lemma noidlen_regex_eq : rx_noidlen = R_noidlen.
Proof. vm_compute. reflexivity. Qed.
