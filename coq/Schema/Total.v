(* C17, totality: for ANY string, each of the three from_string functions returns a definition or
   raises ValueError -- no other exception (no loop runs out of steps, no missing group). *)
From Coq Require Import ZArith NArith List Bool Arith Lia.
From SV Require Import Base.Py Rx.Syntax Rx.Lemmas Gen.Generated Schema.Model.
Import ListNotations.
Local Open Scope N_scope.

Definition benign {A} (r : res A) : Prop := match r with Ok _ | Raise ValueErr => True | _ => False end.

Lemma benign_bind {A B} (m : res A) (k : A -> res B) :
  benign m -> (forall a, m = Ok a -> benign (k a)) -> benign (bind m k).
Proof. intros Hm Hk. destruct m as [a|e]; cbn [bind]; [now apply Hk|exact Hm]. Qed.

Lemma do_match_benign r e s : benign (do_match r e s).
Proof.
  unfold do_match. pose proof (re_match_total r e s) as T. destruct (re_match r e s); [congruence|exact I|exact I].
Qed.

Lemma parse_qdstring_benign v : benign (parse_qdstring v).
Proof.
  unfold parse_qdstring. pose proof (re_sub_total rx_qd_unescape unesc_repl (strip_chars [SQ] v)) as T.
  destruct (re_sub _ _ _) as [[x|]|]; [exact I|exact I|congruence].
Qed.

Lemma parse_qdstring_opt_benign v : benign (parse_qdstring_opt v).
Proof. destruct v; cbn [parse_qdstring_opt]; [|exact I]. apply benign_bind; [apply parse_qdstring_benign|intros; exact I]. Qed.

(* ---- the extensions loops make progress *)
Lemma usplit1_aux_len sep : forall s cur a b, usplit1_aux sep s cur = Some (a, b) -> (length b < length s)%nat.
Proof.
  induction s as [|c r IH]; intros cur a b; cbn [usplit1_aux]; [discriminate|].
  destruct (N.eqb c sep); [intros H; injection H as _ <-; cbn; lia|]. intros H. apply IH in H. cbn [length]. lia.
Qed.

Lemma lstrip_chars_len cs s : (length (lstrip_chars cs s) <= length s)%nat.
Proof. induction s as [|c r IH]; cbn [lstrip_chars]; [lia|]. destruct (memc c cs); cbn [length]; lia. Qed.

Lemma extract_qdstring_ok v :
  benign (extract_qdstring v) /\ forall p r, extract_qdstring v = Ok (p, r) -> (length r < length v)%nat.
Proof.
  unfold extract_qdstring. destruct (usplit1 SQ (tl v)) as [[entry remaining]|] eqn:E; [|split; [exact I|discriminate]].
  unfold usplit1 in E. apply usplit1_aux_len in E.
  assert (Hl : (length remaining < length v)%nat) by (destruct v; cbn [tl length] in *; lia).
  split.
  - apply benign_bind; [apply parse_qdstring_benign|intros; exact I].
  - intros p r H. destruct (parse_qdstring entry); [|discriminate]. cbn [bind] in H. injection H as _ <-.
    pose proof (lstrip_chars_len [SPC] remaining). lia.
Qed.

Lemma ext_list_loop_ok : forall fuel remaining acc,
  (length remaining < fuel)%nat ->
  benign (ext_list_loop fuel remaining acc) /\
  forall a r, ext_list_loop fuel remaining acc = Ok (a, r) -> (length r <= length remaining)%nat.
Proof.
  induction fuel as [|f IH]; intros remaining acc Hf; [lia|]. cbn [ext_list_loop].
  destruct (starts_with RP remaining); [split; [exact I|intros a r H; injection H as _ <-; lia]|].
  destruct (extract_qdstring_ok remaining) as [B P].
  destruct (extract_qdstring remaining) as [[e r0]|err] eqn:E; cbn [bind].
  - specialize (P e r0 eq_refl). destruct (IH r0 (acc ++ [e]) ltac:(lia)) as [B2 P2]. split; [exact B2|].
    intros a r H. specialize (P2 a r H). lia.
  - split; [exact B|discriminate].
Qed.

Lemma ext_loop_benign : forall fuel value d, (length value < fuel)%nat -> benign (ext_loop fuel value d).
Proof.
  induction fuel as [|f IH]; intros value d Hf; [lia|]. cbn [ext_loop].
  destruct value as [|c v]; [exact I|]. set (value := c :: v) in *.
  destruct (usplit1 SPC (lstrip_chars [SPC] value)) as [[key remaining]|] eqn:E; [|exact I].
  unfold usplit1 in E. apply usplit1_aux_len in E. pose proof (lstrip_chars_len [SPC] value) as L1.
  set (rem := lstrip_chars [SPC] remaining). pose proof (lstrip_chars_len [SPC] remaining) as L2. fold rem in L2.
  destruct (starts_with LP rem).
  - set (rem2 := lstrip_chars [SPC] (tl rem)).
    assert (L3 : (length rem2 <= length rem)%nat).
    { unfold rem2. pose proof (lstrip_chars_len [SPC] (tl rem)). destruct rem; cbn [tl length] in *; lia. }
    destruct (ext_list_loop_ok (S (length rem2)) rem2 [] ltac:(lia)) as [B P].
    destruct (ext_list_loop _ rem2 []) as [[entries rest]|err] eqn:EL; cbn [bind]; [|exact B].
    specialize (P entries rest eq_refl). apply IH. destruct rest; cbn [tl length] in *; lia.
  - destruct (extract_qdstring_ok rem) as [B P].
    destruct (extract_qdstring rem) as [[e rest]|err] eqn:EQ; cbn [bind]; [|exact B].
    specialize (P e rest eq_refl). apply IH. lia.
Qed.

Lemma parse_extensions_benign v : benign (parse_extensions v).
Proof.
  unfold parse_extensions. destruct v as [[|c s]|]; try exact I. apply ext_loop_benign. lia.
Qed.

(* ---- the three parsers *)
Theorem oc_from_string_total s : benign (oc_from_string s).
Proof.
  unfold oc_from_string. apply benign_bind; [apply do_match_benign|]. intros cs _.
  apply benign_bind; [apply parse_qdstring_opt_benign|]. intros desc _.
  apply benign_bind; [apply parse_extensions_benign|]. intros ext _. exact I.
Qed.

Theorem dcr_from_string_total s : benign (dcr_from_string s).
Proof.
  unfold dcr_from_string. apply benign_bind; [apply do_match_benign|]. intros cs _.
  apply benign_bind; [apply parse_qdstring_opt_benign|]. intros desc _.
  apply benign_bind; [apply parse_extensions_benign|]. intros ext _. exact I.
Qed.

Lemma noidlen_groups : must_capture rx_noidlen_g_value rx_noidlen = true /\ must_capture rx_noidlen_g_len rx_noidlen = true.
Proof. split; vm_compute; reflexivity. Qed.

Theorem at_from_string_total s : benign (at_from_string s).
Proof.
  unfold at_from_string. apply benign_bind; [apply do_match_benign|]. intros cs _.
  apply benign_bind.
  - unfold split_syntax. destruct (grp s cs rx_attribute_type_g_syntax) as [[|c raw]|]; try exact I.
    set (syn := strip_chars [SQ] (c :: raw)).
    pose proof (re_match_total rx_noidlen rx_noidlen_end syn) as T.
    destruct (re_match rx_noidlen rx_noidlen_end syn) as [| |p c2] eqn:E; [congruence|exact I|].
    destruct noidlen_groups as [G1 G2].
    destruct (re_match_captures _ _ _ _ _ _ E G1) as ([a1 b1] & C1).
    destruct (re_match_captures _ _ _ _ _ _ E G2) as ([a2 b2] & C2).
    unfold group_text. rewrite C1, C2. exact I.
  - intros [syntax slen] _.
    apply benign_bind; [apply parse_qdstring_opt_benign|]. intros desc _.
    apply benign_bind; [apply parse_extensions_benign|]. intros ext _. exact I.
Qed.
