(* Executable versions of the well-formedness conditions of C16, with proofs that they imply the
   conditions; the correspondence check evaluates them on every generated description, so the hypotheses of
   the round-trip theorems are known to cover what the RFC 4512 generator calls valid. *)
From Coq Require Import NArith ZArith List Bool Arith Lia ZifyBool.
From SV Require Import Base.Py Rx.Syntax Gen.Generated Schema.Model Schema.Proofs Schema.Regex Schema.Match Schema.Chain
  Schema.ObjectClass Schema.DitContentRule Schema.AttributeType.
Import ListNotations.
Local Open Scope N_scope.

Definition arc_b (a : list N) : bool :=
  match a with
  | [d] => is_dig d
  | l :: d :: ds => is_ldig l && is_dig d && forallb is_dig ds
  | [] => false
  end.
Lemma arc_b_ok a : arc_b a = true -> arc_ok a.
Proof.
  destruct a as [|l [|d ds]]; cbn; [discriminate|tauto|]. intros H. apply andb_true_iff in H. destruct H as [H H3].
  apply andb_true_iff in H. destruct H as [H1 H2]. repeat split; try assumption. rewrite forallb_forall in H3. now apply Forall_forall.
Qed.

Lemma usplit_aux_nonempty sep : forall s cur, usplit_aux sep s cur <> [].
Proof. induction s as [|c r IH]; intros cur; cbn [usplit_aux]; [discriminate|]. destruct (c =? sep); [discriminate|apply IH]. Qed.

Lemma usplit_aux_concat sep : forall s cur p ps,
  usplit_aux sep s cur = p :: ps -> rev cur ++ s = p ++ concat (map (cons sep) ps).
Proof.
  induction s as [|c r IH]; intros cur p ps H; cbn [usplit_aux] in H.
  - injection H as <- <-. reflexivity.
  - destruct (c =? sep) eqn:Ec; cbv iota in H.
    + apply N.eqb_eq in Ec. subst c. injection H as <- <-. destruct (usplit_aux sep r []) as [|q qs] eqn:E.
      * now apply usplit_aux_nonempty in E.
      * pose proof (IH [] q qs E) as J. cbn [rev app] in J. cbn [map concat app]. rewrite <- J. reflexivity.
    + rewrite <- (IH (c :: cur) p ps H). cbn [rev]. now rewrite <- app_assoc.
Qed.

Definition numoid_b (o : list N) : bool :=
  match usplit 46 o with
  | a0 :: a1 :: arcs => arc_b a0 && arc_b a1 && forallb arc_b arcs
  | _ => false
  end.
Lemma numoid_b_ok o : numoid_b o = true -> numoid_ok o.
Proof.
  unfold numoid_b, usplit. destruct (usplit_aux 46 o []) as [|a0 [|a1 arcs]] eqn:E; try discriminate.
  intros H. apply andb_true_iff in H. destruct H as [H H3]. apply andb_true_iff in H. destruct H as [H1 H2].
  exists a0, a1, arcs. split; [|split; [|split]].
  - apply (usplit_aux_concat 46 o [] a0 (a1 :: arcs) E).
  - now apply arc_b_ok.
  - now apply arc_b_ok.
  - apply Forall_forall. intros a Ha. apply arc_b_ok. rewrite forallb_forall in H3. now apply H3.
Qed.

Definition descr_b (d : list N) : bool := match d with a :: w => is_alpha a && forallb is_keyc w | [] => false end.
Lemma descr_b_ok d : descr_b d = true -> descr_ok d.
Proof.
  destruct d as [|a w]; [discriminate|]. cbn. intros H. apply andb_true_iff in H. destruct H as [H1 H2]. split; [assumption|].
  apply Forall_forall. rewrite forallb_forall in H2. exact H2.
Qed.

Definition oid_b (o : list N) : bool := descr_b o || numoid_b o.
Lemma oid_b_ok o : oid_b o = true -> oid_ok o.
Proof. intros H. apply orb_true_iff in H. destruct H as [H|H]; [left; now apply descr_b_ok|right; now apply numoid_b_ok]. Qed.

Lemma forallb_Forall {A} (f : A -> bool) (P : A -> Prop) l : (forall x, f x = true -> P x) -> forallb f l = true -> Forall P l.
Proof. intros H Hl. apply Forall_forall. intros x Hx. apply H. rewrite forallb_forall in Hl. now apply Hl. Qed.

Definition nonempty_b (v : list N) : bool := match v with [] => false | _ => true end.
Lemma nonempty_b_ok v : nonempty_b v = true -> v <> [].
Proof. destruct v; [discriminate|discriminate]. Qed.

Definition ext_b (x : ustr * list ustr) : bool := nonempty_b (fst x) && forallb is_xc (fst x) && forallb nonempty_b (snd x).
Lemma ext_b_ok x : ext_b x = true -> ext_ok x.
Proof.
  intros H. apply andb_true_iff in H. destruct H as [H H3]. apply andb_true_iff in H. destruct H as [H1 H2]. split; [split|].
  - now apply nonempty_b_ok.
  - apply (forallb_Forall is_xc); auto.
  - apply (forallb_Forall nonempty_b); [apply nonempty_b_ok|assumption].
Qed.

Fixpoint nodup_b (l : list ustr) : bool := match l with [] => true | x :: r => negb (existsb (ueqb x) r) && nodup_b r end.
Lemma nodup_b_ok l : nodup_b l = true -> NoDup l.
Proof.
  induction l as [|x r IH]; [constructor|]. cbn. intros H. apply andb_true_iff in H. destruct H as [H1 H2]. constructor; [|now apply IH].
  intros Hin. apply negb_true_iff in H1. assert (existsb (ueqb x) r = true); [|congruence].
  apply existsb_exists. exists x. split; [assumption|]. now apply ueqb_eq.
Qed.

Definition desc_b (d : option ustr) : bool := match d with Some v => nonempty_b v | None => true end.
Lemma desc_b_ok d : desc_b d = true -> match d with Some v => v <> [] | None => True end.
Proof. destruct d as [v|]; [apply nonempty_b_ok|intros _; exact I]. Qed.

Definition wf_oc_b (o : objclass) : bool :=
  numoid_b (oc_oid o) && forallb descr_b (oc_names o) && desc_b (oc_desc o) && forallb oid_b (oc_sup o) && (oc_kind o <? 3) &&
  forallb oid_b (oc_must o) && forallb oid_b (oc_may o) && forallb ext_b (oc_ext o) && nodup_b (keys_of (oc_ext o)).

Ltac split_andb H :=
  repeat match type of H with (_ && _) = true => let H' := fresh "B" in apply andb_true_iff in H; destruct H as [H H'] end.

Lemma wf_oc_b_ok o : wf_oc_b o = true -> wf_oc o.
Proof.
  unfold wf_oc_b. intros H. split_andb H. constructor.
  - now apply numoid_b_ok.
  - apply (forallb_Forall descr_b); [apply descr_b_ok|assumption].
  - now apply desc_b_ok.
  - apply (forallb_Forall oid_b); [apply oid_b_ok|assumption].
  - lia.
  - apply (forallb_Forall oid_b); [apply oid_b_ok|assumption].
  - apply (forallb_Forall oid_b); [apply oid_b_ok|assumption].
  - apply (forallb_Forall ext_b); [apply ext_b_ok|assumption].
  - now apply nodup_b_ok.
Qed.

Definition wf_dcr_b (o : ditrule) : bool :=
  numoid_b (dc_oid o) && forallb descr_b (dc_names o) && desc_b (dc_desc o) && forallb oid_b (dc_aux o) &&
  forallb oid_b (dc_must o) && forallb oid_b (dc_may o) && forallb oid_b (dc_not o) && forallb ext_b (dc_ext o) && nodup_b (keys_of (dc_ext o)).

Lemma wf_dcr_b_ok o : wf_dcr_b o = true -> wf_dcr o.
Proof.
  unfold wf_dcr_b. intros H. split_andb H. constructor.
  - now apply numoid_b_ok.
  - apply (forallb_Forall descr_b); [apply descr_b_ok|assumption].
  - now apply desc_b_ok.
  - apply (forallb_Forall oid_b); [apply oid_b_ok|assumption].
  - apply (forallb_Forall oid_b); [apply oid_b_ok|assumption].
  - apply (forallb_Forall oid_b); [apply oid_b_ok|assumption].
  - apply (forallb_Forall oid_b); [apply oid_b_ok|assumption].
  - apply (forallb_Forall ext_b); [apply ext_b_ok|assumption].
  - now apply nodup_b_ok.
Qed.

Definition oid_opt_b (o : option ustr) : bool := match o with Some v => oid_b v | None => true end.
Lemma oid_opt_b_ok o : oid_opt_b o = true -> oid_opt_ok o.
Proof. destruct o as [v|]; [apply oid_b_ok|intros _; exact I]. Qed.

Definition syn_b (syntax : option ustr) (len : option Z) : bool :=
  match syntax with
  | Some s => numoid_b s && match len with Some z => (0 <=? z)%Z | None => true end
  | None => match len with None => true | Some _ => false end
  end.
Lemma syn_b_ok s l : syn_b s l = true -> syn_ok s l.
Proof.
  destruct s as [s|]; cbn.
  - intros H. apply andb_true_iff in H. destruct H as [H1 H2]. split; [now apply numoid_b_ok|]. destruct l; cbn; [lia|trivial].
  - destruct l; [discriminate|reflexivity].
Qed.

Definition wf_at_b (a : attrtype) : bool :=
  numoid_b (at_oid a) && forallb descr_b (at_names a) && desc_b (at_desc a) && oid_opt_b (at_sup a) && oid_opt_b (at_equality a) &&
  oid_opt_b (at_ordering a) && oid_opt_b (at_substr a) && syn_b (at_syntax a) (at_syntax_len a) && (at_usage a <? 4) &&
  forallb ext_b (at_ext a) && nodup_b (keys_of (at_ext a)).

Lemma wf_at_b_ok a : wf_at_b a = true -> wf_at a.
Proof.
  unfold wf_at_b. intros H. split_andb H. constructor.
  - now apply numoid_b_ok.
  - apply (forallb_Forall descr_b); [apply descr_b_ok|assumption].
  - now apply desc_b_ok.
  - now apply oid_opt_b_ok.
  - now apply oid_opt_b_ok.
  - now apply oid_opt_b_ok.
  - now apply oid_opt_b_ok.
  - now apply syn_b_ok.
  - lia.
  - apply (forallb_Forall ext_b); [apply ext_b_ok|assumption].
  - now apply nodup_b_ok.
Qed.

(* the round trips, for descriptions accepted by the executable conditions *)
Theorem oc_round_trip_b o : wf_oc_b o = true -> exists s, oc_print o = Ok s /\ oc_from_string s = Ok o.
Proof. intros H. apply oc_round_trip. now apply wf_oc_b_ok. Qed.
Theorem at_round_trip_b a : wf_at_b a = true -> exists s, at_print a = Ok s /\ at_from_string s = Ok a.
Proof. intros H. apply at_round_trip. now apply wf_at_b_ok. Qed.
Theorem dcr_round_trip_b o : wf_dcr_b o = true -> exists s, dcr_print o = Ok s /\ dcr_from_string s = Ok o.
Proof. intros H. apply dcr_round_trip. now apply wf_dcr_b_ok. Qed.
