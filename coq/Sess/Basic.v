(* Elementary facts about the session model used by all session proofs. *)
From Coq Require Import ZArith NArith List Bool Lia.
From Coq.Strings Require Import Byte.
From SV Require Import Base.Bytes Base.Py Gen.Generated Asn1.Model Msg.Types Msg.Encode Msg.Decode Sess.Model.
Import ListNotations.
Local Open Scope Z_scope.

Lemma state_eqb_eq a b : state_eqb a b = true <-> a = b.
Proof. destruct a, b; simpl; split; congruence. Qed.

Lemma zmem_in x l : zmem x l = true <-> In x l.
Proof.
  unfold zmem. rewrite existsb_exists. split.
  - intros (y & Hy & E). apply Z.eqb_eq in E. now subst.
  - intros H. exists x. split; [assumption|apply Z.eqb_refl].
Qed.

Lemma zdel_in x y l : In y (zdel x l) <-> In y l /\ y <> x.
Proof.
  unfold zdel. rewrite filter_In. split; intros [H1 H2]; split; auto.
  - intros ->. rewrite Z.eqb_refl in H2. discriminate.
  - destruct (Z.eqb_spec x y); [congruence|reflexivity].
Qed.

Lemma zadd_in x y l : In y (zadd x l) <-> In y l \/ y = x.
Proof.
  unfold zadd. destruct (zmem x l) eqn:E.
  - apply zmem_in in E. split; [auto|]. intros [H| ->]; assumption.
  - rewrite in_app_iff. simpl. intuition.
Qed.

Lemma zmem_zdel x l : zmem x (zdel x l) = false.
Proof.
  destruct (zmem x (zdel x l)) eqn:E; [|reflexivity].
  apply zmem_in, zdel_in in E. destruct E as [_ E]. congruence.
Qed.

(* base_send: what can happen *)
Lemma base_send_none s m s' : base_send s m = (s', None) -> s' = s.
Proof.
  unfold base_send. destruct (s_state s); try (intros H; injection H as <-; reflexivity);
    destruct (_ && _ && _); intros H; inversion H; reflexivity.
Qed.

Lemma base_send_some s m s' id :
  base_send s m = (s', Some id) ->
  id = m_id m /\ s_state s <> CLOSED /\
  s_out s' = s_out s ++ enc_msg m /\
  s_state s' = (if state_eqb (s_state s) BEFORE_OPEN then OPENED else s_state s) /\
  s_outstanding s' = s_outstanding s /\ s_searches s' = s_searches s /\
  s_counter s' = s_counter s /\ s_in s' = s_in s /\ s_role s' = s_role s.
Proof.
  unfold base_send. destruct s as [r st out os ss cnt inb]. simpl.
  destruct st; simpl; try discriminate;
    try (destruct (_ && _)); intros H; inversion H; subst; simpl; repeat split; congruence.
Qed.

Lemma base_send_closed s m : s_state s = CLOSED -> base_send s m = (s, None).
Proof. unfold base_send. now intros ->. Qed.
