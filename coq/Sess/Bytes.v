(* C11, composed: the client and the server session joined by two BYTE pipes - calls append encodings to the
   outgoing buffer, data_to_send moves any amount of it onto the wire, any non-empty prefix of the wire is
   delivered to receive - simulate the message-level joint system of Sess/Joint.v.  So the theorems proved there
   (no protocol error other than the designed terminations, agreement when everything is delivered) hold for
   sessions that exchange octets cut into arbitrary chunks. *)
From Coq Require Import ZArith NArith List Bool Lia.
From Coq.Strings Require Import Byte.
From SV Require Import Base.Bytes Base.Py Gen.Generated Asn1.Model Msg.Types Msg.Encode Msg.Decode Msg.RoundTrip Msg.Progress
  Sess.Model Sess.Basic Sess.Send Sess.Drain Sess.Chunk Sess.Frame Sess.Proto Sess.Joint.
Import ListNotations.
Local Open Scope Z_scope.

(* ---- a prefix of the octets of a message sequence parses to a prefix of the messages *)
Lemma app_split_le {A} (a b c e : list A) : a ++ b = c ++ e -> (length c <= length a)%nat -> exists a', a = c ++ a' /\ a' ++ b = e.
Proof.
  revert a. induction c as [|x c IH]; intros a H L; [exists a; split; [reflexivity|exact H]|].
  destruct a as [|y a]; [cbn in L; lia|]. cbn [app] in H. injection H as -> H. cbn [length] in L.
  destruct (IH a H ltac:(lia)) as (a' & -> & E). exists a'. split; [reflexivity|exact E].
Qed.
Lemma app_split_lt {A} (a b c e : list A) : a ++ b = c ++ e -> (length a < length c)%nat -> exists x, c = a ++ x /\ x <> [] /\ b = x ++ e.
Proof.
  revert c. induction a as [|y a IH]; intros c H L.
  - exists c. cbn [app] in *. split; [reflexivity|]. split; [destruct c; [cbn in L; lia|discriminate]|exact H].
  - destruct c as [|x c]; [cbn in L; lia|]. cbn [app] in H. injection H as -> H. cbn [length] in L.
    destruct (IH c H ltac:(lia)) as (x0 & -> & Hx & E). exists x0. split; [reflexivity|]. split; assumption.
Qed.

Definition incomplete (d : nat) (x : list byte) : Prop := parse d x = Ok ([], x).

Lemma parse_prefix d : forall q P b, Forall (wf_msg d) q -> P ++ b = concat (map enc_msg q) ->
  exists k rest1, parse d P = Ok (map norm_msg (firstn k q), rest1) /\ rest1 ++ b = concat (map enc_msg (skipn k q)) /\
                  incomplete d rest1.
Proof.
  induction q as [|m q IH]; intros P b W E.
  - cbn [map concat] in E. apply app_eq_nil in E. destruct E as [-> ->]. exists 0%nat, []. repeat split; apply parse_nil.
  - inversion W as [|? ? Wm Wq]; subst. cbn [map concat] in E.
    destruct (le_lt_dec (length (enc_msg m)) (length P)) as [L|L].
    + destruct (app_split_le _ _ _ _ E L) as (P' & -> & E').
      destruct (IH P' b Wq E') as (k & rest1 & Pk & Er & Inc).
      exists (S k), rest1. cbn [firstn skipn map]. split; [|split; assumption].
      rewrite parse_step by apply enc_msg_nonempty.
      rewrite (msg_rt d m P' Wm). rewrite Pk. reflexivity.
    + destruct (app_split_lt _ _ _ _ E L) as (x & Ex & Hx & ->).
      exists 0%nat, P. cbn [firstn skipn map concat]. split; [|split].
      * destruct P as [|p0 P0] eqn:EP; [apply parse_nil|]. rewrite <- EP in *.
        assert (Hne : P <> []) by (rewrite EP; discriminate).
        rewrite (parse_step d P Hne).
        pose proof (msg_rt d m [] Wm) as RT. rewrite app_nil_r, Ex in RT.
        destruct (unpack_message d P) as [[m' r']|e] eqn:U.
        -- rewrite (unpack_message_prefix _ _ x _ _ U) in RT. injection RT as _ RT. apply app_eq_nil in RT. destruct RT as [_ RT]. congruence.
        -- destruct (unpack_message_prefix_err _ _ x _ U) as [->|U2]; [reflexivity|]. rewrite U2 in RT. discriminate.
      * rewrite Ex, <- app_assoc. reflexivity.
      * unfold incomplete. destruct P as [|p0 P0] eqn:EP; [apply parse_nil|]. rewrite <- EP in *.
        assert (Hne : P <> []) by (rewrite EP; discriminate).
        rewrite (parse_step d P Hne).
        pose proof (msg_rt d m [] Wm) as RT. rewrite app_nil_r, Ex in RT.
        destruct (unpack_message d P) as [[m' r']|e] eqn:U.
        -- rewrite (unpack_message_prefix _ _ x _ _ U) in RT. injection RT as _ RT. apply app_eq_nil in RT. destruct RT as [_ RT]. congruence.
        -- destruct (unpack_message_prefix_err _ _ x _ U) as [->|U2]; [reflexivity|]. rewrite U2 in RT. discriminate.
Qed.

(* ---- sessions that differ only in their buffers *)
Definition eqcore (a b : sess) : Prop :=
  s_role a = s_role b /\ s_state a = s_state b /\ s_outstanding a = s_outstanding b /\ s_searches a = s_searches b /\
  s_counter a = s_counter b.

Lemma eqcore_refl a : eqcore a a.
Proof. repeat split. Qed.
Lemma eqcore_sym a b : eqcore a b -> eqcore b a.
Proof. unfold eqcore. intuition congruence. Qed.
Lemma eqcore_trans a b c : eqcore a b -> eqcore b c -> eqcore a c.
Proof. unfold eqcore. intuition congruence. Qed.
Lemma eqcore_set_in a x : eqcore a (set_in a x).
Proof. repeat split. Qed.
Lemma eqcore_set_out a x : eqcore a (set_out a x).
Proof. repeat split. Qed.
Lemma eqcore_close a b : eqcore a b -> eqcore (close a) (close b).
Proof. unfold eqcore, close. cbn. intuition congruence. Qed.

Ltac red_sess2 :=
  cbv beta iota zeta delta [process_client process_server set_in set_out set_searches set_outstanding set_state s_in s_out s_state
       s_role s_outstanding s_searches s_counter m_id m_op m_controls kind_of is_response is_request negb andb orb fst snd].
Ltac split_atomic2 :=
  repeat (red_sess2;
          match goal with
          | |- context [if ?b then _ else _] =>
              lazymatch b with
              | context [if _ then _ else _] => fail
              | context [match _ with _ => _ end] => fail
              | _ => destruct b
              end
          end).

Lemma process_client_set_out s m x :
  process_client (set_out s x) m = (set_out (fst (process_client s m)) x, snd (process_client s m)).
Proof.
  destruct s as [r st out os ss cnt inb]. destruct m as [mid o cs].
  destruct o; split_atomic2; red_sess2; reflexivity.
Qed.
Lemma process_server_set_out s m x :
  process_server (set_out s x) m = (set_out (fst (process_server s m)) x, snd (process_server s m)).
Proof.
  destruct s as [r st out os ss cnt inb]. destruct m as [mid o cs].
  destruct o; destruct st; destruct os; split_atomic2; red_sess2; reflexivity.
Qed.
Lemma process_all_set_out ms : forall s x,
  process_all (set_out s x) ms = (set_out (fst (process_all s ms)) x, snd (process_all s ms)).
Proof.
  induction ms as [|m ms IH]; intros s x; cbn [process_all]; [reflexivity|].
  destruct (is_notice (m_op m)); [reflexivity|].
  change (s_role (set_out s x)) with (s_role s).
  destruct (kind_of (m_op m)); try reflexivity;
    (destruct (s_role s);
     [rewrite process_client_set_out; destruct (process_client s m) as [s1 [p|]]; cbn [fst snd]; [reflexivity|apply IH]
     |rewrite process_server_set_out; destruct (process_server s m) as [s1 [p|]]; cbn [fst snd]; [reflexivity|apply IH]]).
Qed.

Lemma eqcore_reio a b : eqcore a b -> b = set_in (set_out a (s_out b)) (s_in b).
Proof.
  destruct a, b. unfold eqcore. cbn. intros (-> & -> & -> & -> & ->). reflexivity.
Qed.

Lemma process_all_core ms a b :
  eqcore a b -> eqcore (fst (process_all a ms)) (fst (process_all b ms)) /\ snd (process_all a ms) = snd (process_all b ms).
Proof.
  intros E. pose proof (eqcore_reio a b E) as Eb. set (o := s_out b) in *. set (i := s_in b) in *. clearbody o i. subst b.
  rewrite process_all_set_in, process_all_set_out. cbn [fst snd]. split; [|reflexivity].
  eapply eqcore_trans; [apply eqcore_set_out|apply eqcore_set_in].
Qed.

Lemma process_client_norm s m : process_client s (norm_msg m) = process_client s m.
Proof. reflexivity. Qed.
Lemma process_server_norm s m : process_server s (norm_msg m) = process_server s m.
Proof. reflexivity. Qed.

Lemma process_all_norm ms : forall s, process_all s (map norm_msg ms) = process_all s ms.
Proof.
  induction ms as [|m ms IH]; intros s; [reflexivity|]. cbn [map process_all].
  change (m_op (norm_msg m)) with (m_op m). rewrite process_client_norm, process_server_norm.
  destruct (is_notice (m_op m)); [reflexivity|].
  destruct (kind_of (m_op m)); try reflexivity;
    (destruct (s_role s);
     [destruct (process_client s m) as [s1 [p|]]; [reflexivity|apply IH]
     |destruct (process_server s m) as [s1 [p|]]; [reflexivity|apply IH]]).
Qed.

(* ---- API calls that send: same outcome and same effect on sessions that differ only in their buffers *)
Ltac red_step :=
  cbv beta iota zeta delta [step client_send server_send base_send ret set_in set_out set_searches set_outstanding set_state set_counter
       s_in s_out s_state s_role s_outstanding s_searches s_counter m_id m_op m_controls kind_of negb andb orb fst snd is_notice
       server_result eqcore close].
Ltac step_cases :=
  repeat (red_step;
          match goal with
          | |- context [if ?b then _ else _] =>
              lazymatch b with
              | context [if _ then _ else _] => fail
              | context [match _ with _ => _ end] => fail
              | _ => destruct b
              end
          | |- context [match ?x with _ => _ end] =>
              lazymatch x with
              | context [if _ then _ else _] => fail
              | context [match _ with _ => _ end] => fail
              | _ => destruct x
              end
          end).

Definition send_call (c : call) : bool := client_call c || server_call c.

Lemma step_core d a b c :
  eqcore a b -> send_call c = true ->
  eqcore (fst (step d a c)) (fst (step d b c)) /\ snd (step d a c) = snd (step d b c).
Proof.
  destruct a as [r st out os ss cnt inb], b as [r2 st2 out2 os2 ss2 cnt2 inb2]. unfold eqcore at 1. cbn [s_role s_state s_outstanding s_searches s_counter].
  intros (-> & -> & -> & -> & ->) Hc.
  destruct c; try discriminate Hc; destruct r2; step_cases; red_step; repeat split; reflexivity.
Qed.

Lemma matching_call_core a b c : eqcore a b -> matching_call a c -> matching_call b c.
Proof. intros (_ & E2 & _ & E4 & _). unfold matching_call. destruct c; rewrite <- ?E4, <- ?E2; trivial. Qed.

Lemma msg_of_call_core a b c : eqcore a b -> msg_of_call a c = msg_of_call b c.
Proof. intros (_ & _ & _ & _ & E). unfold msg_of_call. destruct c; rewrite ?E; reflexivity. Qed.

(* ---- helpers about receive and send calls *)
Lemma receive_err d s data ms rest s2 wr nt :
  s_state s <> CLOSED -> parse d (s_in s ++ data) = Ok (ms, rest) -> process_all (set_in s rest) ms = (s2, Some (PF wr nt)) ->
  receive d s data = (close s2, OProtoErr (attach (s_role s) wr nt)).
Proof.
  intros NC P PA. unfold receive, parse in *. destruct (s_state s) eqn:S; [| | |congruence].
  all: destruct (s_in s) as [|b0 i0] eqn:SI; cbn [app] in *; rewrite P.
  all: match goal with
       | |- context [process_all ?s1 ?mm] =>
           assert (E : s1 = set_in s rest)
             by (destruct rest; try reflexivity; rewrite <- SI; symmetry; apply set_in_same);
           rewrite E; clear E; rewrite PA
       end; reflexivity.
Qed.

Lemma receive_crash d s data ms rest s2 k :
  s_state s <> CLOSED -> parse d (s_in s ++ data) = Ok (ms, rest) -> process_all (set_in s rest) ms = (s2, Some (PCrash k)) ->
  receive d s data = (s2, OOther (Crash k)).
Proof.
  intros NC P PA. unfold receive, parse in *. destruct (s_state s) eqn:S; [| | |congruence].
  all: destruct (s_in s) as [|b0 i0] eqn:SI; cbn [app] in *; rewrite P.
  all: match goal with
       | |- context [process_all ?s1 ?mm] =>
           assert (E : s1 = set_in s rest)
             by (destruct rest; try reflexivity; rewrite <- SI; symmetry; apply set_in_same);
           rewrite E; clear E; rewrite PA
       end; reflexivity.
Qed.

Lemma receive_closed d s data : s_state s = CLOSED -> receive d s data = (s, OProtoErr (attach (s_role s) None false)).
Proof. intros H. unfold receive. now rewrite H. Qed.

(* send calls leave the incoming buffer alone *)
Lemma step_send_in d s c : send_call c = true -> s_in (fst (step d s c)) = s_in s.
Proof.
  intros Hc. destruct s as [r st out os ss cnt inb].
  destruct c; try discriminate Hc; destruct r; step_cases; red_step; reflexivity.
Qed.

(* an accepted send call appends exactly the encoding of its message *)
Lemma step_send_out d s c s' o m :
  send_call c = true -> step d s c = (s', o) -> accepted o = true -> msg_of_call s c = Some m -> s_out s' = s_out s ++ enc_msg m.
Proof.
  intros Hc E A M. pose proof (step_stream d s c s' o E) as H. unfold sent_of in H. rewrite M, A in H.
  destruct o; try discriminate A; exact H.
Qed.

(* an accepted send call was made on a session that was not closed *)
Lemma accepted_open d s c s' o : send_call c = true -> step d s c = (s', o) -> accepted o = true -> s_state s <> CLOSED.
Proof.
  intros Hc E A Cl. destruct s as [r st out os ss cnt inb]. cbn in Cl. subst st.
  destruct c; try discriminate Hc; destruct r; revert E; step_cases; red_step; intros E; inversion E; subst; discriminate A.
Qed.

Lemma process_all_fail_split : forall ms s s2 p, process_all s ms = (s2, Some p) ->
  exists ms1 m ms2 s1, ms = ms1 ++ m :: ms2 /\ process_all s ms1 = (s1, None) /\ process_all s1 [m] = (s2, Some p).
Proof.
  induction ms as [|m ms IH]; intros s s2 p H; [discriminate|].
  rewrite process_all_cons in H. destruct (process_all s [m]) as [s1 [q|]] eqn:E.
  - injection H as <- <-. exists [], m, ms, s. repeat split; assumption.
  - destruct (IH s1 s2 p H) as (ms1 & m' & ms2 & s1' & -> & P1 & P2).
    exists (m :: ms1), m', ms2, s1'. split; [reflexivity|]. split; [|exact P2].
    rewrite process_all_cons, E. exact P1.
Qed.

Lemma enc_concat_nil q : concat (map enc_msg q) = [] -> q = [].
Proof. destruct q as [|m q]; [reflexivity|]. cbn [map concat]. intros H. now apply enc_msg_nonempty in H. Qed.

(* ======== the byte-level joint system ======== *)
Record bjoint := mkB { bcl : sess; bsv : sess; wcs : list byte; wsc : list byte }.
Definition binit : bjoint := mkB (init Client) (init Server) [] [].

Inductive bstep (d : nat) : bjoint -> bjoint -> Prop :=
| B_client b c cl' o m :
    client_call c = true -> step d (bcl b) c = (cl', o) -> accepted o = true -> msg_of_call (bcl b) c = Some m -> wf_msg d m ->
    bstep d b (mkB cl' (bsv b) (wcs b) (wsc b))
| B_server b c sv' o m :
    server_call c = true -> matching_call (bsv b) c ->
    step d (bsv b) c = (sv', o) -> accepted o = true -> msg_of_call (bsv b) c = Some m -> wf_msg d m ->
    bstep d b (mkB (bcl b) sv' (wcs b) (wsc b))
| B_drain_c b amount cl' head :
    step d (bcl b) (Drain amount) = (cl', ORetBytes head) -> bstep d b (mkB cl' (bsv b) (wcs b ++ head) (wsc b))
| B_drain_s b amount sv' head :
    step d (bsv b) (Drain amount) = (sv', ORetBytes head) -> bstep d b (mkB (bcl b) sv' (wcs b) (wsc b ++ head))
| B_deliver_cs b chunk rest sv' o :
    wcs b = chunk ++ rest -> chunk <> [] -> step d (bsv b) (Receive chunk) = (sv', o) -> bstep d b (mkB (bcl b) sv' rest (wsc b))
| B_deliver_sc b chunk rest cl' o :
    wsc b = chunk ++ rest -> chunk <> [] -> step d (bcl b) (Receive chunk) = (cl', o) -> bstep d b (mkB cl' (bsv b) (wcs b) rest).

Inductive breach (d : nat) : bjoint -> Prop :=
| breach_init : breach d binit
| breach_step b b' : breach d b -> bstep d b b' -> breach d b'.

(* one pipe: the octets between the sender's API and the receiver's parser are the encodings of the messages in
   flight, the receiver holds no complete message back; a closed receiver has nothing in flight *)
Definition pipe (d : nat) (recv : sess) (bytes : list byte) (q : list msg) : Prop :=
  (s_state recv = CLOSED -> q = []) /\
  (s_state recv <> CLOSED -> bytes = concat (map enc_msg q) /\ incomplete d (s_in recv)).

Definition Rel (d : nat) (b : bjoint) (j : joint) : Prop :=
  eqcore (bcl b) (cl j) /\ eqcore (bsv b) (sv j) /\ Forall (wf_msg d) (qcs j) /\ Forall (wf_msg d) (qsc j) /\
  pipe d (bsv b) (s_in (bsv b) ++ wcs b ++ s_out (bcl b)) (qcs j) /\
  pipe d (bcl b) (s_in (bcl b) ++ wsc b ++ s_out (bsv b)) (qsc j).

(* ---- message-level bookkeeping *)
Lemma drop_all_cs d : forall q j, jreach d j -> qcs j = q -> s_state (sv j) = CLOSED -> jreach d (mkJ (cl j) (sv j) [] (qsc j)).
Proof.
  induction q as [|m q IH]; intros j R E C.
  - destruct j as [a b x y]. cbn in *. now subst x.
  - pose proof (jreach_step d j _ R (J_dropcs d j m q E C)) as R1. exact (IH _ R1 eq_refl C).
Qed.
Lemma drop_all_sc d : forall q j, jreach d j -> qsc j = q -> s_state (cl j) = CLOSED -> jreach d (mkJ (cl j) (sv j) (qcs j) []).
Proof.
  induction q as [|m q IH]; intros j R E C.
  - destruct j as [a b x y]. cbn in *. now subst y.
  - pose proof (jreach_step d j _ R (J_dropsc d j m q E C)) as R1. exact (IH _ R1 eq_refl C).
Qed.

(* a batch that the receiver accepts = its messages delivered one at a time *)
Lemma deliver_many_cs d : forall ms j q' s',
  jreach d j -> qcs j = ms ++ q' -> s_state (sv j) <> CLOSED -> process_all (sv j) ms = (s', None) ->
  jreach d (mkJ (cl j) s' q' (qsc j)).
Proof.
  induction ms as [|m ms IH]; intros j q' s' R E NC P.
  - cbn in P. injection P as <-. destruct j as [a b x y]. cbn in *. now subst x.
  - rewrite process_all_cons in P. destruct (process_all (sv j) [m]) as [s1 [p|]] eqn:P1; [discriminate|].
    pose proof (jreach_step d j _ R (J_dcs d j m (ms ++ q') s1 None E NC P1)) as R1. cbn [after] in R1.
    apply (IH _ q' s' R1); [reflexivity|cbn; eapply process_all_open; eauto|exact P].
Qed.
Lemma deliver_many_sc d : forall ms j q' s',
  jreach d j -> qsc j = ms ++ q' -> s_state (cl j) <> CLOSED -> process_all (cl j) ms = (s', None) ->
  jreach d (mkJ s' (sv j) (qcs j) q').
Proof.
  induction ms as [|m ms IH]; intros j q' s' R E NC P.
  - cbn in P. injection P as <-. destruct j as [a b x y]. cbn in *. now subst y.
  - rewrite process_all_cons in P. destruct (process_all (cl j) [m]) as [s1 [p|]] eqn:P1; [discriminate|].
    pose proof (jreach_step d j _ R (J_dsc d j m (ms ++ q') s1 None E NC P1)) as R1. cbn [after] in R1.
    apply (IH _ q' s' R1); [reflexivity|cbn; eapply process_all_open; eauto|exact P].
Qed.

Lemma pipe_closed d recv bytes : s_state recv = CLOSED -> pipe d recv bytes [].
Proof. intros C. split; [reflexivity|congruence]. Qed.

Lemma eqcore_state a b : eqcore a b -> s_state a = s_state b.
Proof. now intros (_ & E & _). Qed.

Lemma Forall_skipn' {A} (P : A -> Prop) k l : Forall P l -> Forall P (skipn k l).
Proof. intros H. rewrite <- (firstn_skipn k l) in H. apply Forall_app in H. tauto. Qed.

Lemma step_receive d s data : step d s (Receive data) = receive d s data.
Proof. unfold step. destruct (s_role s); reflexivity. Qed.

Lemma unbind_fails s m s2 p : m_op m = UnbindRequest -> process_all s [m] = (s2, Some p) -> p = PF (Some KUnbind) false.
Proof. intros E. cbn [process_all]. rewrite E. cbn. intros H. now injection H as _ <-. Qed.

Lemma notice_fails s m s2 p : is_notice (m_op m) = true -> process_all s [m] = (s2, Some p) -> p = PF (Some KExtResp) true.
Proof. intros E. cbn [process_all]. rewrite E. intros H. now injection H as _ <-. Qed.

Lemma Rel_intro d b j :
  eqcore (bcl b) (cl j) -> eqcore (bsv b) (sv j) -> Forall (wf_msg d) (qcs j) -> Forall (wf_msg d) (qsc j) ->
  pipe d (bsv b) (s_in (bsv b) ++ wcs b ++ s_out (bcl b)) (qcs j) ->
  pipe d (bcl b) (s_in (bcl b) ++ wsc b ++ s_out (bsv b)) (qsc j) -> Rel d b j.
Proof. unfold Rel. tauto. Qed.

(* a pipe whose receiver and total octets did not change *)
Lemma pipe_same d recv recv' bytes bytes' q :
  pipe d recv bytes q -> s_state recv' = s_state recv -> s_in recv' = s_in recv -> bytes' = bytes -> pipe d recv' bytes' q.
Proof. intros [Pc Po] E1 E2 ->. split; [intros C; apply Pc; congruence|]. intros NC. rewrite E2. apply Po. congruence. Qed.

(* ---- delivering a chunk to the server *)
Lemma sim_deliver_cs d b j chunk rest sv' o :
  jreach d j -> Rel d b j -> wcs b = chunk ++ rest -> step d (bsv b) (Receive chunk) = (sv', o) ->
  exists j', jreach d j' /\ Rel d (mkB (bcl b) sv' rest (wsc b)) j' /\
             ((exists k, o = ORetMsgs (map norm_msg (firstn k (qcs j))) /\ qcs j' = skipn k (qcs j) /\ qsc j' = qsc j /\ s_state sv' <> CLOSED /\ s_state (bsv b) <> CLOSED) \/
              (o = OProtoErr PNone /\ s_state sv' = CLOSED /\ s_state (bsv b) <> CLOSED /\ qsc j' = qsc j) \/
              (s_state (bsv b) = CLOSED /\ sv' = bsv b /\ j' = j /\ exists p, o = OProtoErr p)).
Proof.
  intros R (Ec & Es & Wc & Ws & Pcs & Psc) Ew St. rewrite step_receive in St.
  destruct (state_eqb (s_state (bsv b)) CLOSED) eqn:SC.
  - (* a closed receiver refuses the data and does not change *)
    assert (C : s_state (bsv b) = CLOSED) by (destruct (s_state (bsv b)); try discriminate; reflexivity).
    rewrite receive_closed in St by assumption. injection St as <- <-.
    exists j. split; [exact R|]. split; [|right; right; repeat split; try exact C; eexists; reflexivity].
    apply Rel_intro; cbn [bcl bsv wcs wsc]; try assumption.
    split; [apply Pcs|intros NC; congruence].
  - assert (NC : s_state (bsv b) <> CLOSED) by (intros C; rewrite C in SC; discriminate).
    destruct Pcs as [_ Po]. destruct (Po NC) as [Eb Inc]. clear Po.
    set (q := qcs j) in *. set (sv0 := bsv b) in *.
    assert (Eb' : (s_in sv0 ++ chunk) ++ (rest ++ s_out (bcl b)) = concat (map enc_msg q)) by (rewrite <- Eb, Ew, <- !app_assoc; reflexivity).
    destruct (parse_prefix d q _ _ Wc Eb') as (k & rest1 & HP & Hr & Hinc).
    assert (Ecore : eqcore (set_in sv0 rest1) (sv j)) by (eapply eqcore_trans; [apply eqcore_sym, eqcore_set_in|exact Es]).
    destruct (process_all_core (firstn k q) _ _ Ecore) as [Ecore2 Esnd].
    destruct (process_all (set_in sv0 rest1) (firstn k q)) as [s2 r] eqn:PA.
    destruct (process_all (sv j) (firstn k q)) as [sj rj] eqn:PJ. cbn [fst snd] in Ecore2, Esnd. subst rj.
    assert (NCj : s_state (sv j) <> CLOSED) by (rewrite <- (eqcore_state _ _ Es); exact NC).
    assert (Sin : s_in s2 = rest1) by (apply process_all_in in PA; exact PA).
    assert (Sout : s_out s2 = s_out sv0) by (apply process_all_same in PA; destruct PA as (H & _); exact H).
    assert (PAn : process_all (set_in sv0 rest1) (map norm_msg (firstn k q)) = (s2, r)) by (rewrite process_all_norm; exact PA).
    assert (Psc' : forall s3, s_out s3 = s_out sv0 -> pipe d (bcl b) (s_in (bcl b) ++ wsc b ++ s_out s3) (qsc j)).
    { intros s3 E3. rewrite E3. exact Psc. }
    destruct r as [[wr nt|kc]|].
    + (* a message of the batch is refused: by the message-level theorem it is the client's unbind *)
      destruct (process_all_fail_split _ _ _ _ PJ) as (ms1 & m & ms2 & s1 & Ems & P1 & P2).
      assert (Eq : qcs j = ms1 ++ (m :: ms2 ++ skipn k q)).
      { fold q. rewrite <- (firstn_skipn k q) at 1. rewrite Ems, <- app_assoc. reflexivity. }
      pose proof (deliver_many_cs d ms1 j _ s1 R Eq NCj P1) as R1.
      assert (NC1 : s_state s1 <> CLOSED) by (eapply process_all_open; eauto).
      destruct (no_spurious_error_at_server d _ m (ms2 ++ skipn k q) sj _ R1 eq_refl NC1 P2) as [H|(Hu & _)]; [discriminate|].
      pose proof (unbind_fails _ _ _ _ Hu P2) as Hp. injection Hp as -> ->.
      set (j1 := mkJ (cl j) s1 (m :: ms2 ++ skipn k q) (qsc j)) in *.
      pose proof (jreach_step d j1 _ R1 (J_dcs d j1 m (ms2 ++ skipn k q) sj _ eq_refl NC1 P2)) as R2. cbn [after cl sv qcs qsc j1] in R2.
      pose proof (drop_all_cs d _ _ R2 eq_refl eq_refl) as R3. cbn [cl sv qcs qsc] in R3.
      rewrite (receive_err d sv0 chunk _ rest1 s2 _ _ NC HP PAn) in St. injection St as <- <-.
      assert (Att : forall r0, attach r0 (Some KUnbind) false = PNone) by (intros []; reflexivity).
      eexists. split; [exact R3|]. split; [|right; left; rewrite Att; repeat split; exact NC].
      apply Rel_intro; cbn [bcl bsv wcs wsc cl sv qcs qsc]; try assumption.
      * now apply eqcore_close.
      * constructor.
      * apply pipe_closed. reflexivity.
      * apply Psc'. cbn. exact Sout.
    + (* an internal error is excluded by the message-level theorem *)
      exfalso. destruct (process_all_fail_split _ _ _ _ PJ) as (ms1 & m & ms2 & s1 & Ems & P1 & P2).
      assert (Eq : qcs j = ms1 ++ (m :: ms2 ++ skipn k q)).
      { fold q. rewrite <- (firstn_skipn k q) at 1. rewrite Ems, <- app_assoc. reflexivity. }
      pose proof (deliver_many_cs d ms1 j _ s1 R Eq NCj P1) as R1.
      assert (NC1 : s_state s1 <> CLOSED) by (eapply process_all_open; eauto).
      destruct (no_spurious_error_at_server d _ m (ms2 ++ skipn k q) sj _ R1 eq_refl NC1 P2) as [H|(_ & w & n & H)]; discriminate.
    + (* the whole batch is accepted *)
      assert (Eq : qcs j = firstn k q ++ skipn k q) by (fold q; now rewrite firstn_skipn).
      pose proof (deliver_many_cs d _ j _ sj R Eq NCj PJ) as R1.
      assert (Rok : receive d sv0 chunk = (s2, ORetMsgs (map norm_msg (firstn k q)))).
      { apply (receive_ok d sv0 chunk s2 _ NC). exists rest1. split; assumption. }
      rewrite Rok in St. injection St as <- <-.
      assert (NC2 : s_state s2 <> CLOSED) by (eapply process_all_open; [|exact PA]; exact NC).
      eexists. split; [exact R1|]. split; [|left; exists k; repeat split; assumption].
      apply Rel_intro; cbn [bcl bsv wcs wsc cl sv qcs qsc]; try assumption.
      * now apply Forall_skipn'.
      * split; [intros C; congruence|]. intros _. rewrite Sin. split; [exact Hr|exact Hinc].
      * apply Psc'. exact Sout.
Qed.

(* ---- delivering a chunk to the client *)
Lemma sim_deliver_sc d b j chunk rest cl' o :
  jreach d j -> Rel d b j -> wsc b = chunk ++ rest -> step d (bcl b) (Receive chunk) = (cl', o) ->
  exists j', jreach d j' /\ Rel d (mkB cl' (bsv b) (wcs b) rest) j' /\
             ((exists k, o = ORetMsgs (map norm_msg (firstn k (qsc j))) /\ qsc j' = skipn k (qsc j) /\ qcs j' = qcs j /\ s_state cl' <> CLOSED /\ s_state (bcl b) <> CLOSED) \/
              (o = OProtoErr PNone /\ s_state cl' = CLOSED /\ s_state (bcl b) <> CLOSED /\ qcs j' = qcs j) \/
              (s_state (bcl b) = CLOSED /\ cl' = bcl b /\ j' = j /\ exists p, o = OProtoErr p)).
Proof.
  intros R (Ec & Es & Wc & Ws & Pcs & Psc) Ew St. rewrite step_receive in St.
  assert (Rc : s_role (bcl b) = Client).
  { destruct (jreach_abs d j R) as [_ [Rc _]]. destruct Ec as (E & _). rewrite E. exact Rc. }
  destruct (state_eqb (s_state (bcl b)) CLOSED) eqn:SC.
  - assert (C : s_state (bcl b) = CLOSED) by (destruct (s_state (bcl b)); try discriminate; reflexivity).
    rewrite receive_closed in St by assumption. injection St as <- <-.
    exists j. split; [exact R|]. split; [|right; right; repeat split; try exact C; eexists; reflexivity].
    apply Rel_intro; cbn [bcl bsv wcs wsc]; try assumption.
    split; [apply Psc|intros NC; congruence].
  - assert (NC : s_state (bcl b) <> CLOSED) by (intros C; rewrite C in SC; discriminate).
    destruct Psc as [_ Po]. destruct (Po NC) as [Eb Inc]. clear Po.
    set (q := qsc j) in *. set (cl0 := bcl b) in *.
    assert (Eb' : (s_in cl0 ++ chunk) ++ (rest ++ s_out (bsv b)) = concat (map enc_msg q)) by (rewrite <- Eb, Ew, <- !app_assoc; reflexivity).
    destruct (parse_prefix d q _ _ Ws Eb') as (k & rest1 & HP & Hr & Hinc).
    assert (Ecore : eqcore (set_in cl0 rest1) (cl j)) by (eapply eqcore_trans; [apply eqcore_sym, eqcore_set_in|exact Ec]).
    destruct (process_all_core (firstn k q) _ _ Ecore) as [Ecore2 Esnd].
    destruct (process_all (set_in cl0 rest1) (firstn k q)) as [s2 r] eqn:PA.
    destruct (process_all (cl j) (firstn k q)) as [sj rj] eqn:PJ. cbn [fst snd] in Ecore2, Esnd. subst rj.
    assert (NCj : s_state (cl j) <> CLOSED) by (rewrite <- (eqcore_state _ _ Ec); exact NC).
    assert (Sin : s_in s2 = rest1) by (apply process_all_in in PA; exact PA).
    assert (Sout : s_out s2 = s_out cl0) by (apply process_all_same in PA; destruct PA as (H & _); exact H).
    assert (PAn : process_all (set_in cl0 rest1) (map norm_msg (firstn k q)) = (s2, r)) by (rewrite process_all_norm; exact PA).
    assert (Pcs' : forall s3, s_out s3 = s_out cl0 -> pipe d (bsv b) (s_in (bsv b) ++ wcs b ++ s_out s3) (qcs j)).
    { intros s3 E3. rewrite E3. exact Pcs. }
    destruct r as [[wr nt|kc]|].
    + destruct (process_all_fail_split _ _ _ _ PJ) as (ms1 & m & ms2 & s1 & Ems & P1 & P2).
      assert (Eq : qsc j = ms1 ++ (m :: ms2 ++ skipn k q)).
      { fold q. rewrite <- (firstn_skipn k q) at 1. rewrite Ems, <- app_assoc. reflexivity. }
      pose proof (deliver_many_sc d ms1 j _ s1 R Eq NCj P1) as R1.
      assert (NC1 : s_state s1 <> CLOSED) by (eapply process_all_open; eauto).
      set (j1 := mkJ s1 (sv j) (qcs j) (m :: ms2 ++ skipn k q)) in *.
      assert (Att : attach Client wr nt = PNone).
      { destruct (no_spurious_error_at_client d j1 m (ms2 ++ skipn k q) sj _ R1 eq_refl NC1 P2) as [H|([Hu|Hn] & _)]; [discriminate| |].
        - pose proof (unbind_fails _ _ _ _ Hu P2) as Hp. injection Hp as -> ->. reflexivity.
        - pose proof (notice_fails _ _ _ _ Hn P2) as Hp. injection Hp as -> ->. reflexivity. }
      pose proof (jreach_step d j1 _ R1 (J_dsc d j1 m (ms2 ++ skipn k q) sj _ eq_refl NC1 P2)) as R2. cbn [after cl sv qcs qsc j1] in R2.
      pose proof (drop_all_sc d _ _ R2 eq_refl eq_refl) as R3. cbn [cl sv qcs qsc] in R3.
      rewrite (receive_err d cl0 chunk _ rest1 s2 _ _ NC HP PAn) in St. injection St as <- <-.
      eexists. split; [exact R3|]. split; [|right; left; fold cl0 in Rc; rewrite Rc, Att; repeat split; exact NC].
      apply Rel_intro; cbn [bcl bsv wcs wsc cl sv qcs qsc]; try assumption.
      * now apply eqcore_close.
      * constructor.
      * apply Pcs'. cbn. exact Sout.
      * apply pipe_closed. reflexivity.
    + exfalso. destruct (process_all_fail_split _ _ _ _ PJ) as (ms1 & m & ms2 & s1 & Ems & P1 & P2).
      assert (Eq : qsc j = ms1 ++ (m :: ms2 ++ skipn k q)).
      { fold q. rewrite <- (firstn_skipn k q) at 1. rewrite Ems, <- app_assoc. reflexivity. }
      pose proof (deliver_many_sc d ms1 j _ s1 R Eq NCj P1) as R1.
      assert (NC1 : s_state s1 <> CLOSED) by (eapply process_all_open; eauto).
      set (j1 := mkJ s1 (sv j) (qcs j) (m :: ms2 ++ skipn k q)) in *.
      destruct (no_spurious_error_at_client d j1 m (ms2 ++ skipn k q) sj _ R1 eq_refl NC1 P2) as [H|(_ & w & n & H)]; discriminate.
    + assert (Eq : qsc j = firstn k q ++ skipn k q) by (fold q; now rewrite firstn_skipn).
      pose proof (deliver_many_sc d _ j _ sj R Eq NCj PJ) as R1.
      assert (Rok : receive d cl0 chunk = (s2, ORetMsgs (map norm_msg (firstn k q)))).
      { apply (receive_ok d cl0 chunk s2 _ NC). exists rest1. split; assumption. }
      rewrite Rok in St. injection St as <- <-.
      assert (NC2 : s_state s2 <> CLOSED) by (eapply process_all_open; [|exact PA]; exact NC).
      eexists. split; [exact R1|]. split; [|left; exists k; repeat split; assumption].
      apply Rel_intro; cbn [bcl bsv wcs wsc cl sv qcs qsc]; try assumption.
      * now apply Forall_skipn'.
      * apply Pcs'. exact Sout.
      * split; [intros C; congruence|]. intros _. rewrite Sin. split; [exact Hr|exact Hinc].
Qed.

(* ---- API calls and data_to_send *)
Lemma settle d j : jreach d j ->
  jreach d (mkJ (cl j) (sv j) (if state_eqb (s_state (sv j)) CLOSED then [] else qcs j)
                              (if state_eqb (s_state (cl j)) CLOSED then [] else qsc j)).
Proof.
  intros R.
  assert (S1 : forall st, state_eqb st CLOSED = true -> st = CLOSED) by (intros st H; destruct st; try discriminate; reflexivity).
  destruct (state_eqb (s_state (sv j)) CLOSED) eqn:A; destruct (state_eqb (s_state (cl j)) CLOSED) eqn:B.
  - pose proof (drop_all_cs d _ j R eq_refl (S1 _ A)) as R1. exact (drop_all_sc d _ _ R1 eq_refl (S1 _ B)).
  - pose proof (drop_all_cs d _ j R eq_refl (S1 _ A)) as R1. exact R1.
  - exact (drop_all_sc d _ j R eq_refl (S1 _ B)).
  - destruct j; exact R.
Qed.

Lemma pipe_settle d recv recvj bytes q :
  s_state recv = s_state recvj ->
  (s_state recv <> CLOSED -> bytes = concat (map enc_msg q) /\ incomplete d (s_in recv)) ->
  pipe d recv bytes (if state_eqb (s_state recvj) CLOSED then [] else q).
Proof.
  intros E H. rewrite <- E. destruct (state_eqb (s_state recv) CLOSED) eqn:A.
  - apply pipe_closed. destruct (s_state recv); try discriminate; reflexivity.
  - split; [intros C; rewrite C in A; discriminate|exact H].
Qed.

Lemma Forall_if {A} (P : A -> Prop) (c : bool) l : Forall P l -> Forall P (if c then [] else l).
Proof. destruct c; [constructor|auto]. Qed.

Lemma sim_client d b j c cl' o m :
  jreach d j -> Rel d b j -> client_call c = true -> step d (bcl b) c = (cl', o) -> accepted o = true ->
  msg_of_call (bcl b) c = Some m -> wf_msg d m ->
  exists j', jreach d j' /\ Rel d (mkB cl' (bsv b) (wcs b) (wsc b)) j' /\
             qcs j' = (if state_eqb (s_state (bsv b)) CLOSED then [] else qcs j ++ [m]) /\
             qsc j' = (if state_eqb (s_state cl') CLOSED then [] else qsc j).
Proof.
  intros R (Ec & Es & Wc & Ws & Pcs & Psc) Hc St Acc Hm Wm.
  assert (Hs : send_call c = true) by (unfold send_call; now rewrite Hc).
  destruct (step_core d (bcl b) (cl j) c Ec Hs) as [E1 E2]. rewrite St in E1, E2. cbn [fst snd] in E1, E2.
  destruct (step d (cl j) c) as [clj oj] eqn:Stj. cbn [fst snd] in E1, E2. subst oj.
  assert (Hmj : msg_of_call (cl j) c = Some m) by (rewrite <- (msg_of_call_core _ _ c Ec); exact Hm).
  pose proof (jreach_step d j _ R (J_client d j c clj o m Hc Stj Acc Hmj)) as R1.
  pose proof (settle d _ R1) as R2. cbn [cl sv qcs qsc] in R2.
  eexists. split; [exact R2|]. split; [|cbn [qcs qsc]; rewrite (eqcore_state _ _ Es), (eqcore_state _ _ E1); split; reflexivity].
  pose proof (step_send_out d _ c _ _ _ Hs St Acc Hm) as So.
  pose proof (step_send_in d (bcl b) c Hs) as Si. rewrite St in Si. cbn [fst] in Si.
  apply Rel_intro; cbn [bcl bsv wcs wsc cl sv qcs qsc]; try assumption.
  - apply Forall_if. apply Forall_app. split; [assumption|constructor; [assumption|constructor]].
  - now apply Forall_if.
  - apply pipe_settle; [apply (eqcore_state _ _ Es)|]. intros NC. destruct Pcs as [_ Po]. destruct (Po NC) as [Eb Inc]. split; [|exact Inc].
    rewrite So, map_app, concat_app. cbn [map concat]. rewrite app_nil_r, <- Eb, <- !app_assoc. reflexivity.
  - apply pipe_settle; [apply (eqcore_state _ _ E1)|]. intros NC.
    assert (NC0 : s_state (bcl b) <> CLOSED) by (eapply accepted_open; eauto).
    destruct Psc as [_ Po]. destruct (Po NC0) as [Eb Inc]. rewrite Si. split; assumption.
Qed.

Lemma sim_server d b j c sv' o m :
  jreach d j -> Rel d b j -> server_call c = true -> matching_call (bsv b) c -> step d (bsv b) c = (sv', o) -> accepted o = true ->
  msg_of_call (bsv b) c = Some m -> wf_msg d m ->
  exists j', jreach d j' /\ Rel d (mkB (bcl b) sv' (wcs b) (wsc b)) j' /\
             qcs j' = (if state_eqb (s_state sv') CLOSED then [] else qcs j) /\
             qsc j' = (if state_eqb (s_state (bcl b)) CLOSED then [] else qsc j ++ [m]).
Proof.
  intros R (Ec & Es & Wc & Ws & Pcs & Psc) Hc Hmc St Acc Hm Wm.
  assert (Hs : send_call c = true) by (unfold send_call; rewrite Hc; apply orb_true_r).
  destruct (step_core d (bsv b) (sv j) c Es Hs) as [E1 E2]. rewrite St in E1, E2. cbn [fst snd] in E1, E2.
  destruct (step d (sv j) c) as [svj oj] eqn:Stj. cbn [fst snd] in E1, E2. subst oj.
  assert (Hmj : msg_of_call (sv j) c = Some m) by (rewrite <- (msg_of_call_core _ _ c Es); exact Hm).
  pose proof (jreach_step d j _ R (J_server d j c svj o m Hc (matching_call_core _ _ c Es Hmc) Stj Acc Hmj)) as R1.
  pose proof (settle d _ R1) as R2. cbn [cl sv qcs qsc] in R2.
  eexists. split; [exact R2|]. split; [|cbn [qcs qsc]; rewrite (eqcore_state _ _ Ec), (eqcore_state _ _ E1); split; reflexivity].
  pose proof (step_send_out d _ c _ _ _ Hs St Acc Hm) as So.
  pose proof (step_send_in d (bsv b) c Hs) as Si. rewrite St in Si. cbn [fst] in Si.
  apply Rel_intro; cbn [bcl bsv wcs wsc cl sv qcs qsc]; try assumption.
  - now apply Forall_if.
  - apply Forall_if. apply Forall_app. split; [assumption|constructor; [assumption|constructor]].
  - apply pipe_settle; [apply (eqcore_state _ _ E1)|]. intros NC.
    assert (NC0 : s_state (bsv b) <> CLOSED) by (eapply accepted_open; eauto).
    destruct Pcs as [_ Po]. destruct (Po NC0) as [Eb Inc]. rewrite Si. split; assumption.
  - apply pipe_settle; [apply (eqcore_state _ _ Ec)|]. intros NC. destruct Psc as [_ Po]. destruct (Po NC) as [Eb Inc]. split; [|exact Inc].
    rewrite So, map_app, concat_app. cbn [map concat]. rewrite app_nil_r, <- Eb, <- !app_assoc. reflexivity.
Qed.

Lemma step_drain d s a : step d s (Drain a) = (set_out s (snd (py_cut a (s_out s))), ORetBytes (fst (py_cut a (s_out s)))).
Proof. unfold step. destruct (s_role s); destruct (py_cut a (s_out s)); reflexivity. Qed.

Lemma sim_drain_c d b j amount cl' head :
  Rel d b j -> step d (bcl b) (Drain amount) = (cl', ORetBytes head) -> Rel d (mkB cl' (bsv b) (wcs b ++ head) (wsc b)) j.
Proof.
  intros (Ec & Es & Wc & Ws & Pcs & Psc) St. rewrite step_drain in St. injection St as <- <-.
  pose proof (py_cut_app amount (s_out (bcl b))) as Cut.
  apply Rel_intro; cbn [bcl bsv wcs wsc]; try assumption.
  - apply (pipe_same d (bsv b) (bsv b) _ _ _ Pcs eq_refl eq_refl). cbn [set_out s_out]. rewrite <- (app_assoc (wcs b)). now rewrite Cut.
Qed.

Lemma sim_drain_s d b j amount sv' head :
  Rel d b j -> step d (bsv b) (Drain amount) = (sv', ORetBytes head) -> Rel d (mkB (bcl b) sv' (wcs b) (wsc b ++ head)) j.
Proof.
  intros (Ec & Es & Wc & Ws & Pcs & Psc) St. rewrite step_drain in St. injection St as <- <-.
  pose proof (py_cut_app amount (s_out (bsv b))) as Cut.
  apply Rel_intro; cbn [bcl bsv wcs wsc]; try assumption.
  - apply (pipe_same d (bcl b) (bcl b) _ _ _ Psc eq_refl eq_refl). cbn [set_out s_out]. rewrite <- (app_assoc (wsc b)). now rewrite Cut.
Qed.

(* ======== the theorems ======== *)
Lemma Rel_init d : Rel d binit jinit.
Proof.
  apply Rel_intro; cbn; try apply eqcore_refl; try constructor.
  - discriminate.
  - intros _. split; [reflexivity|apply parse_nil].
  - discriminate.
  - intros _. split; [reflexivity|apply parse_nil].
Qed.

(* every reachable state of the byte-level system is matched by a reachable state of the message-level system *)
Theorem byte_system_simulates d b : breach d b -> exists j, jreach d j /\ Rel d b j.
Proof.
  induction 1 as [|b b' Hb IH Hs].
  - exists jinit. split; [constructor|apply Rel_init].
  - destruct IH as (j & R & Hr). destruct Hs as [b c cl' o m Hc St Acc Hm Wm|b c sv' o m Hc Hmc St Acc Hm Wm|b a cl' head St|b a sv' head St
                                               |b chunk rest sv' o Ew Hne St|b chunk rest cl' o Ew Hne St].
    + destruct (sim_client d b j c cl' o m R Hr Hc St Acc Hm Wm) as (j' & R' & Hr' & _). eauto.
    + destruct (sim_server d b j c sv' o m R Hr Hc Hmc St Acc Hm Wm) as (j' & R' & Hr' & _). eauto.
    + exists j. split; [exact R|eapply sim_drain_c; eauto].
    + exists j. split; [exact R|eapply sim_drain_s; eauto].
    + destruct (sim_deliver_cs d b j chunk rest sv' o R Hr Ew St) as (j' & R' & Hr' & _). eauto.
    + destruct (sim_deliver_sc d b j chunk rest cl' o R Hr Ew St) as (j' & R' & Hr' & _). eauto.
Qed.

(* no protocol error other than the designed terminations: whatever the history, the interleaving and the
   chunking, an open endpoint that is handed the next octets on its wire returns messages, or stops because the
   peer's unbind (or the server's notice of disconnection) was among them *)
Theorem byte_delivery_never_fails_cs d b chunk rest sv' o :
  breach d b -> wcs b = chunk ++ rest -> s_state (bsv b) <> CLOSED -> step d (bsv b) (Receive chunk) = (sv', o) ->
  (exists ms, o = ORetMsgs ms) \/ o = OProtoErr PNone.
Proof.
  intros Hb Ew NC St. destruct (byte_system_simulates d b Hb) as (j & R & Hr).
  destruct (sim_deliver_cs d b j chunk rest sv' o R Hr Ew St) as (_ & _ & _ & [(k & H & _)|[(H & _)|(H & _)]]); [left; eauto|now right|contradiction].
Qed.
Theorem byte_delivery_never_fails_sc d b chunk rest cl' o :
  breach d b -> wsc b = chunk ++ rest -> s_state (bcl b) <> CLOSED -> step d (bcl b) (Receive chunk) = (cl', o) ->
  (exists ms, o = ORetMsgs ms) \/ o = OProtoErr PNone.
Proof.
  intros Hb Ew NC St. destruct (byte_system_simulates d b Hb) as (j & R & Hr).
  destruct (sim_deliver_sc d b j chunk rest cl' o R Hr Ew St) as (_ & _ & _ & [(k & H & _)|[(H & _)|(H & _)]]); [left; eauto|now right|contradiction].
Qed.

(* whenever all octets have been delivered - nothing queued, nothing on the wires, nothing held back - both sides
   agree on the session state and on the operations and searches in progress *)
Theorem byte_agreement_when_all_delivered d b :
  breach d b ->
  s_out (bcl b) = [] -> s_out (bsv b) = [] -> wcs b = [] -> wsc b = [] -> s_in (bcl b) = [] -> s_in (bsv b) = [] ->
  same_state (s_state (bcl b)) (s_state (bsv b)) /\
  (s_state (bcl b) <> CLOSED ->
   (forall i, In i (s_outstanding (bcl b)) <-> In i (s_outstanding (bsv b))) /\
   (forall i, In i (s_searches (bcl b)) <-> In i (s_searches (bsv b)))).
Proof.
  intros Hb O1 O2 W1 W2 I1 I2. destruct (byte_system_simulates d b Hb) as (j & R & (Ec & Es & _ & _ & Pcs & Psc)).
  assert (Q1 : qcs j = []).
  { destruct Pcs as [Pc Po]. destruct (state_eqb (s_state (bsv b)) CLOSED) eqn:A.
    - apply Pc. destruct (s_state (bsv b)); try discriminate; reflexivity.
    - destruct Po as [Eb _]; [intros C; rewrite C in A; discriminate|]. rewrite I2, W1, O1 in Eb. symmetry in Eb. now apply enc_concat_nil. }
  assert (Q2 : qsc j = []).
  { destruct Psc as [Pc Po]. destruct (state_eqb (s_state (bcl b)) CLOSED) eqn:A.
    - apply Pc. destruct (s_state (bcl b)); try discriminate; reflexivity.
    - destruct Po as [Eb _]; [intros C; rewrite C in A; discriminate|]. rewrite I1, W2, O2 in Eb. symmetry in Eb. now apply enc_concat_nil. }
  destruct (agreement_when_delivered d j R Q1 Q2) as [S1 S2].
  destruct Ec as (_ & Ec2 & Ec3 & Ec4 & _), Es as (_ & Es2 & Es3 & Es4 & _). rewrite Ec2, Es2, Ec3, Es3, Ec4, Es4. split; assumption.
Qed.

(* ---- what was sent and what was handed to the applications *)
Record hist := mkH { sent_cs : list msg; got_cs : list msg; sent_sc : list msg; got_sc : list msg }.
Definition returned (o : outcome) : list msg := match o with ORetMsgs ms => ms | _ => [] end.

Inductive breachH (d : nat) : bjoint -> hist -> Prop :=
| bh_init : breachH d binit (mkH [] [] [] [])
| bh_client b h c cl' o m :
    breachH d b h -> client_call c = true -> step d (bcl b) c = (cl', o) -> accepted o = true -> msg_of_call (bcl b) c = Some m -> wf_msg d m ->
    breachH d (mkB cl' (bsv b) (wcs b) (wsc b)) (mkH (sent_cs h ++ [m]) (got_cs h) (sent_sc h) (got_sc h))
| bh_server b h c sv' o m :
    breachH d b h -> server_call c = true -> matching_call (bsv b) c ->
    step d (bsv b) c = (sv', o) -> accepted o = true -> msg_of_call (bsv b) c = Some m -> wf_msg d m ->
    breachH d (mkB (bcl b) sv' (wcs b) (wsc b)) (mkH (sent_cs h) (got_cs h) (sent_sc h ++ [m]) (got_sc h))
| bh_drain_c b h amount cl' head :
    breachH d b h -> step d (bcl b) (Drain amount) = (cl', ORetBytes head) -> breachH d (mkB cl' (bsv b) (wcs b ++ head) (wsc b)) h
| bh_drain_s b h amount sv' head :
    breachH d b h -> step d (bsv b) (Drain amount) = (sv', ORetBytes head) -> breachH d (mkB (bcl b) sv' (wcs b) (wsc b ++ head)) h
| bh_deliver_cs b h chunk rest sv' o :
    breachH d b h -> wcs b = chunk ++ rest -> chunk <> [] -> step d (bsv b) (Receive chunk) = (sv', o) ->
    breachH d (mkB (bcl b) sv' rest (wsc b)) (mkH (sent_cs h) (got_cs h ++ returned o) (sent_sc h) (got_sc h))
| bh_deliver_sc b h chunk rest cl' o :
    breachH d b h -> wsc b = chunk ++ rest -> chunk <> [] -> step d (bcl b) (Receive chunk) = (cl', o) ->
    breachH d (mkB cl' (bsv b) (wcs b) rest) (mkH (sent_cs h) (got_cs h) (sent_sc h) (got_sc h ++ returned o)).

Definition InvH (d : nat) (b : bjoint) (h : hist) : Prop :=
  exists j, jreach d j /\ Rel d b j /\
    (s_state (bsv b) <> CLOSED -> map norm_msg (sent_cs h) = got_cs h ++ map norm_msg (qcs j)) /\
    (exists t, map norm_msg (sent_cs h) = got_cs h ++ t) /\
    (s_state (bcl b) <> CLOSED -> map norm_msg (sent_sc h) = got_sc h ++ map norm_msg (qsc j)) /\
    (exists t, map norm_msg (sent_sc h) = got_sc h ++ t).

Lemma state_eqb_closed st : state_eqb st CLOSED = false <-> st <> CLOSED.
Proof. destruct st; cbn; split; intros H; try reflexivity; try discriminate; try (intros C; discriminate C); exfalso; now apply H. Qed.

Lemma drain_state d s a s' o : step d s (Drain a) = (s', o) -> s_state s' = s_state s.
Proof. rewrite step_drain. intros H. injection H as <- _. reflexivity. Qed.

Theorem histories_invariant d b h : breachH d b h -> InvH d b h.
Proof.
  induction 1 as [|b h c cl' o m Hb IH Hc St Acc Hm Wm|b h c sv' o m Hb IH Hc Hmc St Acc Hm Wm|b h a cl' head Hb IH St|b h a sv' head Hb IH St
                 |b h chunk rest sv' o Hb IH Ew Hne St|b h chunk rest cl' o Hb IH Ew Hne St].
  - exists jinit. split; [constructor|]. split; [apply Rel_init|]. cbn. repeat split; try (intros _; reflexivity); exists []; reflexivity.
  - destruct IH as (j & R & Hr & C1 & (t1 & C2) & S1 & S2).
    destruct (sim_client d b j c cl' o m R Hr Hc St Acc Hm Wm) as (j' & R' & Hr' & Q1 & Q2).
    exists j'. split; [exact R'|]. split; [exact Hr'|]. cbn [bcl bsv sent_cs got_cs sent_sc got_sc].
    assert (Hs : send_call c = true) by (unfold send_call; now rewrite Hc).
    split; [|split; [|split]].
    + intros NC. rewrite Q1. apply state_eqb_closed in NC. rewrite NC. rewrite !map_app, (C1 ltac:(now apply state_eqb_closed)), <- app_assoc. reflexivity.
    + exists (t1 ++ [norm_msg m]). rewrite map_app, C2, <- app_assoc. reflexivity.
    + intros NC. rewrite Q2. pose proof NC as NC'. apply state_eqb_closed in NC'. rewrite NC'. apply S1. eapply accepted_open; eauto.
    + exact S2.
  - destruct IH as (j & R & Hr & C1 & C2 & S1 & (t1 & S2)).
    destruct (sim_server d b j c sv' o m R Hr Hc Hmc St Acc Hm Wm) as (j' & R' & Hr' & Q1 & Q2).
    exists j'. split; [exact R'|]. split; [exact Hr'|]. cbn [bcl bsv sent_cs got_cs sent_sc got_sc].
    assert (Hs : send_call c = true) by (unfold send_call; rewrite Hc; apply orb_true_r).
    split; [|split; [|split]].
    + intros NC. rewrite Q1. pose proof NC as NC'. apply state_eqb_closed in NC'. rewrite NC'. apply C1. eapply accepted_open; eauto.
    + exact C2.
    + intros NC. rewrite Q2. apply state_eqb_closed in NC. rewrite NC. rewrite !map_app, (S1 ltac:(now apply state_eqb_closed)), <- app_assoc. reflexivity.
    + exists (t1 ++ [norm_msg m]). rewrite map_app, S2, <- app_assoc. reflexivity.
  - destruct IH as (j & R & Hr & C1 & C2 & S1 & S2). exists j. split; [exact R|]. split; [eapply sim_drain_c; eauto|].
    cbn [bcl bsv]. rewrite (drain_state _ _ _ _ _ St). repeat split; assumption.
  - destruct IH as (j & R & Hr & C1 & C2 & S1 & S2). exists j. split; [exact R|]. split; [eapply sim_drain_s; eauto|].
    cbn [bcl bsv]. rewrite (drain_state _ _ _ _ _ St). repeat split; assumption.
  - destruct IH as (j & R & Hr & C1 & (t1 & C2) & S1 & S2).
    destruct (sim_deliver_cs d b j chunk rest sv' o R Hr Ew St) as (j' & R' & Hr' & [(k & -> & Q1 & Q2 & NC' & NC)|[(-> & Cl & NC & Q2)|(Cl & -> & -> & (p & ->))]]).
    + exists j'. split; [exact R'|]. split; [exact Hr'|]. cbn [bcl bsv sent_cs got_cs sent_sc got_sc returned].
      split; [|split; [|split]].
      * intros _. rewrite Q1, (C1 NC), <- app_assoc, <- map_app, firstn_skipn. reflexivity.
      * exists (map norm_msg (skipn k (qcs j))). rewrite (C1 NC), <- app_assoc, <- map_app, firstn_skipn. reflexivity.
      * intros N. rewrite Q2. now apply S1.
      * exact S2.
    + exists j'. split; [exact R'|]. split; [exact Hr'|]. cbn [bcl bsv sent_cs got_cs sent_sc got_sc returned]. rewrite app_nil_r.
      split; [intros N; congruence|]. split; [exists t1; exact C2|]. split; [intros N; rewrite Q2; now apply S1|exact S2].
    + exists j. split; [exact R|]. split; [exact Hr'|]. cbn [bcl bsv sent_cs got_cs sent_sc got_sc returned]. rewrite app_nil_r.
      split; [intros N; congruence|]. split; [exists t1; exact C2|]. split; assumption.
  - destruct IH as (j & R & Hr & C1 & C2 & S1 & (t1 & S2)).
    destruct (sim_deliver_sc d b j chunk rest cl' o R Hr Ew St) as (j' & R' & Hr' & [(k & -> & Q1 & Q2 & NC' & NC)|[(-> & Cl & NC & Q2)|(Cl & -> & -> & (p & ->))]]).
    + exists j'. split; [exact R'|]. split; [exact Hr'|]. cbn [bcl bsv sent_cs got_cs sent_sc got_sc returned].
      split; [|split; [|split]].
      * intros N. rewrite Q2. now apply C1.
      * exact C2.
      * intros _. rewrite Q1, (S1 NC), <- app_assoc, <- map_app, firstn_skipn. reflexivity.
      * exists (map norm_msg (skipn k (qsc j))). rewrite (S1 NC), <- app_assoc, <- map_app, firstn_skipn. reflexivity.
    + exists j'. split; [exact R'|]. split; [exact Hr'|]. cbn [bcl bsv sent_cs got_cs sent_sc got_sc returned]. rewrite app_nil_r.
      split; [intros N; rewrite Q2; now apply C1|]. split; [exact C2|]. split; [intros N; congruence|exists t1; exact S2].
    + exists j. split; [exact R|]. split; [exact Hr'|]. cbn [bcl bsv sent_cs got_cs sent_sc got_sc returned]. rewrite app_nil_r.
      split; [assumption|]. split; [assumption|]. split; [intros N; congruence|exists t1; exact S2].
Qed.

(* every message handed to an application is, in order and each once, a message the peer sent (as an equal value) *)
Theorem byte_messages_in_order d b h :
  breachH d b h ->
  (exists t, map norm_msg (sent_cs h) = got_cs h ++ t) /\ (exists t, map norm_msg (sent_sc h) = got_sc h ++ t).
Proof. intros H. destruct (histories_invariant d b h H) as (j & _ & _ & _ & C2 & _ & S2). split; assumption. Qed.

(* ... and once all octets have reached an open receiver, it has been handed every message sent *)
Theorem byte_all_received_cs d b h :
  breachH d b h -> s_state (bsv b) <> CLOSED -> s_out (bcl b) = [] -> wcs b = [] -> s_in (bsv b) = [] ->
  got_cs h = map norm_msg (sent_cs h).
Proof.
  intros H NC O W I. destruct (histories_invariant d b h H) as (j & _ & (_ & _ & _ & _ & Pcs & _) & C1 & _).
  destruct Pcs as [_ Po]. destruct (Po NC) as [Eb _]. rewrite I, W, O in Eb. symmetry in Eb. apply enc_concat_nil in Eb.
  rewrite (C1 NC), Eb. cbn [map]. now rewrite app_nil_r.
Qed.
Theorem byte_all_received_sc d b h :
  breachH d b h -> s_state (bcl b) <> CLOSED -> s_out (bsv b) = [] -> wsc b = [] -> s_in (bcl b) = [] ->
  got_sc h = map norm_msg (sent_sc h).
Proof.
  intros H NC O W I. destruct (histories_invariant d b h H) as (j & _ & (_ & _ & _ & _ & _ & Psc) & _ & _ & S1 & _).
  destruct Psc as [_ Po]. destruct (Po NC) as [Eb _]. rewrite I, W, O in Eb. symmetry in Eb. apply enc_concat_nil in Eb.
  rewrite (S1 NC), Eb. cbn [map]. now rewrite app_nil_r.
Qed.

(* non-vacuity: a client request travels to the server in two chunks *)
Definition ex_call : call := CExtended [x31; x2e; x32] None [].
Definition ex_b1 : bjoint := mkB (fst (step 10 (init Client) ex_call)) (init Server) [] [].
Definition ex_b2 : bjoint := mkB (fst (step 10 (bcl ex_b1) (Drain None))) (init Server) (s_out (bcl ex_b1)) [].
Definition ex_b3 : bjoint := mkB (bcl ex_b2) (fst (step 10 (init Server) (Receive (firstn 3 (wcs ex_b2))))) (skipn 3 (wcs ex_b2)) [].
Definition ex_b4 : bjoint := mkB (bcl ex_b2) (fst (step 10 (bsv ex_b3) (Receive (wcs ex_b3)))) [] [].

Example byte_system_example :
  breach 10 ex_b4 /\ s_outstanding (bsv ex_b4) = [1] /\ s_in (bsv ex_b3) <> [] /\ wcs ex_b3 <> [].
Proof.
  split; [|vm_compute; repeat split; discriminate].
  assert (B1 : breach 10 ex_b1).
  { eapply breach_step; [apply breach_init|].
    eapply (B_client 10 binit ex_call _ (ORetId 1) (mkMsg 1 (ExtendedRequest [x31; x2e; x32] None) [])); try reflexivity.
    repeat split; try constructor; vm_compute; reflexivity. }
  assert (B2 : breach 10 ex_b2).
  { eapply breach_step; [exact B1|]. apply (B_drain_c 10 ex_b1 None _ (s_out (bcl ex_b1))). vm_compute. reflexivity. }
  assert (B3 : breach 10 ex_b3).
  { eapply breach_step; [exact B2|].
    eapply (B_deliver_cs 10 ex_b2 (firstn 3 (wcs ex_b2)) (skipn 3 (wcs ex_b2)) _ (snd (step 10 (init Server) (Receive (firstn 3 (wcs ex_b2)))))).
    - symmetry. apply firstn_skipn.
    - vm_compute. discriminate.
    - apply surjective_pairing. }
  eapply breach_step; [exact B3|].
  eapply (B_deliver_cs 10 ex_b3 (wcs ex_b3) [] _ (snd (step 10 (bsv ex_b3) (Receive (wcs ex_b3))))).
  - now rewrite app_nil_r.
  - vm_compute. discriminate.
  - apply surjective_pairing.
Qed.
