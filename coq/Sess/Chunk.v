(* C02: reassembly is independent of how the byte stream is cut into chunks. *)
From Coq Require Import ZArith NArith List Bool Lia ZifyBool.
From Coq.Strings Require Import Byte.
From SV Require Import Base.Bytes Base.Py Gen.Generated Asn1.Model Asn1.Progress Msg.Types Msg.Encode Msg.Decode
  Msg.Progress Sess.Model Sess.Basic Sess.Send Sess.Drain Sess.Wire Sess.Lifecycle Sess.Frame.
Import ListNotations.
Local Open Scope N_scope.
#[local] Arguments N.add : simpl never.
#[local] Arguments N.sub : simpl never.
#[local] Arguments N.mul : simpl never.
#[local] Arguments N.leb : simpl never.
#[local] Arguments N.ltb : simpl never.
#[local] Arguments N.eqb : simpl never.

(* ---- reading a header only looks at the header *)
Lemma uon_prefix l x : forall i idx n c,
  unpack_octet_number l i idx = Ok (n, c) -> unpack_octet_number (l ++ x) i idx = Ok (n, c).
Proof.
  induction l as [|b r IH]; intros i idx n c; cbn [unpack_octet_number app]; [discriminate|].
  destruct (b2n b <? 128); [auto|apply IH].
Qed.

Lemma rlo_prefix k : forall v x acc r, read_len_octets k v acc = Ok r -> read_len_octets k (v ++ x) acc = Ok r.
Proof.
  induction k as [|k IH]; intros v x acc r; cbn [read_len_octets]; [auto|].
  destruct v as [|b rest]; [discriminate|]. cbn [app]. apply IH.
Qed.

Lemma drop_app_le {A} n (l x : list A) : n <= nlen l -> drop n (l ++ x) = drop n l ++ x.
Proof.
  intros H. rewrite !drop_skipn. rewrite skipn_app.
  replace (N.to_nat n - length l)%nat with 0%nat by (unfold nlen in H; lia). reflexivity.
Qed.

Lemma take_app_le {A} n (l x : list A) : n <= nlen l -> take n (l ++ x) = take n l.
Proof.
  intros H. rewrite !take_firstn. rewrite firstn_app.
  replace (N.to_nat n - length l)%nat with 0%nat by (unfold nlen in H; lia). cbn [firstn]. apply app_nil_r.
Qed.

Lemma read_header_prefix r x h : read_header r = Ok h -> read_header (r ++ x) = Ok h.
Proof.
  intros RH. pose proof (read_header_bounds _ _ RH) as [B1 B2]. revert RH.
  unfold read_header. destruct r as [|o1 a1]; [discriminate|]. cbn [app].
  destruct (b2n o1 mod 32 =? 31).
  - destruct (unpack_octet_number a1 0 0) as [[n c]|e] eqn:U; [|discriminate].
    rewrite (uon_prefix _ x _ _ _ _ U). cbn [bind].
    apply unpack_octet_number_count in U. destruct U as [U1 U2].
    destruct (_ && _); [discriminate|].
    change (o1 :: a1 ++ x) with ((o1 :: a1) ++ x).
    rewrite drop_app_le by (unfold nlen in *; cbn [length]; lia).
    destruct (drop (1 + c) (o1 :: a1)) as [|l0 al]; [discriminate|]. cbn [app].
    destruct (b2n l0 =? 128); [discriminate|]. destruct (128 <? b2n l0); [|auto].
    destruct (read_len_octets _ al 0) as [len|e] eqn:R; [|discriminate].
    rewrite (rlo_prefix _ _ x _ _ R). auto.
  - cbn [bind]. destruct (_ && _); [discriminate|].
    change (o1 :: a1 ++ x) with ((o1 :: a1) ++ x).
    rewrite drop_app_le by (unfold nlen; cbn [length]; lia).
    destruct (drop 1 (o1 :: a1)) as [|l0 al]; [discriminate|]. cbn [app].
    destruct (b2n l0 =? 128); [discriminate|]. destruct (128 <? b2n l0); [|auto].
    destruct (read_len_octets _ al 0) as [len|e] eqn:R; [|discriminate].
    rewrite (rlo_prefix _ _ x _ _ R). auto.
Qed.

(* a message decoded from r is decoded identically from any extension of r *)
Lemma unpack_message_prefix d r x m r' :
  unpack_message d r = Ok (m, r') -> unpack_message d (r ++ x) = Ok (m, r' ++ x).
Proof.
  unfold unpack_message, read_sequence, rd, read_sequence_raw, validate_tag, pick_tag.
  destruct (read_header r) as [h|e] eqn:RH; [|discriminate]. cbn [bind].
  rewrite (read_header_prefix _ x _ RH). cbn [bind].
  pose proof (read_header_bounds _ _ RH) as [B1 B2].
  destruct (negb _); [discriminate|].
  rewrite nlen_drop. destruct (nlen r - h_hlen h <? h_len h) eqn:E; [discriminate|]. cbn [bind].
  rewrite nlen_drop, nlen_app.
  assert (E2 : (nlen r + nlen x - h_hlen h <? h_len h) = false) by lia. rewrite E2. cbn [bind].
  rewrite drop_app_le by lia.
  rewrite take_app_le by (rewrite nlen_drop; lia).
  destruct (unpack_message_value d _) as [m0|e]; [|destruct e; discriminate].
  intros H; inversion H; subst. f_equal. f_equal. apply drop_app_le. lia.
Qed.

Lemma uon_errs l : forall i idx e, unpack_octet_number l i idx = Raise e -> e = NeedMore.
Proof.
  induction l as [|b r IH]; intros i idx e; cbn [unpack_octet_number]; [intros H; now inversion H|].
  destruct (b2n b <? 128); [discriminate|apply IH].
Qed.

Lemma rlo_errs k : forall v acc e, read_len_octets k v acc = Raise e -> e = NeedMore.
Proof.
  induction k as [|k IH]; intros v acc e; cbn [read_len_octets]; [discriminate|].
  destruct v; [intros H; now inversion H|apply IH].
Qed.

(* an error other than "need more" is also reported for every extension of the input *)
Lemma read_header_prefix_err r x e :
  read_header r = Raise e -> e = NeedMore \/ read_header (r ++ x) = Raise e.
Proof.
  unfold read_header. destruct r as [|o1 a1]; [intros H; inversion H; now left|]. cbn [app].
  destruct (b2n o1 mod 32 =? 31).
  - destruct (unpack_octet_number a1 0 0) as [[n c]|e0] eqn:U; cbn [bind].
    2: { intros H; inversion H; subst. left. eapply uon_errs; eauto. }
    rewrite (uon_prefix _ x _ _ _ _ U). cbn [bind].
    apply unpack_octet_number_count in U. destruct U as [U1 U2].
    destruct (_ && _); [auto|].
    change (o1 :: a1 ++ x) with ((o1 :: a1) ++ x).
    rewrite drop_app_le by (unfold nlen in *; cbn [length]; lia).
    destruct (drop (1 + c) (o1 :: a1)) as [|l0 al]; [intros H; inversion H; now left|]. cbn [app].
    destruct (b2n l0 =? 128); [auto|]. destruct (128 <? b2n l0); [|discriminate].
    destruct (read_len_octets _ al 0) as [len|e0] eqn:R; cbn [bind]; [discriminate|].
    intros H; inversion H; subst. left. eapply rlo_errs; eauto.
  - cbn [bind]. destruct (_ && _); [auto|].
    change (o1 :: a1 ++ x) with ((o1 :: a1) ++ x).
    rewrite drop_app_le by (unfold nlen; cbn [length]; lia).
    destruct (drop 1 (o1 :: a1)) as [|l0 al]; [intros H; inversion H; now left|]. cbn [app].
    destruct (b2n l0 =? 128); [auto|]. destruct (128 <? b2n l0); [|discriminate].
    destruct (read_len_octets _ al 0) as [len|e0] eqn:R; cbn [bind]; [discriminate|].
    intros H; inversion H; subst. left. eapply rlo_errs; eauto.
Qed.

(* cutting the input short either changes nothing or makes the reader ask for more *)
Lemma unpack_message_cut d r x m r2 :
  unpack_message d (r ++ x) = Ok (m, r2) ->
  (exists r', unpack_message d r = Ok (m, r') /\ r2 = r' ++ x) \/ unpack_message d r = Raise NeedMore.
Proof.
  intros H.
  destruct (unpack_message d r) as [[m' r']|e] eqn:U.
  - left. rewrite (unpack_message_prefix _ _ x _ _ U) in H. inversion H; subst. eauto.
  - right. f_equal.
    (* an error on r other than NeedMore would also be an error on r ++ x *)
    revert U H. unfold unpack_message, read_sequence, rd, read_sequence_raw, validate_tag, pick_tag.
    destruct (read_header r) as [h|e0] eqn:RH; cbn [bind].
    2: { intros U; inversion U; subst. destruct (read_header_prefix_err _ x _ RH) as [->|E]; [reflexivity|].
         rewrite E. cbn [bind]. discriminate. }
    rewrite (read_header_prefix _ x _ RH). cbn [bind].
    pose proof (read_header_bounds _ _ RH) as [B1 B2].
    destruct (negb _); [intros _; discriminate|].
    rewrite nlen_drop. destruct (nlen r - h_hlen h <? h_len h) eqn:E; cbn [bind]; [intros U; now inversion U|].
    rewrite nlen_drop, nlen_app.
    assert (E2 : (nlen r + nlen x - h_hlen h <? h_len h) = false) by lia. rewrite E2. cbn [bind].
    rewrite drop_app_le by lia. rewrite take_app_le by (rewrite nlen_drop; lia).
    destruct (unpack_message_value d _) as [m0|e0]; [discriminate|].
    destruct e0; intros U; inversion U; subst; discriminate.
Qed.

Lemma unpack_message_prefix_err d r x e :
  unpack_message d r = Raise e -> e = NeedMore \/ unpack_message d (r ++ x) = Raise e.
Proof.
  unfold unpack_message, read_sequence, rd, read_sequence_raw, validate_tag, pick_tag.
  destruct (read_header r) as [h|e0] eqn:RH; cbn [bind].
  2: { intros U; inversion U; subst. destruct (read_header_prefix_err _ x _ RH) as [->|E]; [now left|].
       right. rewrite E. reflexivity. }
  rewrite (read_header_prefix _ x _ RH). cbn [bind].
  pose proof (read_header_bounds _ _ RH) as [B1 B2].
  destruct (negb _); [auto|].
  rewrite nlen_drop. destruct (nlen r - h_hlen h <? h_len h) eqn:E; cbn [bind]; [intros U; inversion U; now left|].
  rewrite nlen_drop, nlen_app.
  assert (E2 : (nlen r + nlen x - h_hlen h <? h_len h) = false) by lia. rewrite E2. cbn [bind].
  rewrite drop_app_le by lia. rewrite take_app_le by (rewrite nlen_drop; lia).
  destruct (unpack_message_value d _) as [m0|e0]; [discriminate|].
  destruct e0; intros U; inversion U; subst; auto.
Qed.

(* ---- the stream parser *)
Lemma parse_loop_fuel d : forall f1 f2 r acc,
  (length r < f1)%nat -> (length r < f2)%nat -> parse_loop f1 d r acc = parse_loop f2 d r acc.
Proof.
  induction f1 as [|f1 IH]; intros f2 r acc H1 H2; [lia|].
  destruct f2 as [|f2]; [lia|]. cbn [parse_loop].
  destruct r as [|b r0] eqn:Er; [reflexivity|]. rewrite <- Er in *.
  assert (Hne : r <> []) by (rewrite Er; discriminate).
  destruct (unpack_message d r) as [[m r']|e] eqn:U; [|reflexivity].
  apply unpack_message_progress in U; [|assumption]. apply IH; lia.
Qed.

Lemma parse_loop_acc d : forall f r acc,
  parse_loop f d r acc =
  match parse_loop f d r [] with Ok (ms, rest) => Ok (acc ++ ms, rest) | Raise e => Raise e end.
Proof.
  induction f as [|f IH]; intros r acc; cbn [parse_loop].
  - destruct r; [now rewrite app_nil_r|reflexivity].
  - destruct r as [|b r0] eqn:Er; [now rewrite app_nil_r|]. rewrite <- Er.
    destruct (unpack_message d r) as [[m r']|e]; [|destruct e; try reflexivity; now rewrite app_nil_r].
    rewrite (IH r' (acc ++ [m])), (IH r' ([] ++ [m])).
    destruct (parse_loop f d r' []) as [[ms rest]|e]; [|reflexivity]. now rewrite <- app_assoc.
Qed.

Definition parse (d : nat) (r : list byte) := parse_loop (S (length r)) d r [].

Lemma parse_nil d : parse d [] = Ok ([], []).
Proof. reflexivity. Qed.

Lemma parse_step d r :
  r <> [] ->
  parse d r = match unpack_message d r with
              | Ok (m, r') => match parse d r' with Ok (ms, rest) => Ok (m :: ms, rest) | Raise e => Raise e end
              | Raise NeedMore => Ok ([], r)
              | Raise e => Raise e
              end.
Proof.
  intros Hne. unfold parse. cbn [parse_loop]. destruct r as [|b r0] eqn:Er; [congruence|]. rewrite <- Er in *.
  destruct (unpack_message d r) as [[m r']|e] eqn:U; [|destruct e; reflexivity].
  rewrite parse_loop_acc. cbn [app].
  rewrite (parse_loop_fuel d (length r) (S (length r')) r' []); [reflexivity| |lia].
  apply unpack_message_progress in U; [lia|assumption].
Qed.

(* parsing X ++ b = parsing X, then parsing (what X left over ++ b) *)
Lemma parse_split d b : forall n X ms rest,
  (length X <= n)%nat -> parse d (X ++ b) = Ok (ms, rest) ->
  exists ms1 rest1 ms2,
    parse d X = Ok (ms1, rest1) /\ parse d (rest1 ++ b) = Ok (ms2, rest) /\ ms = ms1 ++ ms2.
Proof.
  induction n as [|n IH]; intros X ms rest Hl H.
  - destruct X; [|cbn in Hl; lia]. exists [], [], ms. cbn [app] in *. repeat split; auto.
  - destruct X as [|b0 X0] eqn:EX.
    + exists [], [], ms. cbn [app] in *. repeat split; auto.
    + rewrite <- EX in *. assert (Hne : X <> []) by (rewrite EX; discriminate).
      assert (Hne2 : X ++ b <> []) by (rewrite EX; discriminate).
      rewrite (parse_step d _ Hne2) in H. rewrite (parse_step d _ Hne).
      destruct (unpack_message d (X ++ b)) as [[m r2]|e] eqn:U.
      * destruct (unpack_message_cut _ _ _ _ _ U) as [(r' & U1 & ->)|U1]; rewrite U1.
        -- destruct (parse d (r' ++ b)) as [[ms' rest']|e] eqn:P; [|discriminate]. injection H as <- <-.
           apply unpack_message_progress in U1; [|assumption].
           destruct (IH r' ms' rest' ltac:(lia) P) as (ms1 & rest1 & ms2 & P1 & P2 & ->).
           rewrite P1. exists (m :: ms1), rest1, ms2. repeat split; auto.
        -- exists [], X, ms. repeat split; auto. rewrite (parse_step d _ Hne2), U. exact H.
      * destruct e; try discriminate. injection H as <- <-.
        destruct (unpack_message d X) as [[m r']|e] eqn:U1.
        -- rewrite (unpack_message_prefix _ _ b _ _ U1) in U. discriminate.
        -- assert (En : e = NeedMore).
           { destruct (unpack_message_prefix_err _ _ b _ U1) as [->|E]; [reflexivity|congruence]. }
           rewrite En. exists [], X, []. repeat split; auto. rewrite (parse_step d _ Hne2), U. reflexivity.
Qed.

(* ---- receive, characterised through the parser *)
Lemma set_in_idem s x y : set_in (set_in s x) y = set_in s y.
Proof. reflexivity. Qed.
Lemma set_in_same s : set_in s (s_in s) = s.
Proof. now destruct s. Qed.

Ltac red_sess :=
  cbv beta iota zeta delta [process_client process_server set_in set_searches set_outstanding set_state s_in s_out s_state
       s_role s_outstanding s_searches s_counter m_id m_op m_controls kind_of is_response is_request negb andb orb fst snd].
Ltac split_atomic :=
  repeat (red_sess;
          match goal with
          | |- context [if ?b then _ else _] =>
              lazymatch b with
              | context [if _ then _ else _] => fail
              | context [match _ with _ => _ end] => fail
              | _ => destruct b
              end
          end).

Lemma process_client_set_in s m x :
  process_client (set_in s x) m = (set_in (fst (process_client s m)) x, snd (process_client s m)).
Proof.
  destruct s as [r st out os ss cnt inb]. destruct m as [mid o cs].
  destruct o; split_atomic; red_sess; reflexivity.
Qed.
Lemma process_server_set_in s m x :
  process_server (set_in s x) m = (set_in (fst (process_server s m)) x, snd (process_server s m)).
Proof.
  destruct s as [r st out os ss cnt inb]. destruct m as [mid o cs].
  destruct o; destruct st; destruct os; split_atomic; red_sess; reflexivity.
Qed.

Lemma process_all_set_in ms : forall s x,
  process_all (set_in s x) ms = (set_in (fst (process_all s ms)) x, snd (process_all s ms)).
Proof.
  induction ms as [|m ms IH]; intros s x; cbn [process_all]; [reflexivity|].
  destruct (is_notice (m_op m)); [reflexivity|].
  change (s_role (set_in s x)) with (s_role s).
  destruct (kind_of (m_op m)); try reflexivity;
    (destruct (s_role s);
     [rewrite process_client_set_in; destruct (process_client s m) as [s1 [p|]]; cbn [fst snd]; [reflexivity|apply IH]
     |rewrite process_server_set_in; destruct (process_server s m) as [s1 [p|]]; cbn [fst snd]; [reflexivity|apply IH]]).
Qed.

Lemma process_all_app m1 : forall s m2,
  process_all s (m1 ++ m2) =
  match process_all s m1 with (s1, None) => process_all s1 m2 | (s1, Some p) => (s1, Some p) end.
Proof.
  induction m1 as [|m m1 IH]; intros s m2; cbn [app process_all]; [reflexivity|].
  destruct (is_notice (m_op m)); [reflexivity|].
  destruct (kind_of (m_op m)); try reflexivity;
    (destruct (s_role s);
     [destruct (process_client s m) as [s1 [p|]]; [reflexivity|apply IH]
     |destruct (process_server s m) as [s1 [p|]]; [reflexivity|apply IH]]).
Qed.

Lemma receive_ok d s data s' ms :
  s_state s <> CLOSED ->
  (receive d s data = (s', ORetMsgs ms) <->
   exists rest, parse d (s_in s ++ data) = Ok (ms, rest) /\ process_all (set_in s rest) ms = (s', None)).
Proof.
  intros NC. unfold receive, parse. destruct (s_state s) eqn:S; [| | |congruence].
  all: destruct (s_in s) as [|b0 i0] eqn:SI; cbn [app].
  all: match goal with
       | |- context [parse_loop ?f ?dd ?inp []] => destruct (parse_loop f dd inp []) as [[ms0 rest]|e] eqn:PL
       end.
  (* parse errors *)
  all: try (split; [destruct e as [| | |k]; try destruct k; intros H; inversion H|intros (r0 & H & _); discriminate]).
  (* successful parses: the intermediate state is [set_in s rest] on both code paths *)
  all: match goal with
       | |- context [process_all ?s1 ?mm] =>
           assert (E : s1 = set_in s rest)
             by (destruct rest; try reflexivity; rewrite <- SI; symmetry; apply set_in_same);
           rewrite E; clear E; destruct (process_all (set_in s rest) mm) as [s2 [p|]] eqn:P
       end.
  all: match goal with
       | P : _ = (_, Some ?p) |- _ =>
           split; [destruct p; intros H; inversion H
                  |intros (r0 & H & P'); injection H as <- <-; rewrite P in P'; discriminate P']
       | P : _ = (_, None) |- _ =>
           split; [intros H; inversion H; subst; eauto
                  |intros (r0 & H & P'); injection H as <- <-; rewrite P in P'; injection P' as <-; reflexivity]
       end.
Qed.

Lemma process_all_open ms : forall s s' r, s_state s <> CLOSED -> process_all s ms = (s', r) -> s_state s' <> CLOSED.
Proof.
  intros s s' r NC H. apply process_all_state in H.
  destruct H as [H|[(_ & H & _)|[(_ & H & _)|(_ & _ & H & _)]]]; rewrite H; try discriminate; assumption.
Qed.

(* two consecutive deliveries = one delivery of the concatenation *)
Theorem receive_two_chunks d s a b s2 ms :
  s_state s <> CLOSED -> receive d s (a ++ b) = (s2, ORetMsgs ms) ->
  exists s1 ms1 ms2,
    receive d s a = (s1, ORetMsgs ms1) /\ receive d s1 b = (s2, ORetMsgs ms2) /\ ms = ms1 ++ ms2.
Proof.
  intros NC H. apply (receive_ok d s _ _ _ NC) in H. destruct H as (rest & P & PA).
  rewrite app_assoc in P.
  destruct (parse_split d b _ _ _ _ (le_n _) P) as (ms1 & rest1 & ms2 & P1 & P2 & ->).
  rewrite process_all_app in PA.
  destruct (process_all (set_in s rest) ms1) as [sa [p|]] eqn:PA1; [discriminate|].
  (* the state after the first chunk holds rest1 instead of rest *)
  pose proof (process_all_set_in ms1 s rest) as Q1. rewrite PA1 in Q1.
  pose proof (process_all_set_in ms1 s rest1) as Q2.
  destruct (process_all s ms1) as [sb r1] eqn:PB. cbn [fst snd] in *.
  inversion Q1; subst.
  exists (set_in sb rest1), ms1, ms2. split; [|split; [|reflexivity]].
  - apply (receive_ok d s _ _ _ NC). exists rest1. split; [exact P1|exact Q2].
  - assert (NC1 : s_state (set_in sb rest1) <> CLOSED).
    { change (s_state (set_in sb rest1)) with (s_state sb). eapply process_all_open; [exact NC|exact PB]. }
    apply (receive_ok d _ _ _ _ NC1). exists rest. split; [exact P2|].
    rewrite set_in_idem. exact PA.
Qed.

(* any number of chunks *)
Fixpoint receive_chunks (d : nat) (s : sess) (chunks : list (list byte)) : option (sess * list msg) :=
  match chunks with
  | [] => Some (s, [])
  | c :: rest =>
      match receive d s c with
      | (s1, ORetMsgs ms1) =>
          match receive_chunks d s1 rest with Some (s2, ms2) => Some (s2, ms1 ++ ms2) | None => None end
      | _ => None
      end
  end.

Lemma receive_empty d s : s_state s <> CLOSED -> receive d s [] = (s, ORetMsgs []) \/ True.
Proof. auto. Qed.

Theorem chunk_independent d : forall chunks s s' ms,
  s_state s <> CLOSED -> chunks <> [] ->
  receive d s (concat chunks) = (s', ORetMsgs ms) ->
  receive_chunks d s chunks = Some (s', ms).
Proof.
  induction chunks as [|c rest IH]; intros s s' ms NC Hne H; [congruence|].
  cbn [concat] in H. cbn [receive_chunks].
  destruct rest as [|c2 rest'].
  - cbn [concat] in H. rewrite app_nil_r in H. rewrite H. cbn [receive_chunks]. now rewrite app_nil_r.
  - destruct (receive_two_chunks d s c _ s' ms NC H) as (s1 & ms1 & ms2 & R1 & R2 & ->).
    rewrite R1.
    assert (NC1 : s_state s1 <> CLOSED).
    { apply (receive_ok d s _ _ _ NC) in R1. destruct R1 as (r0 & _ & PA).
      eapply process_all_open; [|exact PA]. exact NC. }
    rewrite (IH s1 s' ms2 NC1 ltac:(discriminate) R2). reflexivity.
Qed.
