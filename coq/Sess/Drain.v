(* C12: the outgoing byte stream, with a ghost history of what was sent and what was drained. *)
From Coq Require Import ZArith NArith List Bool Lia.
From Coq.Strings Require Import Byte.
From SV Require Import Base.Bytes Base.Py Gen.Generated Asn1.Model Msg.Types Msg.Encode Msg.Decode
  Sess.Model Sess.Basic Sess.Send.
Import ListNotations.
Local Open Scope Z_scope.

(* the message a send call builds (ids of client requests come from the counter) *)
Definition msg_of_call (s : sess) (c : call) : option msg :=
  match c with
  | CBind n a cs => Some (mkMsg (s_counter s) (BindRequest version3 n a) cs)
  | CExtended n v cs => Some (mkMsg (s_counter s) (ExtendedRequest n v) cs)
  | CSearch b sc de sl tl ty f at_ cs => Some (mkMsg (s_counter s) (SearchRequest b sc de sl tl ty f at_) cs)
  | SBindResponse id sasl code m dg cs => Some (mkMsg id (BindResponse (server_result code m dg) sasl) cs)
  | SExtendedResponse id n v code m dg cs => Some (mkMsg id (ExtendedResponse (server_result code m dg) n v) cs)
  | SEntry id n at_ cs => Some (mkMsg id (SearchResultEntry n at_) cs)
  | SReference id us cs => Some (mkMsg id (SearchResultReference us) cs)
  | SDone id code m dg cs => Some (mkMsg id (SearchResultDone (server_result code m dg)) cs)
  | Unbind => Some (mkMsg 0 UnbindRequest [])
  | Receive _ | Drain _ => None
  end.

Definition accepted (o : outcome) : bool := match o with ORetId _ | ORetNone => true | _ => false end.

(* bytes this call adds to the stream / hands to the caller *)
Definition sent_of (s : sess) (c : call) (o : outcome) : list byte :=
  match msg_of_call s c with
  | Some m => if accepted o then enc_msg m else []
  | None => []
  end.
Definition drained_of (o : outcome) : list byte := match o with ORetBytes b => b | _ => [] end.

Lemma py_cut_app a buf : fst (py_cut a buf) ++ snd (py_cut a buf) = buf.
Proof. unfold py_cut. destruct a; simpl; [apply firstn_skipn|apply app_nil_r]. Qed.

Lemma receive_no_bytes d s data s' o : receive d s data = (s', o) -> drained_of o = [].
Proof.
  unfold receive. destruct (s_state s); try (intros H; inversion H; reflexivity);
    destruct (parse_loop _ d _ []) as [[ms rest]|e];
    try (destruct e as [| | |k]; try destruct k; intros H; inversion H; reflexivity);
    destruct (process_all _ ms) as [s2 [p|]]; try destruct p; intros H; inversion H; reflexivity.
Qed.

Ltac use_send :=
  match goal with
  | H : client_send _ _ _ = (_, Some _) |- _ => apply client_send_some in H; simpl in H; decompose [and] H; clear H
  | H : client_send _ _ _ = (_, None) |- _ => apply client_send_none in H; subst
  | H : server_send _ _ = (_, Some _) |- _ => apply server_send_some in H; simpl in H; decompose [and] H; clear H
  | H : server_send _ _ = (_, None) |- _ => apply server_send_none in H; decompose [and] H; clear H
  end.

(* one step: drained ++ pending' = pending ++ sent *)
Lemma step_stream d s c s' o :
  step d s c = (s', o) -> drained_of o ++ s_out s' = s_out s ++ sent_of s c o.
Proof.
  unfold step, sent_of.
  destruct c; simpl msg_of_call; destruct (s_role s) eqn:R;
    try (intros H; inversion H; subst; simpl; now rewrite app_nil_r).
  all: try (intros H; rewrite (receive_no_bytes _ _ _ _ _ H); apply receive_same in H; destruct H as (H & _);
            simpl; now rewrite H, app_nil_r).
  all: try (destruct (py_cut amount (s_out s)) as [hd tl] eqn:P; intros H; inversion H; subst; simpl;
            rewrite app_nil_r; pose proof (py_cut_app amount (s_out s)) as Q; rewrite P in Q; exact Q).
  (* CBind *)
  - destruct (s_outstanding s); [|intros H; inversion H; subst; simpl; now rewrite app_nil_r].
    destruct (client_send s _ controls) as [s1 [i|]] eqn:E; intros H; inversion H; subst; simpl; use_send; simpl.
    + congruence.
    + now rewrite app_nil_r.
  (* CExtended *)
  - unfold ret. destruct (client_send s _ controls) as [s1 [i|]] eqn:E; intros H; inversion H; subst; simpl; use_send; simpl.
    + congruence.
    + now rewrite app_nil_r.
  (* CSearch *)
  - destruct (enum_member scope search_scopes); [|intros H; inversion H; subst; simpl; now rewrite app_nil_r].
    destruct (enum_member deref deref_policies); [|intros H; inversion H; subst; simpl; now rewrite app_nil_r].
    destruct (client_send s _ controls) as [s1 [i|]] eqn:E; intros H; inversion H; subst; simpl; use_send; simpl.
    + congruence.
    + now rewrite app_nil_r.
  (* SBindResponse *)
  - destruct (server_send s _) as [s1 [i|]] eqn:E; intros H; inversion H; subst; simpl; use_send; simpl.
    + destruct (code =? rc_sasl); simpl; congruence.
    + rewrite app_nil_r. congruence.
  (* SExtendedResponse *)
  - destruct (server_send s _) as [s1 [i|]] eqn:E; intros H; inversion H; subst; simpl; use_send; simpl.
    + destruct (is_notice_name name); simpl; congruence.
    + rewrite app_nil_r. congruence.
  (* SEntry *)
  - unfold ret. destruct (server_send s _) as [s1 [i|]] eqn:E; intros H; inversion H; subst; simpl; use_send; simpl.
    + congruence.
    + rewrite app_nil_r. congruence.
  (* SReference *)
  - unfold ret. destruct (server_send s _) as [s1 [i|]] eqn:E; intros H; inversion H; subst; simpl; use_send; simpl.
    + congruence.
    + rewrite app_nil_r. congruence.
  (* SDone *)
  - destruct (server_send s _) as [s1 [i|]] eqn:E; intros H; inversion H; subst; simpl; use_send; simpl.
    + congruence.
    + rewrite app_nil_r. congruence.
  (* Unbind, client *)
  - destruct (client_send s UnbindRequest []) as [s1 [i|]] eqn:E; intros H; inversion H; subst; simpl; use_send; simpl.
    + congruence.
    + now rewrite app_nil_r.
  (* Unbind, server *)
  - destruct (server_send s _) as [s1 [i|]] eqn:E; intros H; inversion H; subst; simpl; use_send; simpl.
    + congruence.
    + rewrite app_nil_r. congruence.
Qed.

(* draining never affects protocol state *)
Lemma drain_only_cuts d s a s' o :
  step d s (Drain a) = (s', o) ->
  s_state s' = s_state s /\ s_outstanding s' = s_outstanding s /\ s_searches s' = s_searches s /\
  s_counter s' = s_counter s /\ s_in s' = s_in s /\ s_role s' = s_role s /\
  o = ORetBytes (fst (py_cut a (s_out s))) /\ s_out s' = snd (py_cut a (s_out s)).
Proof.
  unfold step. destruct s as [r st out os ss cnt inb]. simpl.
  destruct r; destruct (py_cut a out) as [hd tl] eqn:P;
    intros H; inversion H; subst; simpl; repeat split; reflexivity.
Qed.

(* whole histories, with the ghost streams *)
Fixpoint ghost (d : nat) (s : sess) (cs : list call) : list byte * list byte * sess :=
  match cs with
  | [] => ([], [], s)
  | c :: rest =>
      let '(s', o) := step d s c in
      let '(dr, sn, s'') := ghost d s' rest in
      (drained_of o ++ dr, sent_of s c o ++ sn, s'')
  end.

Theorem stream_exactly_once d cs s :
  let '(drained, sent, s') := ghost d s cs in
  drained ++ s_out s' = s_out s ++ sent.
Proof.
  revert s. induction cs as [|c cs IH]; intros s; cbn [ghost].
  - now rewrite app_nil_r.
  - destruct (step d s c) as [s1 o] eqn:E.
    specialize (IH s1). destruct (ghost d s1 cs) as [[dr sn] s2].
    apply step_stream in E.
    rewrite <- app_assoc, IH, app_assoc, E, <- app_assoc. reflexivity.
Qed.

Corollary stream_from_init d r cs :
  let '(drained, sent, s') := ghost d (init r) cs in drained ++ s_out s' = sent.
Proof. pose proof (stream_exactly_once d cs (init r)) as H. destruct (ghost d (init r) cs) as [[a b] c]. exact H. Qed.
