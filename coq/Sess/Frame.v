(* C06: an independent TLV framer (identifier and length octets only, written from X.690 8.1.2 /
   8.1.3) and the proof that receive accounts for exactly the complete units it delimits. *)
From Coq Require Import ZArith NArith List Bool Lia ZifyBool.
From Coq.Strings Require Import Byte.
From SV Require Import Base.Bytes Base.Py Gen.Generated Asn1.Model Asn1.Progress Msg.Types Msg.Encode Msg.Decode
  Msg.Progress Sess.Model Sess.Basic Sess.Send.
Import ListNotations.
Local Open Scope N_scope.
#[local] Arguments N.add : simpl never.
#[local] Arguments N.sub : simpl never.
#[local] Arguments N.mul : simpl never.
#[local] Arguments N.leb : simpl never.
#[local] Arguments N.ltb : simpl never.
#[local] Arguments N.eqb : simpl never.

(* ---- specification *)
Inductive framing :=
| FIncomplete                         (* more octets are needed to delimit the unit *)
| FIndefinite                         (* length octet 0x80 *)
| FUnit (hlen len : N).               (* identifier+length octets, content octets; all present *)

(* number of octets of a high-tag-number field, None when it is cut *)
Fixpoint hi_tag_octets (l : list byte) : option N :=
  match l with
  | [] => None
  | b :: r => if b2n b <? 128 then Some 1 else match hi_tag_octets r with Some n => Some (1 + n) | None => None end
  end.

Definition frame_one (r : list byte) : framing :=
  match r with
  | [] => FIncomplete
  | o1 :: a1 =>
      match (if b2n o1 mod 32 =? 31 then hi_tag_octets a1 else Some 0) with
      | None => FIncomplete
      | Some t =>
          match drop (1 + t) r with
          | [] => FIncomplete
          | l0 :: al =>
              let l := b2n l0 in
              if l =? 128 then FIndefinite
              else if l <? 128 then
                if nlen al <? l then FIncomplete else FUnit (1 + t + 1) l
              else
                let k := l - 128 in
                if nlen al <? k then FIncomplete
                else
                  let len := be_val (take k al) in
                  if nlen al - k <? len then FIncomplete else FUnit (1 + t + 1 + k) len
          end
      end
  end.

(* ---- agreement with the reader *)
Lemma hi_tag_agrees l : forall i idx,
  match unpack_octet_number l i idx with
  | Ok (_, c) => hi_tag_octets l = Some (c - idx) /\ idx < c
  | Raise NeedMore => hi_tag_octets l = None
  | Raise _ => False
  end.
Proof.
  induction l as [|b r IH]; intros i idx; cbn [unpack_octet_number hi_tag_octets]; [reflexivity|].
  destruct (b2n b <? 128).
  - split; [f_equal; lia|lia].
  - specialize (IH (i * 128 + b2n b mod 128) (idx + 1)).
    destruct (unpack_octet_number r _ _) as [[n c]|e].
    + destruct IH as [IH1 IH2]. rewrite IH1. split; [f_equal; lia|lia].
    + destruct e; try contradiction. now rewrite IH.
Qed.

Lemma read_len_octets_val k : forall view acc,
  match read_len_octets k view acc with
  | Ok v => (k <= length view)%nat /\ v = fold_left (fun a b => a * 256 + b2n b) (firstn k view) acc
  | Raise NeedMore => (length view < k)%nat
  | Raise _ => False
  end.
Proof.
  induction k as [|k IH]; intros view acc; cbn [read_len_octets].
  - split; [lia|reflexivity].
  - destruct view as [|b rest]; [cbn; lia|].
    specialize (IH rest (acc * 256 + b2n b)). destruct (read_len_octets k rest _) as [v|e].
    + destruct IH as [I1 I2]. split; [cbn [length]; lia|]. cbn [firstn fold_left]. exact I2.
    + destruct e; try contradiction. cbn [length]. lia.
Qed.

(* when the header reader succeeds the framer sees the same header and content lengths; when it
   asks for more data the framer says incomplete *)
Lemma frame_agrees_header r :
  match read_header r with
  | Ok h => if nlen r - h_hlen h <? h_len h then frame_one r = FIncomplete
            else frame_one r = FUnit (h_hlen h) (h_len h)
  | Raise NeedMore => frame_one r = FIncomplete
  | Raise _ => True
  end.
Proof.
  unfold read_header, frame_one. destruct r as [|o1 a1]; [reflexivity|].
  destruct (b2n o1 mod 32 =? 31) eqn:E31.
  - pose proof (hi_tag_agrees a1 0 0) as HT.
    destruct (unpack_octet_number a1 0 0) as [[n c]|e]; cbn [bind].
    2: { destruct e; try exact I. now rewrite HT. }
    destruct HT as [HT Hc]. rewrite HT. replace (c - 0) with c by lia.
    destruct (_ && _); [exact I|].
    destruct (drop (1 + c) (o1 :: a1)) as [|l0 al] eqn:D; [reflexivity|].
    assert (Hd : nlen (drop (1 + c) (o1 :: a1)) = nlen (o1 :: a1) - (1 + c)) by apply nlen_drop.
    rewrite D in Hd. unfold nlen at 1 in Hd. cbn [length] in Hd.
    destruct (b2n l0 =? 128) eqn:E128; [exact I|].
    destruct (128 <? b2n l0) eqn:EL.
    + pose proof (read_len_octets_val (N.to_nat (b2n l0 - 128)) al 0) as RL.
      destruct (read_len_octets _ al 0) as [len|e]; cbn [bind].
      * destruct RL as [R1 R2]. assert (E1 : (b2n l0 <? 128) = false) by lia. rewrite E1.
        assert (E2 : (nlen al <? b2n l0 - 128) = false) by (unfold nlen; lia). rewrite E2.
        assert (E3 : be_val (take (b2n l0 - 128) al) = len).
        { unfold be_val. rewrite take_firstn. now rewrite R2. }
        rewrite E3. cbn [h_hlen h_len].
        replace (nlen (o1 :: a1) - (1 + c + 1 + (b2n l0 - 128))) with (nlen al - (b2n l0 - 128)) by (unfold nlen in *; cbn [length] in *; lia).
        destruct (_ <? len); reflexivity.
      * destruct e; try exact I. assert (E1 : (b2n l0 <? 128) = false) by lia. rewrite E1.
        assert (E2 : (nlen al <? b2n l0 - 128) = true) by (unfold nlen; lia). now rewrite E2.
    + assert (E1 : (b2n l0 <? 128) = true) by lia. rewrite E1. cbn [h_hlen h_len].
      replace (nlen (o1 :: a1) - (1 + c + 1)) with (nlen al) by (unfold nlen in *; cbn [length] in *; lia).
      destruct (nlen al <? b2n l0); reflexivity.
  - cbn [bind]. destruct (_ && _); [exact I|].
    replace (1 + 0) with 1 by lia.
    destruct (drop 1 (o1 :: a1)) as [|l0 al] eqn:D; [reflexivity|].
    assert (Hd : nlen (drop 1 (o1 :: a1)) = nlen (o1 :: a1) - 1) by apply nlen_drop.
    rewrite D in Hd. unfold nlen at 1 in Hd. cbn [length] in Hd.
    destruct (b2n l0 =? 128) eqn:E128; [exact I|].
    destruct (128 <? b2n l0) eqn:EL.
    + pose proof (read_len_octets_val (N.to_nat (b2n l0 - 128)) al 0) as RL.
      destruct (read_len_octets _ al 0) as [len|e]; cbn [bind].
      * destruct RL as [R1 R2]. assert (E1 : (b2n l0 <? 128) = false) by lia. rewrite E1.
        assert (E2 : (nlen al <? b2n l0 - 128) = false) by (unfold nlen; lia). rewrite E2.
        assert (E3 : be_val (take (b2n l0 - 128) al) = len).
        { unfold be_val. rewrite take_firstn. now rewrite R2. }
        rewrite E3. cbn [h_hlen h_len].
        replace (nlen (o1 :: a1) - (1 + 1 + (b2n l0 - 128))) with (nlen al - (b2n l0 - 128)) by (unfold nlen in *; cbn [length] in *; lia).
        replace (1 + 0 + 1 + (b2n l0 - 128)) with (1 + 1 + (b2n l0 - 128)) by lia.
        destruct (_ <? len); reflexivity.
      * destruct e; try exact I. assert (E1 : (b2n l0 <? 128) = false) by lia. rewrite E1.
        assert (E2 : (nlen al <? b2n l0 - 128) = true) by (unfold nlen; lia). now rewrite E2.
    + assert (E1 : (b2n l0 <? 128) = true) by lia. rewrite E1. cbn [h_hlen h_len].
      replace (nlen (o1 :: a1) - (1 + 1)) with (nlen al) by (unfold nlen in *; cbn [length] in *; lia).
      replace (1 + 0 + 1) with (1 + 1) by lia.
      destruct (nlen al <? b2n l0); reflexivity.
Qed.

(* ---- one message = one complete unit *)
Lemma unpack_message_frames d r :
  match unpack_message d r with
  | Ok (_, r') => exists hl ln, frame_one r = FUnit hl ln /\ r' = drop (hl + ln) r /\ 2 <= hl
  | Raise NeedMore => frame_one r = FIncomplete
  | Raise _ => True
  end.
Proof.
  unfold unpack_message, read_sequence, rd, read_sequence_raw, validate_tag, pick_tag.
  pose proof (frame_agrees_header r) as FA.
  destruct (read_header r) as [h|e] eqn:RH; cbn [bind].
  2: { destruct e; try exact I; exact FA. }
  pose proof (read_header_bounds _ _ RH) as [B1 B2].
  destruct (negb _); [exact I|].
  rewrite nlen_drop. destruct (nlen r - h_hlen h <? h_len h); cbn [bind]; [exact FA|].
  destruct (unpack_message_value d _) as [m|e]; [|destruct e; exact I].
  exists (h_hlen h), (h_len h). repeat split; auto.
Qed.

Inductive framed : list byte -> nat -> list byte -> Prop :=
| fr_done r : (r = [] \/ frame_one r = FIncomplete) -> framed r 0 r
| fr_unit r hl ln n rest :
    frame_one r = FUnit hl ln -> 2 <= hl -> framed (drop (hl + ln) r) n rest -> framed r (S n) rest.

Lemma parse_loop_framed d : forall fuel r acc ms rest,
  parse_loop fuel d r acc = Ok (ms, rest) ->
  exists n, length ms = (length acc + n)%nat /\ framed r n rest.
Proof.
  induction fuel as [|f IH]; intros r acc ms rest; cbn [parse_loop].
  - destruct r; [|discriminate]. intros H; inversion H; subst. exists 0%nat. split; [lia|]. constructor. now left.
  - destruct r as [|b r0] eqn:Er.
    + intros H; inversion H; subst. exists 0%nat. split; [lia|]. constructor. now left.
    + rewrite <- Er. pose proof (unpack_message_frames d r) as UF.
      destruct (unpack_message d r) as [[m r']|e].
      * destruct UF as (hl & ln & F & -> & Hh). intros H. apply IH in H. destruct H as (n & L & Fr).
        exists (S n). split; [rewrite L, app_length; cbn; lia|]. econstructor; eauto.
      * destruct e; try discriminate. intros H; inversion H; subst.
        exists 0%nat. split; [lia|]. constructor. now right.
Qed.

Lemma process_client_in s m s' r : process_client s m = (s', r) -> s_in s' = s_in s.
Proof. unfold process_client. split_all; intros H; inversion H; subst; simpl; split_all; reflexivity. Qed.
Lemma process_server_in s m s' r : process_server s m = (s', r) -> s_in s' = s_in s.
Proof. unfold process_server. split_all; intros H; inversion H; subst; simpl; reflexivity. Qed.
Lemma process_all_in ms : forall s s' r, process_all s ms = (s', r) -> s_in s' = s_in s.
Proof.
  induction ms as [|m ms IH]; intros s s' r; cbn [process_all]; [intros H; now inversion H|].
  destruct (is_notice (m_op m)); [intros H; now inversion H|].
  destruct (kind_of (m_op m)); try (intros H; now inversion H);
    (destruct (s_role s);
     [destruct (process_client s m) as [s1 [p|]] eqn:P; [intros H; inversion H; subst; eapply process_client_in; eauto|];
      intros H; apply IH in H; rewrite H; eapply process_client_in; eauto
     |destruct (process_server s m) as [s1 [p|]] eqn:P; [intros H; inversion H; subst; eapply process_server_in; eauto|];
      intros H; apply IH in H; rewrite H; eapply process_server_in; eauto]).
Qed.

(* In an error-free call the messages returned are exactly the complete units delimited by the
   independent framer in (residue ++ new data), and what is held back is a genuinely incomplete
   unit (or nothing). *)
Theorem receive_accounts_for_every_unit d s data s' ms :
  s_state s <> CLOSED -> receive d s data = (s', ORetMsgs ms) ->
  framed (s_in s ++ data) (length ms) (s_in s').
Proof.
  intros NC. unfold receive. destruct (s_state s) eqn:S; [| | |congruence].
  all: destruct (s_in s) as [|b0 i0] eqn:SI; cbn [app].
  all: match goal with
       | |- context [parse_loop ?f ?dd ?inp []] => destruct (parse_loop f dd inp []) as [[ms0 rest]|e] eqn:PL
       end.
  all: try (destruct e as [| | |k]; try destruct k; intros H; inversion H; fail).
  all: match goal with
       | |- context [process_all ?s1 ?mm] => destruct (process_all s1 mm) as [s2 [p|]] eqn:P
       end.
  all: try (destruct p; intros H; inversion H; fail).
  all: intros H; inversion H; subst.
  all: apply process_all_in in P; rewrite P.
  all: apply parse_loop_framed in PL; destruct PL as (n & L & Fr); cbn [length Nat.add] in L; rewrite L.
  all: try (destruct rest; cbn [s_in set_in]; [rewrite SI|]; exact Fr).
  all: cbn [s_in set_in]; exact Fr.
Qed.

(* the framing is a decomposition of the octets: nothing is dropped, duplicated or reordered *)
Lemma framed_concat r n rest : framed r n rest -> exists units, r = concat units ++ rest /\ length units = n.
Proof.
  induction 1 as [r _|r hl ln n rest F Hh Fr (units & E & L)].
  - exists []. split; reflexivity.
  - exists (take (hl + ln) r :: units). split; [|cbn; now rewrite L].
    cbn [concat]. rewrite <- app_assoc, <- E. symmetry. apply take_drop.
Qed.
