(* C09: message ids handed out by a client, and correlation of responses by id. *)
From Coq Require Import ZArith NArith List Bool Lia.
From Coq.Strings Require Import Byte.
From SV Require Import Base.Bytes Base.Py Gen.Generated Asn1.Model Msg.Types Msg.Encode Msg.Decode
  Sess.Model Sess.Basic Sess.Send Sess.Drain Sess.Wire Sess.Lifecycle.
Import ListNotations.
Local Open Scope Z_scope.

Definition ids_inv (s : sess) : Prop :=
  1 <= s_counter s /\
  (forall i, In i (s_outstanding s) -> 0 < i < s_counter s) /\
  (s_state s <> CLOSED -> forall i, In i (s_searches s) -> In i (s_outstanding s)).

Lemma ids_inv_init : ids_inv (init Client).
Proof. repeat split; simpl; try lia; intros; contradiction. Qed.

Definition is_request_call (c : call) : bool :=
  match c with CBind _ _ _ | CExtended _ _ _ | CSearch _ _ _ _ _ _ _ _ _ => true | _ => false end.

(* ids are the counter values: positive, fresh, consecutive *)
Theorem request_ids d s c s' i :
  s_role s = Client -> ids_inv s -> is_request_call c = true -> step d s c = (s', ORetId i) ->
  i = s_counter s /\ 0 < i /\ s_counter s' = i + 1 /\ ~ In i (s_outstanding s) /\ In i (s_outstanding s') /\
  exists m, msg_of_call s c = Some m /\ m_id m = i /\ s_out s' = s_out s ++ enc_msg m.
Proof.
  intros R (I1 & I2 & I3) Q. unfold step, ret. rewrite R.
  destruct c; try discriminate Q; cbv beta iota.
  all: repeat match goal with
              | |- context [match s_outstanding ?x with _ => _ end] => destruct (s_outstanding x) eqn:?
              | |- context [match enum_member ?a ?b with _ => _ end] => destruct (enum_member a b)
              end; try discriminate.
  all: match goal with |- context [client_send ?s0 ?o0 ?cs0] =>
         destruct (client_send s0 o0 cs0) as [s1 [j|]] eqn:E; [|discriminate];
         apply client_send_some in E; simpl in E; decompose [and] E; clear E end.
  all: intros HH; inversion HH; subst; clear HH; simpl.
  all: repeat match goal with H : s_outstanding _ = _ |- _ => rewrite H end.
  all: repeat match goal with H : s_counter _ = _ |- _ => rewrite H end.
  all: repeat match goal with H : s_out _ = _ |- _ => rewrite H end.
  all: split; [reflexivity|]; split; [lia|]; split; [reflexivity|]; split;
       [intros C; try (apply I2 in C; lia); try contradiction|]; split;
       [apply zadd_in; auto|eexists; split; [reflexivity|split; reflexivity]].
Qed.

(* only an accepted request advances the counter *)
Theorem counter_moves_only_on_accepted_request d s c s' o :
  step d s c = (s', o) ->
  s_counter s' = s_counter s \/
  (s_role s = Client /\ is_request_call c = true /\ o = ORetId (s_counter s) /\ s_counter s' = s_counter s + 1).
Proof.
  destruct c.
  11: { intros H. apply drain_only_cuts in H. decompose [and] H. left; assumption. }
  10: { unfold step. intros H. assert (H' : receive d s data = (s', o)) by (destruct (s_role s); exact H).
        apply receive_same in H'. destruct H' as (_ & H' & _). left; exact H'. }
  all: unfold step, ret; destruct (s_role s) eqn:R; cbv beta iota.
  all: try (intros H; inversion H; subst; left; reflexivity).
  all: repeat match goal with
              | |- context [match s_outstanding ?x with _ => _ end] => destruct (s_outstanding x) eqn:?
              | |- context [match enum_member ?a ?b with _ => _ end] => destruct (enum_member a b)
              end; try (intros H; inversion H; subst; left; reflexivity).
  all: send_cases.
  all: intros HH; inversion HH; subst; clear HH; simpl.
  all: try (left; split_all; simpl; assumption || reflexivity).
  all: try (right; repeat split; simpl; try assumption; try reflexivity).
Qed.

(* ---- correlation of responses *)
Theorem response_accepted_iff_in_progress s m :
  s_state s <> CLOSED -> ids_inv s -> is_response (kind_of (m_op m)) = true ->
  (snd (process_client s m) = None <-> In (m_id m) (s_outstanding s)) /\
  (forall k, snd (process_client s m) <> Some (PCrash k)).
Proof.
  intros NC (_ & _ & I3) Rk. specialize (I3 NC).
  rewrite <- zmem_in.
  assert (Sub : zmem (m_id m) (s_searches s) = true -> zmem (m_id m) (s_outstanding s) = true)
    by (intros E; apply zmem_in; apply I3; now apply zmem_in).
  unfold process_client. rewrite Rk. cbv beta iota.
  destruct (zmem (m_id m) (s_searches s)) eqn:S1; destruct (zmem (m_id m) (s_outstanding s)) eqn:S2;
    try (specialize (Sub eq_refl); discriminate Sub); simpl.
  all: destruct (m_op m) eqn:O; simpl; try discriminate Rk.
  all: repeat match goal with |- context [if ?b then _ else _] => destruct b eqn:? end; simpl.
  all: repeat match goal with H : zmem _ _ = _ |- _ => simpl in H; try rewrite S2 in H; try discriminate H end.
  all: split; [split; intros; try reflexivity; try discriminate|intros k; discriminate].
Qed.

(* any request-type message, or a response whose id is not in progress, is a protocol error *)
Theorem request_message_rejected s m :
  is_response (kind_of (m_op m)) = false -> process_client s m = (s, Some (PF None false)).
Proof. intros H. unfold process_client. now rewrite H. Qed.

Theorem unknown_id_rejected s m :
  s_state s <> CLOSED -> ids_inv s -> ~ In (m_id m) (s_outstanding s) ->
  process_client s m = (s, Some (PF None false)).
Proof.
  intros NC (_ & _ & I3) NI. specialize (I3 NC). unfold process_client.
  destruct (negb (is_response (kind_of (m_op m)))); [reflexivity|].
  assert (S1 : zmem (m_id m) (s_searches s) = false).
  { destruct (zmem _ (s_searches s)) eqn:E; [|reflexivity]. apply zmem_in, I3 in E. contradiction. }
  assert (S2 : zmem (m_id m) (s_outstanding s) = false).
  { destruct (zmem _ (s_outstanding s)) eqn:E; [|reflexivity]. apply zmem_in in E. contradiction. }
  rewrite S1, S2. reflexivity.
Qed.

(* retirement: a search stays in progress until its SearchResultDone, everything else
   completes on its first response *)
Theorem retirement s m s' :
  process_client s m = (s', None) ->
  let stays := zmem (m_id m) (s_searches s) && negb (match kind_of (m_op m) with KDone => true | _ => false end) in
  (stays = true -> s_outstanding s' = s_outstanding s /\ s_searches s' = s_searches s) /\
  (stays = false -> ~ In (m_id m) (s_outstanding s') /\ ~ In (m_id m) (s_searches s')).
Proof.
  unfold process_client.
  destruct (negb (is_response (kind_of (m_op m)))); [discriminate|].
  destruct (zmem (m_id m) (s_searches s)) eqn:S1; simpl.
  - destruct (match kind_of (m_op m) with KDone => true | _ => false end) eqn:D; simpl.
    + set (s1 := set_searches s _).
      set (s2 := match m_op m with BindResponse res _ => _ | _ => s1 end).
      assert (G : s_outstanding s2 = s_outstanding s /\ s_searches s2 = zdel (m_id m) (s_searches s))
        by (unfold s2; destruct (m_op m); try (split; reflexivity); destruct (_ =? _); split; reflexivity).
      destruct G as [G1 G2]. destruct (zmem (m_id m) (s_outstanding s2)); intros H; inversion H; subst; simpl.
      split; [discriminate|]. intros _. rewrite G1, G2. split; intros C; apply zdel_in in C; destruct C; congruence.
    + set (s2 := match m_op m with BindResponse res _ => _ | _ => s end).
      assert (G : s_outstanding s2 = s_outstanding s /\ s_searches s2 = s_searches s)
        by (unfold s2; destruct (m_op m); try (split; reflexivity); destruct (_ =? _); split; reflexivity).
      intros H; inversion H; subst. split; [intros _; exact G|discriminate].
  - destruct (negb (zmem (m_id m) (s_outstanding s))); [discriminate|]. simpl.
    set (s2 := match m_op m with BindResponse res _ => _ | _ => s end).
    assert (G : s_outstanding s2 = s_outstanding s /\ s_searches s2 = s_searches s)
      by (unfold s2; destruct (m_op m); try (split; reflexivity); destruct (_ =? _); split; reflexivity).
    destruct G as [G1 G2]. destruct (zmem (m_id m) (s_outstanding s2)); intros H; inversion H; subst; simpl.
    split; [discriminate|]. intros _. rewrite G1, G2. split.
    + intros C. apply zdel_in in C. destruct C; congruence.
    + intros C. apply zmem_in in C. congruence.
Qed.
