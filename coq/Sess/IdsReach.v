(* C09: the numeric part of the id invariant (counter >= 1, every id in progress is a positive id already handed
   out) holds in every state a client can reach, so the C09 theorems need no hypothesis about the state. *)
From Coq Require Import ZArith NArith List Bool Lia.
From Coq.Strings Require Import Byte.
From SV Require Import Base.Bytes Base.Py Gen.Generated Asn1.Model Msg.Types Msg.Encode Msg.Decode
  Sess.Model Sess.Basic Sess.Send Sess.Drain Sess.Lifecycle Sess.Ids Sess.Total.
Import ListNotations.
Local Open Scope Z_scope.

(* "b's ids in progress are among a's, same counter and role" *)
Definition shrinks (a b : sess) : Prop :=
  s_counter b = s_counter a /\ s_role b = s_role a /\ forall i, In i (s_outstanding b) -> In i (s_outstanding a).

Lemma shrinks_refl a : shrinks a a.
Proof. repeat split; auto. Qed.
Lemma shrinks_trans a b c : shrinks a b -> shrinks b c -> shrinks a c.
Proof. intros (A1 & A2 & A3) (B1 & B2 & B3). repeat split; try congruence. auto. Qed.

Lemma process_client_shrinks s m s' r : process_client s m = (s', r) -> shrinks s s'.
Proof.
  unfold process_client.
  destruct (negb (is_response (kind_of (m_op m)))); [intros H; inversion H; apply shrinks_refl|].
  destruct (negb (zmem (m_id m) (s_searches s)) && negb (zmem (m_id m) (s_outstanding s))); [intros H; inversion H; apply shrinks_refl|].
  set (s1 := if zmem (m_id m) (s_searches s) && _ then _ else s).
  assert (H1 : shrinks s s1) by (unfold s1; destruct (_ && _); repeat split; auto).
  set (s2 := match m_op m with BindResponse res _ => _ | _ => s1 end).
  assert (H2 : shrinks s1 s2) by (unfold s2; destruct (m_op m); try apply shrinks_refl; destruct (_ =? _); repeat split; auto).
  destruct (negb (zmem (m_id m) (s_searches s)) || _).
  - destruct (zmem (m_id m) (s_outstanding s2)); intros H; inversion H; subst.
    + eapply shrinks_trans; [exact H1|]. eapply shrinks_trans; [exact H2|]. repeat split. cbn. intros i Hi. apply zdel_in in Hi. tauto.
    + eapply shrinks_trans; eassumption.
  - intros H; inversion H; subst. eapply shrinks_trans; eassumption.
Qed.

Lemma process_all_client_shrinks ms : forall s s' r, s_role s = Client -> process_all s ms = (s', r) -> shrinks s s'.
Proof.
  induction ms as [|m ms IH]; intros s s' r Rl; cbn [process_all].
  - intros H; inversion H; apply shrinks_refl.
  - destruct (is_notice (m_op m)); [intros H; inversion H; apply shrinks_refl|].
    rewrite Rl. destruct (kind_of (m_op m)) eqn:K; try (intros H; inversion H; apply shrinks_refl);
      (destruct (process_client s m) as [s1 [p|]] eqn:P;
       [intros H; inversion H; subst; eapply process_client_shrinks; eauto|];
       intros H; pose proof (process_client_shrinks _ _ _ _ P) as Sh; eapply shrinks_trans; [exact Sh|];
       eapply IH; [destruct Sh as (_ & Sr & _); congruence|exact H]).
Qed.

Lemma receive_client_shrinks d s data s' o : s_role s = Client -> receive d s data = (s', o) -> shrinks s s'.
Proof.
  intros Rl. unfold receive. destruct (s_state s); try (intros H; inversion H; apply shrinks_refl);
  (set (buffered := match s_in s with [] => false | _ => true end);
   set (input := if buffered then s_in s ++ data else data);
   set (s0 := if buffered then set_in s input else s);
   assert (H0 : shrinks s s0) by (unfold s0; destruct buffered; repeat split; auto);
   destruct (parse_loop _ d input []) as [[ms rest]|e];
   [ set (s1 := if buffered then set_in s0 rest else match rest with [] => s0 | _ => set_in s0 rest end);
     assert (H1 : shrinks s0 s1) by (unfold s1; destruct buffered; [|destruct rest]; repeat split; auto);
     assert (R1 : s_role s1 = Client) by (destruct H0 as (_ & A & _), H1 as (_ & B & _); congruence);
     destruct (process_all s1 ms) as [s2 [p|]] eqn:P;
     [destruct p|]; intros H; inversion H; subst;
     (eapply shrinks_trans; [exact H0|]; eapply shrinks_trans; [exact H1|]);
     (eapply shrinks_trans; [eapply process_all_client_shrinks; eauto|]); repeat split; auto; cbn; intros i []
   | destruct e as [| | |k]; try destruct k; intros H; inversion H; subst;
     (eapply shrinks_trans; [exact H0|]); repeat split; auto; cbn; intros i [] ]).
Qed.

Definition ids_num (s : sess) : Prop := 1 <= s_counter s /\ forall i, In i (s_outstanding s) -> 0 < i < s_counter s.

Lemma shrinks_num a b : ids_num a -> shrinks a b -> ids_num b.
Proof. intros (N1 & N2) (S1 & _ & S3). split; [lia|]. intros i Hi. rewrite S1. apply N2, S3, Hi. Qed.

Ltac red_step2 :=
  cbv beta iota zeta delta [step client_send server_send base_send ret set_in set_out set_searches set_outstanding set_state set_counter
       s_in s_out s_state s_role s_outstanding s_searches s_counter m_id m_op m_controls kind_of negb andb orb fst snd is_notice
       server_result ids_num].
Ltac step_cases2 :=
  repeat (red_step2;
          match goal with
          | |- context [if ?b then _ else _] =>
              lazymatch b with
              | context [if _ then _ else _] => fail
              | context [match _ with _ => _ end] => fail
              | _ => destruct b
              end
          | |- context [match ?x with _ => _ end] =>
              lazymatch x with
              | context [if _ then _ else _] => fail
              | context [match _ with _ => _ end] => fail
              | _ => destruct x
              end
          end).

Lemma step_num d s c s' o : s_role s = Client -> ids_num s -> step d s c = (s', o) -> ids_num s' /\ s_role s' = Client.
Proof.
  intros Rl N. destruct c.
  11: { (* Drain *) unfold step. rewrite Rl. destruct (py_cut amount (s_out s)). intros H; inversion H; subst. split; [exact N|exact Rl]. }
  10: { (* Receive *) unfold step. rewrite Rl. intros H. pose proof (receive_client_shrinks d s data s' o Rl H) as Sh.
        split; [eapply shrinks_num; eauto|]. destruct Sh as (_ & Sr & _). congruence. }
  all: destruct s as [r st out os ss cnt inb]; cbn in Rl; subst r; destruct N as (N1 & N2); cbn [s_counter s_outstanding] in N1, N2;
       step_cases2; red_step2; intros H; inversion H; subst; (split; [|reflexivity]); split; try lia;
       try solve [intros i Hi; apply N2 in Hi; lia];
       try solve [intros i Hi; apply zadd_in in Hi; destruct Hi as [Hi| ->]; [apply N2 in Hi; lia|lia]];
       try solve [intros i []].
Qed.

(* in every state a client reaches, whatever the calls *)
Theorem ids_inv_reachable d cs : ids_inv (fst (run d (init Client) cs)).
Proof.
  assert (Gen : forall cs s, s_role s = Client -> ids_num s -> ids_num (fst (run d s cs)) /\ s_role (fst (run d s cs)) = Client).
  { induction cs0 as [|c cs0 IH]; intros s Rl N; cbn [run]; [split; assumption|].
    destruct (step d s c) as [s1 o] eqn:E. destruct (step_num d s c s1 o Rl N E) as [N1 R1].
    specialize (IH s1 R1 N1). destruct (run d s1 cs0). exact IH. }
  destruct (Gen cs (init Client) eq_refl) as [(N1 & N2) Rl]; [split; [cbn; lia|intros i []]|].
  split; [exact N1|]. split; [exact N2|].
  intros NC. exact (good_reachable d Client cs NC Rl).
Qed.
