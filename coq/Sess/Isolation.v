(* C19 (the part a pure model can state): a session's behaviour is a function of its own call
   history.  Two sessions driven by any interleaving of their call sequences produce exactly the
   outcomes, states and bytes each produces alone.  In Gallina this holds by construction -- [step]
   takes and returns one session value and nothing else -- so the theorem mainly records that the
   model has no hidden shared state; whether the Python objects share state (class attributes, module
   level registries) is what the interleaved-vs-alone experiment of the check decides. *)
From Coq Require Import ZArith List Bool.
From SV Require Import Base.Py Msg.Types Sess.Model.
Import ListNotations.

(* a schedule: which of the two sessions makes the next call *)
Fixpoint run_pair (d : nat) (a b : sess) (sched : list (bool * call)) : sess * sess * list (bool * outcome) :=
  match sched with
  | [] => (a, b, [])
  | (true, c) :: rest =>
      let '(a', o) := step d a c in
      let '(a'', b'', os) := run_pair d a' b rest in (a'', b'', (true, o) :: os)
  | (false, c) :: rest =>
      let '(b', o) := step d b c in
      let '(a'', b'', os) := run_pair d a b' rest in (a'', b'', (false, o) :: os)
  end.

Definition side {A} (w : bool) (l : list (bool * A)) : list A :=
  map snd (List.filter (fun x => Bool.eqb (fst x) w) l).

Theorem interleaving_is_unobservable d : forall sched a b,
  let '(a', b', os) := run_pair d a b sched in
  run d a (side true sched) = (a', side true os) /\ run d b (side false sched) = (b', side false os).
Proof.
  induction sched as [|[w c] rest IH]; intros a b; cbn [run_pair side List.filter map run fst snd].
  - split; reflexivity.
  - destruct w; cbn [Bool.eqb fst].
    + destruct (step d a c) as [a1 o] eqn:E. specialize (IH a1 b). destruct (run_pair d a1 b rest) as [[a2 b2] os].
      destruct IH as [IH1 IH2]. cbn [side List.filter map fst snd Bool.eqb]. cbn [run]. rewrite E.
      unfold side in IH1. rewrite IH1. split; [reflexivity|exact IH2].
    + destruct (step d b c) as [b1 o] eqn:E. specialize (IH a b1). destruct (run_pair d a b1 rest) as [[a2 b2] os].
      destruct IH as [IH1 IH2]. cbn [side List.filter map fst snd Bool.eqb]. cbn [run]. rewrite E.
      unfold side in IH2. rewrite IH2. split; [exact IH1|reflexivity].
Qed.
